package main

// C08 — tokens and blocks are immutable values; sibling derivations are independent.
// Random histories over a growing family of tokens sharing ancestors. After every
// operation every live token is observed (String, Serialize, Unmarshal(Serialize).String,
// RevocationIds, an Authorize panel) and must be unchanged; at the end every live token's
// bytes are decoded by the Lean wire model and must carry exactly what its own caller put in.

import (
	"fmt"
	"strings"

	"github.com/biscuit-auth/biscuit-go/v2"
	"github.com/biscuit-auth/biscuit-go/v2/datalog"
)

func init() { verbs["C08"] = runC08 }

type famTok struct {
	tok    *biscuit.Biscuit
	blocks []Block // what the callers put in, block by block
	sealed bool
	obs    string
	name   string
	raw    []byte // bytes handed out by the first Serialize() of this token (the slice itself)
	rawHex string
}

type famBuilder struct {
	bb      biscuit.BlockBuilder
	parent  int
	content Block
	name    string
}

type famBlock struct {
	blk     *biscuit.Block
	parent  int
	content Block
	name    string
}

func observe(t *biscuit.Biscuit, panel [][]AuthOp, g *scenGen) string {
	var sb strings.Builder
	func() {
		defer func() {
			if r := recover(); r != nil {
				sb.WriteString("PANIC " + panicSite(r))
			}
		}()
		sb.WriteString(t.String())
		sb.WriteString("|")
		data, err := t.Serialize()
		if err != nil {
			sb.WriteString("serialize-error")
			return
		}
		sb.WriteString(hx(data))
		sb.WriteString("|")
		if t2, err := biscuit.Unmarshal(data); err == nil {
			sb.WriteString(t2.String())
		} else {
			sb.WriteString("unmarshal-error")
		}
		sb.WriteString("|" + hexList(t.RevocationIds()) + "|")
		sb.WriteString(authorizePanel(t, g, panel))
		sb.WriteString("|" + strings.Join(t.Code(), ";"))
	}()
	return sb.String()
}

func runC08(c *Ctx) {
	c.Rule = "(builder reuse) the authority Builder used again after Build(): the built token must not change, and a second Build() must carry everything put into the builder, as decoded by the Lean wire model; random histories (20-40 operations quick, up to 150 thorough) over a growing family: build (through Builder, or through NewBlockBuilder + New over one table object the issuer keeps for all tokens it mints), create-block (several builders from one parent before any is built), interleaved add-fact / add-rule / add-check on live builders with fresh symbols, build-block, further adds to a builder after its Build(), append (to the parent or to a sibling), seal, serialize + unmarshal, get-block-id, authorizer-for + authorize, print; symbol tables steered across capacity boundaries (2-17 symbols). After every operation every live token is observed and must be unchanged; at the end the Lean wire model decodes every live token and must find exactly what its own callers put in. Non-trivial = a history in which at least two builders were created from the same parent before one of them was built; distinct = distinct final token byte strings."
	r := NewRng(c.Seed)
	n := 150
	steps := 30
	if c.Thorough {
		n, steps = 500, 100 // per shard (12 shards, each with its own seed)
	}
	builderReuse(c, r)
	for h := 0; h < n; h++ {
		g := newScenGen(r, 0)
		var panel [][]AuthOp
		for k := 0; k < 2; k++ {
			panel = append(panel, g.authContent())
		}
		var toks []*famTok
		var builders []*famBuilder
		var blocks []*famBlock
		var spent []biscuit.BlockBuilder // builders whose Build() was already called
		rd := &detRand{r.Fork()}
		callerTable := &datalog.SymbolTable{}
		sharedDecoder := &biscuit.Unmarshaler{Symbols: &datalog.SymbolTable{}}
		sym := 0
		freshFact := func() Pred {
			sym++
			return Pred{Name: Pick(r, []string{"p", "q", "right"}), Terms: []Term{S(fmt.Sprintf("sym%d_%d", h, sym))}}
		}
		freshCheck := func() Check {
			sym++
			return Check{Queries: []Rule{{Head: Pred{Name: "query"}, Body: []Pred{{Name: fmt.Sprintf("chk%d_%d", h, sym), Terms: []Term{I(1)}}}}}}
		}
		newRoot := func() {
			var b Block
			for i, k := 0, r.Intn(6); i < k; i++ {
				b.Facts = append(b.Facts, freshFact())
			}
			if r.Chance(1, 2) {
				b.Checks = append(b.Checks, freshCheck())
			}
			// a chain of 0-7 blocks, so that the envelope's block list and the symbol table sit
			// at various distances from a capacity boundary when siblings are derived
			chain := []Block{b}
			for i, d := 0, Pick(r, []int{0, 0, 1, 2, 3, 3, 5, 6, 7}); i < d; i++ {
				chain = append(chain, Block{Facts: []Pred{freshFact()}})
			}
			var tok *biscuit.Biscuit
			var err error
			if r.Chance(1, 3) {
				// minted with the exported constructor New from an authority block prepared with
				// NewBlockBuilder, all over ONE table object the issuer keeps (empty, so that the
				// tokens can be read back without it): tokens minted from it are siblings too
				_, priv := rootKeys()
				bb := biscuit.NewBlockBuilder(callerTable.Clone())
				if err = fillBlockBuilder(bb, chain[0]); err == nil {
					tok, err = biscuit.New(rd, priv, callerTable, bb.Build())
				}
				for _, blk := range chain[1:] {
					if err != nil {
						break
					}
					nb := tok.CreateBlock()
					if err = fillBlockBuilder(nb, blk); err == nil {
						tok, err = tok.Append(rd, nb.Build())
					}
				}
				c.Count("minted-with-New-over-the-issuer's-table")
			} else {
				tok, err = buildTokenSpec(TokenSpec{Blocks: chain}, r.Fork())
			}
			if err == nil {
				toks = append(toks, &famTok{tok: tok, blocks: chain, name: fmt.Sprintf("t%d", len(toks))})
			}
		}
		newRoot()
		siblings := false
		var trace []string
		check := func(op string) bool {
			for _, t := range toks {
				o := observe(t.tok, panel, g)
				if t.obs != "" && o != t.obs {
					c.Violate("C08/token-changed", "operation '"+op+"' changed the observable state of live token "+t.name,
						map[string]interface{}{"history": append([]string{}, trace...), "token": t.name, "before": trunc(t.obs, 1500), "after": trunc(o, 1500)})
					return false
				}
				t.obs = o
				if t.raw == nil {
					if d, err := t.tok.Serialize(); err == nil {
						t.raw, t.rawHex = d, hx(d)
					}
				} else if hx(t.raw) != t.rawHex {
					c.Violate("C08/serialized-bytes-changed", "operation '"+op+"' overwrote bytes that an earlier Serialize() of live token "+t.name+" had handed out",
						map[string]interface{}{"history": append([]string{}, trace...), "token": t.name})
					return false
				}
			}
			return true
		}
		check("build")
		ok := true
		for s := 0; s < steps && ok; s++ {
			op := ""
			switch k := r.Intn(20); {
			case k < 1:
				newRoot()
				op = "build"
			case k < 6 && len(toks) > 0: // create-block, often twice from the same parent
				pi := r.Intn(len(toks))
				if toks[pi].sealed {
					continue
				}
				cnt := 1
				if r.Chance(1, 2) {
					cnt = 2 + r.Intn(2)
					siblings = true
				}
				for q := 0; q < cnt; q++ {
					builders = append(builders, &famBuilder{bb: toks[pi].tok.CreateBlock(), parent: pi, name: fmt.Sprintf("bb%d", len(builders))})
				}
				op = fmt.Sprintf("create-block x%d on %s", cnt, toks[pi].name)
			case k < 12 && len(spent) > 0 && r.Chance(1, 4): // keep filling a builder whose block was already built
				b := Pick(r, spent)
				f := freshFact()
				switch r.Intn(3) {
				case 0:
					b.AddFact(biscuit.Fact{Predicate: f.ToBiscuit()})
				case 1:
					b.AddCheck(freshCheck().ToBiscuit())
				default:
					b.AddRule(Rule{Head: f, Body: []Pred{{Name: "p", Terms: []Term{V("x")}}}}.ToBiscuit())
				}
				op = "add to a builder after its Build()"
				c.Count("add-after-build")
			case k < 12 && len(builders) > 0: // add to a live builder
				b := Pick(r, builders)
				switch r.Intn(3) {
				case 0:
					f := freshFact()
					if err := b.bb.AddFact(biscuit.Fact{Predicate: f.ToBiscuit()}); err == nil {
						b.content.Facts = append(b.content.Facts, f)
					}
					op = "add-fact " + b.name
				case 1:
					ck := freshCheck()
					b.bb.AddCheck(ck.ToBiscuit())
					b.content.Checks = append(b.content.Checks, ck)
					op = "add-check " + b.name
				default:
					f := freshFact()
					rl := Rule{Head: f, Body: []Pred{{Name: "p", Terms: []Term{V("x")}}}}
					b.bb.AddRule(rl.ToBiscuit())
					b.content.Rules = append(b.content.Rules, rl)
					op = "add-rule " + b.name
				}
			case k < 14 && len(builders) > 0: // build-block
				bi := r.Intn(len(builders))
				b := builders[bi]
				blocks = append(blocks, &famBlock{blk: b.bb.Build(), parent: b.parent, content: b.content, name: "blk-of-" + b.name})
				builders = append(builders[:bi], builders[bi+1:]...)
				spent = append(spent, b.bb)
				op = "build-block " + b.name
			case k < 16 && len(blocks) > 0: // append to the parent
				bi := r.Intn(len(blocks))
				b := blocks[bi]
				p := toks[b.parent]
				nt, err := p.tok.Append(rd, b.blk)
				op = "append " + b.name + " to " + p.name
				if err == nil {
					toks = append(toks, &famTok{tok: nt, blocks: append(append([]Block{}, p.blocks...), b.content), name: fmt.Sprintf("t%d", len(toks))})
					blocks = append(blocks[:bi], blocks[bi+1:]...)
				} else {
					op += " (refused: " + trunc(err.Error(), 40) + ")"
				}
			case k < 17 && len(toks) > 0:
				p := Pick(r, toks)
				if nt, err := p.tok.Seal(rd); err == nil {
					toks = append(toks, &famTok{tok: nt, blocks: p.blocks, sealed: true, name: fmt.Sprintf("t%d", len(toks))})
				}
				op = "seal " + p.name
			case k < 18 && len(toks) > 0:
				p := Pick(r, toks)
				if d, err := p.tok.Serialize(); err == nil {
					// half of the reloads go through ONE Unmarshaler value kept for the whole history
					// (an application-wide decoder): the tokens it returns are siblings of a kind too
					var nt *biscuit.Biscuit
					if r.Chance(1, 2) {
						nt, err = sharedDecoder.Unmarshal(d)
						op = "serialize+unmarshal(shared decoder) " + p.name
					} else {
						nt, err = biscuit.Unmarshal(d)
						op = "serialize+unmarshal " + p.name
					}
					if err == nil {
						toks = append(toks, &famTok{tok: nt, blocks: p.blocks, sealed: p.sealed, name: fmt.Sprintf("t%d", len(toks))})
					}
				}
			case k < 19 && len(toks) > 0:
				p := Pick(r, toks)
				f := freshFact()
				p.tok.GetBlockID(biscuit.Fact{Predicate: f.ToBiscuit()})
				op = "get-block-id " + p.name
			case len(toks) > 0:
				p := Pick(r, toks)
				authorizePanel(p.tok, g, panel)
				_ = p.tok.String()
				op = "authorize+print " + p.name
			}
			if op == "" {
				continue
			}
			trace = append(trace, op)
			c.Eval()
			ok = check(op)
		}
		if siblings {
			c.Count("histories-with-siblings")
		}
		// what each live token carries, by the independent decoder
		for _, t := range toks {
			data, err := t.tok.Serialize()
			if err != nil {
				continue
			}
			spec := TokenSpec{Blocks: t.blocks, Seal: t.sealed}
			sx := strings.TrimSuffix(wireCaseSx(data, spec), ")") + " (interleaved))"
			res := execCase("WIRE", sx)
			c.Case("WIRE", c.NewID("final"), sx, res)
			if siblings {
				c.NonTrivial(hx(data))
			}
		}
		c.Count(fmt.Sprintf("family:%d", bucket(len(toks))))
		if h < 2 {
			c.Sample(map[string]interface{}{"history": trace})
		}
	}
}

// builderReuse: the authority Builder used again after Build(). The token already built must
// stay what it was (in memory and serialized), and a second Build() must give a token that
// carries everything the caller put into the builder so far (decoded by the wire model).
func builderReuse(c *Ctx, r *Rng) {
	n := 60
	if c.Thorough {
		n = 400
	}
	_, priv := rootKeys()
	for i := 0; i < n; i++ {
		g := newScenGen(r, 0)
		panel := [][]AuthOp{g.authContent()}
		rd := &detRand{r.Fork()}
		b := biscuit.NewBuilder(priv, biscuit.WithRNG(rd))
		var content Block
		sym := 0
		add := func() string {
			sym++
			switch r.Intn(3) {
			case 0:
				f := Pred{Name: Pick(r, []string{"p", "role", "right"}), Terms: []Term{S(fmt.Sprintf("reuse%d_%d", i, sym))}}
				if err := b.AddAuthorityFact(biscuit.Fact{Predicate: f.ToBiscuit()}); err == nil {
					content.Facts = append(content.Facts, f)
				}
				return "add-authority-fact"
			case 1:
				ck := Check{Queries: []Rule{{Head: Pred{Name: "query"}, Body: []Pred{{Name: fmt.Sprintf("need%d_%d", i, sym), Terms: []Term{I(1)}}}}}}
				if err := b.AddAuthorityCheck(ck.ToBiscuit()); err == nil {
					content.Checks = append(content.Checks, ck)
				}
				return "add-authority-check"
			}
			rl := Rule{Head: Pred{Name: "q", Terms: []Term{S(fmt.Sprintf("reuse%d_%d", i, sym))}}, Body: []Pred{{Name: "p", Terms: []Term{V("x")}}}}
			if err := b.AddAuthorityRule(rl.ToBiscuit()); err == nil {
				content.Rules = append(content.Rules, rl)
			}
			return "add-authority-rule"
		}
		for k, m := 0, 1+r.Intn(4); k < m; k++ {
			add()
		}
		t1, err := b.Build()
		if err != nil {
			continue
		}
		first := content
		first.Facts = append([]Pred{}, content.Facts...)
		first.Rules = append([]Rule{}, content.Rules...)
		first.Checks = append([]Check{}, content.Checks...)
		obs1 := observe(t1, panel, g)
		var trace []string
		for k, m := 0, 1+r.Intn(3); k < m; k++ {
			trace = append(trace, add())
			c.Eval()
			if o := observe(t1, panel, g); o != obs1 {
				c.Violate("C08/token-changed-by-builder", "using the Builder again after Build() changed the token it had built",
					map[string]interface{}{"history": trace, "before": trunc(obs1, 1500), "after": trunc(o, 1500)})
				obs1 = o
				break
			}
		}
		t2, err := b.Build()
		c.Count("builder-reuse")
		if err != nil {
			c.Count("second-build-refused")
			continue
		}
		if o := observe(t1, panel, g); o != obs1 {
			c.Violate("C08/token-changed-by-builder", "a second Build() on the same Builder changed the first token",
				map[string]interface{}{"history": append(trace, "build"), "before": trunc(obs1, 1500), "after": trunc(o, 1500)})
		}
		// what each of the two tokens carries, by the independent decoder
		for k, tc := range []struct {
			tok *biscuit.Biscuit
			blk Block
		}{{t1, first}, {t2, content}} {
			data, err := tc.tok.Serialize()
			if err != nil {
				continue
			}
			sx := strings.TrimSuffix(wireCaseSx(data, TokenSpec{Blocks: []Block{tc.blk}}), ")") + " (interleaved))"
			res := execCase("WIRE", sx)
			c.Case("WIRE", c.NewID(fmt.Sprintf("reuse-build%d", k+1)), sx, res)
			c.NonTrivial(hx(data))
		}
	}
}
