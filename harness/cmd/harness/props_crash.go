package main

// C10 — untrusted token bytes can never crash the verifier.
// Every case runs in an isolated worker process (a panic on a library goroutine kills
// the process and cannot be recovered by any caller).

import (
	"bufio"
	"crypto/ed25519"
	"fmt"
	"io"
	"math"
	"os"
	"os/exec"
	"path/filepath"
	"strings"
	"time"

	"github.com/biscuit-auth/biscuit-go/v2"
	"github.com/biscuit-auth/biscuit-go/v2/datalog"
	"github.com/biscuit-auth/biscuit-go/v2/pb"
	"google.golang.org/protobuf/proto"
)

func init() {
	verbs["C10"] = runC10
	execs["DECODE"] = execDecode
}

// panel: every operation the property lists, on a token returned by Unmarshal.
func decodePanel(data []byte, root []byte) (res string) {
	stage := "unmarshal"
	defer func() {
		if r := recover(); r != nil {
			res = "panic " + panicSite(r) + " at " + stage
		}
	}()
	tok, err := biscuit.Unmarshal(data)
	if err != nil {
		return "reject"
	}
	stage = "string"
	_ = tok.String()
	stage = "code"
	_ = tok.Code()
	stage = "revids"
	_ = tok.RevocationIds()
	_ = tok.BlockCount()
	_ = tok.RootKeyID()
	_ = tok.GetContext()
	_ = tok.Checks()
	stage = "serialize"
	_, _ = tok.Serialize()
	stage = "getblockid"
	_, _ = tok.GetBlockID(biscuit.Fact{Predicate: biscuit.Predicate{Name: "resource", IDs: []biscuit.Term{biscuit.String("file1")}}})
	stage = "authorizerfor-random-key"
	rk, _, _ := ed25519.GenerateKey(&detRand{NewRng(uint64(len(data)))})
	_, _ = tok.AuthorizerFor(biscuit.WithSingularRootPublicKey(rk))
	opt := biscuit.WithWorldOptions(datalog.WithMaxFacts(200), datalog.WithMaxIterations(20), datalog.WithMaxDuration(5*time.Second))
	stage = "authorizerfor"
	az, err := tok.AuthorizerFor(biscuit.WithSingularRootPublicKey(ed25519.PublicKey(root)), opt)
	verified := err == nil
	if !verified {
		// evaluation must be safe even when signatures are not checked (NewVerifier is exported)
		stage = "newverifier"
		az, err = biscuit.NewVerifier(tok, opt)
		if err != nil {
			return "ok unverified"
		}
	}
	stage = "authorize"
	az.AddFact(biscuit.Fact{Predicate: biscuit.Predicate{Name: "resource", IDs: []biscuit.Term{biscuit.String("file1")}}})
	az.AddFact(biscuit.Fact{Predicate: biscuit.Predicate{Name: "operation", IDs: []biscuit.Term{biscuit.String("read")}}})
	az.AddCheck(biscuit.Check{Queries: []biscuit.Rule{{Head: biscuit.Predicate{Name: "query"}, Body: []biscuit.Predicate{{Name: "resource", IDs: []biscuit.Term{biscuit.Variable("x")}}}}}})
	az.AddPolicy(biscuit.DefaultAllowPolicy)
	_ = az.Authorize()
	stage = "query"
	_, _ = az.Query(biscuit.Rule{Head: biscuit.Predicate{Name: "q", IDs: []biscuit.Term{biscuit.Variable("x")}}, Body: []biscuit.Predicate{{Name: "resource", IDs: []biscuit.Term{biscuit.Variable("x")}}}})
	stage = "printworld"
	_ = az.PrintWorld()
	stage = "authorize-again"
	_ = az.Authorize()
	stage = "append"
	rd := &detRand{NewRng(11)}
	bb := tok.CreateBlock()
	_ = bb.AddFact(biscuit.Fact{Predicate: biscuit.Predicate{Name: "extra", IDs: []biscuit.Term{biscuit.Integer(1)}}})
	if t2, err := tok.Append(rd, bb.Build()); err == nil {
		_ = t2.String()
		_, _ = t2.Serialize()
	}
	stage = "seal"
	if t3, err := tok.Seal(rd); err == nil {
		_, _ = t3.Serialize()
		_, _ = t3.AuthorizerFor(biscuit.WithSingularRootPublicKey(ed25519.PublicKey(root)))
	}
	stage = "loadpolicies"
	if az2, err := biscuit.NewVerifier(tok, opt); err == nil {
		_ = az2.LoadPolicies(data)
	}
	if verified {
		return "ok verified"
	}
	return "ok unverified"
}

func execDecode(cs *Sx) string {
	bf, ok := cs.field("bytes")
	if !ok || len(bf) != 1 {
		return "bad-case"
	}
	data, err := unhex(bf[0].Atom)
	if err != nil {
		return "bad-case"
	}
	root := mustPub()
	if rf, ok := cs.field("root"); ok && len(rf) == 1 {
		root, _ = unhex(rf[0].Atom)
	}
	return decodePanel(data, root)
}

// workerMain: one case per input line "<id> <case sexp>", one result line per case.
func workerMain(args []string) {
	in := bufio.NewReaderSize(os.Stdin, 1<<20)
	out := bufio.NewWriter(os.Stdout)
	for {
		line, err := in.ReadString('\n')
		line = strings.TrimRight(line, "\r\n")
		if line != "" {
			parts := strings.SplitN(line, " ", 3)
			if len(parts) == 3 {
				// announce first, so that the parent knows which case killed the process
				fmt.Fprintf(out, "START %s\n", parts[0])
				out.Flush()
				res := execCase(parts[1], parts[2])
				fmt.Fprintf(out, "DONE %s %s\n", parts[0], res)
				out.Flush()
			}
		}
		if err != nil {
			return
		}
	}
}

type workerPool struct {
	cmd     *exec.Cmd
	stdin   io.WriteCloser
	stdout  *bufio.Reader
	stderr  *os.File
	errPath string
}

func startWorker(dir string) (*workerPool, error) {
	self, err := os.Executable()
	if err != nil {
		return nil, err
	}
	w := &workerPool{errPath: filepath.Join(dir, "worker.stderr")}
	w.cmd = exec.Command(self, "worker")
	w.cmd.Env = append(os.Environ(), "GOMEMLIMIT=2GiB", "GOTRACEBACK=single")
	w.stdin, _ = w.cmd.StdinPipe()
	so, _ := w.cmd.StdoutPipe()
	w.stdout = bufio.NewReaderSize(so, 1<<20)
	w.stderr, _ = os.Create(w.errPath)
	w.cmd.Stderr = w.stderr
	if err := w.cmd.Start(); err != nil {
		return nil, err
	}
	return w, nil
}

// run executes one case in the worker; on death or timeout returns "died: …".
func (w *workerPool) run(id, verb, sx string) (string, bool) {
	fmt.Fprintf(w.stdin, "%s %s %s\n", id, verb, sx)
	type rl struct {
		s   string
		err error
	}
	ch := make(chan rl, 1)
	go func() {
		for {
			line, err := w.stdout.ReadString('\n')
			if err != nil {
				ch <- rl{"", err}
				return
			}
			line = strings.TrimRight(line, "\r\n")
			// the library prints "expression error: …" to stdout without a newline, so the
			// marker may not be at the start of the line
			if i := strings.Index(line, "DONE "+id+" "); i >= 0 {
				ch <- rl{line[i+len("DONE "+id+" "):], nil}
				return
			}
			// START lines and library chatter ("expression error: …") are skipped
		}
	}()
	select {
	case r := <-ch:
		if r.err != nil {
			w.cmd.Wait()
			w.stderr.Close()
			tail, _ := os.ReadFile(w.errPath)
			msg := string(tail)
			if len(msg) > 1500 {
				msg = msg[:1500]
			}
			site := "other"
			if i := strings.Index(msg, "panic: "); i >= 0 {
				site = panicSite(msg[i:])
			}
			return "died " + site + " | " + strings.ReplaceAll(firstLines(msg, 12), "\n", " ⏎ "), false
		}
		return r.s, true
	case <-time.After(60 * time.Second):
		w.cmd.Process.Kill()
		w.cmd.Wait()
		return "died timeout", false
	}
}

func (w *workerPool) stop() {
	if w.cmd != nil && w.cmd.Process != nil {
		w.stdin.Close()
		w.cmd.Process.Kill()
		w.cmd.Wait()
	}
}

func firstLines(s string, n int) string {
	lines := strings.Split(s, "\n")
	if len(lines) > n {
		lines = lines[:n]
	}
	return strings.Join(lines, "\n")
}

// ---------- adversarial generators ----------

func advTerm(r *Rng, depth int) *pb.TermV2 {
	idx := []uint64{0, 27, 28, 1023, 1024, 1025, 1030, 1 << 31, 1 << 32, 1 << 63, math.MaxUint64, 1<<63 - 1}
	k := r.Intn(12)
	if k >= 6 && r.Chance(14, 15) {
		k = r.Intn(6) // most terms are decodable; the rest exercise the rejections
	}
	switch k {
	case 0:
		if r.Chance(5, 6) { // mostly indexes the block declares (see advBlock): evaluation is reached
			return pbStr(Pick(r, []uint64{0, 27, 1024, 1025, 1026, 1027, 1028, 1029}))
		}
		return pbStr(Pick(r, idx))
	case 1:
		if r.Chance(5, 6) {
			return pbVar(uint32(Pick(r, []uint64{0, 1024, 1025, 1026, 1027})))
		}
		return pbVar(uint32(Pick(r, []uint64{0, 1024, 1025, 1 << 31, 1<<32 - 1})))
	case 2:
		return pbInt(Pick(r, boundaryInts))
	case 3:
		return &pb.TermV2{Content: &pb.TermV2_Date{Date: Pick(r, poolDates)}}
	case 4:
		return pbBytes(Pick(r, poolBytes))
	case 5:
		return &pb.TermV2{Content: &pb.TermV2_Bool{Bool: r.Bool()}}
	case 6:
		return pbSet(pbBytes([]byte{1}), pbBytes([]byte{1}))
	case 7:
		return pbSet() // empty set
	case 8:
		return pbSet(pbInt(1), pbStr(Pick(r, idx))) // mixed
	case 9:
		if depth > 0 {
			return pbSet(advTerm(r, depth-1), advTerm(r, depth-1)) // possibly nested / with variables
		}
		return pbSet(pbVar(0))
	case 10:
		return &pb.TermV2{} // no content
	default:
		return pbSet(pbStr(Pick(r, idx)), pbStr(Pick(r, idx)))
	}
}

func advPred(r *Rng) *pb.PredicateV2 {
	names := []uint64{0, 2, 27, 28, 1023, 1024, 1025, 1 << 40, 1 << 63, math.MaxUint64}
	n := Pick(r, names)
	if r.Chance(5, 6) {
		n = Pick(r, []uint64{0, 2, 27, 1024, 1025, 1026})
	}
	p := &pb.PredicateV2{Name: &n}
	for i, k := 0, r.Intn(4); i < k; i++ {
		p.Terms = append(p.Terms, advTerm(r, 1))
	}
	return p
}

func advExpr(r *Rng) *pb.ExpressionV2 {
	e := &pb.ExpressionV2{}
	for i, k := 0, r.Intn(6); i < k; i++ {
		switch r.Intn(4) {
		case 0, 1:
			e.Ops = append(e.Ops, &pb.Op{Content: &pb.Op_Value{Value: advTerm(r, 1)}})
		case 2:
			k := pb.OpUnary_Kind(Pick(r, []int32{0, 1, 2, 0, 1, 2, 0, 1, 2, 0, 1, 2, 0, 1, 2, 0, 1, 2, 3, 100, -1}))
			if r.Chance(1, 40) {
				e.Ops = append(e.Ops, &pb.Op{Content: &pb.Op_Unary{Unary: &pb.OpUnary{}}}) // kind missing inside a oneof
			} else {
				e.Ops = append(e.Ops, &pb.Op{Content: &pb.Op_Unary{Unary: &pb.OpUnary{Kind: &k}}})
			}
		default:
			k := pb.OpBinary_Kind(Pick(r, []int32{0, 1, 2, 3, 4, 5, 6, 7, 8, 9, 10, 11, 12, 13, 14, 15, 16, 4, 5, 8, 9, 12, 15, 16, 0, 1, 2, 3, 4, 5, 6, 7, 8, 9, 10, 11, 12, 13, 14, 15, 16, 17, 100, -1}))
			if r.Chance(1, 40) {
				e.Ops = append(e.Ops, &pb.Op{Content: &pb.Op_Binary{Binary: &pb.OpBinary{}}}) // kind missing inside a oneof
			} else {
				e.Ops = append(e.Ops, &pb.Op{Content: &pb.Op_Binary{Binary: &pb.OpBinary{Kind: &k}}})
			}
		}
	}
	if r.Chance(1, 30) {
		e.Ops = append(e.Ops, &pb.Op{}) // op without content
	}
	return e
}

func advRule(r *Rng) *pb.RuleV2 {
	rule := &pb.RuleV2{Head: advPred(r)}
	for i, k := 0, r.Intn(3); i < k; i++ {
		rule.Body = append(rule.Body, advPred(r))
	}
	for i, k := 0, r.Intn(3); i < k; i++ {
		rule.Expressions = append(rule.Expressions, advExpr(r))
	}
	return rule
}

func advBlock(r *Rng) []byte {
	b := &pb.Block{}
	if r.Chance(4, 5) {
		// six fresh symbols first (the first block's indexes 1024..1029 are then declared; later
		// blocks repeat them, which adds nothing, so their high indexes are undeclared)
		b.Symbols = append(b.Symbols, "a", "b", "x", "é", "", "zz")
	}
	for i, k := 0, r.Intn(4); i < k; i++ {
		b.Symbols = append(b.Symbols, Pick(r, []string{"a", "b", "read", "a", "x", "", "é"}))
	}
	if r.Chance(2, 3) {
		c := Pick(r, []string{"", "ctx"})
		b.Context = &c
	}
	if r.Chance(19, 20) {
		v := uint32(3)
		if r.Chance(1, 20) {
			v = Pick(r, []uint32{0, 1, 2, 4, math.MaxUint32})
		}
		b.Version = &v
	}
	for i, k := 0, r.Intn(4); i < k; i++ {
		b.FactsV2 = append(b.FactsV2, &pb.FactV2{Predicate: advPred(r)})
	}
	for i, k := 0, r.Intn(3); i < k; i++ {
		b.RulesV2 = append(b.RulesV2, advRule(r))
	}
	for i, k := 0, r.Intn(3); i < k; i++ {
		ck := &pb.CheckV2{}
		for j, m := 0, r.Intn(3); j < m; j++ {
			ck.Queries = append(ck.Queries, advRule(r))
		}
		b.ChecksV2 = append(b.ChecksV2, ck)
	}
	return mustMarshal(b)
}

// advJoinBlock: a COHERENT block (every symbol and variable declared, so that the Unmarshal
// gate lets it through and evaluation is reached) whose facts carry values of every type —
// byte arrays, sets, boundary integers, dates, booleans, strings — and whose rules and checks
// join on them: the same variable several times in a body, constants of every type in body
// positions, a random operator applied to two bound variables.
func advJoinBlock(r *Rng, base uint64) []byte {
	syms := []string{"k", "t", "u", "va", "vb", "vc", "s1", "s2"}
	for i := range syms {
		syms[i] = fmt.Sprintf("%s%d", syms[i], base) // distinct from other blocks' symbols
	}
	name := func(i int) *uint64 { n := base + uint64(i); return &n }
	vr := func(i int) *pb.TermV2 { return pbVar(uint32(base) + 3 + uint32(i)) }
	vals := []*pb.TermV2{
		pbBytes([]byte{0xde, 0xad}), pbBytes([]byte{}), pbBytes([]byte{0xde, 0xad}),
		pbSet(pbBytes([]byte{1}), pbBytes([]byte{2})), pbSet(pbInt(1), pbInt(2)), pbSet(pbStr(base+6), pbStr(base+7)),
		pbInt(math.MinInt64), pbInt(math.MaxInt64), pbInt(0), pbInt(-1),
		pbStr(base + 6), pbStr(base + 7), pbStr(0),
		{Content: &pb.TermV2_Date{Date: 0}}, {Content: &pb.TermV2_Date{Date: math.MaxUint64}},
		{Content: &pb.TermV2_Bool{Bool: true}},
	}
	v := uint32(3)
	b := &pb.Block{Symbols: syms, Version: &v}
	for i, n := 0, 3+r.Intn(5); i < n; i++ {
		x, y := Pick(r, vals), Pick(r, vals)
		b.FactsV2 = append(b.FactsV2, &pb.FactV2{Predicate: &pb.PredicateV2{Name: name(0), Terms: []*pb.TermV2{x, y}}})
		if r.Chance(2, 3) {
			b.FactsV2 = append(b.FactsV2, &pb.FactV2{Predicate: &pb.PredicateV2{Name: name(1), Terms: []*pb.TermV2{y}}})
		}
	}
	binKinds := []int32{0, 1, 2, 3, 4, 5, 6, 7, 8, 9, 10, 11, 12, 13, 14, 15, 16}
	mkBody := func() ([]*pb.PredicateV2, []*pb.ExpressionV2) {
		body := []*pb.PredicateV2{
			{Name: name(0), Terms: []*pb.TermV2{vr(0), vr(1)}},
			{Name: name(1), Terms: []*pb.TermV2{vr(1)}}, // join on the second column
		}
		if r.Chance(1, 2) {
			body = append(body, &pb.PredicateV2{Name: name(0), Terms: []*pb.TermV2{vr(1), vr(2)}}) // and a self-join
		}
		if r.Chance(1, 3) {
			body = append(body, &pb.PredicateV2{Name: name(1), Terms: []*pb.TermV2{Pick(r, vals)}}) // constant of any type
		}
		var ex []*pb.ExpressionV2
		for i, n := 0, r.Intn(3); i < n; i++ {
			k := pb.OpBinary_Kind(Pick(r, binKinds))
			ops := []*pb.Op{{Content: &pb.Op_Value{Value: vr(r.Intn(2))}}, {Content: &pb.Op_Value{Value: Pick(r, append(vals, vr(1)))}},
				{Content: &pb.Op_Binary{Binary: &pb.OpBinary{Kind: &k}}}}
			if r.Chance(1, 3) {
				u := pb.OpUnary_Kind(r.Intn(3))
				ops = append(ops, &pb.Op{Content: &pb.Op_Unary{Unary: &pb.OpUnary{Kind: &u}}})
			}
			ex = append(ex, &pb.ExpressionV2{Ops: ops})
		}
		return body, ex
	}
	for i, n := 0, 1+r.Intn(2); i < n; i++ {
		body, ex := mkBody()
		b.RulesV2 = append(b.RulesV2, &pb.RuleV2{Head: &pb.PredicateV2{Name: name(2), Terms: []*pb.TermV2{vr(0), vr(1)}}, Body: body, Expressions: ex})
	}
	q := uint64(27) // "query"
	for i, n := 0, 1+r.Intn(2); i < n; i++ {
		body, ex := mkBody()
		b.ChecksV2 = append(b.ChecksV2, &pb.CheckV2{Queries: []*pb.RuleV2{{Head: &pb.PredicateV2{Name: &q}, Body: body, Expressions: ex}}})
	}
	return mustMarshal(b)
}

// advToken: schema-valid, validly signed by an attacker-chosen root key, adversarial values.
func advToken(r *Rng) ([]byte, []byte, string) {
	apub, apriv, _ := ed25519.GenerateKey(&detRand{r})
	nb := 1 + r.Intn(3)
	var blocks [][]byte
	if r.Chance(1, 3) {
		// coherent join blocks: block i declares 8 symbols, so its indexes start at 1024 + 8*i
		for i := 0; i < nb; i++ {
			blocks = append(blocks, advJoinBlock(r, 1024+8*uint64(i)))
		}
		env, _ := forgeEnvelope(apriv, blocks, r, nil, r.Chance(1, 4))
		return mustMarshal(env), apub, "adv-join"
	}
	for i := 0; i < nb; i++ {
		blocks = append(blocks, advBlock(r))
	}
	var id *uint32
	if r.Chance(1, 4) {
		id = u32p(uint32(r.U64()))
	}
	env, keys := forgeEnvelope(apriv, blocks, r, id, r.Chance(1, 4))
	label := "adv"
	switch r.Intn(24) {
	case 0:
		env.Proof = &pb.Proof{Content: &pb.Proof_NextSecret{NextSecret: keys.Next.Seed()[:r.Intn(32)]}}
		label = "adv+short-secret"
	case 1:
		env.Proof = &pb.Proof{Content: &pb.Proof_NextSecret{NextSecret: append(keys.Next.Seed(), r.Bytes(1+r.Intn(32))...)}}
		label = "adv+long-secret"
	case 2:
		env.Proof = &pb.Proof{}
		label = "adv+no-proof-content"
	case 3:
		env.Proof = &pb.Proof{Content: &pb.Proof_FinalSignature{FinalSignature: r.Bytes(r.Intn(70))}}
		label = "adv+odd-final-signature"
	case 4:
		a := pb.PublicKey_Algorithm(Pick(r, []int32{1, 7, -1}))
		allSigned(env)[r.Intn(nb)].NextKey.Algorithm = &a
		label = "adv+unknown-algorithm"
	case 5:
		sb := allSigned(env)[r.Intn(nb)]
		sb.NextKey.Key = sb.NextKey.Key[:r.Intn(32)]
		label = "adv+short-key"
	case 6:
		sb := allSigned(env)[r.Intn(nb)]
		sb.Signature = r.Bytes(r.Intn(80))
		label = "adv+odd-signature"
	}
	return mustMarshal(env), apub, label
}

func runC10(c *Ctx) {
	c.Rule = "every case runs in an isolated worker process (START/DONE protocol, 60 s timeout, GOMEMLIMIT): (adv) schema-valid protobuf tokens validly signed by an attacker-chosen root key with adversarial field values — symbol and variable indexes at 27/28/1023/1024/2^31/2^32/2^63/2^64-1, secrets of length 0..64, short keys, odd signatures, absent proof content, unknown algorithm / operator enum values, sets of byte arrays, empty / mixed / nested sets, variables in facts and sets, terms and ops without content, ill-formed expressions, unsupported versions; one third of them coherent join blocks (every symbol declared, so that evaluation is reached) with facts of every value type joined through repeated variables, constants in body positions and random operators on bound variables; (mut) byte-level mutations (bit flips, truncations, splices) of library-built tokens and of the repository's sample tokens; (rand) random byte strings. On each: Unmarshal, then String, Code, RevocationIds, Serialize, GetBlockID, AuthorizerFor under a random and under the signing key, Authorize twice, Query, PrintWorld, Append, Seal, LoadPolicies. The Lean model of Unmarshal must agree on accept/reject for the (adv) stream. Non-trivial = the bytes were accepted by Unmarshal (so evaluation was reached) or the case is an (adv) token; distinct = distinct byte strings."
	r := NewRng(c.Seed)
	w, err := startWorker(c.OutDir)
	if err != nil {
		fatal(err)
	}
	defer func() { w.stop() }()
	runCase := func(stream, label string, data, root []byte, model bool) {
		sx := "(case (bytes " + hx(data) + ") (root " + hx(root) + "))"
		id := c.NewID(stream)
		res, alive := w.run(id, "DECODE", sx)
		if !alive {
			w.stop()
			w, err = startWorker(c.OutDir)
			if err != nil {
				fatal(err)
			}
		}
		cls := strings.SplitN(res, " ", 2)[0]
		c.Count(stream + ":" + cls)
		c.Count("label:" + label + ":" + cls)
		if model {
			out := res
			if strings.HasPrefix(res, "ok") {
				out = "ok"
			}
			c.Case("DECODE", id, sx, firstWords(out, 1))
		} else {
			c.Eval()
		}
		if strings.HasPrefix(res, "ok") || stream == "adv" {
			c.NonTrivial(hx(data))
		}
		if cls == "panic" || cls == "died" {
			site := strings.Join(strings.Fields(res)[1:min(len(strings.Fields(res)), 5)], " ")
			c.Violate("C10/"+cls+":"+keyOfCrash(res), "untrusted bytes crashed the verifier ("+label+"): "+trunc(res, 300),
				map[string]interface{}{"verb": "DECODE", "case": sx, "go": trunc(res, 1200), "site": site})
		}
		if len(c.Samples) < 3 {
			c.Sample(map[string]string{"stream": stream, "label": label, "case": trunc(sx, 500), "go": trunc(res, 120)})
		}
	}
	n := 2500
	if c.Thorough {
		n = 60000
	}
	for i := 0; i < n; i++ {
		data, root, label := advToken(r)
		runCase("adv", label, data, root, true)
	}
	// mutations of library-built tokens and of the sample files
	pub, _ := rootKeys()
	var seeds [][]byte
	for _, t := range makeFamily(r, newScenGen(r, 2), 6) {
		seeds = append(seeds, t.Data)
	}
	repoDir := os.Getenv("VERIF_REPO")
	if repoDir == "" {
		repoDir = "/repo"
	}
	if files, _ := filepath.Glob(filepath.Join(repoDir, "samples/data/current/*.bc")); len(files) > 0 {
		for _, f := range files {
			if b, err := os.ReadFile(f); err == nil {
				seeds = append(seeds, b)
			}
		}
		c.Extra["sample_files"] = len(files)
	}
	m := 1500
	if c.Thorough {
		m = 40000
	}
	for i := 0; i < m; i++ {
		s := append([]byte{}, Pick(r, seeds)...)
		label := ""
		switch r.Intn(5) {
		case 0:
			for k, f := 0, 1+r.Intn(3); k < f && len(s) > 0; k++ {
				s[r.Intn(len(s))] ^= 1 << uint(r.Intn(8))
			}
			label = "bitflip"
		case 1:
			s = s[:r.Intn(len(s)+1)]
			label = "truncate"
		case 2:
			o := Pick(r, seeds)
			if len(s) > 0 && len(o) > 0 {
				a, b := r.Intn(len(s)), r.Intn(len(o))
				s = append(append([]byte{}, s[:a]...), o[b:]...)
			}
			label = "splice"
		case 3:
			if len(s) > 2 {
				a := r.Intn(len(s) - 1)
				s[a] = byte(r.U64())
				s[a+1] = byte(r.U64())
			}
			label = "overwrite"
		default:
			label = "identity"
		}
		runCase("mut", label, s, pub, false)
	}
	for i := 0; i < m/3; i++ {
		runCase("rand", "random", r.Bytes(r.Intn(200)), pub, false)
	}
}

func firstWords(s string, n int) string {
	f := strings.Fields(s)
	if len(f) > n {
		f = f[:n]
	}
	return strings.Join(f, " ")
}

// keyOfCrash: "<site>@<stage or top library frame>"
func keyOfCrash(res string) string {
	f := strings.Fields(res)
	site := "other"
	if len(f) > 1 {
		site = f[1]
	}
	where := ""
	if i := strings.Index(res, " at "); i >= 0 {
		where = strings.Fields(res[i+4:])[0]
	} else {
		for _, tok := range strings.Fields(res) {
			if strings.Contains(tok, "biscuit-go/v2") && strings.Contains(tok, "(") {
				where = tok[strings.LastIndex(tok, "/")+1:]
				if j := strings.Index(where, "("); j >= 0 {
					where = where[:j]
				}
				break
			}
		}
	}
	return site + "@" + where
}

var _ = proto.Marshal
