package main

import (
	"fmt"
	"os"
)

// replayMain: harness replay VERB '<case sexp>' — prints the library's outcome.
func replayMain(args []string) {
	if len(args) != 2 {
		fmt.Fprintln(os.Stderr, "usage: harness replay VERB '(case …)'")
		os.Exit(2)
	}
	fmt.Println(execCase(args[0], args[1]))
}
