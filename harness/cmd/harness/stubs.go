package main

import (
	"fmt"
	"os"
)

func workerMain(args []string) { fmt.Fprintln(os.Stderr, "worker: not built yet"); os.Exit(2) }
// replayMain: harness replay VERB '<case sexp>' — prints the library's outcome.
func replayMain(args []string) {
	if len(args) != 2 {
		fmt.Fprintln(os.Stderr, "usage: harness replay VERB '(case …)'")
		os.Exit(2)
	}
	fmt.Println(execCase(args[0], args[1]))
}
