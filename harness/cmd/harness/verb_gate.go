package main

// GATE — what New and Append answer for a block built over a table of the caller's choice.
// A block builder interns its strings relative to the table it was created over; New and
// Append accept the block only when every string index and variable number it uses is
// declared by the table they extend (checkDeclaredSymbols) and when the block declares
// nothing that table already holds (IsDisjoint). The model side builds the same block
// with Model/Symbols.buildBlockMsg and applies Model/Unmarshal.blocksDeclared; the block
// bytes of accepted blocks are compared too, which ties the interning order.

import (
	"errors"
	"fmt"
	"strings"

	biscuit "github.com/biscuit-auth/biscuit-go/v2"
	"github.com/biscuit-auth/biscuit-go/v2/datalog"
	"github.com/biscuit-auth/biscuit-go/v2/pb"
	"google.golang.org/protobuf/proto"
)

func init() {
	execs["GATE"] = execGate
}

func tableField(cs *Sx, name string) ([]string, bool) {
	var out []string
	if bs, ok := cs.field(name); ok {
		for _, x := range bs {
			b, err := unhex(x.Atom)
			if err != nil {
				return nil, false
			}
			out = append(out, string(b))
		}
	}
	return out, true
}

func gateErrClass(err error) string {
	switch {
	case err == nil:
		return "ok"
	case errors.Is(err, biscuit.ErrSymbolTableOverlap):
		return "overlap"
	case errors.Is(err, biscuit.ErrUndeclaredSymbol):
		return "undeclared"
	}
	return "error:" + err.Error()
}

// blockBytesOf: the serialized content of block i (0 = authority) of a token.
func blockBytesOf(tok *biscuit.Biscuit, i int) (string, error) {
	data, err := tok.Serialize()
	if err != nil {
		return "", err
	}
	env := new(pb.Biscuit)
	if err := proto.Unmarshal(data, env); err != nil {
		return "", err
	}
	if i == 0 {
		return hx(env.Authority.Block), nil
	}
	if i-1 >= len(env.Blocks) {
		return "", fmt.Errorf("no block %d", i)
	}
	return hx(env.Blocks[i-1].Block), nil
}

func execGate(cs *Sx) (res string) {
	defer func() {
		if r := recover(); r != nil {
			res = "panic " + panicSite(r)
		}
	}()
	af, ok := cs.field("auth")
	if !ok || len(af) != 1 {
		return "bad-case"
	}
	auth, err := decBlock(af[0])
	if err != nil {
		return "bad-case"
	}
	bb, ok1 := tableField(cs, "buildbase")
	nb, ok2 := tableField(cs, "newbase")
	bb2, ok3 := tableField(cs, "buildbase2")
	if !ok1 || !ok2 || !ok3 {
		return "bad-case"
	}
	_, priv := rootKeys()
	rd := &detRand{NewRng(77)}
	builder := biscuit.NewBlockBuilder(symTable(bb))
	if err := fillBlockBuilder(builder, auth); err != nil {
		return "builder-refused"
	}
	newTable := symTable(nb)
	tok, err := biscuit.New(rd, priv, newTable, builder.Build())
	if newTable.Len() != len(nb) {
		return "base-table-changed"
	}
	if v := gateErrClass(err); v != "ok" {
		return "new=" + v
	}
	blk, err := blockBytesOf(tok, 0)
	if err != nil {
		return "serialize-refused"
	}
	out := "new=ok block=" + blk
	lf, ok := cs.field("later")
	if !ok || len(lf) != 1 {
		return out
	}
	later, err := decBlock(lf[0])
	if err != nil {
		return "bad-case"
	}
	builder2 := biscuit.NewBlockBuilder(symTable(bb2))
	if err := fillBlockBuilder(builder2, later); err != nil {
		return "builder-refused"
	}
	tok2, err := tok.Append(rd, builder2.Build())
	if v := gateErrClass(err); v != "ok" {
		return out + " append=" + v
	}
	blk2, err := blockBytesOf(tok2, 1)
	if err != nil {
		return "serialize-refused"
	}
	return out + " append=ok block2=" + blk2
}

func tableSx(tag string, t []string) string {
	parts := make([]string, len(t))
	for i, s := range t {
		parts[i] = hxs(s)
	}
	return "(" + tag + " " + strings.Join(parts, " ") + ")"
}

// gateBlock: content whose interning order is the same in the library and in the model
// (facts, then rules, then checks; sets without repeated elements).
func gateBlock(r *Rng, names []string, tag string) Block {
	pick := func() string { return Pick(r, names) }
	term := func() Term {
		switch r.Intn(7) {
		case 0:
			return I(int64(r.Intn(5)) - 2)
		case 1:
			return D(uint64(1600000000 + r.Intn(100)))
		case 2:
			return B([]byte{byte(r.Intn(256)), 1})
		case 3:
			return O(r.Chance(1, 2))
		case 4:
			a, b := pick(), pick()
			if a == b {
				return SetOf(S(a))
			}
			return SetOf(S(a), S(b))
		default:
			return S(pick())
		}
	}
	var b Block
	for i, n := 0, r.Intn(4); i < n; i++ {
		p := Pred{Name: pick()}
		for k, m := 0, 1+r.Intn(3); k < m; k++ {
			p.Terms = append(p.Terms, term())
		}
		b.Facts = append(b.Facts, p)
	}
	b.Facts = dedupFacts(b.Facts)
	vars := []string{"x", "y", tag + "v", pick()}
	mkRule := func(head string) Rule {
		v := Pick(r, vars)
		rl := Rule{Head: Pred{Name: head, Terms: []Term{V(v)}}}
		rl.Body = append(rl.Body, Pred{Name: pick(), Terms: []Term{V(v), term()}})
		if r.Chance(1, 2) {
			rl.Body = append(rl.Body, Pred{Name: pick(), Terms: []Term{V(Pick(r, vars)), V(v)}})
		}
		if r.Chance(1, 2) {
			rl.Exprs = append(rl.Exprs, Expr{{K: 'v', T: V(v)}, {K: 'v', T: S(pick())}, {K: 'b', B: "eq"}})
		}
		return rl
	}
	for i, n := 0, r.Intn(3); i < n; i++ {
		b.Rules = append(b.Rules, mkRule(pick()))
	}
	for i, n := 0, r.Intn(3); i < n; i++ {
		ck := Check{Queries: []Rule{mkRule("query")}}
		if r.Chance(1, 3) {
			ck.Queries = append(ck.Queries, mkRule("query"))
		}
		b.Checks = append(b.Checks, ck)
	}
	if len(b.Facts)+len(b.Rules)+len(b.Checks) == 0 {
		b.Facts = append(b.Facts, Pred{Name: pick(), Terms: []Term{S(pick())}})
	}
	return b
}

// gateStream: blocks built over one table and handed to New / Append over another — the
// same table, a prefix of it, an extension, a permutation, an unrelated table, a table
// that already holds strings the block declares.
func gateStream(c *Ctx) {
	r := NewRng(c.Seed ^ 0x6a7e)
	n := 400
	if c.Thorough {
		n = 6000
	}
	pool := []string{"role", "owner", "superuser", "alice", "file1", "read", "write", "resource", "group", "tenant-7", "é", "x", "0", "1024"}
	for i := 0; i < n; i++ {
		names := permuted(r, pool)[:3+r.Intn(6)]
		var base []string
		for _, nm := range permuted(r, names) {
			if len(base) < 4 && !isDefaultSymbol(nm) && r.Chance(1, 2) {
				base = append(base, nm)
			}
		}
		for k, m := 0, r.Intn(3); k < m; k++ {
			base = append(base, fmt.Sprintf("pad%d", k))
		}
		variant := func(of []string) ([]string, string) {
			switch r.Intn(8) {
			case 0, 1, 2:
				return append([]string{}, of...), "same"
			case 3:
				if len(of) == 0 {
					return nil, "same"
				}
				return append([]string{}, of[:r.Intn(len(of))]...), "prefix"
			case 4:
				return append(append([]string{}, of...), fmt.Sprintf("more%d", r.Intn(3))), "extension"
			case 5:
				return permuted(r, of), "permutation"
			case 6:
				out := make([]string, len(of))
				for k := range out {
					out[k] = fmt.Sprintf("other%d", k)
				}
				return out, "unrelated-same-length"
			default:
				return append(append([]string{}, of...), Pick(r, names)), "holds-a-block-string"
			}
		}
		auth := gateBlock(r, names, "a")
		nb, how := variant(base)
		sx := "(case " + tableSx("buildbase", base) + " " + tableSx("newbase", nb) + " (auth " + auth.Sx() + ")"
		how2 := "none"
		if r.Chance(2, 3) {
			// the table CreateBlock would hand out is newbase + what the authority declared;
			// the model computes it, the generator only chooses how far to depart from it
			tokTable := append(append([]string{}, nb...), declaredBy(base, auth)...)
			bb2, h2 := variant(tokTable)
			how2 = h2
			sx += " " + tableSx("buildbase2", bb2) + " (later " + gateBlock(r, names, "b").Sx() + ")"
		}
		sx += ")"
		res := execCase("GATE", sx)
		id := c.NewID("gate")
		c.Case("GATE", id, sx, res)
		c.Count("gate-new:" + how + ":" + field1w(res, "new="))
		if how2 != "none" {
			c.Count("gate-append:" + how2 + ":" + field1w(res, "append="))
		}
		if strings.Contains(res, "append=") || how != "same" {
			c.NonTrivial(sx)
		}
		if i < 2 {
			c.Sample(map[string]string{"case": trunc(sx, 1200), "go": trunc(res, 600)})
		}
	}
}

// field1w: the word after key in a space-separated answer ("-" when absent).
func field1w(s, key string) string {
	for _, w := range strings.Fields(s) {
		if strings.HasPrefix(w, key) {
			return w[len(key):]
		}
	}
	return "-"
}

// declaredBy: the strings a block builder over base declares for blk — the library's own
// answer, read from the serialized form of a token built honestly over base.
func declaredBy(base []string, blk Block) []string {
	bb := biscuit.NewBlockBuilder(symTable(base))
	if err := fillBlockBuilder(bb, blk); err != nil {
		return nil
	}
	_, priv := rootKeys()
	tok, err := biscuit.New(&detRand{NewRng(78)}, priv, symTable(base), bb.Build())
	if err != nil {
		return nil
	}
	data, err := tok.Serialize()
	if err != nil {
		return nil
	}
	env := new(pb.Biscuit)
	if err := proto.Unmarshal(data, env); err != nil {
		return nil
	}
	blkMsg := new(pb.Block)
	if err := proto.Unmarshal(env.Authority.Block, blkMsg); err != nil {
		return nil
	}
	return blkMsg.Symbols
}

var _ = datalog.SymbolTable{}
