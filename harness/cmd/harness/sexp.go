package main

// s-expression reader mirroring Driver/Sexp.lean and Driver/Codec.lean, so that a
// case line (from a generator, the corpus or a replay file) is executed against
// the library through one code path.

import (
	"encoding/hex"
	"fmt"
	"strconv"
	"strings"
)

type Sx struct {
	Atom   string
	List   []*Sx
	IsList bool
}

func (s *Sx) String() string {
	if !s.IsList {
		return s.Atom
	}
	parts := make([]string, len(s.List))
	for i, e := range s.List {
		parts[i] = e.String()
	}
	return "(" + strings.Join(parts, " ") + ")"
}

func parseSx(in string) (*Sx, error) {
	toks := tokenize(in)
	pos := 0
	var rec func() (*Sx, error)
	rec = func() (*Sx, error) {
		if pos >= len(toks) {
			return nil, fmt.Errorf("unexpected end")
		}
		t := toks[pos]
		pos++
		switch t {
		case "(":
			l := &Sx{IsList: true}
			for {
				if pos >= len(toks) {
					return nil, fmt.Errorf("unbalanced")
				}
				if toks[pos] == ")" {
					pos++
					return l, nil
				}
				e, err := rec()
				if err != nil {
					return nil, err
				}
				l.List = append(l.List, e)
			}
		case ")":
			return nil, fmt.Errorf("unexpected )")
		}
		return &Sx{Atom: t}, nil
	}
	e, err := rec()
	if err != nil {
		return nil, err
	}
	if pos != len(toks) {
		return nil, fmt.Errorf("trailing tokens")
	}
	return e, nil
}

func tokenize(in string) []string {
	var out []string
	cur := strings.Builder{}
	flush := func() {
		if cur.Len() > 0 {
			out = append(out, cur.String())
			cur.Reset()
		}
	}
	for _, ch := range in {
		switch ch {
		case '(', ')':
			flush()
			out = append(out, string(ch))
		case ' ', '\t', '\n', '\r':
			flush()
		default:
			cur.WriteRune(ch)
		}
	}
	flush()
	return out
}

// field finds (name …) among the children and returns the rest.
func (s *Sx) field(name string) ([]*Sx, bool) {
	for _, e := range s.List {
		if e.IsList && len(e.List) > 0 && !e.List[0].IsList && e.List[0].Atom == name {
			return e.List[1:], true
		}
	}
	return nil, false
}

func (s *Sx) tag() string {
	if s.IsList && len(s.List) > 0 && !s.List[0].IsList {
		return s.List[0].Atom
	}
	return ""
}

func unhex(a string) ([]byte, error) {
	if !strings.HasPrefix(a, "x") {
		return nil, fmt.Errorf("bad hex atom %q", a)
	}
	return hex.DecodeString(a[1:])
}

func decTerm(s *Sx) (Term, error) {
	if !s.IsList || len(s.List) == 0 {
		return Term{}, fmt.Errorf("bad term %s", s)
	}
	tag := s.tag()
	arg := func() string {
		if len(s.List) == 2 && !s.List[1].IsList {
			return s.List[1].Atom
		}
		return ""
	}
	switch tag {
	case "v":
		b, err := unhex(arg())
		return V(string(b)), err
	case "i":
		i, err := strconv.ParseInt(arg(), 10, 64)
		return I(i), err
	case "s":
		b, err := unhex(arg())
		return S(string(b)), err
	case "d":
		d, err := strconv.ParseUint(arg(), 10, 64)
		return D(d), err
	case "b":
		b, err := unhex(arg())
		return B(b), err
	case "o":
		return O(arg() == "1"), nil
	case "set":
		var el []Term
		for _, e := range s.List[1:] {
			t, err := decTerm(e)
			if err != nil {
				return Term{}, err
			}
			el = append(el, t)
		}
		return SetOf(el...), nil
	}
	return Term{}, fmt.Errorf("bad term %s", s)
}

func decPred(s *Sx) (Pred, error) {
	t := s.tag()
	if (t != "p" && t != "f") || len(s.List) < 2 {
		return Pred{}, fmt.Errorf("bad predicate %s", s)
	}
	n, err := unhex(s.List[1].Atom)
	if err != nil {
		return Pred{}, err
	}
	p := Pred{Name: string(n)}
	for _, e := range s.List[2:] {
		tt, err := decTerm(e)
		if err != nil {
			return Pred{}, err
		}
		p.Terms = append(p.Terms, tt)
	}
	return p, nil
}

func decOp(s *Sx) (Op, error) {
	switch s.tag() {
	case "u":
		return Op{K: 'u', U: s.List[1].Atom}, nil
	case "bin":
		return Op{K: 'b', B: s.List[1].Atom}, nil
	}
	t, err := decTerm(s)
	return Op{K: 'v', T: t}, err
}

func decExpr(s *Sx) (Expr, error) {
	if s.tag() != "e" {
		return nil, fmt.Errorf("bad expression %s", s)
	}
	var e Expr
	for _, o := range s.List[1:] {
		op, err := decOp(o)
		if err != nil {
			return nil, err
		}
		e = append(e, op)
	}
	return e, nil
}

func decRule(s *Sx) (Rule, error) {
	if s.tag() != "r" || len(s.List) != 4 {
		return Rule{}, fmt.Errorf("bad rule %s", s)
	}
	h, err := decPred(s.List[1])
	if err != nil {
		return Rule{}, err
	}
	r := Rule{Head: h}
	for _, b := range s.List[2].List {
		p, err := decPred(b)
		if err != nil {
			return Rule{}, err
		}
		r.Body = append(r.Body, p)
	}
	for _, x := range s.List[3].List {
		e, err := decExpr(x)
		if err != nil {
			return Rule{}, err
		}
		r.Exprs = append(r.Exprs, e)
	}
	return r, nil
}

func decRules(items []*Sx) ([]Rule, error) {
	var out []Rule
	for _, it := range items {
		r, err := decRule(it)
		if err != nil {
			return nil, err
		}
		out = append(out, r)
	}
	return out, nil
}

func decCheck(s *Sx) (Check, error) {
	qs, err := decRules(s.List[1:])
	return Check{Queries: qs}, err
}

func decPolicy(s *Sx) (Policy, error) {
	qs, err := decRules(s.List[1:])
	return Policy{Allow: s.tag() == "allow", Queries: qs}, err
}

func decBlock(s *Sx) (Block, error) {
	var b Block
	if s.tag() != "block" {
		return b, fmt.Errorf("bad block %s", s)
	}
	if fs, ok := s.field("facts"); ok {
		for _, f := range fs {
			p, err := decPred(f)
			if err != nil {
				return b, err
			}
			b.Facts = append(b.Facts, p)
		}
	}
	if rs, ok := s.field("rules"); ok {
		r, err := decRules(rs)
		if err != nil {
			return b, err
		}
		b.Rules = r
	}
	if cs, ok := s.field("checks"); ok {
		for _, cx := range cs {
			ck, err := decCheck(cx)
			if err != nil {
				return b, err
			}
			b.Checks = append(b.Checks, ck)
		}
	}
	return b, nil
}
