package main

// ODO — the join enumerator of datalog.combine observed through the public API.
// A match table m[i][j] (does fact j match body predicate i) is realised as
//   fact j      = f(j, m[0][j], …, m[np-1][j])
//   predicate i = f($x_i, $w_i_0, …, 1 at column i, …, $w_i_np-1)
//   head        = h($x_0, …, $x_np-1)
// so that Predicate.Match is exactly the table, every variable is bound once (the
// extraction step never rejects), and the order in which Apply inserts the derived facts
// is the order in which the odometer emitted the index tuples. The model side is
// Model/Odometer.combos, proved equal to the lexicographic specification.

import (
	"fmt"
	"strings"
	"time"

	"github.com/biscuit-auth/biscuit-go/v2/datalog"
)

func init() {
	execs["ODO"] = execOdo
}

func goOdo(np, nf int, table []bool) (res string) {
	defer func() {
		if r := recover(); r != nil {
			res = "panic " + panicSite(r)
		}
	}()
	syms := &datalog.SymbolTable{}
	fname := syms.Insert("f")
	hname := syms.Insert("h")
	w := datalog.NewWorld(datalog.WithMaxDuration(20 * time.Second))
	for j := 0; j < nf; j++ {
		terms := []datalog.Term{datalog.Integer(j)}
		for i := 0; i < np; i++ {
			b := 0
			if table[i*nf+j] {
				b = 1
			}
			terms = append(terms, datalog.Integer(b))
		}
		w.AddFact(datalog.Fact{Predicate: datalog.Predicate{Name: fname, Terms: terms}})
	}
	var body []datalog.Predicate
	head := datalog.Predicate{Name: hname}
	nextVar := uint32(0)
	for i := 0; i < np; i++ {
		x := datalog.Variable(nextVar)
		nextVar++
		head.Terms = append(head.Terms, x)
		terms := []datalog.Term{x}
		for k := 0; k < np; k++ {
			if k == i {
				terms = append(terms, datalog.Integer(1))
			} else {
				terms = append(terms, datalog.Variable(nextVar))
				nextVar++
			}
		}
		body = append(body, datalog.Predicate{Name: fname, Terms: terms})
	}
	rule := datalog.Rule{Head: head, Body: body}
	out := &datalog.FactSet{}
	if err := rule.Apply(w.Facts(), out, syms); err != nil {
		return "error " + runErrClass(err)
	}
	var sb strings.Builder
	sb.WriteString("ok")
	for _, f := range *out {
		sb.WriteString(" (")
		for k, t := range f.Predicate.Terms {
			if k > 0 {
				sb.WriteString(" ")
			}
			fmt.Fprintf(&sb, "%d", int64(t.(datalog.Integer)))
		}
		sb.WriteString(")")
	}
	return sb.String()
}

func odoCaseSx(np, nf int, table []bool) string {
	var sb strings.Builder
	fmt.Fprintf(&sb, "(case (np %d) (nf %d) (table", np, nf)
	for _, b := range table {
		if b {
			sb.WriteString(" 1")
		} else {
			sb.WriteString(" 0")
		}
	}
	sb.WriteString("))")
	return sb.String()
}

func execOdo(cs *Sx) string {
	var np, nf int
	a, ok1 := cs.field("np")
	b, ok2 := cs.field("nf")
	t, ok3 := cs.field("table")
	if !ok1 || !ok2 || !ok3 || len(a) != 1 || len(b) != 1 {
		return "bad-case"
	}
	fmt.Sscanf(a[0].Atom, "%d", &np)
	fmt.Sscanf(b[0].Atom, "%d", &nf)
	if len(t) != np*nf {
		return "bad-case"
	}
	table := make([]bool, len(t))
	for i, x := range t {
		table[i] = x.Atom == "1"
	}
	return goOdo(np, nf, table)
}

// odoStream: exhaustive over all tables for small shapes, random for larger ones, plus the
// carry shapes (only the last fact matches the last predicate; nothing matches one
// position; everything matches).
func odoStream(c *Ctx, r *Rng) {
	emit := func(np, nf int, table []bool) {
		sx := odoCaseSx(np, nf, table)
		res := execCase("ODO", sx)
		c.Case("ODO", c.NewID("odo"), sx, res)
		c.Count(fmt.Sprintf("odo:np=%d", np))
		if strings.HasPrefix(res, "panic") {
			c.Violate("C05/odo-panic", "Rule.Apply panicked on a join table", map[string]interface{}{"verb": "ODO", "case": sx, "go": res})
			return
		}
		if strings.Count(res, "(") >= 2 && np >= 2 {
			c.NonTrivial(sx)
		}
	}
	shapes := [][2]int{{0, 0}, {0, 2}, {1, 0}, {2, 0}, {1, 1}, {1, 3}, {2, 2}, {3, 1}, {2, 3}, {3, 2}}
	if c.Thorough {
		shapes = append(shapes, [2]int{3, 3}, [2]int{4, 2}, [2]int{2, 4}, [2]int{2, 5}, [2]int{5, 2})
	}
	for _, s := range shapes {
		np, nf := s[0], s[1]
		bits := np * nf
		for code := 0; code < 1<<uint(bits); code++ {
			table := make([]bool, bits)
			for k := range table {
				table[k] = code>>uint(k)&1 == 1
			}
			emit(np, nf, table)
		}
	}
	n := 400
	if c.Thorough {
		n = 6000
	}
	for i := 0; i < n; i++ {
		np, nf := 1+r.Intn(5), 1+r.Intn(7)
		for pow(nf, np) > 5000 {
			nf--
		}
		table := make([]bool, np*nf)
		density := 1 + r.Intn(4)
		for k := range table {
			table[k] = r.Intn(5) < density
		}
		switch r.Intn(6) {
		case 0: // only the last fact matches the last predicate
			for j := 0; j < nf; j++ {
				table[(np-1)*nf+j] = j == nf-1
			}
		case 1: // nothing matches one position
			p := r.Intn(np)
			for j := 0; j < nf; j++ {
				table[p*nf+j] = false
			}
		case 2: // only the last fact matches every predicate
			for k := range table {
				table[k] = k%nf == nf-1
			}
		}
		emit(np, nf, table)
	}
}
