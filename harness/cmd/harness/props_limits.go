package main

// C11 — limits honoured, no silent truncation, options reach every entry point,
// no goroutine stranded.

import (
	"fmt"
	"runtime"
	"strings"
	"time"

	"github.com/biscuit-auth/biscuit-go/v2/datalog"
)

func init() { verbs["C11"] = runC11 }

// strandedGoroutines waits for quiescence and counts library goroutines still alive.
func strandedGoroutines(wait time.Duration, baseline int) (int, string) {
	deadline := time.Now().Add(wait)
	buf := make([]byte, 1<<20)
	for {
		n := runtime.Stack(buf, true)
		s := string(buf[:n])
		cnt := 0
		var sample string
		for _, g := range strings.Split(s, "\n\n") {
			if strings.Contains(g, "biscuit-go/v2/datalog.combine") || strings.Contains(g, "datalog.(*World).Run") {
				if strings.Contains(g, "strandedGoroutines") {
					continue
				}
				cnt++
				if sample == "" {
					sample = g
				}
			}
		}
		if cnt <= baseline || time.Now().After(deadline) {
			return cnt, sample
		}
		time.Sleep(2 * time.Millisecond)
	}
}

func chainProgram(k int) runCase {
	var rc runCase
	rc.Facts = append(rc.Facts, Pred{Name: "n", Terms: []Term{I(0)}})
	for i := 0; i < k; i++ {
		rc.Facts = append(rc.Facts, Pred{Name: "m", Terms: []Term{I(int64(i)), I(int64(i + 1))}})
	}
	rc.Rules = []Rule{{Head: Pred{Name: "n", Terms: []Term{V("y")}}, Body: []Pred{{Name: "n", Terms: []Term{V("x")}}, {Name: "m", Terms: []Term{V("x"), V("y")}}}}}
	return rc
}

func crossProgram(consts, arity int) runCase {
	var rc runCase
	for i := 0; i < consts; i++ {
		rc.Facts = append(rc.Facts, Pred{Name: "p", Terms: []Term{I(int64(i))}})
	}
	head := Pred{Name: "q"}
	var body []Pred
	for j := 0; j < arity; j++ {
		v := fmt.Sprintf("v%d", j)
		head.Terms = append(head.Terms, V(v))
		body = append(body, Pred{Name: "p", Terms: []Term{V(v)}})
	}
	rc.Rules = []Rule{{Head: head, Body: body}}
	return rc
}

func runC11(c *Ctx) {
	c.Rule = "(grid) chain programs of length K whose iterate sizes straddle the limits exactly: maxIterations in {0,1,K-1,K,K+1,K+2} x maxFacts in {0,1,final-1,final,final+1} (exhaustive for K in 1..6); cross-product programs exceeding maxFacts; (ill) rules with an unbound head variable over 0/1/2/5 matches, expression errors at the first / a later combination; (rand) random programs under random small limits; (ill-seq) every sequence of up to 3 combinations {derives, filtered, expression error} under a bound / unbound head; (ctor) the same limited scenario through AuthorizerFor, Authorizer and NewVerifier, after a Reset, and as the second round of a reused authorizer must agree with each other and the model; (time) heavy joins under a small duration limit must return a limit error within the limit plus slack; after every case the goroutine profile must show no goroutine left in datalog.combine / World.Run. Non-trivial = the outcome is a limit error or the run needed >= 2 rounds; distinct = distinct canonical encodings."
	r := NewRng(c.Seed)
	leaks := 0
	checkLeak := func(stream, sx string) {
		n, sample := strandedGoroutines(300*time.Millisecond, leaks)
		if n > leaks {
			c.Violate("C11/stranded-goroutine:"+stream, fmt.Sprintf("%d library goroutine(s) still blocked after evaluation returned", n-leaks),
				map[string]interface{}{"verb": "RUN", "case": sx, "stack": sample})
			leaks = n // report each new strand once
		}
	}
	emitRun := func(stream string, rc runCase) string {
		sx := runCaseSx(rc, "(rx)")
		res := execCase("RUN", sx)
		if res == "environment-timeout" {
			c.Count("environment-timeout")
			return res
		}
		id := c.NewID(stream)
		c.Case("RUN", id, sx, res)
		cls := strings.SplitN(res, " ", 2)[0]
		c.Count(stream + ":" + cls)
		if strings.HasPrefix(cls, "limit") || len(rc.Rules) > 0 {
			c.NonTrivial(sx)
		}
		checkLeak(stream, sx)
		return res
	}
	// (grid) exhaustive
	for k := 1; k <= 6; k++ {
		base := chainProgram(k)
		final := 1 + 2*k
		for _, mi := range []int{0, 1, k - 1, k, k + 1, k + 2} {
			for _, mf := range []int{0, 1, final - 1, final, final + 1} {
				if mi < 0 {
					continue
				}
				rc := base
				rc.MaxIter, rc.MaxFacts = mi, mf
				emitRun("grid", rc)
			}
		}
	}
	c.Sample(map[string]string{"stream": "grid", "case": runCaseSx(func() runCase { rc := chainProgram(3); rc.MaxIter, rc.MaxFacts = 3, 1000; return rc }(), "(rx)")})
	// cross products around the default fact limit
	for _, cs := range [][2]int{{10, 3}, {11, 3}, {32, 2}, {31, 2}} {
		rc := crossProgram(cs[0], cs[1])
		rc.MaxFacts, rc.MaxIter = 1000, 100
		emitRun("cross", rc)
		rc.MaxFacts = cs[0] + pow(cs[0], cs[1])
		emitRun("cross", rc)
		rc.MaxFacts++
		emitRun("cross", rc)
	}
	// (ill) ill-formed programs
	for _, matches := range []int{0, 1, 2, 5} {
		var rc runCase
		for i := 0; i < matches; i++ {
			rc.Facts = append(rc.Facts, Pred{Name: "p", Terms: []Term{I(int64(i))}})
		}
		rc.Facts = append(rc.Facts, Pred{Name: "z"})
		rc.MaxFacts, rc.MaxIter = 1000, 100
		rc.Rules = []Rule{{Head: Pred{Name: "q", Terms: []Term{V("unbound")}}, Body: []Pred{{Name: "p", Terms: []Term{V("x")}}}}}
		emitRun("ill", rc)
		// expression error at the first / a later combination
		rc.Rules = []Rule{{Head: Pred{Name: "q", Terms: []Term{V("x")}}, Body: []Pred{{Name: "p", Terms: []Term{V("x")}}},
			Exprs: []Expr{{{K: 'v', T: I(10)}, {K: 'v', T: V("x")}, {K: 'b', B: "div"}, {K: 'v', T: I(5)}, {K: 'b', B: "le"}}}}}
		emitRun("ill", rc)
		rc.Rules = []Rule{{Head: Pred{Name: "q", Terms: []Term{V("x")}}, Body: []Pred{{Name: "p", Terms: []Term{V("x")}}},
			Exprs: []Expr{{{K: 'v', T: V("x")}, {K: 'v', T: S("a")}, {K: 'b', B: "lt"}}}}}
		emitRun("ill", rc)
	}
	// (ill-seq) every short sequence of combinations {derives, filtered out, expression error}
	// under a head that is bound / unbound: whatever makes the consumer stop (invalid rule,
	// error) while the producer still has a combination or an error to send must not strand it
	kinds := []int64{1, 20, 0} // 10/$x >= 1: true, false, Div by zero
	var seqs [][]int64
	for l := 1; l <= 3; l++ {
		idx := make([]int, l)
		for {
			sq := make([]int64, l)
			for i, k := range idx {
				sq[i] = kinds[k]
			}
			seqs = append(seqs, sq)
			p := l - 1
			for p >= 0 && idx[p] == len(kinds)-1 {
				idx[p] = 0
				p--
			}
			if p < 0 {
				break
			}
			idx[p]++
		}
	}
	for _, sq := range seqs {
		for _, head := range []string{"x", "unbound"} {
			var rc runCase
			for i, v := range sq {
				// distinct facts with the same divisor behaviour: second column disambiguates
				rc.Facts = append(rc.Facts, Pred{Name: "p", Terms: []Term{I(v), I(int64(i))}})
			}
			rc.MaxFacts, rc.MaxIter = 1000, 100
			rc.Rules = []Rule{{Head: Pred{Name: "q", Terms: []Term{V(head), V("i")}}, Body: []Pred{{Name: "p", Terms: []Term{V("x"), V("i")}}},
				Exprs: []Expr{{{K: 'v', T: I(10)}, {K: 'v', T: V("x")}, {K: 'b', B: "div"}, {K: 'v', T: I(1)}, {K: 'b', B: "ge"}}}}}
			emitRun("ill-seq", rc)
		}
	}
	// (rand) random programs under random small limits
	n := 1200
	if c.Thorough {
		n = 20000
	}
	for i := 0; i < n; i++ {
		g := newProgGen(r)
		var rc runCase
		for j, nf := 0, r.Intn(9); j < nf; j++ {
			rc.Facts = append(rc.Facts, g.fact())
		}
		for j, nr := 0, 1+r.Intn(3); j < nr; j++ {
			rc.Rules = append(rc.Rules, g.rule(r.Chance(1, 5), r.Intn(3)))
		}
		rc.MaxFacts = Pick(r, []int{0, 1, 2, 3, 5, 8, 12, 1000})
		rc.MaxIter = Pick(r, []int{0, 1, 2, 3, 100})
		emitRun("rand", rc)
	}
	// (ctor) options reach every entry point
	nc := 300
	if c.Thorough {
		nc = 4000
	}
	for i := 0; i < nc; i++ {
		g := newScenGen(r, r.Intn(2))
		a := baseCase(g, r.Intn(3))
		a.MaxFacts = Pick(r, []int{0, 1, 3, 6, 10, 1000})
		a.MaxIter = Pick(r, []int{0, 1, 2, 100})
		a = withOps(a, AuthOp{K: "authorize"}, AuthOp{K: "query", Rule: g.rule()})
		// limits survive Reset: the same scenario after a Reset of the fresh authorizer, and as
		// the second round of a reused authorizer, must end as on a fresh one
		{
			ar := a
			ar.Ctor = "for"
			ar.Ops = append([]AuthOp{{K: "reset"}}, a.Ops...)
			fresh := a
			fresh.Ctor = "for"
			resF, _ := emitAuth(c, "reset-ref", fresh)
			resR, sxR := emitAuth(c, "reset-first", ar)
			checkLeak("reset", sxR)
			if resF != "environment-timeout" && resR != "environment-timeout" && resF != resR {
				c.Violate("C11/limits-lost-on-reset", "limits given at creation are not honoured after Reset: fresh -> "+resF+", after Reset -> "+resR,
					map[string]interface{}{"verb": "AUTHSEQ", "case": sxR, "go": resR, "reference_go": resF})
			}
			a2 := a
			a2.Ctor = "for"
			a2.Ops = append(append(append([]AuthOp{}, a.Ops...), AuthOp{K: "reset"}), a.Ops...)
			res2, sx2 := emitAuth(c, "reset-second", a2)
			if resF != "environment-timeout" && res2 != "environment-timeout" && res2 != resF+" "+resF {
				c.Violate("C11/limits-lost-on-reset", "the second round of a reused authorizer does not end like the first: fresh -> "+resF+", two rounds -> "+res2,
					map[string]interface{}{"verb": "AUTHSEQ", "case": sx2, "go": res2, "reference_go": resF})
			}
		}
		// an evaluation that hits a limit must not leave the authorizer believing it is
		// evaluated: Query, then Authorize (which may fail on a limit), then Query again
		{
			aq := a
			aq.Ctor = "for"
			content := append([]AuthOp{}, a.Ops[:len(a.Ops)-2]...)
			q := a.Ops[len(a.Ops)-1]
			aq.Ops = append(append(content, q, AuthOp{K: "authorize"}, q), AuthOp{K: "addfact", Fact: g.fact()}, q)
			_, sxQ := emitAuth(c, "query-authorize-query", aq)
			checkLeak("qaq", sxQ)
		}
		// limits survive LoadPolicies: the same content brought in through a snapshot made
		// elsewhere must end, under the limits given at creation, as when it is typed in
		{
			al := configLoaded(a)
			al.Ctor = "for"
			ref := a
			ref.Ctor = "for"
			resRef, _ := emitAuth(c, "load-ref", ref)
			resL, sxL := emitAuth(c, "load", al)
			checkLeak("load", sxL)
			if strings.HasPrefix(resL, "saved ") {
				c.Count("limits-after-load")
				if resRef != "environment-timeout" && strings.TrimPrefix(resL, "saved ") != resRef {
					c.Violate("C11/limits-lost-on-load", "limits given at creation are not honoured after LoadPolicies: typed in -> "+trunc(resRef, 80)+", loaded -> "+trunc(resL, 80),
						map[string]interface{}{"verb": "AUTHSEQ", "case": sxL, "go": resL, "reference_go": resRef})
				}
			}
		}
		// the same limits supplied as three separate WithWorldOptions values
		{
			as := a
			as.Ctor = "for"
			as.SplitOpts = true
			ref := a
			ref.Ctor = "for"
			resRef, _ := emitAuth(c, "split-ref", ref)
			resS, sxS := emitAuth(c, "split", as)
			if resRef != "environment-timeout" && resS != "environment-timeout" && resRef != resS {
				c.Violate("C11/options-not-combined", "limits supplied through several WithWorldOptions values are not all honoured: one option -> "+resRef+", separate options -> "+resS,
					map[string]interface{}{"verb": "AUTHSEQ", "case": sxS, "go": resS, "reference_go": resRef})
			}
		}
		var first, firstSx string
		for _, ctor := range []string{"for", "auth", "verifier"} {
			ac := a
			ac.Ctor = ctor
			res, sx := emitAuth(c, "ctor-"+ctor, ac)
			c.Count("ctor:" + verdictClass(strings.SplitN(res, " ", 2)[0]))
			checkLeak("ctor", sx)
			if ctor == "for" {
				first, firstSx = res, sx
				if strings.Contains(res, "limit") {
					c.NonTrivial(sx)
				}
			} else if res != first {
				c.Violate("C11/options-dropped:"+ctor, "limits given to constructor '"+ctor+"' are not honoured: AuthorizerFor -> "+first+", "+ctor+" -> "+res,
					map[string]interface{}{"verb": "AUTHSEQ", "case": sx, "go": res, "reference_case": firstSx, "reference_go": first})
			}
		}
	}
	// (time) heavy join under a small duration limit: bounded return, limit error, no strand
	for _, d := range []time.Duration{1 * time.Millisecond, 5 * time.Millisecond, 20 * time.Millisecond} {
		rc := crossProgram(22, 3)
		syms := &datalog.SymbolTable{}
		w := datalog.NewWorld(datalog.WithMaxFacts(1000000), datalog.WithMaxIterations(100), datalog.WithMaxDuration(d))
		for _, f := range rc.Facts {
			w.AddFact(datalog.Fact{Predicate: f.ToDatalog(syms)})
		}
		for _, rl := range rc.Rules {
			w.AddRule(rl.ToDatalog(syms))
		}
		t0 := time.Now()
		err := w.Run(syms)
		el := time.Since(t0)
		c.Eval()
		cls := runErrClass(err)
		c.Count("time:" + cls)
		if cls == "ok" {
			c.Violate("C11/timeout-ignored", fmt.Sprintf("a run far beyond maxDuration=%v returned success after %v", d, el), map[string]interface{}{"program": "cross 22^3", "duration": d.String()})
		}
		if el > d+500*time.Millisecond {
			c.Violate("C11/timeout-late", fmt.Sprintf("run returned %v after the %v limit", el, d), map[string]interface{}{"program": "cross 22^3", "duration": d.String(), "elapsed": el.String()})
		}
		n, sample := strandedGoroutines(10*time.Second, leaks)
		if n > leaks {
			c.Violate("C11/stranded-goroutine:timeout", fmt.Sprintf("%d library goroutine(s) still alive 10 s after a timed-out run returned", n-leaks),
				map[string]interface{}{"program": "cross 22^3", "duration": d.String(), "stack": sample})
			leaks = n
		}
	}
	c.Extra["stranded_goroutines_at_end"] = leaks
}

func pow(a, b int) int {
	r := 1
	for i := 0; i < b; i++ {
		r *= a
	}
	return r
}
