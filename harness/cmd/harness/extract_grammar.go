package main

// Grammar tables for Generated/Tables.lean: the lexer rules (name, regular expression, in
// their order — participle's simple lexer takes the first rule that matches) read from the
// exported variable the parser itself uses, and the grammar productions read by reflection
// from the struct tags participle builds the parser from.

import (
	"fmt"
	"reflect"

	bparser "github.com/biscuit-auth/biscuit-go/v2/parser"
)

func grammarTables() []string {
	var out []string
	emit := func(name, ty, val string) { out = append(out, fmt.Sprintf("def %s : %s := %s\n", name, ty, val)) }

	var rules []string
	for _, r := range bparser.BiscuitLexerRules {
		rules = append(rules, "("+leanStr(r.Name)+", "+leanStr(r.Pattern)+")")
	}
	emit("lexerRules", "List (String × String)", leanList(rules))

	// productions: breadth first from the entry points, each struct type once
	roots := []reflect.Type{
		reflect.TypeOf(bparser.Block{}), reflect.TypeOf(bparser.Authorizer{}), reflect.TypeOf(bparser.Rule{}),
		reflect.TypeOf(bparser.Check{}), reflect.TypeOf(bparser.Policy{}), reflect.TypeOf(bparser.Predicate{}),
	}
	seen := map[reflect.Type]bool{}
	queue := append([]reflect.Type{}, roots...)
	var fields []string
	for len(queue) > 0 {
		t := queue[0]
		queue = queue[1:]
		if seen[t] || t.Kind() != reflect.Struct {
			continue
		}
		seen[t] = true
		for i := 0; i < t.NumField(); i++ {
			f := t.Field(i)
			fields = append(fields, "("+leanStr(t.Name()+"."+f.Name)+", "+leanStr(f.Type.String())+", "+leanStr(string(f.Tag))+")")
			ft := f.Type
			for ft.Kind() == reflect.Ptr || ft.Kind() == reflect.Slice {
				ft = ft.Elem()
			}
			if ft.Kind() == reflect.Struct && ft.PkgPath() == t.PkgPath() {
				queue = append(queue, ft)
			}
		}
	}
	emit("grammarFields", "List (String × String × String)", leanList(fields))
	return out
}
