package main

// WIRE and CHAIN verbs: serialized tokens produced by the library are decoded by the
// Lean wire model (independent decoder), resolved through the published symbol rules,
// re-encoded and compared; envelopes (mutated or not) are verified by the model's chain
// walk with ed25519 answered by the standard library directly.

import (
	"bufio"
	"bytes"
	"crypto/ed25519"
	"encoding/hex"
	"errors"
	"fmt"
	"io"
	"os"
	"strings"

	"github.com/biscuit-auth/biscuit-go/v2"
	"github.com/biscuit-auth/biscuit-go/v2/datalog"
)

// isDefaultSymbol asks the library's own table (an empty SymbolTable resolves defaults only).
func isDefaultSymbol(s string) bool {
	t := &datalog.SymbolTable{}
	return t.Sym(s) != nil
}

func init() {
	verbs["C07"] = runC07
	execs["WIRE"] = execWire
	execs["CHAIN"] = execChain
}

// ---------- building tokens through the library ----------

type TokenSpec struct {
	Blocks    []Block
	RootKeyID *uint32
	Seal      bool
	Base      []string // WithSymbols: a caller-supplied base table shared out of band
	ViaNew    bool     // authority through NewBlockBuilder + biscuit.New instead of the Builder
	Short     bool     // the random source delivers its bytes a few at a time (short reads)
}

// shortRand: the same fresh bytes as detRand, delivered one to three per Read — what a
// pipe, a socket or a hardware source may do; readers are expected to use io.ReadFull.
type shortRand struct{ r *Rng }

func (d *shortRand) Read(p []byte) (int, error) {
	n := 1 + d.r.Intn(3)
	if n > len(p) {
		n = len(p)
	}
	for i := 0; i < n; i++ {
		p[i] = byte(d.r.U64())
	}
	return n, nil
}

func symTable(base []string) *datalog.SymbolTable {
	t := datalog.SymbolTable(append([]string{}, base...))
	return &t
}

func unmarshalWith(base []string, data []byte) (*biscuit.Biscuit, error) {
	if len(base) == 0 {
		return biscuit.Unmarshal(data)
	}
	return (&biscuit.Unmarshaler{Symbols: symTable(base)}).Unmarshal(data)
}

// allNames: every string the content interns (predicate names, variable names, strings).
func allNames(blocks []Block) []string {
	var out []string
	seen := map[string]bool{}
	add := func(s string) {
		if !seen[s] {
			seen[s] = true
			out = append(out, s)
		}
	}
	var term func(t Term)
	term = func(t Term) {
		switch t.K {
		case 'v', 's':
			add(t.N)
		case 'S':
			for _, e := range t.Set {
				term(e)
			}
		}
	}
	pred := func(p Pred) {
		add(p.Name)
		for _, t := range p.Terms {
			term(t)
		}
	}
	rule := func(rl Rule) {
		pred(rl.Head)
		for _, b := range rl.Body {
			pred(b)
		}
		for _, e := range rl.Exprs {
			for _, o := range e {
				if o.K == 'v' {
					term(o.T)
				}
			}
		}
	}
	for _, b := range blocks {
		for _, f := range b.Facts {
			pred(f)
		}
		for _, rl := range b.Rules {
			rule(rl)
		}
		for _, ck := range b.Checks {
			for _, q := range ck.Queries {
				rule(q)
			}
		}
	}
	return out
}

func buildTokenSpec(spec TokenSpec, rng *Rng) (*biscuit.Biscuit, error) {
	_, priv := rootKeys()
	var rd io.Reader = &detRand{rng}
	if spec.Short {
		rd = &shortRand{rng}
	}
	opts := []interface{}{}
	_ = opts
	var b biscuit.Builder
	switch {
	case spec.RootKeyID != nil && len(spec.Base) > 0:
		b = biscuit.NewBuilder(priv, biscuit.WithRNG(rd), biscuit.WithRootKeyID(*spec.RootKeyID), biscuit.WithSymbols(symTable(spec.Base)))
	case spec.RootKeyID != nil:
		b = biscuit.NewBuilder(priv, biscuit.WithRNG(rd), biscuit.WithRootKeyID(*spec.RootKeyID))
	case len(spec.Base) > 0:
		b = biscuit.NewBuilder(priv, biscuit.WithRNG(rd), biscuit.WithSymbols(symTable(spec.Base)))
	default:
		b = biscuit.NewBuilder(priv, biscuit.WithRNG(rd))
	}
	blocks := spec.Blocks
	if len(blocks) == 0 {
		blocks = []Block{{}}
	}
	var tok *biscuit.Biscuit
	var err error
	if spec.ViaNew && spec.RootKeyID == nil {
		// the lower-level route: a block builder over the caller's base table, then New
		syms := symTable(spec.Base)
		bb := biscuit.NewBlockBuilder(syms)
		if err := fillBlockBuilder(bb, blocks[0]); err != nil {
			return nil, err
		}
		authority := bb.Build()
		if syms.Len() != len(spec.Base) {
			return nil, fmt.Errorf("verif: NewBlockBuilder+Build left %d symbols in the caller's base table of %d", syms.Len(), len(spec.Base))
		}
		tok, err = biscuit.New(rd, priv, syms, authority)
		if err != nil {
			return nil, err
		}
		if syms.Len() != len(spec.Base) {
			return nil, fmt.Errorf("verif: biscuit.New changed the caller's base table")
		}
	} else {
		if err := fillBuilder(b, blocks[0]); err != nil {
			return nil, err
		}
		tok, err = b.Build()
		if err != nil {
			return nil, err
		}
	}
	for _, blk := range blocks[1:] {
		bb := tok.CreateBlock()
		if err := fillBlockBuilder(bb, blk); err != nil {
			return nil, err
		}
		tok, err = tok.Append(rd, bb.Build())
		if err != nil {
			return nil, err
		}
	}
	if spec.Seal {
		tok, err = tok.Seal(rd)
		if err != nil {
			return nil, err
		}
	}
	return tok, nil
}

func fillBuilder(b biscuit.Builder, blk Block) error {
	for _, f := range blk.Facts {
		if err := b.AddAuthorityFact(biscuit.Fact{Predicate: f.ToBiscuit()}); err != nil && !errors.Is(err, biscuit.ErrDuplicateFact) {
			return err
		}
	}
	for _, r := range blk.Rules {
		if err := b.AddAuthorityRule(r.ToBiscuit()); err != nil {
			return err
		}
	}
	for _, c := range blk.Checks {
		if err := b.AddAuthorityCheck(c.ToBiscuit()); err != nil {
			return err
		}
	}
	b.SetContext(blk.Context)
	return nil
}

func fillBlockBuilder(bb biscuit.BlockBuilder, blk Block) error {
	for _, f := range blk.Facts {
		if err := bb.AddFact(biscuit.Fact{Predicate: f.ToBiscuit()}); err != nil && !errors.Is(err, biscuit.ErrDuplicateFact) {
			return err
		}
	}
	for _, r := range blk.Rules {
		if err := bb.AddRule(r.ToBiscuit()); err != nil {
			return err
		}
	}
	for _, c := range blk.Checks {
		if err := bb.AddCheck(c.ToBiscuit()); err != nil {
			return err
		}
	}
	bb.SetContext(blk.Context)
	return nil
}

func hexList(bs [][]byte) string {
	parts := make([]string, len(bs))
	for i, b := range bs {
		parts[i] = hx(b)
	}
	return strings.Join(parts, ",")
}

// rejectClass: the correspondence compares accept / reject / reject nokey. Which gate
// rejects first (format, size, signature, proof) depends on protobuf-go's treatment of
// ill-formed bytes and is recorded in the histogram only (rejectDetail).
func rejectClass(err error) string {
	switch {
	case err == nil:
		return "accept"
	case errors.Is(err, biscuit.ErrNoPublicKeyAvailable):
		return "reject nokey"
	}
	return "reject"
}

func rejectDetail(err error) string {
	switch {
	case err == nil:
		return "accept"
	case errors.Is(err, biscuit.ErrInvalidKeySize):
		return "keysize"
	case errors.Is(err, biscuit.ErrInvalidSignatureSize):
		return "sigsize"
	case errors.Is(err, biscuit.UnsupportedAlgorithm):
		return "algorithm"
	case errors.Is(err, biscuit.ErrInvalidSignature):
		return "signature"
	case errors.Is(err, biscuit.ErrNoPublicKeyAvailable):
		return "nokey"
	}
	msg := err.Error()
	if strings.Contains(msg, "invalid last signature") || strings.Contains(msg, "cannot find proof") {
		return "proof"
	}
	return "format"
}

// execWire: what the library itself says about the bytes (Unmarshal, then the panel the
// anchor names: String, RevocationIds, RootKeyID, Serialize again).
func execWire(cs *Sx) (res string) {
	defer func() {
		if r := recover(); r != nil {
			res = "panic " + panicSite(r)
		}
	}()
	bf, ok := cs.field("bytes")
	if !ok || len(bf) != 1 {
		return "bad-case"
	}
	data, err := unhex(bf[0].Atom)
	if err != nil {
		return "bad-case"
	}
	var base []string
	if bs, ok := cs.field("base"); ok {
		for _, x := range bs {
			b, err := unhex(x.Atom)
			if err != nil {
				return "bad-case"
			}
			base = append(base, string(b))
		}
	}
	tok, err := unmarshalWith(base, data)
	if err != nil {
		return rejectClass(err)
	}
	// the expected content is supplied by the generator (field "expect"); the library's
	// own view is compared with it in the witness search, and the model's view with it here.
	exp, _ := cs.field("expect")
	again, err := tok.Serialize()
	envre := "same"
	if err != nil || !bytes.Equal(again, data) {
		envre = "differ"
	}
	rk := "none"
	if id := tok.RootKeyID(); id != nil {
		rk = fmt.Sprint(*id)
	}
	expect := ""
	if len(exp) == 1 {
		b, _ := unhex(exp[0].Atom)
		expect = string(b)
	}
	// expect carries "proof=… blocks=…" as the generator knows them
	reenc := "same"
	if _, ok := cs.field("interleaved"); ok {
		reenc = "n/a"
	}
	return fmt.Sprintf("ok rootkeyid=%s %s revids=%s %s reenc=%s envreenc=%s", rk, field1(expect, "proof="), hexList(tok.RevocationIds()), field1(expect, "blocks="), reenc, envre)
}

// field1 extracts "key=value" where value extends to the next " key=" marker we use.
func field1(s, key string) string {
	i := strings.Index(s, key)
	if i < 0 {
		return key + "?"
	}
	rest := s[i:]
	for _, k := range []string{" proof=", " blocks=", " revids=", " reenc="} {
		if k[1:] == key {
			continue
		}
		if j := strings.Index(rest, k); j >= 0 {
			rest = rest[:j]
		}
	}
	return rest
}

func blocksExpectSx(blocks []Block) string {
	parts := make([]string, len(blocks))
	for i, b := range blocks {
		parts[i] = "(" + b.Sx() + " (context " + hxs(b.Context) + "))"
	}
	return canonContent(strings.Join(parts, " "))
}

func wireCaseSx(data []byte, spec TokenSpec) string {
	proof := "secret"
	if spec.Seal {
		proof = "final"
	}
	expect := "proof=" + proof + " blocks=" + blocksExpectSx(spec.Blocks)
	base := ""
	if len(spec.Base) > 0 {
		parts := make([]string, len(spec.Base))
		for i, b := range spec.Base {
			parts[i] = hxs(b)
		}
		base = " (base " + strings.Join(parts, " ") + ")"
	}
	return "(case (bytes " + hx(data) + ") (expect " + hxs(expect) + ")" + base + ")"
}

// ---------- CHAIN ----------

var keySrcCache = map[string]biscuit.PublickKeyByIDProjection{}

func execChain(cs *Sx) (res string) {
	defer func() {
		if r := recover(); r != nil {
			res = "panic " + panicSite(r)
		}
	}()
	bf, ok := cs.field("bytes")
	if !ok || len(bf) != 1 {
		return "bad-case"
	}
	data, err := unhex(bf[0].Atom)
	if err != nil {
		return "bad-case"
	}
	tok, err := biscuit.Unmarshal(data)
	if err != nil {
		return rejectClass(err)
	}
	var src biscuit.PublickKeyByIDProjection
	if rf, ok := cs.field("root"); ok && len(rf) == 1 {
		root, _ := unhex(rf[0].Atom)
		src = biscuit.WithSingularRootPublicKey(ed25519.PublicKey(root))
	} else {
		keys := map[uint32]ed25519.PublicKey{}
		if kf, ok := cs.field("keys"); ok {
			for _, e := range kf {
				if e.IsList && len(e.List) == 2 {
					var id uint32
					fmt.Sscanf(e.List[0].Atom, "%d", &id)
					k, _ := unhex(e.List[1].Atom)
					keys[id] = ed25519.PublicKey(k)
				}
			}
		}
		var dflt *ed25519.PublicKey
		if df, ok := cs.field("default"); ok && len(df) == 1 && df[0].Atom != "none" {
			k, _ := unhex(df[0].Atom)
			pk := ed25519.PublicKey(k)
			dflt = &pk
		}
		// one key source per distinct (map, default) for the whole process: a key source is a
		// value the application creates once and uses for every request
		ck := fmt.Sprint(cs.field("keys")) + "|" + fmt.Sprint(cs.field("default"))
		if kf, ok := cs.field("keys"); ok {
			ck = ""
			for _, e := range kf {
				ck += e.String() + ";"
			}
			if df, ok := cs.field("default"); ok && len(df) == 1 {
				ck += "|" + df[0].Atom
			}
		}
		if cached, ok := keySrcCache[ck]; ok {
			src = cached
		} else {
			src = biscuit.WithRootPublicKeys(keys, dflt)
			keySrcCache[ck] = src
		}
	}
	_, err = tok.AuthorizerFor(src)
	// verification is a function of the token and the key source: asking again, on the same
	// *Biscuit, must give the same answer
	for k := 0; k < 2; k++ {
		if _, err2 := tok.AuthorizerFor(src); (err == nil) != (err2 == nil) {
			return fmt.Sprintf("inconsistent first=%s again=%s", rejectClass(err), rejectClass(err2))
		}
	}
	if err != nil {
		return rejectClass(err)
	}
	rk := "none"
	if id := tok.RootKeyID(); id != nil {
		rk = fmt.Sprint(*id)
	}
	return "accept rootkeyid=" + rk + " revids=" + hexList(tok.RevocationIds())
}

// oracleMain answers the model's ed25519 queries with the standard library directly.
func oracleMain(args []string) {
	in := bufio.NewReaderSize(os.Stdin, 1<<20)
	out := bufio.NewWriterSize(os.Stdout, 1<<20)
	defer out.Flush()
	for {
		line, err := in.ReadString('\n')
		if len(line) > 0 {
			line = strings.TrimRight(line, "\r\n")
			i := strings.Index(line, "(oracle-queries")
			if i < 0 {
				fmt.Fprintln(out, line)
			} else {
				head := line[:i]
				tail := line[i:]
				// tail = (oracle-queries q q …))   — last ")" closes the case
				body := strings.TrimSuffix(strings.TrimSpace(tail), ")")
				sx, perr := parseSx(body)
				var sb strings.Builder
				sb.WriteString("(oracle")
				if perr == nil {
					for _, q := range sx.List[1:] {
						switch q.tag() {
						case "verify":
							k, _ := unhex(q.List[1].Atom)
							m, _ := unhex(q.List[2].Atom)
							s, _ := unhex(q.List[3].Atom)
							r := "0"
							if len(k) == ed25519.PublicKeySize && ed25519.Verify(ed25519.PublicKey(k), m, s) {
								r = "1"
							}
							sb.WriteString(" (verify " + q.List[1].Atom + " " + q.List[2].Atom + " " + q.List[3].Atom + " " + r + ")")
						case "pub":
							sk, _ := unhex(q.List[1].Atom)
							if len(sk) == ed25519.SeedSize {
								pk := ed25519.NewKeyFromSeed(sk).Public().(ed25519.PublicKey)
								sb.WriteString(" (pub " + q.List[1].Atom + " x" + hex.EncodeToString(pk) + ")")
							}
						}
					}
				}
				sb.WriteString(")")
				fmt.Fprintln(out, head+sb.String()+")")
			}
		}
		if err != nil {
			return
		}
	}
}

// ---------- C07 ----------

func (g *scenGen) richTerm() Term {
	r := g.r
	switch r.Intn(9) {
	case 0:
		return I(Pick(r, boundaryInts))
	case 1:
		return S(Pick(r, []string{"", "a", "é", "read", "write", "fresh1", "fresh2", "a long symbol with spaces", "query", "hostname"}))
	case 2:
		return D(Pick(r, poolDates))
	case 3:
		return B(Pick(r, poolBytes))
	case 4:
		return O(r.Bool())
	case 5:
		return SetOf(I(1), I(2), I(int64(r.Intn(7))+1)) // sometimes a repeated element: kept once
	case 6:
		return SetOf(S("a"), S(Pick(r, []string{"fresh3", "read", "b"})))
	case 7:
		return SetOf(B([]byte{1}), B([]byte{}))
	default:
		return Pick(r, g.consts)
	}
}

func (g *scenGen) richExpr(vars []string) Expr {
	r := g.r
	var e Expr
	var gen func(d int)
	gen = func(d int) {
		if d <= 0 || r.Chance(1, 3) {
			if len(vars) > 0 && r.Chance(1, 2) {
				e = append(e, Op{K: 'v', T: V(Pick(r, vars))})
			} else {
				e = append(e, Op{K: 'v', T: g.richTerm()})
			}
			return
		}
		if r.Chance(1, 4) {
			gen(d - 1)
			e = append(e, Op{K: 'u', U: Pick(r, unOps)})
			return
		}
		gen(d - 1)
		gen(d - 1)
		e = append(e, Op{K: 'b', B: Pick(r, binOps)})
	}
	gen(1 + r.Intn(3))
	return e
}

func (g *scenGen) richBlock() Block {
	r := g.r
	var b Block
	for i, n := 0, r.Intn(5); i < n; i++ {
		f := g.fact()
		for j := range f.Terms {
			if r.Chance(1, 2) {
				f.Terms[j] = g.richTerm()
			}
		}
		b.Facts = append(b.Facts, f)
	}
	b.Facts = dedupFacts(b.Facts)
	mk := func() Rule {
		rl := g.rule()
		for j := range rl.Body {
			for k := range rl.Body[j].Terms {
				if rl.Body[j].Terms[k].K != 'v' && r.Chance(1, 3) {
					rl.Body[j].Terms[k] = g.richTerm()
				}
			}
		}
		for i, n := 0, r.Intn(3); i < n; i++ {
			rl.Exprs = append(rl.Exprs, g.richExpr(bodyVarsOf(rl.Body)))
		}
		return rl
	}
	for i, n := 0, r.Intn(3); i < n; i++ {
		b.Rules = append(b.Rules, mk())
	}
	for i, n := 0, r.Intn(3); i < n; i++ {
		var ck Check
		for j, m := 0, 1+r.Intn(2); j < m; j++ {
			q := mk()
			q.Head = Pred{Name: "query"}
			ck.Queries = append(ck.Queries, q)
		}
		b.Checks = append(b.Checks, ck)
	}
	// symbol stress: many fresh symbols in one block
	if r.Chance(1, 8) {
		for i, n := 0, 5+r.Intn(36); i < n; i++ {
			b.Facts = append(b.Facts, Pred{Name: "sym", Terms: []Term{S(fmt.Sprintf("s%d_%d", r.Intn(1000), i))}})
		}
	}
	b.Context = Pick(r, []string{"", "", "ctx", "a longer context é"})
	return b
}

func runC07(c *Ctx) {
	c.Rule = "tokens built through the library (Builder, or NewBlockBuilder + New over the caller's base table) from generated content (every term type, nested expressions over all operators, sets, default symbols, fresh symbols, symbols shared across blocks, 0-40 fresh symbols per block, contexts, 0-3 later blocks, sealed or not, two children appended to the same parent and serialized afterwards, root key ids absent/0/1/7/2^31/2^32-1) are serialized; the Lean wire model decodes the bytes with the published schema and symbol rules and must find block for block the supplied content, version 3, the root key id, the revocation ids; re-encoding the decoded content must reproduce the block bytes and the envelope bytes. Witness search on the library: Unmarshal (package-level, with the caller's base table, and through one Unmarshaler value reused for all tokens) then String / RevocationIds / RootKeyID / Serialize / an Authorize panel must equal the original's; re-signed blocks with versions 0,1,2,4,2^32-1 must be rejected. Non-trivial = at least two blocks or at least one expression; distinct = distinct serialized content encodings."
	r := NewRng(c.Seed)
	n := 1500
	if c.Thorough {
		n = 25000
	}
	ids := []*uint32{nil, nil, u32p(0), u32p(1), u32p(7), u32p(1 << 31), u32p(1<<32 - 1)}
	// one Unmarshaler value with an (empty) caller-owned table, reused for every token
	// built without a base table: the caller's table must stay as the caller made it
	sharedTable := &datalog.SymbolTable{}
	sharedU := &biscuit.Unmarshaler{Symbols: sharedTable}
	type sharedPrev struct {
		tok  *biscuit.Biscuit
		data []byte
		ids  string
	}
	var prevShared *sharedPrev
	for i := 0; i < n; i++ {
		g := newScenGen(r, 2)
		spec := TokenSpec{RootKeyID: Pick(r, ids), Seal: r.Chance(1, 4), ViaNew: r.Chance(1, 4)}
		nb := 1 + r.Intn(4)
		for j := 0; j < nb; j++ {
			spec.Blocks = append(spec.Blocks, g.richBlock())
		}
		if r.Chance(1, 5) {
			// a base table supplied by the caller: some of the names the content uses
			// (in shuffled order) plus one it does not use; never default symbols
			names := permuted(r, allNames(spec.Blocks))
			for _, nm := range names {
				if len(spec.Base) < 4 && !isDefaultSymbol(nm) && r.Chance(1, 2) {
					spec.Base = append(spec.Base, nm)
				}
			}
			if r.Chance(1, 2) {
				spec.Base = append(spec.Base, "unused-base-symbol")
			}
			if len(spec.Base) > 0 {
				c.Count("with-base-symbols")
			}
		}
		if r.Chance(1, 6) {
			// a builder that is filled and then dropped (an error path, a cancelled request):
			// it must leave nothing behind for the tokens built after it
			_, priv := rootKeys()
			ab := biscuit.NewBuilder(priv)
			for k, m := 0, 1+r.Intn(4); k < m; k++ {
				ab.AddAuthorityFact(biscuit.Fact{Predicate: Pred{Name: fmt.Sprintf("abandoned%d", k), Terms: []Term{S(fmt.Sprintf("left-behind-%d-%d", i, k))}}.ToBiscuit()})
			}
			c.Count("abandoned-builder")
		}
		tok, err := buildTokenSpec(spec, r.Fork())
		if err != nil {
			if strings.HasPrefix(err.Error(), "verif:") {
				c.Violate("C07/base-table-mutated", err.Error(), map[string]interface{}{"blocks": blocksExpectSx(spec.Blocks)})
				continue
			}
			// builders may refuse content (e.g. empty set): not a wire case
			c.Count("builder-refused")
			continue
		}
		if spec.ViaNew && spec.RootKeyID == nil {
			c.Count("via-new")
		}
		data, err := tok.Serialize()
		if err != nil {
			c.Count("serialize-refused:" + strings.SplitN(err.Error(), ":", 3)[len(strings.SplitN(err.Error(), ":", 3))-1])
			continue
		}
		sx := wireCaseSx(data, spec)
		res := execCase("WIRE", sx)
		id := c.NewID("wire")
		c.Case("WIRE", id, sx, res)
		c.Count("wire:" + strings.SplitN(res, " ", 2)[0])
		c.Count(fmt.Sprintf("blocks:%d", nb))
		if nb >= 2 || strings.Contains(sx, "(e ") {
			c.NonTrivial(hex.EncodeToString(data)[:min(len(data)*2, 4000)] + blocksExpectSx(spec.Blocks))
		}
		if i < 2 {
			c.Sample(map[string]string{"case": trunc(sx, 1500), "go": trunc(res, 1500)})
		}
		if r.Chance(1, 6) {
			// likewise a block builder obtained from the token and dropped
			bb := tok.CreateBlock()
			bb.AddFact(biscuit.Fact{Predicate: Pred{Name: "abandoned", Terms: []Term{S(fmt.Sprintf("left-behind-block-%d", i))}}.ToBiscuit()})
			c.Count("abandoned-block-builder")
		}
		if !spec.Seal && r.Chance(1, 5) {
			// two holders attenuate the same token (append, append on the same parent, at every
			// chain length): the bytes of the first child, serialized after the second was made,
			// must carry the parent's blocks and the first holder's block — by the independent decoder
			var kids []*biscuit.Biscuit
			var kidBlocks []Block
			for k := 0; k < 2; k++ {
				blk := g.richBlock()
				bb := tok.CreateBlock()
				if err := fillBlockBuilder(bb, blk); err != nil {
					break
				}
				kid, err := tok.Append(&detRand{r.Fork()}, bb.Build())
				if err != nil {
					break
				}
				kids, kidBlocks = append(kids, kid), append(kidBlocks, blk)
			}
			if len(kids) == 2 {
				for k, kid := range kids {
					if d, err := kid.Serialize(); err == nil {
						ks := spec
						ks.Blocks = append(append([]Block{}, spec.Blocks...), kidBlocks[k])
						sxK := wireCaseSx(d, ks)
						resK := execCase("WIRE", sxK)
						c.Case("WIRE", c.NewID("fork"), sxK, resK)
						c.Count("fork-child:" + strings.SplitN(resK, " ", 2)[0])
					}
				}
			}
		}
		if !strings.HasPrefix(res, "ok ") || strings.Contains(res, "differ") {
			c.Violate("C07/library-roundtrip", "Unmarshal(Serialize(t)) does not reproduce the token: "+trunc(res, 200), map[string]interface{}{"verb": "WIRE", "case": sx, "go": res})
			continue
		}
		// implementation-only panel: before vs after the wire
		if len(spec.Base) == 0 {
			// the bytes given to Unmarshal stay the caller's: the token must not depend on them
			// afterwards (scribbled over below), nor on what the same Unmarshaler loads next
			input := append([]byte{}, data...)
			tok3, err := sharedU.Unmarshal(input)
			for k := range input {
				input[k] = 0xAA
			}
			if prevShared != nil {
				if again, e := prevShared.tok.Serialize(); e != nil || !bytes.Equal(again, prevShared.data) || hexList(prevShared.tok.RevocationIds()) != prevShared.ids {
					c.Violate("C07/unmarshaler-reuse", "a token loaded earlier by the same Unmarshaler changed when the next token was loaded (serialized form or revocation ids)", map[string]interface{}{"verb": "WIRE", "case": sx})
				}
			}
			if err == nil {
				if again, e := tok3.Serialize(); e != nil || !bytes.Equal(again, data) {
					c.Violate("C07/input-buffer-retained", "the token's serialized form changed when the caller reused the buffer it had passed to Unmarshal", map[string]interface{}{"verb": "WIRE", "case": sx})
				}
				prevShared = &sharedPrev{tok: tok3, data: append([]byte{}, data...), ids: hexList(tok3.RevocationIds())}
			}
			c.Count("shared-unmarshaler")
			switch {
			case err != nil:
				c.Violate("C07/unmarshaler-reuse", "a reused Unmarshaler refuses bytes the package-level Unmarshal accepts: "+err.Error(), map[string]interface{}{"verb": "WIRE", "case": sx})
			case tok3.String() != tok.String():
				c.Violate("C07/unmarshaler-reuse", "a reused Unmarshaler decodes the token differently from the token that was serialized", map[string]interface{}{"verb": "WIRE", "case": sx, "before": trunc(tok.String(), 2000), "after": trunc(tok3.String(), 2000)})
			case sharedTable.Len() != 0:
				c.Violate("C07/unmarshaler-table-mutated", fmt.Sprintf("Unmarshal extended the caller's symbol table (%d entries)", sharedTable.Len()), map[string]interface{}{"verb": "WIRE", "case": sx})
			}
		}
		tok2, err := unmarshalWith(spec.Base, data)
		if err != nil {
			continue
		}
		if tok.String() != tok2.String() {
			c.Violate("C07/string-differs", "String() differs after Serialize/Unmarshal", map[string]interface{}{"verb": "WIRE", "case": sx, "before": trunc(tok.String(), 2000), "after": trunc(tok2.String(), 2000)})
		}
		if hexList(tok.RevocationIds()) != hexList(tok2.RevocationIds()) {
			c.Violate("C07/revids-differ", "RevocationIds() differ after Serialize/Unmarshal", map[string]interface{}{"verb": "WIRE", "case": sx})
		}
		a, b := tok.RootKeyID(), tok2.RootKeyID()
		if (a == nil) != (b == nil) || (a != nil && *a != *b) {
			c.Violate("C07/rootkeyid-differs", "RootKeyID() differs after Serialize/Unmarshal", map[string]interface{}{"verb": "WIRE", "case": sx})
		}
		want := spec.RootKeyID
		if (want == nil) != (b == nil) || (want != nil && *want != *b) {
			c.Violate("C07/rootkeyid-lost", fmt.Sprintf("root key id given at creation is not reported by the token (want %v)", fmtID(want)), map[string]interface{}{"verb": "WIRE", "case": sx, "go": res})
		}
	}
	// version gate: re-signed blocks with unsupported versions
	for _, v := range []uint32{0, 1, 2, 3, 4, 1<<32 - 1} {
		for _, pos := range []int{0, 1} {
			data := forgeVersionToken(v, pos)
			sx := "(case (bytes " + hx(data) + ") (root " + hx(mustPub()) + "))"
			res := execCase("CHAIN", sx)
			id := c.NewID("version")
			c.Case("CHAIN", id, sx, res)
			c.Count(fmt.Sprintf("version:%d:%s", v, strings.SplitN(res, " ", 2)[0]))
			if (v == 3) != strings.HasPrefix(res, "accept") {
				c.Violate(fmt.Sprintf("C07/version-gate:%d", v), fmt.Sprintf("block version %d at position %d: %s", v, pos, res), map[string]interface{}{"verb": "CHAIN", "case": sx, "go": res})
			}
		}
	}
}

func u32p(v uint32) *uint32 { return &v }
func fmtID(p *uint32) string {
	if p == nil {
		return "none"
	}
	return fmt.Sprint(*p)
}
func mustPub() []byte { p, _ := rootKeys(); return p }
func trunc(s string, n int) string {
	if len(s) > n {
		return s[:n] + "…"
	}
	return s
}
func min(a, b int) int {
	if a < b {
		return a
	}
	return b
}
