package main

// C19 — a token can be shared by concurrent goroutines.
// The check re-executes this binary (built with -race) as a child with GORACE logging to a
// file: N goroutines run randomised mixes of the listed operations on ONE shared token,
// shared parsed values and one shared parser; race reports are parsed from the log and
// every goroutine's results are compared with the sequential results of the same mix.

import (
	"bufio"
	"fmt"
	"os"
	"os/exec"
	"path/filepath"
	"regexp"
	"runtime"
	"sort"
	"strings"
	"sync"

	"github.com/biscuit-auth/biscuit-go/v2"
	"github.com/biscuit-auth/biscuit-go/v2/parser"
)

func init() { verbs["C19"] = runC19 }

var raceOps = []string{"verify", "authorize", "query", "string", "getblockid", "createblock", "append", "seal", "serialize", "revids", "parse", "code", "authorize-parsed", "regex"}

type raceShared struct {
	tok     *biscuit.Biscuit
	check   biscuit.Check
	policy  biscuit.Policy
	rule    biscuit.Rule
	p       parser.Parser
	setFact biscuit.Fact
	pa      biscuit.ParsedAuthorizer // a parsed authorizer (facts, rule, check, several policies) every goroutine adds to its own authorizer
	pb      biscuit.ParsedBlock
}

func raceOp(sh *raceShared, op string, k int) (res string) {
	defer func() {
		if r := recover(); r != nil {
			res = "panic " + panicSite(r)
		}
	}()
	pub, _ := rootKeys()
	rd := &detRand{NewRng(uint64(k) + 1000)}
	switch op {
	case "verify":
		_, err := sh.tok.AuthorizerFor(biscuit.WithSingularRootPublicKey(pub))
		return rejectClass(err)
	case "authorize":
		az, err := sh.tok.AuthorizerFor(biscuit.WithSingularRootPublicKey(pub), biscuitOpts(AuthCase{MaxFacts: 1000, MaxIter: 100}))
		if err != nil {
			return rejectClass(err)
		}
		az.AddFact(biscuit.Fact{Predicate: biscuit.Predicate{Name: "resource", IDs: []biscuit.Term{biscuit.String(fmt.Sprintf("file%d", k%3))}}})
		az.AddCheck(sh.check)
		az.AddFact(sh.setFact) // a shared parsed value with a set written out of order
		// a regular expression evaluated by every goroutine, some patterns shared and some
		// seen for the first time under concurrency
		if rc, err := sh.p.Check(fmt.Sprintf(`check if resource($r), $r.matches("^fil[a-z]%d?[0-9]+(x%d)?$")`, k%4, raceEpoch), nil); err == nil {
			az.AddCheck(rc)
		}
		az.AddPolicy(sh.policy)
		return authErrClass(az.Authorize())
	case "regex":
		// each request has its own pattern, written into its own authorizer at the same position
		// (so the same symbol index in every goroutine's table); whether it matches depends on k.
		// The reference for this op is Go's regexp applied directly (raceRegexWant), not the library.
		az, err := sh.tok.AuthorizerFor(biscuit.WithSingularRootPublicKey(pub), biscuitOpts(AuthCase{MaxFacts: 1000, MaxIter: 100}))
		if err != nil {
			return rejectClass(err)
		}
		az.AddFact(biscuit.Fact{Predicate: biscuit.Predicate{Name: "probe_res", IDs: []biscuit.Term{biscuit.String(fmt.Sprintf("file%d", k%3))}}})
		rl, err := sh.p.Rule(fmt.Sprintf(`probe_hit($r) <- probe_res($r), $r.matches("%s")`, racePattern(k)), nil)
		if err != nil {
			return "parse-error"
		}
		fs, err := az.Query(rl)
		if err != nil {
			return "qerr"
		}
		if len(fs) > 0 {
			return "match"
		}
		return "nomatch"
	case "authorize-parsed":
		// the shared parsed authorizer and block go in first, then this request's own policy,
		// which decides: each goroutine must get the answer of ITS policy
		az, err := sh.tok.AuthorizerFor(biscuit.WithSingularRootPublicKey(pub), biscuitOpts(AuthCase{MaxFacts: 1000, MaxIter: 100}))
		if err != nil {
			return rejectClass(err)
		}
		az.AddAuthorizer(sh.pa)
		az.AddBlock(sh.pb)
		az.AddFact(biscuit.Fact{Predicate: biscuit.Predicate{Name: "request", IDs: []biscuit.Term{biscuit.Integer(int64(k % 5))}}})
		kind := "allow"
		if k%2 == 1 {
			kind = "deny"
		}
		if own, err := sh.p.Policy(fmt.Sprintf("%s if request(%d)", kind, k%5), nil); err == nil {
			az.AddPolicy(own)
			az.AddCheck(sh.check)
		}
		return authErrClass(az.Authorize())
	case "query":
		az, err := sh.tok.AuthorizerFor(biscuit.WithSingularRootPublicKey(pub), biscuitOpts(AuthCase{MaxFacts: 1000, MaxIter: 100}))
		if err != nil {
			return rejectClass(err)
		}
		fs, err := az.Query(sh.rule)
		if err != nil {
			return "qerr"
		}
		items := make([]string, 0, len(fs))
		for _, f := range fs {
			items = append(items, f.String())
		}
		sort.Strings(items)
		return strings.Join(items, ";")
	case "string":
		return fmt.Sprint(len(sh.tok.String()))
	case "code":
		return strings.Join(sh.tok.Code(), ";")
	case "getblockid":
		id, err := sh.tok.GetBlockID(biscuit.Fact{Predicate: biscuit.Predicate{Name: "right", IDs: []biscuit.Term{biscuit.String(fmt.Sprintf("new-symbol-%d", k%4))}}})
		return fmt.Sprint(id, err != nil)
	case "createblock":
		bb := sh.tok.CreateBlock()
		bb.AddFact(biscuit.Fact{Predicate: biscuit.Predicate{Name: "extra", IDs: []biscuit.Term{biscuit.String(fmt.Sprintf("fresh-%d", k%5))}}})
		bb.AddCheck(sh.check)
		blk := bb.Build()
		nt, err := sh.tok.Append(rd, blk)
		if err != nil {
			return "append-error"
		}
		return strings.Join(nt.Code(), ";")
	case "append":
		nt, err := sh.tok.Append(rd, sh.tok.CreateBlock().Build())
		if err != nil {
			return "append-error"
		}
		return fmt.Sprint(nt.BlockCount())
	case "seal":
		nt, err := sh.tok.Seal(rd)
		if err != nil {
			return "seal-error"
		}
		_, err = nt.AuthorizerFor(biscuit.WithSingularRootPublicKey(pub))
		return rejectClass(err)
	case "serialize":
		d, err := sh.tok.Serialize()
		if err != nil {
			return "serialize-error"
		}
		return fmt.Sprint(len(d))
	case "revids":
		return hexList(sh.tok.RevocationIds())
	case "parse":
		ck, err := sh.p.Check(fmt.Sprintf(`check if resource($r), operation("read"), $r.starts_with("file%d")`, k%3), nil)
		if err != nil {
			return "parse-error"
		}
		return fmt.Sprint(len(ck.Queries))
	}
	return "?"
}

func raceShare(r *Rng) (*raceShared, error) {
	g := newScenGen(r, 0)
	// symbol table steered to have spare capacity: 3, 5-7 or 9-15 symbols
	nsym := Pick(r, []int{3, 5, 6, 7, 9, 11, 13, 15})
	var b Block
	for i := 0; i < nsym; i++ {
		b.Facts = append(b.Facts, Pred{Name: "right", Terms: []Term{S(fmt.Sprintf("s%d", i))}})
	}
	b.Facts = append(b.Facts, Pred{Name: "resource", Terms: []Term{S("file1")}})
	// set terms whose elements are not in the order in which they print: printing must not
	// reorder the token's own data under the other goroutines' feet
	b.Facts = append(b.Facts, Pred{Name: "ports", Terms: []Term{SetOf(I(3), I(10), I(25))}},
		Pred{Name: "ports", Terms: []Term{SetOf(I(2), I(1))}})
	for k := 0; k < 16; k++ {
		var el []Term
		for j := 0; j < 8; j++ {
			el = append(el, I(int64(9*(8-j)+k))) // descending, and "9" sorts after "10": never in printed order
		}
		b.Facts = append(b.Facts, Pred{Name: "ports", Terms: []Term{SetOf(el...)}})
	}
	blocks := []Block{b, g.block(2, 1, 1)}
	// 0-6 further blocks: the envelope's block list sits at various distances from a capacity
	// boundary, so that concurrent Appends on the shared token would meet in the same slot if
	// the list were extended in place
	for i, d := 0, Pick(r, []int{0, 1, 1, 2, 3, 4, 5, 6}); i < d; i++ {
		blocks = append(blocks, Block{Facts: []Pred{{Name: "p", Terms: []Term{S(fmt.Sprintf("extra%d", i))}}}})
	}
	// half of the shared tokens are used as Build/Append returned them (their in-memory block
	// lists have spare capacity that a token coming out of Unmarshal does not have)
	inMemory := r.Chance(1, 2)
	tok, err := buildTokenMem(blocks, r.Fork(), inMemory) // goes through Serialize/Unmarshal: protobuf-allocated byte slices
	if err != nil {
		return nil, err
	}
	p := parser.New()
	ck, err := p.Check(`check if resource($r)`, nil)
	if err != nil {
		return nil, err
	}
	pol, err := p.Policy(`allow if true`, nil)
	if err != nil {
		return nil, err
	}
	rl, err := p.Rule(`q($x) <- right($x)`, nil)
	if err != nil {
		return nil, err
	}
	sf, err := p.Fact(`allowed(["k", "j", "c", "h", "g", "f", "e", "d", "i", "b", "a"])`, nil)
	if err != nil {
		return nil, err
	}
	// parsed once, shared by all goroutines: policies that match nothing (1-7 of them, so that
	// the parsed slices sit at various distances from a capacity boundary), facts, a rule, checks
	var atext strings.Builder
	atext.WriteString(`seen("shared"); known($x) <- seen($x); check if seen("shared");`)
	for i, n := 0, 1+r.Intn(7); i < n; i++ {
		fmt.Fprintf(&atext, ` deny if never(%d);`, i)
	}
	pa, err := p.Authorizer(atext.String(), nil)
	if err != nil {
		return nil, err
	}
	var btext strings.Builder
	for i, n := 0, 1+r.Intn(7); i < n; i++ {
		fmt.Fprintf(&btext, `extra(%d); check if extra(%d);`, i, i)
	}
	pblk, err := p.Block(btext.String(), nil)
	if err != nil {
		return nil, err
	}
	return &raceShared{tok: tok, check: ck, policy: pol, rule: rl, p: p, setFact: sf, pa: pa, pb: pblk}, nil
}

// racePattern: digits up to k%4 only, so "file<k%3>" matches for some k and not for others.
func racePattern(k int) string {
	return fmt.Sprintf(`^fil[a-z][0-%d]+(x%d)?$`, k%4, raceEpoch)
}

func raceRegexWant(k int) string {
	if regexp.MustCompile(racePattern(k)).MatchString(fmt.Sprintf("file%d", k%3)) {
		return "match"
	}
	return "nomatch"
}

var raceEpoch int // mix number: patterns differ from mix to mix, so each mix meets some for the first time

// raceWorkMain: child process. Prints "MIX <i> <goroutine> <op> <k> <result> <sequential>" lines.
func raceWorkMain(args []string) {
	var seed uint64 = 1
	mixes, gor, ops := 10, 8, 60
	fmt.Sscanf(strings.Join(args, " "), "%d %d %d %d", &seed, &mixes, &gor, &ops)
	r := NewRng(seed)
	out := bufio.NewWriter(os.Stdout)
	defer out.Flush()
	fmt.Fprintf(out, "RACE-ENABLED %v\n", raceEnabled)
	for m := 0; m < mixes; m++ {
		runtime.GOMAXPROCS(2 + r.Intn(15))
		// two identical but separate object graphs: the sequential reference runs on its own
		// copy, so that the shared one reaches the goroutines untouched (a first-use effect
		// such as lazy initialisation or in-place normalisation happens under concurrency)
		shareSeed := r.U64()
		sh, err := raceShare(NewRng(shareSeed))
		if err != nil {
			fmt.Fprintf(out, "SETUP-ERROR %v\n", err)
			continue
		}
		shRef, err := raceShare(NewRng(shareSeed))
		if err != nil {
			fmt.Fprintf(out, "SETUP-ERROR %v\n", err)
			continue
		}
		// sequential reference of every (op, k) that the mix uses
		type job struct {
			op string
			k  int
		}
		plans := make([][]job, gor)
		for gi := range plans {
			for j := 0; j < ops; j++ {
				plans[gi] = append(plans[gi], job{Pick(r, raceOps), r.Intn(12)})
			}
		}
		raceEpoch = m
		results := make([][]string, gor)
		var wg sync.WaitGroup
		start := make(chan struct{})
		for gi := 0; gi < gor; gi++ {
			wg.Add(1)
			go func(gi int) {
				defer wg.Done()
				<-start
				for _, j := range plans[gi] {
					results[gi] = append(results[gi], raceOp(sh, j.op, j.k))
				}
			}(gi)
		}
		close(start)
		wg.Wait()
		// the sequential reference comes AFTER the concurrent phase (and on its own object
		// graph): whatever the library does on first use — of a token, of a pattern, of a
		// process-wide table — it does under concurrency
		ref := map[job]string{}
		for _, pl := range plans {
			for _, j := range pl {
				if _, ok := ref[j]; !ok {
					if j.op == "regex" {
						ref[j] = raceRegexWant(j.k) // independent of the library: a process-wide table filled under concurrency would mislead a library reference too
					} else {
						ref[j] = raceOp(shRef, j.op, j.k)
					}
				}
			}
		}
		bad := 0
		for gi := range plans {
			for ji, j := range plans[gi] {
				if results[gi][ji] != ref[j] {
					bad++
					if bad <= 5 {
						fmt.Fprintf(out, "DIFF mix=%d goroutine=%d op=%s k=%d concurrent=%q sequential=%q\n", m, gi, j.op, j.k, trunc(results[gi][ji], 200), trunc(ref[j], 200))
					}
				}
			}
		}
		fmt.Fprintf(out, "MIX %d goroutines=%d ops=%d maxprocs=%d diffs=%d\n", m, gor, gor*ops, runtime.GOMAXPROCS(0), bad)
	}
}

// libraryRoot: where the library under test lives (frames of race reports are recognised by it).
func libraryRoot() string {
	if d := os.Getenv("VERIF_REPO"); d != "" {
		return strings.TrimRight(d, "/") + "/"
	}
	return "/repo/"
}

var raceFrameRe = regexp.MustCompile(`(?m)^\s+(\S*` + regexp.QuoteMeta(libraryRoot()) + `[^\s:]+\.go:\d+)`)

func runC19(c *Ctx) {
	c.Rule = "the harness is rebuilt with -race and re-executed as a child with GORACE=log_path: per mix one shared token (unmarshalled, so byte slices are protobuf-allocated; symbol table of 3/5-7/9-15 symbols and 2-8 blocks so that clones and block lists have spare capacity), shared parsed check / policy / rule values and one shared parser.New(); G goroutines (8 quick / 16 thorough) each run a random sequence of {AuthorizerFor, Authorize on an own authorizer, Query, a Query whose rule holds a per-request regular expression (reference: Go's regexp applied directly), String, Code, GetBlockID with new symbols, CreateBlock+Add+Build+Append, Append, Seal, Serialize, RevocationIds, parser.Check on the shared parser} with GOMAXPROCS in 2..16. Violations: any data-race report whose stack touches /repo (file:line pairs recorded), or any goroutine result differing from the sequential result of the same operation. Non-trivial = every mix (distinct seeds, operation sequences and GOMAXPROCS); distinct = distinct mixes."
	mixes, gor, ops := 12, 8, 40
	if c.Thorough {
		mixes, gor, ops = 120, 16, 120
	}
	self, err := os.Executable()
	if err != nil {
		fatal(err)
	}
	logBase := filepath.Join(c.OutDir, "race")
	cmd := exec.Command(self, "racework", fmt.Sprint(c.Seed), fmt.Sprint(mixes), fmt.Sprint(gor), fmt.Sprint(ops))
	cmd.Env = append(os.Environ(), "GORACE=log_path="+logBase+" halt_on_error=0 exitcode=0 history_size=3")
	outBytes, err := cmd.Output()
	out := string(outBytes)
	if err != nil {
		c.Violate("C19/child-crash", "the concurrent workload crashed: "+err.Error(), map[string]interface{}{"stdout": trunc(out, 3000)})
	}
	enabled := strings.Contains(out, "RACE-ENABLED true")
	c.Extra["race_detector"] = enabled
	if !enabled {
		c.Notes = append(c.Notes, "harness binary was not built with -race: only result comparison was performed")
	}
	for _, line := range strings.Split(out, "\n") {
		switch {
		case strings.HasPrefix(line, "MIX "):
			c.Eval()
			c.NonTrivial(fmt.Sprint(c.Seed) + line)
			c.Count("mixes")
			if len(c.Samples) < 3 {
				c.Sample(line)
			}
		case strings.HasPrefix(line, "DIFF "):
			var op string
			for _, f := range strings.Fields(line) {
				if strings.HasPrefix(f, "op=") {
					op = strings.TrimPrefix(f, "op=")
				}
			}
			c.Violate("C19/result-differs:"+op, "a goroutine obtained a result different from the sequential one: "+line, map[string]interface{}{"line": line, "seed": c.Seed})
		case strings.HasPrefix(line, "SETUP-ERROR"):
			c.Notes = append(c.Notes, line)
		}
	}
	// race reports
	files, _ := filepath.Glob(logBase + ".*")
	reports := 0
	sites := map[string]int{}
	for _, f := range files {
		b, err := os.ReadFile(f)
		if err != nil {
			continue
		}
		for _, rep := range strings.Split(string(b), "==================") {
			if !strings.Contains(rep, "DATA RACE") {
				continue
			}
			reports++
			var frames []string
			for _, m := range raceFrameRe.FindAllStringSubmatch(rep, -1) {
				f := m[1]
				for _, marker := range []string{libraryRoot()} {
					if i := strings.LastIndex(f, marker); i >= 0 {
						f = f[i+len(marker):]
					}
				}
				frames = append(frames, f)
			}
			if len(frames) == 0 {
				continue
			}
			key := frames[0]
			sites[key]++
			if sites[key] == 1 {
				c.Violate("C19/data-race:"+key, "data race on memory reachable from the shared token; first library frames: "+strings.Join(frames[:min(len(frames), 4)], ", "),
					map[string]interface{}{"seed": c.Seed, "report": trunc(rep, 3000)})
			}
		}
	}
	c.Extra["race_reports"] = reports
	c.Extra["race_sites"] = sites
}
