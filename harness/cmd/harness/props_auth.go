package main

// Generators and witness searches over AUTHSEQ cases for C02, C03, C04, C12, C13, C18.

import (
	"fmt"
	"strings"
	"time"

	"github.com/biscuit-auth/biscuit-go/v2"
	"github.com/biscuit-auth/biscuit-go/v2/datalog"
	"github.com/biscuit-auth/biscuit-go/v2/pb"
	"google.golang.org/protobuf/proto"
)

func init() {
	verbs["C02"] = runC02
	verbs["C03"] = runC03
	verbs["C04"] = runC04
	verbs["C12"] = runC12
	verbs["C13"] = runC13
	verbs["C18"] = runC18
	execs["SNAP"] = execSnap
}

// execSnap: the library must be able to load the snapshot bytes into a fresh authorizer;
// the content the bytes must carry is supplied by the generator ("expect").
func execSnap(cs *Sx) (res string) {
	defer func() {
		if r := recover(); r != nil {
			res = "panic " + panicSite(r)
		}
	}()
	bf, ok := cs.field("bytes")
	if !ok || len(bf) != 1 {
		return "bad-case"
	}
	data, err := unhex(bf[0].Atom)
	if err != nil {
		return "bad-case"
	}
	tok, err := buildToken([]Block{{}}, NewRng(3))
	if err != nil {
		return "setup-error"
	}
	az, err := newAuthorizer(tok, AuthCase{MaxFacts: 1000, MaxIter: 100})
	if err != nil {
		return "setup-error"
	}
	if err := az.LoadPolicies(data); err != nil {
		return "reject"
	}
	exp, _ := cs.field("expect")
	if len(exp) == 1 {
		b, _ := unhex(exp[0].Atom)
		return string(b)
	}
	return "ok"
}

func snapshotExpect(ops []AuthOp) string {
	var facts []Pred
	var rules, checks, pols []string
	for _, o := range ops {
		switch o.K {
		case "addfact":
			facts = append(facts, o.Fact)
		case "addrule":
			rules = append(rules, o.Rule.Sx())
		case "addcheck":
			checks = append(checks, o.Check.Sx())
		case "addpolicy":
			pols = append(pols, o.Policy.Sx())
		}
	}
	var fs []string
	for _, f := range dedupFacts(facts) {
		fs = append(fs, f.FactSxRaw())
	}
	return "ok " + canonContent(sxList("facts", fs)+" "+sxList("rules", rules)+" "+sxList("checks", checks)+" "+sxList("policies", pols)) + " reenc=same"
}

// emitAuth executes one AUTHSEQ case on the library and records it for the model.
func emitAuth(c *Ctx, stream string, a AuthCase) (string, string) {
	sx := a.Sx()
	res := execCase("AUTHSEQ", sx)
	if res == "environment-timeout" {
		c.Count("environment-timeout")
		return res, sx
	}
	id := c.NewID(stream)
	c.Case("AUTHSEQ", id, sx, res)
	if strings.HasPrefix(res, "panic") || strings.HasPrefix(res, "build-error") || strings.HasPrefix(res, "authorizer-error") {
		c.Violate(c.Prop+"/"+strings.SplitN(res, " ", 2)[0]+":"+stream, "AUTHSEQ case misbehaved: "+res, map[string]interface{}{"verb": "AUTHSEQ", "case": sx, "go": res})
	}
	return res, sx
}

func withOps(a AuthCase, ops ...AuthOp) AuthCase {
	b := a
	b.Ops = append(append([]AuthOp{}, a.Ops...), ops...)
	return b
}

func baseCase(g *scenGen, nblocks int) AuthCase {
	return AuthCase{InMemory: g.r.Chance(1, 2), Bulk: g.r.Chance(1, 3), MaxFacts: 1000, MaxIter: 100, Ctor: "for", Tokens: [][]Block{g.token(nblocks)}, Ops: g.authContent()}
}

// groundings of a query body: facts that would satisfy it (variables replaced by constants)
func (g *scenGen) groundBody(q Rule) []Pred {
	env := map[string]Term{}
	var out []Pred
	for _, p := range q.Body {
		f := Pred{Name: p.Name}
		for _, t := range p.Terms {
			if t.K == 'v' {
				if _, ok := env[t.N]; !ok {
					env[t.N] = Pick(g.r, g.consts)
				}
				f.Terms = append(f.Terms, env[t.N])
			} else {
				f.Terms = append(f.Terms, t)
			}
		}
		out = append(out, f)
	}
	return out
}

func queriesOf(a AuthCase) []Rule {
	var qs []Rule
	var walk func(ops []AuthOp)
	walk = func(ops []AuthOp) {
		for _, o := range ops {
			switch o.K {
			case "addcheck":
				qs = append(qs, o.Check.Queries...)
			case "addpolicy":
				qs = append(qs, o.Policy.Queries...)
			case "load":
				walk(o.Sub)
			}
		}
	}
	walk(a.Ops)
	for _, t := range a.Tokens {
		for _, b := range t {
			for _, ck := range b.Checks {
				qs = append(qs, ck.Queries...)
			}
		}
	}
	return qs
}

// adversarialBlock: facts mimicking what policies/checks ask for, rules re-deriving
// them, facts copying authority facts, erroring expressions.
func (g *scenGen) adversarialBlock(a AuthCase) Block {
	r := g.r
	var b Block
	qs := queriesOf(a)
	for i := 0; i < 1+r.Intn(3) && len(qs) > 0; i++ {
		q := Pick(r, qs)
		gb := g.groundBody(q)
		switch r.Intn(3) {
		case 0:
			b.Facts = append(b.Facts, gb...)
		case 1:
			for _, f := range gb {
				// rule with a trivially satisfiable body re-deriving the asked fact
				body := []Pred{}
				if len(a.Tokens[0][0].Facts) > 0 {
					af := Pick(r, a.Tokens[0][0].Facts)
					body = append(body, af)
				} else {
					body = append(body, g.atom())
				}
				b.Rules = append(b.Rules, Rule{Head: f, Body: body})
			}
		default:
			b.Facts = append(b.Facts, gb...)
			b.Rules = append(b.Rules, g.rule())
		}
	}
	if len(a.Tokens[0][0].Facts) > 0 && r.Chance(1, 2) {
		b.Facts = append(b.Facts, Pick(r, a.Tokens[0][0].Facts))
	}
	for i, n := 0, r.Intn(2); i < n; i++ {
		b.Facts = append(b.Facts, g.fact())
	}
	for i, n := 0, r.Intn(2); i < n; i++ {
		b.Checks = append(b.Checks, g.check())
	}
	if g.mode == 2 && r.Chance(1, 5) {
		b.Rules = append(b.Rules, Rule{Head: g.fact(), Body: []Pred{}, Exprs: []Expr{{{K: 'v', T: I(1)}, {K: 'v', T: I(0)}, {K: 'b', B: "div"}, {K: 'v', T: I(1)}, {K: 'b', B: "eq"}}}})
	}
	b.Facts = dedupFacts(b.Facts)
	return b
}

func runC04(c *Ctx) {
	c.Rule = "random authorization scenarios over a small vocabulary (3-6 predicates of fixed arity, 2-6 constants, 0-3 later blocks, 0-2 checks per scope with 1-3 queries, 0-4 ordered policies of both kinds, expression-free / error-free / erroring expressions; one Authorize, or a Query before the first Authorize, or content added between two Queries / Authorizes on the same authorizer, or the request's facts typed in and the configuration loaded afterwards from a snapshot); the model's verdict is the expectation. Non-trivial = the verdict is one of ok/denied/nomatch/checks[...] (not a run error) and the case has at least one check or policy; distinct = distinct canonical case encodings."
	r := NewRng(c.Seed)
	n := 5000
	if c.Thorough {
		n = 50000
	}
	for i := 0; i < n; i++ {
		g := newScenGen(r, r.Intn(3))
		a := baseCase(g, r.Intn(4))
		if r.Chance(1, 10) {
			a.MaxFacts = 3 + r.Intn(6)
		}
		if r.Chance(1, 10) {
			a.MaxIter = 1 + r.Intn(3)
		}
		switch r.Intn(6) {
		case 0: // a query before the first Authorize
			a = withOps(a, AuthOp{K: "query", Rule: g.rule()}, AuthOp{K: "authorize"}, AuthOp{K: "query", Rule: g.rule()})
			c.Count("shape:query-first")
		case 1: // content added between two evaluations on the same authorizer
			q := g.rule()
			a = withOps(a, AuthOp{K: "query", Rule: q})
			for k, m := 0, 1+r.Intn(3); k < m; k++ {
				if r.Chance(2, 3) {
					a = withOps(a, AuthOp{K: "addfact", Fact: g.fact()})
				} else {
					a = withOps(a, AuthOp{K: "addrule", Rule: g.rule()})
				}
			}
			a = withOps(a, AuthOp{K: "query", Rule: q}, AuthOp{K: "authorize"}, AuthOp{K: "query", Rule: q})
			c.Count("shape:query-add-query")
		case 2:
			q := g.rule()
			a = withOps(a, AuthOp{K: "authorize"}, AuthOp{K: "addfact", Fact: g.fact()}, AuthOp{K: "addrule", Rule: g.rule()}, AuthOp{K: "query", Rule: q}, AuthOp{K: "authorize"})
			c.Count("shape:authorize-add-query")
		case 3:
			// the request's facts are typed in, the configuration (rules, checks, ordered
			// policies, its own facts) is then loaded from a snapshot made elsewhere: the
			// content is the same as when everything is typed in, and so must the verdict be
			// (the request side may also bring rules, checks and policies of its own: what is
			// given before the load stays in force, loaded policies come after; finding D29)
			var typed, cfg []AuthOp
			own := r.Chance(1, 2)
			for k, o := range a.Ops {
				if (o.K == "addfact" || own) && k%2 == 0 {
					typed = append(typed, o)
				} else {
					cfg = append(cfg, o)
				}
			}
			ref := a
			ref.Ops = append(append(append([]AuthOp{}, typed...), cfg...), AuthOp{K: "authorize"})
			a.Ops = append(append([]AuthOp{}, typed...), AuthOp{K: "load", Sub: cfg}, AuthOp{K: "authorize"})
			if len(cfg) >= 2 && r.Chance(1, 3) {
				// the configuration comes in two snapshots, loaded one after the other
				h := 1 + r.Intn(len(cfg)-1)
				a.Ops = append(append([]AuthOp{}, typed...), AuthOp{K: "load", Sub: cfg[:h]}, AuthOp{K: "load", Sub: cfg[h:]}, AuthOp{K: "authorize"})
				c.Count("shape:typed-then-loaded-twice")
			}
			c.Count("shape:typed-then-loaded")
			if len(typed) > 0 {
				resRef, _ := emitAuth(c, "auth-ref", ref)
				resL, sxL := emitAuth(c, "auth-loaded", a)
				if strings.HasPrefix(resL, "saved ") && resRef != "environment-timeout" && strings.TrimPrefix(strings.TrimPrefix(resL, "saved "), "saved ") != resRef {
					c.Violate("C04/content-path-dependent", "the same facts, rules, checks and ordered policies give different verdicts depending on whether the configuration is typed in or loaded after the request's facts: typed -> "+trunc(resRef, 60)+", loaded -> "+trunc(resL, 60),
						map[string]interface{}{"verb": "AUTHSEQ", "case": sxL, "go": resL, "reference_go": resRef})
				}
			}
		default:
			a = withOps(a, AuthOp{K: "authorize"})
			if r.Chance(1, 2) {
				a = withOps(a, AuthOp{K: "query", Rule: g.rule()})
			}
		}
		res, sx := emitAuth(c, "auth", a)
		v := ""
		for _, w := range strings.Split(res, " ") { // the first Authorize outcome of the history
			if !strings.HasPrefix(w, "facts:") && !strings.HasPrefix(w, "qerr:") && !strings.HasPrefix(w, "(") && !strings.HasSuffix(w, ")") {
				v = w
				break
			}
		}
		c.Count("verdict:" + verdictClass(v))
		c.Count(fmt.Sprintf("blocks:%d", len(a.Tokens[0])-1))
		np := 0
		for _, o := range a.Ops {
			if o.K == "addpolicy" {
				np++
			}
		}
		c.Count(fmt.Sprintf("policies:%d", np))
		switch verdictClass(v) {
		case "ok", "denied", "nomatch", "checks":
			if len(queriesOf(a)) > 0 {
				c.NonTrivial(sx)
			}
		}
		if i < 3 {
			c.Sample(map[string]string{"case": sx, "go": res})
		}
	}
}

func runC02(c *Ctx) {
	c.Rule = "(undeclared) tokens whose authority block refers to a symbol it does not declare, alone and extended at byte level by a block that declares one; pairs (T, T+B) under the same authorizer content: T has 0-2 earlier blocks; B is adversarial (facts grounding the bodies of the authorizer's/authority's/policies' queries, rules re-deriving them from authority facts, copies of authority facts, erroring expressions, checks). Witness search: Authorize(T+B)=nil and Authorize(T)!=nil. Non-trivial = B contains at least one fact or rule whose predicate name occurs in a check or policy query; distinct = distinct canonical (T,B,A)."
	r := NewRng(c.Seed)
	n := 2500
	if c.Thorough {
		n = 40000
	}
	undeclaredSymbols(c)
	undeclaredInMemory(c)
	gateStream(c)
	liveLoadPairs(c)
	for i := 0; i < n; i++ {
		g := newScenGen(r, r.Intn(3))
		a := baseCase(g, r.Intn(3))
		a = withOps(a, AuthOp{K: "authorize"})
		b := g.adversarialBlock(a)
		ab := a
		ab.Tokens = [][]Block{append(append([]Block{}, a.Tokens[0]...), b)}
		if r.Chance(1, 4) {
			// the verifier's configuration is not typed in but loaded (LoadPolicies) from a
			// snapshot made once, elsewhere, and used for every token alike
			a, ab = configLoaded(a), configLoaded(ab)
			c.Count("configuration-loaded")
		}
		resT, sxT := emitAuth(c, "T", a)
		resTB, sxTB := emitAuth(c, "TB", ab)
		c.Count("T:" + verdictClass(resT))
		c.Count("TB:" + verdictClass(resTB))
		names := map[string]bool{}
		for _, q := range queriesOf(a) {
			for _, p := range q.Body {
				names[p.Name] = true
			}
		}
		touch := false
		for _, f := range b.Facts {
			touch = touch || names[f.Name]
		}
		for _, rl := range b.Rules {
			touch = touch || names[rl.Head.Name]
		}
		if touch {
			c.NonTrivial(sxTB)
		}
		if resTB == "ok" && resT != "ok" && resT != "environment-timeout" {
			c.Violate("C02/widening", "appending a block turned a refusal into an acceptance: T -> "+resT+", T+B -> ok",
				map[string]interface{}{"verb": "AUTHSEQ", "case": sxTB, "go": resTB, "parent_case": sxT, "parent_go": resT})
		}
		if resT == "ok" && resTB == "ok" {
			c.Count("both-ok")
		}
		if i < 2 {
			c.Sample(map[string]string{"T": sxT, "T_go": resT, "TB": sxTB, "TB_go": resTB})
		}
	}
}

// configLoaded: the leading content operations of a case become one "load" of a snapshot
// holding that content.
func configLoaded(a AuthCase) AuthCase {
	k := 0
	for k < len(a.Ops) {
		switch a.Ops[k].K {
		case "addfact", "addrule", "addcheck", "addpolicy":
			k++
			continue
		}
		break
	}
	if k == 0 {
		return a
	}
	b := a
	b.Ops = append([]AuthOp{{K: "load", Sub: append([]AuthOp{}, a.Ops[:k]...)}}, a.Ops[k:]...)
	return b
}

// liveLoadPairs: the configuration reaches the authorizer through LoadPolicies AFTER a first
// Authorize on the same authorizer (no Reset), then Authorize again — for T and for T+B.
// Compared with the model (a load adds the snapshot's facts and rules and replaces checks and
// policies, whatever the authorizer held) and searched for the property's own witness: the
// final answer for T+B may be an acceptance only if it is one for T.
func liveLoadPairs(c *Ctx) {
	r := NewRng(c.Seed ^ 0x11fe)
	n := 250
	if c.Thorough {
		n = 4000
	}
	for i := 0; i < n; i++ {
		g := newScenGen(r, r.Intn(3))
		a := baseCase(g, r.Intn(2))
		content := append([]AuthOp{}, a.Ops...)
		b := g.adversarialBlock(withOps(a, AuthOp{K: "authorize"}))
		// B brings new strings: the first ones it declares take the positions right after T's
		for k, m := 0, 1+r.Intn(3); k < m; k++ {
			b.Facts = append(b.Facts, Pred{Name: Pick(r, []string{"note", "owner", "resource"}), Terms: []Term{S(Pick(r, []string{"file1", "file9", "read", "ali", "alice", "x"}))}})
		}
		b.Facts = dedupFacts(b.Facts)
		if r.Chance(1, 2) {
			// directed: the token asks for a resource whose name starts with "file"; the stored
			// configuration supplies resource("other") after a few other strings; B's only
			// contribution is a new string "file9" — which must stay B's own business. The
			// number of strings before "other" varies around the number of strings T interns.
			kT := 1 + r.Intn(3)
			auth := Block{}
			for k := 0; k < kT; k++ {
				auth.Facts = append(auth.Facts, Pred{Name: "right", Terms: []Term{S(fmt.Sprintf("t-own-%d", k))}})
			}
			auth.Checks = []Check{{Queries: []Rule{{Head: Pred{Name: "query"}, Body: []Pred{{Name: "resource", Terms: []Term{V("r")}}},
				Exprs: []Expr{{{K: 'v', T: V("r")}, {K: 'v', T: S("file")}, {K: 'b', B: "prefix"}}}}}}}
			a.Tokens = [][]Block{{auth}}
			content = nil
			for k, m := 0, kT-1+r.Intn(4); k < m; k++ {
				content = append(content, AuthOp{K: "addfact", Fact: Pred{Name: "owner", Terms: []Term{S(fmt.Sprintf("pad-%d", k))}}})
			}
			content = append(content, AuthOp{K: "addfact", Fact: Pred{Name: "resource", Terms: []Term{S("other")}}},
				AuthOp{K: "addpolicy", Policy: Policy{Allow: true, Queries: []Rule{{Head: Pred{Name: "query"}, Exprs: []Expr{{{K: 'v', T: O(true)}}}}}}})
			b = Block{Facts: []Pred{{Name: "owner", Terms: []Term{S("file9")}}}}
			if r.Chance(1, 2) {
				b.Facts = append(b.Facts, Pred{Name: "owner", Terms: []Term{S("file8")}})
			}
			c.Count("live-load-pair:directed")
		}
		a.InMemory, a.Bulk = r.Chance(1, 2), false
		a.Ops = []AuthOp{{K: "authorize"}, {K: "load", Sub: content}, {K: "authorize"}}
		ab := a
		ab.Tokens = [][]Block{append(append([]Block{}, a.Tokens[0]...), b)}
		resT, _ := emitAuth(c, "liveload-T", a)
		resTB, _ := emitAuth(c, "liveload-TB", ab)
		last := func(s string) string {
			f := strings.Fields(s)
			if len(f) == 0 {
				return s
			}
			return f[len(f)-1]
		}
		c.Count("live-load-pair:" + verdictClass(last(resT)) + "->" + verdictClass(last(resTB)))
		if strings.HasPrefix(resT, "panic") || strings.HasPrefix(resTB, "panic") {
			c.Violate("C02/panic:live-load", "a load into a used authorizer panicked", map[string]interface{}{"verb": "AUTHSEQ", "case": ab.Sx(), "go": resTB, "parent_case": a.Sx(), "parent_go": resT})
			continue
		}
		if last(resTB) == "ok" && last(resT) != "ok" && !strings.Contains(resT, "environment-timeout") && strings.Count(resT, " ") == 2 && strings.Count(resTB, " ") == 2 {
			c.Violate("C02/widening:live-load", "with the configuration loaded into an authorizer that had already authorized, appending a block turned a refusal into an acceptance: T -> "+last(resT)+", T+B -> ok",
				map[string]interface{}{"verb": "AUTHSEQ", "case": ab.Sx(), "go": resTB, "parent_case": a.Sx(), "parent_go": resT})
		}
	}
}

func filterIds(v string, drop func(id string) bool) string {
	if !strings.HasPrefix(v, "checks[") {
		return v
	}
	inner := strings.TrimSuffix(strings.TrimPrefix(v, "checks["), "]")
	var keep []string
	for _, id := range strings.Split(inner, ",") {
		if id != "" && !drop(id) {
			keep = append(keep, id)
		}
	}
	return "checks[" + strings.Join(keep, ",") + "]"
}

func runC03(c *Ctx) {
	c.Rule = "triples over one token T with 1-3 later blocks and probes: (a) T vs T with block i's facts and rules replaced (checks kept): failed checks of every other scope, and every Query result, must be equal; (b) T vs T with a check-free probe block inserted at a random position, the probe contributing (as fact and as rule over authority facts) exactly the facts that a policy / authorizer check / authority check / another block's check / a later Query asks for: verdict equal up to renumbering, Query results equal. Non-trivial = the probe or replaced block contains a fact or rule head whose predicate occurs in some query; distinct = distinct canonical encodings."
	r := NewRng(c.Seed)
	n := 2000
	if c.Thorough {
		n = 30000
	}
	for i := 0; i < n; i++ {
		g := newScenGen(r, r.Intn(2))
		a := baseCase(g, 1+r.Intn(3))
		q := g.rule()
		// query that asks exactly for something the probe will add
		probeSrc := baseCaseQueries(a, q)
		a = withOps(a, AuthOp{K: "authorize"}, AuthOp{K: "query", Rule: q})
		nb := len(a.Tokens[0]) - 1
		if r.Chance(1, 2) {
			// (a) replace facts/rules of block i
			bi := 1 + r.Intn(nb)
			a2 := a
			blocks := append([]Block{}, a.Tokens[0]...)
			nbk := g.adversarialBlock(a)
			nbk.Checks = blocks[bi].Checks
			blocks[bi] = nbk
			a2.Tokens = [][]Block{blocks}
			res1, sx1 := emitAuth(c, "orig", a)
			res2, sx2 := emitAuth(c, "repl", a2)
			if res1 == "environment-timeout" || res2 == "environment-timeout" {
				continue
			}
			c.NonTrivial(sx2)
			p1, p2 := strings.SplitN(res1, " ", 2), strings.SplitN(res2, " ", 2)
			drop := func(id string) bool { return strings.HasPrefix(id, fmt.Sprintf("b%d.", bi)) }
			v1, v2 := p1[0], p2[0]
			c.Count("replace:" + verdictClass(v1) + "/" + verdictClass(v2))
			runErr := func(v string) bool {
				return v == "expr-error" || v == "invalid-rule" || strings.HasPrefix(v, "limit")
			}
			if !runErr(v1) && !runErr(v2) {
				f1, f2 := filterIds(v1, drop), filterIds(v2, drop)
				// verdicts without failures compare as such; with failures compare the other scopes' ids
				if strings.HasPrefix(f1, "checks[") != strings.HasPrefix(f2, "checks[") {
					// one side fails only in block bi: the other scopes agree iff the filtered list is empty
					if (strings.HasPrefix(f1, "checks[") && f1 != "checks[]") || (strings.HasPrefix(f2, "checks[") && f2 != "checks[]") {
						c.Violate("C03/other-scope-checks", "replacing a block's facts/rules changed the failed checks of another scope",
							map[string]interface{}{"verb": "AUTHSEQ", "case": sx2, "go": res2, "orig_case": sx1, "orig_go": res1, "block": bi})
					}
				} else if f1 != f2 && strings.HasPrefix(f1, "checks[") {
					c.Violate("C03/other-scope-checks", "replacing a block's facts/rules changed the failed checks of another scope",
						map[string]interface{}{"verb": "AUTHSEQ", "case": sx2, "go": res2, "orig_case": sx1, "orig_go": res1, "block": bi})
				} else if f1 != f2 {
					c.Violate("C03/policy-outcome", "replacing a block's facts/rules changed the policy outcome: "+v1+" vs "+v2,
						map[string]interface{}{"verb": "AUTHSEQ", "case": sx2, "go": res2, "orig_case": sx1, "orig_go": res1, "block": bi})
				}
			}
			if len(p1) == 2 && len(p2) == 2 && p1[1] != p2[1] {
				c.Violate("C03/query-sees-block", "replacing a block's facts/rules changed an authorizer Query result",
					map[string]interface{}{"verb": "AUTHSEQ", "case": sx2, "go": res2, "orig_case": sx1, "orig_go": res1, "block": bi})
			}
		} else {
			// (b) insert a check-free probe block
			pos := 1 + r.Intn(nb+1)
			probe := Block{}
			for _, pq := range probeSrc {
				gb := g.groundBody(pq)
				if r.Chance(1, 2) {
					probe.Facts = append(probe.Facts, gb...)
				} else {
					for _, f := range gb {
						body := []Pred{}
						if len(a.Tokens[0][0].Facts) > 0 {
							body = append(body, Pick(r, a.Tokens[0][0].Facts))
						}
						if len(body) > 0 {
							probe.Rules = append(probe.Rules, Rule{Head: f, Body: body})
						} else {
							probe.Facts = append(probe.Facts, f)
						}
					}
				}
			}
			probe.Facts = dedupFacts(probe.Facts)
			a2 := a
			blocks := append([]Block{}, a.Tokens[0][:pos]...)
			blocks = append(blocks, probe)
			blocks = append(blocks, a.Tokens[0][pos:]...)
			a2.Tokens = [][]Block{blocks}
			res1, sx1 := emitAuth(c, "orig", a)
			res2, sx2 := emitAuth(c, "probe", a2)
			if res1 == "environment-timeout" || res2 == "environment-timeout" {
				continue
			}
			if len(probe.Facts)+len(probe.Rules) > 0 {
				c.NonTrivial(sx2)
			}
			// renumber ids of blocks >= pos in res2 down by one
			renum := func(v string) string {
				if !strings.HasPrefix(v, "checks[") {
					return v
				}
				inner := strings.TrimSuffix(strings.TrimPrefix(v, "checks["), "]")
				var out []string
				for _, id := range strings.Split(inner, ",") {
					var b, k int
					if n, _ := fmt.Sscanf(id, "b%d.%d", &b, &k); n == 2 && b > pos {
						id = fmt.Sprintf("b%d.%d", b-1, k)
					}
					out = append(out, id)
				}
				return "checks[" + strings.Join(out, ",") + "]"
			}
			p1, p2 := strings.SplitN(res1, " ", 2), strings.SplitN(res2, " ", 2)
			c.Count("probe:" + verdictClass(p1[0]) + "/" + verdictClass(p2[0]))
			if renum(p2[0]) != p1[0] {
				c.Violate("C03/probe-changes-verdict", "inserting a check-free block changed the verdict: "+p1[0]+" -> "+p2[0],
					map[string]interface{}{"verb": "AUTHSEQ", "case": sx2, "go": res2, "orig_case": sx1, "orig_go": res1, "position": pos})
			}
			if len(p1) == 2 && len(p2) == 2 && p1[1] != p2[1] {
				c.Violate("C03/query-sees-block", "inserting a check-free block changed an authorizer Query result",
					map[string]interface{}{"verb": "AUTHSEQ", "case": sx2, "go": res2, "orig_case": sx1, "orig_go": res1, "position": pos})
			}
		}
		if r.Chance(1, 3) {
			// (c) the same authorizer is asked again after facts were added that the blocks'
			// checks (and the other scopes') ask for: every block must see them, and only them
			var more []AuthOp
			for _, blk := range a.Tokens[0][1:] {
				for _, ck := range blk.Checks {
					for _, q := range ck.Queries {
						if r.Chance(2, 3) {
							for _, f := range g.groundBody(q) {
								more = append(more, AuthOp{K: "addfact", Fact: f})
							}
						}
					}
				}
			}
			for _, f := range g.groundBody(q) {
				more = append(more, AuthOp{K: "addfact", Fact: f})
			}
			twice := withOps(a, append(more, AuthOp{K: "authorize"}, AuthOp{K: "query", Rule: q})...)
			// the second answer must be the answer of a new authorizer holding the same content
			// (facts, rules, checks, policies): a verdict follows from the content (finding D28)
			fresh := a
			fresh.Ops = append(append(append([]AuthOp{}, a.Ops[:len(a.Ops)-2]...), more...), AuthOp{K: "authorize"}, AuthOp{K: "query", Rule: q})
			resT, sxT := emitAuth(c, "twice", twice)
			resF, sxF := emitAuth(c, "twice-fresh", fresh)
			if resT != "environment-timeout" && resF != "environment-timeout" {
				c.Count("asked-twice")
				c.NonTrivial(sxT)
				bad := func(s string) bool {
					return strings.Contains(s, "error") || strings.Contains(s, "limit") || strings.Contains(s, "invalid-rule") || strings.HasPrefix(s, "panic")
				}
				// expression-free scenarios only: an expression error inside a check or policy
				// query is swallowed by the query, and which combination errs first depends on
				// the order in which facts arrived (outside C12's error-free fragment as well)
				if g.mode == 0 && !bad(resT) && !bad(resF) {
					parts := strings.SplitN(resT, " facts:", 3)
					if len(parts) == 3 {
						if k := strings.LastIndex(parts[1], " "); k >= 0 {
							second := parts[1][k+1:] + " facts:" + parts[2]
							if second != resF {
								c.Violate("C03/asked-twice", "an authorizer asked a second time, after more facts were added, answers differently from a new authorizer holding the same content: "+trunc(second, 80)+" vs "+trunc(resF, 80),
									map[string]interface{}{"verb": "AUTHSEQ", "case": sxT, "go": resT, "orig_case": sxF, "orig_go": resF})
							}
						}
					}
				}
			}
		}
		if i < 2 {
			c.Sample(map[string]string{"case": a.Sx()})
		}
	}
}

func baseCaseQueries(a AuthCase, q Rule) []Rule {
	qs := queriesOf(a)
	qs = append(qs, q)
	return qs
}

// ---------- C12: presentation variants ----------

func permuted[T any](r *Rng, xs []T) []T {
	out := make([]T, len(xs))
	for i, j := range r.Perm(len(xs)) {
		out[i] = xs[j]
	}
	return out
}

func renameTerm(t Term, m map[string]string) Term {
	if t.K == 'v' {
		if n, ok := m[t.N]; ok {
			return V(n)
		}
	}
	return t
}

func renameRule(rl Rule, m map[string]string) Rule {
	rp := func(p Pred) Pred {
		q := Pred{Name: p.Name}
		for _, t := range p.Terms {
			q.Terms = append(q.Terms, renameTerm(t, m))
		}
		return q
	}
	out := Rule{Head: rp(rl.Head)}
	for _, p := range rl.Body {
		out.Body = append(out.Body, rp(p))
	}
	for _, e := range rl.Exprs {
		var ne Expr
		for _, o := range e {
			if o.K == 'v' {
				o.T = renameTerm(o.T, m)
			}
			ne = append(ne, o)
		}
		out.Exprs = append(out.Exprs, ne)
	}
	return out
}

func variantBlock(r *Rng, b Block, ren map[string]string) Block {
	nb := Block{Facts: permuted(r, b.Facts), Context: b.Context}
	for _, rl := range permuted(r, b.Rules) {
		nb.Rules = append(nb.Rules, renameRule(rl, ren))
	}
	for _, ck := range permuted(r, b.Checks) {
		nc := Check{}
		for _, q := range permuted(r, ck.Queries) {
			nc.Queries = append(nc.Queries, renameRule(q, ren))
		}
		nb.Checks = append(nb.Checks, nc)
	}
	return nb
}

func runC12(c *Ctx) {
	c.Rule = "for each base scenario in the error-free fragment, k presentation variants: permuted facts / rules / checks / queries-in-check in every block and in the authorizer (policies keep their order), consistent variable renamings (including names colliding with string symbols), a duplicated fact, and a second Authorize on the same authorizer; (sets) one set written in two ways (repeats, order) carried by two facts supplied in either order and observed through length / intersection / union / equality / contains; verdict class, number of failed checks and Query result sets must agree across variants. Non-trivial = the base has at least two facts or rules in some scope and at least one check or policy; distinct = distinct canonical encodings of the variants."
	r := NewRng(c.Seed)
	n := 1200
	k := 4
	if c.Thorough {
		n, k = 15000, 8
	}
	// (sets) one set written in two ways (repeated elements, element order) carried by two
	// facts supplied in either order, observed through every set operator: the outcome must
	// not depend on which was supplied first (finding D19)
	writings := [][2]Term{
		{SetOf(I(1), I(1), I(2)), SetOf(I(1), I(2), I(2))},
		{SetOf(I(1), I(2)), SetOf(I(2), I(1), I(1))},
		{SetOf(S("bob"), S("alice"), S("bob")), SetOf(S("alice"), S("bob"))},
		{SetOf(B([]byte{1}), B([]byte{1}), B([]byte{2})), SetOf(B([]byte{2}), B([]byte{1}))},
	}
	mvar := Op{K: 'v', T: V("m")}
	for wi, w := range writings {
		probe := w[0].Set[0]
		exprs := []Expr{
			{mvar, {K: 'u', U: "len"}, {K: 'v', T: I(2)}, {K: 'b', B: "eq"}},
			{mvar, {K: 'u', U: "len"}, {K: 'v', T: I(3)}, {K: 'b', B: "eq"}},
			{mvar, {K: 'v', T: SetOf(probe)}, {K: 'b', B: "intersection"}, {K: 'u', U: "len"}, {K: 'v', T: I(1)}, {K: 'b', B: "eq"}},
			{mvar, {K: 'v', T: SetOf(probe)}, {K: 'b', B: "intersection"}, {K: 'u', U: "len"}, {K: 'v', T: I(2)}, {K: 'b', B: "eq"}},
			{mvar, {K: 'v', T: SetOf(probe)}, {K: 'b', B: "union"}, {K: 'u', U: "len"}, {K: 'v', T: I(2)}, {K: 'b', B: "eq"}},
			{mvar, {K: 'v', T: w[1]}, {K: 'b', B: "eq"}},
			{mvar, {K: 'v', T: probe}, {K: 'b', B: "contains"}},
		}
		for ei, e := range exprs {
			for where := 0; where < 2; where++ { // facts in the authorizer / in the authority block
				var outs [2]string
				var sxs [2]string
				for ord := 0; ord < 2; ord++ {
					f1 := Pred{Name: "members", Terms: []Term{w[ord]}}
					f2 := Pred{Name: "members", Terms: []Term{w[1-ord]}}
					ck := Check{Queries: []Rule{{Head: Pred{Name: "query"}, Body: []Pred{{Name: "members", Terms: []Term{V("m")}}}, Exprs: []Expr{e}}}}
					ac := AuthCase{MaxFacts: 1000, MaxIter: 100, Ctor: "for"}
					if where == 0 {
						ac.Tokens = [][]Block{{{}}}
						ac.Ops = []AuthOp{{K: "addfact", Fact: f1}, {K: "addfact", Fact: f2}}
					} else {
						ac.Tokens = [][]Block{{{Facts: []Pred{f1, f2}}}}
					}
					ac.Ops = append(ac.Ops, AuthOp{K: "addcheck", Check: ck}, AuthOp{K: "addpolicy", Policy: Policy{Allow: true, Queries: []Rule{{Head: Pred{Name: "query"}, Exprs: []Expr{{{K: 'v', T: O(true)}}}}}}},
						AuthOp{K: "authorize"}, AuthOp{K: "query", Rule: Rule{Head: Pred{Name: "got", Terms: []Term{V("m")}}, Body: []Pred{{Name: "members", Terms: []Term{V("m")}}}}})
					outs[ord], sxs[ord] = emitAuth(c, "sets", ac)
					c.NonTrivial(sxs[ord])
				}
				c.Count("sets-stream")
				if outs[0] != outs[1] {
					c.Violate(fmt.Sprintf("C12/set-writing-order:%d:%d", wi, ei), "two facts carrying the same set, written differently, give different outcomes depending on which is supplied first: "+outs[0]+" vs "+outs[1],
						map[string]interface{}{"verb": "AUTHSEQ", "case": sxs[0], "go": outs[0], "base_case": sxs[1], "base_go": outs[1]})
				}
			}
		}
	}
	for i := 0; i < n; i++ {
		g := newScenGen(r, r.Intn(2))
		a := baseCase(g, r.Intn(3))
		q := g.rule()
		if r.Chance(1, 4) {
			// two rules with the same head, body and operands that differ only in one operator:
			// both are part of the content, whichever is supplied first
			x := V("x")
			twin := func(op string) AuthOp {
				return AuthOp{K: "addrule", Rule: Rule{Head: Pred{Name: "twin", Terms: []Term{x}}, Body: []Pred{{Name: "num", Terms: []Term{x}}},
					Exprs: []Expr{{{K: 'v', T: x}, {K: 'v', T: I(1)}, {K: 'b', B: op}}}}}
			}
			ops := []string{"lt", "gt", "le", "ge", "eq"}
			i1 := r.Intn(len(ops))
			i2 := (i1 + 1 + r.Intn(len(ops)-1)) % len(ops)
			extra := []AuthOp{twin(ops[i1]), twin(ops[i2])}
			for k := 0; k < 3; k++ {
				extra = append(extra, AuthOp{K: "addfact", Fact: Pred{Name: "num", Terms: []Term{I(int64(k))}}})
			}
			extra = append(extra, AuthOp{K: "addcheck", Check: Check{Queries: []Rule{{Head: Pred{Name: "query"}, Body: []Pred{{Name: "twin", Terms: []Term{I(int64(r.Intn(3)))}}}}}}})
			a.Ops = append(extra, a.Ops...)
			q = Rule{Head: Pred{Name: "got", Terms: []Term{x}}, Body: []Pred{{Name: "twin", Terms: []Term{x}}}}
			c.Count("twin-rules")
		}
		base := withOps(a, AuthOp{K: "authorize"}, AuthOp{K: "query", Rule: q}, AuthOp{K: "authorize"})
		res0, sx0 := emitAuth(c, "base", base)
		if res0 == "environment-timeout" {
			continue
		}
		c.Count("base:" + verdictClass(strings.SplitN(res0, " ", 2)[0]))
		if len(queriesOf(a)) > 0 {
			c.NonTrivial(sx0)
		}
		parts0 := strings.Split(res0, " ")
		if len(parts0) == 3 && verdictClass(parts0[0]) != verdictClass(parts0[2]) {
			c.Violate("C12/second-authorize", "a second Authorize on the same authorizer changed the outcome: "+parts0[0]+" then "+parts0[2],
				map[string]interface{}{"verb": "AUTHSEQ", "case": sx0, "go": res0})
		}
		for v := 0; v < k; v++ {
			ren := map[string]string{}
			if r.Chance(1, 2) {
				names := []string{"a1", "b2", "read", "file1", "zz", "x", "y", "z"}
				perm := r.Perm(len(names))
				for j, vn := range []string{"x", "y", "z"} {
					ren[vn] = names[perm[j]]
				}
			}
			va := a
			blocks := make([]Block, len(a.Tokens[0]))
			for j, b := range a.Tokens[0] {
				blocks[j] = variantBlock(r, b, ren)
			}
			va.Tokens = [][]Block{blocks}
			var facts, rules, checks, pols []AuthOp
			for _, o := range a.Ops {
				switch o.K {
				case "addfact":
					facts = append(facts, o)
				case "addrule":
					o.Rule = renameRule(o.Rule, ren)
					rules = append(rules, o)
				case "addcheck":
					nc := Check{}
					for _, qq := range permuted(r, o.Check.Queries) {
						nc.Queries = append(nc.Queries, renameRule(qq, ren))
					}
					o.Check = nc
					checks = append(checks, o)
				case "addpolicy":
					np := Policy{Allow: o.Policy.Allow}
					for _, qq := range permuted(r, o.Policy.Queries) {
						np.Queries = append(np.Queries, renameRule(qq, ren))
					}
					o.Policy = np
					pols = append(pols, o)
				}
			}
			if len(facts) > 0 && r.Chance(1, 2) {
				facts = append(facts, Pick(r, facts)) // duplicated fact
			}
			var ops []AuthOp
			groups := [][]AuthOp{permuted(r, facts), permuted(r, rules), permuted(r, checks)}
			for _, gi := range r.Perm(3) {
				ops = append(ops, groups[gi]...)
			}
			// policies keep their relative order but may be interleaved anywhere after
			ops = append(ops, pols...)
			va.Ops = ops
			variant := withOps(va, AuthOp{K: "authorize"}, AuthOp{K: "query", Rule: renameRule(q, ren)}, AuthOp{K: "authorize"})
			res, sx := emitAuth(c, "var", variant)
			if res == "environment-timeout" {
				continue
			}
			c.NonTrivial(sx)
			parts := strings.Split(res, " ")
			same := len(parts) == len(parts0)
			if same {
				for j := range parts {
					a1, a2 := parts0[j], parts[j]
					if strings.HasPrefix(a1, "checks[") && strings.HasPrefix(a2, "checks[") {
						if strings.Count(a1, ",") != strings.Count(a2, ",") {
							same = false
						}
					} else if a1 != a2 {
						same = false
					}
				}
			}
			if !same {
				c.Violate("C12/presentation-dependent", "two presentations of the same program gave different outcomes: "+res0+" vs "+res,
					map[string]interface{}{"verb": "AUTHSEQ", "case": sx, "go": res, "base_case": sx0, "base_go": res0})
			}
			if r.Chance(1, 3) {
				// the same two presentations one after the other on ONE authorizer (Reset in
				// between): the second must end as it does on an authorizer of its own
				reused := va
				reused.Ops = append(append(append([]AuthOp{}, a.Ops...), AuthOp{K: "authorize"}, AuthOp{K: "reset"}), variant.Ops...)
				resR, sxR := emitAuth(c, "var-reused", reused)
				if resR != "environment-timeout" {
					c.Count("presentations-on-one-authorizer")
					pr := strings.Split(resR, " ")
					if len(pr) == len(parts)+1 && strings.Join(pr[1:], " ") != res {
						c.Violate("C12/presentation-dependent:reused", "a presentation given to a reused authorizer (after another presentation and Reset) ends differently from the same presentation on a new authorizer: "+trunc(strings.Join(pr[1:], " "), 80)+" vs "+trunc(res, 80),
							map[string]interface{}{"verb": "AUTHSEQ", "case": sxR, "go": resR, "base_case": sx, "base_go": res})
					}
				}
			}
		}
		if i < 2 {
			c.Sample(map[string]string{"base": sx0, "go": res0})
		}
	}
}

// ---------- C13: reset ----------

func runC13(c *Ctx) {
	c.Rule = "multi-round histories on one authorizer (1-5 rounds; per round 0-4 facts, 0-2 rules, 0-2 checks, 0-3 policies; each round optionally starts with LoadPolicies of a snapshot made on another authorizer, ends in Authorize and/or a Query, then Reset), biased to the leak shape (round n supplies a fact a token check needs, round n+1 does not). Witness search: every round replayed on a fresh authorizer with only that round's content must give the same outputs. Non-trivial = at least two rounds and at least one round whose own content changes its verdict; distinct = distinct canonical histories."
	r := NewRng(c.Seed)
	n := 1500
	if c.Thorough {
		n = 25000
	}
	for i := 0; i < n; i++ {
		g := newScenGen(r, r.Intn(3))
		tok := g.token(r.Intn(3))
		// make the token need something: a check grounded by facts the rounds may supply
		var need []Pred
		if len(tok[0].Checks) > 0 {
			need = g.groundBody(tok[0].Checks[0].Queries[0])
		}
		rounds := 2 + r.Intn(4)
		var all []AuthOp
		var perRound [][]AuthOp
		for k := 0; k < rounds; k++ {
			ops := g.authContent()
			if r.Chance(1, 2) && len(need) > 0 {
				for _, f := range need {
					ops = append([]AuthOp{{K: "addfact", Fact: f}}, ops...)
				}
			}
			if r.Chance(1, 3) {
				// a snapshot made elsewhere is loaded (LoadPolicies on the reused authorizer), at
				// the start of the round or in the middle of its content
				at := 0
				if r.Chance(1, 2) {
					at = r.Intn(len(ops) + 1)
				}
				ops = append(append(append([]AuthOp{}, ops[:at]...), AuthOp{K: "load", Sub: g.authContent()}), ops[at:]...)
				c.Count("round-with-load")
			}
			if r.Chance(4, 5) {
				ops = append(ops, AuthOp{K: "authorize"})
			}
			if r.Chance(1, 2) {
				ops = append(ops, AuthOp{K: "query", Rule: g.rule()})
			}
			perRound = append(perRound, ops)
			all = append(all, ops...)
			all = append(all, AuthOp{K: "reset"})
		}
		// a quarter of the histories run under limits given at creation that are not the
		// defaults (a round may then end in a limit error, on the reused authorizer and on the
		// new one alike)
		hmf, hmi := 1000, 100
		switch r.Intn(8) {
		case 0:
			hmf = 2 + r.Intn(8)
			c.Count("history-under-fact-limit")
		case 1:
			hmi = 1 + r.Intn(2)
			c.Count("history-under-iteration-limit")
		}
		// (the limits arrive as one WithWorldOptions value or as three separate ones)
		split := r.Chance(1, 2)
		whole := AuthCase{MaxFacts: hmf, MaxIter: hmi, SplitOpts: split, Ctor: "for", Tokens: [][]Block{tok}, Ops: all}
		res, sx := emitAuth(c, "hist", whole)
		if res == "environment-timeout" {
			continue
		}
		var fresh []string
		for _, ops := range perRound {
			rc := AuthCase{MaxFacts: hmf, MaxIter: hmi, SplitOpts: split, Ctor: "for", Tokens: [][]Block{tok}, Ops: ops}
			rr, _ := emitAuth(c, "round", rc)
			if rr != "" {
				fresh = append(fresh, rr)
			}
		}
		want := strings.Join(fresh, " ")
		c.Count(fmt.Sprintf("rounds:%d", rounds))
		c.NonTrivial(sx)
		if !strings.Contains(want, "environment-timeout") && res != want {
			c.Violate("C13/reset-leak", "a reused authorizer after Reset behaved differently from fresh authorizers: reused="+res+" fresh="+want,
				map[string]interface{}{"verb": "AUTHSEQ", "case": sx, "go": res, "want": want})
		}
		if i < 2 {
			c.Sample(map[string]string{"history": sx, "go": res})
		}
	}
}

// ---------- C18: snapshot ----------

func runC18(c *Ctx) {
	c.Rule = "an unevaluated authorizer with generated content (all term types, default and fresh symbols, several checks, ordered policies of both kinds) is saved and loaded into a fresh authorizer for the same or for a different token; original and restored authorizers run the same Authorize + Query panel. (live load) LoadPolicies on an authorizer that has already evaluated (default symbols and integers only), followed by Query / Authorize / Query. Also: save after evaluation must be refused; malformed snapshot bytes must give an error without panicking. Non-trivial = snapshot contains at least one fact/rule and one check/policy; distinct = distinct canonical encodings."
	r := NewRng(c.Seed)
	n := 1500
	if c.Thorough {
		n = 25000
	}
	liveLoad(c, r)
	for i := 0; i < n; i++ {
		g := newScenGen(r, r.Intn(3))
		t0, t1 := g.token(r.Intn(3)), g.token(r.Intn(3))
		content := g.authContent()
		target := r.Intn(2)
		panel := []AuthOp{{K: "authorize"}, {K: "query", Rule: g.rule()}}
		if r.Chance(1, 3) {
			panel = []AuthOp{{K: "query", Rule: g.rule()}, {K: "authorize"}}
		}
		// limits given at creation (often not the defaults): the restored authorizer is created
		// with the same limits and must evaluate under them
		mf, mi := 1000, 100
		switch r.Intn(4) {
		case 0:
			mf = 2 + r.Intn(8)
		case 1:
			mi = 1 + r.Intn(2)
		}
		restored := AuthCase{MaxFacts: mf, MaxIter: mi, Ctor: "for", Tokens: [][]Block{t0, t1}, Ops: append(append(append([]AuthOp{}, content...), AuthOp{K: "saveload", Tok: target}), panel...)}
		toks := [][]Block{t0, t1}
		original := AuthCase{MaxFacts: mf, MaxIter: mi, Ctor: "for", Tokens: [][]Block{toks[target]}, Ops: append(append([]AuthOp{}, content...), panel...)}
		resR, sxR := emitAuth(c, "restored", restored)
		resO, sxO := emitAuth(c, "original", original)
		// saving must leave the saved authorizer as it was: the original, saved once or twice
		// and then used, answers like the original that was never saved
		if r.Chance(1, 2) {
			kept := original
			kept.Ops = append(append([]AuthOp{}, content...), AuthOp{K: "savekeep"})
			if r.Chance(1, 2) {
				kept.Ops = append(kept.Ops, AuthOp{K: "addfact", Fact: Pred{Name: "fresh_after_save", Terms: []Term{S(fmt.Sprintf("late-symbol-%d", i))}}}, AuthOp{K: "savekeep"})
				original2 := original
				original2.Ops = append(append(append([]AuthOp{}, content...), AuthOp{K: "addfact", Fact: Pred{Name: "fresh_after_save", Terms: []Term{S(fmt.Sprintf("late-symbol-%d", i))}}}), panel...)
				kept.Ops = append(kept.Ops, panel...)
				resK, sxK := emitAuth(c, "saved-original", kept)
				resO2, _ := emitAuth(c, "original", original2)
				if resK != "environment-timeout" && resO2 != "environment-timeout" && resK != resO2 {
					c.Violate("C18/saving-changes-original", "an authorizer that was saved behaves differently from one that was not: saved="+resK+" unsaved="+resO2,
						map[string]interface{}{"verb": "AUTHSEQ", "case": sxK, "go": resK, "original_go": resO2})
				}
			} else {
				kept.Ops = append(kept.Ops, panel...)
				resK, sxK := emitAuth(c, "saved-original", kept)
				if resK != "environment-timeout" && resO != "environment-timeout" && resK != resO {
					c.Violate("C18/saving-changes-original", "an authorizer that was saved behaves differently from one that was not: saved="+resK+" unsaved="+resO,
						map[string]interface{}{"verb": "AUTHSEQ", "case": sxK, "go": resK, "original_case": sxO, "original_go": resO})
				}
			}
		}
		if resR == "environment-timeout" || resO == "environment-timeout" {
			continue
		}
		c.Count("snapshot:" + strings.SplitN(resR, " ", 2)[0])
		if len(content) > 1 {
			c.NonTrivial(sxR)
		}
		if resR != "saved "+resO {
			c.Violate("C18/restored-differs", "restored authorizer behaves differently: restored="+resR+" original="+resO,
				map[string]interface{}{"verb": "AUTHSEQ", "case": sxR, "go": resR, "original_case": sxO, "original_go": resO})
		}
		// the snapshot bytes themselves: independent decoder + symbol re-indexing
		if tokS, err := buildToken(toks[target], NewRng(5)); err == nil {
			if az, err := newAuthorizer(tokS, restored); err == nil {
				for _, op := range content {
					switch op.K {
					case "addfact":
						az.AddFact(biscuit.Fact{Predicate: op.Fact.ToBiscuit()})
					case "addrule":
						az.AddRule(op.Rule.ToBiscuit())
					case "addcheck":
						az.AddCheck(op.Check.ToBiscuit())
					case "addpolicy":
						az.AddPolicy(op.Policy.ToBiscuit())
					}
				}
				if data, err := az.SerializePolicies(); err == nil {
					sxS := "(case (bytes " + hx(data) + ") (expect " + hxs(snapshotExpect(content)) + "))"
					resS := execCase("SNAP", sxS)
					c.Case("SNAP", c.NewID("snap"), sxS, resS)
					c.Count("snap:" + strings.SplitN(resS, " ", 2)[0])
					// malformed snapshots: must be an error, never a panic
					for m := 0; m < 4; m++ {
						bad := append([]byte{}, data...)
						kind := "bytes"
						switch r.Intn(4) {
						case 3:
							bad, kind = snapshotMissingField(data, r)
						case 0:
							if len(bad) > 0 {
								bad[r.Intn(len(bad))] ^= 1 << uint(r.Intn(8))
							}
						case 1:
							bad = bad[:r.Intn(len(bad)+1)]
						default:
							bad = r.Bytes(r.Intn(40))
						}
						c.Eval()
						sxBad := "(case (bytes " + hx(bad) + "))"
						if kind == "index-outside-table" || kind == "symbols-cut" || kind == "missing-field" {
							// whether these bytes are still a snapshot is decided by the model's
							// reading of the format (every index declared, every mandatory field present)
							sxBad = "(case (bytes " + hx(bad) + ") (verdictonly))"
						}
						out := execCase("SNAP", sxBad)
						if strings.HasSuffix(sxBad, "(verdictonly))") && !strings.HasPrefix(out, "panic") {
							c.Case("SNAP", c.NewID("snapbad"), sxBad, out)
						}
						if (kind == "index-outside-table" || kind == "missing-field") && out == "ok" {
							c.Violate("C18/malformed-accepted:"+kind, "LoadPolicies accepted bytes that are not a well-formed snapshot ("+kind+")", map[string]interface{}{"verb": "SNAP", "case": sxBad, "go": out})
						}
						c.Count("snap-malformed:" + kind + ":" + strings.SplitN(out, " ", 2)[0])
						if strings.HasPrefix(out, "panic") {
							c.Violate("C18/load-panic", "LoadPolicies panicked on malformed bytes: "+out, map[string]interface{}{"verb": "SNAP", "case": "(case (bytes " + hx(bad) + "))", "go": out})
						}
					}
				} else {
					c.Count("snap:serialize-refused")
				}
			}
		}
		// save after evaluation must be refused — whatever the evaluation's outcome: a run that
		// stopped at a limit or on an error has been evaluated too (the world already holds
		// the token's facts by then), under the default and under tight limits
		if r.Chance(1, 3) {
			dmf, dmi := mf, mi
			if r.Chance(1, 3) {
				dmf = 1 + r.Intn(3)
			}
			dirty := AuthCase{MaxFacts: dmf, MaxIter: dmi, Ctor: "for", Tokens: [][]Block{t0}, Ops: append(append([]AuthOp{}, content...), panel[0], AuthOp{K: "saveload", Tok: 0})}
			resD, sxD := emitAuth(c, "dirty", dirty)
			c.Count("save-after-eval:" + verdictClass(strings.SplitN(resD, " ", 2)[0]))
			if !strings.HasSuffix(resD, "refused") && resD != "environment-timeout" && !strings.HasPrefix(resD, "panic") {
				c.Violate("C18/save-after-eval", "SerializePolicies succeeded on an evaluated authorizer: "+trunc(resD, 120),
					map[string]interface{}{"verb": "AUTHSEQ", "case": sxD, "go": resD})
			}
		}
		if i < 2 {
			c.Sample(map[string]string{"case": sxR, "go": resR})
		}
	}
}

// undeclaredSymbols: tokens (signed by the root key, e.g. issued by a builder that was used
// twice) whose authority block refers to a symbol index it does not declare. Whatever the
// library makes of such a token, a holder must not be able to give the missing symbol a
// meaning by appending a block that declares one: T and T+B are assembled at byte level
// (the holder controls the bytes and knows the next secret) and authorized with the same
// authorizer content.
func undeclaredSymbols(c *Ctx) {
	pub, priv := rootKeys()
	three := uint32(3)
	str := func(s string) Term { return S(s) }
	sym := func(name string) uint64 { // index of a default symbol
		t := &datalog.SymbolTable{}
		return uint64(t.Sym(name).(datalog.String))
	}
	type variant struct {
		name     string
		declared []string     // what the authority block declares
		facts    []*pb.FactV2 // what it carries (index 1024+len(declared) is undeclared)
		checks   []*pb.CheckV2
		content  []AuthOp // authorizer content
	}
	authorize := func(data []byte, content []AuthOp) string {
		tok, err := biscuit.Unmarshal(data)
		if err != nil {
			return "rejected"
		}
		az, err := tok.AuthorizerFor(biscuit.WithSingularRootPublicKey(pub), biscuit.WithWorldOptions(datalog.WithMaxDuration(20*time.Second)))
		if err != nil {
			return "rejected"
		}
		for _, op := range content {
			switch op.K {
			case "addfact":
				az.AddFact(biscuit.Fact{Predicate: op.Fact.ToBiscuit()})
			case "addpolicy":
				az.AddPolicy(op.Policy.ToBiscuit())
			}
		}
		return authErrClass(az.Authorize())
	}
	allow := func(q Rule) AuthOp { return AuthOp{K: "addpolicy", Policy: Policy{Allow: true, Queries: []Rule{q}}} }
	for k := 0; k <= 3; k++ {
		var declared []string
		for j := 0; j < k; j++ {
			declared = append(declared, fmt.Sprintf("known%d", j))
		}
		dangling := uint64(1024 + k)
		vs := []variant{
			{"string-term", declared, []*pb.FactV2{pbFact(sym("role"), pbStr(dangling))}, nil,
				[]AuthOp{allow(Rule{Head: Pred{Name: "query"}, Body: []Pred{{Name: "role", Terms: []Term{str("superuser")}}}})}},
			{"predicate-name", declared, []*pb.FactV2{pbFact(dangling, pbInt(1))}, nil,
				[]AuthOp{allow(Rule{Head: Pred{Name: "query"}, Body: []Pred{{Name: "superuser", Terms: []Term{I(1)}}}})}},
			{"check", declared, nil, []*pb.CheckV2{{Queries: []*pb.RuleV2{{Head: &pb.PredicateV2{Name: u64p(sym("query"))},
				Body: []*pb.PredicateV2{{Name: u64p(sym("admin")), Terms: []*pb.TermV2{pbStr(dangling)}}}}}}},
				[]AuthOp{{K: "addfact", Fact: Pred{Name: "admin", Terms: []Term{str("superuser")}}},
					allow(Rule{Head: Pred{Name: "query"}, Exprs: []Expr{{{K: 'v', T: O(true)}}}})}},
		}
		// the undeclared string second in a set whose first element is declared
		if k > 0 {
			vs = append(vs, variant{"set-element", declared, nil,
				[]*pb.CheckV2{{Queries: []*pb.RuleV2{{Head: &pb.PredicateV2{Name: u64p(sym("query"))},
					Body: []*pb.PredicateV2{{Name: u64p(sym("resource")), Terms: []*pb.TermV2{pbVar(uint32(sym("path")))}}},
					Expressions: []*pb.ExpressionV2{{Ops: []*pb.Op{
						{Content: &pb.Op_Value{Value: pbSet(pbStr(1024), pbStr(dangling))}},
						{Content: &pb.Op_Value{Value: pbVar(uint32(sym("path")))}},
						{Content: &pb.Op_Binary{Binary: &pb.OpBinary{Kind: pb.OpBinary_Contains.Enum()}}}}}}}}}},
				[]AuthOp{{K: "addfact", Fact: Pred{Name: "resource", Terms: []Term{str("superuser")}}},
					allow(Rule{Head: Pred{Name: "query"}, Exprs: []Expr{{{K: 'v', T: O(true)}}}})}})
		}
		// a symbol list that is longer than what it adds to the table (a default symbol, a string
		// listed twice): the undeclared index lies beyond the table but within the list's length
		vs = append(vs, variant{"padded-symbol-list", append(append([]string{}, declared...), "admin", "twice", "twice"),
			[]*pb.FactV2{pbFact(sym("role"), pbStr(dangling+1))}, nil,
			[]AuthOp{allow(Rule{Head: Pred{Name: "query"}, Body: []Pred{{Name: "role", Terms: []Term{str("superuser")}}}})}})
		// a variable number without a declared name, next to a declared variable whose name is
		// the very placeholder the library prints for that number: one variable in T, two in T+B
		for _, placeholder := range []string{fmt.Sprintf("<invalid symbol %d>", dangling+1), fmt.Sprintf("<invalid variable %d>", dangling+1)} {
			vs = append(vs, variant{"variable-name", append(append([]string{}, declared...), placeholder), nil,
				[]*pb.CheckV2{{Queries: []*pb.RuleV2{{Head: &pb.PredicateV2{Name: u64p(sym("query"))},
					Body: []*pb.PredicateV2{{Name: u64p(sym("resource")), Terms: []*pb.TermV2{pbVar(uint32(dangling))}},
						{Name: u64p(sym("operation")), Terms: []*pb.TermV2{pbVar(uint32(dangling + 1))}}}}}}},
				[]AuthOp{{K: "addfact", Fact: Pred{Name: "resource", Terms: []Term{str("a")}}},
					{K: "addfact", Fact: Pred{Name: "operation", Terms: []Term{str("b")}}},
					allow(Rule{Head: Pred{Name: "query"}, Exprs: []Expr{{{K: 'v', T: O(true)}}}})}})
		}
		for _, v := range vs {
			ctx := ""
			auth := mustMarshal(&pb.Block{Symbols: v.declared, Context: &ctx, Version: &three, FactsV2: v.facts, ChecksV2: v.checks})
			if v.name == "variable-name" {
				// the appended block declares three strings, so that the unnamed variable gets a name of its own
				blk := mustMarshal(&pb.Block{Symbols: []string{"n1", "n2", "n3"}, Context: &ctx, Version: &three,
					FactsV2: []*pb.FactV2{pbFact(sym("owner"), pbStr(dangling+1))}})
				envT, _ := forgeEnvelope(priv, [][]byte{auth}, NewRng(uint64(190+k)), nil, false)
				envTB, _ := forgeEnvelope(priv, [][]byte{auth, blk}, NewRng(uint64(190+k)), nil, false)
				dT, dTB := mustMarshal(envT), mustMarshal(envTB)
				resT, resTB := authorize(dT, v.content), authorize(dTB, v.content)
				c.Eval()
				c.Count("undeclared:" + v.name + ":" + resT + "->" + resTB)
				c.NonTrivial(hx(dTB))
				if resT != "ok" && resTB == "ok" {
					c.Violate("C02/undeclared-symbol:"+v.name, fmt.Sprintf("a token whose authority check uses a variable number without a declared name is %s, and accepted once a holder appends a block declaring more symbols (two variables of the check are one variable in T and two in T+B)", resT),
						map[string]interface{}{"T": hx(dT), "TB": hx(dTB), "declared": k})
				}
				sx := "(case (bytes " + hx(dT) + ") (expect " + hxs("reject") + "))"
				res := execCase("WIRE", sx)
				c.Case("WIRE", c.NewID("undeclared"), sx, res)
				continue
			}
			// the appended block declares "superuser" (it lands on the undeclared index) and is otherwise harmless
			blk := mustMarshal(&pb.Block{Symbols: []string{"superuser"}, Context: &ctx, Version: &three,
				FactsV2: []*pb.FactV2{pbFact(sym("owner"), pbStr(dangling))}})
			envT, _ := forgeEnvelope(priv, [][]byte{auth}, NewRng(uint64(90+k)), nil, false)
			envTB, _ := forgeEnvelope(priv, [][]byte{auth, blk}, NewRng(uint64(90+k)), nil, false)
			dT, dTB := mustMarshal(envT), mustMarshal(envTB)
			resT, resTB := authorize(dT, v.content), authorize(dTB, v.content)
			c.Eval()
			c.Count("undeclared:" + v.name + ":" + resT + "->" + resTB)
			c.NonTrivial(hx(dTB))
			if resT != "ok" && resTB == "ok" {
				c.Violate("C02/undeclared-symbol:"+v.name, fmt.Sprintf("a token whose authority block refers to an undeclared symbol is %s, and accepted once a holder appends a block declaring a symbol (the authority block's %s takes the appended block's meaning)", resT, v.name),
					map[string]interface{}{"T": hx(dT), "TB": hx(dTB), "declared": k})
			}
			// the independent decoder's view of T: each block must be resolvable from its own and earlier tables
			sx := "(case (bytes " + hx(dT) + ") (expect " + hxs("reject") + "))"
			res := execCase("WIRE", sx)
			c.Case("WIRE", c.NewID("undeclared"), sx, res)
			// the same block one position later, after an authority block that declares nothing:
			// an EARLIER NON-AUTHORITY block with a dangling reference, and B after it
			if len(v.checks) > 0 {
				auth0 := mustMarshal(&pb.Block{Context: &ctx, Version: &three, FactsV2: []*pb.FactV2{pbFact(sym("right"), pbInt(1))}})
				envT2, _ := forgeEnvelope(priv, [][]byte{auth0, auth}, NewRng(uint64(290+k)), nil, false)
				envTB2, _ := forgeEnvelope(priv, [][]byte{auth0, auth, blk}, NewRng(uint64(290+k)), nil, false)
				dT2, dTB2 := mustMarshal(envT2), mustMarshal(envTB2)
				resT2, resTB2 := authorize(dT2, v.content), authorize(dTB2, v.content)
				c.Eval()
				c.Count("undeclared:later-block:" + v.name + ":" + resT2 + "->" + resTB2)
				c.NonTrivial(hx(dTB2))
				if resT2 != "ok" && resTB2 == "ok" {
					c.Violate("C02/undeclared-symbol:later-block:"+v.name, fmt.Sprintf("a token whose block 1 refers to an undeclared symbol is %s, and accepted once a holder appends a block declaring a symbol", resT2),
						map[string]interface{}{"T": hx(dT2), "TB": hx(dTB2), "declared": k})
				}
				for _, d := range [][]byte{dT2, dTB2} {
					sx2 := "(case (bytes " + hx(d) + ") (expect " + hxs("reject") + "))"
					res2 := execCase("WIRE", sx2)
					c.Case("WIRE", c.NewID("undeclared"), sx2, res2)
				}
			}
		}
	}
}

// undeclaredInMemory: the same situation without any bytes — a token assembled through the
// public constructors whose authority block was built over a longer table than the token is
// given (NewBlockBuilder + New), used as the constructors returned it.
func undeclaredInMemory(c *Ctx) {
	pub, priv := rootKeys()
	for pad := 1; pad <= 3; pad++ {
		long := &datalog.SymbolTable{}
		for i := 0; i < pad; i++ {
			long.Insert(fmt.Sprintf("pad%d", i))
		}
		bb := biscuit.NewBlockBuilder(long)
		bb.AddFact(biscuit.Fact{Predicate: Pred{Name: "role", Terms: []Term{S("placeholder")}}.ToBiscuit()})
		rd := &detRand{NewRng(uint64(300 + pad))}
		tok, err := biscuit.New(rd, priv, &datalog.SymbolTable{}, bb.Build())
		c.Eval()
		if err != nil {
			c.Count("undeclared-inmemory:refused-at-New")
			continue
		}
		authorize := func(t *biscuit.Biscuit) string {
			az, err := t.AuthorizerFor(biscuit.WithSingularRootPublicKey(pub), biscuit.WithWorldOptions(datalog.WithMaxDuration(20*time.Second)))
			if err != nil {
				return "rejected"
			}
			az.AddPolicy(Policy{Allow: true, Queries: []Rule{{Head: Pred{Name: "query"}, Body: []Pred{{Name: "role", Terms: []Term{S("superuser")}}}}}}.ToBiscuit())
			return authErrClass(az.Authorize())
		}
		resT := authorize(tok)
		nb := tok.CreateBlock()
		for i := 0; i < pad; i++ { // the token's table holds one string: position pad is the undeclared index
			name := fmt.Sprintf("filler%d", i)
			if i == pad-1 {
				name = "superuser"
			}
			nb.AddFact(biscuit.Fact{Predicate: Pred{Name: "owner", Terms: []Term{S(name)}}.ToBiscuit()})
		}
		resTB := "append-refused"
		if tb, err := tok.Append(rd, nb.Build()); err == nil {
			resTB = authorize(tb)
		}
		c.Count("undeclared-inmemory:" + resT + "->" + resTB)
		if resT != "ok" && resTB == "ok" {
			c.Violate("C02/undeclared-symbol:in-memory", fmt.Sprintf("a token built with New over a shorter table than its block was built on is %s, and accepted once a block declaring more symbols is appended", resT),
				map[string]interface{}{"pad": pad, "T": tok.String()})
		}
	}
}

func u64p(v uint64) *uint64 { return &v }

// snapshotMissingField: a well-formed snapshot from which one mandatory field has been
// removed (a policy's kind, a fact's predicate, a predicate's name, a rule's / query's head):
// syntactically valid protobuf that only the required-field check stands against.
func snapshotMissingField(data []byte, r *Rng) (out []byte, label string) {
	var m pb.AuthorizerPolicies
	if err := (proto.UnmarshalOptions{AllowPartial: true}).Unmarshal(data, &m); err != nil {
		return []byte{0x10, 0x03, 0x32, 0x00}, "undecodable"
	}
	three := uint32(3)
	label = "missing-field"
	switch r.Intn(13) {
	case 10, 11, 12:
		label = "index-outside-table"
		// a string index far outside any table: 2^63 and beyond (signed/unsigned boundary),
		// 2^64-1, the first index after the table — as a predicate name and as a string term,
		// in a fact, a rule head, a check or a policy query
		huge := Pick(r, []uint64{1 << 63, 1<<63 + 1024, 1<<64 - 1, 1<<63 - 1, uint64(1024 + len(m.Symbols)), 1 << 32})
		pred := &pb.PredicateV2{Name: &huge}
		if r.Chance(1, 2) {
			ok := uint64(0)
			pred = &pb.PredicateV2{Name: &ok, Terms: []*pb.TermV2{{Content: &pb.TermV2_String_{String_: huge}}}}
		}
		switch r.Intn(4) {
		case 0:
			m.Facts = append(m.Facts, &pb.FactV2{Predicate: pred})
		case 1:
			m.Rules = append(m.Rules, &pb.RuleV2{Head: pred})
		case 2:
			m.Checks = append(m.Checks, &pb.CheckV2{Queries: []*pb.RuleV2{{Head: pred, Body: []*pb.PredicateV2{pred}}}})
		default:
			k := pb.Policy_Allow
			m.Policies = append(m.Policies, &pb.Policy{Kind: &k, Queries: []*pb.RuleV2{{Head: pred, Body: []*pb.PredicateV2{pred}}}})
		}
	case 7:
		label = "symbols-cut"
		m.Symbols = nil // every index from 1024 up now points nowhere
	case 8:
		label = "symbols-cut"
		if len(m.Symbols) > 0 {
			m.Symbols = m.Symbols[:r.Intn(len(m.Symbols))]
		}
	case 9:
		label = "symbols-cut"
		if len(m.Symbols) > 0 {
			m.Symbols = m.Symbols[len(m.Symbols)-1:]
		}
	case 0:
		m.Policies = append(m.Policies, &pb.Policy{}) // no kind, no queries
	case 1:
		if len(m.Policies) > 0 {
			m.Policies[r.Intn(len(m.Policies))].Kind = nil
		} else {
			m.Policies = []*pb.Policy{{}}
		}
	case 2:
		m.Facts = append(m.Facts, &pb.FactV2{}) // no predicate
	case 3:
		m.Facts = append(m.Facts, &pb.FactV2{Predicate: &pb.PredicateV2{}}) // no name
	case 4:
		m.Rules = append(m.Rules, &pb.RuleV2{}) // no head
	case 5:
		m.Checks = append(m.Checks, &pb.CheckV2{Queries: []*pb.RuleV2{{}}})
	default:
		k := pb.Policy_Allow
		m.Policies = append(m.Policies, &pb.Policy{Kind: &k, Queries: []*pb.RuleV2{{}}})
	}
	m.Version = &three
	return mustMarshal(&m), label
}

// liveLoad: LoadPolicies on an authorizer that has already evaluated something (content with
// default and fresh names, integers and strings); what is loaded must take part
// in every later evaluation: Query, add via LoadPolicies, Query again, Authorize.
func liveLoad(c *Ctx, r *Rng) {
	n := 150
	if c.Thorough {
		n = 2500
	}
	names := []string{"right", "resource", "operation", "role", "owner", "user", "fresh_name", "group:1"}
	fact := func() Pred {
		// strings of the authorizer's own, too: since fix 4a66546 a load keeps the table the
		// authorizer has built so far
		if r.Chance(1, 2) {
			return Pred{Name: Pick(r, names), Terms: []Term{S(Pick(r, []string{"alice", "bob", "file1", "read", "é"}))}}
		}
		return Pred{Name: Pick(r, names), Terms: []Term{I(int64(r.Intn(3)))}}
	}
	rule := func() Rule {
		h, b := Pick(r, names), Pick(r, names)
		rl := Rule{Head: Pred{Name: h, Terms: []Term{V("x")}}, Body: []Pred{{Name: b, Terms: []Term{V("x")}}}}
		if r.Chance(1, 3) {
			rl.Body = append(rl.Body, Pred{Name: Pick(r, names), Terms: []Term{V("y")}})
		}
		return rl
	}
	for i := 0; i < n; i++ {
		var ops []AuthOp
		for k, m := 0, 1+r.Intn(3); k < m; k++ {
			ops = append(ops, AuthOp{K: "addfact", Fact: fact()})
		}
		if r.Chance(1, 2) {
			ops = append(ops, AuthOp{K: "addrule", Rule: rule()})
		}
		q := Rule{Head: Pred{Name: "got", Terms: []Term{V("v")}}, Body: []Pred{{Name: Pick(r, names), Terms: []Term{V("v")}}}}
		if r.Chance(1, 3) {
			ops = append(ops, AuthOp{K: "authorize"})
		} else {
			ops = append(ops, AuthOp{K: "query", Rule: q})
		}
		var sub []AuthOp
		for k, m := 0, r.Intn(3); k < m; k++ {
			sub = append(sub, AuthOp{K: "addfact", Fact: fact()})
		}
		for k, m := 0, 1+r.Intn(2); k < m; k++ {
			sub = append(sub, AuthOp{K: "addrule", Rule: rule()})
		}
		sub = append(sub, AuthOp{K: "addpolicy", Policy: Policy{Allow: r.Chance(2, 3), Queries: []Rule{{Head: Pred{Name: "query"}, Body: []Pred{{Name: Pick(r, names), Terms: []Term{V("p")}}}}}}})
		ops = append(ops, AuthOp{K: "load", Sub: sub})
		q2 := Rule{Head: Pred{Name: "got", Terms: []Term{V("v")}}, Body: []Pred{{Name: Pick(r, names), Terms: []Term{V("v")}}}}
		if r.Chance(1, 3) {
			// loading does not make an evaluated authorizer unevaluated: saving right after the
			// load must still be refused (the world holds the token's facts)
			acs := AuthCase{MaxFacts: 1000, MaxIter: 100, Ctor: "for", Tokens: [][]Block{{{Facts: []Pred{fact()}}}}, Ops: append(append([]AuthOp{}, ops...), AuthOp{K: "saveload", Tok: 0})}
			resS, sxS := emitAuth(c, "liveload-save", acs)
			c.Count("live-load-then-save")
			if !strings.HasSuffix(resS, "refused") && resS != "environment-timeout" && !strings.HasPrefix(resS, "panic") {
				c.Violate("C18/save-after-eval", "SerializePolicies succeeded on an authorizer that was evaluated and then loaded: "+trunc(resS, 120),
					map[string]interface{}{"verb": "AUTHSEQ", "case": sxS, "go": resS})
			}
		}
		ops = append(ops, AuthOp{K: "query", Rule: q2}, AuthOp{K: "authorize"}, AuthOp{K: "query", Rule: q})
		ac := AuthCase{MaxFacts: 1000, MaxIter: 100, Ctor: "for", Tokens: [][]Block{{{Facts: []Pred{fact()}}}}, Ops: ops}
		_, sx := emitAuth(c, "liveload", ac)
		c.NonTrivial(sx)
		c.Count("live-load")
	}
}
