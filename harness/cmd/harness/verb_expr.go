package main

// C06 — EXPR verb: (*datalog.Expression).Evaluate against Model/Expr.eval, plus an
// in-harness math/big witness search for the arithmetic fragment.

import (
	"errors"
	"fmt"
	"math"
	"math/big"
	"regexp"
	"sort"
	"strings"

	"github.com/biscuit-auth/biscuit-go/v2/datalog"
)

func init() {
	verbs["C06"] = runC06
	execs["EXPR"] = execExpr
}

// execExpr executes one EXPR case line against the library.
func execExpr(cs *Sx) string {
	var binds [][2]interface{}
	if bs, ok := cs.field("binds"); ok {
		for _, b := range bs {
			if !b.IsList || len(b.List) != 2 {
				return "bad-case"
			}
			n, err := unhex(b.List[0].Atom)
			if err != nil {
				return "bad-case"
			}
			t, err := decTerm(b.List[1])
			if err != nil {
				return "bad-case"
			}
			binds = append(binds, [2]interface{}{string(n), t})
		}
	}
	var e Expr
	if ops, ok := cs.field("ops"); ok {
		for _, o := range ops {
			op, err := decOp(o)
			if err != nil {
				return "bad-case"
			}
			e = append(e, op)
		}
	}
	return goEvalExpr(e, binds)
}

var unOps = []string{"neg", "par", "len"}
var binOps = []string{"lt", "le", "gt", "ge", "eq", "contains", "prefix", "suffix", "regex", "add", "sub", "mul", "div", "and", "or", "intersection", "union"}

func panicSite(r interface{}) string {
	msg := fmt.Sprint(r)
	switch {
	case strings.Contains(msg, "unhashable"):
		return "unhashable"
	case strings.Contains(msg, "index out of range"), strings.Contains(msg, "slice bounds out of range"):
		return "index"
	case strings.Contains(msg, "nil pointer"), strings.Contains(msg, "invalid memory address"):
		return "nil-deref"
	case strings.Contains(msg, "bad seed length"):
		return "bad-seed"
	}
	return "other"
}

// goEvalExpr runs the library's evaluator; returns the canonical outcome.
func goEvalExpr(e Expr, binds [][2]interface{}) (res string) {
	defer func() {
		if r := recover(); r != nil {
			res = "panic " + panicSite(r)
		}
	}()
	syms := &datalog.SymbolTable{}
	vals := map[datalog.Variable]*datalog.Term{}
	for _, b := range binds {
		name := b[0].(string)
		t := b[1].(Term).ToDatalog(syms)
		k := datalog.Variable(syms.Insert(name))
		if _, dup := vals[k]; dup {
			continue // first binding wins, as in the model's association list
		}
		tt := t
		vals[k] = &tt
	}
	de := e.ToDatalog(syms)
	v, err := de.Evaluate(vals, syms)
	if err != nil {
		switch {
		case errors.Is(err, datalog.ErrInt64Overflow):
			return "err overflow"
		case errors.Is(err, datalog.ErrExprDivByZero):
			return "err divzero"
		}
		return "err"
	}
	return "ok " + FromDatalogTerm(syms, v).Sx()
}

// rxTable computes the regex oracle with the standard library directly.
func rxTable(pool []string) string {
	sort.Strings(pool)
	uniq := pool[:0]
	for i, s := range pool {
		if i == 0 || s != pool[i-1] {
			uniq = append(uniq, s)
		}
	}
	var sb strings.Builder
	sb.WriteString("(rx")
	for _, p := range uniq {
		re, err := regexp.Compile(p)
		for _, t := range uniq {
			r := "e"
			if err == nil {
				if re.Match([]byte(t)) {
					r = "1"
				} else {
					r = "0"
				}
			}
			sb.WriteString(" (" + hxs(t) + " " + hxs(p) + " " + r + ")")
		}
	}
	sb.WriteString(")")
	return sb.String()
}

func collectStrings(t Term, pool *[]string) {
	switch t.K {
	case 's':
		*pool = append(*pool, t.N)
	case 'S':
		for _, e := range t.Set {
			collectStrings(e, pool)
		}
	}
}

func exprCaseSx(e Expr, binds [][2]interface{}) string {
	var pool []string
	hasRx := false
	bs := make([]string, 0, len(binds))
	for _, b := range binds {
		t := b[1].(Term)
		collectStrings(t, &pool)
		bs = append(bs, "("+hxs(b[0].(string))+" "+t.SxRaw()+")")
	}
	ops := make([]string, 0, len(e))
	for _, o := range e {
		if o.K == 'v' {
			collectStrings(o.T, &pool)
		}
		if o.K == 'b' && o.B == "regex" {
			hasRx = true
		}
		ops = append(ops, o.Sx())
	}
	rx := "(rx)"
	if hasRx && len(pool) <= 12 {
		rx = rxTable(pool)
	}
	return "(case " + sxList("binds", bs) + " " + sxList("ops", ops) + " " + rx + ")"
}

var boundaryInts = []int64{0, 1, -1, 2, -2, 3, 7, math.MinInt64, math.MaxInt64, math.MinInt64 + 1, math.MaxInt64 - 1,
	1 << 32, 1 << 31, -(1 << 31), -(1 << 32), 3037000500, 3037000499, -3037000500, 1 << 62, -(1 << 62), 1<<62 + 1, 4294967296 * 2147483648 / 2}

var poolStrings = []string{"", "a", "ab", "abc", "b", "bc", "é", "aé", "^a.*c$", "(", "a+", "abcabc"}
var poolBytes = [][]byte{{}, {1}, {1, 2}, {0xff}, {1, 2, 3}}
var poolDates = []uint64{0, 1, 1600000000, 1 << 63, math.MaxUint64, 1<<63 - 1}

func valuePool() []Term {
	var p []Term
	for _, i := range boundaryInts {
		p = append(p, I(i))
	}
	for _, s := range poolStrings {
		p = append(p, S(s))
	}
	for _, b := range poolBytes {
		p = append(p, B(b))
	}
	for _, d := range poolDates {
		p = append(p, D(d))
	}
	p = append(p, O(true), O(false))
	// sets of every element type: empty, singleton, 3-element, overlapping
	p = append(p, SetOf(),
		SetOf(I(1)), SetOf(I(1), I(2), I(3)), SetOf(I(3), I(2)), SetOf(I(math.MinInt64), I(math.MaxInt64)),
		SetOf(I(1), I(1), I(2)), SetOf(I(1), I(2), I(2)), SetOf(I(2), I(1), I(1)), // engine-level raw slices with repeats
		SetOf(S("a"), S("a"), S("b")),
		SetOf(S("a")), SetOf(S("a"), S("b"), S("abc")), SetOf(S("b"), S("é")),
		SetOf(B([]byte{1})), SetOf(B([]byte{1}), B([]byte{1, 2}), B([]byte{})), SetOf(B([]byte{1, 2})),
		SetOf(D(0)), SetOf(D(0), D(1), D(1<<63)),
		SetOf(O(true)), SetOf(O(true), O(false)),
		SetOf(I(1), S("a")), // mixed (Go API only)
	)
	return p
}

func bigArith(op string, a, b int64) string {
	x, y := big.NewInt(a), big.NewInt(b)
	z := new(big.Int)
	switch op {
	case "add":
		z.Add(x, y)
	case "sub":
		z.Sub(x, y)
	case "mul":
		z.Mul(x, y)
	case "div":
		if b == 0 {
			return "err divzero"
		}
		z.Quo(x, y) // truncated division, like Go's /
	}
	if !z.IsInt64() {
		return "err overflow"
	}
	return fmt.Sprintf("ok (i %d)", z.Int64())
}

type exprGen struct {
	r     *Rng
	binds [][2]interface{}
	nvar  int
}

func (g *exprGen) atom(ty byte) Term {
	r := g.r
	switch ty {
	case 'i':
		if r.Chance(1, 3) {
			return I(Pick(r, boundaryInts))
		}
		return I(int64(r.Intn(21)) - 10)
	case 's':
		return S(Pick(r, poolStrings))
	case 'b':
		return B(Pick(r, poolBytes))
	case 'd':
		return D(Pick(r, poolDates))
	case 'o':
		return O(r.Bool())
	}
	return I(0)
}

func (g *exprGen) set(elem byte) Term {
	n := g.r.Intn(4)
	el := make([]Term, 0, n)
	seen := map[string]bool{}
	for i := 0; i < n; i++ {
		a := g.atom(elem)
		if seen[a.Sx()] {
			continue
		}
		seen[a.Sx()] = true
		el = append(el, a)
	}
	return SetOf(el...)
}

// leaf emits a constant or a bound variable of the requested type.
// Types: i s b d o, and upper-case I S B D O for sets of those.
func (g *exprGen) leaf(ty byte) Expr {
	var t Term
	if ty >= 'a' {
		t = g.atom(ty)
	} else {
		t = g.set(ty + 32)
	}
	if g.r.Chance(1, 3) {
		g.nvar++
		name := fmt.Sprintf("v%d", g.nvar)
		g.binds = append(g.binds, [2]interface{}{name, t})
		return Expr{{K: 'v', T: V(name)}}
	}
	return Expr{{K: 'v', T: t}}
}

func (g *exprGen) gen(ty byte, depth int) Expr {
	r := g.r
	if depth <= 0 || r.Chance(1, 5) {
		return g.leaf(ty)
	}
	bin := func(op string, lt, rt byte) Expr {
		e := append(Expr{}, g.gen(lt, depth-1)...)
		e = append(e, g.gen(rt, depth-1)...)
		return append(e, Op{K: 'b', B: op})
	}
	un := func(op string, t byte) Expr {
		return append(g.gen(t, depth-1), Op{K: 'u', U: op})
	}
	if r.Chance(1, 8) {
		return un("par", ty)
	}
	elemTypes := []byte{'i', 's', 'b', 'd', 'o'}
	switch ty {
	case 'o':
		switch r.Intn(12) {
		case 0:
			return un("neg", 'o')
		case 1:
			return bin("and", 'o', 'o')
		case 2:
			return bin("or", 'o', 'o')
		case 3:
			t := Pick(r, []byte{'i', 'd'})
			return bin(Pick(r, []string{"lt", "le", "gt", "ge"}), t, t)
		case 4:
			t := Pick(r, []byte{'i', 's', 'b', 'd', 'o', 'I', 'S', 'B', 'D', 'O'})
			return bin("eq", t, t)
		case 5:
			return bin(Pick(r, []string{"contains", "prefix", "suffix"}), 's', 's')
		case 6:
			// regex operands are leaves so that the oracle table covers them
			e := append(Expr{}, g.leaf('s')...)
			e = append(e, g.leaf('s')...)
			return append(e, Op{K: 'b', B: "regex"})
		case 7:
			e := Pick(r, elemTypes)
			return bin("contains", e-32, e)
		case 8:
			e := Pick(r, elemTypes)
			return bin("contains", e-32, e-32)
		default:
			return bin("eq", 'i', 'i')
		}
	case 'i':
		switch r.Intn(6) {
		case 0:
			return un("len", Pick(r, []byte{'s', 'b', 'I', 'S', 'B'}))
		default:
			return bin(Pick(r, []string{"add", "sub", "mul", "div"}), 'i', 'i')
		}
	case 's':
		return bin("add", 's', 's')
	case 'I', 'S', 'B', 'D', 'O':
		return bin(Pick(r, []string{"union", "intersection"}), ty, ty)
	}
	return g.leaf(ty)
}

func runC06(c *Ctx) {
	c.Rule = "streams: (product) every binary operator x every ordered pair of a 60-value pool covering all types, 64-bit boundary integers, empty strings/bytes, sets of every element type; every unary operator x pool; (tree) well-typed random postfix from typed expression trees with bound variables; (shared) one bound set as operand of two or three set operators in one expression (operands carry spare capacity); (soup) malformed operator sequences, underflow, leftovers, 1001-deep pushes, unknown variables. Non-trivial = the operator application is well-typed by the model's table or the sequence exercises a stack error; distinct = distinct canonical case encodings."
	r := NewRng(c.Seed)
	pool := valuePool()

	emit := func(stream string, e Expr, binds [][2]interface{}, nontrivial bool) string {
		id := c.NewID(stream)
		sx := exprCaseSx(e, binds)
		res := execCase("EXPR", sx)
		c.Case("EXPR", id, sx, res)
		c.Count("outcome:" + strings.SplitN(res, " (", 2)[0])
		if nontrivial || strings.HasPrefix(res, "ok") {
			c.NonTrivial(sx)
		}
		if strings.HasPrefix(res, "panic") {
			c.Violate("C06/panic:"+strings.TrimPrefix(res, "panic "), "Evaluate panicked: "+res, map[string]interface{}{"verb": "EXPR", "case": sx, "go": res})
		}
		return res
	}

	// (dangling) string operands whose symbol index is declared by no table — a value the
	// engine can be handed by any caller of the datalog package; operators must answer with
	// a value or an error (the placeholder name), never panic. Implementation only: the
	// model has no notion of an index without a string.
	danglingOperands(c)
	// (product) unary
	for _, u := range unOps {
		for _, v := range pool {
			e := Expr{{K: 'v', T: v}, {K: 'u', U: u}}
			emit("un", e, nil, false)
			c.Count("op:" + u)
		}
	}
	// (product) binary + big-int witness search
	for _, b := range binOps {
		for _, l := range pool {
			for _, rr := range pool {
				e := Expr{{K: 'v', T: l}, {K: 'v', T: rr}, {K: 'b', B: b}}
				res := emit("bin", e, nil, false)
				c.Count("op:" + b)
				if l.K == 'i' && rr.K == 'i' && (b == "add" || b == "sub" || b == "mul" || b == "div") {
					want := bigArith(b, l.I, rr.I)
					if res != want {
						c.Violate(fmt.Sprintf("C06/arith:%s:%d:%d", b, l.I, rr.I),
							fmt.Sprintf("%d %s %d: library returned %q, exact arithmetic gives %q", l.I, b, rr.I, res, want),
							map[string]interface{}{"verb": "EXPR", "case": exprCaseSx(e, nil), "go": res, "want": want})
					}
				}
			}
		}
	}
	if c.Samples == nil {
		c.Sample(map[string]string{"stream": "product", "case": exprCaseSx(Expr{{K: 'v', T: I(math.MinInt64)}, {K: 'v', T: I(-1)}, {K: 'b', B: "div"}}, nil)})
	}

	// (arith-random) random 64-bit operands near boundaries against math/big
	nArith := 4000
	if c.Thorough {
		nArith = 200000
	}
	for i := 0; i < nArith; i++ {
		a := nearBoundary(r)
		b := nearBoundary(r)
		op := Pick(r, []string{"add", "sub", "mul", "div"})
		e := Expr{{K: 'v', T: I(a)}, {K: 'v', T: I(b)}, {K: 'b', B: op}}
		res := emit("arith", e, nil, true)
		want := bigArith(op, a, b)
		if res != want {
			c.Violate(fmt.Sprintf("C06/arith:%s:%d:%d", op, a, b),
				fmt.Sprintf("%d %s %d: library returned %q, exact arithmetic gives %q", a, op, b, res, want),
				map[string]interface{}{"verb": "EXPR", "case": exprCaseSx(e, nil), "go": res, "want": want})
		}
	}

	// (tree) typed random trees
	nTree := 5000
	if c.Thorough {
		nTree = 300000
	}
	for i := 0; i < nTree; i++ {
		g := &exprGen{r: r}
		ty := Pick(r, []byte{'o', 'o', 'o', 'i', 'i', 's', 'I', 'S', 'B', 'D', 'O'})
		e := g.gen(ty, 1+r.Intn(6))
		if len(e) > 400 {
			continue
		}
		emit("tree", e, g.binds, true)
		c.Count(fmt.Sprintf("tree-len:%d", bucket(len(e))))
		if i < 3 {
			c.Sample(map[string]interface{}{"stream": "tree", "case": exprCaseSx(e, g.binds)})
		}
	}

	// (shared) one bound set used as the operand of two set operators inside one expression:
	// the first result is still on the stack while the second operator runs
	xv := Op{K: 'v', T: V("x")}
	sets := [][3]Term{
		{SetOf(I(1), I(2)), SetOf(I(3)), SetOf(I(4))},
		{SetOf(I(1), I(2), I(3)), SetOf(I(2)), SetOf(I(3), I(9))},
		{SetOf(S("a"), S("b")), SetOf(S("c")), SetOf(S("d"))},
		{SetOf(B([]byte{1})), SetOf(B([]byte{2})), SetOf(B([]byte{3}))},
		{SetOf(I(1)), SetOf(I(1)), SetOf(I(2))},
	}
	for _, tr := range sets {
		a, b := Op{K: 'v', T: tr[1]}, Op{K: 'v', T: tr[2]}
		for _, o1 := range []string{"union", "intersection"} {
			for _, o2 := range []string{"union", "intersection"} {
				for _, cmp := range []string{"eq", "contains"} {
					for _, binds := range [][][2]interface{}{{{"x", tr[0]}}, nil} {
						x := xv
						if binds == nil {
							x = Op{K: 'v', T: tr[0]} // the same literal written twice: two values
						}
						e := Expr{x, a, {K: 'b', B: o1}, x, b, {K: 'b', B: o2}, {K: 'b', B: cmp}}
						emit("shared", e, binds, true)
						// three uses, and the results consumed in the other order
						e2 := Expr{x, a, {K: 'b', B: o1}, x, b, {K: 'b', B: o2}, x, {K: 'b', B: "union"}, {K: 'b', B: cmp}}
						emit("shared", e2, binds, true)
					}
				}
			}
		}
	}

	// (soup) malformed
	nSoup := 3000
	if c.Thorough {
		nSoup = 100000
	}
	for i := 0; i < nSoup; i++ {
		n := r.Intn(8)
		var e Expr
		for j := 0; j < n; j++ {
			switch r.Intn(4) {
			case 0:
				e = append(e, Op{K: 'u', U: Pick(r, unOps)})
			case 1:
				e = append(e, Op{K: 'b', B: Pick(r, binOps)})
			case 2:
				e = append(e, Op{K: 'v', T: Pick(r, pool)})
			default:
				if r.Chance(1, 6) {
					e = append(e, Op{K: 'v', T: V("unbound")})
				} else {
					e = append(e, Op{K: 'v', T: Pick(r, pool)})
				}
			}
		}
		emit("soup", e, nil, true)
	}
	// deep pushes around maxStackSize
	for _, n := range []int{999, 1000, 1001, 1002} {
		var e Expr
		for j := 0; j < n; j++ {
			e = append(e, Op{K: 'v', T: I(1)})
		}
		emit("deep", e, nil, true)
		// reduce with adds so that exactly one value remains
		e2 := append(Expr{}, e...)
		for j := 0; j < n-1; j++ {
			e2 = append(e2, Op{K: 'b', B: "add"})
		}
		emit("deep", e2, nil, true)
	}
}

func nearBoundary(r *Rng) int64 {
	bases := []int64{0, math.MinInt64, math.MaxInt64, 1 << 31, 1 << 32, -(1 << 31), 3037000499, -3037000499, 1 << 62, -(1 << 62)}
	switch r.Intn(4) {
	case 0:
		return int64(r.U64())
	case 1:
		return int64(r.Intn(65)) - 32
	default:
		b := Pick(r, bases)
		d := int64(r.Intn(9)) - 4
		if (d > 0 && b > math.MaxInt64-d) || (d < 0 && b < math.MinInt64-d) {
			return b
		}
		return b + d
	}
}

func bucket(n int) int {
	switch {
	case n <= 3:
		return 3
	case n <= 10:
		return 10
	case n <= 30:
		return 30
	case n <= 100:
		return 100
	}
	return 1000
}

// danglingOperands: every operator applied to datalog.String values with indexes outside
// the symbol table (just past the table, 2^32, 2^63-1, 2^63, 2^63+1024, 2^64-1), alone, against
// a proper string, inside a set, and printed.
func danglingOperands(c *Ctx) {
	danglingOperandsOver(c, false)
	danglingOperandsOver(c, true) // a table that holds nothing of its own
}

func danglingOperandsOver(c *Ctx, emptyTable bool) {
	syms := &datalog.SymbolTable{}
	proper := datalog.Term(datalog.String(0)) // a default symbol
	if !emptyTable {
		proper = syms.Insert("proper")
	}
	idx := []uint64{uint64(datalog.OFFSET), uint64(datalog.OFFSET) + 1, 1 << 32, 1<<63 - 1, 1 << 63, 1<<63 + 1024, 1<<64 - 1, 29}
	bins := []datalog.BinaryOpFunc{datalog.Equal{}, datalog.Contains{}, datalog.Prefix{}, datalog.Suffix{}, datalog.Regex{}, datalog.Add{}, datalog.LessThan{}, datalog.Intersection{}, datalog.Union{}}
	uns := []datalog.UnaryOpFunc{datalog.Length{}, datalog.Negate{}, datalog.Parens{}}
	try := func(what string, f func()) {
		defer func() {
			if r := recover(); r != nil {
				c.Violate("C06/panic:dangling-index:"+what, "an operator panicked on a string operand whose index no table declares: "+panicSite(r), map[string]interface{}{"what": what})
			}
		}()
		c.Eval()
		f()
	}
	for _, i := range idx {
		d := datalog.String(i)
		for _, b := range bins {
			for _, pair := range [][2]datalog.Term{{d, proper}, {proper, d}, {d, d}, {datalog.Set{d, proper}, d}, {datalog.Set{d}, datalog.Set{proper, d}}} {
				e := datalog.Expression{datalog.Value{ID: pair[0]}, datalog.Value{ID: pair[1]}, datalog.BinaryOp{BinaryOpFunc: b}}
				try(fmt.Sprintf("binary-%d", b.Type()), func() { e.Evaluate(nil, syms); e.Print(syms) })
			}
		}
		for _, u := range uns {
			e := datalog.Expression{datalog.Value{ID: d}, datalog.UnaryOp{UnaryOpFunc: u}}
			try(fmt.Sprintf("unary-%d", u.Type()), func() { e.Evaluate(nil, syms); e.Print(syms) })
		}
		try("str", func() { _ = syms.Str(d) })
		try("print-fact", func() {
			dbg := datalog.SymbolDebugger{SymbolTable: syms}
			_ = dbg.Predicate(datalog.Predicate{Name: d, Terms: []datalog.Term{d, datalog.Set{d}}})
		})
		c.Count("dangling-index-operands")
	}
}
