package main

// splitmix64: every random choice of a run derives from one state seeded by
// VERIF_SEED, so (seed, case index) replays a case exactly.

type Rng struct{ s uint64 }

func NewRng(seed uint64) *Rng { return &Rng{s: seed*0x9E3779B97F4A7C15 + 0x1234567} }

func (r *Rng) U64() uint64 {
	r.s += 0x9E3779B97F4A7C15
	z := r.s
	z = (z ^ (z >> 30)) * 0xBF58476D1CE4E5B9
	z = (z ^ (z >> 27)) * 0x94D049BB133111EB
	return z ^ (z >> 31)
}

// Intn returns a value in [0, n).
func (r *Rng) Intn(n int) int {
	if n <= 0 {
		return 0
	}
	return int(r.U64() % uint64(n))
}

func (r *Rng) Bool() bool { return r.U64()&1 == 1 }

// Chance returns true with probability num/den.
func (r *Rng) Chance(num, den int) bool { return r.Intn(den) < num }

func (r *Rng) Fork() *Rng { return &Rng{s: r.U64()} }

func Pick[T any](r *Rng, xs []T) T { return xs[r.Intn(len(xs))] }

func (r *Rng) Bytes(n int) []byte {
	b := make([]byte, n)
	for i := range b {
		b[i] = byte(r.U64())
	}
	return b
}

func (r *Rng) Perm(n int) []int {
	p := make([]int, n)
	for i := range p {
		p[i] = i
	}
	for i := n - 1; i > 0; i-- {
		j := r.Intn(i + 1)
		p[i], p[j] = p[j], p[i]
	}
	return p
}
