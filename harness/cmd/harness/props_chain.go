package main

// C01 (forgery resistance), C09 (sealing), C16 (root key id), C17 (revocation ids):
// token families built through the library, structural mutations at the protobuf
// level, CHAIN cases decided by the Lean chain walk with stdlib ed25519 as oracle.

import (
	"bytes"
	"crypto/ed25519"
	"fmt"
	"github.com/biscuit-auth/biscuit-go/v2/datalog"
	"io"
	"strings"

	"github.com/biscuit-auth/biscuit-go/v2"
	"github.com/biscuit-auth/biscuit-go/v2/pb"
	"google.golang.org/protobuf/proto"
)

func init() {
	verbs["C01"] = runC01
	verbs["C09"] = runC09
	verbs["C16"] = runC16
	verbs["C17"] = runC17
}

func decodeEnv(data []byte) *pb.Biscuit {
	env := new(pb.Biscuit)
	if err := (proto.UnmarshalOptions{AllowPartial: true}).Unmarshal(data, env); err != nil {
		return nil
	}
	return env
}

func cloneEnv(e *pb.Biscuit) *pb.Biscuit { return proto.Clone(e).(*pb.Biscuit) }

func allSigned(e *pb.Biscuit) []*pb.SignedBlock {
	return append([]*pb.SignedBlock{e.Authority}, e.Blocks...)
}

func flipBit(b []byte, r *Rng) []byte {
	out := append([]byte{}, b...)
	if len(out) == 0 {
		return []byte{1}
	}
	i := r.Intn(len(out))
	out[i] ^= 1 << uint(r.Intn(8))
	return out
}

type mutation struct {
	Name string
	Env  *pb.Biscuit
}

// mutations of one envelope (optionally using a second envelope of the same family /
// root key as donor).
func mutate(r *Rng, env, donor *pb.Biscuit) mutation {
	e := cloneEnv(env)
	sbs := allSigned(e)
	n := len(sbs)
	i := r.Intn(n)
	j := r.Intn(n)
	attPub, attPriv, _ := ed25519.GenerateKey(&detRand{r})
	_ = attPub
	setProofSecret := func(s []byte) { e.Proof = &pb.Proof{Content: &pb.Proof_NextSecret{NextSecret: s}} }
	setProofFinal := func(s []byte) { e.Proof = &pb.Proof{Content: &pb.Proof_FinalSignature{FinalSignature: s}} }
	kind := r.Intn(27)
	switch kind {
	case 24:
		// a "next secret" in the shape of an expanded ed25519 private key (seed ‖ public key):
		// anything ‖ the last announced key. No private key is needed to write this.
		setProofSecret(append(r.Bytes(32), sbs[n-1].NextKey.Key...))
		return mutation{"proof-expanded-key-shape", e}
	case 25:
		// next secrets of other lengths: the announced key itself, empty, 31, 33, 64 random bytes
		switch r.Intn(5) {
		case 0:
			setProofSecret(append([]byte{}, sbs[n-1].NextKey.Key...))
		case 1:
			setProofSecret([]byte{})
		case 2:
			setProofSecret(r.Bytes(31))
		case 3:
			setProofSecret(r.Bytes(33))
		default:
			setProofSecret(r.Bytes(64))
		}
		return mutation{"proof-secret-other-length", e}
	case 26:
		// the true expanded private key of the last announced key (seed ‖ public): still not a 32-byte seed
		if s := e.Proof.GetNextSecret(); len(s) == 32 {
			setProofSecret(append(append([]byte{}, s...), sbs[n-1].NextKey.Key...))
			return mutation{"proof-true-expanded-key", e}
		}
		setProofSecret(append(r.Bytes(32), sbs[n-1].NextKey.Key...))
		return mutation{"proof-expanded-key-shape", e}
	case 0:
		sbs[i].Block = flipBit(sbs[i].Block, r)
		return mutation{"flip-block", e}
	case 1:
		sbs[i].NextKey.Key = flipBit(sbs[i].NextKey.Key, r)
		return mutation{"flip-nextkey", e}
	case 2:
		sbs[i].Signature = flipBit(sbs[i].Signature, r)
		return mutation{"flip-signature", e}
	case 3:
		if s := e.Proof.GetNextSecret(); s != nil {
			setProofSecret(flipBit(s, r))
		} else if s := e.Proof.GetFinalSignature(); s != nil {
			setProofFinal(flipBit(s, r))
		}
		return mutation{"flip-proof", e}
	case 4:
		sbs[i].Signature, sbs[j].Signature = sbs[j].Signature, sbs[i].Signature
		return mutation{"swap-signatures", e}
	case 5:
		sbs[i].NextKey, sbs[j].NextKey = sbs[j].NextKey, sbs[i].NextKey
		return mutation{"swap-nextkeys", e}
	case 6:
		sbs[i].Block, sbs[j].Block = sbs[j].Block, sbs[i].Block
		return mutation{"swap-blockbytes", e}
	case 7:
		if len(e.Blocks) >= 2 {
			a, b := r.Intn(len(e.Blocks)), r.Intn(len(e.Blocks))
			e.Blocks[a], e.Blocks[b] = e.Blocks[b], e.Blocks[a]
		} else if len(e.Blocks) == 1 {
			e.Authority, e.Blocks[0] = e.Blocks[0], e.Authority
		}
		return mutation{"reorder", e}
	case 8:
		k := r.Intn(n)
		dup := proto.Clone(sbs[k]).(*pb.SignedBlock)
		pos := r.Intn(len(e.Blocks) + 1)
		e.Blocks = append(e.Blocks[:pos], append([]*pb.SignedBlock{dup}, e.Blocks[pos:]...)...)
		return mutation{"insert-duplicate", e}
	case 9:
		if donor != nil {
			ds := allSigned(donor)
			d := proto.Clone(ds[r.Intn(len(ds))]).(*pb.SignedBlock)
			pos := r.Intn(len(e.Blocks) + 1)
			e.Blocks = append(e.Blocks[:pos], append([]*pb.SignedBlock{d}, e.Blocks[pos:]...)...)
		}
		return mutation{"insert-foreign", e}
	case 10:
		if len(e.Blocks) >= 1 {
			k := r.Intn(len(e.Blocks))
			e.Blocks = append(e.Blocks[:k], e.Blocks[k+1:]...)
		}
		return mutation{"remove-block", e}
	case 11:
		if len(e.Blocks) >= 1 {
			e.Blocks = e.Blocks[:r.Intn(len(e.Blocks))]
		}
		return mutation{"truncate-prefix", e}
	case 12:
		// re-key block i with an attacker key and re-sign the suffix with the attacker's chain
		sbs[i].NextKey.Key = attPriv.Public().(ed25519.PublicKey)
		cur := attPriv
		for k := i + 1; k < n; k++ {
			np, ns, _ := ed25519.GenerateKey(&detRand{r})
			sbs[k].NextKey.Key = np
			sbs[k].Signature = ed25519.Sign(cur, blockPayloadBytes(sbs[k].Block, 0, np))
			cur = ns
		}
		setProofSecret(cur.Seed())
		return mutation{"rekey-suffix", e}
	case 13:
		setProofSecret(r.Bytes(32))
		return mutation{"proof-random-secret", e}
	case 14:
		last := sbs[n-1]
		payload := append(blockPayloadBytes(last.Block, 0, last.NextKey.Key), last.Signature...)
		setProofFinal(ed25519.Sign(attPriv, payload))
		return mutation{"proof-seal-wrong-key", e}
	case 15:
		// an unsealed token's holder can seal it at the protobuf level: must be accepted
		if s := e.Proof.GetNextSecret(); len(s) == 32 {
			last := sbs[n-1]
			payload := append(blockPayloadBytes(last.Block, 0, last.NextKey.Key), last.Signature...)
			setProofFinal(ed25519.Sign(ed25519.NewKeyFromSeed(s), payload))
			return mutation{"holder-seals", e}
		}
		setProofSecret(r.Bytes(32))
		return mutation{"unseal-random-secret", e}
	case 16:
		sbs[i].NextKey.Key = sbs[i].NextKey.Key[:31]
		return mutation{"short-key", e}
	case 17:
		sbs[i].Signature = append(sbs[i].Signature, 0)
		return mutation{"long-signature", e}
	case 18:
		sbs[i].Signature = sbs[i].Signature[:63]
		return mutation{"short-signature", e}
	case 19:
		if donor != nil {
			e.Proof = proto.Clone(donor.Proof).(*pb.Proof)
		}
		return mutation{"proof-from-other-token", e}
	case 20:
		if donor != nil {
			ds := allSigned(donor)
			k := r.Intn(len(ds))
			if k < n {
				switch r.Intn(3) {
				case 0:
					sbs[k%n].Signature = ds[k].Signature
				case 1:
					sbs[k%n].NextKey = proto.Clone(ds[k].NextKey).(*pb.PublicKey)
				default:
					sbs[k%n].Block = ds[k].Block
				}
			}
		}
		return mutation{"field-from-other-token", e}
	case 21:
		e.Proof = &pb.Proof{}
		return mutation{"proof-absent", e}
	case 22:
		// sealed: drop the last block but keep the seal
		if len(e.Blocks) >= 1 {
			e.Blocks = e.Blocks[:len(e.Blocks)-1]
		}
		return mutation{"drop-last-keep-proof", e}
	default:
		return mutation{"identity", e}
	}
}

type famToken struct {
	Tok  *biscuit.Biscuit
	Data []byte
	Spec TokenSpec
}

func makeFamily(r *Rng, g *scenGen, n int) []famToken {
	var out []famToken
	ids := []*uint32{nil, nil, u32p(0), u32p(7), u32p(1<<32 - 1)}
	for len(out) < n {
		spec := TokenSpec{RootKeyID: Pick(r, ids), Seal: r.Chance(1, 3)}
		for j, nb := 0, 1+r.Intn(4); j < nb; j++ {
			spec.Blocks = append(spec.Blocks, g.block(r.Intn(4), r.Intn(2), r.Intn(2)))
		}
		tok, err := buildTokenSpec(spec, r.Fork())
		if err != nil {
			continue
		}
		data, err := tok.Serialize()
		if err != nil {
			continue
		}
		out = append(out, famToken{tok, data, spec})
	}
	return out
}

func chainCaseSx(data, root []byte) string {
	return "(case (bytes " + hx(data) + ") (root " + hx(root) + "))"
}

func runC01(c *Ctx) {
	c.Rule = "token families (1-5 blocks, sealed or not, with and without root key id) built through the library; per case one structural mutation at the protobuf level out of 24 kinds (bit flips in block / announced key / signature / proof, swaps of signatures, keys and block bytes between blocks and between tokens, reorder, duplicate and foreign block insertion, removal, truncation, re-keying with an attacker key and re-signing the suffix, proof replacement by a random secret / a seal with the wrong key / another token's proof, seal made by the legitimate holder, wrong-size keys and signatures, absent proof), verified under the right root key or a wrong one. The Lean chain walk (proved equivalent to the declarative chain condition) decides each envelope with stdlib ed25519 as oracle; the library must agree. Non-trivial = the mutation changed at least one envelope byte; distinct = distinct mutated byte strings."
	r := NewRng(c.Seed)
	n := 3000
	if c.Thorough {
		n = 40000
	}
	pub, _ := rootKeys()
	otherPub, _, _ := ed25519.GenerateKey(&detRand{NewRng(99)})
	var fam []famToken
	for i := 0; i < n; i++ {
		if i%25 == 0 {
			fam = makeFamily(r, newScenGen(r, 0), 4)
		}
		t := Pick(r, fam)
		d := Pick(r, fam)
		env := decodeEnv(t.Data)
		m := mutate(r, env, decodeEnv(d.Data))
		data := mustMarshal(m.Env)
		root := []byte(pub)
		if r.Chance(1, 12) {
			root = otherPub
			m.Name += "+wrong-root"
		}
		sx := chainCaseSx(data, root)
		res := execCase("CHAIN", sx)
		id := c.NewID("chain")
		c.Case("CHAIN", id, sx, res)
		c.Count("mut:" + m.Name + ":" + strings.SplitN(res, " ", 3)[0])
		if !bytes.Equal(data, t.Data) {
			c.NonTrivial(hx(data))
		}
		if strings.HasPrefix(res, "panic") {
			c.Violate("C01/panic:"+m.Name, "verification panicked on a mutated token: "+res, map[string]interface{}{"verb": "CHAIN", "case": sx, "go": res})
		}
		if i < 2 {
			c.Sample(map[string]string{"mutation": m.Name, "case": trunc(sx, 800), "go": trunc(res, 200)})
		}
	}
	// third sentence, sibling shape: two tokens attenuated from the same parent (of depth
	// 0..8) must both verify, and so must the parent afterwards
	for depth := 0; depth <= 8; depth++ {
		g := newScenGen(r, 0)
		spec := TokenSpec{}
		for j := 0; j <= depth; j++ {
			spec.Blocks = append(spec.Blocks, g.block(1+r.Intn(2), 0, 0))
		}
		for _, viaWire := range []bool{false, true} {
			parent, err := buildTokenSpec(spec, r.Fork())
			if err != nil {
				continue
			}
			if viaWire {
				d, _ := parent.Serialize()
				if parent, err = biscuit.Unmarshal(d); err != nil {
					continue
				}
			}
			rd := &detRand{r.Fork()}
			var kids []*biscuit.Biscuit
			for k := 0; k < 3; k++ {
				bb := parent.CreateBlock()
				fillBlockBuilder(bb, g.block(1, 0, 0))
				if kid, err := parent.Append(rd, bb.Build()); err == nil {
					kids = append(kids, kid)
				}
			}
			for k, t := range append([]*biscuit.Biscuit{parent}, kids...) {
				d, err := t.Serialize()
				if err != nil {
					continue
				}
				sx := chainCaseSx(d, pub)
				res := execCase("CHAIN", sx)
				c.Case("CHAIN", c.NewID("sibling"), sx, res)
				c.Count("sibling:" + strings.SplitN(res, " ", 3)[0])
				if !strings.HasPrefix(res, "accept") {
					c.Violate("C01/built-token:sibling", fmt.Sprintf("token %d of a family of three tokens attenuated from one parent of depth %d is rejected: %s", k, depth, res), map[string]interface{}{"verb": "CHAIN", "case": sx, "go": res, "depth": depth})
				}
				if _, err := t.AuthorizerFor(biscuit.WithSingularRootPublicKey(pub)); err != nil {
					c.Violate("C01/built-token:sibling", fmt.Sprintf("in-memory token %d of a family attenuated from one parent of depth %d does not verify: %v", k, depth, err), map[string]interface{}{"depth": depth, "index": k})
				}
			}
		}
	}
	// third sentence: every library-built token verifies under the matching root key
	// and under no other
	for i := 0; i < n/10; i++ {
		if i%10 == 0 {
			fam = makeFamily(r, newScenGen(r, 0), 4)
		}
		t := Pick(r, fam)
		for _, root := range [][]byte{pub, otherPub} {
			sx := chainCaseSx(t.Data, root)
			res := execCase("CHAIN", sx)
			c.Case("CHAIN", c.NewID("built"), sx, res)
			ok := strings.HasPrefix(res, "accept")
			if ok != bytes.Equal(root, pub) {
				c.Violate("C01/built-token", "a library-built token under root "+hx(root)[:12]+": "+res, map[string]interface{}{"verb": "CHAIN", "case": sx, "go": res})
			}
			c.Count("built:" + strings.SplitN(res, " ", 3)[0])
		}
	}
}

// authorize panel: verdicts of a fixed family of authorizer contents on a token
func authorizePanel(tok *biscuit.Biscuit, g *scenGen, contents [][]AuthOp) string {
	var out []string
	pub, _ := rootKeys()
	for idx, ops := range contents {
		func() {
			defer func() {
				if r := recover(); r != nil {
					out = append(out, "panic "+panicSite(r))
				}
			}()
			// every other panel entry runs under limits that are not the defaults, so that an
			// authorizer which lost its options answers differently
			a := AuthCase{MaxFacts: []int{1000, 4, 1000, 2}[idx%4], MaxIter: []int{100, 100, 1, 100}[idx%4]}
			az, err := tok.AuthorizerFor(biscuit.WithSingularRootPublicKey(pub), biscuitOpts(a))
			if err != nil {
				out = append(out, rejectClass(err))
				return
			}
			for _, op := range ops {
				switch op.K {
				case "addfact":
					az.AddFact(biscuit.Fact{Predicate: op.Fact.ToBiscuit()})
				case "addrule":
					az.AddRule(op.Rule.ToBiscuit())
				case "addcheck":
					az.AddCheck(op.Check.ToBiscuit())
				case "addpolicy":
					az.AddPolicy(op.Policy.ToBiscuit())
				}
			}
			out = append(out, authErrClass(az.Authorize()))
		}()
	}
	return strings.Join(out, " ")
}

func runC09(c *Ctx) {
	c.Rule = "sealed / unsealed twins: a token (1-5 blocks) and the token obtained by Seal are compared on signature verification, a panel of 4 generated authorizer contents, revocation ids, refusal of Append and Seal, before and after Serialize/Unmarshal; the sealed envelope goes through the CHAIN mutation stream restricted to the seal (final signature flipped / lengthened / doubled / shortened, last block, last announced key, dropped last block, seal turned back into a secret, last block replaced and resealed with a foreign key) and must be rejected exactly when the model rejects. Non-trivial = the panel contains at least one non-failing verdict or the case is a mutated sealed envelope; distinct = distinct token bytes / mutated bytes."
	r := NewRng(c.Seed)
	n := 600
	if c.Thorough {
		n = 8000
	}
	pub, _ := rootKeys()
	for i := 0; i < n; i++ {
		g := newScenGen(r, r.Intn(2))
		spec := TokenSpec{RootKeyID: Pick(r, []*uint32{nil, nil, u32p(0), u32p(3), u32p(1<<32 - 1)})}
		if r.Chance(1, 5) {
			spec.Base = []string{"shared-a", "shared-b"} // a caller-supplied base table: the sealed *Biscuit must keep resolving through it
		}
		for j, nb := 0, 1+r.Intn(4); j < nb; j++ {
			spec.Blocks = append(spec.Blocks, g.block(r.Intn(4), r.Intn(2), r.Intn(2)))
		}
		tok, err := buildTokenSpec(spec, r.Fork())
		if err != nil {
			continue
		}
		rd := &detRand{r.Fork()}
		sealed, err := tok.Seal(rd)
		if err != nil {
			c.Violate("C09/seal-failed", "Seal on a fresh unsealed token failed: "+err.Error(), map[string]interface{}{"blocks": blocksExpectSx(spec.Blocks)})
			continue
		}
		var contents [][]AuthOp
		for k := 0; k < 4; k++ {
			contents = append(contents, g.authContent())
		}
		data, _ := tok.Serialize()
		sdata, _ := sealed.Serialize()
		reloaded, err := unmarshalWith(spec.Base, sdata)
		if err != nil {
			c.Violate("C09/sealed-unmarshal", "a sealed token does not unmarshal: "+err.Error(), map[string]interface{}{"bytes": hx(sdata)})
			continue
		}
		pu := authorizePanel(tok, g, contents)
		variants := map[string]*biscuit.Biscuit{"sealed": sealed, "sealed-reloaded": reloaded}
		for name, v := range variants {
			c.Eval()
			ps := authorizePanel(v, g, contents)
			if ps != pu {
				c.Violate("C09/authorize-differs:"+name, "sealed token authorizes differently: unsealed="+pu+" "+name+"="+ps, map[string]interface{}{"blocks": blocksExpectSx(spec.Blocks), "unsealed": hx(data), "sealed": hx(sdata)})
			}
			if hexList(v.RevocationIds()) != hexList(tok.RevocationIds()) {
				c.Violate("C09/revids-differ:"+name, "sealing changed the revocation identifiers", map[string]interface{}{"unsealed": hx(data), "sealed": hx(sdata)})
			}
			if _, err := v.Append(rd, v.CreateBlock().Build()); err == nil {
				c.Violate("C09/append-on-sealed:"+name, "Append succeeded on a sealed token", map[string]interface{}{"sealed": hx(sdata)})
			}
			if _, err := v.Seal(rd); err == nil {
				c.Violate("C09/seal-on-sealed:"+name, "Seal succeeded on a sealed token", map[string]interface{}{"sealed": hx(sdata)})
			}
			a, b := v.RootKeyID(), tok.RootKeyID()
			if (a == nil) != (b == nil) || (a != nil && *a != *b) {
				c.Violate("C09/rootkeyid-differs:"+name, "sealing changed the root key id", map[string]interface{}{"sealed": hx(sdata)})
			}
		}
		if strings.Contains(pu, "ok") || strings.Contains(pu, "denied") || strings.Contains(pu, "nomatch") {
			c.NonTrivial(hx(sdata))
		}
		c.Count("panel:" + verdictClass(strings.SplitN(pu, " ", 2)[0]))
		if len(spec.Base) > 0 {
			c.Count("with-base-table")
			continue // the CHAIN protocol carries no base table: envelope-level cases use default-table tokens
		}
		// verification twins through the model
		for _, d := range [][]byte{data, sdata} {
			sx := chainCaseSx(d, pub)
			res := execCase("CHAIN", sx)
			c.Case("CHAIN", c.NewID("twin"), sx, res)
			if !strings.HasPrefix(res, "accept") {
				c.Violate("C09/twin-rejected", "a library-built (sealed) token is rejected: "+res, map[string]interface{}{"verb": "CHAIN", "case": sx, "go": res})
			}
		}
		// seal-focused mutations
		env := decodeEnv(sdata)
		for k := 0; k < 5; k++ {
			e := cloneEnv(env)
			sbs := allSigned(e)
			last := sbs[len(sbs)-1]
			name := ""
			switch r.Intn(10) {
			case 8:
				// the genuine seal with bytes after it: its first 64 bytes are a valid signature
				fs := append([]byte{}, e.Proof.GetFinalSignature()...)
				e.Proof = &pb.Proof{Content: &pb.Proof_FinalSignature{FinalSignature: append(fs, r.Bytes(1+r.Intn(3))...)}}
				name = "final-signature-lengthened"
			case 9:
				fs := e.Proof.GetFinalSignature()
				if r.Chance(1, 2) {
					e.Proof = &pb.Proof{Content: &pb.Proof_FinalSignature{FinalSignature: append(append([]byte{}, fs...), fs...)}}
					name = "final-signature-doubled"
				} else {
					e.Proof = &pb.Proof{Content: &pb.Proof_FinalSignature{FinalSignature: append([]byte{}, fs[:len(fs)-1]...)}}
					name = "final-signature-shortened"
				}
			case 7:
				// coordinated replacement by a holder without the chain's keys: a new last
				// block announcing the attacker's key, an arbitrary block signature, and a
				// seal recomputed with the attacker's key over exactly what the verifier hashes
				apub, ap, _ := ed25519.GenerateKey(rd)
				last.Block = mustMarshal(&pb.Block{Version: proto.Uint32(3)})
				last.NextKey.Key = apub
				last.Signature = r.Bytes(64)
				payload := append(blockPayloadBytes(last.Block, 0, last.NextKey.Key), last.Signature...)
				e.Proof = &pb.Proof{Content: &pb.Proof_FinalSignature{FinalSignature: ed25519.Sign(ap, payload)}}
				name = "replace-last-block-and-reseal"
			case 0:
				e.Proof = &pb.Proof{Content: &pb.Proof_FinalSignature{FinalSignature: flipBit(e.Proof.GetFinalSignature(), r)}}
				name = "flip-final-signature"
			case 1:
				last.Block = flipBit(last.Block, r)
				name = "flip-last-block"
			case 2:
				last.NextKey.Key = flipBit(last.NextKey.Key, r)
				name = "flip-last-nextkey"
			case 3:
				last.Signature = flipBit(last.Signature, r)
				name = "flip-last-signature"
			case 4:
				if len(e.Blocks) > 0 {
					e.Blocks = e.Blocks[:len(e.Blocks)-1]
				}
				name = "drop-last-keep-seal"
			case 5:
				e.Proof = &pb.Proof{Content: &pb.Proof_NextSecret{NextSecret: r.Bytes(32)}}
				name = "seal-to-random-secret"
			default:
				_, ap, _ := ed25519.GenerateKey(rd)
				payload := append(blockPayloadBytes(last.Block, 0, last.NextKey.Key), last.Signature...)
				e.Proof = &pb.Proof{Content: &pb.Proof_FinalSignature{FinalSignature: ed25519.Sign(ap, payload)}}
				name = "seal-with-other-key"
			}
			md := mustMarshal(e)
			sx := chainCaseSx(md, pub)
			res := execCase("CHAIN", sx)
			c.Case("CHAIN", c.NewID("sealmut"), sx, res)
			c.Count("sealmut:" + name + ":" + strings.SplitN(res, " ", 3)[0])
			c.NonTrivial(hx(md))
			if strings.HasPrefix(res, "accept") && !(name == "drop-last-keep-seal" && len(env.Blocks) == 0) {
				c.Violate("C09/tampered-seal-accepted:"+name, "a sealed token with "+name+" is accepted", map[string]interface{}{"verb": "CHAIN", "case": sx, "go": res})
			}
		}
		if i < 2 {
			c.Sample(map[string]string{"unsealed": trunc(hx(data), 300), "sealed": trunc(hx(sdata), 300), "panel": pu})
		}
	}
}

func runC16(c *Ctx) {
	c.Rule = "(derivation) tokens created with root key id in {absent, 0, 1, 7, 2^31, 2^32-1} are attenuated, sealed and reloaded along random derivation histories (up to 8 steps); RootKeyID() is read after every derivation and must equal the creation id. (lookup) AuthorizerFor(WithRootPublicKeys(map, default)) with generated maps: the right key under the token's id, the right key only under a wrong id, only as default while the token carries an unknown id, empty keys, no default, no default with an entry under identifier 0; the model's selectKey + chain walk decides; errors.Is(err, ErrNoPublicKeyAvailable) must hold exactly when the model says nokey. (reuse) four key sources each used for a sequence of 40 (400) tokens with and without identifiers; within the process one key source value serves every case with the same map and default. Non-trivial = the token carries an id and the map has at least two entries, or the history has at least two derivations; distinct = distinct (token bytes, map, default)."
	r := NewRng(c.Seed)
	n := 1200
	if c.Thorough {
		n = 15000
	}
	pub, _ := rootKeys()
	other1, _, _ := ed25519.GenerateKey(&detRand{NewRng(5)})
	other2, _, _ := ed25519.GenerateKey(&detRand{NewRng(6)})
	idPool := []*uint32{nil, u32p(0), u32p(1), u32p(7), u32p(1 << 31), u32p(1<<32 - 1)}
	var tokPool [][]byte
	defer func() {
		// (reuse) a few key sources, each used for a long sequence of tokens with and without
		// identifiers: a lookup must not depend on the lookups made before it
		sources := []string{
			"(keys (7 " + hx(other1) + ") (0 " + hx(pub) + ")) (default " + hx(pub) + ")",
			"(keys (7 " + hx(pub) + ") (1 " + hx(other1) + ")) (default " + hx(other2) + ")",
			"(keys (0 " + hx(other1) + ") (4294967295 " + hx(pub) + ")) (default " + hx(pub) + ")",
			"(keys (2147483648 " + hx(other2) + ")) (default none)",
		}
		steps := 40
		if c.Thorough {
			steps = 400
		}
		for _, srcSx := range sources {
			for k := 0; k < steps && len(tokPool) > 0; k++ {
				sx := "(case (bytes " + hx(Pick(r, tokPool)) + ") " + srcSx + ")"
				res := execCase("CHAIN", sx)
				c.Case("CHAIN", c.NewID("keyreuse"), sx, res)
				c.NonTrivial(sx)
				c.Count("reuse:" + strings.SplitN(res, " rootkeyid", 2)[0])
			}
		}
	}()
	for i := 0; i < n; i++ {
		g := newScenGen(r, 0)
		want := Pick(r, idPool)
		spec := TokenSpec{RootKeyID: want, Blocks: []Block{g.block(r.Intn(3), 0, r.Intn(2))}}
		tok, err := buildTokenSpec(spec, r.Fork())
		if err != nil {
			continue
		}
		rd := &detRand{r.Fork()}
		steps := r.Intn(8)
		hist := []string{"build"}
		for s := 0; s < steps; s++ {
			var next *biscuit.Biscuit
			switch r.Intn(4) {
			case 0, 1:
				bb := tok.CreateBlock()
				fillBlockBuilder(bb, g.block(r.Intn(3), 0, r.Intn(2)))
				next, err = tok.Append(rd, bb.Build())
				hist = append(hist, "append")
			case 2:
				next, err = tok.Seal(rd)
				hist = append(hist, "seal")
			default:
				d, e2 := tok.Serialize()
				if e2 != nil {
					err = e2
					break
				}
				next, err = biscuit.Unmarshal(d)
				hist = append(hist, "reload")
			}
			if err != nil {
				hist[len(hist)-1] += "(refused)"
				err = nil
				continue
			}
			tok = next
			c.Eval()
			got := tok.RootKeyID()
			if (got == nil) != (want == nil) || (got != nil && *got != *want) {
				c.Violate("C16/id-lost:"+hist[len(hist)-1], fmt.Sprintf("root key id %s is reported as %s after %v", fmtID(want), fmtID(got), hist), map[string]interface{}{"history": hist, "created_with": fmtID(want), "reported": fmtID(got)})
				break
			}
		}
		if steps >= 2 {
			c.NonTrivial(strings.Join(hist, ",") + fmtID(want))
		}
		c.Count(fmt.Sprintf("derive-steps:%d", steps))
		// lookup
		data, err := tok.Serialize()
		if err != nil {
			continue
		}
		var keyEntries []string
		addKey := func(id uint32, k []byte) { keyEntries = append(keyEntries, fmt.Sprintf("(%d %s)", id, hx(k))) }
		scenario := r.Intn(9)
		dflt := "none"
		tokID := uint32(99)
		if want != nil {
			tokID = *want
		}
		switch scenario {
		case 0: // right key under the token's id (or as default when absent)
			addKey(tokID, pub)
			addKey(tokID+1, other1)
			if want == nil {
				dflt = hx(pub)
			} else {
				dflt = hx(other2)
			}
		case 1: // right key only under a wrong id; default is wrong
			addKey(tokID+1, pub)
			dflt = hx(other1)
		case 2: // right key only as default
			addKey(tokID+1, other1)
			dflt = hx(pub)
		case 3: // no default, unknown id
			addKey(tokID+2, pub)
		case 4: // empty key under the id
			addKey(tokID, []byte{})
			dflt = hx(pub)
		case 5: // wrong key under the id, right key as default
			addKey(tokID, other1)
			dflt = hx(pub)
		case 7: // no default; the right key sits under identifier 0 (an absent identifier is not 0)
			addKey(0, pub)
			addKey(1, other1)
		case 8: // no default; a wrong key under 0, the right one under 7
			addKey(0, other1)
			addKey(7, pub)
		default: // empty map, default right
			dflt = hx(pub)
		}
		if len(tokPool) < 60 {
			tokPool = append(tokPool, data)
		}
		sx := "(case (bytes " + hx(data) + ") " + sxList("keys", keyEntries) + " (default " + dflt + "))"
		res := execCase("CHAIN", sx)
		c.Case("CHAIN", c.NewID("keysel"), sx, res)
		c.Count(fmt.Sprintf("lookup:%d:%s:%s", scenario, map[bool]string{true: "id", false: "noid"}[want != nil], strings.SplitN(res, " rootkeyid", 2)[0]))
		if want != nil && len(keyEntries) >= 2 || scenario != 6 {
			c.NonTrivial(sx)
		}
		if i < 2 {
			c.Sample(map[string]string{"case": trunc(sx, 600), "go": trunc(res, 120)})
		}
	}
}

var c17Decoder = &biscuit.Unmarshaler{Symbols: &datalog.SymbolTable{}}

func runC17(c *Ctx) {
	c.Rule = "derivation histories over token families (build, append with identical or different content on the same and on sibling tokens, seal, reload): RevocationIds() is read for every live token after every operation; a derived token's ids must start with its parent's ids, grow by exactly one per append and not at all for seal / reload; the Lean wire decoder (independent of protobuf-go) must find the same signatures on the blocks of Serialize(); every signing event (build or append) of the whole run must have its own identifier: two blocks carry the same identifier only if they are the same signing event. Non-trivial = a history with at least one append of content identical to an earlier block; distinct = distinct token bytes."
	r := NewRng(c.Seed)
	n := 500
	if c.Thorough {
		n = 6000
	}
	pub, _ := rootKeys()
	idEvent := map[string]int{} // identifier -> signing event
	nextEvent := 0
	type live struct {
		tok *biscuit.Biscuit
		ids [][]byte
		ev  []int
		raw []byte // what Serialize() handed out when the token was made (the slice itself)
		hex string // and what it contained then
	}
	withRaw := func(l live) live {
		if d, err := l.tok.Serialize(); err == nil {
			l.raw, l.hex = d, hx(d)
		}
		return l
	}
	for i := 0; i < n; i++ {
		g := newScenGen(r, 0)
		same := g.block(r.Intn(3), 0, 0)
		// half of the histories draw their randomness from a source that delivers it a few
		// bytes per Read (fresh randomness all the same)
		short := r.Chance(1, 2)
		spec := TokenSpec{Blocks: []Block{same}, Short: short, ViaNew: r.Chance(1, 3)}
		t0, err := buildTokenSpec(spec, r.Fork())
		if err != nil {
			continue
		}
		var rd io.Reader = &detRand{r.Fork()}
		if short {
			rd = &shortRand{r.Fork()}
			c.Count("short-read-source")
		}
		nextEvent++
		fam := []live{withRaw(live{tok: t0, ids: t0.RevocationIds(), ev: []int{nextEvent}})}
		identical := false
		// further tokens issued with the very same authority content: separate signing events
		for k, m := 0, r.Intn(4); k < m; k++ {
			if tk, err := buildTokenSpec(spec, r.Fork()); err == nil {
				nextEvent++
				fam = append(fam, withRaw(live{tok: tk, ids: tk.RevocationIds(), ev: []int{nextEvent}}))
				identical = true
				c.Eval()
			}
		}
		steps := 2 + r.Intn(11)
		forkAgain := -1
		for s := 0; s < steps; s++ {
			// grow chains (the newest token is the usual parent) and fork: a second derivation
			// from the parent that was just extended, at every depth
			pi := len(fam) - 1
			if forkAgain >= 0 {
				pi, forkAgain = forkAgain, -1
			} else if r.Chance(1, 3) {
				pi = r.Intn(len(fam))
			}
			p := fam[pi]
			var child *biscuit.Biscuit
			op := ""
			kind := r.Intn(5)
			if kind <= 2 && r.Chance(1, 2) {
				forkAgain = pi
			}
			switch kind {
			case 0, 1, 2:
				bb := p.tok.CreateBlock()
				if r.Chance(2, 3) {
					fillBlockBuilder(bb, same) // identical content again
					identical = true
				} else {
					fillBlockBuilder(bb, g.block(r.Intn(3), 0, 0))
				}
				child, err = p.tok.Append(rd, bb.Build())
				op = "append"
			case 3:
				child, err = p.tok.Seal(rd)
				op = "seal"
			default:
				d, e2 := p.tok.Serialize()
				if e2 == nil {
					// half of the reloads go through one decoder value used for the whole run
					if r.Chance(1, 2) {
						child, err = c17Decoder.Unmarshal(d)
					} else {
						child, err = biscuit.Unmarshal(d)
					}
				} else {
					err = e2
				}
				op = "reload"
			}
			if err != nil {
				err = nil
				continue
			}
			c.Eval()
			ids := child.RevocationIds()
			ev := append([]int{}, p.ev...)
			if op == "append" {
				nextEvent++
				ev = append(ev, nextEvent)
			}
			okPrefix := len(ids) == len(ev)
			for k := range p.ids {
				if k >= len(ids) || !bytes.Equal(ids[k], p.ids[k]) {
					okPrefix = false
				}
			}
			if !okPrefix {
				c.Violate("C17/prefix:"+op, fmt.Sprintf("revocation ids of a token derived by %s do not extend its parent's (%d -> %d ids)", op, len(p.ids), len(ids)), map[string]interface{}{"op": op, "parent_ids": hexList(p.ids), "child_ids": hexList(ids)})
				continue
			}
			if len(ids) != child.BlockCount()+1 {
				c.Violate("C17/count", "number of revocation ids differs from number of blocks", map[string]interface{}{"ids": len(ids), "blocks": child.BlockCount() + 1})
			}
			if hexList(p.tok.RevocationIds()) != hexList(p.ids) {
				c.Violate("C17/parent-changed", "a derivation changed the parent's revocation ids", map[string]interface{}{"op": op})
			}
			fam = append(fam, withRaw(live{tok: child, ids: ids, ev: ev}))
			// stability: what every live token reports must be what it reported when it was made
			for li, l := range fam {
				if now := l.tok.RevocationIds(); hexList(now) != hexList(l.ids) {
					c.Violate("C17/ids-changed", fmt.Sprintf("operation %s on another token changed the revocation ids reported by live token %d", op, li),
						map[string]interface{}{"op": op, "before": hexList(l.ids), "after": hexList(now)})
					fam[li].ids = now
				}
				// bytes handed out earlier belong to the caller: later calls must not rewrite them
				if l.raw != nil && hx(l.raw) != l.hex {
					c.Violate("C17/serialized-bytes-changed", fmt.Sprintf("bytes returned by an earlier Serialize() of live token %d were overwritten by operation %s on another token", li, op),
						map[string]interface{}{"op": op, "before": trunc(l.hex, 400), "after": trunc(hx(l.raw), 400)})
					fam[li].hex = hx(l.raw)
				}
			}
		}
		for _, l := range fam {
			for k, id := range l.ids {
				if k >= len(l.ev) {
					break // ids replaced after a C17/ids-changed report: no signing event to attribute them to
				}
				key := hx(id)
				if e, ok := idEvent[key]; ok && e != l.ev[k] {
					c.Violate("C17/duplicate-id", "two different signing events produced the same revocation identifier", map[string]interface{}{"id": key, "event_a": e, "event_b": l.ev[k]})
				}
				idEvent[key] = l.ev[k]
			}
		}
		last := fam[len(fam)-1]
		data, err := last.tok.Serialize()
		if err == nil {
			sx := chainCaseSx(data, pub)
			res := execCase("CHAIN", sx)
			c.Case("CHAIN", c.NewID("revids"), sx, res)
			if identical {
				c.NonTrivial(hx(data))
			}
			if i < 2 {
				c.Sample(map[string]string{"case": trunc(sx, 400), "go": trunc(res, 300)})
			}
		}
		c.Count(fmt.Sprintf("family-size:%d", len(fam)))
	}
	c.Extra["signing_events"] = nextEvent
	c.Extra["distinct_ids_issued"] = len(idEvent)
	if len(idEvent) != nextEvent {
		c.Violate("C17/id-count", fmt.Sprintf("%d signing events produced %d distinct identifiers", nextEvent, len(idEvent)), map[string]interface{}{"events": nextEvent, "ids": len(idEvent)})
	}
}
