package main

// forge — assemble tokens at the protobuf level, signed with the standard library's
// ed25519 (the holder of a token controls its bytes; the attacker of C10 chooses the
// root key). Used for adversarial field values, version-gate cases and mutations.

import (
	"crypto/ed25519"
	"encoding/binary"

	"github.com/biscuit-auth/biscuit-go/v2/pb"
	"google.golang.org/protobuf/proto"
)

type chainKeys struct {
	Privs []ed25519.PrivateKey // Privs[i] signs block i; Privs[0] is the root key
	Next  ed25519.PrivateKey   // the key announced by the last block
}

func blockPayloadBytes(block []byte, alg uint32, nextKey []byte) []byte {
	out := append([]byte{}, block...)
	a := make([]byte, 4)
	binary.LittleEndian.PutUint32(a, alg)
	out = append(out, a...)
	return append(out, nextKey...)
}

// forgeEnvelope signs the given block byte strings into a chain under rootPriv.
func forgeEnvelope(rootPriv ed25519.PrivateKey, blocks [][]byte, rng *Rng, rootKeyID *uint32, seal bool) (*pb.Biscuit, chainKeys) {
	rd := &detRand{rng}
	keys := chainKeys{}
	cur := rootPriv
	alg := pb.PublicKey_Ed25519
	var signed []*pb.SignedBlock
	for _, blk := range blocks {
		npub, npriv, _ := ed25519.GenerateKey(rd)
		keys.Privs = append(keys.Privs, cur)
		sig := ed25519.Sign(cur, blockPayloadBytes(blk, 0, npub))
		a := alg
		signed = append(signed, &pb.SignedBlock{Block: blk, NextKey: &pb.PublicKey{Algorithm: &a, Key: npub}, Signature: sig})
		cur = npriv
	}
	keys.Next = cur
	env := &pb.Biscuit{RootKeyId: rootKeyID, Authority: signed[0], Blocks: signed[1:]}
	if seal {
		last := signed[len(signed)-1]
		payload := append(blockPayloadBytes(last.Block, 0, last.NextKey.Key), last.Signature...)
		env.Proof = &pb.Proof{Content: &pb.Proof_FinalSignature{FinalSignature: ed25519.Sign(cur, payload)}}
	} else {
		env.Proof = &pb.Proof{Content: &pb.Proof_NextSecret{NextSecret: cur.Seed()}}
	}
	return env, keys
}

func mustMarshal(m proto.Message) []byte {
	b, err := proto.MarshalOptions{AllowPartial: true}.Marshal(m)
	if err != nil {
		panic(err)
	}
	return b
}

func simpleBlock(version *uint32, symbols []string, facts []*pb.FactV2) []byte {
	ctx := ""
	return mustMarshal(&pb.Block{Symbols: symbols, Context: &ctx, Version: version, FactsV2: facts})
}

func pbFact(name uint64, terms ...*pb.TermV2) *pb.FactV2 {
	n := name
	return &pb.FactV2{Predicate: &pb.PredicateV2{Name: &n, Terms: terms}}
}

func pbInt(i int64) *pb.TermV2    { return &pb.TermV2{Content: &pb.TermV2_Integer{Integer: i}} }
func pbStr(i uint64) *pb.TermV2   { return &pb.TermV2{Content: &pb.TermV2_String_{String_: i}} }
func pbVar(i uint32) *pb.TermV2   { return &pb.TermV2{Content: &pb.TermV2_Variable{Variable: i}} }
func pbBytes(b []byte) *pb.TermV2 { return &pb.TermV2{Content: &pb.TermV2_Bytes{Bytes: b}} }
func pbSet(el ...*pb.TermV2) *pb.TermV2 {
	return &pb.TermV2{Content: &pb.TermV2_Set{Set: &pb.TermSet{Set: el}}}
}

// forgeVersionToken: a two-block token whose block at `pos` declares `version`.
func forgeVersionToken(version uint32, pos int) []byte {
	_, priv := rootKeys()
	three := uint32(3)
	vs := []*uint32{&three, &three}
	v := version
	vs[pos] = &v
	b0 := simpleBlock(vs[0], []string{"a"}, []*pb.FactV2{pbFact(1024, pbInt(1))})
	b1 := simpleBlock(vs[1], []string{"b"}, []*pb.FactV2{pbFact(1025, pbInt(2))})
	env, _ := forgeEnvelope(priv, [][]byte{b0, b1}, NewRng(uint64(version)+uint64(pos)*7+1), nil, false)
	return mustMarshal(env)
}
