package main

// C14 — the Datalog parser denotes the documented grammar and never panics.
// PARSE verb: parser.FromString*WithParams against Model/Grammar, on texts rendered from
// random abstract syntax with random layout; plus labelled error / deviation streams,
// token-level corruptions, raw strings, and "first use" of every parsed element.

import (
	"fmt"
	"hash/fnv"
	"runtime"
	"strconv"
	"strings"
	"time"

	"github.com/biscuit-auth/biscuit-go/v2"
	"github.com/biscuit-auth/biscuit-go/v2/datalog"
	"github.com/biscuit-auth/biscuit-go/v2/parser"
)

func init() {
	verbs["C14"] = runC14
	execs["PARSE"] = execParse
}

// ---------- expression trees and rendering ----------

type ETree struct {
	K    string // term paren neg bin method length
	T    Term
	Op   string
	L, R *ETree
}

func (e *ETree) Postfix() Expr {
	switch e.K {
	case "term":
		return Expr{{K: 'v', T: e.T}}
	case "paren":
		return append(e.L.Postfix(), Op{K: 'u', U: "par"})
	case "neg":
		return append(e.L.Postfix(), Op{K: 'u', U: "neg"})
	case "length":
		return append(e.L.Postfix(), Op{K: 'u', U: "len"})
	}
	out := append(Expr{}, e.L.Postfix()...)
	out = append(out, e.R.Postfix()...)
	return append(out, Op{K: 'b', B: e.Op})
}

var opText = map[string]string{"lt": "<", "le": "<=", "gt": ">", "ge": ">=", "eq": "==", "add": "+", "sub": "-", "mul": "*", "div": "/", "and": "&&", "or": "||",
	"contains": "contains", "prefix": "starts_with", "suffix": "ends_with", "regex": "matches", "intersection": "intersection", "union": "union"}

type textGen struct {
	r      *Rng
	params map[string]Term
	wild   bool // random layout
	nodes  int  // nodes of the expression under construction: beyond exprBudget only plain terms
}

const exprBudget = 40

func (g *textGen) termText(t Term) []string {
	switch t.K {
	case 'v':
		return []string{"$" + t.N}
	case 'i':
		// base 10 whatever the number of leading zeros (fix "integer literals are base 10")
		if t.I < 0 {
			// a sign and digits: one literal wherever a term starts, written with or without a
			// gap after the sign (fix "negative integer literals")
			digits := strconv.FormatUint(uint64(-(t.I+1))+1, 10)
			if g.r != nil && g.wild && g.r.Chance(1, 6) {
				digits = Pick(g.r, []string{"0", "00"}) + digits
			}
			if g.r != nil && g.r.Chance(1, 2) {
				return []string{"-", digits}
			}
			return []string{"-" + digits}
		}
		if g.r != nil && g.wild && g.r.Chance(1, 6) {
			return []string{Pick(g.r, []string{"0", "00", "000"}) + fmt.Sprint(t.I)}
		}
		return []string{fmt.Sprint(t.I)}
	case 's':
		return []string{"\"" + t.N + "\""}
	case 'd':
		// the same instant written in the ways RFC 3339 allows: fractional seconds (cut off,
		// never rounded) and numeric zone offsets
		if g.r != nil && g.wild && g.r.Chance(1, 3) {
			frac := Pick(g.r, []string{"", ".5", ".999999", ".25", ".0"})
			off := Pick(g.r, []int{0, 0, 2 * 3600, -(7*3600 + 30*60), 14 * 3600})
			tt := time.Unix(int64(t.D), 0).In(time.FixedZone("", off))
			zone := "Z"
			if off != 0 || g.r.Chance(1, 4) {
				sign, a := "+", off
				if a < 0 {
					sign, a = "-", -a
				}
				zone = fmt.Sprintf("%s%02d:%02d", sign, a/3600, a%3600/60)
			}
			if tt.Year() >= 1 && tt.Year() <= 9999 {
				return []string{tt.Format("2006-01-02T15:04:05") + frac + zone}
			}
		}
		return []string{time.Unix(int64(t.D), 0).UTC().Format(time.RFC3339)}
	case 'b':
		return []string{"hex:" + fmt.Sprintf("%x", t.B)}
	case 'o':
		return []string{fmt.Sprint(t.O)}
	case 'S':
		out := []string{"["}
		for i, e := range t.Set {
			if i > 0 {
				out = append(out, ",")
			}
			out = append(out, g.termText(e)...)
		}
		return append(out, "]")
	case 'P':
		return []string{"{" + t.N + "}"}
	}
	return []string{"?"}
}

func (g *textGen) exprText(e *ETree) []string {
	switch e.K {
	case "term":
		return g.termText(e.T)
	case "paren":
		return append(append([]string{"("}, g.exprText(e.L)...), ")")
	case "neg":
		return append([]string{"!"}, g.exprText(e.L)...)
	case "length":
		return append(g.exprText(e.L), ".", "length", "(", ")")
	case "method":
		out := append(g.exprText(e.L), ".", opText[e.Op], "(")
		out = append(out, g.exprText(e.R)...)
		return append(out, ")")
	}
	out := append(g.exprText(e.L), opText[e.Op])
	return append(out, g.exprText(e.R)...)
}

// join renders a token list with layout: at least one blank between tokens unless one of
// them is punctuation that cannot fuse.
func (g *textGen) join(toks []string) string {
	var sb strings.Builder
	tight := func(s string) bool {
		return s == "(" || s == ")" || s == "," || s == "[" || s == "]" || s == ";" || s == "."
	}
	for i, t := range toks {
		if i > 0 {
			need := !(tight(t) || tight(toks[i-1]))
			if toks[i-1] == "!" {
				need = false
			}
			// "/" "/" would start a comment; "<" "-" would make an arrow
			if need || (g.wild && g.r.Chance(1, 3)) || (toks[i-1] == "/" && strings.HasPrefix(t, "/")) {
				n := 1
				if g.wild {
					n = 1 + g.r.Intn(3)
				}
				for k := 0; k < n; k++ {
					if g.wild {
						sb.WriteString(Pick(g.r, []string{" ", " ", " ", "\t", "\n", "\r\n"}))
					} else {
						sb.WriteString(" ")
					}
				}
			}
		}
		sb.WriteString(t)
	}
	return sb.String()
}

// substitution of parameters in the expected content
func (g *textGen) subst(t Term) Term {
	switch t.K {
	case 'P':
		return g.params[t.N]
	case 'S':
		out := SetOf()
		for _, e := range t.Set {
			out.Set = append(out.Set, g.subst(e))
		}
		return out
	}
	return t
}

func (g *textGen) substExpr(e Expr) Expr {
	out := make(Expr, len(e))
	for i, o := range e {
		if o.K == 'v' {
			o.T = g.subst(o.T)
		}
		out[i] = o
	}
	return out
}

var pPredNames = []string{"resource", "operation", "right", "user", "owner", "p", "q", "time", "ns:pred", "a1_b", "query",
	"union", "intersection", "starts_with", "ends_with"} // method names are ordinary identifiers in predicate position
var pVarNames = append([]string{"x", "y", "0", "var_1", "a:b", "Z9"}, defaultSymbolEdges()...)

// defaultSymbolEdges: the first, the last and a middle entry of the library's default symbol
// table, read through the library: names at the edges of the table are where index
// arithmetic in the printers goes wrong.
func defaultSymbolEdges() []string {
	t := &datalog.SymbolTable{}
	var all []string
	for i := 0; i < 1024; i++ {
		s := t.Str(datalog.String(i))
		if strings.HasPrefix(s, "<invalid") {
			break
		}
		all = append(all, s)
	}
	if len(all) == 0 {
		return nil
	}
	return []string{all[0], all[len(all)/2], all[len(all)-1]}
}

var pStrings = []string{"", "a", "file1", "/a/file1.txt", "read", "é", "hello world", "x=1;y", "a,b", "50% off", "100%d/%s", `^abc\s+def$`, `\d+\.\d+`, `C:\`, `caf\é`, `\`}

func (g *textGen) atomTerm(allowVar bool) Term {
	r := g.r
	switch k := r.Intn(10); {
	case k == 0 && allowVar:
		return V(Pick(r, pVarNames))
	case k <= 2:
		return I(Pick(r, []int64{0, 1, 2, 7, 10, 42, 1234567890123, 9223372036854775807, -1, -5, -42, -9223372036854775808}))
	case k <= 4:
		return S(Pick(r, pStrings))
	case k == 5:
		return D(Pick(r, []uint64{0, 1, 1600000000, 951782400, 4102444800, 1709164800}))
	case k == 6:
		return B(Pick(r, [][]byte{{}, {1}, {0xab, 0xcd}, {0, 0xff, 0x10}}))
	case k == 7:
		return O(r.Bool())
	case k == 8 && len(g.params) > 0:
		names := make([]string, 0, len(g.params))
		for n := range g.params {
			names = append(names, n)
		}
		sortStrings(names)
		return Term{K: 'P', N: Pick(r, names)}
	}
	if allowVar {
		return V(Pick(r, pVarNames))
	}
	return I(int64(r.Intn(5)))
}

func (g *textGen) term(allowVar bool) Term {
	if g.r.Chance(1, 8) {
		// sets are homogeneous (the builders reject mixed sets at serialization)
		n := 1 + g.r.Intn(3)
		s := SetOf()
		var kind byte
		for tries := 0; len(s.Set) < n && tries < 40; tries++ {
			a := g.atomTerm(false)
			ak := a.K
			if a.K == 'P' {
				ak = g.params[a.N].K
			}
			if kind == 0 {
				kind = ak
			}
			if ak == kind {
				s.Set = append(s.Set, a)
			}
		}
		return s
	}
	return g.atomTerm(allowVar)
}

// genExpr builds a tree that is well-formed at precedence level lvl.
func (g *textGen) genExpr(lvl, depth int) *ETree {
	r := g.r
	g.nodes++
	if g.nodes > exprBudget {
		depth = 0 // no more chains, parentheses or method calls: straight down to a term
	}
	chain := func(ops []string, next int) *ETree {
		// the precedence ladder is walked at constant depth (the level strictly increases);
		// depth is spent only where the tree re-enters level 0: parentheses and method arguments
		n := 1
		if depth > 0 && r.Chance(1, 3) {
			n = 2 + r.Intn(2)
		}
		t := g.genExpr(next, depth)
		for i := 1; i < n; i++ {
			t = &ETree{K: "bin", Op: Pick(r, ops), L: t, R: g.genExpr(next, depth)}
		}
		return t
	}
	switch lvl {
	case 0:
		return chain([]string{"or"}, 1)
	case 1:
		return chain([]string{"and"}, 2)
	case 2:
		l := g.genExpr(3, depth)
		if depth > 0 && r.Chance(1, 2) {
			return &ETree{K: "bin", Op: Pick(r, []string{"lt", "le", "gt", "ge", "eq"}), L: l, R: g.genExpr(3, depth)}
		}
		return l
	case 3:
		return chain([]string{"add", "sub"}, 4)
	case 4:
		return chain([]string{"mul", "div"}, 5)
	case 5:
		if depth > 0 && r.Chance(1, 5) {
			return &ETree{K: "neg", L: g.genExpr(6, depth)}
		}
		return g.genExpr(6, depth)
	case 6:
		t := g.genExpr(7, depth)
		if depth > 0 {
			for i, n := 0, r.Intn(3); i < n && r.Chance(1, 2); i++ {
				if r.Chance(1, 4) {
					t = &ETree{K: "length", L: t}
				} else {
					t = &ETree{K: "method", Op: Pick(r, []string{"contains", "prefix", "suffix", "regex", "intersection", "union"}), L: t, R: g.genExpr(0, depth-1)}
				}
			}
		}
		return t
	}
	if depth > 1 && r.Chance(1, 10) {
		// stacked parentheses, and a parenthesised operation whose operands are both
		// parenthesised: its text starts with "(" and ends with ")" twice over
		if r.Chance(1, 2) {
			return &ETree{K: "paren", L: &ETree{K: "paren", L: g.genExpr(0, depth-2)}}
		}
		op := Pick(r, []string{"add", "sub", "mul", "div"})
		return &ETree{K: "paren", L: &ETree{K: "bin", Op: op,
			L: &ETree{K: "paren", L: g.genExpr(3, depth-2)}, R: &ETree{K: "paren", L: g.genExpr(3, depth-2)}}}
	}
	if depth > 0 && r.Chance(1, 4) {
		return &ETree{K: "paren", L: g.genExpr(0, depth-1)}
	}
	return &ETree{K: "term", T: g.term(true)}
}

type pElem struct {
	Pred *Pred
	Expr *ETree
}

func (g *textGen) pred(allowVar bool) Pred {
	p := Pred{Name: Pick(g.r, pPredNames)}
	for i, n := 0, g.r.Intn(4); i < n; i++ {
		p.Terms = append(p.Terms, g.term(allowVar))
	}
	return p
}

func (g *textGen) predText(p Pred) []string {
	out := []string{p.Name, "("}
	for i, t := range p.Terms {
		if i > 0 {
			out = append(out, ",")
		}
		out = append(out, g.termText(t)...)
	}
	return append(out, ")")
}

func (g *textGen) body(depth int) []pElem {
	var out []pElem
	n := 1 + g.r.Intn(3)
	for i := 0; i < n; i++ {
		if g.r.Chance(2, 3) {
			p := g.pred(true)
			out = append(out, pElem{Pred: &p})
		} else {
			g.nodes = 0
			out = append(out, pElem{Expr: g.genExpr(0, depth)})
		}
	}
	return out
}

func (g *textGen) bodyText(b []pElem) []string {
	var out []string
	for i, e := range b {
		if i > 0 {
			out = append(out, ",")
		}
		if e.Pred != nil {
			out = append(out, g.predText(*e.Pred)...)
		} else {
			out = append(out, g.exprText(e.Expr)...)
		}
	}
	return out
}

func (g *textGen) substPred(p Pred) Pred {
	q := Pred{Name: p.Name}
	for _, t := range p.Terms {
		q.Terms = append(q.Terms, g.subst(t))
	}
	return q
}

func (g *textGen) bodyContent(b []pElem, head Pred) Rule {
	r := Rule{Head: g.substPred(head)}
	for _, e := range b {
		if e.Pred != nil {
			r.Body = append(r.Body, g.substPred(*e.Pred))
		} else {
			r.Exprs = append(r.Exprs, g.substExpr(e.Expr.Postfix()))
		}
	}
	return r
}

type parsedExpect struct {
	Facts    []Pred
	Rules    []Rule
	Checks   []Check
	Policies []Policy
}

func (p parsedExpect) Sx() string {
	fs := make([]string, len(p.Facts))
	for i, f := range p.Facts {
		fs[i] = f.Sx()
	}
	rs := make([]string, len(p.Rules))
	for i, r := range p.Rules {
		rs[i] = r.Sx()
	}
	cs := make([]string, len(p.Checks))
	for i, c := range p.Checks {
		cs[i] = c.Sx()
	}
	ps := make([]string, len(p.Policies))
	for i, c := range p.Policies {
		ps[i] = c.Sx()
	}
	return "ok " + sxList("facts", fs) + " " + sxList("rules", rs) + " " + sxList("checks", cs) + " " + sxList("policies", ps)
}

// genItems renders n block / authorizer elements; returns tokens and the expected content.
func (g *textGen) genItems(n int, authorizer bool, depth int, single bool) ([]string, parsedExpect) {
	var toks []string
	var exp parsedExpect
	for i := 0; i < n; i++ {
		k := g.r.Intn(4)
		if !authorizer && k == 3 {
			k = g.r.Intn(3)
		}
		switch k {
		case 0:
			f := g.pred(false)
			toks = append(toks, g.predText(f)...)
			exp.Facts = append(exp.Facts, g.substPred(f))
		case 1:
			h := g.pred(true)
			b := g.body(depth)
			toks = append(toks, g.predText(h)...)
			toks = append(toks, "<-")
			toks = append(toks, g.bodyText(b)...)
			exp.Rules = append(exp.Rules, g.bodyContent(b, h))
		default:
			kw := "check if"
			if k == 3 {
				kw = Pick(g.r, []string{"allow if", "deny if"})
			}
			toks = append(toks, kw)
			var qs []Rule
			for q, m := 0, 1+g.r.Intn(2); q < m; q++ {
				if q > 0 {
					toks = append(toks, "or")
				}
				b := g.body(depth)
				toks = append(toks, g.bodyText(b)...)
				qs = append(qs, g.bodyContent(b, Pred{Name: "query"}))
			}
			if k == 3 {
				exp.Policies = append(exp.Policies, Policy{Allow: kw == "allow if", Queries: qs})
			} else {
				exp.Checks = append(exp.Checks, Check{Queries: qs})
			}
		}
		if !single {
			toks = append(toks, ";")
		}
	}
	return toks, exp
}

// ---------- executing a PARSE case on the library ----------

func parsedToSx(fs []biscuit.Fact, rs []biscuit.Rule, cs []biscuit.Check, ps []biscuit.Policy) string {
	var e parsedExpect
	for _, f := range fs {
		e.Facts = append(e.Facts, FromBiscuitPred(f.Predicate))
	}
	for _, r := range rs {
		e.Rules = append(e.Rules, fromBiscuitRule(r))
	}
	for _, c := range cs {
		ck := Check{}
		for _, q := range c.Queries {
			ck.Queries = append(ck.Queries, fromBiscuitRule(q))
		}
		e.Checks = append(e.Checks, ck)
	}
	for _, p := range ps {
		pol := Policy{Allow: p.Kind == biscuit.PolicyKindAllow}
		for _, q := range p.Queries {
			pol.Queries = append(pol.Queries, fromBiscuitRule(q))
		}
		e.Policies = append(e.Policies, pol)
	}
	return e.Sx()
}

var unFromBiscuit = map[biscuit.UnaryOp]string{biscuit.UnaryNegate: "neg", biscuit.UnaryParens: "par", biscuit.UnaryLength: "len"}
var binFromBiscuit = func() map[biscuit.BinaryOp]string {
	m := map[biscuit.BinaryOp]string{}
	for k, v := range binToBiscuit {
		m[v] = k
	}
	return m
}()

func fromBiscuitRule(r biscuit.Rule) Rule {
	out := Rule{Head: FromBiscuitPred(r.Head)}
	for _, p := range r.Body {
		out.Body = append(out.Body, FromBiscuitPred(p))
	}
	for _, e := range r.Expressions {
		var ne Expr
		for _, o := range e {
			switch v := o.(type) {
			case biscuit.Value:
				if v.Term == nil {
					ne = append(ne, Op{K: 'v', T: Term{K: '?'}})
				} else {
					ne = append(ne, Op{K: 'v', T: FromBiscuitTerm(v.Term)})
				}
			case biscuit.UnaryOp:
				ne = append(ne, Op{K: 'u', U: unFromBiscuit[v]})
			case biscuit.BinaryOp:
				ne = append(ne, Op{K: 'b', B: binFromBiscuit[v]})
			}
		}
		out.Exprs = append(out.Exprs, ne)
	}
	return out
}

var sharedParser = parser.New()

// firstUse adds every parsed element to a builder, a block builder and an authorizer.
func firstUse(fs []biscuit.Fact, rs []biscuit.Rule, cs []biscuit.Check, ps []biscuit.Policy) (res string) {
	defer func() {
		if r := recover(); r != nil {
			res = "first-use-panic " + panicSite(r)
		}
	}()
	_, priv := rootKeys()
	b := biscuit.NewBuilder(priv, biscuit.WithRNG(&detRand{NewRng(1)}))
	for _, f := range fs {
		b.AddAuthorityFact(f)
	}
	for _, r := range rs {
		b.AddAuthorityRule(r)
	}
	for _, c := range cs {
		b.AddAuthorityCheck(c)
	}
	tok, err := b.Build()
	if err != nil {
		return ""
	}
	bb := tok.CreateBlock()
	for _, f := range fs {
		bb.AddFact(f)
	}
	for _, r := range rs {
		bb.AddRule(r)
	}
	for _, c := range cs {
		bb.AddCheck(c)
	}
	bb.Build()
	az, err := biscuit.NewVerifier(tok)
	if err != nil {
		return ""
	}
	for _, f := range fs {
		az.AddFact(f)
	}
	for _, r := range rs {
		az.AddRule(r)
	}
	for _, c := range cs {
		az.AddCheck(c)
	}
	for _, p := range ps {
		az.AddPolicy(p)
	}
	az.SerializePolicies()
	return ""
}

func execParse(cs *Sx) (res string) {
	defer func() {
		if r := recover(); r != nil {
			res = "panic " + panicSite(r)
		}
	}()
	tf, ok := cs.field("text")
	if !ok || len(tf) != 1 {
		return "bad-case"
	}
	tb, err := unhex(tf[0].Atom)
	if err != nil {
		return "bad-case"
	}
	text := string(tb)
	kind := "block"
	if k, ok := cs.field("kind"); ok && len(k) == 1 {
		kind = k[0].Atom
	}
	params := parser.ParametersMap{}
	if pf, ok := cs.field("params"); ok {
		for _, e := range pf {
			if e.IsList && len(e.List) == 2 {
				n, _ := unhex(e.List[0].Atom)
				if e.List[1].tag() == "nil" {
					params[string(n)] = nil // the key is there, the term is not: still unbound
					continue
				}
				t, err := decTerm(e.List[1])
				if err == nil {
					params[string(n)] = t.ToBiscuit()
				}
			}
		}
	}
	p := sharedParser
	if _, fresh := cs.field("fresh"); fresh {
		p = parser.New()
	}
	// three routes to the same grammar, chosen by the text itself (so that a replay takes
	// the same one): the Parser value, the package-level FromString… functions, the Must
	// parser (whose panic on a syntax error is the documented way it reports one)
	h := fnv.New32a()
	h.Write([]byte(text))
	switch h.Sum32() % 3 {
	case 1:
		p = fromStringParser{}
	case 2:
		p = mustAdapter{p.Must()}
	}
	var fs []biscuit.Fact
	var rs []biscuit.Rule
	var cks []biscuit.Check
	var ps []biscuit.Policy
	switch kind {
	case "block":
		b, err := p.Block(text, params)
		if err != nil {
			return "error"
		}
		fs, rs, cks = b.Facts, b.Rules, b.Checks
	case "authorizer":
		a, err := p.Authorizer(text, params)
		if err != nil {
			return "error"
		}
		fs, rs, cks, ps = a.Block.Facts, a.Block.Rules, a.Block.Checks, a.Policies
	default:
		trim := strings.TrimLeft(text, " \t\r\n")
		switch {
		case strings.HasPrefix(trim, "check if"):
			c, err := p.Check(text, params)
			if err != nil {
				return "error"
			}
			cks = []biscuit.Check{c}
		case strings.HasPrefix(trim, "allow if"), strings.HasPrefix(trim, "deny if"):
			pol, err := p.Policy(text, params)
			if err != nil {
				return "error"
			}
			ps = []biscuit.Policy{pol}
		case strings.Contains(text, "<-"):
			r, err := p.Rule(text, params)
			if err != nil {
				return "error"
			}
			rs = []biscuit.Rule{r}
		default:
			f, err := p.Fact(text, params)
			if err != nil {
				return "error"
			}
			fs = []biscuit.Fact{f}
		}
	}
	out := parsedToSx(fs, rs, cks, ps)
	if fu := firstUse(fs, rs, cks, ps); fu != "" {
		return fu
	}
	return out
}

// fromStringParser: the package-level entry points (with and without parameters).
type fromStringParser struct{}

func (fromStringParser) Fact(s string, ps parser.ParametersMap) (biscuit.Fact, error) {
	if len(ps) == 0 {
		return parser.FromStringFact(s)
	}
	return parser.FromStringFactWithParams(s, ps)
}
func (fromStringParser) Rule(s string, ps parser.ParametersMap) (biscuit.Rule, error) {
	if len(ps) == 0 {
		return parser.FromStringRule(s)
	}
	return parser.FromStringRuleWithParams(s, ps)
}
func (fromStringParser) Check(s string, ps parser.ParametersMap) (biscuit.Check, error) {
	if len(ps) == 0 {
		return parser.FromStringCheck(s)
	}
	return parser.FromStringCheckWithParams(s, ps)
}
func (fromStringParser) Policy(s string, ps parser.ParametersMap) (biscuit.Policy, error) {
	if len(ps) == 0 {
		return parser.FromStringPolicy(s)
	}
	return parser.FromStringPolicyWithParams(s, ps)
}
func (fromStringParser) Block(s string, ps parser.ParametersMap) (biscuit.ParsedBlock, error) {
	if len(ps) == 0 {
		return parser.FromStringBlock(s)
	}
	return parser.FromStringBlockWithParams(s, ps)
}
func (fromStringParser) Authorizer(s string, ps parser.ParametersMap) (biscuit.ParsedAuthorizer, error) {
	if len(ps) == 0 {
		return parser.FromStringAuthorizer(s)
	}
	return parser.FromStringAuthorizerWithParams(s, ps)
}
func (fromStringParser) Must() parser.MustParser { return parser.New().Must() }

// mustAdapter turns the Must parser's panic(err) back into an error; any other panic value
// is re-raised (and reported as a panic of the parse function).
type mustAdapter struct{ m parser.MustParser }

func mustCall[T any](f func() T) (v T, err error) {
	defer func() {
		if r := recover(); r != nil {
			if e, ok := r.(error); ok && !isRuntimeError(e) {
				err = e
				return
			}
			panic(r)
		}
	}()
	return f(), nil
}

func isRuntimeError(e error) bool {
	_, ok := e.(runtime.Error)
	return ok
}

func (a mustAdapter) Fact(s string, ps parser.ParametersMap) (biscuit.Fact, error) {
	return mustCall(func() biscuit.Fact { return a.m.Fact(s, ps) })
}
func (a mustAdapter) Rule(s string, ps parser.ParametersMap) (biscuit.Rule, error) {
	return mustCall(func() biscuit.Rule { return a.m.Rule(s, ps) })
}
func (a mustAdapter) Check(s string, ps parser.ParametersMap) (biscuit.Check, error) {
	return mustCall(func() biscuit.Check { return a.m.Check(s, ps) })
}
func (a mustAdapter) Policy(s string, ps parser.ParametersMap) (biscuit.Policy, error) {
	return mustCall(func() biscuit.Policy { return a.m.Policy(s, ps) })
}
func (a mustAdapter) Block(s string, ps parser.ParametersMap) (biscuit.ParsedBlock, error) {
	return mustCall(func() biscuit.ParsedBlock { return a.m.Block(s, ps) })
}
func (a mustAdapter) Authorizer(s string, ps parser.ParametersMap) (biscuit.ParsedAuthorizer, error) {
	return mustCall(func() biscuit.ParsedAuthorizer { return a.m.Authorizer(s, ps) })
}
func (a mustAdapter) Must() parser.MustParser { return a.m }

func parseCaseSx(kind, text string, params map[string]Term) string {
	var ps []string
	names := make([]string, 0, len(params))
	for n := range params {
		names = append(names, n)
	}
	sortStrings(names)
	for _, n := range names {
		ps = append(ps, "("+hxs(n)+" "+params[n].SxRaw()+")")
	}
	return "(case (kind " + kind + ") (text " + hxs(text) + ") " + sxList("params", ps) + ")"
}

func sortStrings(s []string) {
	for i := 1; i < len(s); i++ {
		for j := i; j > 0 && s[j] < s[j-1]; j-- {
			s[j], s[j-1] = s[j-1], s[j]
		}
	}
}

func runC14(c *Ctx) {
	c.Rule = "(gen) block / authorizer / single-element texts rendered from random abstract syntax — predicates of 10 names incl. ':' and digits, every term type, sets, bound parameters, expression trees generated level by level along the documented precedence ladder (depth up to 5, chains of 1-3, redundant parentheses, method calls with expression arguments) — with random layout (spaces, tabs, newlines, CRLF); compared with the generator's own abstract syntax AND with the Lean grammar model. (err) the five named error classes in predicates and inside expressions: unbound parameter, malformed date, malformed bytes, variable in set, chained comparison. (dev) labelled deviation streams: negative integers, leading zeros, keyword-prefixed identifiers, backslashes in strings. (mut) token-level corruptions of generated texts (drop / duplicate / swap tokens, replace an operator, unbalance parentheses): no panic; if library and model both accept they must agree. (raw) random strings and bytes: no panic. Every accepted element is added to a Builder, a BlockBuilder and an authorizer under recover. Non-trivial = a generated text with at least one expression of depth >= 2 or a rule; distinct = distinct texts."
	r := NewRng(c.Seed)
	n := 2500
	if c.Thorough {
		n = 40000
	}
	// (gen)
	for i := 0; i < n; i++ {
		g := &textGen{r: r, wild: r.Chance(2, 3), params: map[string]Term{}}
		if r.Chance(1, 2) {
			for k, m := 0, 1+r.Intn(2); k < m; k++ {
				g.params[Pick(r, []string{"p1", "user_id", "x:y"})] = Pick(r, []Term{I(5), S("alice"), B([]byte{1, 2}), O(true), D(1600000000)})
			}
		}
		kind := Pick(r, []string{"block", "block", "authorizer", "single"})
		cnt := 1 + r.Intn(4)
		if kind == "single" {
			cnt = 1
		}
		depth := 1 + r.Intn(5)
		toks, exp := g.genItems(cnt, kind != "block", depth, kind == "single")
		text := g.join(toks)
		sx := parseCaseSx(kind, text, g.params)
		res := execCase("PARSE", sx)
		id := c.NewID("gen")
		c.Case("PARSE", id, sx, res)
		c.Count("gen:" + kind + ":" + strings.SplitN(res, " ", 2)[0])
		if depth >= 2 || len(exp.Rules) > 0 {
			c.NonTrivial(text)
		}
		want := exp.Sx()
		if res != want {
			key := "C14/parse-differs"
			if strings.HasPrefix(res, "panic") || strings.HasPrefix(res, "first-use-panic") {
				key = "C14/" + strings.SplitN(res, " ", 2)[0]
			}
			c.Violate(key, "the parser does not return what the text denotes: "+trunc(text, 200), map[string]interface{}{"verb": "PARSE", "case": sx, "text": text, "go": trunc(res, 1500), "want": trunc(want, 1500)})
		}
		if i < 3 {
			c.Sample(map[string]string{"kind": kind, "text": text, "go": trunc(res, 400)})
		}
	}
	// (err) named error classes, in predicates and inside expressions
	type errCase struct{ label, text string }
	var errs []errCase
	for _, ctx := range []struct{ name, pre, post string }{
		{"pred", "f(", ");"}, {"expr", "check if g($x), $x == ", ";"}, {"expr-method", "check if g($x), $x.contains(", ");"}, {"rule-expr", "h($x) <- g($x), ", " == $x;"},
	} {
		errs = append(errs,
			errCase{"unbound-parameter:" + ctx.name, ctx.pre + "{nope}" + ctx.post},
			errCase{"malformed-date:" + ctx.name, ctx.pre + "2020-13-45T99:00:00Z" + ctx.post},
			errCase{"malformed-date-nozone:" + ctx.name, ctx.pre + "2020-01-01T00:00:00" + ctx.post},
			errCase{"malformed-bytes:" + ctx.name, ctx.pre + "hex:012" + ctx.post},
			errCase{"malformed-bytes-nohex:" + ctx.name, ctx.pre + "hex:zz" + ctx.post},
			errCase{"variable-in-set:" + ctx.name, ctx.pre + "[1, $y]" + ctx.post},
		)
	}
	// a parameter whose map entry exists but holds no term is as unbound as a missing one
	for _, txt := range []string{"f({nilp});", "f([{nilp}]);", "check if g($x), $x == {nilp};", "check if g($x), [{nilp}].contains($x);",
		"h($x) <- g($x, {nilp});", "check if g($x), $x.starts_with({nilp});"} {
		sx := parseCaseSx("block", txt, map[string]Term{"nilp": {K: 'n'}})
		res := execCase("PARSE", sx)
		c.Case("PARSE", c.NewID("err"), sx, res)
		c.Count("err:nil-parameter:" + strings.SplitN(res, " ", 2)[0])
		c.NonTrivial(txt)
		if res != "error" {
			c.Violate("C14/error-not-reported:nil-parameter", "a parameter bound to nothing is not reported as unbound: "+txt+" -> "+trunc(res, 200),
				map[string]interface{}{"verb": "PARSE", "case": sx, "text": txt, "go": trunc(res, 600), "want": "error"})
		}
	}
	// a variable stays a variable when it arrives through a parameter: inside a set it is an
	// error like a literal variable, outside a set it is that variable
	for _, txt := range []string{"h($x) <- g($x, [1, {pv}]);", "check if g($x), [{pv}, 2].contains($x);", "check if g($x), [\"a\", {pv}].contains(\"a\");", "h($x) <- g($x), [{pv}].length() == 1;"} {
		sx := parseCaseSx("block", txt, map[string]Term{"pv": V("x")})
		res := execCase("PARSE", sx)
		c.Case("PARSE", c.NewID("err"), sx, res)
		c.Count("err:variable-in-set-through-parameter:" + strings.SplitN(res, " ", 2)[0])
		c.NonTrivial(txt)
		if res != "error" {
			c.Violate("C14/error-not-reported:variable-in-set:parameter", "a variable inside a set is not reported when it arrives through a parameter: "+txt+" -> "+trunc(res, 200),
				map[string]interface{}{"verb": "PARSE", "case": sx, "text": txt, "go": trunc(res, 600), "want": "error"})
		}
	}
	for _, txt := range []string{"h($x) <- g({pv});", "check if g({pv}), {pv} == 1;"} {
		sx := parseCaseSx("block", txt, map[string]Term{"pv": V("x")})
		res := execCase("PARSE", sx)
		c.Case("PARSE", c.NewID("gen"), sx, res)
		c.Count("variable-through-parameter:" + strings.SplitN(res, " ", 2)[0])
	}
	for _, kind := range []string{"single"} {
		for _, txt := range []string{"f({nilp})", "h($x) <- g($x, {nilp})", "check if g({nilp})", "allow if g({nilp})"} {
			sx := parseCaseSx(kind, txt, map[string]Term{"nilp": {K: 'n'}})
			res := execCase("PARSE", sx)
			c.Case("PARSE", c.NewID("err"), sx, res)
			c.NonTrivial(txt)
			if res != "error" {
				c.Violate("C14/error-not-reported:nil-parameter", "a parameter bound to nothing is not reported as unbound: "+txt+" -> "+trunc(res, 200),
					map[string]interface{}{"verb": "PARSE", "case": sx, "text": txt, "go": trunc(res, 600), "want": "error"})
			}
		}
	}
	errs = append(errs,
		errCase{"chained-comparison", "check if 1 < 2 < 3;"},
		errCase{"chained-comparison", "check if $a == $b == $c;"},
		errCase{"chained-comparison", "h($x) <- g($x), $x <= 2 >= 1;"},
		errCase{"chained-comparison", "check if g($x), 1 + 2 < $x == true;"},
	)
	for _, e := range errs {
		sx := parseCaseSx("block", e.text, nil)
		res := execCase("PARSE", sx)
		c.Case("PARSE", c.NewID("err"), sx, res)
		c.Count("err:" + e.label + ":" + strings.SplitN(res, " ", 2)[0])
		c.NonTrivial(e.text)
		if res != "error" {
			c.Violate("C14/error-not-reported:"+e.label, "a text the property names as an error is not reported as one: "+e.text+" -> "+trunc(res, 200),
				map[string]interface{}{"verb": "PARSE", "case": sx, "text": e.text, "go": trunc(res, 600), "want": "error"})
		}
	}
	// (dev) deviations from the documented grammar, each its own key
	devs := []errCase{
		{"int-literal:negative", "f(-1);"}, {"int-literal:negative", "check if $x > -5;"},
		{"int-literal:leading-zero", "f(010);"}, {"int-literal:leading-zero", "f(09);"},
		{"ident:keyword-prefix", "lengthy(1);"}, {"ident:keyword-prefix", "truex(1);"}, {"ident:keyword-prefix", "contains_x(1);"}, {"ident:keyword-prefix", "prefixed(1);"},
		{"string-literal:unknown-escape", `f("^abc\s+def$");`}, {"string-literal:unknown-escape", `f("\q \w\d+ \x4");`}, {"string-literal:backslash", `f("a\nb");`},
	}
	for _, e := range devs {
		sx := parseCaseSx("block", e.text, nil)
		res := execCase("PARSE", sx)
		c.Eval()
		c.Count("dev:" + e.label + ":" + strings.SplitN(res, " ", 2)[0])
		var want string
		switch e.text {
		case "f(-1);":
			want = parsedExpect{Facts: []Pred{{Name: "f", Terms: []Term{I(-1)}}}}.Sx()
		case "check if $x > -5;":
			want = parsedExpect{Checks: []Check{{Queries: []Rule{{Head: Pred{Name: "query"}, Exprs: []Expr{{{K: 'v', T: V("x")}, {K: 'v', T: I(-5)}, {K: 'b', B: "gt"}}}}}}}}.Sx()
		case "f(010);":
			want = parsedExpect{Facts: []Pred{{Name: "f", Terms: []Term{I(10)}}}}.Sx()
		case "f(09);":
			want = parsedExpect{Facts: []Pred{{Name: "f", Terms: []Term{I(9)}}}}.Sx()
		case "lengthy(1);", "truex(1);", "contains_x(1);", "prefixed(1);":
			want = parsedExpect{Facts: []Pred{{Name: strings.TrimSuffix(e.text, "(1);"), Terms: []Term{I(1)}}}}.Sx()
		case `f("^abc\s+def$");`:
			want = parsedExpect{Facts: []Pred{{Name: "f", Terms: []Term{S(`^abc\s+def$`)}}}}.Sx()
		case `f("\q \w\d+ \x4");`:
			want = parsedExpect{Facts: []Pred{{Name: "f", Terms: []Term{S(`\q \w\d+ \x4`)}}}}.Sx()
		case `f("a\nb");`:
			want = parsedExpect{Facts: []Pred{{Name: "f", Terms: []Term{S(`a\nb`)}}}}.Sx()
		}
		if res != want {
			c.Violate("C14/"+e.label, "the parser deviates from the documented grammar on "+e.text+": "+trunc(res, 160)+" (documented reading: "+trunc(want, 160)+")",
				map[string]interface{}{"verb": "PARSE", "case": sx, "text": e.text, "go": trunc(res, 600), "want": want})
		}
	}
	// (mut) token-level corruptions
	m := 2500
	if c.Thorough {
		m = 40000
	}
	for i := 0; i < m; i++ {
		g := &textGen{r: r, wild: false, params: map[string]Term{}}
		kind := Pick(r, []string{"block", "authorizer"})
		toks, _ := g.genItems(1+r.Intn(3), kind == "authorizer", 1+r.Intn(3), false)
		switch r.Intn(6) {
		case 0:
			k := r.Intn(len(toks))
			toks = append(toks[:k], toks[k+1:]...)
		case 1:
			k := r.Intn(len(toks))
			toks = append(toks[:k+1], toks[k:]...)
		case 2:
			a, b := r.Intn(len(toks)), r.Intn(len(toks))
			toks[a], toks[b] = toks[b], toks[a]
		case 3:
			toks[r.Intn(len(toks))] = Pick(r, []string{"<", "==", "&&", "||", "+", "*", "/", "!", ".", "<-", "or", "check if"})
		case 4:
			toks[r.Intn(len(toks))] = Pick(r, []string{"(", ")", "[", "]", ",", ";"})
		default:
			toks[r.Intn(len(toks))] = Pick(r, []string{"-1", "hex:0", "{x}", "$", "\"", "2020-01-01T", "007", "lengthy", "true"})
		}
		text := g.join(toks)
		sx := parseCaseSx(kind, text, nil)
		res := execCase("PARSE", sx)
		// compared with the model only through the runner's "both accept" rule: record as
		// a model case with lenient comparison marker
		c.Case("PARSE", c.NewID("mut"), strings.TrimSuffix(sx, ")")+" (lenient))", res)
		c.Count("mut:" + strings.SplitN(res, " ", 2)[0])
		if strings.HasPrefix(res, "panic") || strings.HasPrefix(res, "first-use-panic") {
			c.Violate("C14/"+strings.SplitN(res, " ", 2)[0], "a corrupted text made the parser (or first use) panic: "+trunc(text, 200), map[string]interface{}{"verb": "PARSE", "case": sx, "text": text, "go": res})
		}
	}
	// (raw) random strings
	for i := 0; i < m/2; i++ {
		var text string
		if r.Chance(1, 2) {
			text = string(r.Bytes(r.Intn(60)))
		} else {
			alphabet := []string{"f", "(", ")", "$x", "1", "\"a\"", ",", ";", "<-", "check if", "allow if", "==", "<", "&&", "||", "!", ".", "length", "contains", "[", "]", "hex:", "{p}", "2020-01-01T00:00:00Z", " ", "\n", "or", "true", "-", "/", "//"}
			for k, l := 0, r.Intn(25); k < l; k++ {
				text += Pick(r, alphabet)
			}
		}
		c.Eval()
		for _, kind := range []string{"block", "authorizer", "single"} {
			res := execCase("PARSE", parseCaseSx(kind, text, nil))
			c.Count("raw:" + strings.SplitN(res, " ", 2)[0])
			if strings.HasPrefix(res, "panic") || strings.HasPrefix(res, "first-use-panic") {
				c.Violate("C14/"+strings.SplitN(res, " ", 2)[0], "a random text made the parser (or first use) panic", map[string]interface{}{"verb": "PARSE", "case": parseCaseSx(kind, text, nil), "text": text, "go": res})
			}
		}
	}
}
