package main

// String-level content model shared by all verbs: the harness generates these
// values, converts them to the library's types (biscuit.* string level or
// datalog.* index level) and prints them in the canonical s-expression syntax
// understood by the Lean driver (Driver/Codec.lean).

import (
	"encoding/hex"
	"fmt"
	"sort"
	"strings"
	"time"

	"github.com/biscuit-auth/biscuit-go/v2"
	"github.com/biscuit-auth/biscuit-go/v2/datalog"
)

type Term struct {
	K   byte // 'v' var, 'i' int, 's' string, 'd' date, 'b' bytes, 'o' bool, 'S' set
	N   string
	I   int64
	D   uint64
	B   []byte
	O   bool
	Set []Term
}

func V(n string) Term      { return Term{K: 'v', N: n} }
func I(i int64) Term       { return Term{K: 'i', I: i} }
func S(s string) Term      { return Term{K: 's', N: s} }
func D(d uint64) Term      { return Term{K: 'd', D: d} }
func B(b []byte) Term      { return Term{K: 'b', B: b} }
func O(o bool) Term        { return Term{K: 'o', O: o} }
func SetOf(e ...Term) Term { return Term{K: 'S', Set: e} }

type Pred struct {
	Name  string
	Terms []Term
}

type Op struct {
	K byte // 'v' value, 'u' unary, 'b' binary
	T Term
	U string // neg par len
	B string // lt le gt ge eq contains prefix suffix regex add sub mul div and or intersection union
}

type Expr []Op

type Rule struct {
	Head  Pred
	Body  []Pred
	Exprs []Expr
}

type Check struct{ Queries []Rule }

type Policy struct {
	Allow   bool
	Queries []Rule
}

type Block struct {
	Facts   []Pred
	Rules   []Rule
	Checks  []Check
	Context string
}

// ---------- canonical s-expression printing ----------

func hx(b []byte) string  { return "x" + hex.EncodeToString(b) }
func hxs(s string) string { return hx([]byte(s)) }

func (t Term) Sx() string {
	switch t.K {
	case 'v':
		return "(v " + hxs(t.N) + ")"
	case 'i':
		return fmt.Sprintf("(i %d)", t.I)
	case 's':
		return "(s " + hxs(t.N) + ")"
	case 'd':
		return fmt.Sprintf("(d %d)", t.D)
	case 'b':
		return "(b " + hx(t.B) + ")"
	case 'o':
		if t.O {
			return "(o 1)"
		}
		return "(o 0)"
	case 'S':
		// canonical: sorted, de-duplicated
		el := make([]string, 0, len(t.Set))
		for _, e := range t.Set {
			el = append(el, e.Sx())
		}
		sort.Strings(el)
		out := el[:0]
		for i, e := range el {
			if i == 0 || e != el[i-1] {
				out = append(out, e)
			}
		}
		if len(out) == 0 {
			return "(set)"
		}
		return "(set " + strings.Join(out, " ") + ")"
	}
	return "(?)"
}

// SxRaw prints a set in its given order (input to the model keeps list order).
func (t Term) SxRaw() string {
	if t.K == 'n' { // a nil value (a ParametersMap entry present without a term)
		return "(nil)"
	}
	if t.K != 'S' {
		return t.Sx()
	}
	el := make([]string, 0, len(t.Set))
	for _, e := range t.Set {
		el = append(el, e.Sx())
	}
	if len(el) == 0 {
		return "(set)"
	}
	return "(set " + strings.Join(el, " ") + ")"
}

func (p Pred) Sx() string {
	var sb strings.Builder
	sb.WriteString("(p " + hxs(p.Name))
	for _, t := range p.Terms {
		sb.WriteString(" " + t.SxRaw())
	}
	sb.WriteString(")")
	return sb.String()
}

// FactSx prints a ground predicate as a fact (canonical sets).
func (p Pred) FactSx() string {
	var sb strings.Builder
	sb.WriteString("(f " + hxs(p.Name))
	for _, t := range p.Terms {
		sb.WriteString(" " + t.Sx())
	}
	sb.WriteString(")")
	return sb.String()
}

// FactSxRaw prints a ground predicate as an input fact (sets in given order).
func (p Pred) FactSxRaw() string {
	var sb strings.Builder
	sb.WriteString("(f " + hxs(p.Name))
	for _, t := range p.Terms {
		sb.WriteString(" " + t.SxRaw())
	}
	sb.WriteString(")")
	return sb.String()
}

func (o Op) Sx() string {
	switch o.K {
	case 'v':
		return o.T.SxRaw()
	case 'u':
		return "(u " + o.U + ")"
	case 'b':
		return "(bin " + o.B + ")"
	}
	return "(?)"
}

func (e Expr) Sx() string {
	var sb strings.Builder
	sb.WriteString("(e")
	for _, o := range e {
		sb.WriteString(" " + o.Sx())
	}
	sb.WriteString(")")
	return sb.String()
}

func (r Rule) Sx() string {
	var sb strings.Builder
	sb.WriteString("(r " + r.Head.Sx() + " (")
	for i, p := range r.Body {
		if i > 0 {
			sb.WriteString(" ")
		}
		sb.WriteString(p.Sx())
	}
	sb.WriteString(") (")
	for i, e := range r.Exprs {
		if i > 0 {
			sb.WriteString(" ")
		}
		sb.WriteString(e.Sx())
	}
	sb.WriteString("))")
	return sb.String()
}

func (c Check) Sx() string {
	var sb strings.Builder
	sb.WriteString("(check")
	for _, q := range c.Queries {
		sb.WriteString(" " + q.Sx())
	}
	sb.WriteString(")")
	return sb.String()
}

func (p Policy) Sx() string {
	var sb strings.Builder
	if p.Allow {
		sb.WriteString("(allow")
	} else {
		sb.WriteString("(deny")
	}
	for _, q := range p.Queries {
		sb.WriteString(" " + q.Sx())
	}
	sb.WriteString(")")
	return sb.String()
}

func sxList(tag string, items []string) string {
	if len(items) == 0 {
		return "(" + tag + ")"
	}
	return "(" + tag + " " + strings.Join(items, " ") + ")"
}

func (b Block) Sx() string {
	fs := make([]string, len(b.Facts))
	for i, f := range b.Facts {
		fs[i] = f.FactSxRaw()
	}
	rs := make([]string, len(b.Rules))
	for i, r := range b.Rules {
		rs[i] = r.Sx()
	}
	cs := make([]string, len(b.Checks))
	for i, c := range b.Checks {
		cs[i] = c.Sx()
	}
	return "(block " + sxList("facts", fs) + " " + sxList("rules", rs) + " " + sxList("checks", cs) + ")"
}

func sortedFactsSx(fs []string) string {
	sort.Strings(fs)
	out := fs[:0]
	for i, e := range fs {
		if i == 0 || e != fs[i-1] {
			out = append(out, e)
		}
	}
	return "(" + strings.Join(out, " ") + ")"
}

// ---------- conversion to the string-level API (biscuit.*) ----------

func (t Term) ToBiscuit() biscuit.Term {
	switch t.K {
	case 'v':
		return biscuit.Variable(t.N)
	case 'i':
		return biscuit.Integer(t.I)
	case 's':
		return biscuit.String(t.N)
	case 'd':
		return biscuit.Date(time.Unix(int64(t.D), 0))
	case 'b':
		return biscuit.Bytes(append([]byte{}, t.B...))
	case 'o':
		return biscuit.Bool(t.O)
	case 'S':
		s := make(biscuit.Set, 0, len(t.Set))
		for _, e := range t.Set {
			s = append(s, e.ToBiscuit())
		}
		return s
	}
	panic("bad term kind")
}

func (p Pred) ToBiscuit() biscuit.Predicate {
	ids := make([]biscuit.Term, 0, len(p.Terms))
	for _, t := range p.Terms {
		ids = append(ids, t.ToBiscuit())
	}
	return biscuit.Predicate{Name: p.Name, IDs: ids}
}

var unToBiscuit = map[string]biscuit.UnaryOp{"neg": biscuit.UnaryNegate, "par": biscuit.UnaryParens, "len": biscuit.UnaryLength}
var binToBiscuit = map[string]biscuit.BinaryOp{
	"lt": biscuit.BinaryLessThan, "le": biscuit.BinaryLessOrEqual, "gt": biscuit.BinaryGreaterThan, "ge": biscuit.BinaryGreaterOrEqual,
	"eq": biscuit.BinaryEqual, "contains": biscuit.BinaryContains, "prefix": biscuit.BinaryPrefix, "suffix": biscuit.BinarySuffix,
	"regex": biscuit.BinaryRegex, "add": biscuit.BinaryAdd, "sub": biscuit.BinarySub, "mul": biscuit.BinaryMul, "div": biscuit.BinaryDiv,
	"and": biscuit.BinaryAnd, "or": biscuit.BinaryOr, "intersection": biscuit.BinaryIntersection, "union": biscuit.BinaryUnion,
}

func (e Expr) ToBiscuit() biscuit.Expression {
	out := make(biscuit.Expression, 0, len(e))
	for _, o := range e {
		switch o.K {
		case 'v':
			out = append(out, biscuit.Value{Term: o.T.ToBiscuit()})
		case 'u':
			out = append(out, unToBiscuit[o.U])
		case 'b':
			out = append(out, binToBiscuit[o.B])
		}
	}
	return out
}

func (r Rule) ToBiscuit() biscuit.Rule {
	body := make([]biscuit.Predicate, len(r.Body))
	for i, p := range r.Body {
		body[i] = p.ToBiscuit()
	}
	ex := make([]biscuit.Expression, len(r.Exprs))
	for i, e := range r.Exprs {
		ex[i] = e.ToBiscuit()
	}
	return biscuit.Rule{Head: r.Head.ToBiscuit(), Body: body, Expressions: ex}
}

func (c Check) ToBiscuit() biscuit.Check {
	qs := make([]biscuit.Rule, len(c.Queries))
	for i, q := range c.Queries {
		qs[i] = q.ToBiscuit()
	}
	return biscuit.Check{Queries: qs}
}

func (p Policy) ToBiscuit() biscuit.Policy {
	qs := make([]biscuit.Rule, len(p.Queries))
	for i, q := range p.Queries {
		qs[i] = q.ToBiscuit()
	}
	k := biscuit.PolicyKind(biscuit.PolicyKindDeny)
	if p.Allow {
		k = biscuit.PolicyKindAllow
	}
	return biscuit.Policy{Kind: k, Queries: qs}
}

// FromBiscuitTerm converts a string-level library term back to the content model.
func FromBiscuitTerm(t biscuit.Term) Term {
	switch v := t.(type) {
	case biscuit.Variable:
		return V(string(v))
	case biscuit.Integer:
		return I(int64(v))
	case biscuit.String:
		return S(string(v))
	case biscuit.Date:
		return D(uint64(time.Time(v).Unix()))
	case biscuit.Bytes:
		return B([]byte(v))
	case biscuit.Bool:
		return O(bool(v))
	case biscuit.Set:
		el := make([]Term, 0, len(v))
		for _, e := range v {
			el = append(el, FromBiscuitTerm(e))
		}
		return SetOf(el...)
	}
	return Term{K: '?'}
}

func FromBiscuitPred(p biscuit.Predicate) Pred {
	ts := make([]Term, 0, len(p.IDs))
	for _, t := range p.IDs {
		ts = append(ts, FromBiscuitTerm(t))
	}
	return Pred{Name: p.Name, Terms: ts}
}

// ---------- conversion to the index-level API (datalog.*) ----------

func (t Term) ToDatalog(syms *datalog.SymbolTable) datalog.Term {
	switch t.K {
	case 'v':
		return datalog.Variable(syms.Insert(t.N))
	case 'i':
		return datalog.Integer(t.I)
	case 's':
		return syms.Insert(t.N)
	case 'd':
		return datalog.Date(t.D)
	case 'b':
		return datalog.Bytes(append([]byte{}, t.B...))
	case 'o':
		return datalog.Bool(t.O)
	case 'S':
		// spare capacity on purpose: an operator that appends to an operand in place (instead
		// of building a fresh result) then writes into storage shared with other uses of it
		s := make(datalog.Set, 0, len(t.Set)+3)
		for _, e := range t.Set {
			s = append(s, e.ToDatalog(syms))
		}
		return s
	}
	panic("bad term kind")
}

func (p Pred) ToDatalog(syms *datalog.SymbolTable) datalog.Predicate {
	ts := make([]datalog.Term, 0, len(p.Terms))
	for _, t := range p.Terms {
		ts = append(ts, t.ToDatalog(syms))
	}
	return datalog.Predicate{Name: syms.Insert(p.Name), Terms: ts}
}

var unToDatalog = map[string]datalog.UnaryOpFunc{"neg": datalog.Negate{}, "par": datalog.Parens{}, "len": datalog.Length{}}
var binToDatalog = map[string]datalog.BinaryOpFunc{
	"lt": datalog.LessThan{}, "le": datalog.LessOrEqual{}, "gt": datalog.GreaterThan{}, "ge": datalog.GreaterOrEqual{},
	"eq": datalog.Equal{}, "contains": datalog.Contains{}, "prefix": datalog.Prefix{}, "suffix": datalog.Suffix{},
	"regex": datalog.Regex{}, "add": datalog.Add{}, "sub": datalog.Sub{}, "mul": datalog.Mul{}, "div": datalog.Div{},
	"and": datalog.And{}, "or": datalog.Or{}, "intersection": datalog.Intersection{}, "union": datalog.Union{},
}

func (e Expr) ToDatalog(syms *datalog.SymbolTable) datalog.Expression {
	out := make(datalog.Expression, 0, len(e))
	for _, o := range e {
		switch o.K {
		case 'v':
			out = append(out, datalog.Value{ID: o.T.ToDatalog(syms)})
		case 'u':
			out = append(out, datalog.UnaryOp{UnaryOpFunc: unToDatalog[o.U]})
		case 'b':
			out = append(out, datalog.BinaryOp{BinaryOpFunc: binToDatalog[o.B]})
		}
	}
	return out
}

func (r Rule) ToDatalog(syms *datalog.SymbolTable) datalog.Rule {
	body := make([]datalog.Predicate, len(r.Body))
	for i, p := range r.Body {
		body[i] = p.ToDatalog(syms)
	}
	ex := make([]datalog.Expression, len(r.Exprs))
	for i, e := range r.Exprs {
		ex[i] = e.ToDatalog(syms)
	}
	return datalog.Rule{Head: r.Head.ToDatalog(syms), Body: body, Expressions: ex}
}

// FromDatalogTerm resolves an index-level term through syms.
func FromDatalogTerm(syms *datalog.SymbolTable, t datalog.Term) Term {
	switch v := t.(type) {
	case datalog.Variable:
		return V(syms.Var(v))
	case datalog.Integer:
		return I(int64(v))
	case datalog.String:
		return S(syms.Str(v))
	case datalog.Date:
		return D(uint64(v))
	case datalog.Bytes:
		return B([]byte(v))
	case datalog.Bool:
		return O(bool(v))
	case datalog.Set:
		el := make([]Term, 0, len(v))
		for _, e := range v {
			el = append(el, FromDatalogTerm(syms, e))
		}
		return SetOf(el...)
	}
	return Term{K: '?'}
}

func FromDatalogPred(syms *datalog.SymbolTable, p datalog.Predicate) Pred {
	ts := make([]Term, 0, len(p.Terms))
	for _, t := range p.Terms {
		ts = append(ts, FromDatalogTerm(syms, t))
	}
	return Pred{Name: syms.Str(p.Name), Terms: ts}
}

func factSetSx(syms *datalog.SymbolTable, fs *datalog.FactSet) string {
	out := make([]string, 0, len(*fs))
	for _, f := range *fs {
		out = append(out, FromDatalogPred(syms, f.Predicate).FactSx())
	}
	return sortedFactsSx(out)
}
