package main

// harness — drives the real biscuit-go code in-process. For one property it
// generates cases from the seed, executes them against the library, and writes
//   cases.txt        the same cases in the line protocol of the Lean driver
//   go.out           the library's canonical outcome per case id
//   stats.json       what was covered (measured), samples, witness-search violations
// The runner (/verif/check) pipes cases.txt through the Lean driver and diffs.

import (
	"bufio"
	"encoding/json"
	"flag"
	"fmt"
	"hash/fnv"
	"os"
	"path/filepath"
	"sort"
	"strings"
	"time"
)

type Violation struct {
	Key    string      `json:"key"`    // specific input class / call site / history (matches known_findings.json)
	Desc   string      `json:"desc"`   // what fails
	Replay interface{} `json:"replay"` // concrete input, history or schedule
}

type Ctx struct {
	Prop     string
	Tier     string
	Seed     uint64
	OutDir   string
	Thorough bool

	cases  *bufio.Writer
	goOut  *bufio.Writer
	fc, fg *os.File

	Evaluations int
	nontrivial  map[uint64]struct{}
	Hist        map[string]int
	Samples     []interface{}
	Violations  []Violation
	Notes       []string
	Rule        string
	Extra       map[string]interface{}
	nextID      int
	sampleEvery int
}

func (c *Ctx) open() {
	var err error
	if err = os.MkdirAll(c.OutDir, 0o755); err != nil {
		fatal(err)
	}
	c.fc, err = os.Create(filepath.Join(c.OutDir, "cases.txt"))
	if err != nil {
		fatal(err)
	}
	c.fg, err = os.Create(filepath.Join(c.OutDir, "go.out"))
	if err != nil {
		fatal(err)
	}
	c.cases = bufio.NewWriterSize(c.fc, 1<<20)
	c.goOut = bufio.NewWriterSize(c.fg, 1<<20)
	c.nontrivial = map[uint64]struct{}{}
	c.Hist = map[string]int{}
	c.Extra = map[string]interface{}{}
}

func fatal(err error) {
	fmt.Fprintln(os.Stderr, "harness:", err)
	os.Exit(2)
}

// NewID returns a fresh case id "<stream>-<n>".
func (c *Ctx) NewID(stream string) string {
	c.nextID++
	return fmt.Sprintf("%s-%d", stream, c.nextID)
}

// Case records one correspondence case: the protocol line for the model and the
// library's canonical outcome.
func (c *Ctx) Case(verb, id, sx, goResult string) {
	fmt.Fprintf(c.cases, "%s %s %s\n", verb, id, sx)
	fmt.Fprintf(c.goOut, "%s %s\n", id, goResult)
	c.Evaluations++
}

// Eval counts an implementation-only evaluation (witness search without a model line).
func (c *Ctx) Eval() { c.Evaluations++ }

// NonTrivial records a canonical encoding of a case that met the property's
// non-triviality rule; distinct ones are counted with a hash set.
func (c *Ctx) NonTrivial(canon string) {
	h := fnv.New64a()
	h.Write([]byte(canon))
	c.nontrivial[h.Sum64()] = struct{}{}
}

func (c *Ctx) Count(k string) { c.Hist[k]++ }

func (c *Ctx) Sample(s interface{}) {
	if len(c.Samples) < 6 {
		c.Samples = append(c.Samples, s)
	}
}

func (c *Ctx) Violate(key, desc string, replay interface{}) {
	c.Violations = append(c.Violations, Violation{Key: key, Desc: desc, Replay: replay})
}

func (c *Ctx) close(start time.Time) {
	c.cases.Flush()
	c.goOut.Flush()
	c.fc.Close()
	c.fg.Close()
	keys := make([]string, 0, len(c.Hist))
	for k := range c.Hist {
		keys = append(keys, k)
	}
	sort.Strings(keys)
	st := map[string]interface{}{
		"property":            c.Prop,
		"tier":                c.Tier,
		"seed":                c.Seed,
		"evaluations":         c.Evaluations,
		"distinct_nontrivial": len(c.nontrivial),
		"rule":                c.Rule,
		"histogram":           c.Hist,
		"samples":             c.Samples,
		"violations":          c.Violations,
		"notes":               c.Notes,
		"extra":               c.Extra,
		"harness_wall_s":      time.Since(start).Seconds(),
	}
	b, _ := json.MarshalIndent(st, "", " ")
	if err := os.WriteFile(filepath.Join(c.OutDir, "stats.json"), b, 0o644); err != nil {
		fatal(err)
	}
}

// runCorpus executes the minimised past failures / seed cases first.
func (c *Ctx) runCorpus(path string) {
	data, err := os.ReadFile(path)
	if err != nil {
		return
	}
	for _, line := range strings.Split(string(data), "\n") {
		line = strings.TrimSpace(line)
		if line == "" || strings.HasPrefix(line, "#") {
			continue
		}
		parts := strings.SplitN(line, " ", 3)
		if len(parts) != 3 {
			continue
		}
		res := execCase(parts[0], parts[2])
		c.Case(parts[0], "corpus-"+parts[1], parts[2], res)
		c.Count("corpus")
		if strings.HasPrefix(res, "panic") {
			c.Violate(c.Prop+"/panic:corpus:"+parts[1], "corpus case panicked: "+res, map[string]interface{}{"verb": parts[0], "case": parts[2], "go": res})
		}
	}
}

var verbs = map[string]func(*Ctx){}

// execs: per protocol verb, execute one case (parsed "(case …)") against the library.
var execs = map[string]func(*Sx) string{}

func execCase(verb, sx string) string {
	f, ok := execs[verb]
	if !ok {
		return "bad-verb"
	}
	cs, err := parseSx(sx)
	if err != nil || cs.tag() != "case" {
		return "bad-case"
	}
	return f(cs)
}

func main() {
	if len(os.Args) >= 2 && os.Args[1] == "oracle" {
		oracleMain(os.Args[2:])
		return
	}
	if len(os.Args) >= 2 && os.Args[1] == "worker" {
		workerMain(os.Args[2:])
		return
	}
	if len(os.Args) >= 2 && os.Args[1] == "racework" {
		raceWorkMain(os.Args[2:])
		return
	}
	if len(os.Args) >= 2 && os.Args[1] == "extract" {
		extractMain(os.Args[2:])
		return
	}
	if len(os.Args) >= 2 && os.Args[1] == "replay" {
		replayMain(os.Args[2:])
		return
	}
	fs := flag.NewFlagSet("run", flag.ExitOnError)
	prop := fs.String("prop", "", "property id")
	tier := fs.String("tier", "quick", "quick|thorough")
	seed := fs.Uint64("seed", 1, "PRNG seed")
	out := fs.String("out", "", "output directory")
	corpus := fs.String("corpus", "", "corpus file of protocol lines to run first")
	args := os.Args[1:]
	if len(args) > 0 && args[0] == "run" {
		args = args[1:]
	}
	fs.Parse(args)
	f, ok := verbs[*prop]
	if !ok {
		fatal(fmt.Errorf("unknown property %q", *prop))
	}
	c := &Ctx{Prop: *prop, Tier: *tier, Seed: *seed, OutDir: *out, Thorough: *tier == "thorough"}
	c.open()
	start := time.Now()
	if *corpus != "" {
		c.runCorpus(*corpus)
	}
	f(c)
	c.close(start)
}
