package main

// C05 / C11 — RUN and QUERY verbs straight against datalog.World (public API),
// index-level terms resolved through the symbol table in both directions.

import (
	"errors"
	"fmt"
	"sort"
	"strings"
	"time"

	"github.com/biscuit-auth/biscuit-go/v2/datalog"
)

func init() {
	verbs["C05"] = runC05
	execs["RUN"] = execRun
	execs["QUERY"] = execQuery
}

func runErrClass(err error) string {
	var ire datalog.InvalidRuleError
	switch {
	case err == nil:
		return "ok"
	case errors.Is(err, datalog.ErrWorldRunLimitMaxFacts):
		return "limit-facts"
	case errors.Is(err, datalog.ErrWorldRunLimitMaxIterations):
		return "limit-iter"
	case errors.Is(err, datalog.ErrWorldRunLimitTimeout):
		return "limit-time"
	case errors.As(err, &ire):
		return "invalid-rule"
	}
	return "expr-error"
}

type runCase struct {
	Facts    []Pred
	Rules    []Rule
	MaxFacts int
	MaxIter  int
}

func decRunCase(cs *Sx) (runCase, error) {
	var rc runCase
	fs, _ := cs.field("facts")
	for _, f := range fs {
		p, err := decPred(f)
		if err != nil {
			return rc, err
		}
		rc.Facts = append(rc.Facts, p)
	}
	rs, _ := cs.field("rules")
	rules, err := decRules(rs)
	if err != nil {
		return rc, err
	}
	rc.Rules = rules
	rc.MaxFacts, rc.MaxIter = 1000, 100
	if lim, ok := cs.field("limits"); ok && len(lim) == 2 {
		fmt.Sscanf(lim[0].Atom, "%d", &rc.MaxFacts)
		fmt.Sscanf(lim[1].Atom, "%d", &rc.MaxIter)
	}
	return rc, nil
}

// goRun executes World.Run with a generous wall-clock limit (F1) and returns
// "<err class> <sorted facts>".
func goRun(rc runCase) (res string) {
	defer func() {
		if r := recover(); r != nil {
			res = "panic " + panicSite(r)
		}
	}()
	syms := &datalog.SymbolTable{}
	w := datalog.NewWorld(datalog.WithMaxFacts(rc.MaxFacts), datalog.WithMaxIterations(rc.MaxIter), datalog.WithMaxDuration(20*time.Second))
	for _, f := range rc.Facts {
		w.AddFact(datalog.Fact{Predicate: f.ToDatalog(syms)})
	}
	for _, r := range rc.Rules {
		w.AddRule(r.ToDatalog(syms))
	}
	err := w.Run(syms)
	cls := runErrClass(err)
	if cls == "limit-time" {
		return "environment-timeout"
	}
	return cls + " " + factSetSx(syms, w.Facts())
}

func execRun(cs *Sx) string {
	rc, err := decRunCase(cs)
	if err != nil {
		return "bad-case"
	}
	return goRun(rc)
}

func goQuery(facts []Pred, rule Rule) (res string, ordered []string) {
	defer func() {
		if r := recover(); r != nil {
			res = "panic " + panicSite(r)
		}
	}()
	syms := &datalog.SymbolTable{}
	w := datalog.NewWorld(datalog.WithMaxDuration(20 * time.Second))
	for _, f := range facts {
		w.AddFact(datalog.Fact{Predicate: f.ToDatalog(syms)})
	}
	dr := rule.ToDatalog(syms)
	out := &datalog.FactSet{}
	err := dr.Apply(w.Facts(), out, syms)
	viaQuery := w.QueryRule(dr, syms)
	a, b := factSetSx(syms, out), factSetSx(syms, viaQuery)
	if a != b {
		return "inconsistent Apply=" + a + " QueryRule=" + b, nil
	}
	for _, f := range *out {
		ordered = append(ordered, FromDatalogPred(syms, f.Predicate).FactSx())
	}
	return runErrClass(err) + " " + a, ordered
}

func execQuery(cs *Sx) string {
	var facts []Pred
	fs, _ := cs.field("facts")
	for _, f := range fs {
		p, err := decPred(f)
		if err != nil {
			return "bad-case"
		}
		facts = append(facts, p)
	}
	rs, ok := cs.field("rule")
	if !ok || len(rs) != 1 {
		return "bad-case"
	}
	rule, err := decRule(rs[0])
	if err != nil {
		return "bad-case"
	}
	res, _ := goQuery(facts, rule)
	return res
}

func runCaseSx(rc runCase, rx string) string {
	fs := make([]string, len(rc.Facts))
	for i, f := range rc.Facts {
		fs[i] = f.FactSxRaw()
	}
	rs := make([]string, len(rc.Rules))
	for i, r := range rc.Rules {
		rs[i] = r.Sx()
	}
	return "(case " + sxList("facts", fs) + " " + sxList("rules", rs) + fmt.Sprintf(" (limits %d %d) ", rc.MaxFacts, rc.MaxIter) + rx + ")"
}

func queryCaseSx(facts []Pred, rule Rule, rx string) string {
	fs := make([]string, len(facts))
	for i, f := range facts {
		fs[i] = f.FactSxRaw()
	}
	return "(case " + sxList("facts", fs) + " (rule " + rule.Sx() + ") " + rx + ")"
}

// ---------- program generator ----------

type progGen struct {
	r      *Rng
	preds  []string
	arity  map[string]int
	consts []Term
	vars   []string
}

func newProgGen(r *Rng) *progGen {
	g := &progGen{r: r, arity: map[string]int{}}
	names := []string{"p", "q", "r", "s", "read", "resource", "right", "t"}
	n := 1 + r.Intn(4)
	for _, i := range r.Perm(len(names))[:n] {
		g.preds = append(g.preds, names[i])
		g.arity[names[i]] = r.Intn(4)
		if r.Chance(1, 2) {
			g.arity[names[i]] = 1 + r.Intn(2)
		}
	}
	switch r.Intn(4) {
	case 0:
		g.consts = []Term{I(0), I(1), I(2)}
	case 1:
		g.consts = []Term{I(0), I(1), S("a"), S("b")}
	case 2:
		g.consts = []Term{I(0), I(1), I(2), I(3), S("a"), S("read"), B([]byte{1}), D(5), O(true), SetOf(I(1), I(2)), SetOf(S("a"))}
	default:
		g.consts = []Term{I(1), I(2), S("a")}
	}
	g.vars = []string{"x", "y", "z", "w"}[:2+r.Intn(3)]
	return g
}

func (g *progGen) fact() Pred {
	n := Pick(g.r, g.preds)
	p := Pred{Name: n}
	ar := g.arity[n]
	if g.r.Chance(1, 12) {
		ar = varyArity(g.r, ar) // same name, other arity
	}
	for i := 0; i < ar; i++ {
		p.Terms = append(p.Terms, Pick(g.r, g.consts))
	}
	return p
}

func (g *progGen) atom(varBias int) Pred {
	n := Pick(g.r, g.preds)
	p := Pred{Name: n}
	ar := g.arity[n]
	if g.r.Chance(1, 15) {
		ar = varyArity(g.r, ar)
	}
	for i := 0; i < ar; i++ {
		if g.r.Chance(varBias, 10) {
			p.Terms = append(p.Terms, V(Pick(g.r, g.vars)))
		} else {
			p.Terms = append(p.Terms, Pick(g.r, g.consts))
		}
	}
	return p
}

func bodyVarsOf(body []Pred) []string {
	seen := map[string]bool{}
	var out []string
	for _, p := range body {
		for _, t := range p.Terms {
			if t.K == 'v' && !seen[t.N] {
				seen[t.N] = true
				out = append(out, t.N)
			}
		}
	}
	return out
}

// expr generates a small expression over body variables: error-free by typing is
// not guaranteed (constants are mixed), which exercises the error paths too.
func (g *progGen) expr(vars []string, errFree bool) Expr {
	r := g.r
	operand := func() Op {
		if len(vars) > 0 && r.Chance(2, 3) {
			return Op{K: 'v', T: V(Pick(r, vars))}
		}
		return Op{K: 'v', T: I(int64(r.Intn(4)))}
	}
	if errFree {
		// equality of a variable with itself or with another variable of any type never errs
		// only if types agree; use x == x (always true) or typed-safe forms
		a := operand()
		switch r.Intn(3) {
		case 0:
			return Expr{a, a, {K: 'b', B: "eq"}}
		case 1:
			return Expr{{K: 'v', T: O(r.Bool())}}
		default:
			return Expr{{K: 'v', T: I(int64(r.Intn(3)))}, {K: 'v', T: I(int64(r.Intn(3)))}, {K: 'b', B: Pick(r, []string{"lt", "le", "eq", "ge"})}}
		}
	}
	switch r.Intn(5) {
	case 0:
		return Expr{operand(), operand(), {K: 'b', B: Pick(r, []string{"lt", "le", "gt", "ge", "eq"})}}
	case 1:
		return Expr{operand(), operand(), {K: 'b', B: "add"}, operand(), {K: 'b', B: "lt"}}
	case 2:
		return Expr{operand(), {K: 'v', T: I(0)}, {K: 'b', B: "div"}, {K: 'v', T: I(0)}, {K: 'b', B: "eq"}}
	case 3:
		return Expr{{K: 'v', T: V("nobody")}, {K: 'v', T: I(1)}, {K: 'b', B: "eq"}}
	default:
		return Expr{operand()}
	}
}

func (g *progGen) rule(allowInvalid bool, exprMode int) Rule {
	r := g.r
	nb := 1 + r.Intn(3)
	if r.Chance(1, 8) {
		nb = 4
	}
	if r.Chance(1, 12) {
		nb = 0
	}
	var body []Pred
	for i := 0; i < nb; i++ {
		body = append(body, g.atom(7))
	}
	bv := bodyVarsOf(body)
	hn := Pick(r, g.preds)
	head := Pred{Name: hn}
	for i := 0; i < g.arity[hn]; i++ {
		switch {
		case len(bv) > 0 && r.Chance(7, 10):
			head.Terms = append(head.Terms, V(Pick(r, bv)))
		case allowInvalid && r.Chance(1, 6):
			head.Terms = append(head.Terms, V("unbound"))
		default:
			head.Terms = append(head.Terms, Pick(r, g.consts))
		}
	}
	rule := Rule{Head: head, Body: body}
	ne := 0
	if exprMode > 0 && r.Chance(1, 3) {
		ne = 1 + r.Intn(2)
	}
	if nb == 0 && ne == 0 {
		ne = 1
	}
	for i := 0; i < ne; i++ {
		rule.Exprs = append(rule.Exprs, g.expr(bv, exprMode == 1))
	}
	return rule
}

// graphProgram: programs whose joins fire and recurse — edges over a few nodes, transitive
// closure in left- or right-recursive form, mutual recursion, a self-join with a repeated
// variable, constants in rule bodies, an arity-0 predicate.
func graphProgram(r *Rng) runCase {
	var rc runCase
	nodes := 2 + r.Intn(4)
	node := func() Term {
		if r.Chance(1, 5) {
			return S(fmt.Sprintf("n%d", r.Intn(nodes)))
		}
		return I(int64(r.Intn(nodes)))
	}
	for i, n := 0, 1+r.Intn(8); i < n; i++ {
		rc.Facts = append(rc.Facts, Pred{Name: "e", Terms: []Term{node(), node()}})
	}
	if r.Chance(1, 2) {
		rc.Facts = append(rc.Facts, Pred{Name: "start", Terms: []Term{node()}})
	}
	if r.Chance(1, 3) {
		rc.Facts = append(rc.Facts, Pred{Name: "flag"})
	}
	x, y, z := V("x"), V("y"), V("z")
	rules := []Rule{
		{Head: Pred{Name: "path", Terms: []Term{x, y}}, Body: []Pred{{Name: "e", Terms: []Term{x, y}}}},
		{Head: Pred{Name: "path", Terms: []Term{x, z}}, Body: []Pred{{Name: "path", Terms: []Term{x, y}}, {Name: "e", Terms: []Term{y, z}}}},
		{Head: Pred{Name: "path", Terms: []Term{x, z}}, Body: []Pred{{Name: "e", Terms: []Term{x, y}}, {Name: "path", Terms: []Term{y, z}}}},
		{Head: Pred{Name: "path", Terms: []Term{x, z}}, Body: []Pred{{Name: "path", Terms: []Term{x, y}}, {Name: "path", Terms: []Term{y, z}}}},
		{Head: Pred{Name: "loop", Terms: []Term{x}}, Body: []Pred{{Name: "path", Terms: []Term{x, x}}}},
		{Head: Pred{Name: "reach", Terms: []Term{y}}, Body: []Pred{{Name: "start", Terms: []Term{x}}, {Name: "path", Terms: []Term{x, y}}}},
		{Head: Pred{Name: "a", Terms: []Term{x}}, Body: []Pred{{Name: "b", Terms: []Term{x}}}},
		{Head: Pred{Name: "b", Terms: []Term{y}}, Body: []Pred{{Name: "a", Terms: []Term{x}}, {Name: "e", Terms: []Term{x, y}}}},
		{Head: Pred{Name: "a", Terms: []Term{x}}, Body: []Pred{{Name: "start", Terms: []Term{x}}}},
		{Head: Pred{Name: "tri", Terms: []Term{x, y, z}}, Body: []Pred{{Name: "e", Terms: []Term{x, y}}, {Name: "e", Terms: []Term{y, z}}, {Name: "e", Terms: []Term{z, x}}}},
		{Head: Pred{Name: "from0", Terms: []Term{y}}, Body: []Pred{{Name: "e", Terms: []Term{I(0), y}}}},
		{Head: Pred{Name: "flagged", Terms: []Term{x}}, Body: []Pred{{Name: "flag"}, {Name: "start", Terms: []Term{x}}}},
		{Head: Pred{Name: "sym", Terms: []Term{x, y}}, Body: []Pred{{Name: "e", Terms: []Term{x, y}}, {Name: "e", Terms: []Term{y, x}}}},
		{Head: Pred{Name: "big", Terms: []Term{x, y}}, Body: []Pred{{Name: "path", Terms: []Term{x, y}}}, Exprs: []Expr{{{K: 'v', T: x}, {K: 'v', T: y}, {K: 'b', B: "lt"}}}},
	}
	for _, i := range r.Perm(len(rules))[:1+r.Intn(5)] {
		rc.Rules = append(rc.Rules, rules[i])
	}
	rc.MaxFacts, rc.MaxIter = 1000, 100
	return rc
}

// ---------- independent reference: naive bottom-up over expression-free programs ----------

func refUnify(p Pred, f Pred, env map[string]string) (map[string]string, bool) {
	if p.Name != f.Name || len(p.Terms) != len(f.Terms) {
		return nil, false
	}
	out := env
	copied := false
	for i, t := range p.Terms {
		fv := f.Terms[i].Sx()
		if t.K == 'v' {
			if cur, ok := out[t.N]; ok {
				if cur != fv {
					return nil, false
				}
			} else {
				if !copied {
					n := make(map[string]string, len(out)+1)
					for k, v := range out {
						n[k] = v
					}
					out = n
					copied = true
				}
				out[t.N] = fv
			}
		} else if t.Sx() != fv {
			return nil, false
		}
	}
	return out, true
}

// refLeastModel: fact strings of the least model, or ok=false if some rule is
// invalid on a match (head variable unbound) — then the engine must not return ok.
func refLeastModel(facts []Pred, rules []Rule) (map[string]bool, bool) {
	type gf struct {
		p  Pred
		sx string
	}
	cur := map[string]bool{}
	var list []Pred
	for _, f := range facts {
		if !cur[f.FactSx()] {
			cur[f.FactSx()] = true
			list = append(list, f)
		}
	}
	for round := 0; round < 200; round++ {
		var added []Pred
		for _, r := range rules {
			var rec func(i int, env map[string]string, vals map[string]Term) bool
			rec = func(i int, env map[string]string, vals map[string]Term) bool {
				if i == len(r.Body) {
					h := Pred{Name: r.Head.Name}
					for _, t := range r.Head.Terms {
						if t.K == 'v' {
							v, ok := vals[t.N]
							if !ok {
								return false
							}
							h.Terms = append(h.Terms, v)
						} else {
							h.Terms = append(h.Terms, t)
						}
					}
					if !cur[h.FactSx()] {
						cur[h.FactSx()] = true
						added = append(added, h)
					}
					return true
				}
				for _, f := range list {
					env2, ok := refUnify(r.Body[i], f, env)
					if !ok {
						continue
					}
					vals2 := vals
					if len(env2) != len(env) {
						vals2 = make(map[string]Term, len(vals)+2)
						for k, v := range vals {
							vals2[k] = v
						}
						for j, t := range r.Body[i].Terms {
							if t.K == 'v' {
								if _, have := vals2[t.N]; !have {
									vals2[t.N] = f.Terms[j]
								}
							}
						}
					}
					if !rec(i+1, env2, vals2) {
						return false
					}
				}
				return true
			}
			if !rec(0, map[string]string{}, map[string]Term{}) {
				return nil, false
			}
		}
		if len(added) == 0 {
			return cur, true
		}
		list = append(list, added...)
	}
	return cur, true
}

// queryHistories: Authorizer.Query as the public way to ask for the consequences of the
// current facts and rules — after an earlier Query or Authorize, with facts and rules added
// in between (the answer must be over the least model of what the authorizer holds NOW).
func queryHistories(c *Ctx) {
	r := NewRng(c.Seed ^ 0x71e5)
	n := 300
	if c.Thorough {
		n = 5000
	}
	x, y := V("x"), V("y")
	for i := 0; i < n; i++ {
		rc := graphProgram(r)
		facts := permuted(r, dedupFacts(rc.Facts))
		rules := permuted(r, rc.Rules)
		a := AuthCase{InMemory: r.Chance(1, 2), MaxFacts: 1000, MaxIter: 100, Ctor: "for"}
		// some of the facts come with the token
		k := r.Intn(len(facts) + 1)
		a.Tokens = [][]Block{{Block{Facts: facts[:k]}}}
		facts = facts[k:]
		heads := []Pred{}
		for _, rl := range rc.Rules {
			heads = append(heads, rl.Head)
		}
		query := func() AuthOp {
			h := Pick(r, heads)
			q := Rule{Head: Pred{Name: "answer"}, Body: []Pred{{Name: h.Name}}}
			for j := range h.Terms {
				v := []Term{x, y, V("z")}[j%3]
				q.Head.Terms = append(q.Head.Terms, v)
				q.Body[0].Terms = append(q.Body[0].Terms, v)
			}
			return AuthOp{K: "query", Rule: q}
		}
		// first phase: part of the content, then a first Query or Authorize
		nf, nr := r.Intn(len(facts)+1), r.Intn(len(rules)+1)
		for _, f := range facts[:nf] {
			a.Ops = append(a.Ops, AuthOp{K: "addfact", Fact: f})
		}
		for _, rl := range rules[:nr] {
			a.Ops = append(a.Ops, AuthOp{K: "addrule", Rule: rl})
		}
		facts, rules = facts[nf:], rules[nr:]
		if r.Chance(1, 3) {
			a.Ops = append(a.Ops, AuthOp{K: "authorize"})
		} else {
			a.Ops = append(a.Ops, query())
		}
		// later phases: one or two additions, then a Query
		for len(facts)+len(rules) > 0 {
			for j, m := 0, 1+r.Intn(2); j < m && len(facts)+len(rules) > 0; j++ {
				if len(rules) == 0 || (len(facts) > 0 && r.Chance(1, 2)) {
					a.Ops = append(a.Ops, AuthOp{K: "addfact", Fact: facts[0]})
					facts = facts[1:]
				} else {
					a.Ops = append(a.Ops, AuthOp{K: "addrule", Rule: rules[0]})
					rules = rules[1:]
				}
			}
			a.Ops = append(a.Ops, query())
		}
		res, sx := emitAuth(c, "query-history", a)
		c.Count(fmt.Sprintf("query-history:queries=%d", strings.Count(sx, "(query ")))
		if strings.Contains(res, "(f ") {
			c.NonTrivial(sx)
		}
		if i < 1 {
			c.Sample(map[string]string{"case": trunc(sx, 1500), "go": trunc(res, 800)})
		}
	}
}

// queryAfterLoad: Query, then LoadPolicies of more rules and facts into the same authorizer,
// then Query again — the second answer must be over the least model of everything held.
// Default symbols and integers only: a load into a used authorizer re-bases its symbol
// table, which leaves only such content readable (see liveLoad in C18).
func queryAfterLoad(c *Ctx) {
	r := NewRng(c.Seed ^ 0x10ad)
	n := 150
	if c.Thorough {
		n = 2500
	}
	x, y, z := V("x"), V("y"), V("z")
	edge, path, reach := "resource", "right", "owner"
	rules := []Rule{
		{Head: Pred{Name: path, Terms: []Term{x, y}}, Body: []Pred{{Name: edge, Terms: []Term{x, y}}}},
		{Head: Pred{Name: path, Terms: []Term{x, z}}, Body: []Pred{{Name: path, Terms: []Term{x, y}}, {Name: edge, Terms: []Term{y, z}}}},
		{Head: Pred{Name: reach, Terms: []Term{y}}, Body: []Pred{{Name: path, Terms: []Term{I(0), y}}}},
		{Head: Pred{Name: "role", Terms: []Term{x}}, Body: []Pred{{Name: reach, Terms: []Term{x}}, {Name: edge, Terms: []Term{x, x}}}},
	}
	for i := 0; i < n; i++ {
		nodes := 2 + r.Intn(4)
		var facts []Pred
		for k, m := 0, 2+r.Intn(6); k < m; k++ {
			facts = append(facts, Pred{Name: edge, Terms: []Term{I(int64(r.Intn(nodes))), I(int64(r.Intn(nodes)))}})
		}
		facts = permuted(r, dedupFacts(facts))
		rs := permuted(r, rules)[:1+r.Intn(len(rules))]
		query := func() AuthOp {
			h := Pick(r, []Pred{{Name: path, Terms: []Term{x, y}}, {Name: reach, Terms: []Term{x}}, {Name: "role", Terms: []Term{x}}})
			return AuthOp{K: "query", Rule: Rule{Head: Pred{Name: "user", Terms: h.Terms}, Body: []Pred{h}}}
		}
		a := AuthCase{InMemory: r.Chance(1, 2), MaxFacts: 1000, MaxIter: 100, Ctor: "for"}
		kf, kr := r.Intn(len(facts)+1), r.Intn(len(rs)+1)
		a.Tokens = [][]Block{{Block{Facts: facts[:kf/2]}}}
		for _, f := range facts[kf/2 : kf] {
			a.Ops = append(a.Ops, AuthOp{K: "addfact", Fact: f})
		}
		for _, rl := range rs[:kr] {
			a.Ops = append(a.Ops, AuthOp{K: "addrule", Rule: rl})
		}
		if r.Chance(1, 4) {
			a.Ops = append(a.Ops, AuthOp{K: "authorize"})
		} else {
			a.Ops = append(a.Ops, query())
		}
		var sub []AuthOp
		for _, f := range facts[kf:] {
			sub = append(sub, AuthOp{K: "addfact", Fact: f})
		}
		for _, rl := range rs[kr:] {
			sub = append(sub, AuthOp{K: "addrule", Rule: rl})
		}
		a.Ops = append(a.Ops, AuthOp{K: "load", Sub: sub}, query(), query())
		res, sx := emitAuth(c, "query-after-load", a)
		c.Count("query-after-load")
		if strings.Contains(res, "(f ") {
			c.NonTrivial(sx)
		}
	}
}

func runC05(c *Ctx) {
	c.Rule = "random Datalog programs over a small vocabulary (1-4 predicates incl. default symbols, arities 0-3, constants of every type incl. sets, 2-4 variable names, bodies of 0-4 atoms, repeated variables, self-joins, recursion, unbound head variables, error-free and erroring expressions); odometer shapes (all facts share one name; the only match is the last fact; no match for the last atom); QUERY cases for single-rule application; ODO cases: the order and multiplicity in which Rule.Apply emits index tuples for a given match table, exhaustive over all tables for small shapes and random for up to 5 predicates x 7 facts, against Model/Odometer.combos (proved equal to the lexicographic specification and to solve); query histories on an authorizer (graph programs split between the token and the authorizer; Query or Authorize, then facts and rules added one or two at a time with a Query after each: every answer must be over the least model of what the authorizer holds at that moment). Non-trivial = the run derived at least one new fact through a rule with >= 2 body atoms, or a QUERY returned >= 1 instance; distinct = distinct canonical case encodings. Expression-free successful runs are cross-checked against an independent in-harness least-model computation."
	r := NewRng(c.Seed)
	n := 4000
	if c.Thorough {
		n = 60000
	}
	queryHistories(c)
	queryAfterLoad(c)
	for i := 0; i < n; i++ {
		g := newProgGen(r)
		var rc runCase
		exprMode := r.Intn(3) // 0 none, 1 error-free, 2 any
		if r.Chance(1, 2) {
			rc = graphProgram(r)
			exprMode = 2
			c.Count("shape:graph")
		} else {
			nf := r.Intn(11)
			for j := 0; j < nf; j++ {
				rc.Facts = append(rc.Facts, g.fact())
			}
			nr := r.Intn(4)
			if r.Chance(1, 10) {
				nr = 5
			}
			for j := 0; j < nr; j++ {
				rc.Rules = append(rc.Rules, g.rule(r.Chance(1, 6), exprMode))
			}
			rc.MaxFacts, rc.MaxIter = 1000, 100
			c.Count("shape:random")
		}
		sx := runCaseSx(rc, "(rx)")
		res := execCase("RUN", sx)
		if res == "environment-timeout" {
			c.Count("environment-timeout")
			continue
		}
		id := c.NewID("run")
		c.Case("RUN", id, sx, res)
		cls := strings.SplitN(res, " ", 2)[0]
		c.Count("run:" + cls)
		if strings.HasPrefix(res, "panic") {
			c.Violate("C05/panic:"+strings.TrimPrefix(res, "panic "), "World.Run panicked", map[string]interface{}{"verb": "RUN", "case": sx, "go": res})
			continue
		}
		derived := strings.Count(res, "(f ") - countDistinctFacts(rc.Facts)
		multi := false
		for _, rl := range rc.Rules {
			if len(rl.Body) >= 2 {
				multi = true
			}
		}
		if cls == "ok" && derived >= 5 {
			c.Count("run:derived>=5")
		}
		if cls == "ok" && derived > 0 {
			c.Count("run:derived>0")
			if multi {
				c.NonTrivial(sx)
			}
		}
		if i < 2 {
			c.Sample(map[string]string{"stream": "run", "case": sx, "go": res})
		}
		// independent reference on expression-free programs
		if !hasExprs(rc.Rules) {
			ref, valid := refLeastModel(rc.Facts, rc.Rules)
			c.Count("ref-checked")
			switch {
			case valid && cls == "ok":
				got := strings.TrimPrefix(res, "ok ")
				keys := make([]string, 0, len(ref))
				for k := range ref {
					keys = append(keys, k)
				}
				sort.Strings(keys)
				want := "(" + strings.Join(keys, " ") + ")"
				if got != want {
					c.Violate("C05/least-model", "World.Run returned a fact set that is not the least model", map[string]interface{}{"verb": "RUN", "case": sx, "go": res, "want": "ok " + want})
				}
			case !valid && cls == "ok":
				c.Violate("C05/invalid-rule-accepted", "World.Run returned nil although a matched rule has an unbound head variable", map[string]interface{}{"verb": "RUN", "case": sx, "go": res})
			}
		}
	}

	// QUERY: single rule application over crafted odometer shapes
	nq := 3000
	if c.Thorough {
		nq = 40000
	}
	for i := 0; i < nq; i++ {
		g := newProgGen(r)
		shape := r.Intn(5)
		var facts []Pred
		nf := 1 + r.Intn(10)
		if r.Chance(1, 10) {
			nf = 0
		}
		switch shape {
		case 0: // all facts share one predicate name and arity: every fact matches every atom by name
			g.preds = g.preds[:1]
			if g.arity[g.preds[0]] == 0 {
				g.arity[g.preds[0]] = 2
			}
		}
		for j := 0; j < nf; j++ {
			facts = append(facts, g.fact())
		}
		rule := g.rule(r.Chance(1, 8), r.Intn(3))
		if shape == 1 && len(rule.Body) > 0 && len(facts) > 0 {
			// the only fact matching the last atom sits last
			last := rule.Body[len(rule.Body)-1]
			f := Pred{Name: "zz"}
			for range last.Terms {
				f.Terms = append(f.Terms, Pick(r, g.consts))
			}
			nl := Pred{Name: "zz"}
			for k, t := range last.Terms {
				if t.K == 'v' {
					nl.Terms = append(nl.Terms, t)
				} else {
					nl.Terms = append(nl.Terms, f.Terms[k])
				}
			}
			rule.Body[len(rule.Body)-1] = nl
			facts = append(facts, f)
		}
		sx := queryCaseSx(facts, rule, "(rx)")
		res := execCase("QUERY", sx)
		id := c.NewID("query")
		c.Case("QUERY", id, sx, res)
		c.Count("query:" + strings.SplitN(res, " ", 2)[0])
		c.Count(fmt.Sprintf("query-body:%d", len(rule.Body)))
		if strings.HasPrefix(res, "panic") || strings.HasPrefix(res, "inconsistent") {
			c.Violate("C05/query:"+strings.SplitN(res, " ", 2)[0], "QueryRule misbehaved: "+res, map[string]interface{}{"verb": "QUERY", "case": sx, "go": res})
			continue
		}
		if strings.Contains(res, "(f ") {
			c.NonTrivial(sx)
		}
		if i < 2 {
			c.Sample(map[string]string{"stream": "query", "case": sx, "go": res})
		}
	}
	odoStream(c, r)
}

func hasExprs(rules []Rule) bool {
	for _, r := range rules {
		if len(r.Exprs) > 0 {
			return true
		}
	}
	return false
}

func countDistinctFacts(fs []Pred) int {
	seen := map[string]bool{}
	for _, f := range fs {
		seen[f.FactSx()] = true
	}
	return len(seen)
}
