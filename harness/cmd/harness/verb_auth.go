package main

// AUTHSEQ verb: a family of tokens built through the library (builder, append,
// serialize, unmarshal), one authorizer, a history of operations. Serves C02,
// C03, C04, C11(c), C12, C13, C18 with different generators and witness searches.

import (
	"crypto/ed25519"
	"errors"
	"fmt"
	"regexp"
	"sort"
	"strings"
	"time"

	"github.com/biscuit-auth/biscuit-go/v2"
	"github.com/biscuit-auth/biscuit-go/v2/datalog"
)

func init() {
	execs["AUTHSEQ"] = execAuthSeq
}

// detRand is a deterministic io.Reader for key generation (fast, reproducible).
type detRand struct{ r *Rng }

func (d *detRand) Read(p []byte) (int, error) {
	for i := range p {
		p[i] = byte(d.r.U64())
	}
	return len(p), nil
}

type AuthOp struct {
	K      string // addfact addrule addcheck addpolicy authorize query reset saveload
	Fact   Pred
	Rule   Rule
	Check  Check
	Policy Policy
	Tok    int
	Sub    []AuthOp // "load": content of the scratch authorizer whose snapshot is loaded
}

func (o AuthOp) Sx() string {
	switch o.K {
	case "addfact":
		return "(addfact " + o.Fact.FactSxRaw() + ")"
	case "addrule":
		return "(addrule " + o.Rule.Sx() + ")"
	case "addcheck":
		return "(addcheck " + o.Check.Sx() + ")"
	case "addpolicy":
		return "(addpolicy " + o.Policy.Sx() + ")"
	case "query":
		return "(query " + o.Rule.Sx() + ")"
	case "saveload":
		return fmt.Sprintf("(saveload %d)", o.Tok)
	case "load":
		parts := make([]string, len(o.Sub))
		for i, s := range o.Sub {
			parts[i] = s.Sx()
		}
		if len(parts) == 0 {
			return "(load)"
		}
		return "(load " + strings.Join(parts, " ") + ")"
	}
	return "(" + o.K + ")"
}

type AuthCase struct {
	InMemory          bool // authorize the *Biscuit returned by Build/Append, without a wire round trip
	Bulk              bool // content goes in through AddBlock(ParsedBlock) / AddAuthorizer(ParsedAuthorizer)
	SplitOpts         bool // each limit in its own WithWorldOptions(...) option
	MaxFacts, MaxIter int
	Ctor              string // for | auth | verifier
	Tokens            [][]Block
	Ops               []AuthOp
}

func (a AuthCase) Sx() string {
	toks := make([]string, len(a.Tokens))
	for i, t := range a.Tokens {
		bs := make([]string, len(t))
		for j, b := range t {
			bs[j] = b.Sx()
		}
		toks[i] = "(token " + strings.Join(bs, " ") + ")"
	}
	ops := make([]string, 0, len(a.Ops))
	for _, o := range a.Ops {
		ops = append(ops, o.Sx()) // "(savekeep)" is skipped by the model: saving changes nothing
	}
	ctor := a.Ctor
	if ctor == "" {
		ctor = "for"
	}
	mem := ""
	if a.InMemory {
		mem = " (inmemory)"
	}
	if a.Bulk {
		mem += " (bulk)"
	}
	if a.SplitOpts {
		mem += " (splitopts)"
	}
	return fmt.Sprintf("(case (limits %d %d) (ctor %s)%s %s %s %s)", a.MaxFacts, a.MaxIter, ctor, mem, sxList("tokens", toks), sxList("ops", ops), a.rxSx())
}

// rxSx: the regex oracle for a case that uses `matches` — every string of the case against
// every string of the case, by the standard library directly.
func (a AuthCase) rxSx() string {
	var pool []string
	hasRx := false
	term := func(t Term) { collectStrings(t, &pool) }
	pred := func(p Pred) {
		for _, t := range p.Terms {
			term(t)
		}
	}
	rule := func(rl Rule) {
		pred(rl.Head)
		for _, p := range rl.Body {
			pred(p)
		}
		for _, e := range rl.Exprs {
			for _, o := range e {
				if o.K == 'v' {
					term(o.T)
				}
				if o.K == 'b' && o.B == "regex" {
					hasRx = true
				}
			}
		}
	}
	rules := func(rs []Rule) {
		for _, rl := range rs {
			rule(rl)
		}
	}
	for _, t := range a.Tokens {
		for _, b := range t {
			for _, f := range b.Facts {
				pred(f)
			}
			rules(b.Rules)
			for _, ck := range b.Checks {
				rules(ck.Queries)
			}
		}
	}
	var walk func(ops []AuthOp)
	walk = func(ops []AuthOp) {
		for _, o := range ops {
			switch o.K {
			case "addfact":
				pred(o.Fact)
			case "addrule", "query":
				rule(o.Rule)
			case "addcheck":
				rules(o.Check.Queries)
			case "addpolicy":
				rules(o.Policy.Queries)
			case "load":
				walk(o.Sub)
			}
		}
	}
	walk(a.Ops)
	if !hasRx {
		return "(rx)"
	}
	return rxTable(pool)
}

func decAuthCase(cs *Sx) (AuthCase, error) {
	var a AuthCase
	a.MaxFacts, a.MaxIter = 1000, 100
	if lim, ok := cs.field("limits"); ok && len(lim) == 2 {
		fmt.Sscanf(lim[0].Atom, "%d", &a.MaxFacts)
		fmt.Sscanf(lim[1].Atom, "%d", &a.MaxIter)
	}
	a.Ctor = "for"
	if _, ok := cs.field("inmemory"); ok {
		a.InMemory = true
	}
	if _, ok := cs.field("bulk"); ok {
		a.Bulk = true
	}
	if _, ok := cs.field("splitopts"); ok {
		a.SplitOpts = true
	}
	if c, ok := cs.field("ctor"); ok && len(c) == 1 {
		a.Ctor = c[0].Atom
	}
	toks, _ := cs.field("tokens")
	for _, t := range toks {
		if t.tag() != "token" {
			return a, fmt.Errorf("bad token")
		}
		var blocks []Block
		for _, b := range t.List[1:] {
			blk, err := decBlock(b)
			if err != nil {
				return a, err
			}
			blocks = append(blocks, blk)
		}
		a.Tokens = append(a.Tokens, blocks)
	}
	ops, _ := cs.field("ops")
	var decOp func(o *Sx) (AuthOp, error)
	decOp = func(o *Sx) (AuthOp, error) {
		op := AuthOp{K: o.tag()}
		var err error
		switch op.K {
		case "load":
			for _, sub := range o.List[1:] {
				so, e := decOp(sub)
				if e != nil {
					return op, e
				}
				switch so.K {
				case "addfact", "addrule", "addcheck", "addpolicy":
				default:
					return op, fmt.Errorf("bad content op %s", so.K)
				}
				op.Sub = append(op.Sub, so)
			}
		case "addfact":
			op.Fact, err = decPred(o.List[1])
		case "addrule", "query":
			op.Rule, err = decRule(o.List[1])
		case "addcheck":
			op.Check, err = decCheck(o.List[1])
		case "addpolicy":
			op.Policy, err = decPolicy(o.List[1])
		case "saveload":
			fmt.Sscanf(o.List[1].Atom, "%d", &op.Tok)
		case "authorize", "reset", "savekeep":
		default:
			err = fmt.Errorf("bad op %s", o)
		}
		return op, err
	}
	for _, o := range ops {
		op, err := decOp(o)
		if err != nil {
			return a, err
		}
		a.Ops = append(a.Ops, op)
	}
	return a, nil
}

var rootSeed = []byte("verif-root-key-seed-0123456789ab")

func rootKeys() (ed25519.PublicKey, ed25519.PrivateKey) {
	priv := ed25519.NewKeyFromSeed(rootSeed)
	return priv.Public().(ed25519.PublicKey), priv
}

var cfgTokenCache *biscuit.Biscuit

// configToken: the token of the party that prepares authorizer snapshots ("load" op). Its
// strings occur nowhere else.
func configToken() (*biscuit.Biscuit, error) {
	if cfgTokenCache != nil {
		return cfgTokenCache, nil
	}
	t, err := buildToken([]Block{{Facts: []Pred{{Name: "config-service", Terms: []Term{S("cfg-own-string-1"), S("cfg-own-string-2")}}}}}, NewRng(4242))
	if err == nil {
		cfgTokenCache = t
	}
	return t, err
}

// buildToken builds a token through the public API and passes it through the wire.
func buildToken(blocks []Block, rng *Rng) (*biscuit.Biscuit, error) {
	return buildTokenMem(blocks, rng, false)
}

// buildTokenMem: with inMemory the *Biscuit returned by Build / Append is used as is.
func buildTokenMem(blocks []Block, rng *Rng, inMemory bool) (*biscuit.Biscuit, error) {
	return buildTokenStyle(blocks, rng, inMemory, false)
}

func parsedBlockOf(blk Block) biscuit.ParsedBlock {
	var pb biscuit.ParsedBlock
	for _, f := range dedupFacts(blk.Facts) { // AddBlock stops at the first duplicate fact
		pb.Facts = append(pb.Facts, biscuit.Fact{Predicate: f.ToBiscuit()})
	}
	for _, r := range blk.Rules {
		pb.Rules = append(pb.Rules, r.ToBiscuit())
	}
	for _, c := range blk.Checks {
		pb.Checks = append(pb.Checks, c.ToBiscuit())
	}
	return pb
}

// buildTokenStyle: bulk = every block goes in through AddBlock(ParsedBlock), the route
// parsed Datalog text takes.
func buildTokenStyle(blocks []Block, rng *Rng, inMemory, bulk bool) (*biscuit.Biscuit, error) {
	if bulk {
		_, priv := rootKeys()
		rd := &detRand{rng}
		b := biscuit.NewBuilder(priv, biscuit.WithRNG(rd))
		if len(blocks) == 0 {
			blocks = []Block{{}}
		}
		if err := b.AddBlock(parsedBlockOf(blocks[0])); err != nil {
			return nil, err
		}
		tok, err := b.Build()
		if err != nil {
			return nil, err
		}
		for _, blk := range blocks[1:] {
			bb := tok.CreateBlock()
			if err := bb.AddBlock(parsedBlockOf(blk)); err != nil {
				return nil, err
			}
			if tok, err = tok.Append(rd, bb.Build()); err != nil {
				return nil, err
			}
		}
		if inMemory {
			return tok, nil
		}
		ser, err := tok.Serialize()
		if err != nil {
			return nil, err
		}
		return biscuit.Unmarshal(ser)
	}
	_, priv := rootKeys()
	rd := &detRand{rng}
	b := biscuit.NewBuilder(priv, biscuit.WithRNG(rd))
	if len(blocks) == 0 {
		blocks = []Block{{}}
	}
	auth := blocks[0]
	for _, f := range auth.Facts {
		if err := b.AddAuthorityFact(biscuit.Fact{Predicate: f.ToBiscuit()}); err != nil && !errors.Is(err, biscuit.ErrDuplicateFact) {
			return nil, err
		}
	}
	for _, r := range auth.Rules {
		if err := b.AddAuthorityRule(r.ToBiscuit()); err != nil {
			return nil, err
		}
	}
	for _, c := range auth.Checks {
		if err := b.AddAuthorityCheck(c.ToBiscuit()); err != nil {
			return nil, err
		}
	}
	tok, err := b.Build()
	if err != nil {
		return nil, err
	}
	for _, blk := range blocks[1:] {
		bb := tok.CreateBlock()
		for _, f := range blk.Facts {
			if err := bb.AddFact(biscuit.Fact{Predicate: f.ToBiscuit()}); err != nil && !errors.Is(err, biscuit.ErrDuplicateFact) {
				return nil, err
			}
		}
		for _, r := range blk.Rules {
			if err := bb.AddRule(r.ToBiscuit()); err != nil {
				return nil, err
			}
		}
		for _, c := range blk.Checks {
			if err := bb.AddCheck(c.ToBiscuit()); err != nil {
				return nil, err
			}
		}
		tok, err = tok.Append(rd, bb.Build())
		if err != nil {
			return nil, err
		}
	}
	if inMemory {
		return tok, nil
	}
	ser, err := tok.Serialize()
	if err != nil {
		return nil, err
	}
	return biscuit.Unmarshal(ser)
}

var failedRe = regexp.MustCompile(`failed to verify (?:check #(\d+)|block 0 check #(\d+)|block #(\d+) check #(\d+)): `)

func authErrClass(err error) string {
	if err == nil {
		return "ok"
	}
	var ire datalog.InvalidRuleError
	switch {
	case errors.Is(err, biscuit.ErrPolicyDenied):
		return "denied"
	case errors.Is(err, biscuit.ErrNoMatchingPolicy):
		return "nomatch"
	case errors.Is(err, datalog.ErrWorldRunLimitMaxFacts):
		return "limit-facts"
	case errors.Is(err, datalog.ErrWorldRunLimitMaxIterations):
		return "limit-iter"
	case errors.Is(err, datalog.ErrWorldRunLimitTimeout):
		return "limit-time"
	case errors.As(err, &ire):
		return "invalid-rule"
	}
	msg := err.Error()
	if strings.HasPrefix(msg, "biscuit: verification failed: failed to verify") {
		var ids []string
		for _, m := range failedRe.FindAllStringSubmatch(msg, -1) {
			switch {
			case m[1] != "":
				ids = append(ids, "a"+m[1])
			case m[2] != "":
				ids = append(ids, "b0."+m[2])
			default:
				ids = append(ids, "b"+m[3]+"."+m[4])
			}
		}
		return "checks[" + strings.Join(ids, ",") + "]"
	}
	if strings.Contains(msg, "datalog: expressions") || strings.Contains(msg, "datalog:") {
		return "expr-error"
	}
	return "other-error"
}

func newAuthorizer(tok *biscuit.Biscuit, a AuthCase) (biscuit.Authorizer, error) {
	pub, _ := rootKeys()
	opts := []biscuit.AuthorizerOption{biscuit.WithWorldOptions(datalog.WithMaxFacts(a.MaxFacts), datalog.WithMaxIterations(a.MaxIter), datalog.WithMaxDuration(20*time.Second))}
	if a.SplitOpts {
		// the same limits, each supplied by its own option value
		opts = []biscuit.AuthorizerOption{
			biscuit.WithWorldOptions(datalog.WithMaxDuration(20 * time.Second)),
			biscuit.WithWorldOptions(datalog.WithMaxFacts(a.MaxFacts)),
			biscuit.WithWorldOptions(datalog.WithMaxIterations(a.MaxIter)),
		}
	}
	switch a.Ctor {
	case "auth":
		return tok.Authorizer(pub, opts...)
	case "verifier":
		return biscuit.NewVerifier(tok, opts...)
	}
	return tok.AuthorizerFor(biscuit.WithSingularRootPublicKey(pub), opts...)
}

func goAuthSeq(a AuthCase) (res string) {
	defer func() {
		if r := recover(); r != nil {
			res = "panic " + panicSite(r)
		}
	}()
	rng := NewRng(77)
	toks := make([]*biscuit.Biscuit, len(a.Tokens))
	for i, t := range a.Tokens {
		tok, err := buildTokenStyle(t, rng, a.InMemory, a.Bulk)
		if err != nil {
			return "build-error " + err.Error()
		}
		toks[i] = tok
	}
	if len(toks) == 0 {
		return "bad-case"
	}
	az, err := newAuthorizer(toks[0], a)
	if err != nil {
		return "authorizer-error " + err.Error()
	}
	var outs []string
	var pending biscuit.ParsedAuthorizer
	havePending := false
	flush := func() {
		if havePending {
			az.AddAuthorizer(pending)
			pending, havePending = biscuit.ParsedAuthorizer{}, false
		}
	}
	for _, op := range a.Ops {
		if a.Bulk {
			switch op.K {
			case "addfact":
				pending.Block.Facts = append(pending.Block.Facts, biscuit.Fact{Predicate: op.Fact.ToBiscuit()})
				havePending = true
				continue
			case "addrule":
				pending.Block.Rules = append(pending.Block.Rules, op.Rule.ToBiscuit())
				havePending = true
				continue
			case "addcheck":
				pending.Block.Checks = append(pending.Block.Checks, op.Check.ToBiscuit())
				havePending = true
				continue
			case "addpolicy":
				pending.Policies = append(pending.Policies, op.Policy.ToBiscuit())
				havePending = true
				continue
			}
			flush()
		}
		switch op.K {
		case "addfact":
			az.AddFact(biscuit.Fact{Predicate: op.Fact.ToBiscuit()})
		case "addrule":
			az.AddRule(op.Rule.ToBiscuit())
		case "addcheck":
			az.AddCheck(op.Check.ToBiscuit())
		case "addpolicy":
			az.AddPolicy(op.Policy.ToBiscuit())
		case "authorize":
			outs = append(outs, authErrClass(az.Authorize()))
		case "query":
			fs, err := az.Query(op.Rule.ToBiscuit())
			if err != nil {
				c := authErrClass(err)
				outs = append(outs, "qerr:"+c)
			} else {
				items := make([]string, 0, len(fs))
				for _, f := range fs {
					items = append(items, FromBiscuitPred(f.Predicate).FactSx())
				}
				outs = append(outs, "facts:"+sortedFactsSx(items))
			}
		case "reset":
			az.Reset()
		case "savekeep":
			az.SerializePolicies() // result and error discarded: only its effect on az matters
		case "load":
			// the snapshot is made elsewhere: by an authorizer created for another token
			// (a configuration service's own), whose strings are not those of the token
			// the snapshot is loaded for
			cfgTok, err := configToken()
			if err != nil {
				return "bad-case"
			}
			scratch, err := newAuthorizer(cfgTok, a)
			if err != nil {
				return "authorizer-error " + err.Error()
			}
			for _, so := range op.Sub {
				switch so.K {
				case "addfact":
					scratch.AddFact(biscuit.Fact{Predicate: so.Fact.ToBiscuit()})
				case "addrule":
					scratch.AddRule(so.Rule.ToBiscuit())
				case "addcheck":
					scratch.AddCheck(so.Check.ToBiscuit())
				case "addpolicy":
					scratch.AddPolicy(so.Policy.ToBiscuit())
				}
			}
			data, err := scratch.SerializePolicies()
			if err != nil {
				outs = append(outs, "refused")
				continue
			}
			if err := az.LoadPolicies(data); err != nil {
				outs = append(outs, "load-error")
				continue
			}
			outs = append(outs, "saved")
		case "saveload":
			data, err := az.SerializePolicies()
			if err != nil {
				outs = append(outs, "refused")
				continue
			}
			if op.Tok < 0 || op.Tok >= len(toks) {
				return "bad-case"
			}
			az2, err := newAuthorizer(toks[op.Tok], a)
			if err != nil {
				return "authorizer-error " + err.Error()
			}
			if err := az2.LoadPolicies(data); err != nil {
				outs = append(outs, "load-error")
				continue
			}
			az = az2
			outs = append(outs, "saved")
		}
	}
	out := strings.Join(outs, " ")
	if strings.Contains(out, "limit-time") {
		return "environment-timeout"
	}
	return out
}

func execAuthSeq(cs *Sx) string {
	a, err := decAuthCase(cs)
	if err != nil {
		return "bad-case"
	}
	return goAuthSeq(a)
}

// ---------- scenario generator: small vocabulary so that joins, checks and policies fire ----------

type scenGen struct {
	pool   []Pred // facts generated so far: queries derived from them are likely to hold
	r      *Rng
	preds  []string
	arity  map[string]int
	consts []Term
	vars   []string
	mode   int // 0 expression-free, 1 error-free expressions, 2 any expressions
}

var scenPreds = []struct {
	n string
	a int
}{{"resource", 1}, {"operation", 1}, {"right", 2}, {"user", 1}, {"admin", 0}, {"owner", 2}, {"p", 1}, {"q", 2}, {"time", 1}, {"members", 1}}

// the last four are written with repeated elements / in another order: the token layer keeps
// each element once, so [1,1,2] and [1,2,2] are the same set {1,2} (finding D19)
var memberSets = []Term{SetOf(S("alice"), S("bob"), S("carol")), SetOf(S("bob"), S("dave")), SetOf(I(1), I(2), I(3)), SetOf(S("alice")),
	SetOf(I(1), I(1), I(2)), SetOf(I(1), I(2), I(2)), SetOf(S("bob"), S("alice"), S("bob")), SetOf(I(2), I(1))}

func newScenGen(r *Rng, mode int) *scenGen {
	g := &scenGen{r: r, arity: map[string]int{}, mode: mode}
	n := 3 + r.Intn(4)
	for _, i := range r.Perm(len(scenPreds))[:n] {
		g.preds = append(g.preds, scenPreds[i].n)
		g.arity[scenPreds[i].n] = scenPreds[i].a
	}
	pools := [][]Term{
		{S("file1"), S("read")},
		{S("file1"), S("file2"), S("read"), S("write")},
		{I(0), I(1), I(2)},
		{S("a"), I(1), D(100), B([]byte{1, 2}), O(true), SetOf(I(1), I(2))},
		{I(1), S("read"), S("fresh symbol")},
	}
	g.consts = Pick(r, pools)
	g.vars = []string{"x", "y", "z"}[:2+r.Intn(2)]
	return g
}

func (g *scenGen) fact() Pred {
	n := Pick(g.r, g.preds)
	p := Pred{Name: n}
	ar := g.arity[n]
	if n != "members" && g.r.Chance(1, 12) {
		// the same name with another arity: a different predicate as far as matching,
		// de-duplication and printing are concerned
		ar = varyArity(g.r, ar)
	}
	for i := 0; i < ar; i++ {
		if n == "members" {
			p.Terms = append(p.Terms, Pick(g.r, memberSets))
		} else {
			p.Terms = append(p.Terms, Pick(g.r, g.consts))
		}
	}
	if len(g.pool) < 40 {
		g.pool = append(g.pool, p)
	}
	return p
}

// queryFromPool generalises one or two generated facts into a query body (constants
// consistently replaced by variables), so that the query holds if those facts are in scope.
func (g *scenGen) queryFromPool() Rule {
	r := g.r
	q := Rule{Head: Pred{Name: "query"}}
	names := map[string]string{}
	for i, n := 0, 1+r.Intn(2); i < n; i++ {
		f := Pick(r, g.pool)
		p := Pred{Name: f.Name}
		for _, t := range f.Terms {
			if t.K != 'S' && r.Chance(1, 2) {
				k := t.Sx()
				if _, ok := names[k]; !ok {
					names[k] = Pick(r, g.vars)
					for _, used := range names {
						_ = used
					}
				}
				// one variable per distinct constant, so repeated variables stay consistent
				p.Terms = append(p.Terms, V("g"+names[k]+fmt.Sprint(len(k)%7)))
			} else {
				p.Terms = append(p.Terms, t)
			}
		}
		q.Body = append(q.Body, p)
	}
	return q
}

func varyArity(r *Rng, ar int) int {
	if ar == 0 || r.Chance(1, 2) {
		return ar + 1
	}
	return ar - 1
}

func (g *scenGen) atom() Pred {
	n := Pick(g.r, g.preds)
	p := Pred{Name: n}
	ar := g.arity[n]
	if n != "members" && g.r.Chance(1, 15) {
		ar = varyArity(g.r, ar)
	}
	for i := 0; i < ar; i++ {
		if g.r.Chance(6, 10) {
			p.Terms = append(p.Terms, V(Pick(g.r, g.vars)))
		} else {
			p.Terms = append(p.Terms, Pick(g.r, g.consts))
		}
	}
	return p
}

var rxPatterns = []string{"^a", "b$", "a.b", "^file[0-9]$", "x|ab", "[ab]+", "^$", "e", "^read|write$", "1"}

func (g *scenGen) expr(vars []string) Expr {
	r := g.r
	if g.mode == 1 {
		// error-free whatever the bindings: x == x, constants, typed constant comparisons
		switch r.Intn(4) {
		case 0:
			if len(vars) > 0 {
				v := Op{K: 'v', T: V(Pick(r, vars))}
				return Expr{v, v, {K: 'b', B: "eq"}}
			}
			return Expr{{K: 'v', T: O(true)}}
		case 1:
			return Expr{{K: 'v', T: O(r.Chance(3, 4))}}
		case 2:
			return Expr{{K: 'v', T: I(int64(r.Intn(3)))}, {K: 'v', T: I(int64(r.Intn(3)))}, {K: 'b', B: Pick(r, []string{"lt", "le", "eq", "ge"})}}
		default:
			if r.Chance(1, 3) {
				// `matches` with a pattern that compiles; which strings sit at which symbol
				// index differs from case to case and with the order of presentation
				return Expr{{K: 'v', T: S(Pick(r, []string{"ab", "file1", "b", ""}))}, {K: 'v', T: S(Pick(r, rxPatterns))}, {K: 'b', B: "regex"}}
			}
			if r.Chance(1, 4) {
				// length of a string counts bytes: strings with multi-byte characters
				return Expr{{K: 'v', T: S(Pick(r, []string{"héllo", "é", "日本", "ab", ""}))}, {K: 'u', U: "len"}, {K: 'v', T: I(int64(r.Intn(7)))}, {K: 'b', B: Pick(r, []string{"eq", "le", "gt"})}}
			}
			return Expr{{K: 'v', T: S("ab")}, {K: 'v', T: S(Pick(r, []string{"a", "b"}))}, {K: 'b', B: Pick(r, []string{"prefix", "suffix", "contains"})}}
		}
	}
	operand := func() Op {
		if len(vars) > 0 && r.Chance(2, 3) {
			return Op{K: 'v', T: V(Pick(r, vars))}
		}
		return Op{K: 'v', T: Pick(r, g.consts)}
	}
	if r.Chance(1, 8) {
		return Expr{operand(), {K: 'v', T: S(Pick(r, rxPatterns))}, {K: 'b', B: "regex"}}
	}
	switch r.Intn(4) {
	case 0:
		return Expr{operand(), operand(), {K: 'b', B: Pick(r, []string{"lt", "le", "gt", "ge", "eq"})}}
	case 1:
		return Expr{operand(), operand(), {K: 'b', B: "eq"}, {K: 'u', U: "neg"}}
	case 2:
		return Expr{operand(), {K: 'v', T: I(0)}, {K: 'b', B: "div"}, {K: 'v', T: I(0)}, {K: 'b', B: "eq"}}
	default:
		return Expr{operand()}
	}
}

// setBody: a body reading a set-valued fact through a set operator (the operand is the
// term stored in the fact: an operator that mutates its operand corrupts the shared fact).
func (g *scenGen) setBody() ([]Pred, []Expr) {
	r := g.r
	m := Op{K: 'v', T: V("m")}
	lit := Op{K: 'v', T: Pick(r, memberSets)}
	elem := Op{K: 'v', T: Pick(r, []Term{S("alice"), S("bob"), S("zed"), I(2), I(1)})}
	var e Expr
	switch r.Intn(6) {
	case 0:
		e = Expr{m, lit, {K: 'b', B: "intersection"}, {K: 'u', U: "len"}, {K: 'v', T: I(int64(r.Intn(3)))}, {K: 'b', B: Pick(r, []string{"ge", "gt", "eq"})}}
	case 1:
		e = Expr{m, lit, {K: 'b', B: "union"}, {K: 'u', U: "len"}, {K: 'v', T: I(int64(1 + r.Intn(4)))}, {K: 'b', B: Pick(r, []string{"ge", "le"})}}
	case 2:
		e = Expr{m, elem, {K: 'b', B: "contains"}}
	case 3:
		e = Expr{m, lit, {K: 'b', B: "contains"}}
	case 4:
		one := Op{K: 'v', T: SetOf(Pick(r, []Term{I(1), I(2), S("bob")}))}
		e = Expr{m, one, {K: 'b', B: "intersection"}, {K: 'u', U: "len"}, {K: 'v', T: I(int64(1 + r.Intn(2)))}, {K: 'b', B: "eq"}}
	default:
		e = Expr{m, lit, {K: 'b', B: "intersection"}, lit, {K: 'b', B: "eq"}}
	}
	return []Pred{{Name: "members", Terms: []Term{V("m")}}}, []Expr{e}
}

func (g *scenGen) body() ([]Pred, []Expr) {
	r := g.r
	if g.mode > 0 && g.arity["members"] == 1 && hasName(g.preds, "members") && r.Chance(1, 3) {
		return g.setBody()
	}
	nb := 1 + r.Intn(2)
	if r.Chance(1, 8) {
		nb = 3
	}
	if g.mode > 0 && r.Chance(1, 12) {
		nb = 0
	}
	var body []Pred
	for i := 0; i < nb; i++ {
		body = append(body, g.atom())
	}
	var ex []Expr
	if g.mode > 0 && (nb == 0 || r.Chance(1, 3)) {
		ex = append(ex, g.expr(bodyVarsOf(body)))
	}
	return body, ex
}

func (g *scenGen) rule() Rule {
	body, ex := g.body()
	if len(body) == 0 {
		body = []Pred{g.atom()}
	}
	bv := bodyVarsOf(body)
	hn := Pick(g.r, g.preds)
	head := Pred{Name: hn}
	for i := 0; i < g.arity[hn]; i++ {
		if len(bv) > 0 && g.r.Chance(7, 10) {
			head.Terms = append(head.Terms, V(Pick(g.r, bv)))
		} else if g.mode == 2 && g.r.Chance(1, 8) {
			head.Terms = append(head.Terms, V("unbound"))
		} else {
			head.Terms = append(head.Terms, Pick(g.r, g.consts))
		}
	}
	return Rule{Head: head, Body: body, Exprs: ex}
}

func (g *scenGen) query() Rule {
	if len(g.pool) > 0 && g.r.Chance(1, 2) {
		return g.queryFromPool()
	}
	body, ex := g.body()
	return Rule{Head: Pred{Name: "query"}, Body: body, Exprs: ex}
}

func (g *scenGen) check() Check {
	n := 1 + g.r.Intn(2)
	if g.r.Chance(1, 6) {
		n = 3
	}
	var c Check
	for i := 0; i < n; i++ {
		c.Queries = append(c.Queries, g.query())
	}
	return c
}

func (g *scenGen) policy() Policy {
	n := 1 + g.r.Intn(2)
	p := Policy{Allow: g.r.Chance(3, 5)}
	for i := 0; i < n; i++ {
		p.Queries = append(p.Queries, g.query())
	}
	return p
}

func dedupFacts(fs []Pred) []Pred {
	seen := map[string]bool{}
	var out []Pred
	for _, f := range fs {
		k := f.FactSx()
		if !seen[k] {
			seen[k] = true
			out = append(out, f)
		}
	}
	return out
}

func (g *scenGen) block(nf, nr, nc int) Block {
	var b Block
	for i := 0; i < nf; i++ {
		b.Facts = append(b.Facts, g.fact())
	}
	b.Facts = dedupFacts(b.Facts)
	for i := 0; i < nr; i++ {
		b.Rules = append(b.Rules, g.rule())
	}
	for i := 0; i < nc; i++ {
		b.Checks = append(b.Checks, g.check())
	}
	return b
}

// authContent generates authorizer-side content as a list of add operations.
func (g *scenGen) authContent() []AuthOp {
	r := g.r
	var ops []AuthOp
	for i, n := 0, r.Intn(5); i < n; i++ {
		ops = append(ops, AuthOp{K: "addfact", Fact: g.fact()})
	}
	for i, n := 0, r.Intn(3); i < n; i++ {
		ops = append(ops, AuthOp{K: "addrule", Rule: g.rule()})
	}
	for i, n := 0, r.Intn(3); i < n; i++ {
		ops = append(ops, AuthOp{K: "addcheck", Check: g.check()})
	}
	np := r.Intn(4)
	for i := 0; i < np; i++ {
		ops = append(ops, AuthOp{K: "addpolicy", Policy: g.policy()})
	}
	if r.Chance(1, 2) {
		// a catch-all allow at the end, as applications usually have
		ops = append(ops, AuthOp{K: "addpolicy", Policy: Policy{Allow: true, Queries: []Rule{{Head: Pred{Name: "query"}, Exprs: []Expr{{{K: 'v', T: O(true)}}}}}}})
	}
	return ops
}

func (g *scenGen) token(nblocks int) []Block {
	r := g.r
	t := []Block{g.block(r.Intn(6), r.Intn(3), r.Intn(3))}
	for i := 0; i < nblocks; i++ {
		b := g.block(r.Intn(4), r.Intn(3), r.Intn(3))
		// along an attenuation chain the same check is often carried by several blocks: each
		// copy is evaluated in its own block's scope (it may hold in one and fail in the other)
		if prev := t[len(t)-1]; len(prev.Checks) > 0 && r.Chance(1, 3) {
			b.Checks = append(b.Checks, Pick(r, prev.Checks))
		}
		t = append(t, b)
	}
	return t
}

func verdictClass(v string) string {
	if strings.HasPrefix(v, "checks[") {
		return "checks"
	}
	return v
}

func sortedCopy(xs []string) []string {
	out := append([]string{}, xs...)
	sort.Strings(out)
	return out
}

func biscuitOpts(a AuthCase) biscuit.AuthorizerOption {
	return biscuit.WithWorldOptions(datalog.WithMaxFacts(a.MaxFacts), datalog.WithMaxIterations(a.MaxIter), datalog.WithMaxDuration(20*time.Second))
}

func hasName(xs []string, n string) bool {
	for _, x := range xs {
		if x == n {
			return true
		}
	}
	return false
}
