package main

// C20 — entropy failure is reported, never a panic or a degenerate key.
// RNG verb: a scripted io.Reader; the finite fault grid is enumerated completely.

import (
	"bytes"
	"crypto/ed25519"
	"errors"
	"fmt"
	"io"
	"strings"

	"github.com/biscuit-auth/biscuit-go/v2"
	"github.com/biscuit-auth/biscuit-go/v2/datalog"
)

func init() {
	verbs["C20"] = runC20
	execs["RNG"] = execRng
}

type readStep struct {
	K    string // chunk | chunkerr | fail
	Data []byte
}

type scriptReader struct {
	steps []readStep
	reads int
	err   error
}

var errScripted = errors.New("scripted entropy failure")

func (s *scriptReader) Read(p []byte) (int, error) {
	s.reads++
	if len(s.steps) == 0 {
		return 0, io.EOF
	}
	st := &s.steps[0]
	switch st.K {
	case "fail":
		return 0, s.failErr()
	case "chunk":
		n := copy(p, st.Data)
		if n < len(st.Data) {
			st.Data = st.Data[n:]
		} else {
			s.steps = s.steps[1:]
		}
		return n, nil
	case "chunkerr":
		n := copy(p, st.Data)
		s.steps = append([]readStep{{K: "fail"}}, s.steps[1:]...)
		return n, s.failErr()
	}
	return 0, io.EOF
}

func (s *scriptReader) failErr() error {
	if s.err != nil {
		return s.err
	}
	return errScripted
}

func scriptSx(steps []readStep, op string) string {
	items := make([]string, len(steps))
	for i, st := range steps {
		switch st.K {
		case "fail":
			items[i] = "(fail)"
		case "chunk":
			items[i] = "(chunk " + hx(st.Data) + ")"
		default:
			items[i] = "(chunkerr " + hx(st.Data) + ")"
		}
	}
	return "(case (op " + op + ") " + sxList("script", items) + ")"
}

func decScript(cs *Sx) ([]readStep, string) {
	op := "build"
	if o, ok := cs.field("op"); ok && len(o) == 1 {
		op = o[0].Atom
	}
	var steps []readStep
	items, _ := cs.field("script")
	for _, it := range items {
		st := readStep{K: it.tag()}
		if len(it.List) == 2 {
			st.Data, _ = unhex(it.List[1].Atom)
		}
		steps = append(steps, st)
	}
	return steps, op
}

// execRng runs one randomness-drawing operation with the scripted source.
func execRng(cs *Sx) (res string) {
	defer func() {
		if r := recover(); r != nil {
			res = "panic " + panicSite(r)
			if strings.Contains(fmt.Sprint(r), "slice bounds") || strings.Contains(fmt.Sprint(r), "nil") {
				res = "panic nil-key"
			}
		}
	}()
	steps, op := decScript(cs)
	rd := &scriptReader{steps: append([]readStep{}, steps...)}
	_, priv := rootKeys()
	pub := priv.Public().(ed25519.PublicKey)
	var tok *biscuit.Biscuit
	var err error
	switch op {
	case "new":
		syms := &datalog.SymbolTable{}
		base, e0 := biscuit.NewBuilder(priv).Build()
		if e0 != nil {
			return "setup-error"
		}
		_ = base
		blk := base.CreateBlock().Build()
		tok, err = biscuit.New(rd, priv, syms, blk)
	case "append":
		base, e0 := biscuit.NewBuilder(priv).Build()
		if e0 != nil {
			return "setup-error"
		}
		tok, err = base.Append(rd, base.CreateBlock().Build())
	case "append-keyid":
		base, e0 := biscuit.NewBuilder(priv, biscuit.WithRootKeyID(7)).Build()
		if e0 != nil {
			return "setup-error"
		}
		tok, err = base.Append(rd, base.CreateBlock().Build())
	case "build-keyid": // the source given together with a root key id, in either order
		tok, err = biscuit.NewBuilder(priv, biscuit.WithRNG(rd), biscuit.WithRootKeyID(7)).Build()
	case "build-idkey":
		tok, err = biscuit.NewBuilder(priv, biscuit.WithRootKeyID(7), biscuit.WithRNG(rd)).Build()
	default:
		tok, err = biscuit.NewBuilder(priv, biscuit.WithRNG(rd)).Build()
	}
	if err != nil {
		if tok != nil {
			return "error-with-token"
		}
		return "error"
	}
	if tok == nil {
		return "nil-token"
	}
	data, err := tok.Serialize()
	if err != nil {
		return "unserializable"
	}
	env := decodeEnv(data)
	secret := env.GetProof().GetNextSecret()
	sbs := allSigned(env)
	last := sbs[len(sbs)-1]
	// witness: announced key derives from the delivered seed, and the token verifies
	if len(secret) != 32 || !bytes.Equal(ed25519.NewKeyFromSeed(secret).Public().(ed25519.PublicKey), last.NextKey.Key) {
		return "ok degenerate-key seed=" + hx(secret)
	}
	t2, err := biscuit.Unmarshal(data)
	if err != nil {
		return "ok unverifiable seed=" + hx(secret)
	}
	if _, err := t2.AuthorizerFor(biscuit.WithSingularRootPublicKey(pub)); err != nil {
		return "ok unverifiable seed=" + hx(secret)
	}
	return "ok seed=" + hx(secret)
}

func runC20(c *Ctx) {
	c.Rule = "the fault space is finite and enumerated completely: operations {New, Build+WithRNG, Append, Build+WithRNG+WithRootKeyID in both option orders, Append on a token with a root key id} x failure point k in 0..31 x reader behaviours {error together with the last chunk, error on the next call, io.EOF (script ends), 1-byte chunks then error, zero-length reads interleaved, one big chunk of k bytes then error} plus success scripts (exactly 32 bytes in 1/2/3/32 chunks, more than 32 bytes, error arriving with the 32nd byte). For every case: an error and no token when fewer than 32 bytes are delivered, otherwise a token whose next secret is exactly the delivered bytes, whose announced key is derived from them (stdlib ed25519) and which verifies. Non-trivial = every case (each is a distinct fault position/behaviour); exhaustive over the grid."
	seedBytes := make([]byte, 40)
	r := NewRng(c.Seed)
	for i := range seedBytes {
		seedBytes[i] = byte(r.U64())
	}
	emit := func(stream, op string, steps []readStep) {
		sx := scriptSx(steps, op)
		res := execCase("RNG", sx)
		c.Case("RNG", c.NewID(stream), sx, res)
		c.NonTrivial(sx)
		c.Count(stream + ":" + op + ":" + strings.SplitN(res, " ", 2)[0])
		if strings.HasPrefix(res, "panic") {
			c.Violate("C20/panic:"+op, "a failing random source made "+op+" panic: "+res, map[string]interface{}{"verb": "RNG", "case": sx, "go": res})
		} else if strings.Contains(res, "degenerate") || strings.Contains(res, "unverifiable") || res == "error-with-token" || res == "nil-token" {
			c.Violate("C20/bad-token:"+op, op+" returned "+res, map[string]interface{}{"verb": "RNG", "case": sx, "go": res})
		}
		if len(c.Samples) < 4 {
			c.Sample(map[string]string{"case": sx, "go": res})
		}
	}
	for _, op := range []string{"new", "build", "append", "build-keyid", "build-idkey", "append-keyid"} {
		for k := 0; k < 32; k++ {
			data := seedBytes[:k]
			emit("fault", op, []readStep{{K: "chunkerr", Data: data}})           // error with the last chunk
			emit("fault", op, []readStep{{K: "chunk", Data: data}, {K: "fail"}}) // error on the next call
			emit("fault", op, []readStep{{K: "chunk", Data: data}})              // io.EOF
			var ones []readStep
			for i := 0; i < k; i++ {
				ones = append(ones, readStep{K: "chunk", Data: data[i : i+1]})
			}
			emit("fault", op, append(append([]readStep{}, ones...), readStep{K: "fail"})) // 1-byte chunks
			var zs []readStep
			for i := 0; i < k; i++ {
				zs = append(zs, readStep{K: "chunk", Data: []byte{}}, readStep{K: "chunk", Data: data[i : i+1]})
			}
			emit("fault", op, append(zs, readStep{K: "chunk", Data: []byte{}}, readStep{K: "fail"})) // zero-length reads
			if k > 1 {
				emit("fault", op, []readStep{{K: "chunk", Data: data[:k/2]}, {K: "chunkerr", Data: data[k/2:]}})
			}
		}
		full := seedBytes[:32]
		emit("success", op, []readStep{{K: "chunk", Data: full}})
		emit("success", op, []readStep{{K: "chunk", Data: full[:10]}, {K: "chunk", Data: full[10:]}})
		emit("success", op, []readStep{{K: "chunk", Data: full[:10]}, {K: "chunk", Data: []byte{}}, {K: "chunk", Data: full[10:22]}, {K: "chunk", Data: full[22:]}})
		var ones []readStep
		for i := 0; i < 32; i++ {
			ones = append(ones, readStep{K: "chunk", Data: full[i : i+1]})
		}
		emit("success", op, ones)
		emit("success", op, []readStep{{K: "chunk", Data: seedBytes}})                                   // more than needed
		emit("success", op, []readStep{{K: "chunkerr", Data: full}})                                     // error arrives with the 32nd byte
		emit("success", op, []readStep{{K: "chunk", Data: full[:31]}, {K: "chunkerr", Data: full[31:]}}) // idem, last byte
	}
	c.Extra["exhaustive_grid"] = "6 ops x 32 failure points x 6 behaviours + 42 success scripts"
}
