package main

// C15 — the printed form of a block is faithful to what is enforced.
// PRINT verb: Biscuit.Code() against Model/Printer; witness search: every printed statement
// re-parsed with the library's own parser must give back the original facts, rules, checks.

import (
	"fmt"
	"strings"

	"github.com/biscuit-auth/biscuit-go/v2"
	"github.com/biscuit-auth/biscuit-go/v2/parser"
)

func init() {
	verbs["C15"] = runC15
	execs["PRINT"] = execPrint
}

func execPrint(cs *Sx) (res string) {
	defer func() {
		if r := recover(); r != nil {
			res = "panic " + panicSite(r)
		}
	}()
	var blk Block
	found := false
	for _, e := range cs.List {
		if e.tag() == "block" {
			b, err := decBlock(e)
			if err != nil {
				return "bad-case"
			}
			blk, found = b, true
		}
	}
	if !found {
		return "bad-case"
	}
	pos := 1
	if p, ok := cs.field("position"); ok && len(p) == 1 {
		fmt.Sscanf(p[0].Atom, "%d", &pos)
		if pos < 1 || pos > 8 {
			return "bad-case"
		}
	}
	blocks := []Block{{Facts: []Pred{{Name: "auth", Terms: []Term{S("seed symbol")}}}}}
	for k := 1; k < pos; k++ {
		blocks = append(blocks, Block{Facts: []Pred{{Name: "mid", Terms: []Term{S(fmt.Sprintf("another symbol %d", k)), V("v")}}}})
	}
	var tok *biscuit.Biscuit
	var err error
	if _, fork := cs.field("fork"); fork {
		// the block is appended by one holder, another block by a second holder of the same
		// parent; the first holder's token is printed after the second one exists
		parent, e := buildTokenSpec(TokenSpec{Blocks: blocks}, NewRng(9))
		if e != nil {
			return "build-error"
		}
		if _, lookup := cs.field("lookup"); lookup {
			parent.GetBlockID(biscuit.Fact{Predicate: Pred{Name: "auth", Terms: []Term{S("a string the parent has never seen")}}.ToBiscuit()})
		}
		bbA := parent.CreateBlock()
		if e := fillBlockBuilder(bbA, blk); e != nil {
			return "build-error"
		}
		tok, err = parent.Append(&detRand{NewRng(10)}, bbA.Build())
		if err != nil {
			return "build-error"
		}
		bbB := parent.CreateBlock()
		bbB.AddFact(biscuit.Fact{Predicate: Pred{Name: "sibling", Terms: []Term{S("the other holder's block")}}.ToBiscuit()})
		if _, e := parent.Append(&detRand{NewRng(11)}, bbB.Build()); e != nil {
			return "build-error"
		}
	} else {
		tok, err = buildTokenSpec(TokenSpec{Blocks: append(blocks, blk)}, NewRng(9))
		if err != nil {
			return "build-error"
		}
	}
	if _, lookup := cs.field("lookup"); lookup {
		// looking a fact up is a read: what the token prints afterwards is what it printed before
		tok.GetBlockID(biscuit.Fact{Predicate: Pred{Name: "auth", Terms: []Term{S("a string this token has never seen")}}.ToBiscuit()})
		tok.GetBlockID(biscuit.Fact{Predicate: Pred{Name: "never-seen-name", Terms: []Term{I(1)}}.ToBiscuit()})
	}
	code := tok.Code()
	if len(code) != pos {
		return "bad-code-count"
	}
	// the same after serialization
	data, err := tok.Serialize()
	if err != nil {
		return "serialize-error"
	}
	tok2, err := biscuit.Unmarshal(data)
	if err != nil {
		return "unmarshal-error"
	}
	if c2 := tok2.Code(); len(c2) != pos || c2[pos-1] != code[pos-1] {
		return "differs-after-serialization"
	}
	// the whole printed token (blocks, symbols, contexts) as well
	if tok.String() != tok2.String() {
		return "string-differs-after-serialization"
	}
	return "text " + hxs(code[pos-1])
}

// statementsOf splits the Code() text into its facts, rules and checks lines.
func statementsOf(code string) ([]string, bool) {
	const pre, suf, sep = "Block {\n\t\t", "\n\t}", "\n\t\t"
	if !strings.HasPrefix(code, pre) || !strings.HasSuffix(code, suf) {
		return nil, false
	}
	body := strings.TrimSuffix(strings.TrimPrefix(code, pre), suf)
	secs := strings.Split(body, sep)
	if len(secs) != 3 {
		return nil, false
	}
	var out []string
	for _, s := range secs {
		if s == "" {
			continue
		}
		out = append(out, strings.Split(s, ";\n")...)
	}
	return out, true
}

func runC15(c *Ctx) {
	c.Rule = "blocks rendered from random abstract syntax over the PRINTABLE domain (strings without quote, backslash or newline; integers of either sign (the property asks for the non-negative ones); dates from 1970 with second precision; byte arrays; booleans; sets of non-string elements; expression trees of depth up to 5 with redundant parentheses and method calls) are parsed with the library's parser, added to a token as block 1 or 2, and printed with Biscuit.Code(): the text must equal the Lean printer's text, must be the same before and after Serialize/Unmarshal, and every printed statement re-parsed with parser.FromStringBlock must give back exactly the original facts, rules and checks. Non-trivial = the block has at least one rule or check with an expression; distinct = distinct printed texts."
	r := NewRng(c.Seed)
	n := 1500
	if c.Thorough {
		n = 25000
	}
	for i := 0; i < n; i++ {
		g := &textGen{r: r, wild: false, params: map[string]Term{}}
		// printable domain: sets of non-string elements
		depth := 1 + r.Intn(5)
		toks, exp := g.genItems(1+r.Intn(4), false, depth, false)
		if hasStringInSet(exp) {
			c.Count("skipped:string-in-set")
			continue
		}
		text := g.join(toks)
		pb, err := parser.FromStringBlock(text)
		if err != nil {
			c.Count("skipped:parse-error")
			continue
		}
		_ = pb
		blk := Block{Facts: dedupFacts(exp.Facts), Rules: exp.Rules, Checks: exp.Checks}
		pos := Pick(r, []string{"1", "1", "2", "4", "6"})
		extra := ""
		if r.Chance(1, 4) {
			extra += " (fork)"
			c.Count("printed-after-a-fork")
		}
		if r.Chance(1, 4) {
			extra += " (lookup)"
			c.Count("printed-after-a-lookup")
		}
		sx := "(case " + blk.Sx() + " (position " + pos + ")" + extra + ")"
		res := execCase("PRINT", sx)
		c.Case("PRINT", c.NewID("print"), sx, res)
		c.Count("print:" + strings.SplitN(res, " ", 2)[0])
		if !strings.HasPrefix(res, "text ") {
			c.Violate("C15/"+strings.SplitN(res, " ", 2)[0], "printing a token misbehaved: "+res, map[string]interface{}{"verb": "PRINT", "case": sx, "go": res, "source": text})
			continue
		}
		hb, _ := unhex(strings.TrimPrefix(res, "text "))
		code := string(hb)
		if hasExpr(exp) {
			c.NonTrivial(code)
		}
		stmts, ok := statementsOf(code)
		if !ok {
			c.Violate("C15/shape", "Code() does not have the documented block shape", map[string]interface{}{"verb": "PRINT", "case": sx, "code": code})
			continue
		}
		re, err := parser.FromStringBlock(strings.Join(stmts, ";") + ";")
		if len(stmts) == 0 {
			re, err = biscuit.ParsedBlock{}, nil
		}
		if err != nil {
			c.Violate("C15/unparseable", "the printed block does not parse back: "+err.Error(), map[string]interface{}{"verb": "PRINT", "case": sx, "code": code, "source": text})
			continue
		}
		// the printer sorts set elements: compare sets as sets
		got := canonSets(parsedToSx(re.Facts, re.Rules, re.Checks, nil))
		want := canonSets(parsedExpect{Facts: blk.Facts, Rules: blk.Rules, Checks: blk.Checks}.Sx())
		if got != want {
			c.Violate("C15/unfaithful", "the printed block parses back to something else than what is enforced", map[string]interface{}{"verb": "PRINT", "case": sx, "code": code, "reparsed": trunc(got, 1500), "want": trunc(want, 1500), "source": text})
		}
		if i < 3 {
			c.Sample(map[string]string{"source": text, "printed": code})
		}
	}
}

func hasStringInSet(e parsedExpect) bool {
	bad := false
	chk := func(t Term) {
		if t.K == 'S' {
			for _, x := range t.Set {
				if x.K == 's' {
					bad = true
				}
			}
		}
	}
	chkP := func(p Pred) {
		for _, t := range p.Terms {
			chk(t)
		}
	}
	chkR := func(r Rule) {
		chkP(r.Head)
		for _, p := range r.Body {
			chkP(p)
		}
		for _, ex := range r.Exprs {
			for _, o := range ex {
				if o.K == 'v' {
					chk(o.T)
				}
			}
		}
	}
	for _, f := range e.Facts {
		chkP(f)
	}
	for _, r := range e.Rules {
		chkR(r)
	}
	for _, ck := range e.Checks {
		for _, q := range ck.Queries {
			chkR(q)
		}
	}
	return bad
}

func hasExpr(e parsedExpect) bool {
	for _, r := range e.Rules {
		if len(r.Exprs) > 0 {
			return true
		}
	}
	for _, ck := range e.Checks {
		for _, q := range ck.Queries {
			if len(q.Exprs) > 0 {
				return true
			}
		}
	}
	return false
}

// canonSets rewrites every "(set a b c)" of an s-expression text with its elements sorted.
// canonContent canonicalises the sets inside a space-separated sequence of s-expressions.
func canonContent(sx string) string {
	c := canonSets(sx)
	if strings.HasPrefix(c, "(top ") && strings.HasSuffix(c, ")") {
		return c[5 : len(c)-1]
	}
	if c == "(top)" {
		return ""
	}
	return sx
}

func canonSets(sx string) string {
	e, err := parseSx("(top " + sx + ")")
	if err != nil {
		return sx
	}
	var walk func(n *Sx)
	walk = func(n *Sx) {
		if !n.IsList {
			return
		}
		for _, c := range n.List {
			walk(c)
		}
		if n.tag() == "set" {
			items := n.List[1:]
			for i := 1; i < len(items); i++ {
				for j := i; j > 0 && items[j].String() < items[j-1].String(); j-- {
					items[j], items[j-1] = items[j-1], items[j]
				}
			}
			// a set holds each element once
			out := n.List[:1]
			for i, it := range items {
				if i == 0 || it.String() != items[i-1].String() {
					out = append(out, it)
				}
			}
			n.List = out
		}
	}
	walk(e)
	return e.String()
}
