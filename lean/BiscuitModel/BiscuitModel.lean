import BiscuitModel.Model.Basic
import BiscuitModel.Model.Value
import BiscuitModel.Model.Expr
import BiscuitModel.Model.Datalog
