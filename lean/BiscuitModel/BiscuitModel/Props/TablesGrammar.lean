/-
Props/TablesGrammar — C14's tie between the Lean grammar model and the parser's own tables,
regenerated on every run by `harness extract`:

* `Generated.lexerRules`: name and regular expression of every rule of
  `parser.BiscuitLexerRules`, in order (participle's simple lexer takes the first rule that
  matches: the order is part of the semantics, and it is the order of `lexOne`'s branches);
* `Generated.grammarFields`: every production, read by reflection from the struct tags
  participle builds the parser from (type.field, Go type, tag).

Both are compared with the reviewed copies below, and the literal lists the Lean lexer is
built from (keywords, word-bounded function names, operators, booleans, punctuation) are
proved to spell exactly the corresponding regular expressions of the source. A change to a
rule, to the rule order or to a production (e.g. the operand type of a binary operator, which
decides associativity) breaks this tie even before any text exercises it.
-/
import BiscuitModel.Generated.Tables
import BiscuitModel.Proofs.Lexer

namespace Biscuit.Tables
open Biscuit.Grammar

def knownLexerRules : List (String × String) := [("Keyword", "check if|allow if|deny if"), ("Function", "(prefix|suffix|matches|length|contains)\\b"), ("Hex", "hex:([0-9a-fA-F]{2})*"), ("Dot", "\\."), ("Arrow", "<-"), ("Or", "\\|\\|"), ("And", "&&"), ("Operator", "==|>=|<=|>|<|\\+|-|\\*"), ("Comment", "//[^\\n]*"), ("String", "\\\"[^\\\"]*\\\""), ("Variable", "\\$[a-zA-Z0-9_:]+"), ("Parameter", "\\{[a-zA-Z0-9_:]+\\}"), ("DateTime", "\\d\\d\\d\\d-\\d\\d-\\d\\dT\\d\\d:\\d\\d:\\d\\d(\\.\\d+)?(Z|([-+]\\d\\d:\\d\\d))?"), ("Int", "[0-9]+"), ("Bool", "(true|false)\\b"), ("Ident", "[a-z][a-zA-Z0-9_:]*"), ("Whitespace", "[ \\t]+"), ("EOL", "[\\n\\r]+"), ("Punct", "[-[!@%^&#$*()+_={}\\|:;\"'<,>.?/]|]")]

def knownGrammarFields : List (String × String × String) := [("Block.Comments", "[]*parser.Comment", "@Comment*"), ("Block.Body", "[]*parser.BlockElement", "(@@ \";\")*"), ("Authorizer.Comments", "[]*parser.Comment", "@Comment*"), ("Authorizer.Body", "[]*parser.AuthorizerElement", "(@@ \";\")*"), ("Rule.Comments", "[]*parser.Comment", "@Comment*"), ("Rule.Head", "*parser.Predicate", "@@"), ("Rule.Body", "[]*parser.RuleElement", "\"<-\" @@ (\",\" @@)*"), ("Check.Queries", "[]*parser.CheckQuery", "\"check if\" @@ ( \"or\" @@ )*"), ("Policy.Allow", "*parser.Allow", "@@"), ("Policy.Deny", "*parser.Deny", "|@@"), ("Predicate.Name", "*string", "@Ident"), ("Predicate.IDs", "[]*parser.Term", "\"(\" (@@ (\",\" @@)*)? \")\""), ("BlockElement.Check", "*parser.Check", "@@"), ("BlockElement.Predicate", "*parser.Predicate", "|@@"), ("BlockElement.RuleBody", "[]*parser.RuleElement", "(\"<-\" @@ (\",\" @@)*)?"), ("AuthorizerElement.Policy", "*parser.Policy", "@@"), ("AuthorizerElement.BlockElement", "*parser.BlockElement", "|@@"), ("RuleElement.Predicate", "*parser.Predicate", "@@"), ("RuleElement.Expression", "*parser.Expression", "|@@"), ("CheckQuery.Body", "[]*parser.RuleElement", "@@ (\",\" @@)*"), ("Allow.Queries", "[]*parser.CheckQuery", "\"allow if\" @@ ( \"or\" @@ )*"), ("Deny.Queries", "[]*parser.CheckQuery", "\"deny if\" @@ ( \"or\" @@ )*"), ("Term.Parameter", "*parser.Parameter", "@Parameter"), ("Term.Variable", "*parser.Variable", "| @Variable"), ("Term.Bytes", "*parser.HexString", "| @@"), ("Term.String", "*string", "| @String"), ("Term.Date", "*string", "| @DateTime"), ("Term.Integer", "*int64", "| @(\"-\"? Int)"), ("Term.Bool", "*parser.Bool", "| @Bool"), ("Term.Set", "[]*parser.Term", "| \"[\" @@ (\",\" @@)* \"]\""), ("Expression.Left", "*parser.Expr1", "@@"), ("Expression.Right", "[]*parser.OpExpr1", "@@*"), ("Expr1.Left", "*parser.Expr2", "@@"), ("Expr1.Right", "[]*parser.OpExpr2", "@@*"), ("OpExpr1.Operator", "parser.Operator", "@(\"||\")"), ("OpExpr1.Expr1", "*parser.Expr1", "@@"), ("Expr2.Left", "*parser.Expr3", "@@"), ("Expr2.Right", "*parser.OpExpr3", "@@?"), ("OpExpr2.Operator", "parser.Operator", "@(\"&&\")"), ("OpExpr2.Expr2", "*parser.Expr2", "@@"), ("Expr3.Left", "*parser.Expr4", "@@"), ("Expr3.Right", "[]*parser.OpExpr4", "@@*"), ("OpExpr3.Operator", "parser.Operator", "@(\"<=\" | \">=\" | \"<\" | \">\" | \"==\")"), ("OpExpr3.Expr3", "*parser.Expr3", "@@"), ("Expr4.Left", "*parser.Expr5", "@@"), ("Expr4.Right", "[]*parser.OpExpr5", "@@*"), ("OpExpr4.Operator", "parser.Operator", "@(\"+\" | \"-\")"), ("OpExpr4.Expr4", "*parser.Expr4", "@@"), ("Expr5.Operator", "*parser.Operator", "@(\"!\")?"), ("Expr5.Expr6", "*parser.Expr6", "@@"), ("OpExpr5.Operator", "parser.Operator", "@(\"*\" | \"/\")"), ("OpExpr5.Expr5", "*parser.Expr5", "@@"), ("Expr6.Left", "*parser.ExprTerm", "@@"), ("Expr6.Right", "[]*parser.OpExpr7", "@@*"), ("ExprTerm.Term", "*parser.Term", "@@"), ("ExprTerm.Expression", "*parser.Expression", "| \"(\" @@? \")\""), ("OpExpr7.Operator", "parser.Operator", "Dot @(\"matches\" | \"starts_with\" | \"ends_with\" | \"contains\" | \"union\" | \"intersection\" | \"length\")"), ("OpExpr7.Expression", "*parser.Expression", "\"(\" @@? \")\"")]

theorem lexerRules_tied : Generated.lexerRules = knownLexerRules := by decide +kernel

theorem grammarFields_tied : Generated.grammarFields = knownGrammarFields := by decide +kernel

/-- The production of integer literals carries an optional sign: the Operator token `-` and the
Int token are captured together (`Grammar.parseAtomTerm`, `PTerm.negInt`).  With the unsigned
production `| @Int` negative literals are rejected, against GRAMMAR.md. -/
theorem integer_production_signed :
    (Generated.grammarFields.find? (·.1 == "Term.Integer")).map (·.2.2) = some "| @(\"-\"? Int)" := by
  decide +kernel

/-- The order of the rules is the order in which `lexOne` tries its branches. -/
theorem lexerRule_order : Generated.lexerRules.map (·.1) =
    ["Keyword", "Function", "Hex", "Dot", "Arrow", "Or", "And", "Operator", "Comment", "String",
     "Variable", "Parameter", "DateTime", "Int", "Bool", "Ident", "Whitespace", "EOL", "Punct"] := by
  decide +kernel

def patternOf (name : String) : Option String := (Generated.lexerRules.find? (·.1 == name)).map (·.2)

/-- Escape the regular-expression metacharacters that occur in operator spellings. -/
def escapeRe (s : String) : String :=
  String.ofList (s.toList.flatMap fun c => if c == '+' || c == '*' || c == '|' then ['\\', c] else [c])

theorem keyword_pattern : patternOf "Keyword" = some ("|".intercalate keywordLits) := by decide +kernel

theorem function_pattern : patternOf "Function" = some ("(" ++ "|".intercalate funcLits ++ ")\\b") := by
  decide +kernel

theorem operator_pattern : patternOf "Operator" = some ("|".intercalate (opLits.map escapeRe)) := by
  decide +kernel

theorem bool_pattern : patternOf "Bool" = some ("(" ++ "|".intercalate boolLits ++ ")\\b") := by
  decide +kernel

/-- `punctChars` is the character class of the Punct rule: the class, then `|]` for the
closing bracket that cannot stand inside it. -/
theorem punct_pattern : patternOf "Punct" =
    some ("[" ++ String.ofList (punctChars.dropLast.flatMap fun c => if c == '|' then ['\\', c] else [c]) ++ "]|]") ∧
    punctChars.getLast? = some ']' := by
  decide +kernel

end Biscuit.Tables
