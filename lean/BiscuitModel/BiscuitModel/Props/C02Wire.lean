/-
Props/C02Wire — attenuation can only restrict, at the wire level.

Props/C02 is about `authorize` on resolved content: there, `tok.append B` keeps the
content of the earlier blocks by construction. On the wire that is not given: the Go code
resolves the symbol indexes of EVERY block through the token's whole cumulative table
(`resolveTokenL`), the tables of blocks appended later included. A token whose authority
block refers to an index that nothing declares reads `role("<invalid symbol 1024>")`; once
any holder appends a block declaring a symbol at that index the same authority fact reads
`role("superuser")`: attenuation widens (`undeclared_symbol_widens_without_gate`).

The repaired `Unmarshal` refuses a block that refers to a string index not declared by
the default table, an earlier block or the block itself (`blocksDeclared`,
`unmarshal_ok_declared`). Under that gate — taken here with the variable indexes included,
`blocksDeclaredV` — appending a block on the wire leaves the resolved content of all
earlier blocks exactly as it was (`resolveTokenL_append`), and C02 carries over
(`wire_attenuation_monotone`).

Variables: the gate of the Go code (`atomDeclared`) does not look at variable terms, whose
NAMES are also read through the symbol table. For a token inside `blocksDeclared` but
outside `blocksDeclaredV`, an appended table can change only the names of variables of
earlier blocks, index by index (same index, same new name); where that renaming is
injective on the variables of each rule, Props/C12Rename says the verdicts do not change.
That composition is not made here; the hypothesis below is `blocksDeclaredV`.
-/
import BiscuitModel.Proofs.WireAttenuation
import BiscuitModel.Props.C02

namespace Biscuit.C02Wire
open Biscuit Wire

/-- 1. `Extend` only appends. -/
theorem extendTable_prefix (t : SymTable) (new : List Bytes) : ∃ ext, extendTable t new = t ++ ext :=
  Biscuit.extendTable_prefix t new

/-- The V-gate is at least the gate of the code. -/
theorem blocksDeclaredV_declared (t : SymTable) (msgs : List BlockMsg)
    (h : blocksDeclaredV t msgs = true) : blocksDeclared t msgs = true :=
  blocksDeclared_of_V msgs t h

/-! 2. What a declared index, atom, …, block resolves to does not depend on what is
appended to the table — panic branch of the pinned `Str` included (`p` arbitrary). -/

theorem symStrGo_stable (p : Bool) (t ext : SymTable) (i : Nat) (h : symDeclared t i = true) :
    symStrGo p (t ++ ext) i = symStrGo p t i := Biscuit.symStrGo_stable p t ext i h

theorem resolveAtomL_stable (p : Bool) (t ext : SymTable) (a : IAtom) (h : atomDeclaredV t a = true) :
    resolveAtomL p (t ++ ext) a = resolveAtomL p t a := Biscuit.resolveAtomL_stable p t ext a h

theorem resolveTermL_stable (p : Bool) (t ext : SymTable) (x : ITerm) (h : termDeclaredV t x = true) :
    resolveTermL p (t ++ ext) x = resolveTermL p t x := Biscuit.resolveTermL_stable p t ext x h

theorem resolvePredL_stable (p : Bool) (t ext : SymTable) (q : IPred) (h : predDeclaredV t q = true) :
    resolvePredL p (t ++ ext) q = resolvePredL p t q := Biscuit.resolvePredL_stable p t ext q h

theorem resolveFactL_stable (p : Bool) (t ext : SymTable) (q : IPred) (h : predDeclaredV t q = true) :
    resolveFactL p (t ++ ext) q = resolveFactL p t q := Biscuit.resolveFactL_stable p t ext q h

theorem resolveOpL_stable (p : Bool) (t ext : SymTable) (o : IOp) (h : opDeclaredV t o = true) :
    resolveOpL p (t ++ ext) o = resolveOpL p t o := Biscuit.resolveOpL_stable p t ext o h

theorem resolveRuleL_stable (p : Bool) (t ext : SymTable) (r : IRule) (h : ruleDeclaredV t r = true) :
    resolveRuleL p (t ++ ext) r = resolveRuleL p t r := Biscuit.resolveRuleL_stable p t ext r h

theorem resolveCheckL_stable (p : Bool) (t ext : SymTable) (c : ICheck) (h : checkDeclaredV t c = true) :
    resolveCheckL p (t ++ ext) c = resolveCheckL p t c := Biscuit.resolveCheckL_stable p t ext c h

theorem resolveBlockL_stable (p : Bool) (t ext : SymTable) (m : BlockMsg) (h : blockDeclaredV t m = true) :
    resolveBlockL p (t ++ ext) m = resolveBlockL p t m := Biscuit.resolveBlockL_stable p t ext m h

/-- 3. Appending a block on the wire leaves the resolved content of all earlier blocks
exactly as it was. -/
theorem resolveTokenL_append (p : Bool) (msgs : List BlockMsg) (b : BlockMsg)
    (h : blocksDeclaredV [] msgs = true) (toksTB : List Block)
    (hTB : resolveTokenL p (msgs ++ [b]) = .ok toksTB) :
    ∃ toksT bB, resolveTokenL p msgs = .ok toksT ∧ toksTB = toksT ++ [bB] :=
  Biscuit.resolveTokenL_append p msgs b h toksTB hTB

/-- 4. **C02 at the wire level.** `msgs` is the parent token (authority first), `b` any
appended block message, with any symbols. If the appended token resolves to authority `a`,
blocks `rest` and the new block `bB`, the parent resolves to `a`, `rest`, and it is accepted
whenever the appended token is. (For `msgs = []` there is no authority block: then
`resolveTokenL p [b]` has one element and `hTB` cannot hold — `resolved_length`.) -/
theorem wire_attenuation_monotone (cfg : EvalCfg) (p : Bool) (msgs : List BlockMsg) (b : BlockMsg)
    (s : AuthState) (h : blocksDeclaredV [] msgs = true) (a : Block) (rest : List Block) (bB : Block)
    (hTB : resolveTokenL p (msgs ++ [b]) = .ok (a :: rest ++ [bB])) :
    resolveTokenL p msgs = .ok (a :: rest) ∧
    ((authorize cfg { authority := a, blocks := rest ++ [bB] } s).2 = .ok →
     (authorize cfg { authority := a, blocks := rest } s).2 = .ok) := by
  obtain ⟨toksT, bB', hT, heq⟩ := Biscuit.resolveTokenL_append p msgs b h _ hTB
  have hsplit : a :: rest = toksT ∧ [bB] = [bB'] :=
    List.append_inj' (show (a :: rest) ++ [bB] = toksT ++ [bB'] from heq) rfl
  refine ⟨by rw [hT, hsplit.1], ?_⟩
  exact C02.attenuation_monotone cfg { authority := a, blocks := rest } bB s

/-- As many blocks come out of resolution as went in. -/
theorem resolved_length (p : Bool) (msgs : List BlockMsg) (toks : List Block)
    (h : resolveTokenL p msgs = .ok toks) : toks.length = msgs.length :=
  resolveTokenL_length p msgs toks h

/-- The same with the shape of the result derived instead of assumed: the parent is any
non-empty declared token `m0 :: ms`; whatever the appended token resolves to is the
parent's resolution plus one block, and acceptance of the former implies acceptance of
the latter. -/
theorem wire_attenuation_monotone' (cfg : EvalCfg) (p : Bool) (m0 : BlockMsg) (ms : List BlockMsg)
    (b : BlockMsg) (s : AuthState) (h : blocksDeclaredV [] (m0 :: ms) = true) (toksTB : List Block)
    (hTB : resolveTokenL p (m0 :: ms ++ [b]) = .ok toksTB) :
    ∃ a rest bB, toksTB = a :: rest ++ [bB] ∧ resolveTokenL p (m0 :: ms) = .ok (a :: rest) ∧
      ((authorize cfg { authority := a, blocks := rest ++ [bB] } s).2 = .ok →
       (authorize cfg { authority := a, blocks := rest } s).2 = .ok) := by
  obtain ⟨toksT, bB, hT, rfl⟩ := Biscuit.resolveTokenL_append p (m0 :: ms) b h _ hTB
  have hlen := resolveTokenL_length p _ _ hT
  cases toksT with
  | nil => cases hlen
  | cons a rest =>
    exact ⟨a, rest, bB, rfl, hT, C02.attenuation_monotone cfg { authority := a, blocks := rest } bB s⟩

/-- Contrapositive: a refusal of the parent (any verdict other than `ok`) is not turned
into an acceptance by any appended block message. -/
theorem wire_refusal_is_stable (cfg : EvalCfg) (p : Bool) (msgs : List BlockMsg) (b : BlockMsg)
    (s : AuthState) (h : blocksDeclaredV [] msgs = true) (a : Block) (rest : List Block) (bB : Block)
    (hTB : resolveTokenL p (msgs ++ [b]) = .ok (a :: rest ++ [bB]))
    (hno : (authorize cfg { authority := a, blocks := rest } s).2 ≠ .ok) :
    (authorize cfg { authority := a, blocks := rest ++ [bB] } s).2 ≠ .ok :=
  fun hok => hno ((wire_attenuation_monotone cfg p msgs b s h a rest bB hTB).2 hok)

/-- 6. What `Unmarshal` lets through is declared. -/
theorem unmarshal_ok_declared (bs : Bytes) (p : Parsed) (h : unmarshal bs = .ok p) :
    blocksDeclared [] p.blocks = true := by
  unfold unmarshal unmarshalFrom at h
  split at h
  · cases h
  · split at h
    · cases h
    · split at h
      · rename_i hd; cases h; exact hd
      · cases h

/-! ### 5. The pinned behaviour: without the gate the hypothesis cannot be dropped

Authority block: no symbols, `role(<string 1024>)` (`role` = default index 6). Appended
block: symbols `["superuser"]`, `owner("superuser")` (`owner` = default index 7).
Authorizer: `allow if role("superuser")`. -/

def msgT : BlockMsg :=
  { symbols := [], context := none, version := some 3,
    facts := [{ name := 6, terms := [.atom (.string 1024)] }], rules := [], checks := [] }

def msgsT : List BlockMsg := [msgT]

def bB : BlockMsg :=
  { symbols := [strBytes "superuser"], context := none, version := some 3,
    facts := [{ name := 7, terms := [.atom (.string 1024)] }], rules := [], checks := [] }

def qSuper : DRule :=
  { head := { name := strBytes "query", terms := [] },
    body := [{ name := strBytes "role", terms := [.const (.atom (.str (strBytes "superuser")))] }],
    exprs := [] }

/-- `allow if role("superuser")`. -/
def s : AuthState :=
  addPolicy (AuthState.fresh { maxFacts := 1000, maxIter := 100 }) { kind := .allow, queries := [qSuper] }

/-- The authority block as the parent token reads it: `role("<invalid symbol 1024>")`. -/
def blkT : Block :=
  { facts := [{ name := strBytes "role", args := [.atom (.str (strBytes "<invalid symbol 1024>"))] }],
    rules := [], checks := [] }

/-- The SAME authority block as the appended token reads it: `role("superuser")`. -/
def blkT' : Block :=
  { facts := [{ name := strBytes "role", args := [.atom (.str (strBytes "superuser"))] }],
    rules := [], checks := [] }

def blkB : Block :=
  { facts := [{ name := strBytes "owner", args := [.atom (.str (strBytes "superuser"))] }],
    rules := [], checks := [] }

def tokT : Token := { authority := blkT, blocks := [] }
def tokTB : Token := { authority := blkT', blocks := [blkB] }

/-- Without the gate: the parent is refused, the attenuated token is accepted, because the
authority block changed its reading. Both tokens are outside `blocksDeclared`, so the
repaired `Unmarshal` refuses both (`unmarshal_ok_declared`). -/
theorem undeclared_symbol_widens_without_gate :
    blocksDeclared [] msgsT = false ∧
    blocksDeclared [] (msgsT ++ [bB]) = false ∧
    resolveTokenL false msgsT = .ok [tokT.authority] ∧
    resolveTokenL false (msgsT ++ [bB]) = .ok (tokTB.authority :: tokTB.blocks) ∧
    tokT.authority ≠ tokTB.authority ∧
    (authorize C02.cfg0 tokT s).2 = .noMatch ∧
    (authorize C02.cfg0 tokT s).2 ≠ .ok ∧
    (authorize C02.cfg0 tokTB s).2 = .ok := by
  refine ⟨by decide +kernel, by decide +kernel, by decide +kernel, by decide +kernel,
    by decide +kernel, by decide +kernel, by decide +kernel, by decide +kernel⟩

/-- So the hypothesis of `wire_attenuation_monotone` is not redundant: its conclusion
fails for this parent and this appended block. -/
theorem wire_attenuation_needs_gate :
    ¬ (∀ (msgs : List BlockMsg) (b : BlockMsg) (a : Block) (rest : List Block) (bB : Block),
        resolveTokenL false (msgs ++ [b]) = .ok (a :: rest ++ [bB]) →
        resolveTokenL false msgs = .ok (a :: rest)) := by
  intro hall
  have h := hall msgsT bB blkT' [] blkB undeclared_symbol_widens_without_gate.2.2.2.1
  rw [undeclared_symbol_widens_without_gate.2.2.1] at h
  exact absurd h (by decide +kernel)

/-! Non-vacuity of `wire_attenuation_monotone`: the same content with the symbol declared
by the authority block. The appended block's `"superuser"` is then already known, `Extend`
skips it, and both readings agree. -/

def msgD : BlockMsg := { msgT with symbols := [strBytes "superuser"] }

example : blocksDeclaredV [] [msgD] = true := by decide +kernel
example : resolveTokenL false ([msgD] ++ [bB]) = .ok (blkT' :: [] ++ [blkB]) := by decide +kernel
example : resolveTokenL false [msgD] = .ok [blkT'] := by decide +kernel
example : (authorize C02.cfg0 { authority := blkT', blocks := [] ++ [blkB] } s).2 = .ok := by decide +kernel

end Biscuit.C02Wire

/-! ### 7. The gate of the code is the gate of the theorems

Since fix c9a639e the library's check covers variable names as well, so the stronger
predicate `blocksDeclaredV` used above *is* the predicate `Unmarshal` applies. -/

namespace Biscuit.C02Wire
open Biscuit Biscuit.Wire

theorem atomDeclaredV_eq (t : SymTable) : atomDeclaredV t = atomDeclared t := by
  funext a
  cases a <;> rfl

theorem termDeclaredV_eq (t : SymTable) : termDeclaredV t = termDeclared t := by
  funext x
  cases x <;> simp [termDeclaredV, termDeclared, atomDeclaredV_eq]

theorem predDeclaredV_eq (t : SymTable) : predDeclaredV t = predDeclared t := by
  funext p
  simp [predDeclaredV, predDeclared, termDeclaredV_eq]

theorem ruleDeclaredV_eq (t : SymTable) : ruleDeclaredV t = ruleDeclared t := by
  funext r
  rw [Bool.eq_iff_iff]
  simp only [ruleDeclaredV, ruleDeclared, predDeclaredV_eq, Bool.and_eq_true, List.all_eq_true]
  constructor
  · rintro ⟨h12, h3⟩
    refine ⟨h12, fun e he o ho => ?_⟩
    have := h3 e he o ho
    cases o <;> simp_all [opDeclaredV, termDeclaredV_eq]
  · rintro ⟨h12, h3⟩
    refine ⟨h12, fun e he o ho => ?_⟩
    have := h3 e he o ho
    cases o <;> simp_all [opDeclaredV, termDeclaredV_eq]

theorem blockDeclaredV_eq (t : SymTable) (m : BlockMsg) : blockDeclaredV t m = blockDeclared t m := by
  have hc : checkDeclaredV t = fun c => c.queries.all (ruleDeclared t) := by
    funext c
    simp [checkDeclaredV, ruleDeclaredV_eq]
  simp only [blockDeclaredV, blockDeclared, predDeclaredV_eq, ruleDeclaredV_eq, hc]

theorem blocksDeclaredV_eq (t : SymTable) (msgs : List BlockMsg) :
    blocksDeclaredV t msgs = blocksDeclared t msgs := by
  induction msgs generalizing t with
  | nil => rfl
  | cons m ms ih =>
    show (blockDeclaredV _ m && blocksDeclaredV _ ms) = (blockDeclared _ m && blocksDeclared _ ms)
    rw [blockDeclaredV_eq, ih]

/-- **C02 for every token `Unmarshal` lets through**: whatever block is appended on the
wire, the earlier blocks resolve as before and an accepted T+B means an accepted T. -/
theorem unmarshal_attenuation_monotone (cfg : EvalCfg) (p : Bool) (bs : Bytes) (parsed : Parsed)
    (hU : unmarshal bs = .ok parsed) (b : BlockMsg) (s : AuthState) (a : Block) (rest : List Block) (bB : Block)
    (hTB : resolveTokenL p (parsed.blocks ++ [b]) = .ok (a :: rest ++ [bB])) :
    resolveTokenL p parsed.blocks = .ok (a :: rest) ∧
    ((authorize cfg { authority := a, blocks := rest ++ [bB] } s).2 = .ok →
     (authorize cfg { authority := a, blocks := rest } s).2 = .ok) := by
  have hd := unmarshal_ok_declared bs parsed hU
  rw [← blocksDeclaredV_eq] at hd
  exact wire_attenuation_monotone cfg p parsed.blocks b s hd a rest bB hTB

end Biscuit.C02Wire
