/-
Props/C13 — Reset gives a clean authorizer.

Histories are lists of `AuthOp` run by `runSeq` (adds, authorize, query, reset,
save/load) with arbitrary content and any outcome per step. `false` selects the
repaired `Authorize`; `true` the pinned one that overwrote the base world (D9).
-/
import BiscuitModel.Proofs.Authorizer

namespace Biscuit.C13
open Biscuit

/-- Final state of a history. -/
def finalState (cfg : EvalCfg) (pinned : Bool) (toks : List Token) : SeqState → List AuthOp → SeqState
  | st, [] => st
  | st, op :: ops => finalState cfg pinned toks (stepOpSeq cfg pinned toks st op).1 ops

/-- `finalState` is the recursion `seqFinal` of Proofs/Authorizer. -/
private theorem finalState_eq (cfg : EvalCfg) (pinned : Bool) (toks : List Token) :
    ∀ (h : List AuthOp) (st : SeqState), finalState cfg pinned toks st h = seqFinal cfg pinned toks st h
  | [], _ => rfl
  | op :: ops, st => by simp only [finalState, seqFinal, finalState_eq cfg pinned toks ops]

/-- Invariant: the base world is the one fixed at construction. -/
theorem base_world_invariant (cfg : EvalCfg) (toks : List Token) (lim : Limits) (t : Nat)
    (h : List AuthOp) :
    (finalState cfg false toks { tok := t, auth := AuthState.fresh lim } h).auth.baseWorld = World.empty ∧
    (finalState cfg false toks { tok := t, auth := AuthState.fresh lim } h).auth.limits = lim := by
  rw [finalState_eq]
  exact seqFinal_invariant cfg toks h _ rfl

/-- **C13.** After any history, `Reset` yields exactly a newly created authorizer. -/
theorem reset_eq_fresh (cfg : EvalCfg) (toks : List Token) (lim : Limits) (t : Nat) (h : List AuthOp) :
    reset (finalState cfg false toks { tok := t, auth := AuthState.fresh lim } h).auth = AuthState.fresh lim := by
  obtain ⟨hb, hl⟩ := base_world_invariant cfg toks lim t h
  exact reset_of_base _ lim hb hl

/-- Consequently every continuation behaves as on a fresh authorizer for the token the
authorizer is then attached to: nothing added or derived before the reset has any
influence on later outcomes or query results. -/
theorem reset_forgets (cfg : EvalCfg) (toks : List Token) (lim : Limits) (t : Nat)
    (h k : List AuthOp) :
    runSeq cfg false toks { tok := t, auth := AuthState.fresh lim } (h ++ .reset :: k) =
      runSeq cfg false toks { tok := t, auth := AuthState.fresh lim } h ++
      .none :: runSeq cfg false toks
        { tok := (finalState cfg false toks { tok := t, auth := AuthState.fresh lim } h).tok,
          auth := AuthState.fresh lim } k := by
  rw [runSeq_append, ← finalState_eq]
  congr 1
  simp only [runSeq, stepOpSeq]
  rw [reset_eq_fresh]

/-! D9, pinned: a 'write' request is accepted by a token restricted to 'read' when it
follows a successful 'read' on the same authorizer. -/

def cfg0 : EvalCfg := { rx := fun _ _ => none }
def opRead : DFact := { name := [111], args := [.atom (.str [114])] }      -- o("r")
def opWrite : DFact := { name := [111], args := [.atom (.str [119])] }     -- o("w")
def chkRead : Check := { queries := [{ head := { name := [113], terms := [] },
                                       body := [{ name := [111], terms := [.const (.atom (.str [114]))] }], exprs := [] }] }
def allowAll : Policy := { kind := .allow, queries := [{ head := { name := [113], terms := [] }, body := [], exprs := [[.value (.const (.atom (.bool true)))]] }] }
def tokRead : Token := { authority := { facts := [], rules := [], checks := [chkRead] }, blocks := [] }
def lim0 : Limits := { maxFacts := 1000, maxIter := 100 }
def round1 : List AuthOp := [.addFact opRead, .addPolicy allowAll, .authorize]
def round2 : List AuthOp := [.addFact opWrite, .addPolicy allowAll, .authorize]

theorem reset_leaks_pinned :
    runSeq cfg0 true [tokRead] { tok := 0, auth := AuthState.fresh lim0 } (round1 ++ .reset :: round2)
      = [.none, .none, .verdict .ok, .none, .none, .none, .verdict .ok] := by
  decide

/-- The repaired code refuses the second request, as a fresh authorizer does. -/
theorem reset_clean_repaired :
    runSeq cfg0 false [tokRead] { tok := 0, auth := AuthState.fresh lim0 } (round1 ++ .reset :: round2)
      = [.none, .none, .verdict .ok, .none, .none, .none, .verdict (.checksFailed [.block 0 0])] := by
  decide

end Biscuit.C13
