/-
Props/C14 — the Datalog parser denotes the documented grammar and never panics.

Token level: `Model/Grammar.parse*` on token lists, `Model/Printer.renderToks` as the
reference rendering of an abstract syntax tree. PARTIAL at character level: that the lexer
re-reads a rendered token list (`lex ∘ spelling`) is covered for literals and operators by
the correspondence check (random layout), not by a theorem; participle itself is modelled
(by a recursive-descent reading of the same grammar), not verified.
"Never panics": the model's parse functions are total (`Option`), so a successful parse
carries no nil term by construction (`denote*` return complete terms or `none`); the
implementation side is the raw / corrupted streams and the first-use check of the harness.
-/
import BiscuitModel.Proofs.Grammar

namespace Biscuit.C14
open Biscuit Biscuit.Grammar Biscuit.Printer

/-- Precedence level at which a tree can stand without parentheses:
0 `||`, 1 `&&`, 2 comparison, 3 `+ -`, 4 `* /`, 5 prefix `!`, 6 method call, 7 atom. -/
def level : PExpr → Nat
  | .bin .or _ _ => 0
  | .bin .and _ _ => 1
  | .bin .lt _ _ | .bin .le _ _ | .bin .gt _ _ | .bin .ge _ _ | .bin .eq _ _ => 2
  | .bin .add _ _ | .bin .sub _ _ => 3
  | .bin .mul _ _ | .bin .div _ _ => 4
  | .bin _ _ _ => 8            -- not an infix operator: never produced by the parser
  | .neg _ => 5
  | .method _ _ _ | .length _ => 6
  | .term _ | .paren _ => 7

def isMethodOp : BinOp → Bool
  | .contains | .pfx | .sfx | .regex | .intersection | .union => true
  | _ => false

def AtomTermWF : PTerm → Prop
  | .set _ => False
  | _ => True

def TermWF : PTerm → Prop
  | .set elts => elts ≠ [] ∧ ∀ t ∈ elts, AtomTermWF t
  | _ => True

/-- A tree in the shape the documented grammar produces: left-associative chains, one
comparison at most, `!` applied to a method-level operand, method receivers at method
level, arguments and parenthesised subtrees arbitrary (level 0). -/
def WF : PExpr → Prop
  | .term t => TermWF t
  | .paren e => WF e
  | .neg e => WF e ∧ level e ≥ 6
  | .bin op l r =>
    WF l ∧ WF r ∧ level (.bin op l r) ≤ 4 ∧
    (if level (.bin op l r) = 2 then level l ≥ 3 ∧ level r ≥ 3
     else level l ≥ level (.bin op l r) ∧ level r > level (.bin op l r))
  | .method op recv arg => isMethodOp op = true ∧ WF recv ∧ WF arg ∧ level recv ≥ 6
  | .length recv => WF recv ∧ level recv ≥ 6

/-- Tokens that cannot continue an expression (what may follow one in a rule body). -/
def Stops : List Tok → Prop
  | [] => True
  | .punct ',' :: _ | .punct ';' :: _ | .punct ')' :: _ | .ident "or" :: _ => True
  | _ => False

/-- `WF` is the proof-side `WFx`. -/
theorem wfx_of_WF : ∀ e, WF e → WFx e := by
  intro e
  induction e with
  | term t => exact id
  | paren e ih => exact ih
  | neg e ih => exact fun h => ⟨ih h.1, h.2⟩
  | bin op l r ihl ihr => exact fun h => ⟨ihl h.1, ihr h.2.1, h.2.2.1, h.2.2.2⟩
  | method op recv arg ihr iha => exact fun h => ⟨h.1, ihr h.2.1, iha h.2.2.1, h.2.2.2⟩
  | length recv ih => exact fun h => ⟨ih h.1, h.2⟩

theorem follow_of_Stops {rest : List Tok} (hr : Stops rest) : Follow 0 rest := by
  unfold Stops at hr
  split at hr
  · simp [Follow, orStop, andStop, cmpStop, addStop, mulStop, dotStop]
  all_goals first
    | exact absurd hr id
    | simp [Follow, orStop, andStop, cmpStop, addStop, mulStop, dotStop, cmpOfTok, addOfTok, mulOfTok]

/-- The round trip with the fuel counted by `Grammar.esize` (a signed integer literal `-5`,
two tokens, counts as one; never more than the number of tokens: `esize_le_length`). -/
theorem parse_render_partial_size (e : PExpr) (h : WF e) (rest : List Tok) (hr : Stops rest)
    (fuel : Nat) (hf : fuel ≥ 16 * esize e + 16) :
    parseOr fuel (renderToks e ++ rest) = some (e, rest) :=
  parseOr_render_size e (wfx_of_WF e h) rest (follow_of_Stops hr) fuel (by omega)

/-- **C14 (expressions), token level.** Every well-formed tree, rendered with the minimum
of parentheses, parses back to itself — for all nestings and depths — and the parser stops
exactly at the end of the expression. This is what "structured by the documented
precedence and associativity" means.  Signed integer literals (`PTerm.negInt`, rendered
`-` digits) are ordinary atoms: `1 - -5` renders to `1`, `-`, `-`, `5` and reads back as the
subtraction of the literal `-5`. -/
theorem parse_render_partial (e : PExpr) (h : WF e) (rest : List Tok) (hr : Stops rest)
    (fuel : Nat) (hf : fuel ≥ 16 * (renderToks e).length + 16) :
    parseOr fuel (renderToks e ++ rest) = some (e, rest) :=
  parse_render_partial_size e h rest hr fuel (by
    have := esize_le_length e (wfx_of_WF e h); omega)

/-- Emission: operands left to right, operator after its operands, `Parens` after a
parenthesised subtree (the postfix of the rendered-and-parsed tree is the postfix of the tree). -/
theorem postfix_of_parse (e : PExpr) (h : WF e) (rest : List Tok) (hr : Stops rest)
    (fuel : Nat) (hf : fuel ≥ 16 * (renderToks e).length + 16) :
    (parseOr fuel (renderToks e ++ rest)).map (fun r => toPostfix r.1) = some (toPostfix e) := by
  rw [parse_render_partial e h rest hr fuel hf]; rfl

/-! ### The precedence table, instance by instance (for all atoms `a b c`) -/

def atomTok (t : PTerm) : List Tok := renderTermToks t

theorem mul_over_add (a b c : PTerm) (ha : AtomTermWF a) (hb : AtomTermWF b) (hc : AtomTermWF c) :
    parseOr 100 (atomTok a ++ [.op "+"] ++ atomTok b ++ [.op "*"] ++ atomTok c) =
      some (.bin .add (.term a) (.bin .mul (.term b) (.term c)), []) := by
  have hw : WF (.bin .add (.term a) (.bin .mul (.term b) (.term c))) := by
    have ta : TermWF a := termOK_of_atomOK ha
    have tb : TermWF b := termOK_of_atomOK hb
    have tc : TermWF c := termOK_of_atomOK hc
    simp [WF, level, ta, tb, tc]
  have := parse_render_partial_size _ hw [] trivial 100 (by
    have := esize_term_atom (t := a) ha
    have := esize_term_atom (t := b) hb
    have := esize_term_atom (t := c) hc
    simp only [esize, *]; omega)
  simpa [renderToks, binTok, atomTok] using this

theorem sub_left_assoc (a b c : PTerm) (ha : AtomTermWF a) (hb : AtomTermWF b) (hc : AtomTermWF c) :
    parseOr 100 (atomTok a ++ [.op "-"] ++ atomTok b ++ [.op "-"] ++ atomTok c) =
      some (.bin .sub (.bin .sub (.term a) (.term b)) (.term c), []) := by
  have hw : WF (.bin .sub (.bin .sub (.term a) (.term b)) (.term c)) := by
    have ta : TermWF a := termOK_of_atomOK ha
    have tb : TermWF b := termOK_of_atomOK hb
    have tc : TermWF c := termOK_of_atomOK hc
    simp [WF, level, ta, tb, tc]
  have := parse_render_partial_size _ hw [] trivial 100 (by
    have := esize_term_atom (t := a) ha
    have := esize_term_atom (t := b) hb
    have := esize_term_atom (t := c) hc
    simp only [esize, *]; omega)
  simpa [renderToks, binTok, atomTok] using this

theorem and_over_or (a b c : PTerm) (ha : AtomTermWF a) (hb : AtomTermWF b) (hc : AtomTermWF c) :
    parseOr 100 (atomTok a ++ [.orOp] ++ atomTok b ++ [.andOp] ++ atomTok c) =
      some (.bin .or (.term a) (.bin .and (.term b) (.term c)), []) := by
  have hw : WF (.bin .or (.term a) (.bin .and (.term b) (.term c))) := by
    have ta : TermWF a := termOK_of_atomOK ha
    have tb : TermWF b := termOK_of_atomOK hb
    have tc : TermWF c := termOK_of_atomOK hc
    simp [WF, level, ta, tb, tc]
  have := parse_render_partial_size _ hw [] trivial 100 (by
    have := esize_term_atom (t := a) ha
    have := esize_term_atom (t := b) hb
    have := esize_term_atom (t := c) hc
    simp only [esize, *]; omega)
  simpa [renderToks, binTok, atomTok] using this

theorem cmp_over_and (a b c : PTerm) (ha : AtomTermWF a) (hb : AtomTermWF b) (hc : AtomTermWF c) :
    parseOr 100 (atomTok a ++ [.andOp] ++ atomTok b ++ [.op "<"] ++ atomTok c) =
      some (.bin .and (.term a) (.bin .lt (.term b) (.term c)), []) := by
  have hw : WF (.bin .and (.term a) (.bin .lt (.term b) (.term c))) := by
    have ta : TermWF a := termOK_of_atomOK ha
    have tb : TermWF b := termOK_of_atomOK hb
    have tc : TermWF c := termOK_of_atomOK hc
    simp [WF, level, ta, tb, tc]
  have := parse_render_partial_size _ hw [] trivial 100 (by
    have := esize_term_atom (t := a) ha
    have := esize_term_atom (t := b) hb
    have := esize_term_atom (t := c) hc
    simp only [esize, *]; omega)
  simpa [renderToks, binTok, atomTok] using this

theorem not_over_mul (a b : PTerm) (ha : AtomTermWF a) (hb : AtomTermWF b) :
    parseOr 100 ([.punct '!'] ++ atomTok a ++ [.op "*"] ++ atomTok b) =
      some (.bin .mul (.neg (.term a)) (.term b), []) := by
  have hw : WF (.bin .mul (.neg (.term a)) (.term b)) := by
    have ta : TermWF a := termOK_of_atomOK ha
    have tb : TermWF b := termOK_of_atomOK hb
    simp [WF, level, ta, tb]
  have := parse_render_partial_size _ hw [] trivial 100 (by
    have := esize_term_atom (t := a) ha
    have := esize_term_atom (t := b) hb
    simp only [esize, *]; omega)
  simpa [renderToks, binTok, atomTok] using this

theorem method_binds_tightest (a b : PTerm) (ha : AtomTermWF a) (hb : AtomTermWF b) :
    parseOr 100 ([.punct '!'] ++ atomTok a ++ [.dot, .ident "starts_with", .punct '('] ++ atomTok b ++ [.punct ')']) =
      some (.neg (.method .pfx (.term a) (.term b)), []) := by
  -- 7 tokens: the general fuel bound (16 * 7 + 16) exceeds 100, so by cases on the atoms
  cases a <;> first | exact absurd ha id | skip
  all_goals cases b <;> first | exact absurd hb id | rfl

/-- **Chained comparisons are errors.** After one comparison the parser stops at a second
comparison operator, and no continuation of a rule body, check or block accepts it. -/
theorem comparison_nonassoc (a b c : PTerm) (ha : AtomTermWF a) (hb : AtomTermWF b) (hc : AtomTermWF c)
    (op1 op2 : Tok) (h1 : (cmpOfTok op1).isSome) (h2 : (cmpOfTok op2).isSome) (pol : Bool) :
    parseItems 1000 pol ([.keyword "check if"] ++ atomTok a ++ [op1] ++ atomTok b ++ [op2] ++ atomTok c ++ [.punct ';']) = none := by
  have := chained_cmp_rejected a b c ha hb hc op1 op2 h1 h2 pol 993 (by omega)
  simpa [atomTok] using this

/-! ### The named errors are errors (conversion level, also inside expressions) -/

theorem unbound_parameter_is_error (ps : Params) (n : String) (h : ps.find? (·.1 == n) = none) :
    denoteTerm ps (.param n) = none := by
  simp [denoteTerm, denoteAtomTerm, h]

/-- …and an error in any operand makes the whole expression an error (no nil term). -/
theorem expr_error_propagates (ps : Params) (e : PExpr) (t : PTerm)
    (hmem : POp.value t ∈ toPostfix e) (h : denoteTerm ps t = none) : denoteExpr ps e = none := by
  have key : ∀ l : List POp, POp.value t ∈ l → l.mapM (denoteOp ps) = none := by
    intro l
    induction l with
    | nil => intro hm; cases hm
    | cons x xs ih =>
      intro hm
      rw [List.mapM_cons]
      rcases List.mem_cons.mp hm with rfl | hm'
      · simp [denoteOp, h]
      · rw [ih hm']; cases denoteOp ps x <;> rfl
  exact key _ hmem

theorem odd_hex_is_error (ps : Params) (ds : List Char) (h : ds.length % 2 = 1) :
    denoteTerm ps (.bytes ds) = none := by
  simp [denoteTerm, denoteAtomTerm]; omega

theorem variable_in_set_is_error (ps : Params) (n : String) (pre post : List PTerm) :
    denoteTerm ps (.set (pre ++ .var n :: post)) = none := by
  have key : ∀ pre : List PTerm, ∀ ts, (pre ++ .var n :: post).mapM (denoteAtomTerm ps) = some ts →
      ts.mapM atomOfTerm = none := by
    intro pre
    induction pre with
    | nil =>
      intro ts hts
      simp only [List.nil_append, List.mapM_cons, denoteAtomTerm] at hts
      cases hp : post.mapM (denoteAtomTerm ps) with
      | none => simp [hp] at hts
      | some ys =>
        simp [hp] at hts
        subst hts
        simp [List.mapM_cons, atomOfTerm]
    | cons x xs ih =>
      intro ts hts
      simp only [List.cons_append, List.mapM_cons] at hts
      cases hx : denoteAtomTerm ps x with
      | none => simp [hx] at hts
      | some y =>
        cases hr : (xs ++ .var n :: post).mapM (denoteAtomTerm ps) with
        | none => simp [hx, hr] at hts
        | some ys =>
          simp [hx, hr] at hts
          subst hts
          rw [List.mapM_cons, ih ys hr]
          cases atomOfTerm y <;> rfl
  unfold denoteTerm
  cases hm : (pre ++ .var n :: post).mapM (denoteAtomTerm ps) with
  | none => simp [hm]
  | some ts => simp [hm, key pre ts hm]

theorem date_without_zone_is_error : unixOfDate "2020-01-01T00:00:00".toList = none := by
  decide +kernel

theorem date_month_13_is_error : unixOfDate "2020-13-45T99:00:00Z".toList = none := by
  decide +kernel

/-- `or` denotes alternative queries, in order. -/
theorem or_is_alternatives (ps : Params) (q1 q2 : List PElem) (r1 r2 : DRule)
    (h1 : denoteQuery ps q1 = some r1) (h2 : denoteQuery ps q2 = some r2) :
    denoteItems ps [.check { queries := [q1, q2] }] =
      some { facts := [], rules := [], checks := [{ queries := [r1, r2] }], policies := [] } := by
  simp [denoteItems, List.mapM_cons, h1, h2]

/-! Non-vacuity: the example of the design, end to end from characters. -/

def sampleText : List Char := "check if !$a.starts_with(\"x\") && 1 + 2 * 3 <= ($b - 4) / 2 || $c;".toList

theorem sample_parses :
    (parseBlockText sampleText).bind (denoteItems []) =
      some { facts := [], rules := [], policies := [],
             checks := [{ queries := [{ head := queryHead, body := [], exprs := [[
               .value (.var (strBytes "a")), .value (.const (.atom (.str (strBytes "x")))), .binary .pfx, .unary .negate,
               .value (.const (.atom (.int 1))), .value (.const (.atom (.int 2))), .value (.const (.atom (.int 3))), .binary .mul, .binary .add,
               .value (.var (strBytes "b")), .value (.const (.atom (.int 4))), .binary .sub, .unary .parens,
               .value (.const (.atom (.int 2))), .binary .div, .binary .le, .binary .and,
               .value (.var (strBytes "c")), .binary .or ]] }] }] } := by
  decide +kernel

theorem chained_text_rejected : parseBlockText "check if 1 < 2 < 3;".toList = none := by
  decide +kernel

end Biscuit.C14
