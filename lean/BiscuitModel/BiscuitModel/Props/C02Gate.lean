/-
Props/C02Gate — the declared-symbols gate never refuses the library's own tokens.

`New`, `Append` and `Unmarshal` apply `checkDeclaredSymbols` (builder.go; model
`blocksDeclared`, Model/Unmarshal): every string index, every predicate name and every
variable number of a block must be below 1024 and inside the default table, or declared
by the base table, by an earlier block or by the block itself. Props/C02Wire shows what
the gate buys (attenuation can only restrict, on the wire). This file shows what it does
not cost: the check never fires on blocks built by `Builder` / `BlockBuilder`
(`buildBlockMsg`, `buildBlockMsgs`, Model/Symbols) over the same table — for ALL contents
and ALL base tables, duplicates and default strings in the base table included.

Why: `Insert` hands out either the index of a string that is already there, or the index
of the string it has just appended; either way the index is declared in the table `Insert`
leaves (`symInsert_declared`). Variable names are interned through the same `Insert`
(`internTerm` on `.var`), so variable numbers are declared in the same way. The table only
grows at its end, and a declared index stays declared. Finally the symbols a block
declares (`SplitOff`: the final table without the first `start.length` entries) are all
new at the time they were appended, so `Extend` on the reading side adds every one of them
back, in order, and rebuilds the very table the builder ended with
(`buildBlockMsg_extend`).

The other side (D24): a block built over a LONGER table than the one `New` is given is
outside the gate (`built_over_longer_table_refused`).

Section 7 puts both tests of `New` / `Append` together (`gateAnswer`: `IsDisjoint`, then the
declared-symbols rule): a block built over the table it is handed in with is always
answered `.ok` (`gateAnswer_built`, `gateAnswer_token_chain`), and whatever the two let
through is inside the C02 wire theorem (`gateAnswer_ok_attenuation`).
-/
import BiscuitModel.Proofs.GateBuilder
import BiscuitModel.Props.C02Wire

namespace Biscuit.C02Gate
open Biscuit Wire

/-! ## 1. One block -/

/-- Every index handed out by `SymbolTable.Insert` is declared in the table it leaves. -/
theorem symInsert_declared (t : SymTable) (s : Bytes) :
    symDeclared (symInsert t s).1 (symInsert t s).2 = true :=
  Biscuit.symInsert_declared t s

/-- `Insert` only appends, so a declared index stays declared. -/
theorem symInsert_keeps_declared (t : SymTable) (s : Bytes) (i : Nat) (h : symDeclared t i = true) :
    symDeclared (symInsert t s).1 i = true := by
  obtain ⟨ext, he⟩ := sym_symInsert_ext t s
  rw [he]; exact symDeclared_mono t ext i h

/-- What the reader's `Extend` makes of the symbols a built block declares is exactly the
table the builder ended with. No condition on `start`: the strings `Insert` appended were
neither default symbols nor in the table at that moment, so `Extend` skips none. -/
theorem buildBlockMsg_extend (start : SymTable) (c : BlockContent) :
    extendTable start (buildBlockMsg start c).2.symbols = (buildBlockMsg start c).1 :=
  (gate_buildBlockMsg start c).2.1

/-- The builder's table is the starting table plus the declared symbols. -/
theorem buildBlockMsg_table (start : SymTable) (c : BlockContent) :
    (buildBlockMsg start c).1 = start ++ (buildBlockMsg start c).2.symbols := by
  obtain ⟨ext, he⟩ := (gate_buildBlockMsg start c).1.prefix
  show (buildBlockMsg start c).1 = start ++ (buildBlockMsg start c).1.drop start.length
  rw [he, List.drop_left]

/-- **One built block is inside the gate**, in the builder's final table: strings,
predicate names and variable numbers of all facts, rules and checks. -/
theorem buildBlockMsg_declared (start : SymTable) (c : BlockContent) :
    blockDeclared (buildBlockMsg start c).1 (buildBlockMsg start c).2 = true := by
  rw [← C02Wire.blockDeclaredV_eq]
  exact (gate_buildBlockMsg start c).2.2

/-- The same in the shape `blocksDeclared` uses: the table is first `Extend`ed with the
block's own symbols. This is `New(…, start, …)` / `Append` checking a block that
`NewBlockBuilder(start)` / `CreateBlock()` built: `checkDeclaredSymbols` does not fire. -/
theorem buildBlockMsg_declared' (start : SymTable) (c : BlockContent) :
    blockDeclared (extendTable start (buildBlockMsg start c).2.symbols) (buildBlockMsg start c).2 = true := by
  rw [buildBlockMsg_extend]; exact buildBlockMsg_declared start c

/-- `TableOK` (no duplicate, no default string) is not needed above; it is kept by the
builder, as Props/C07 has it. -/
theorem buildBlockMsg_tableOK (start : SymTable) (h : TableOK start) (c : BlockContent) :
    TableOK (buildBlockMsg start c).1 :=
  (sym_buildBlock_resolves start h c).2.1

/-! ## 2. All blocks of a token -/

/-- **The gate never refuses what the builders produce**: authority block built over
`base`, every further block built over the table its predecessors left — the check that
`New`, `Append` and `Unmarshal` (with `Unmarshaler.Symbols = base`) apply passes, for every
content and every base table. -/
theorem buildBlockMsgs_declared (base : SymTable) (cs : List BlockContent) :
    blocksDeclared base (buildBlockMsgs base cs) = true := by
  rw [← C02Wire.blocksDeclaredV_eq]
  exact gate_buildBlockMsgs cs base

/-- As asked for, with the (unused) hypothesis that the base table is one the library
maintains. -/
theorem buildBlockMsgs_declared_of_tableOK (base : SymTable) (_hb : TableOK base) (cs : List BlockContent) :
    blocksDeclared base (buildBlockMsgs base cs) = true :=
  buildBlockMsgs_declared base cs

/-- `Append`: the parent's blocks were built from `cs`, the new block from `c` over the
table they left. The appended token is inside the gate as well. -/
theorem append_built_declared (base : SymTable) (cs : List BlockContent) (c : BlockContent) :
    blocksDeclared base (buildBlockMsgs base (cs ++ [c])) = true :=
  buildBlockMsgs_declared base (cs ++ [c])

/-! ## 3. Built tokens are inside the C02 wire theorem -/

/-- The hypothesis `blocksDeclaredV [] msgs = true` of `C02Wire.wire_attenuation_monotone`
holds for every token the builders make. -/
theorem built_tokens_inside_wire_theorem (cs : List BlockContent) :
    blocksDeclaredV [] (buildBlockMsgs [] cs) = true :=
  gate_buildBlockMsgs cs []

/-- C02 at the wire level for every built token: whatever block message `b` is appended
(built by the library or not, with any symbols), the earlier blocks resolve as before and
an accepted T+B means an accepted T. -/
theorem built_token_attenuation_monotone (cfg : EvalCfg) (p : Bool) (cs : List BlockContent) (b : BlockMsg)
    (s : AuthState) (a : Block) (rest : List Block) (bB : Block)
    (hTB : resolveTokenL p (buildBlockMsgs [] cs ++ [b]) = .ok (a :: rest ++ [bB])) :
    resolveTokenL p (buildBlockMsgs [] cs) = .ok (a :: rest) ∧
    ((authorize cfg { authority := a, blocks := rest ++ [bB] } s).2 = .ok →
     (authorize cfg { authority := a, blocks := rest } s).2 = .ok) :=
  C02Wire.wire_attenuation_monotone cfg p (buildBlockMsgs [] cs) b s
    (built_tokens_inside_wire_theorem cs) a rest bB hTB

/-! ## 4. `Unmarshal` does not refuse honest tokens

`e` is any envelope whose signed blocks carry, in order, the encodings of the built block
messages. The side conditions are those of the existing round trips: the 32 / 64 byte
sizes `Unmarshal` asks of keys and signatures (true of Ed25519), `BlockWF` of every
message (C07: sizes far below the format's limits) and an envelope of less than 2^64
bytes with a 32-bit root key id (Proofs/WireEnvelope). -/

/-- Built blocks pass the version gate and carry only known operator codes. -/
theorem built_blocks_kinds (base : SymTable) (cs : List BlockContent) :
    ∀ m ∈ buildBlockMsgs base cs, versionOk m.version = true ∧ blockKindsValid m = true := by
  intro m hm
  obtain ⟨start, c, rfl⟩ := buildBlockMsgs_mem cs base m hm
  exact ⟨(kinds_buildBlockMsg start c).2, (kinds_buildBlockMsg start c).1⟩

/-- **`Serialize` then `Unmarshal`** (with the base table the token was built over) of a
built token is not refused: not by the envelope decoder, not by the size, version and
operator gates, and not by `checkDeclaredSymbols`. What comes out is the envelope and the
built block messages. -/
theorem unmarshalFrom_accepts_built (base : SymTable) (cs : List BlockContent) (e : BiscuitMsg)
    (hblocks : (e.authority :: e.blocks).map (·.block) = (buildBlockMsgs base cs).map encodeBlock)
    (hsize : ∀ sb ∈ e.authority :: e.blocks, sb.nextKey.key.length = 32 ∧ sb.signature.length = 64)
    (hwf : ∀ m ∈ buildBlockMsgs base cs, BlockWF m)
    (hid : ∀ i, e.rootKeyId = some i → i < 2^32)
    (halg : ∀ sb ∈ e.authority :: e.blocks, sb.nextKey.algorithm < 2^64)
    (hlen : (encodeBiscuit e).length < 2^64) :
    unmarshalFrom base (encodeBiscuit e) = .ok { envelope := e, blocks := buildBlockMsgs base cs } := by
  have hp : parseAll (e.authority :: e.blocks) = .ok (buildBlockMsgs base cs) :=
    parseAll_encoded _ _ hblocks hsize fun m hm =>
      ⟨hwf m hm, (built_blocks_kinds base cs m hm).1, (built_blocks_kinds base cs m hm).2⟩
  simp only [unmarshalFrom, decodeBiscuit_encode_of_length e hid halg hlen, hp,
    buildBlockMsgs_declared base cs, if_true]

/-- The package-level `Unmarshal` (no base table) on a token built with no base table. -/
theorem unmarshal_accepts_built (cs : List BlockContent) (e : BiscuitMsg)
    (hblocks : (e.authority :: e.blocks).map (·.block) = (buildBlockMsgs [] cs).map encodeBlock)
    (hsize : ∀ sb ∈ e.authority :: e.blocks, sb.nextKey.key.length = 32 ∧ sb.signature.length = 64)
    (hwf : ∀ m ∈ buildBlockMsgs [] cs, BlockWF m)
    (hid : ∀ i, e.rootKeyId = some i → i < 2^32)
    (halg : ∀ sb ∈ e.authority :: e.blocks, sb.nextKey.algorithm < 2^64)
    (hlen : (encodeBiscuit e).length < 2^64) :
    unmarshal (encodeBiscuit e) = .ok { envelope := e, blocks := buildBlockMsgs [] cs } :=
  unmarshalFrom_accepts_built [] cs e hblocks hsize hwf hid halg hlen

/-! ## 5. Non-vacuity

Two blocks. Authority: `owner("alice", "file1")`, `right($f, "read") <- owner("alice", $f),
$f.starts_with("file")`. Second block: `check if right($g, "read"), $g == "file1"` — a
string term, variables, a rule and a check; `"file1"` and `"alice"` are shared across
blocks, `g` is a variable the second block declares. -/

def sAlice : Bytes := strBytes "alice"
def sFile1 : Bytes := strBytes "file1"

def fOwner : DFact := { name := strBytes "owner", args := [.atom (.str sAlice), .atom (.str sFile1)] }

def rRight : DRule :=
  { head := { name := strBytes "right", terms := [.var (strBytes "f"), .const (.atom (.str (strBytes "read")))] },
    body := [{ name := strBytes "owner", terms := [.const (.atom (.str sAlice)), .var (strBytes "f")] }],
    exprs := [[.value (.var (strBytes "f")), .value (.const (.atom (.str (strBytes "file")))), .binary .pfx]] }

def qRight : DRule :=
  { head := { name := strBytes "query", terms := [] },
    body := [{ name := strBytes "right", terms := [.var (strBytes "g"), .const (.atom (.str (strBytes "read")))] }],
    exprs := [[.value (.var (strBytes "g")), .value (.const (.atom (.str sFile1))), .binary .eq]] }

def c0 : BlockContent := { block := { facts := [fOwner], rules := [rRight], checks := [] }, context := [] }
def c1 : BlockContent :=
  { block := { facts := [], rules := [], checks := [{ queries := [qRight] }] }, context := strBytes "ctx" }

def cs2 : List BlockContent := [c0, c1]

example : blocksDeclared [] (buildBlockMsgs [] cs2) = true := by decide +kernel
example : blocksDeclared [] (buildBlockMsgs [] cs2) = true := buildBlockMsgs_declared [] cs2
example : (buildBlockMsgs [] cs2).map (·.symbols) =
    [[sAlice, sFile1, strBytes "f", strBytes "file"], [strBytes "g"]] := by decide +kernel
/-- The variable `$f` of the authority block is number 1026, `$g` of the second block 1028. -/
example : ((buildBlockMsgs [] cs2).map fun m => m.rules.map (·.head.terms)) =
    [[[.atom (.variable 1026), .atom (.string 0)]], []] := by decide +kernel
example : ((buildBlockMsgs [] cs2).map fun m => m.checks.map fun c => c.queries.map (·.body.map (·.terms))) =
    [[], [[[[.atom (.variable 1028), .atom (.string 0)]]]]] := by decide +kernel

/-- A base table with a duplicate and a default string (not `TableOK`): still inside. -/
def oddBase : SymTable := [strBytes "x", strBytes "read", strBytes "x"]
example : blocksDeclared oddBase (buildBlockMsgs oddBase cs2) = true := by decide +kernel

/-! Non-vacuity of section 4: an envelope around `cs2` with 32-byte keys and 64-byte
signatures; its serialization is accepted and yields the built messages. -/

def sbOf (k : UInt8) (m : BlockMsg) : SignedBlockMsg :=
  { block := encodeBlock m, nextKey := { algorithm := 0, key := List.replicate 32 k },
    signature := List.replicate 64 k }

def exEnvelope : BiscuitMsg :=
  { rootKeyId := some 7, authority := sbOf 1 (buildBlockMsg [] c0).2,
    blocks := [sbOf 2 (buildBlockMsg (buildBlockMsg [] c0).1 c1).2],
    proof := .nextSecret (List.replicate 32 3) }

example : (exEnvelope.authority :: exEnvelope.blocks).map (·.block) = (buildBlockMsgs [] cs2).map encodeBlock := by
  decide +kernel

example : (match unmarshal (encodeBiscuit exEnvelope) with
    | .ok p => decide (p.envelope = exEnvelope ∧ p.blocks = buildBlockMsgs [] cs2)
    | .error _ => false) = true := by decide +kernel

/-! ## 6. The other side: a block built over a longer table (D24)

`NewBlockBuilder(long)` interns `"superuser"` into a table that already holds two strings,
so the block refers to index 1026 and declares one symbol. `New` over the EMPTY table
reads index 1026 through a table of length one: undeclared. Before fix 3376d3d `New` and
`Append` let this through; the token read `role("<invalid symbol 1026>")` until a later
block declared a string at that index (Props/C02Wire,
`undeclared_symbol_widens_without_gate`). -/

def long : SymTable := [strBytes "a", strBytes "b"]

def cSuper : BlockContent :=
  { block := { facts := [{ name := strBytes "role", args := [.atom (.str (strBytes "superuser"))] }],
               rules := [], checks := [] },
    context := [] }

/-- Over the table it was built on, the block is inside the gate (section 2) … -/
theorem built_over_longer_table_accepted_there :
    blocksDeclared long [(buildBlockMsg long cSuper).2] = true :=
  buildBlockMsgs_declared long [cSuper]

/-- … over a shorter one it is refused: `New` / `Append` / `Unmarshal` answer with an
error instead of making a token whose authority fact has no fixed reading. -/
theorem built_over_longer_table_refused :
    blocksDeclared [] [(buildBlockMsg long cSuper).2] = false := by decide +kernel

/-- So the starting table in `buildBlockMsgs_declared` cannot be replaced by a shorter one. -/
theorem gate_needs_same_table :
    ¬ (∀ (start base : SymTable) (c : BlockContent),
        blocksDeclared base [(buildBlockMsg start c).2] = true) :=
  fun h => absurd (h long [] cSuper) (by rw [built_over_longer_table_refused]; decide)

/-! ## 7. Honest use is always accepted

`gateAnswer tbl m` (Model/Unmarshal) is what `New` over the base table `tbl`, and `Append`
to a token whose table is `tbl`, answer for a block `m`: `.overlap` when the block declares
a string `tbl` already holds (`IsDisjoint` fails), else `.undeclared` when
`checkDeclaredSymbols` fires, else `.ok`.

A block built over the very table it is then handed in with gets `.ok` — for every table
and every content, no side condition on the table. The first test passes because a string
`Insert` appends is, at that moment, neither a default symbol nor in the table
(`symIndex` looks through the default symbols first and then through the whole table), so
the declared symbols — the suffix appended to `t` — hold no element of `t`, not even when
`t` itself has duplicates or default strings. The second test is `buildBlockMsg_declared'`. -/

/-- The three answers, readable. -/
theorem blocksDeclared_single (tbl : SymTable) (m : BlockMsg) :
    blocksDeclared tbl [m] = blockDeclared (extendTable tbl m.symbols) m := by
  simp [blocksDeclared]

theorem overlap_iff (tbl : SymTable) (syms : List Bytes) :
    (syms.any fun s => tbl.contains s) = true ↔ ∃ s ∈ syms, s ∈ tbl := by
  simp

theorem gateAnswer_overlap_iff (tbl : SymTable) (m : BlockMsg) :
    gateAnswer tbl m = .overlap ↔ ∃ s ∈ m.symbols, s ∈ tbl := by
  rw [← overlap_iff]
  unfold gateAnswer
  by_cases h1 : (m.symbols.any fun s => tbl.contains s) = true
  · rw [if_pos h1]; exact ⟨fun _ => h1, fun _ => rfl⟩
  · rw [if_neg h1]
    by_cases h2 : blocksDeclared tbl [m] = true
    · rw [if_pos h2]; exact ⟨fun h => (nomatch h), fun h => absurd h h1⟩
    · rw [if_neg h2]; exact ⟨fun h => (nomatch h), fun h => absurd h h1⟩

theorem gateAnswer_ok_iff (tbl : SymTable) (m : BlockMsg) :
    gateAnswer tbl m = .ok ↔ (∀ s ∈ m.symbols, s ∉ tbl) ∧ blocksDeclared tbl [m] = true := by
  have hov := overlap_iff tbl m.symbols
  unfold gateAnswer
  by_cases h1 : (m.symbols.any fun s => tbl.contains s) = true
  · obtain ⟨s, hs, hst⟩ := hov.mp h1
    rw [if_pos h1]
    exact ⟨fun h => (nomatch h), fun h => absurd hst (h.1 s hs)⟩
  · have hno : ∀ s ∈ m.symbols, s ∉ tbl := fun s hs hst => h1 (hov.mpr ⟨s, hs, hst⟩)
    rw [if_neg h1]
    by_cases h2 : blocksDeclared tbl [m] = true
    · rw [if_pos h2]; exact ⟨fun _ => ⟨hno, h2⟩, fun _ => rfl⟩
    · rw [if_neg h2]; exact ⟨fun h => (nomatch h), fun h => absurd h.2 h2⟩

theorem gateAnswer_undeclared_iff (tbl : SymTable) (m : BlockMsg) :
    gateAnswer tbl m = .undeclared ↔
      (∀ s ∈ m.symbols, s ∉ tbl) ∧ blocksDeclared tbl [m] = false := by
  have hov := overlap_iff tbl m.symbols
  unfold gateAnswer
  by_cases h1 : (m.symbols.any fun s => tbl.contains s) = true
  · obtain ⟨s, hs, hst⟩ := hov.mp h1
    rw [if_pos h1]
    exact ⟨fun h => (nomatch h), fun h => absurd hst (h.1 s hs)⟩
  · have hno : ∀ s ∈ m.symbols, s ∉ tbl := fun s hs hst => h1 (hov.mpr ⟨s, hs, hst⟩)
    rw [if_neg h1]
    by_cases h2 : blocksDeclared tbl [m] = true
    · rw [if_pos h2]
      exact ⟨fun h => (nomatch h), fun h => absurd h2 (Bool.eq_false_iff.mp h.2)⟩
    · rw [if_neg h2]; exact ⟨fun _ => ⟨hno, Bool.eq_false_iff.mpr h2⟩, fun _ => rfl⟩

/-- Exactly one of the three. -/
theorem gateAnswer_cases (tbl : SymTable) (m : BlockMsg) :
    gateAnswer tbl m = .ok ∨ gateAnswer tbl m = .overlap ∨ gateAnswer tbl m = .undeclared := by
  cases gateAnswer tbl m <;> simp

/-- The symbols a built block declares were all new when `Insert` appended them: none is a
default symbol, none is in the starting table — whatever that table holds. -/
theorem buildBlockMsg_symbols_fresh (t : SymTable) (c : BlockContent) :
    ∀ s ∈ (buildBlockMsg t c).2.symbols, s ∉ defaultSymbols ∧ s ∉ t :=
  (gate_buildBlockMsg t c).1.drop_fresh.1

/-- … and none is declared twice. -/
theorem buildBlockMsg_symbols_nodup (t : SymTable) (c : BlockContent) :
    (buildBlockMsg t c).2.symbols.Nodup :=
  (gate_buildBlockMsg t c).1.drop_fresh.2

/-- `IsDisjoint` holds between a table and the symbols of a block built over it. -/
theorem buildBlockMsg_disjoint (t : SymTable) (c : BlockContent) :
    ((buildBlockMsg t c).2.symbols.any fun s => t.contains s) = false := by
  rw [Bool.eq_false_iff]
  intro h
  obtain ⟨s, hs, hst⟩ := (overlap_iff t _).mp h
  exact (buildBlockMsg_symbols_fresh t c s hs).2 hst

/-- **A block built over the table it is handed in with is accepted** by `New` / `Append`:
`NewBlockBuilder(t)`, any content, `Build()`, then `New(…, t, block)` — or `CreateBlock()`
on a token whose table is `t`, then `Append`. No condition on `t`. -/
theorem gateAnswer_built (t : SymTable) (c : BlockContent) :
    gateAnswer t (buildBlockMsg t c).2 = .ok := by
  rw [gateAnswer_ok_iff]
  refine ⟨fun s hs => (buildBlockMsg_symbols_fresh t c s hs).2, ?_⟩
  rw [blocksDeclared_single]
  exact buildBlockMsg_declared' t c

/-- The table a token holds after its blocks `cs` were built one after the other from
`base` (the builder's side; `buildBlockMsgs` threads the same table). -/
def builtTable (base : SymTable) (cs : List BlockContent) : SymTable :=
  cs.foldl (fun t c => (buildBlockMsg t c).1) base

/-- The table `New` / `Append` / `Unmarshal` hold after reading block messages in turn. -/
def readTable (base : SymTable) (msgs : List BlockMsg) : SymTable :=
  msgs.foldl (fun t m => extendTable t m.symbols) base

/-- Appending one more content to the builder's list is building it over `builtTable`. -/
theorem buildBlockMsgs_snoc (cs : List BlockContent) (c : BlockContent) : ∀ base : SymTable,
    buildBlockMsgs base (cs ++ [c]) =
      buildBlockMsgs base cs ++ [(buildBlockMsg (builtTable base cs) c).2] := by
  induction cs with
  | nil => intro base; rfl
  | cons c0 cs ih =>
    intro base
    show (buildBlockMsg base c0).2 :: buildBlockMsgs (buildBlockMsg base c0).1 (cs ++ [c]) = _
    rw [ih]; rfl

/-- Both sides agree on the table of an honestly built token. -/
theorem readTable_built (cs : List BlockContent) : ∀ base : SymTable,
    readTable base (buildBlockMsgs base cs) = builtTable base cs := by
  induction cs with
  | nil => intro base; rfl
  | cons c0 cs ih =>
    intro base
    show readTable (extendTable base (buildBlockMsg base c0).2.symbols)
      (buildBlockMsgs (buildBlockMsg base c0).1 cs) = builtTable (buildBlockMsg base c0).1 cs
    rw [buildBlockMsg_extend, ih]

/-- **`CreateBlock` + `Append` on any honestly built token is accepted**: `t` is the table
of the token built from `cs` over `base`; the block built over `t` passes `IsDisjoint` and
the declared-symbols rule. (An instance of `gateAnswer_built`, which needs nothing of `t`.) -/
theorem gateAnswer_token_chain (base : SymTable) (cs : List BlockContent) (c : BlockContent) :
    gateAnswer (builtTable base cs) (buildBlockMsg (builtTable base cs) c).2 = .ok :=
  gateAnswer_built (builtTable base cs) c

/-- The same with the table as the reading side computes it from the token's messages. -/
theorem gateAnswer_token_chain' (base : SymTable) (cs : List BlockContent) (c : BlockContent) :
    gateAnswer (readTable base (buildBlockMsgs base cs))
      (buildBlockMsg (readTable base (buildBlockMsgs base cs)) c).2 = .ok :=
  gateAnswer_built _ c

/-! ### What the gate let through is inside the wire theorem -/

/-- `New` on the first block, `Append` on each further one, every answer `.ok`. -/
def gateChain (base : SymTable) : List BlockMsg → Bool
  | [] => true
  | m :: ms => decide (gateAnswer base m = .ok) && gateChain (extendTable base m.symbols) ms

/-- **Every token `New` / `Append` let through is inside the declared-symbols gate** as
`Unmarshal` applies it to the whole token. -/
theorem gateAnswer_ok_attenuation (msgs : List BlockMsg) : ∀ base : SymTable,
    gateChain base msgs = true → blocksDeclared base msgs = true := by
  induction msgs with
  | nil => intro _ _; rfl
  | cons m ms ih =>
    intro base h
    simp only [gateChain, Bool.and_eq_true, decide_eq_true_eq] at h
    have hd := ((gateAnswer_ok_iff base m).mp h.1).2
    rw [blocksDeclared_single] at hd
    show (blockDeclared (extendTable base m.symbols) m && blocksDeclared (extendTable base m.symbols) ms) = true
    rw [hd, ih _ h.2]; rfl

/-- So the hypothesis of `C02Wire.wire_attenuation_monotone` holds for it … -/
theorem gateChain_inside_wire_theorem (msgs : List BlockMsg) (h : gateChain [] msgs = true) :
    blocksDeclaredV [] msgs = true := by
  rw [C02Wire.blocksDeclaredV_eq]; exact gateAnswer_ok_attenuation msgs [] h

/-- … and C02 at the wire level follows for every token the gate let through, whatever
block is appended afterwards (through the gate or not). -/
theorem gateChain_attenuation_monotone (cfg : EvalCfg) (p : Bool) (msgs : List BlockMsg) (b : BlockMsg)
    (s : AuthState) (h : gateChain [] msgs = true) (a : Block) (rest : List Block) (bB : Block)
    (hTB : resolveTokenL p (msgs ++ [b]) = .ok (a :: rest ++ [bB])) :
    resolveTokenL p msgs = .ok (a :: rest) ∧
    ((authorize cfg { authority := a, blocks := rest ++ [bB] } s).2 = .ok →
     (authorize cfg { authority := a, blocks := rest } s).2 = .ok) :=
  C02Wire.wire_attenuation_monotone cfg p msgs b s (gateChain_inside_wire_theorem msgs h) a rest bB hTB

/-- Honest tokens pass the whole chain: `New` accepts the authority block, every `Append`
accepts the next one. -/
theorem gateChain_built (cs : List BlockContent) : ∀ base : SymTable,
    gateChain base (buildBlockMsgs base cs) = true := by
  induction cs with
  | nil => intro _; rfl
  | cons c cs ih =>
    intro base
    show (decide (gateAnswer base (buildBlockMsg base c).2 = .ok) &&
      gateChain (extendTable base (buildBlockMsg base c).2.symbols)
        (buildBlockMsgs (buildBlockMsg base c).1 cs)) = true
    rw [gateAnswer_built, buildBlockMsg_extend, ih]; rfl

/-! ### Non-vacuity, and the two refusals -/

/-- Honest: built over `long`, handed in over `long`. -/
example : gateAnswer long (buildBlockMsg long cSuper).2 = .ok := by decide +kernel
example : gateAnswer long (buildBlockMsg long cSuper).2 = .ok := gateAnswer_built long cSuper
example : gateAnswer oddBase (buildBlockMsg oddBase c0).2 = .ok := by decide +kernel
example : gateChain [] (buildBlockMsgs [] cs2) = true := by decide +kernel
example : gateChain oddBase (buildBlockMsgs oddBase cs2) = true := by decide +kernel
example : gateAnswer (builtTable [] cs2) (buildBlockMsg (builtTable [] cs2) cSuper).2 = .ok := by
  decide +kernel
example : builtTable [] cs2 = [sAlice, sFile1, strBytes "f", strBytes "file", strBytes "g"] := by
  decide +kernel

/-- Built over `["a","b"]`, handed in over `[]`: `.undeclared` (D24). -/
theorem built_over_longer_table_undeclared :
    gateAnswer [] (buildBlockMsg long cSuper).2 = .undeclared := by decide +kernel

/-- Built over `[]` (so it declares `"superuser"`), handed in over a table that already
holds `"superuser"`: `.overlap`. -/
theorem built_over_shorter_table_overlap :
    gateAnswer [strBytes "superuser"] (buildBlockMsg [] cSuper).2 = .overlap := by decide +kernel

example : (buildBlockMsg [] cSuper).2.symbols = [strBytes "superuser"] := by decide +kernel

/-- A hand-made block that declares `"x"` over a table holding `"x"`: `.overlap`, before
the declared-symbols rule is looked at. -/
example : gateAnswer [strBytes "x"]
    { symbols := [strBytes "x"], context := none, version := some 3, facts := [], rules := [], checks := [] }
    = .overlap := by decide +kernel

/-- So in `gateAnswer_built` the two tables must be the same one: neither a shorter nor a
longer table gives `.ok` in general. -/
theorem gateAnswer_needs_same_table :
    ¬ (∀ (start tbl : SymTable) (c : BlockContent), gateAnswer tbl (buildBlockMsg start c).2 = .ok) :=
  fun h => absurd (h long [] cSuper) (by rw [built_over_longer_table_undeclared]; decide)

end Biscuit.C02Gate

#print axioms Biscuit.C02Gate.symInsert_declared
#print axioms Biscuit.C02Gate.symInsert_keeps_declared
#print axioms Biscuit.C02Gate.buildBlockMsg_extend
#print axioms Biscuit.C02Gate.buildBlockMsg_table
#print axioms Biscuit.C02Gate.buildBlockMsg_declared
#print axioms Biscuit.C02Gate.buildBlockMsg_declared'
#print axioms Biscuit.C02Gate.buildBlockMsg_tableOK
#print axioms Biscuit.C02Gate.buildBlockMsgs_declared
#print axioms Biscuit.C02Gate.buildBlockMsgs_declared_of_tableOK
#print axioms Biscuit.C02Gate.append_built_declared
#print axioms Biscuit.C02Gate.built_tokens_inside_wire_theorem
#print axioms Biscuit.C02Gate.built_token_attenuation_monotone
#print axioms Biscuit.C02Gate.built_blocks_kinds
#print axioms Biscuit.C02Gate.unmarshalFrom_accepts_built
#print axioms Biscuit.C02Gate.unmarshal_accepts_built
#print axioms Biscuit.C02Gate.built_over_longer_table_accepted_there
#print axioms Biscuit.C02Gate.built_over_longer_table_refused
#print axioms Biscuit.C02Gate.gate_needs_same_table
#print axioms Biscuit.C02Gate.blocksDeclared_single
#print axioms Biscuit.C02Gate.overlap_iff
#print axioms Biscuit.C02Gate.gateAnswer_overlap_iff
#print axioms Biscuit.C02Gate.gateAnswer_ok_iff
#print axioms Biscuit.C02Gate.gateAnswer_undeclared_iff
#print axioms Biscuit.C02Gate.gateAnswer_cases
#print axioms Biscuit.C02Gate.buildBlockMsg_symbols_fresh
#print axioms Biscuit.C02Gate.buildBlockMsg_symbols_nodup
#print axioms Biscuit.C02Gate.buildBlockMsg_disjoint
#print axioms Biscuit.C02Gate.gateAnswer_built
#print axioms Biscuit.C02Gate.buildBlockMsgs_snoc
#print axioms Biscuit.C02Gate.readTable_built
#print axioms Biscuit.C02Gate.gateAnswer_token_chain
#print axioms Biscuit.C02Gate.gateAnswer_token_chain'
#print axioms Biscuit.C02Gate.gateAnswer_ok_attenuation
#print axioms Biscuit.C02Gate.gateChain_inside_wire_theorem
#print axioms Biscuit.C02Gate.gateChain_attenuation_monotone
#print axioms Biscuit.C02Gate.gateChain_built
#print axioms Biscuit.C02Gate.built_over_longer_table_undeclared
#print axioms Biscuit.C02Gate.built_over_shorter_table_overlap
#print axioms Biscuit.C02Gate.gateAnswer_needs_same_table
#print axioms Biscuit.extendTable_eq_append_fresh
#print axioms Biscuit.GrowsTo.drop_fresh
