/-
Props/C10 — untrusted token bytes can never crash the verifier.

A Lean function cannot panic, so the statement is meaningful only because the model
represents the places where the Go code can (`Model/Pipeline`, `Model/Expr`): the theorem
says that no input drives the model into a `panic` outcome. PARTIAL with respect to the
property: nil dereferences are represented for the operator-kind fields fed by untrusted
bytes, not for every pointer of the program; stack exhaustion, out-of-memory and the
run-time limits are outside the model. That the represented sites are all the sites is
`Props/TablesPanicSites` (inventory regenerated from the source on every run).
-/
import BiscuitModel.Proofs.Pipeline

namespace Biscuit.C10
open Biscuit Biscuit.Wire

/-- Guard: `Str` never panics in the repaired code, for any table and any 64-bit index. -/
theorem str_guard (t : SymTable) (i : Nat) : (symStrGo false t i).isPanic = false := by
  exact symStrGo_false_no_panic t i

/-- D5, pinned: an index at 2^63 panics. -/
theorem str_pinned_panics : symStrGo true [] (2^63) = .panic .symbolIndexNegative := by
  simp [symStrGo]

/-- Guard: the proof check never panics in the repaired code, for any secret length. -/
theorem seed_guard (S : SigScheme) (current : Bytes) (e : BiscuitMsg) :
    (verifyProofGo false S current e).isPanic = false := by
  exact verifyProofGo_false_no_panic S current e

/-- D6, pinned: a 3-byte next secret panics. -/
theorem seed_pinned_panics (S : SigScheme) (current : Bytes) (e : BiscuitMsg)
    (h : e.proof = .nextSecret [1, 2, 3]) : verifyProofGo true S current e = .panic .badSeedLength := by
  simp [verifyProofGo, h]

/-- Resolution of every decodable token is total in the repaired code. -/
theorem resolve_guard (msgs : List BlockMsg) : (resolveTokenL false msgs).isPanic = false := by
  exact resolveTokenL_no_panic msgs

/-- A run never reports a panic unless some expression evaluation panicked. -/
theorem run_panic_from_eval {V E : Type} [DecidableEq V] (ev : Bindings V → E → Outcome Bool)
    (hev : ∀ σ e, (ev σ e).isPanic = false) (mf mi : Nat) (P : List (Rule V E)) (F W : List (Fact V))
    (site : PanicSite) : run ev mf P mi F ≠ (W, some (.panic site)) := by
  exact run_ne_panic ev hev mf P site mi F W

/-- Authorization never yields a panic outcome with the repaired set operations. -/
theorem authorize_no_panic (cfg : EvalCfg) (hs : cfg.sets = .loops) (tok : Token) (s : AuthState) (site : PanicSite) :
    (authorize cfg tok s).2 ≠ .runError (.panic site) := by
  exact authorizeWith_ne_panic cfg hs false tok s site

/-- **C10.** For every byte string, every signature scheme, every root key, every authorizer
state (any facts, rules, checks, policies, limits): decoding, verifying, resolving and
authorizing ends in a rejection or a verdict — never in a panic. -/
theorem decode_verify_authorize_no_panic_partial (S : SigScheme) (cfg : EvalCfg) (hs : cfg.sets = .loops)
    (root bs : Bytes) (s : AuthState) : (pipeline false false S cfg root bs s).isPanic = false := by
  unfold pipeline
  split
  · rfl
  · split
    · rfl
    · split
      · rfl
      · refine Outcome.isPanic_bind (verifyProofGo_false_no_panic S _ _) fun pr => ?_
        split
        · rfl
        · refine Outcome.isPanic_bind (resolveTokenL_no_panic _) fun blocks => ?_
          split
          · rfl
          · split
            · next site hv => exact absurd hv (authorize_no_panic cfg hs _ s site)
            · rfl

/-- Printing any decodable token never panics. -/
theorem print_no_panic (bs : Bytes) : (printOutcome false bs).isPanic = false := by
  unfold printOutcome
  split
  · rfl
  · exact Outcome.isPanic_bind (resolveTokenL_no_panic _) fun _ => rfl

/-- Queries after authorization, attenuation and sealing are `Except`-valued functions of
the model (`query`, `appendEnvelope`, `sealEnvelope`): an error or a value by type. What
remains to say is that the secret-length gate makes them errors, not panics: -/
theorem append_bad_secret_is_error (S : SigScheme) (e : BiscuitMsg) (sk : Bytes) (hp : e.proof = .nextSecret sk)
    (hl : sk.length ≠ 32) (block : Bytes) (rng : Rng) : appendEnvelope S e block rng = .error .keySize := by
  simp [appendEnvelope, appendEnvelopeWith, hp, hl]

theorem seal_bad_secret_is_error (S : SigScheme) (e : BiscuitMsg) (sk : Bytes) (hp : e.proof = .nextSecret sk)
    (hl : sk.length ≠ 32) : sealEnvelope S e = .error .keySize := by
  simp [sealEnvelope, sealEnvelopeWith, hp, hl]

/-- An operator message without kind does not decode (repaired converters; the pinned
code dereferenced the nil kind). -/
theorem op_without_kind_rejected : decOp (encodeFields [bField 3 (encodeFields [])]) = none := by
  decide +kernel

end Biscuit.C10
