/-
Props/C14Lexer — character-level round trip of the lexer: spelling a token list
(`Model/Spell`) and lexing it gives the token list back.

`tokWF` describes the tokens whose spelling, followed by a space and ANY further input,
is read back by `lexOne` as the same token.  The lexer takes the FIRST matching rule (not
the longest match), so the predicate has to exclude every spelling that an earlier rule
claims; see the comments at `tokWF` and the negative examples at the end.
-/
import BiscuitModel.Proofs.Lexer

namespace Biscuit.C14Lexer
open Biscuit Biscuit.Grammar

/-! ## Well-formed tokens -/

/-- Variable / parameter names: `[a-zA-Z0-9_:]+`. -/
def nameOK (s : List Char) : Bool := !s.isEmpty && s.all isNameChar

/-- Identifiers: `[a-z][a-zA-Z0-9_:]*` that no earlier rule claims:
* not `check`, `allow`, `deny` (with the space of `spell` and a following `if…` the Keyword
  rule matches: `check if`),
* the Function rule `(prefix|suffix|matches|length|contains)\b` does not match at the start
  (`length`, `length:x` are claimed — `:` is not a word character; `lengthy`, `length_x` are not),
* does not start with `hex:`,
* the Bool rule `(true|false)\b` does not match at the start (`true`, `true:x`; not `truex`). -/
def identOK : List Char → Bool
  | [] => false
  | c :: r =>
    isLower c && r.all isNameChar && !keywordHeads.contains (c :: r)
      && (firstWord funcLits (c :: r)).isNone
      && (stripLit "hex:".toList (c :: r)).isNone
      && (firstWord boolLits (c :: r)).isNone

def tokWF : Tok → Bool
  | .keyword k => keywordLits.contains k          -- check if | allow if | deny if
  | .func f => funcLits.contains f                -- prefix | suffix | matches | length | contains
  | .hex ds => ds.all isHexDigit && ds.length % 2 == 0
  | .dot => true
  | .arrow => true
  | .orOp => true
  | .andOp => true
  | .op s => opLits.contains s                    -- == >= <= > < + - *
  | .comment => false                             -- swallows the rest of the line
  | .str s => s.all (· != '"')                    -- newlines inside are fine
  | .var n => nameOK n.toList
  | .param n => nameOK n.toList
  | .date s => lexDate s == some (s, [])          -- the Date rule accepts `s` completely
  | .int ds => !ds.isEmpty && ds.all isDigit      -- never starts a date: position 4 is not `-`
  | .bool _ => true
  | .ident s => identOK s.toList
  | .punct c => wfPunct.contains c                -- [!@%^&#$()_={}|:;',?/]

def TokWF (t : Tok) : Prop := tokWF t = true

instance : DecidablePred TokWF := fun t => inferInstanceAs (Decidable (tokWF t = true))

/-! ## One token -/

theorem lexOne_spell (t : Tok) (h : TokWF t) (rest : List Char) :
    lexOne (spellTok t ++ ' ' :: rest) = some (some t, ' ' :: rest) := by
  unfold TokWF at h
  cases t with
  | keyword k => exact lexOne_keyword k (by simpa [tokWF] using h) rest
  | func f => exact lexOne_func f (by simpa [tokWF] using h) rest
  | hex ds =>
    simp only [tokWF, Bool.and_eq_true, beq_iff_eq] at h
    exact lexOne_hex ds h.1 h.2 rest
  | dot => exact lexOne_dot rest
  | arrow => exact lexOne_arrow rest
  | orOp => exact lexOne_orOp rest
  | andOp => exact lexOne_andOp rest
  | op s => exact lexOne_op s (by simpa [tokWF] using h) rest
  | comment => simp [tokWF] at h
  | str s =>
    have := lexOne_str s (by simpa [tokWF] using h) rest
    simpa [spellTok] using this
  | var n =>
    simp only [tokWF, nameOK, Bool.and_eq_true, Bool.not_eq_true', List.isEmpty_eq_false_iff] at h
    have := lexOne_var n.toList h.1 h.2 rest
    rwa [String.ofList_toList] at this
  | param n =>
    simp only [tokWF, nameOK, Bool.and_eq_true, Bool.not_eq_true', List.isEmpty_eq_false_iff] at h
    have := lexOne_param n.toList h.1 h.2 rest
    rw [String.ofList_toList] at this
    simpa [spellTok] using this
  | date s => exact lexOne_date s (by simpa [tokWF] using h) rest
  | int ds =>
    simp only [tokWF, Bool.and_eq_true, Bool.not_eq_true', List.isEmpty_eq_false_iff] at h
    exact lexOne_int ds h.1 h.2 rest
  | bool b => cases b; exact lexOne_false rest; exact lexOne_true rest
  | ident s =>
    simp only [tokWF] at h
    cases hs : s.toList with
    | nil => rw [hs] at h; simp [identOK] at h
    | cons c r =>
      rw [hs] at h
      simp only [identOK, Bool.and_eq_true, Bool.not_eq_true', Option.isNone_iff_eq_none,
        List.contains_eq_mem, decide_eq_false_iff_not] at h
      obtain ⟨⟨⟨⟨⟨h1, h2⟩, h3⟩, h4⟩, h5⟩, h6⟩ := h
      have := lexOne_ident c r h1 h2 h3 h4 h5 h6 rest
      rw [← hs, String.ofList_toList] at this
      exact this
  | punct c => exact lexOne_punct c (by simpa [tokWF] using h) rest

/-- The spelling of a well-formed token is not empty and does not start with whitespace. -/
theorem spellTok_head (t : Tok) (h : TokWF t) :
    ∃ c cs, spellTok t = c :: cs ∧ c ≠ ' ' ∧ c ≠ '\t' := by
  have hl := lexOne_spell t h []
  cases hs : spellTok t with
  | nil => rw [hs, List.nil_append, lexOne_space] at hl; cases hl
  | cons c cs =>
    refine ⟨c, cs, rfl, ?_, ?_⟩
    · rintro rfl; rw [hs, List.cons_append, lexOne_space] at hl; cases hl
    · rintro rfl; rw [hs, List.cons_append, lexOne_tab] at hl; cases hl

/-! ## Token lists -/

theorem lexAux_tok {cs rest : List Char} {t : Tok} (f : Nat) (h : lexOne cs = some (some t, rest))
    (hlen : rest.length < cs.length) : lexAux (f + 1) cs = (lexAux f rest).map (t :: ·) := by
  cases cs with
  | nil => simp at hlen
  | cons c cs =>
    simp only [lexAux, h, if_pos hlen]
    cases lexAux f rest <;> rfl

theorem lexAux_skip {cs rest : List Char} (f : Nat) (h : lexOne cs = some (none, rest))
    (hlen : rest.length < cs.length) : lexAux (f + 1) cs = lexAux f rest := by
  cases cs with
  | nil => simp at hlen
  | cons c cs =>
    simp only [lexAux, h, if_pos hlen]
    cases lexAux f rest <;> rfl

/-- The spelling of a well-formed list does not start with whitespace. -/
theorem spanWhile_ws_spell (ts : List Tok) (h : ∀ t ∈ ts, TokWF t) :
    spanWhile (fun x => x == ' ' || x == '\t') (spell ts) = ([], spell ts) := by
  cases ts with
  | nil => rfl
  | cons t ts =>
    obtain ⟨c, cs, hs, h1, h2⟩ := spellTok_head t (h t (List.mem_cons_self ..))
    simp [spell, hs, spanWhile, h1, h2]

theorem spell_length (ts : List Tok) (h : ∀ t ∈ ts, TokWF t) : 2 * ts.length ≤ (spell ts).length := by
  induction ts with
  | nil => simp
  | cons t ts ih =>
    obtain ⟨c, cs, hs, _, _⟩ := spellTok_head t (h t (List.mem_cons_self ..))
    have := ih (fun t' h' => h t' (List.mem_cons_of_mem _ h'))
    simp only [spell, hs, List.length_append, List.length_cons]
    omega

/-- Two steps per token (the token, then its space) are enough fuel. -/
theorem lexAux_spell (ts : List Tok) (h : ∀ t ∈ ts, TokWF t) :
    ∀ fuel, 2 * ts.length ≤ fuel → lexAux fuel (spell ts) = some ts := by
  induction ts with
  | nil => intro fuel _; cases fuel <;> rfl
  | cons t ts ih =>
    intro fuel hf
    have ht := h t (List.mem_cons_self ..)
    have hts : ∀ t' ∈ ts, TokWF t' := fun t' h' => h t' (List.mem_cons_of_mem _ h')
    obtain ⟨f, rfl⟩ : ∃ f, fuel = f + 2 := ⟨fuel - 2, by simp only [List.length_cons] at hf; omega⟩
    obtain ⟨c, cs, hs, _, _⟩ := spellTok_head t ht
    have h1 := lexOne_spell t ht (spell ts)
    have h2 := lexOne_space (spell ts)
    rw [spanWhile_ws_spell ts hts] at h2
    have l1 : (' ' :: spell ts).length < (spellTok t ++ ' ' :: spell ts).length := by
      simp only [hs, List.length_append, List.length_cons]; omega
    simp only [spell]
    rw [lexAux_tok (f + 1) h1 l1, lexAux_skip f h2 (by simp),
      ih hts f (by simp only [List.length_cons] at hf; omega)]
    rfl

/-- **Round trip**: lexing the spelling of well-formed tokens gives the tokens back. -/
theorem lex_spell (ts : List Tok) (h : ∀ t ∈ ts, TokWF t) : lex (spell ts) = some ts := by
  unfold lex
  exact lexAux_spell ts h _ (by have := spell_length ts h; omega)

/-! ## The text entry points of the parser -/

theorem parseBlockText_spell (ts : List Tok) (h : ∀ t ∈ ts, TokWF t) :
    parseBlockText (spell ts) = parseItems (fuelFor ts) false ts := by
  simp [parseBlockText, lex_spell ts h]

theorem parseAuthorizerText_spell (ts : List Tok) (h : ∀ t ∈ ts, TokWF t) :
    parseAuthorizerText (spell ts) = parseItems (fuelFor ts) true ts := by
  simp [parseAuthorizerText, lex_spell ts h]

theorem parseSingleText_spell (ts : List Tok) (h : ∀ t ∈ ts, TokWF t) :
    parseSingleText (spell ts) =
      match parseItem (fuelFor ts) true ts with
      | some (it, []) => some it
      | _ => none := by
  simp only [parseSingleText, lex_spell ts h, Option.bind_some]
  rfl

/-! ## `TokWF` is exact

`TokWF t` holds exactly when the spelling of `t`, followed by a space and ANY further input,
is read back as `t`.  (With nothing after the space, `check`, `allow`, `deny` as identifiers
and `"` as punctuation would also read back; they are excluded because of the continuations
`check if…` and `" "`.) -/

theorem tokWF_of_lexOne (t : Tok)
    (H : ∀ rest, lexOne (spellTok t ++ ' ' :: rest) = some (some t, ' ' :: rest)) : TokWF t := by
  unfold TokWF
  cases t with
  | keyword k => simpa [tokWF] using lexOne_keyword_inv (H [])
  | func f => simpa [tokWF] using lexOne_func_inv (H [])
  | hex ds => simpa [tokWF] using lexOne_hex_inv (H [])
  | dot => rfl
  | arrow => rfl
  | orOp => rfl
  | andOp => rfl
  | op s => simpa [tokWF] using lexOne_op_inv (H [])
  | comment => exact absurd (H []) (by decide)
  | str s => simpa [tokWF] using lexOne_str_inv (H [])
  | var n => simpa [tokWF, nameOK] using lexOne_var_inv (H [])
  | param n => simpa [tokWF, nameOK] using lexOne_param_inv (H [])
  | date s =>
    have h := lexOne_date_inv (H [])
    simp only [spellTok, lexDate_sp] at h
    cases hd : lexDate s with
    | none => rw [hd] at h; cases h
    | some p =>
      rw [hd] at h
      obtain ⟨d, r⟩ := p
      simp only [Option.map_some, padR, Option.some.injEq, Prod.mk.injEq] at h
      obtain ⟨rfl, hr⟩ := h
      have : r = [] := by
        cases r with
        | nil => rfl
        | cons x xs => have := congrArg List.length hr; simp at this
      subst this
      simp [tokWF, hd]
  | int ds => simpa [tokWF] using lexOne_int_inv (H [])
  | bool b => rfl
  | ident s =>
    obtain ⟨c, rest, hcs, hl, hs, _, h2, h3, h4⟩ := lexOne_ident_inv (H [])
    have hst : s.toList = c :: (spanWhile isNameChar rest).1 := by rw [hs, String.toList_ofList]
    have e2 := firstWord_sp funcLits s.toList [] (by decide)
    have e3 := stripLit_sp "hex:".toList s.toList [] (by decide)
    have e4 := firstWord_sp boolLits s.toList [] (by decide)
    simp only [spellTok] at h2 h3 h4
    rw [h2] at e2; rw [h3] at e3; rw [h4] at e4
    have hk : s.toList ∉ keywordHeads := by
      intro hk
      have H' := H "if".toList
      simp only [spellTok] at H'
      simp only [keywordHeads, List.mem_cons, List.not_mem_nil, or_false] at hk
      rcases hk with hk | hk | hk <;> rw [hk] at H'
      · rw [show lexOne ("check".toList ++ ' ' :: "if".toList) = some (some (.keyword "check if"), []) by decide] at H'
        simp at H'
      · rw [show lexOne ("allow".toList ++ ' ' :: "if".toList) = some (some (.keyword "allow if"), []) by decide] at H'
        simp at H'
      · rw [show lexOne ("deny".toList ++ ' ' :: "if".toList) = some (some (.keyword "deny if"), []) by decide] at H'
        simp at H'
    rw [hst] at e2 e3 e4 hk
    simp only [tokWF, hst, identOK, hl, spanWhile_fst_all, Bool.and_self, Bool.true_and, Bool.and_eq_true,
      Bool.not_eq_true', List.contains_eq_mem, decide_eq_false_iff_not, Option.isNone_iff_eq_none]
    refine ⟨⟨⟨hk, ?_⟩, ?_⟩, ?_⟩
    · cases h : firstWord funcLits (c :: (spanWhile isNameChar rest).1) with
      | none => rfl
      | some p => rw [h] at e2; cases e2
    · cases h : stripLit "hex:".toList (c :: (spanWhile isNameChar rest).1) with
      | none => rfl
      | some p => rw [h] at e3; cases e3
    · cases h : firstWord boolLits (c :: (spanWhile isNameChar rest).1) with
      | none => rfl
      | some p => rw [h] at e4; cases e4
  | punct c =>
    have hc := (lexOne_punct_inv (H [])).1
    have split : ∀ c ∈ punctChars, c ∈ wfPunct ∨ c ∈ ['-', '*', '+', '<', '>', '.', '"'] := by decide
    rcases split c hc with h | h
    · simpa [tokWF] using h
    · exfalso
      simp only [List.mem_cons, List.not_mem_nil, or_false] at h
      rcases h with rfl | rfl | rfl | rfl | rfl | rfl | rfl
      · exact absurd (H []) (by decide)
      · exact absurd (H []) (by decide)
      · exact absurd (H []) (by decide)
      · exact absurd (H []) (by decide)
      · exact absurd (H []) (by decide)
      · exact absurd (H []) (by decide)
      · exact absurd (H ['"']) (by decide)

theorem tokWF_exact (t : Tok) :
    TokWF t ↔ ∀ rest, lexOne (spellTok t ++ ' ' :: rest) = some (some t, ' ' :: rest) :=
  ⟨lexOne_spell t, tokWF_of_lexOne t⟩

/-! ## Examples -/

/-! Every constructor has well-formed instances. -/
example : TokWF (.keyword "check if") := by decide
example : TokWF (.keyword "deny if") := by decide
example : TokWF (.func "length") := by decide
example : TokWF (.hex "0aFF".toList) := by decide
example : TokWF (.hex []) := by decide
example : TokWF .dot := by decide
example : TokWF .arrow := by decide
example : TokWF .orOp := by decide
example : TokWF .andOp := by decide
example : TokWF (.op "<=") := by decide
example : TokWF (.op "-") := by decide
example : TokWF (.str "a b\nc".toList) := by decide
example : TokWF (.var "x_1:y") := by decide
example : TokWF (.var "0") := by decide
example : TokWF (.param "name") := by decide
example : TokWF (.date "2020-01-01T00:00:00".toList) := by decide
example : TokWF (.date "2020-01-01T00:00:00Z".toList) := by decide
example : TokWF (.date "2020-01-01T00:00:00.125+02:00".toList) := by decide
example : TokWF (.int "2020".toList) := by decide
example : TokWF (.int "007".toList) := by decide
example : TokWF (.bool true) := by decide
example : TokWF (.bool false) := by decide
example : TokWF (.ident "resource") := by decide
example : TokWF (.ident "lengthy") := by decide
example : TokWF (.ident "length_x") := by decide
example : TokWF (.ident "prefix_x") := by decide
example : TokWF (.ident "truex") := by decide
example : TokWF (.ident "hexa") := by decide
example : TokWF (.ident "checker") := by decide
example : TokWF (.ident "check_if") := by decide
example : TokWF (.ident "a:b") := by decide
example : ∀ c ∈ "[!@%^&#$()_={}|:;',?/]".toList, TokWF (.punct c) := by decide

/-! Tokens that are not well-formed, by constructor. -/
example : ¬ TokWF (.keyword "check") := by decide
example : ¬ TokWF (.func "size") := by decide
example : ¬ TokWF (.hex "0".toList) := by decide
example : ¬ TokWF (.hex "0g".toList) := by decide
example : ¬ TokWF (.op "!=") := by decide
example : ¬ TokWF (.op "=") := by decide
example : ¬ TokWF .comment := by decide
example : ¬ TokWF (.str "a\"b".toList) := by decide
example : ¬ TokWF (.var "") := by decide
example : ¬ TokWF (.var "a-b") := by decide
example : ¬ TokWF (.param "") := by decide
example : ¬ TokWF (.date "2020-01-01".toList) := by decide
example : ¬ TokWF (.date "2020-01-01T00:00:00.".toList) := by decide
example : ¬ TokWF (.date "2020-01-01T00:00:00+02".toList) := by decide
example : ¬ TokWF (.int []) := by decide
example : ¬ TokWF (.int "-1".toList) := by decide
example : ¬ TokWF (.ident "") := by decide
example : ¬ TokWF (.ident "Abc") := by decide
example : ¬ TokWF (.ident "length") := by decide
example : ¬ TokWF (.ident "length:x") := by decide
example : ¬ TokWF (.ident "true") := by decide
example : ¬ TokWF (.ident "false:x") := by decide
example : ¬ TokWF (.ident "hex:ab") := by decide
example : ¬ TokWF (.ident "check") := by decide
example : ∀ c ∈ "-*+<>.\"".toList, ¬ TokWF (.punct c) := by decide
example : ¬ TokWF (.punct 'a') := by decide
example : ¬ TokWF (.punct ' ') := by decide

/-! Why the exclusions are necessary: what the lexer does with those spellings. -/
example : lex "length:x ".toList = some [.func "length", .punct ':', .ident "x"] := by decide
example : lex "length ".toList = some [.func "length"] := by decide
example : lex "lengthy ".toList = some [.ident "lengthy"] := by decide
example : lex "truex ".toList = some [.ident "truex"] := by decide
example : lex "true ".toList = some [.bool true] := by decide
example : lex "true:x ".toList = some [.bool true, .punct ':', .ident "x"] := by decide
example : lex "hex:0 ".toList = some [.hex [], .int ['0']] := by decide
example : lex "hex:ab ".toList = some [.hex ['a', 'b']] := by decide
example : lex "- 1 ".toList = some [.op "-", .int ['1']] := by decide
example : lex "= ".toList = some [.punct '='] := by decide
example : lex "& | / ".toList = some [.punct '&', .punct '|', .punct '/'] := by decide
example : lex "$ { ".toList = some [.punct '$', .punct '{'] := by decide
example : lex ". ".toList = some [.dot] := by decide
example : lex "2020-01-01T00:00:00 ".toList = some [.date "2020-01-01T00:00:00".toList] := by decide
example : lex "2020-01-01T00:00:00. ".toList = some [.date "2020-01-01T00:00:00".toList, .dot] := by decide
example : lex "2020 -01 ".toList = some [.int "2020".toList, .op "-", .int "01".toList] := by decide
/-- An identifier `check` alone reads back, but not in front of `if…`: the Keyword rule has no
word boundary and its literal contains the space. -/
example : lex (spell [.ident "check"]) = some [.ident "check"] := by decide
example : lex (spell [.ident "check", .ident "if"]) = some [.keyword "check if"] := by decide
example : lex (spell [.ident "check", .ident "ifx"]) = some [.keyword "check if", .ident "x"] := by decide
/-- A lone `"` is punctuation only as long as no second `"` follows. -/
example : lex (spell [.punct '"']) = some [.punct '"'] := by decide
example : lex (spell [.punct '"', .punct '"']) = some [.str [' ']] := by decide
/-- A comment swallows the rest of the line. -/
example : lex (spell [.comment, .ident "x"]) = some [.comment] := by decide

/-! The round trip on a concrete list (an instance of `lex_spell`, checked by evaluation). -/
example :
    lex (spell [.keyword "check if", .ident "resource", .punct '(', .var "x", .punct ')', .punct ',',
      .var "x", .dot, .func "length", .punct '(', .punct ')', .op "<=", .int ['7'], .punct ';']) =
    some [.keyword "check if", .ident "resource", .punct '(', .var "x", .punct ')', .punct ',',
      .var "x", .dot, .func "length", .punct '(', .punct ')', .op "<=", .int ['7'], .punct ';'] := by
  decide +kernel

end Biscuit.C14Lexer
