/-
Props/C05Odometer — the join enumerator of `combine` (datalog/datalog.go:489-633), modelled
literally in `Model/Odometer` (one fact index per body predicate, `current`, `advanceIndexes`
with carry), emits exactly the lexicographic specification; and the `solve` function of
`Model/Datalog`, on which every other C05 theorem is stated, equals that literal odometer
followed by the variable-extraction step.

Only property theorems and non-vacuity examples live here; helper lemmas are in
`Proofs/Odometer`, the definitions `goMatch`, `unifyAll`, `table` in `Model/OdometerTie`.
-/
import BiscuitModel.Proofs.Odometer

namespace Biscuit.Props.C05Odometer
open Biscuit Biscuit.Odometer

/-- **The odometer is exact.** For every match table `m`, every number of body predicates and
every number of facts, the Go odometer (with carry, with `current` moving back, with the
`fuelFor` iteration bound) reaches the extraction point at exactly the index tuples whose
facts match position-wise, in lexicographic order, each exactly once: no lost carry, no
duplicate, no early termination, and the fuel bound suffices. -/
theorem combos_eq_spec (m : Nat → Nat → Bool) (npreds nfacts : Nat) :
    Biscuit.Odometer.combos m npreds nfacts = Biscuit.Odometer.spec m npreds nfacts :=
  combos_eq_tuples m npreds nfacts

/-- What is emitted: exactly the index tuples of the right length, in range, matching
position-wise (a reading of `spec` that does not mention its recursion). -/
theorem mem_combos_iff (m : Nat → Nat → Bool) (npreds nfacts : Nat) (idx : List Nat) :
    idx ∈ combos m npreds nfacts ↔
      idx.length = npreds ∧
        ∀ i, i < npreds → idx.getD i 0 < nfacts ∧ m i (idx.getD i 0) = true := by
  rw [combos_eq_spec, spec, mem_tuples]
  simp only [Nat.zero_add]

/-- The emission order is strictly increasing in the lexicographic order on index tuples. -/
theorem combos_sorted (m : Nat → Nat → Bool) (npreds nfacts : Nat) :
    (combos m npreds nfacts).Pairwise (· < ·) := by
  rw [combos_eq_spec]; exact tuples_sorted m nfacts npreds 0

/-- No index tuple is emitted twice. -/
theorem combos_nodup (m : Nat → Nat → Bool) (npreds nfacts : Nat) :
    (combos m npreds nfacts).Nodup :=
  (combos_sorted m npreds nfacts).imp (fun h e => by subst e; exact absurd h (List.lt_irrefl _))

variable {V : Type} [DecidableEq V]

/-- A successful variable extraction implies `Predicate.Match`; so testing `Match` first (as
the odometer does) discards only combinations that the extraction would reject anyway. -/
theorem unifyPred_some_goMatch (p : Pred V) (f : Fact V) (σ σ' : Bindings V)
    (h : unifyPred p f σ = some σ') : goMatch p f = true :=
  goMatch_of_unifyPred h

theorem not_goMatch_unifyPred_none (p : Pred V) (f : Fact V) (σ : Bindings V)
    (h : goMatch p f = false) : unifyPred p f σ = none :=
  unifyPred_none_of_not_goMatch σ h

/-- **`solve` is the Go odometer followed by the extraction step.** The combinations computed
by the model's `solve` are, in order, the results of running the literal odometer over the
`Predicate.Match` table of the body against the fact list and, at each emitted index tuple,
binding the variables predicate by predicate (dropping the tuple on an inconsistent binding).
No hypothesis on the facts or the body (empty body, empty fact list, arity mismatches,
repeated variables and self-joins included). -/
theorem solve_eq_odometer (facts : List (Fact V)) (preds : List (Pred V)) :
    solve facts preds []
      = (combos (table facts preds) preds.length facts.length).filterMap
          (fun idx => unifyAll preds (idx.filterMap (fun j => facts[j]?)) []) := by
  rw [combos_eq_spec]
  exact solve_eq_tuples facts preds

/-! ### Non-vacuity -/

/-- Three predicates, three facts, the last predicate matches only the last fact: every
emission is followed by a carry out of the last position. -/
example :
    combos (fun i j => decide (i < 2) || decide (j = 2)) 3 3
      = [[0, 0, 2], [0, 1, 2], [0, 2, 2], [1, 0, 2], [1, 1, 2], [1, 2, 2],
         [2, 0, 2], [2, 1, 2], [2, 2, 2]] := by decide +kernel

/-- A table with a cascade of carries and dead prefixes: the middle predicate matches only
fact 1, the first only facts 0 and 2, the last only facts 0 and 2. -/
example :
    combos (fun i j => if i = 1 then decide (j = 1) else decide (j ≠ 1)) 3 3
      = [[0, 1, 0], [0, 1, 2], [2, 1, 0], [2, 1, 2]] := by decide +kernel

/-- Nothing matches the last predicate: the odometer runs through every prefix and stops. -/
example : combos (fun i _ => decide (i < 2)) 3 3 = [] := by decide +kernel

/-- Empty body: one empty combination; non-empty body over no facts: none. -/
example : combos (fun _ _ => true) 0 5 = [[]] := by decide +kernel
example : combos (fun _ _ => true) 2 0 = [] := by decide +kernel

private def nP : Bytes := [112]   -- "p"
private def vx : Bytes := [120]
private def vy : Bytes := [121]
private def vz : Bytes := [122]

/-- `p($x,$y), p($y,$z)` over `p(1,2), p(2,3), p(3,3)`: a self-join with a shared variable.
The odometer emits all nine index pairs (the table is all-true); the extraction step keeps
three. -/
example :
    solve (V := Nat) [⟨nP, [1, 2]⟩, ⟨nP, [2, 3]⟩, ⟨nP, [3, 3]⟩]
        [⟨nP, [.var vx, .var vy]⟩, ⟨nP, [.var vy, .var vz]⟩] []
      = [[(vz, 3), (vy, 2), (vx, 1)], [(vz, 3), (vy, 3), (vx, 2)], [(vz, 3), (vy, 3), (vx, 3)]] := by
  decide +kernel

example :
    (combos (table (V := Nat) [⟨nP, [1, 2]⟩, ⟨nP, [2, 3]⟩, ⟨nP, [3, 3]⟩]
        [⟨nP, [.var vx, .var vy]⟩, ⟨nP, [.var vy, .var vz]⟩]) 2 3).length = 9 := by decide +kernel

/-- With a constant in the body the table is no longer all-true: `p($x, 3), p($x, $y)`. -/
example :
    combos (table (V := Nat) [⟨nP, [1, 2]⟩, ⟨nP, [2, 3]⟩, ⟨nP, [3, 3]⟩]
        [⟨nP, [.var vx, .const 3]⟩, ⟨nP, [.var vx, .var vy]⟩]) 2 3
      = [[1, 0], [1, 1], [1, 2], [2, 0], [2, 1], [2, 2]] := by decide +kernel

example :
    solve (V := Nat) [⟨nP, [1, 2]⟩, ⟨nP, [2, 3]⟩, ⟨nP, [3, 3]⟩]
        [⟨nP, [.var vx, .const 3]⟩, ⟨nP, [.var vx, .var vy]⟩] []
      = [[(vy, 3), (vx, 2)], [(vy, 3), (vx, 3)]] := by decide +kernel

end Biscuit.Props.C05Odometer

