/-
Props/C12 — authorization is deterministic and independent of presentation order.

Determinism is the type of `authorize` (a function). Order-independence is stated
inside the error-free fragment (`WithinFragment`, Spec/Decision), as the property
words it: the outcome is a function of the *sets* of facts, rules and checks and of
the ordered *list* of policies.
-/
import BiscuitModel.Proofs.Perm

namespace Biscuit.C12
open Biscuit

variable {V E : Type} [DecidableEq V]

/-- **Engine level.** Permuting the facts and the rules of a program does not change
whether an error-free run succeeds, nor — as a set — what it derives. -/
theorem run_perm (ev : Bindings V → E → Outcome Bool) (hev : EvRespects ev)
    (mf mi : Nat) (P P' : List (Rule V E)) (F F' W : List (Fact V))
    (hP : P.Perm P') (hF : F.Perm F') (hn : F.Nodup)
    (h : run ev mf P mi F = (W, none)) :
    ∃ W', run ev mf P' mi F' = (W', none) ∧ W.Perm W' := by
  obtain ⟨W', hrun, hN', hmem⟩ := run_congr ev hev mf (fun r => hP.mem_iff) mi F F' W hn
    (hF.nodup_iff.mp hn) (fun f => hF.mem_iff) h
  exact ⟨W', hrun, (List.perm_ext_iff_of_nodup (run_nodup ev mf P mi F W hn h) hN').mpr hmem⟩

/-- Querying a rule over a permuted fact list returns the same instances, as a set,
and errs on one presentation iff it errs on the other. -/
theorem applyRule_perm (ev : Bindings V → E → Outcome Bool) (hev : EvRespects ev)
    (r : Rule V E) (S S' out : List (Fact V)) (hS : S.Perm S')
    (h : applyRule ev r S [] = (out, none)) :
    ∃ out', applyRule ev r S' [] = (out', none) ∧ out.Perm out' := by
  have hmemS : ∀ f, f ∈ S ↔ f ∈ S' := fun f => hS.mem_iff
  have hok : (applyRule ev r S' []).2 = none :=
    (applyRule_ok_congr ev r hmemS [] []).mp (by rw [h])
  have h' := eq_pair_none _ hok
  have hnd : out.Nodup := by
    have := applyCombos_nodup ev r (solve S r.body []) [] List.nodup_nil
    unfold applyRule at h
    rw [h] at this
    exact this
  have hnd' : (applyRule ev r S' []).1.Nodup :=
    applyCombos_nodup ev r (solve S' r.body []) [] List.nodup_nil
  refine ⟨_, h', (List.perm_ext_iff_of_nodup hnd hnd').mpr fun f => ?_⟩
  rw [applyRule_spec ev hev r S [] out h f, applyRule_spec ev hev r S' [] _ h' f]
  constructor
  · rintro (h0 | ⟨σ, hs, hh⟩)
    · exact Or.inl h0
    · exact Or.inr ⟨σ, (Sat.congr hmemS σ).mp hs, hh⟩
  · rintro (h0 | ⟨σ, hs, hh⟩)
    · exact Or.inl h0
    · exact Or.inr ⟨σ, (Sat.congr hmemS σ).mpr hs, hh⟩

/-- Position-wise relation between two lists of the same length (core has no `Forall₂`). -/
inductive Forall2 {α β : Type} (R : α → β → Prop) : List α → List β → Prop
  | nil : Forall2 R [] []
  | cons {a b l l'} : R a b → Forall2 R l l' → Forall2 R (a :: l) (b :: l')

/-- Two checks / policies that differ only in the order of their queries. -/
def CheckPerm (c c' : Check) : Prop := c.queries.Perm c'.queries
def PolicyPerm (p p' : Policy) : Prop := p.kind = p'.kind ∧ p.queries.Perm p'.queries

/-- Two blocks with the same facts, rules and checks up to order (checks keep their
positions here; their order is handled by `authorize_perm_checks`). -/
def BlockPerm (b b' : Block) : Prop :=
  b.facts.Perm b'.facts ∧ b.rules.Perm b'.rules ∧ Forall2 CheckPerm b.checks b'.checks

/-- Two presentations of the same program: facts, rules and queries-in-check permuted
at every scope (token blocks and authorizer); policies in the same order. -/
structure SamePresentation (tok tok' : Token) (s s' : AuthState) : Prop where
  authority : BlockPerm tok.authority tok'.authority
  blocks : Forall2 BlockPerm tok.blocks tok'.blocks
  facts : s.world.facts.Perm s'.world.facts
  rules : s.world.rules.Perm s'.world.rules
  checks : Forall2 CheckPerm s.checks s'.checks
  policies : Forall2 PolicyPerm s.policies s'.policies
  limits : s.limits = s'.limits

/-- **C12 (facts, rules, queries).** Inside the fragment, two presentations give the
same verdict — including the identifiers of failed checks. -/
theorem authorize_perm (cfg : EvalCfg) (tok tok' : Token) (s s' : AuthState)
    (hf : WithinFragment cfg tok s) (hn : s.world.facts.Nodup)
    (hp : SamePresentation tok tok' s s') :
    (authorize cfg tok s).2 = (authorize cfg tok' s').2 := by
  have conv : ∀ {α β : Type} {R R' : α → β → Prop} {l : List α} {l' : List β},
      Forall2 R l l' → (∀ a b, R a b → R' a b) → Pointwise R' l l' := by
    intro α β R R' l l' h hi
    induction h with
    | nil => exact Pointwise.nil
    | cons hab _ ih => exact Pointwise.cons (hi _ _ hab) ih
  have hcq : ∀ c c', CheckPerm c c' → SameQueries c c' := fun c c' h q => h.mem_iff
  have hblk : ∀ b b', BlockPerm b b' → SameBlock b b' := fun b b' h =>
    ⟨fun f => h.1.mem_iff, fun r => h.2.1.mem_iff, conv h.2.2 hcq⟩
  exact authorize_same cfg tok tok' s s' hf hn (hp.facts.nodup_iff.mp hn)
    (hblk _ _ hp.authority) (conv hp.blocks hblk) (fun f => hp.facts.mem_iff)
    (fun r => hp.rules.mem_iff) (conv hp.checks hcq)
    (conv hp.policies fun p p' h => ⟨h.1, fun q => h.2.mem_iff⟩) hp.limits

/-- Verdict class: failed-check identifiers are positional, so under a permutation
of the checks only their number is comparable. -/
inductive VClass
  | ok | denied | noMatch | checksFailed (n : Nat) | runError
  deriving DecidableEq, Repr

def cls : Verdict → VClass
  | .ok => .ok
  | .denied => .denied
  | .noMatch => .noMatch
  | .checksFailed ids => .checksFailed ids.length
  | .runError _ => .runError

/-- **C12 (checks).** Permuting the authorizer's checks, the authority block's checks
and each later block's checks leaves the verdict class and the number of failed
checks unchanged. -/
theorem authorize_perm_checks (cfg : EvalCfg) (A A' : Block) (bs bs' : List Block) (s s' : AuthState)
    (hf : WithinFragment cfg ⟨A, bs⟩ s)
    (hA : A.facts = A'.facts ∧ A.rules = A'.rules ∧ A.checks.Perm A'.checks)
    (hbs : Forall2 (fun b b' => b.facts = b'.facts ∧ b.rules = b'.rules ∧ b.checks.Perm b'.checks) bs bs')
    (hs : s' = { s with checks := s'.checks }) (hc : s.checks.Perm s'.checks) :
    cls (authorize cfg ⟨A, bs⟩ s).2 = cls (authorize cfg ⟨A', bs'⟩ s').2 := by
  -- (the fragment hypothesis `hf` is not needed: both sides perform the same runs)
  have hf' := hf
  clear hf' hf
  have hbs' : Pointwise ChecksPermuted bs bs' := by
    induction hbs with
    | nil => exact Pointwise.nil
    | cons hab _ ih => exact Pointwise.cons hab ih
  have key := authorize_checks_sameShape cfg A A' bs bs' s s'.checks hA hbs' hc
  rw [← hs] at key
  rcases key with ⟨e, e', h1, h2⟩ | ⟨ids, ids', h1, h2, h3⟩ | ⟨o, h1, h2⟩
  · rw [h1, h2]; rfl
  · rw [h1, h2]; simp only [cls, h3]
  · rw [h1, h2]

/-- **Duplicating a fact** is a no-op. -/
theorem addFact_idempotent (s : AuthState) (f : DFact) : addFact (addFact s f) f = addFact s f := by
  have hmem : f ∈ insertFact s.world.facts f := (mem_insertFact _ _ _).mpr (Or.inr rfl)
  simp only [addFact, insertFact_of_mem _ _ hmem]

/-- Adding a fact that is already present (anywhere in the world) changes nothing. -/
theorem addFact_present (s : AuthState) (f : DFact) (h : f ∈ s.world.facts) : addFact s f = s := by
  simp only [addFact, insertFact_of_mem _ _ h]

/-- **Calling Authorize a second time** on the same authorizer gives the same verdict
(inside the fragment, for a duplicate-free authorizer world). -/
theorem authorize_twice (cfg : EvalCfg) (tok : Token) (s : AuthState)
    (hf : WithinFragment cfg tok s) (hn : s.world.facts.Nodup) :
    (authorize cfg tok (authorize cfg tok s).1).2 = (authorize cfg tok s).2 := by
  -- (`hn` is not needed: only the success of the authority-level run is used)
  have _ := hn
  obtain ⟨w, hw⟩ := hf.authorityRun
  exact authorize_twice_run cfg tok s w hw

/-- The verdict depends on the policies as an ordered list: swapping two policies can
change it (so order-independence is rightly *not* claimed for policies). -/
theorem policy_order_matters :
    ∃ (cfg : EvalCfg) (tok : Token) (s s' : AuthState),
      s.policies.Perm s'.policies ∧ s' = { s with policies := s'.policies } ∧
      (authorize cfg tok s).2 ≠ (authorize cfg tok s').2 := by
  let q : DRule := { head := { name := [2], terms := [] },
                     body := [{ name := [1], terms := [] }], exprs := [] }
  let pa : Policy := { kind := .allow, queries := [q] }
  let pd : Policy := { kind := .deny, queries := [q] }
  let s0 : AuthState := AuthState.fresh { maxFacts := 1000, maxIter := 100 }
  refine ⟨{ rx := fun _ _ => none },
    { authority := { facts := [{ name := [1], args := [] }], rules := [], checks := [] }, blocks := [] },
    { s0 with policies := [pa, pd] }, { s0 with policies := [pd, pa] },
    List.Perm.swap _ _ _, rfl, ?_⟩
  decide

/-! Non-vacuity: a program and a non-trivial permutation of it, inside the fragment. -/

def cfg0 : EvalCfg := { rx := fun _ _ => none }
def lim0 : Limits := { maxFacts := 1000, maxIter := 100 }
def e (a b : Int) : DFact := { name := [101], args := [.atom (.int a), .atom (.int b)] }
def pathBase : DRule := { head := { name := [112], terms := [.var [120], .var [121]] },
                          body := [{ name := [101], terms := [.var [120], .var [121]] }], exprs := [] }
def pathStep : DRule := { head := { name := [112], terms := [.var [120], .var [122]] },
                          body := [{ name := [112], terms := [.var [120], .var [121]] },
                                   { name := [101], terms := [.var [121], .var [122]] }], exprs := [] }
def qPath : DRule := { head := { name := [113], terms := [] },
                       body := [{ name := [112], terms := [.const (.atom (.int 1)), .const (.atom (.int 4))] }], exprs := [] }
def tokG : Token := { authority := { facts := [e 1 2, e 2 3, e 3 4], rules := [pathBase, pathStep], checks := [{ queries := [qPath] }] }, blocks := [] }
def tokG' : Token := { authority := { facts := [e 3 4, e 1 2, e 2 3], rules := [pathStep, pathBase], checks := [{ queries := [qPath] }] }, blocks := [] }
def authG : AuthState := addPolicy (AuthState.fresh lim0) { kind := .allow, queries := [qPath] }

example : (authorize cfg0 tokG authG).2 = .ok := by decide
example : (authorize cfg0 tokG' authG).2 = .ok := by decide

end Biscuit.C12
