/-
Props/C04Content — the verdict follows from the content the authorizer holds, not from
the path by which the content arrived.

Three defects of the Go library had the form "same content, different answer":

* D27 / D29 — `LoadPolicies` did not behave like typing the snapshot's content in with
  `AddFact`, `AddRule`, `AddCheck`, `AddPolicy`: checks and policies given before the load
  were replaced. Part 1: in the model `load` *is* the fold of the `add*` operations
  (`load_eq_addAll`, an equality of states), so everything given before stays in force.
* D28 — `Authorize` emptied the authorizer's own rule set, so a second `Authorize` on the
  same authorizer, after an `AddFact`, answered from facts derived before the addition and
  derived nothing from the new fact. Part 2: a used authorizer to which content is added
  answers as a new authorizer holding the same content (`authorize_after_addFact`,
  `authorize_after_addRule`, general form `authorize_after_load`), and the old behaviour is
  refuted on a concrete history (`second_authorize_pinned`).

`authorize` is the repaired model (Model/Authorizer); the old behaviours are defined locally
(`loadReplacing`, `authorizePinnedRules`) for the counterexamples only.
-/
import BiscuitModel.Proofs.Content
import BiscuitModel.Model.Symbols

namespace Biscuit.C04Content
open Biscuit

/-! ## 1. `LoadPolicies` = typing the content in (D27, D29) -/

/-- `FactSet.InsertAll` (what `LoadPolicies` uses) and repeated `FactSet.Insert` (what
repeated `AddFact` uses) build the same list: same deduplication, same order. -/
theorem insertAll_eq_foldl_insertFact (s fs : List DFact) : insertAll s fs = fs.foldl insertFact s :=
  insertAll_eq_foldl fs s

/-- **Load = typing in.** Loading a snapshot leaves the authorizer in *exactly* the state
reached by adding the snapshot's facts, rules, checks and policies one by one, in order
(`addAll`, Proofs/Content). Equality of states: nothing that `Authorize`, `Query`, `Reset`,
`SerializePolicies` or any later operation can observe distinguishes the two. -/
theorem load_eq_addAll (s : AuthState) (snap : Snapshot) : load s snap = addAll s snap :=
  load_addAll s snap

/-- Same verdict and same state after `Authorize`, for every token. -/
theorem authorize_load_eq_addAll (cfg : EvalCfg) (tok : Token) (s : AuthState) (snap : Snapshot) :
    authorize cfg tok (load s snap) = authorize cfg tok (addAll s snap) := by
  rw [load_eq_addAll]

/-- Same result and same state after `Query`. -/
theorem query_load_eq_addAll (cfg : EvalCfg) (s : AuthState) (snap : Snapshot) (q : DRule) :
    query cfg (load s snap) q = query cfg (addAll s snap) q := by
  rw [load_eq_addAll]

/-- … and the same outputs for every continuation of operations (`AUTHSEQ` histories). -/
theorem runSeq_load_eq_addAll (cfg : EvalCfg) (toks : List Token) (j : Nat) (s : AuthState)
    (snap : Snapshot) (k : List AuthOp) :
    runSeq cfg false toks { tok := j, auth := load s snap } k =
      runSeq cfg false toks { tok := j, auth := addAll s snap } k := by
  rw [load_eq_addAll]

/-- **Checks given before a load stay in force** (D29: they used to be dropped). -/
theorem load_checks (s : AuthState) (snap : Snapshot) :
    (load s snap).checks = s.checks ++ snap.checks := rfl

/-- **Policies given before a load stay in force, and come first** (D29): a `deny` given before
`LoadPolicies` is still consulted before any loaded `allow`. -/
theorem load_policies (s : AuthState) (snap : Snapshot) :
    (load s snap).policies = s.policies ++ snap.policies := rfl

/-- Facts and rules given before a load stay too (D27). -/
theorem load_world (s : AuthState) (snap : Snapshot) :
    (∀ f, f ∈ (load s snap).world.facts ↔ f ∈ s.world.facts ∨ f ∈ snap.facts) ∧
    (load s snap).world.rules = s.world.rules ++ snap.rules :=
  ⟨fun f => mem_insertAll _ _ f, rfl⟩

/-- A load never re-opens a refused request by itself: every check that held the verdict
back is still there (membership form, for any earlier check). -/
theorem load_keeps_check (s : AuthState) (snap : Snapshot) (c : Check) (h : c ∈ s.checks) :
    c ∈ (load s snap).checks := List.mem_append_left _ h

/-! ### The D29 scenario at model level

The authorizer is given the check `check if mfa(true)`, the policy `deny if user("alice")`
and the fact `user("alice")`; then a snapshot holding `allow if user($u)` is loaded. The old
`LoadPolicies` replaced checks and policies (`loadReplacing`), so the request was accepted. -/

def cfg0 : EvalCfg := { rx := fun _ _ => none }
def lim0 : Limits := { maxFacts := 1000, maxIter := 100 }
def qHead : Pred Val := { name := strBytes "query", terms := [] }
def alice : Val := .atom (.str (strBytes "alice"))
/-- `user("alice")` -/
def fUser : DFact := { name := strBytes "user", args := [alice] }
/-- `check if mfa(true)` -/
def chkMfa : Check := { queries := [{ head := qHead, body := [{ name := strBytes "mfa", terms := [.const (.atom (.bool true))] }], exprs := [] }] }
/-- `deny if user("alice")` -/
def denyAlice : Policy := { kind := .deny, queries := [{ head := qHead, body := [{ name := strBytes "user", terms := [.const alice] }], exprs := [] }] }
/-- `allow if user($u)` -/
def allowUser : Policy := { kind := .allow, queries := [{ head := qHead, body := [{ name := strBytes "user", terms := [.var (strBytes "u")] }], exprs := [] }] }
def snapAllow : Snapshot := { facts := [], rules := [], checks := [], policies := [allowUser] }
def tokEmpty : Token := { authority := { facts := [], rules := [], checks := [] }, blocks := [] }

/-- Before the load: check, deny policy, fact. -/
def sBefore : AuthState := addFact (addPolicy (addCheck (AuthState.fresh lim0) chkMfa) denyAlice) fUser
/-- The same without the check. -/
def sBeforeNoCheck : AuthState := addFact (addPolicy (AuthState.fresh lim0) denyAlice) fUser

/-- The old `LoadPolicies`: checks and policies of the snapshot *replace* the authorizer's. -/
def loadReplacing (s : AuthState) (snap : Snapshot) : AuthState :=
  { load s snap with checks := snap.checks, policies := snap.policies }

/-- **D29, repaired.** The check given before the load still fails the request … -/
theorem d29_check_stays :
    (authorize cfg0 tokEmpty (load sBefore snapAllow)).2 = .checksFailed [.authorizer 0] := by
  decide +kernel

/-- … and without the check the earlier `deny` still wins over the loaded `allow`. -/
theorem d29_deny_stays :
    (authorize cfg0 tokEmpty (load sBeforeNoCheck snapAllow)).2 = .denied := by
  decide +kernel

/-- In neither case is the request accepted … -/
theorem d29_not_ok :
    (authorize cfg0 tokEmpty (load sBefore snapAllow)).2 ≠ .ok ∧
    (authorize cfg0 tokEmpty (load sBeforeNoCheck snapAllow)).2 ≠ .ok := by
  rw [d29_check_stays, d29_deny_stays]
  exact ⟨nofun, nofun⟩

/-- … whereas the old, replacing `LoadPolicies` accepted it in both. -/
theorem d29_pinned_accepts :
    (authorize cfg0 tokEmpty (loadReplacing sBefore snapAllow)).2 = .ok ∧
    (authorize cfg0 tokEmpty (loadReplacing sBeforeNoCheck snapAllow)).2 = .ok := by
  decide +kernel

/-- The same scenario as a history (`AUTHSEQ`): `loadSnap` then `authorize`. -/
theorem d29_history :
    runSeq cfg0 false [tokEmpty] { tok := 0, auth := AuthState.fresh lim0 }
      [.addCheck chkMfa, .addPolicy denyAlice, .addFact fUser, .loadSnap snapAllow, .authorize]
      = [.none, .none, .none, .saved true, .verdict (.checksFailed [.authorizer 0])] := by
  decide +kernel

/-! ## 2. A second `Authorize` follows the content (D28)

Setting. `s` is an authorizer, `tok` a token, and the authority-level run of the first
`Authorize` succeeds (`hw`; otherwise the first call already returned a run error). The state
left by the first call, `(authorize cfg tok s).1`, holds in its world the authority scope —
the authorizer's facts, the token's authority facts and everything they entail — *and the
rules* (Proofs/Content `authorize_fst_world`).

Hypotheses of the theorems below, all about the *reference* authorizer (the new one that is
given the content and has never been evaluated):

* `hw`  — the first authority-level run succeeds;
* `hn`  — the authorizer's fact list is duplicate-free; this holds of every state built from
          `AuthState.fresh` by `addFact`, `load` and successful evaluations (`fresh_nodup`,
          `addFact_nodup`, `load_nodup`, `authorize_fst_world`);
* `hf`  — the reference authorizer is inside the fragment (`WithinFragment`): its runs and its
          check and policy queries complete.

Nothing is assumed about the second run of the *used* authorizer: that it succeeds within the
same limits is part of the conclusion (`run_between_ok`: it meets only combinations the
reference run meets, stays below the fact limit and needs no more rounds). That the evaluator
reads a substitution only through `lookup` is a theorem about the model's evaluator
(`evalBool_respects`), not a hypothesis. -/

theorem fresh_nodup (lim : Limits) : (AuthState.fresh lim).world.facts.Nodup := List.nodup_nil

theorem addFact_nodup (s : AuthState) (f : DFact) (h : s.world.facts.Nodup) :
    (addFact s f).world.facts.Nodup := nodup_insertFact _ _ h

theorem load_nodup (s : AuthState) (snap : Snapshot) (h : s.world.facts.Nodup) :
    (load s snap).world.facts.Nodup := nodup_insertAll _ _ h

/-- **Closure absorption** (engine level, from the `Derivable` specification): what follows
from "everything that follows from `F`, plus `G`" is what follows from "`F` plus `G`". This is
why keeping derived facts in the authorizer's world is harmless — provided the rules are kept
too, so that the new facts `G` are also reasoned from. -/
theorem closure_absorb {V E : Type} [DecidableEq V] (ev : Bindings V → E → Outcome Bool)
    (P : List (Rule V E)) (F W G : List (Fact V)) (hW : ∀ g, g ∈ W ↔ Derivable ev P F g)
    (f : Fact V) : Derivable ev P (W ++ G) f ↔ Derivable ev P (F ++ G) f :=
  Biscuit.closure_absorb ev P F W G hW f

/-- **General form.** After a first `Authorize`, load any further content (`LoadPolicies`):
the second `Authorize` gives the verdict of a new authorizer that was given the earlier
content and the loaded content and has never been evaluated. -/
theorem authorize_after_load (cfg : EvalCfg) (tok : Token) (s : AuthState) (snap : Snapshot)
    (hw : ∃ w, runWorld cfg s.limits
      { facts := insertAll s.world.facts tok.authority.facts,
        rules := s.world.rules ++ tok.authority.rules } = (w, none))
    (hn : s.world.facts.Nodup) (hf : WithinFragment cfg tok (load s snap)) :
    (authorize cfg tok (load (authorize cfg tok s).1 snap)).2 =
      (authorize cfg tok (load s snap)).2 := by
  obtain ⟨w, hw⟩ := hw
  exact authorize_load_after_authorize cfg tok s snap w hw hn hf

/-- **D28, `AddFact`.** `AddFact` after a first `Authorize`, then `Authorize` again: the
answer is the one a new authorizer holding the same content gives. In particular the
authorizer's rules are applied to the added fact. -/
theorem authorize_after_addFact (cfg : EvalCfg) (tok : Token) (s : AuthState) (f : DFact)
    (hw : ∃ w, runWorld cfg s.limits
      { facts := insertAll s.world.facts tok.authority.facts,
        rules := s.world.rules ++ tok.authority.rules } = (w, none))
    (hn : s.world.facts.Nodup) (hf : WithinFragment cfg tok (addFact s f)) :
    (authorize cfg tok (addFact (authorize cfg tok s).1 f)).2 =
      (authorize cfg tok (addFact s f)).2 := by
  rw [addFact_eq_load] at hf ⊢
  rw [addFact_eq_load]
  exact authorize_after_load cfg tok s _ hw hn hf

/-- **D28, `AddRule`.** The same for a rule added between the two calls: the new rule is
applied to everything the authorizer holds, as in a new authorizer. -/
theorem authorize_after_addRule (cfg : EvalCfg) (tok : Token) (s : AuthState) (r : DRule)
    (hw : ∃ w, runWorld cfg s.limits
      { facts := insertAll s.world.facts tok.authority.facts,
        rules := s.world.rules ++ tok.authority.rules } = (w, none))
    (hn : s.world.facts.Nodup) (hf : WithinFragment cfg tok (addRule s r)) :
    (authorize cfg tok (addRule (authorize cfg tok s).1 r)).2 =
      (authorize cfg tok (addRule s r)).2 := by
  rw [addRule_eq_load] at hf ⊢
  rw [addRule_eq_load]
  exact authorize_after_load cfg tok s _ hw hn hf

/-- The same for `AddCheck` … -/
theorem authorize_after_addCheck (cfg : EvalCfg) (tok : Token) (s : AuthState) (c : Check)
    (hw : ∃ w, runWorld cfg s.limits
      { facts := insertAll s.world.facts tok.authority.facts,
        rules := s.world.rules ++ tok.authority.rules } = (w, none))
    (hn : s.world.facts.Nodup) (hf : WithinFragment cfg tok (addCheck s c)) :
    (authorize cfg tok (addCheck (authorize cfg tok s).1 c)).2 =
      (authorize cfg tok (addCheck s c)).2 := by
  rw [addCheck_eq_load] at hf ⊢
  rw [addCheck_eq_load]
  exact authorize_after_load cfg tok s _ hw hn hf

/-- … and `AddPolicy`. -/
theorem authorize_after_addPolicy (cfg : EvalCfg) (tok : Token) (s : AuthState) (p : Policy)
    (hw : ∃ w, runWorld cfg s.limits
      { facts := insertAll s.world.facts tok.authority.facts,
        rules := s.world.rules ++ tok.authority.rules } = (w, none))
    (hn : s.world.facts.Nodup) (hf : WithinFragment cfg tok (addPolicy s p)) :
    (authorize cfg tok (addPolicy (authorize cfg tok s).1 p)).2 =
      (authorize cfg tok (addPolicy s p)).2 := by
  rw [addPolicy_eq_load] at hf ⊢
  rw [addPolicy_eq_load]
  exact authorize_after_load cfg tok s _ hw hn hf

/-- The underlying statement about contents (Proofs/Content `authorize_between`): an
authorizer `u` whose world holds the content of `s` *and only consequences of it* (same rules
as a set, facts between those of `s` and the authority scope of `s`) gives the verdict of `s`. -/
theorem verdict_of_content (cfg : EvalCfg) (tok : Token) (s u : AuthState)
    (hf : WithinFragment cfg tok s) (hns : s.world.facts.Nodup) (hnu : u.world.facts.Nodup)
    (hR : ∀ r, r ∈ s.world.rules ++ tok.authority.rules ↔ r ∈ u.world.rules ++ tok.authority.rules)
    (hsub : ∀ g ∈ s.world.facts, g ∈ u.world.facts)
    (hsup : ∀ g ∈ u.world.facts, authorityScope cfg tok.authority s g)
    (hc : s.checks = u.checks) (hp : s.policies = u.policies) (hl : s.limits = u.limits) :
    (authorize cfg tok u).2 = (authorize cfg tok s).2 :=
  authorize_between cfg tok s u hf hns hnu hR hsub hsup hc hp hl

/-! ### The D28 scenario at model level

The authorizer holds the rule `blocked($u) <- user($u), banned($u)` and the policies
`deny if blocked($u)`, `allow if user($u)`; the token says `user("alice")`. The first
`Authorize` accepts. Then `banned("alice")` is added and `Authorize` is called again. -/

def vU : Term Val := .var (strBytes "u")
/-- `banned("alice")` -/
def fBanned : DFact := { name := strBytes "banned", args := [alice] }
/-- `blocked($u) <- user($u), banned($u)` -/
def rBlocked : DRule := { head := { name := strBytes "blocked", terms := [vU] }, body := [{ name := strBytes "user", terms := [vU] }, { name := strBytes "banned", terms := [vU] }], exprs := [] }
/-- `deny if blocked($u)` -/
def denyBlocked : Policy := { kind := .deny, queries := [{ head := qHead, body := [{ name := strBytes "blocked", terms := [vU] }], exprs := [] }] }
def tokAlice : Token := { authority := { facts := [fUser], rules := [], checks := [] }, blocks := [] }
def sBan : AuthState :=
  addPolicy (addPolicy (addRule (AuthState.fresh lim0) rBlocked) denyBlocked) allowUser

/-- The old `Authorize`: as the repaired one, then the authorizer's rule set is emptied
(the world kept by the authorizer was the rule-less clone handed to the blocks). -/
def authorizePinnedRules (cfg : EvalCfg) (tok : Token) (s : AuthState) : AuthState × Verdict :=
  let r := authorize cfg tok s
  ({ r.1 with world := { r.1.world with rules := [] } }, r.2)

/-- **D28, pinned.** With the old behaviour the second `Authorize` accepts a request that a
new authorizer holding the same content (rule, policies, `banned("alice")`) denies: the
rule that turns `banned` into `blocked` was lost in the first call. -/
theorem second_authorize_pinned :
    (authorizePinnedRules cfg0 tokAlice sBan).2 = .ok ∧
    (authorize cfg0 tokAlice (addFact (authorizePinnedRules cfg0 tokAlice sBan).1 fBanned)).2 = .ok ∧
    (authorize cfg0 tokAlice (addFact sBan fBanned)).2 = .denied := by
  decide +kernel

/-- **D28, repaired.** The second `Authorize` denies, as the new authorizer does. -/
theorem second_authorize_repaired :
    (authorize cfg0 tokAlice sBan).2 = .ok ∧
    (authorize cfg0 tokAlice (addFact (authorize cfg0 tokAlice sBan).1 fBanned)).2 = .denied ∧
    (authorize cfg0 tokAlice (addFact sBan fBanned)).2 = .denied := by
  decide +kernel

/-- The same as a history (`AUTHSEQ`). -/
theorem d28_history :
    runSeq cfg0 false [tokAlice] { tok := 0, auth := sBan } [.authorize, .addFact fBanned, .authorize]
      = [.verdict .ok, .none, .verdict .denied] := by
  decide +kernel

/-- Non-vacuity: the scenario satisfies the hypotheses of `authorize_after_addFact` (first
run succeeds, duplicate-free world, reference authorizer inside the fragment) … -/
theorem d28_hypotheses :
    (∃ w, runWorld cfg0 sBan.limits
      { facts := insertAll sBan.world.facts tokAlice.authority.facts,
        rules := sBan.world.rules ++ tokAlice.authority.rules } = (w, none)) ∧
    sBan.world.facts.Nodup ∧ WithinFragment cfg0 tokAlice (addFact sBan fBanned) := by
  refine ⟨⟨_, Prod.ext rfl (by decide +kernel)⟩, List.nodup_nil, ?_⟩
  exact withinFragment_of_test _ _ _ (by decide +kernel)

/-- … so the repaired second verdict is an instance of the theorem, not only of evaluation. -/
theorem d28_instance :
    (authorize cfg0 tokAlice (addFact (authorize cfg0 tokAlice sBan).1 fBanned)).2 =
      (authorize cfg0 tokAlice (addFact sBan fBanned)).2 :=
  authorize_after_addFact cfg0 tokAlice sBan fBanned d28_hypotheses.1 d28_hypotheses.2.1
    d28_hypotheses.2.2

/-- Non-vacuity for `authorize_after_addRule`: the rule arrives after the first call (the
fact `banned("alice")` was there from the start) and is applied all the same. -/
def sBan' : AuthState :=
  addFact (addPolicy (addPolicy (AuthState.fresh lim0) denyBlocked) allowUser) fBanned

theorem d28_rule_instance :
    (authorize cfg0 tokAlice sBan').2 = .ok ∧
    (authorize cfg0 tokAlice (addRule (authorize cfg0 tokAlice sBan').1 rBlocked)).2 = .denied ∧
    (authorize cfg0 tokAlice (addRule sBan' rBlocked)).2 = .denied := by
  decide +kernel

theorem d28_rule_hypotheses :
    (∃ w, runWorld cfg0 sBan'.limits
      { facts := insertAll sBan'.world.facts tokAlice.authority.facts,
        rules := sBan'.world.rules ++ tokAlice.authority.rules } = (w, none)) ∧
    sBan'.world.facts.Nodup ∧ WithinFragment cfg0 tokAlice (addRule sBan' rBlocked) := by
  refine ⟨⟨_, Prod.ext rfl (by decide +kernel)⟩, by decide +kernel, ?_⟩
  exact withinFragment_of_test _ _ _ (by decide +kernel)

/-! ## Axioms -/

#print axioms insertAll_eq_foldl_insertFact
#print axioms load_eq_addAll
#print axioms authorize_load_eq_addAll
#print axioms query_load_eq_addAll
#print axioms runSeq_load_eq_addAll
#print axioms load_checks
#print axioms load_policies
#print axioms load_world
#print axioms load_keeps_check
#print axioms d29_check_stays
#print axioms d29_deny_stays
#print axioms d29_not_ok
#print axioms d29_pinned_accepts
#print axioms d29_history
#print axioms fresh_nodup
#print axioms addFact_nodup
#print axioms load_nodup
#print axioms closure_absorb
#print axioms authorize_after_load
#print axioms authorize_after_addFact
#print axioms authorize_after_addRule
#print axioms authorize_after_addCheck
#print axioms authorize_after_addPolicy
#print axioms verdict_of_content
#print axioms second_authorize_pinned
#print axioms second_authorize_repaired
#print axioms d28_history
#print axioms d28_hypotheses
#print axioms d28_instance
#print axioms d28_rule_instance
#print axioms d28_rule_hypotheses
#print axioms Biscuit.run_between
#print axioms Biscuit.run_between_ok
#print axioms Biscuit.authorize_between
#print axioms Biscuit.withinFragment_of_test

end Biscuit.C04Content
