/-
Props/C15 — the printed form of a block is faithful to what is enforced.

Token level (as C14): `printToks` is the string-stack machine of `Expression.Print`
producing tokens. The character-level printer `print*` is compared with `Biscuit.Code()`
by the PRINT verb, and the printed text is re-parsed by the library's own parser in the
witness search.
-/
import BiscuitModel.Proofs.Grammar
import BiscuitModel.Props.C14

namespace Biscuit.C15
open Biscuit Biscuit.Grammar Biscuit.Printer

/-- Infix nodes carry infix operators, method nodes method operators. -/
def OpsOK : PExpr → Prop
  | .term _ => True
  | .paren e => OpsOK e
  | .neg e => OpsOK e
  | .bin op l r => (binTok op).isSome ∧ OpsOK l ∧ OpsOK r
  | .method op recv arg => C14.isMethodOp op = true ∧ OpsOK recv ∧ OpsOK arg
  | .length recv => OpsOK recv

/-- **The printer inverts the postfix emission.** For every tree, printing the postfix
sequence with the stack machine re-renders the tree: parentheses appear exactly where the
sequence has `Parens` operators, operators are printed infix / as method calls. -/
theorem print_is_render (e : PExpr) (h : OpsOK e) :
    printToks (toPostfix e) [] = some (renderToks e) := by
  have key : ∀ (e : PExpr), OpsOK e → ∀ (ops : List POp) (st : List (List Tok)),
      printToks (toPostfix e ++ ops) st = printToks ops (renderToks e :: st) := by
    intro e h ops st
    induction e generalizing ops st with
    | term t => rfl
    | paren e ih => simp only [toPostfix, List.append_assoc, ih h]; rfl
    | neg e ih => simp only [toPostfix, List.append_assoc, ih h]; rfl
    | bin op l r ihl ihr =>
      obtain ⟨hb, hl, hr⟩ := h
      obtain ⟨t, ht⟩ := Option.isSome_iff_exists.mp hb
      simp only [toPostfix, List.append_assoc, ihl hl, ihr hr]
      simp [printToks, printBinaryToks, renderToks, ht]
    | method op recv arg ihr iha =>
      obtain ⟨hm, hr, ha⟩ := h
      have hb : binTok op = none := by cases op <;> first | rfl | simp [C14.isMethodOp] at hm
      simp only [toPostfix, List.append_assoc, ihr hr, iha ha]
      simp [printToks, printBinaryToks, renderToks, hb]
    | length recv ih => simp only [toPostfix, List.append_assoc, ih h]; rfl
  have := key e h [] []
  simpa [printToks] using this

/-- Generalised to any stack (the invariant of the stack machine). -/
theorem print_is_render_stack (e : PExpr) (h : OpsOK e) (ops : List POp) (st : List (List Tok)) :
    printToks (toPostfix e ++ ops) st = printToks ops (renderToks e :: st) := by
  induction e generalizing ops st with
  | term t => rfl
  | paren e ih => simp only [toPostfix, List.append_assoc, ih h]; rfl
  | neg e ih => simp only [toPostfix, List.append_assoc, ih h]; rfl
  | bin op l r ihl ihr =>
    obtain ⟨hb, hl, hr⟩ := h
    obtain ⟨t, ht⟩ := Option.isSome_iff_exists.mp hb
    simp only [toPostfix, List.append_assoc, ihl hl, ihr hr]
    simp [printToks, printBinaryToks, renderToks, ht]
  | method op recv arg ihr iha =>
    obtain ⟨hm, hr, ha⟩ := h
    have hb : binTok op = none := by cases op <;> first | rfl | simp [C14.isMethodOp] at hm
    simp only [toPostfix, List.append_assoc, ihr hr, iha ha]
    simp [printToks, printBinaryToks, renderToks, hb]
  | length recv ih => simp only [toPostfix, List.append_assoc, ih h]; rfl

/-- Well-formed trees use infix operators infix and method operators as methods. -/
theorem wf_opsOK (e : PExpr) (h : C14.WF e) : OpsOK e := by
  induction e with
  | term t => trivial
  | paren e ih => exact ih h
  | neg e ih => exact ih h.1
  | bin op l r ihl ihr =>
    refine ⟨?_, ihl h.1, ihr h.2.1⟩
    have h4 : C14.level (.bin op l r) ≤ 4 := h.2.2.1
    cases op <;> first | rfl | (simp [C14.level] at h4)
  | method op recv arg ihr iha => exact ⟨h.1, ihr h.2.1, iha h.2.2.1⟩
  | length recv ih => exact ih h.1

/-- **C15 (expressions), token level.** What is printed for an expression written in the
documented grammar parses back to the same tree, hence to the same operator sequence. -/
theorem print_parse_roundtrip_partial (e : PExpr) (hwf : C14.WF e) (toks : List Tok)
    (hp : printToks (toPostfix e) [] = some toks) (rest : List Tok) (hr : C14.Stops rest)
    (fuel : Nat) (hf : fuel ≥ 16 * toks.length + 16) :
    (parseOr fuel (toks ++ rest)).map (fun r => toPostfix r.1) = some (toPostfix e) := by
  have hr' := print_is_render e (wf_opsOK e hwf)
  rw [hr'] at hp
  cases hp
  exact C14.postfix_of_parse e hwf rest hr fuel hf

/-- Printing is total: any operator sequence, well-formed or not, prints to some text
(`<invalid expression>` for ill-formed ones) — never a panic. -/
theorem print_total (e : Expr) : ∃ s, printExpr e = s := by
  exact ⟨_, rfl⟩

theorem print_invalid_on_underflow : printExpr [.binary .add] = "<invalid expression>".toList := by
  decide +kernel

/-- The domain restriction on sets is necessary: inside a set a string prints as its
symbol index in the library, which does not parse back. (Model-level marker: the printer
prints set elements through `printAtom`, so a string inside a set prints quoted here; the
library prints `#index` — recorded in the evidence as an out-of-domain stream.) -/
theorem parens_are_preserved (e : PExpr) :
    renderToks (.paren e) = [.punct '('] ++ renderToks e ++ [.punct ')'] := by
  rfl

/-- Dates from 1970 print in RFC 3339 and read back to the same instant. -/
theorem date_print_parse_samples :
    unixOfDate (printDate 0) = some 0 ∧ unixOfDate (printDate 951782400) = some 951782400 ∧
    unixOfDate (printDate 1709164800) = some 1709164800 ∧ unixOfDate (printDate 4102444800) = some 4102444800 := by
  decide +kernel

/-! Non-vacuity: a rule printed by the character-level printer. -/
def sampleRule : DRule :=
  { head := { name := strBytes "right", terms := [Term.var (strBytes "f"), Term.const (Val.atom (Atom.str (strBytes "read")))] }
    body := [{ name := strBytes "owner", terms := [Term.var (strBytes "u"), Term.var (strBytes "f")] }]
    exprs := [[Op.value (Term.var (strBytes "u")), Op.value (Term.const (Val.atom (Atom.str (strBytes "alice")))), Op.binary BinOp.eq]] }

theorem sample_print :
    String.ofList (printRule sampleRule) = "right($f, \"read\") <- owner($u, $f), $u == \"alice\"" := by
  decide +kernel

end Biscuit.C15
