/-
Props/C20 — entropy failure is reported, never a panic or a degenerate key.

The random source is a script of what successive `Read` calls deliver
(`Model/Token.Rng`). `ed25519.GenerateKey` reads exactly 32 bytes with `io.ReadFull`
(Go 1.23 source) — recorded in the trusted base.
-/
import BiscuitModel.Proofs.Token

namespace Biscuit.C20
open Biscuit Biscuit.Wire

/-- Total number of bytes a script can deliver before its first failure. -/
def delivered : Rng → Nat
  | [] => 0
  | .fail :: _ => 0
  | .chunk b :: rest => b.length + delivered rest
  | .chunkErr b :: _ => b.length

theorem readFull_short (need : Nat) (rng : Rng) (acc : Bytes) (h : delivered rng < need) :
    readFull need rng acc = none := by
  induction rng generalizing need acc with
  | nil =>
    cases need with
    | zero => simp [delivered] at h
    | succ n => rfl
  | cons step rest ih =>
    cases need with
    | zero => exact absurd h (Nat.not_lt_zero _)
    | succ n =>
      cases step with
      | fail => rfl
      | chunk b =>
        simp only [delivered] at h
        simp only [readFull]
        rw [if_neg (by omega)]
        exact ih _ _ (by omega)
      | chunkErr b =>
        simp only [delivered] at h
        simp only [readFull]
        rw [if_neg (by omega)]

/-- **Failure is reported.** A source that fails or runs dry after delivering fewer than
32 bytes — in any chunking, with the error arriving together with or after the last
bytes — makes the seed draw fail … -/
theorem short_source_fails (rng : Rng) (h : delivered rng < 32) : drawSeed rng = none := by
  exact readFull_short 32 rng [] h

/-- … and then building returns the entropy error: no token, no panic. -/
theorem build_reports_entropy_failure (S : SigScheme) (rootSeed : Bytes) (id : Option Nat) (block : Bytes)
    (rng : Rng) (h : delivered rng < 32) : buildEnvelope S rootSeed id block rng = .error .entropy := by
  simp [buildEnvelope, short_source_fails rng h]

/-- Likewise attenuation. -/
theorem append_reports_entropy_failure (S : SigScheme) (e : BiscuitMsg) (sk : Bytes) (hp : e.proof = .nextSecret sk)
    (hl : sk.length = 32) (block : Bytes) (rng : Rng) (h : delivered rng < 32) :
    appendEnvelope S e block rng = .error .entropy := by
  simp [appendEnvelope, appendEnvelopeWith, hp, hl, short_source_fails rng h]

/-- A source that delivers at least 32 bytes before failing yields exactly its first 32 bytes. -/
def firstBytes : Rng → Bytes
  | [] => []
  | .fail :: _ => []
  | .chunk b :: rest => b ++ firstBytes rest
  | .chunkErr b :: _ => b

theorem readFull_enough (need : Nat) (rng : Rng) (acc : Bytes) (h : delivered rng ≥ need) :
    ∃ rng', readFull need rng acc = some (acc ++ (firstBytes rng).take need, rng') := by
  induction rng generalizing need acc with
  | nil =>
    cases need with
    | zero => exact ⟨[], by simp [readFull]⟩
    | succ n => simp [delivered] at h
  | cons step rest ih =>
    cases need with
    | zero => exact ⟨step :: rest, by simp [readFull]⟩
    | succ n =>
      cases step with
      | fail => simp [delivered] at h
      | chunk b =>
        simp only [delivered] at h
        simp only [readFull, firstBytes]
        by_cases hb : b.length ≥ n + 1
        · rw [if_pos hb]
          exact ⟨_, by rw [List.take_append_of_le_length hb]⟩
        · rw [if_neg hb]
          obtain ⟨rng', h'⟩ := ih (n + 1 - b.length) (acc ++ b) (by omega)
          refine ⟨rng', ?_⟩
          rw [h', List.take_append, show List.take (n + 1) b = b from List.take_of_length_le (by omega),
            List.append_assoc]
      | chunkErr b =>
        simp only [delivered] at h
        simp only [readFull, firstBytes]
        rw [if_pos h]
        exact ⟨_, rfl⟩

theorem firstBytes_length (rng : Rng) : (firstBytes rng).length = delivered rng := by
  induction rng with
  | nil => rfl
  | cons step rest ih =>
    cases step with
    | fail => rfl
    | chunk b => simp [firstBytes, delivered, ih]
    | chunkErr b => simp [firstBytes, delivered]

/-- A successful draw is the first 32 delivered bytes. -/
theorem drawSeed_some (rng rng' : Rng) (seed : Bytes) (h : drawSeed rng = some (seed, rng')) :
    seed = (firstBytes rng).take 32 ∧ ((firstBytes rng).take 32).length = 32 := by
  unfold drawSeed at h
  by_cases hd : delivered rng < 32
  · rw [readFull_short 32 rng [] hd] at h; cases h
  · obtain ⟨r, hr⟩ := readFull_enough 32 rng [] (by omega)
    rw [hr] at h
    simp only [List.nil_append, Option.some.injEq, Prod.mk.injEq] at h
    refine ⟨h.1.symm, ?_⟩
    rw [List.length_take, firstBytes_length]; omega

theorem enough_source_succeeds (rng : Rng) (h : delivered rng ≥ 32) :
    ∃ rng', drawSeed rng = some ((firstBytes rng).take 32, rng') := by
  obtain ⟨rng', h'⟩ := readFull_enough 32 rng [] h
  exact ⟨rng', by simpa [drawSeed] using h'⟩

/-- **Key from delivered bytes.** Whenever a token is returned, its next secret is the 32
bytes the source actually delivered and the announced next key is derived from them. -/
theorem build_key_from_delivered (S : SigScheme) (rootSeed : Bytes) (id : Option Nat) (block : Bytes)
    (rng rng' : Rng) (e : BiscuitMsg) (h : buildEnvelope S rootSeed id block rng = .ok (e, rng')) :
    e.proof = .nextSecret ((firstBytes rng).take 32) ∧
    e.authority.nextKey.key = S.pub ((firstBytes rng).take 32) ∧
    ((firstBytes rng).take 32).length = 32 := by
  obtain ⟨seed, hd, rfl⟩ := buildEnvelope_ok S rootSeed id block rng rng' e h
  obtain ⟨rfl, hl⟩ := drawSeed_some rng rng' seed hd
  exact ⟨rfl, rfl, hl⟩

theorem append_key_from_delivered (S : SigScheme) (e e' : BiscuitMsg) (block : Bytes) (rng rng' : Rng)
    (h : appendEnvelope S e block rng = .ok (e', rng')) :
    e'.proof = .nextSecret ((firstBytes rng).take 32) ∧
    (∃ sb, e'.blocks = e.blocks ++ [sb] ∧ sb.nextKey.key = S.pub ((firstBytes rng).take 32)) := by
  obtain ⟨sk, seed, _, _, hd, rfl⟩ := appendEnvelopeWith_ok true S e block rng rng' e' h
  obtain ⟨rfl, _⟩ := drawSeed_some rng rng' seed hd
  exact ⟨rfl, _, rfl, rfl⟩

/-! Sealing draws no randomness at all: `sealEnvelope` does not take a random source. -/

/-- Exactly 32 bytes are consumed per operation: what remains of a chunked script. -/
theorem draw_consumes_32 (b : Bytes) (rest : Rng) (h : b.length ≥ 32) :
    drawSeed (.chunk b :: rest) = some (b.take 32, .chunk (b.drop 32) :: rest) := by
  simp [drawSeed, readFull, h]

/-- D14, pinned: the two `GenerateKey` call sites discarded the error, so a short source
yielded a nil key whose `Seed()` panics. The pinned outcome as a function of the script: -/
def pinnedBuildOutcome (rng : Rng) : Outcome Unit :=
  match drawSeed rng with
  | none => .panic .nilKeySeed
  | some _ => .ok ()

theorem pinned_short_source_panics : pinnedBuildOutcome [.chunk [1, 2, 3, 4, 5]] = .panic .nilKeySeed := by
  rfl

/-! Non-vacuity: 32 bytes delivered in three chunks, the last together with an error. -/
example : drawSeed [.chunk (List.replicate 10 7), .chunk [], .chunk (List.replicate 12 8), .chunkErr (List.replicate 10 9)]
    = some (List.replicate 10 7 ++ List.replicate 12 8 ++ List.replicate 10 9, [.fail]) := by decide
example : drawSeed [.chunk (List.replicate 31 7), .fail] = none := by decide

/-! Entropy failure along whole derivation histories. -/

/-- One attenuation step that returns a token was given a source delivering at least 32 bytes. -/
theorem derive_append_ok_source_enough (S : SigScheme) (e e' : BiscuitMsg) (block : Bytes) (rng : Rng)
    (h : derive true S e (.append block rng) = .ok e') : delivered rng ≥ 32 := by
  simp only [derive] at h
  cases ha : appendEnvelopeWith true S e block rng with
  | error r => rw [ha] at h; cases h
  | ok p =>
    obtain ⟨e'', rng'⟩ := p
    obtain ⟨_, seed, _, _, hd, _⟩ := appendEnvelopeWith_ok true S e block rng rng' e'' ha
    apply Nat.le_of_not_lt
    intro hlt
    rw [short_source_fails rng hlt] at hd
    cases hd

/-- **C20 along histories.** A derivation history (appends with their own sources, seals,
reloads) returns a token only if *every* attenuation in it was given a source that delivered
at least 32 bytes: one source running dry anywhere in the history and no token comes out. -/
theorem history_ok_all_sources_enough (S : SigScheme) (e0 e : BiscuitMsg) (ops : List DeriveOp)
    (h : deriveAll true S e0 ops = .ok e) (block : Bytes) (rng : Rng)
    (hm : DeriveOp.append block rng ∈ ops) : delivered rng ≥ 32 := by
  induction ops generalizing e0 with
  | nil => cases hm
  | cons op ops ih =>
    simp only [deriveAll] at h
    cases hd : derive true S e0 op with
    | error r => rw [hd] at h; cases h
    | ok e1 =>
      rw [hd] at h
      rcases List.mem_cons.1 hm with heq | hin
      · subst heq
        exact derive_append_ok_source_enough S e0 e1 block rng hd
      · exact ih e1 h hin

/-- Contrapositive, as the property states it: a short source anywhere makes the history fail. -/
theorem history_short_source_fails (S : SigScheme) (e0 : BiscuitMsg) (ops : List DeriveOp)
    (block : Bytes) (rng : Rng) (hm : DeriveOp.append block rng ∈ ops) (hs : delivered rng < 32) :
    ∃ r, deriveAll true S e0 ops = .error r := by
  cases h : deriveAll true S e0 ops with
  | error r => exact ⟨r, rfl⟩
  | ok e => exact absurd (history_ok_all_sources_enough S e0 e ops h block rng hm) (Nat.not_le.2 hs)

end Biscuit.C20
