/-
Props/C20 — entropy failure is reported, never a panic or a degenerate key.

The random source is a script of what successive `Read` calls deliver
(`Model/Token.Rng`). `ed25519.GenerateKey` reads exactly 32 bytes with `io.ReadFull`
(Go 1.23 source) — recorded in the trusted base.
-/
import BiscuitModel.Proofs.Token

namespace Biscuit.C20
open Biscuit Biscuit.Wire

/-- Total number of bytes a script can deliver before its first failure. -/
def delivered : Rng → Nat
  | [] => 0
  | .fail :: _ => 0
  | .chunk b :: rest => b.length + delivered rest
  | .chunkErr b :: _ => b.length

/-- **Failure is reported.** A source that fails or runs dry after delivering fewer than
32 bytes — in any chunking, with the error arriving together with or after the last
bytes — makes the seed draw fail … -/
theorem short_source_fails (rng : Rng) (h : delivered rng < 32) : drawSeed rng = none := by
  sorry

/-- … and then building returns the entropy error: no token, no panic. -/
theorem build_reports_entropy_failure (S : SigScheme) (rootSeed : Bytes) (id : Option Nat) (block : Bytes)
    (rng : Rng) (h : delivered rng < 32) : buildEnvelope S rootSeed id block rng = .error .entropy := by
  sorry

/-- Likewise attenuation. -/
theorem append_reports_entropy_failure (S : SigScheme) (e : BiscuitMsg) (sk : Bytes) (hp : e.proof = .nextSecret sk)
    (hl : sk.length = 32) (block : Bytes) (rng : Rng) (h : delivered rng < 32) :
    appendEnvelope S e block rng = .error .entropy := by
  sorry

/-- A source that delivers at least 32 bytes before failing yields exactly its first 32 bytes. -/
def firstBytes : Rng → Bytes
  | [] => []
  | .fail :: _ => []
  | .chunk b :: rest => b ++ firstBytes rest
  | .chunkErr b :: _ => b

theorem enough_source_succeeds (rng : Rng) (h : delivered rng ≥ 32) :
    ∃ rng', drawSeed rng = some ((firstBytes rng).take 32, rng') := by
  sorry

/-- **Key from delivered bytes.** Whenever a token is returned, its next secret is the 32
bytes the source actually delivered and the announced next key is derived from them. -/
theorem build_key_from_delivered (S : SigScheme) (rootSeed : Bytes) (id : Option Nat) (block : Bytes)
    (rng rng' : Rng) (e : BiscuitMsg) (h : buildEnvelope S rootSeed id block rng = .ok (e, rng')) :
    e.proof = .nextSecret ((firstBytes rng).take 32) ∧
    e.authority.nextKey.key = S.pub ((firstBytes rng).take 32) ∧
    ((firstBytes rng).take 32).length = 32 := by
  sorry

theorem append_key_from_delivered (S : SigScheme) (e e' : BiscuitMsg) (block : Bytes) (rng rng' : Rng)
    (h : appendEnvelope S e block rng = .ok (e', rng')) :
    e'.proof = .nextSecret ((firstBytes rng).take 32) ∧
    (∃ sb, e'.blocks = e.blocks ++ [sb] ∧ sb.nextKey.key = S.pub ((firstBytes rng).take 32)) := by
  sorry

/-! Sealing draws no randomness at all: `sealEnvelope` does not take a random source. -/

/-- Exactly 32 bytes are consumed per operation: what remains of a chunked script. -/
theorem draw_consumes_32 (b : Bytes) (rest : Rng) (h : b.length ≥ 32) :
    drawSeed (.chunk b :: rest) = some (b.take 32, .chunk (b.drop 32) :: rest) := by
  sorry

/-- D14, pinned: the two `GenerateKey` call sites discarded the error, so a short source
yielded a nil key whose `Seed()` panics. The pinned outcome as a function of the script: -/
def pinnedBuildOutcome (rng : Rng) : Outcome Unit :=
  match drawSeed rng with
  | none => .panic .nilKeySeed
  | some _ => .ok ()

theorem pinned_short_source_panics : pinnedBuildOutcome [.chunk [1, 2, 3, 4, 5]] = .panic .nilKeySeed := by
  sorry

/-! Non-vacuity: 32 bytes delivered in three chunks, the last together with an error. -/
example : drawSeed [.chunk (List.replicate 10 7), .chunk [], .chunk (List.replicate 12 8), .chunkErr (List.replicate 10 9)]
    = some (List.replicate 10 7 ++ List.replicate 12 8 ++ List.replicate 10 9, [.fail]) := by decide
example : drawSeed [.chunk (List.replicate 31 7), .fail] = none := by decide

end Biscuit.C20
