/-
Props/C08 — tokens and blocks are immutable values; sibling derivations are independent.

Stated on `Model/Heap`: symbol tables as Go slices over backing arrays with capacity.
`deep = true` is the repaired `SymbolTable.Clone` (copy of the elements); `deep = false`
the pinned one (copy of the slice header, D4). The growth policy `grow` of `append` is
arbitrary (`grow n > n`), so the theorems hold for Go's policy whatever it is.
What the content of a block *means* given its table is C07's `build_then_resolve`.
-/
import BiscuitModel.Proofs.Heap

namespace Biscuit.C08
open Biscuit.Heap

variable {α : Type}

/-- The ownership invariant is established by any state whose live objects own distinct,
allocated arrays, and is preserved by every operation (repaired `Clone`). -/
theorem step_preserves_owned (grow : Nat → Nat) (hg : ∀ n, grow n > n) (pad : α) (st : State α)
    (h : Owned st) (op : Op α) : Owned (step true grow pad st op).1 := by
  sorry

/-- **C08 (frame).** With the repaired `Clone`, no operation changes what any live token
reads: its slice header is still the same and the cells it views hold the same values. -/
theorem family_frame (grow : Nat → Nat) (hg : ∀ n, grow n > n) (pad : α) (st : State α)
    (h : Owned st) (op : Op α) (i : Nat) (s : Slice) (hs : st.tokens[i]? = some s) :
    (step true grow pad st op).1.tokens[i]? = some s ∧
    read (step true grow pad st op).1.heap s = read st.heap s := by
  sorry

/-- Likewise no operation changes what any OTHER live builder holds. -/
theorem builders_frame (grow : Nat → Nat) (hg : ∀ n, grow n > n) (pad : α) (st : State α)
    (h : Owned st) (op : Op α) (j : Nat) (b : Slice × Nat) (hb : st.builders[j]? = some b)
    (hne : ∀ x, op ≠ .addSymbol j x) :
    (step true grow pad st op).1.builders[j]? = some b ∧
    read (step true grow pad st op).1.heap b.1 = read st.heap b.1 := by
  sorry

/-- Lifted to every history: after any sequence of operations every token that was live
before still reads what it read before. -/
theorem family_frame_history (grow : Nat → Nat) (hg : ∀ n, grow n > n) (pad : α) (st : State α)
    (h : Owned st) (ops : List (Op α)) (i : Nat) (s : Slice) (hs : st.tokens[i]? = some s) :
    (run true grow pad st ops).tokens[i]? = some s ∧
    read (run true grow pad st ops).heap s = read st.heap s := by
  sorry

/-- **Siblings.** Two builders created from the same token, each adding its own symbol,
each hold exactly the parent's symbols followed by their own. -/
theorem siblings_independent (grow : Nat → Nat) (hg : ∀ n, grow n > n) (pad : α) (st : State α)
    (h : Owned st) (t : Nat) (s : Slice) (hs : st.tokens[t]? = some s) (x y : α) :
    let n := st.builders.length
    let st' := run true grow pad st [.createBlock t, .createBlock t, .addSymbol n x, .addSymbol (n + 1) y]
    (∃ b1, st'.builders[n]? = some b1 ∧ read st'.heap b1.1 = read st.heap s ++ [x]) ∧
    (∃ b2, st'.builders[n + 1]? = some b2 ∧ read st'.heap b2.1 = read st.heap s ++ [y]) := by
  sorry

/-- D4, pinned: with the header copy and spare capacity the second sibling's symbol
overwrites the first's. A table of 3 symbols in an array of capacity 4; two builders;
"foo" then "bar": the first builder now reads "bar". -/
def d4State : State String :=
  { heap := [["a", "b", "c", "_"]], tokens := [{ arr := 0, len := 3 }], builders := [] }
def d4Ops : List (Op String) := [.createBlock 0, .createBlock 0, .addSymbol 0 "foo", .addSymbol 1 "bar"]

theorem header_clone_breaks_siblings :
    let st' := run false (fun n => 2 * n + 1) "_" d4State d4Ops
    (st'.builders[0]?.map fun b => read st'.heap b.1) = some ["a", "b", "c", "bar"] := by
  sorry

/-- …whereas the repaired clone keeps them apart on the same history. -/
theorem deep_clone_keeps_siblings :
    let st' := run true (fun n => 2 * n + 1) "_" d4State d4Ops
    (st'.builders[0]?.map fun b => read st'.heap b.1) = some ["a", "b", "c", "foo"] ∧
    (st'.builders[1]?.map fun b => read st'.heap b.1) = some ["a", "b", "c", "bar"] := by
  sorry

/-- Non-vacuity: the D4 start state satisfies the ownership invariant. -/
theorem d4State_owned : Owned d4State := by
  sorry

end Biscuit.C08
