/-
Props/C08 — tokens and blocks are immutable values; sibling derivations are independent.

Stated on `Model/Heap`: symbol tables as Go slices over backing arrays with capacity.
`deep = true` is the repaired `SymbolTable.Clone` (copy of the elements); `deep = false`
the pinned one (copy of the slice header, D4). The growth policy `grow` of `append` is
arbitrary (`grow n > n`), so the theorems hold for Go's policy whatever it is.
What the content of a block *means* given its table is C07's `build_then_resolve`.
-/
import BiscuitModel.Proofs.Heap

namespace Biscuit.C08
open Biscuit.Heap

variable {α : Type}

/-- The ownership invariant is established by any state whose live objects own distinct,
allocated arrays, and is preserved by every operation (repaired `Clone`). -/
theorem step_preserves_owned (grow : Nat → Nat) (hg : ∀ n, grow n > n) (pad : α) (st : State α)
    (h : Owned st) (op : Op α) : Owned (step true grow pad st op).1 := by
  rw [owned_iff] at h ⊢
  obtain ⟨hn, ht, hb⟩ := h
  cases op with
  | createBlock t =>
    cases hs : st.tokens[t]? with
    | none => simp only [step, hs]; exact ⟨hn, ht, hb⟩
    | some s =>
      simp only [step, hs, cloneDeep, if_true]
      have hsv := ht s (List.mem_of_getElem? hs)
      have e := ext_append st.heap [read st.heap s]
      refine ⟨?_, fun s' hs' => e.valid (ht s' hs'), ?_⟩
      · rw [List.map_append, ← List.append_assoc]
        simp only [List.map_cons, List.map_nil]
        rw [List.nodup_append]
        refine ⟨hn, by simp, ?_⟩
        intro a ha b hb'
        rw [List.mem_singleton] at hb'
        subst hb'
        intro hab
        subst hab
        exact fresh_not_mem ht hb (Nat.le_refl _) ha
      · intro b hb'
        rw [List.mem_append, List.mem_singleton] at hb'
        rcases hb' with hb' | rfl
        · exact e.valid (hb b hb')
        · exact cloneDeep_valid hsv
  | addSymbol b x =>
    cases hs : st.builders[b]? with
    | none => simp only [step, hs]; exact ⟨hn, ht, hb⟩
    | some p =>
      obtain ⟨s, start⟩ := p
      simp only [step, hs]
      have hsv : Valid st.heap s := hb (s, start) (List.mem_of_getElem? hs)
      have a := append_spec grow hg pad hsv x []
      refine ⟨?_, fun s' hs' => a.valid_of (ht s' hs'), ?_⟩
      · rw [List.map_set, append_set_eq]
        rcases a.arr with ⟨he, _⟩ | hfresh
        · rw [set_of_getElem?]
          · exact hn
          · rw [List.getElem?_append_right (Nat.le_add_right _ _), Nat.add_sub_cancel_left,
              List.getElem?_map, hs]
            simp [he]
        · exact nodup_set_of_not_mem hn (fresh_not_mem ht hb hfresh)
      · intro b' hb'
        rcases List.mem_or_eq_of_mem_set hb' with hb' | rfl
        · exact a.valid_of (hb b' hb')
        · exact a.valid
  | getBlockID t x =>
    cases hs : st.tokens[t]? with
    | none => simp only [step, hs]; exact ⟨hn, ht, hb⟩
    | some s =>
      simp only [step, hs, cloneDeep, if_true]
      have hsv := ht s (List.mem_of_getElem? hs)
      have a := append_spec grow hg pad (cloneDeep_valid hsv) x []
      have e := a.ext (ext_append st.heap [read st.heap s]) (Nat.le_refl _)
      exact ⟨hn, fun s' hs' => e.valid (ht s' hs'), fun b hb' => e.valid (hb b hb')⟩
  | appendToken t b =>
    cases hs : st.tokens[t]? with
    | none => simp only [step, hs]; exact ⟨hn, ht, hb⟩
    | some s =>
      cases hbs : st.builders[b]? with
      | none => simp only [step, hs, hbs]; exact ⟨hn, ht, hb⟩
      | some p =>
        obtain ⟨bs, start⟩ := p
        simp only [step, hs, hbs, cloneDeep, if_true]
        have hsv := ht s (List.mem_of_getElem? hs)
        have a := appFold_spec grow hg pad (cloneDeep_valid hsv) [] ((read st.heap bs).drop start)
        have e := a.ext (ext_append st.heap [read st.heap s]) (Nat.le_refl _)
        have hfresh := a.fresh (ext_append st.heap [read st.heap s]) (Nat.le_refl _)
        refine ⟨?_, ?_, fun b hb' => e.valid (hb b hb')⟩
        · rw [List.map_append, List.append_assoc]
          simp only [List.map_cons, List.map_nil, List.singleton_append]
          rw [List.perm_middle.nodup_iff, List.nodup_cons]
          exact ⟨fresh_not_mem ht hb hfresh, hn⟩
        · intro s' hs'
          rw [List.mem_append, List.mem_singleton] at hs'
          rcases hs' with hs' | rfl
          · exact e.valid (ht s' hs')
          · exact a.valid

/-- **C08 (frame).** With the repaired `Clone`, no operation changes what any live token
reads: its slice header is still the same and the cells it views hold the same values. -/
theorem family_frame (grow : Nat → Nat) (hg : ∀ n, grow n > n) (pad : α) (st : State α)
    (h : Owned st) (op : Op α) (i : Nat) (s : Slice) (hs : st.tokens[i]? = some s) :
    (step true grow pad st op).1.tokens[i]? = some s ∧
    read (step true grow pad st op).1.heap s = read st.heap s := by
  rw [owned_iff] at h
  obtain ⟨hn, ht, hb⟩ := h
  have hsv := ht s (List.mem_of_getElem? hs)
  cases op with
  | createBlock t =>
    cases hs' : st.tokens[t]? with
    | none => simp only [step, hs']; exact ⟨hs, trivial⟩
    | some s0 =>
      simp only [step, hs', cloneDeep, if_true]
      exact ⟨hs, ((ext_append st.heap [read st.heap s0]).2 s hsv.1).1⟩
  | addSymbol b x =>
    cases hs' : st.builders[b]? with
    | none => simp only [step, hs']; exact ⟨hs, trivial⟩
    | some p =>
      obtain ⟨bs, start⟩ := p
      simp only [step, hs']
      have a := append_spec grow hg pad (hb _ (List.mem_of_getElem? hs')) x []
      refine ⟨hs, a.frame s hsv.1 (Or.inl ?_)⟩
      rw [List.nodup_append] at hn
      exact hn.2.2 s.arr (List.mem_map.mpr ⟨s, List.mem_of_getElem? hs, rfl⟩) bs.arr
        (List.mem_map.mpr ⟨(bs, start), List.mem_of_getElem? hs', rfl⟩)
  | getBlockID t x =>
    cases hs' : st.tokens[t]? with
    | none => simp only [step, hs']; exact ⟨hs, trivial⟩
    | some s0 =>
      simp only [step, hs', cloneDeep, if_true]
      have hsv0 := ht s0 (List.mem_of_getElem? hs')
      have a := append_spec grow hg pad (cloneDeep_valid hsv0) x []
      have e := a.ext (ext_append st.heap [read st.heap s0]) (Nat.le_refl _)
      exact ⟨hs, (e.2 s hsv.1).1⟩
  | appendToken t b =>
    cases hs' : st.tokens[t]? with
    | none => simp only [step, hs']; exact ⟨hs, trivial⟩
    | some s0 =>
      cases hbs : st.builders[b]? with
      | none => simp only [step, hs', hbs]; exact ⟨hs, trivial⟩
      | some p =>
        obtain ⟨bs, start⟩ := p
        simp only [step, hs', hbs, cloneDeep, if_true]
        have hsv0 := ht s0 (List.mem_of_getElem? hs')
        have a := appFold_spec grow hg pad (cloneDeep_valid hsv0) [] ((read st.heap bs).drop start)
        have e := a.ext (ext_append st.heap [read st.heap s0]) (Nat.le_refl _)
        refine ⟨?_, (e.2 s hsv.1).1⟩
        rw [List.getElem?_append_left (List.getElem?_eq_some_iff.mp hs).1]
        exact hs

/-- Likewise no operation changes what any OTHER live builder holds. -/
theorem builders_frame (grow : Nat → Nat) (hg : ∀ n, grow n > n) (pad : α) (st : State α)
    (h : Owned st) (op : Op α) (j : Nat) (b : Slice × Nat) (hb : st.builders[j]? = some b)
    (hne : ∀ x, op ≠ .addSymbol j x) :
    (step true grow pad st op).1.builders[j]? = some b ∧
    read (step true grow pad st op).1.heap b.1 = read st.heap b.1 := by
  rw [owned_iff] at h
  obtain ⟨hn, ht, hbl⟩ := h
  have hbv := hbl b (List.mem_of_getElem? hb)
  cases op with
  | createBlock t =>
    cases hs' : st.tokens[t]? with
    | none => simp only [step, hs']; exact ⟨hb, trivial⟩
    | some s0 =>
      simp only [step, hs', cloneDeep, if_true]
      refine ⟨?_, ((ext_append st.heap [read st.heap s0]).2 b.1 hbv.1).1⟩
      rw [List.getElem?_append_left (List.getElem?_eq_some_iff.mp hb).1]
      exact hb
  | addSymbol b' x =>
    have hj : b' ≠ j := fun he => hne x (by rw [he])
    cases hs' : st.builders[b']? with
    | none => simp only [step, hs']; exact ⟨hb, trivial⟩
    | some p =>
      obtain ⟨bs, start⟩ := p
      simp only [step, hs']
      have a := append_spec grow hg pad (hbl _ (List.mem_of_getElem? hs')) x []
      refine ⟨?_, a.frame b.1 hbv.1 (Or.inl ?_)⟩
      · rw [List.getElem?_set_ne hj]
        exact hb
      · rw [List.nodup_append] at hn
        exact map_nodup_ne hn.2.1 hb hs' (Ne.symm hj)
  | getBlockID t x =>
    cases hs' : st.tokens[t]? with
    | none => simp only [step, hs']; exact ⟨hb, trivial⟩
    | some s0 =>
      simp only [step, hs', cloneDeep, if_true]
      have hsv0 := ht s0 (List.mem_of_getElem? hs')
      have a := append_spec grow hg pad (cloneDeep_valid hsv0) x []
      have e := a.ext (ext_append st.heap [read st.heap s0]) (Nat.le_refl _)
      exact ⟨hb, (e.2 b.1 hbv.1).1⟩
  | appendToken t b' =>
    cases hs' : st.tokens[t]? with
    | none => simp only [step, hs']; exact ⟨hb, trivial⟩
    | some s0 =>
      cases hbs : st.builders[b']? with
      | none => simp only [step, hs', hbs]; exact ⟨hb, trivial⟩
      | some p =>
        obtain ⟨bs, start⟩ := p
        simp only [step, hs', hbs, cloneDeep, if_true]
        have hsv0 := ht s0 (List.mem_of_getElem? hs')
        have a := appFold_spec grow hg pad (cloneDeep_valid hsv0) [] ((read st.heap bs).drop start)
        have e := a.ext (ext_append st.heap [read st.heap s0]) (Nat.le_refl _)
        exact ⟨hb, (e.2 b.1 hbv.1).1⟩

/-- Lifted to every history: after any sequence of operations every token that was live
before still reads what it read before. -/
theorem family_frame_history (grow : Nat → Nat) (hg : ∀ n, grow n > n) (pad : α) (st : State α)
    (h : Owned st) (ops : List (Op α)) (i : Nat) (s : Slice) (hs : st.tokens[i]? = some s) :
    (run true grow pad st ops).tokens[i]? = some s ∧
    read (run true grow pad st ops).heap s = read st.heap s := by
  induction ops generalizing st with
  | nil => exact ⟨hs, rfl⟩
  | cons op ops ih =>
    have f := family_frame grow hg pad st h op i s hs
    have r := ih (step true grow pad st op).1 (step_preserves_owned grow hg pad st h op) f.1
    exact ⟨r.1, r.2.trans f.2⟩

/-- **Siblings.** Two builders created from the same token, each adding its own symbol,
each hold exactly the parent's symbols followed by their own. -/
theorem siblings_independent (grow : Nat → Nat) (hg : ∀ n, grow n > n) (pad : α) (st : State α)
    (h : Owned st) (t : Nat) (s : Slice) (hs : st.tokens[t]? = some s) (x y : α) :
    let n := st.builders.length
    let st' := run true grow pad st [.createBlock t, .createBlock t, .addSymbol n x, .addSymbol (n + 1) y]
    (∃ b1, st'.builders[n]? = some b1 ∧ read st'.heap b1.1 = read st.heap s ++ [x]) ∧
    (∃ b2, st'.builders[n + 1]? = some b2 ∧ read st'.heap b2.1 = read st.heap s ++ [y]) := by
  intro n st'
  -- first `createBlock`
  let st1 := (step true grow pad st (.createBlock t)).1
  have o1 : Owned st1 := step_preserves_owned grow hg pad st h _
  obtain ⟨b1, hb1, hr1⟩ := step_createBlock_spec grow pad (st := st) hs
  have f1 : st1.tokens[t]? = some s ∧ read st1.heap s = read st.heap s :=
    family_frame grow hg pad st h _ t s hs
  have hb1n : st1.builders[n]? = some (b1, s.len) := by
    show (step true grow pad st (.createBlock t)).1.builders[n]? = _
    rw [hb1, List.getElem?_append_right (Nat.le_refl _)]
    simp
  have hl1 : st1.builders.length = n + 1 := by
    show (step true grow pad st (.createBlock t)).1.builders.length = _
    rw [hb1, List.length_append]
    rfl
  -- second `createBlock`
  let st2 := (step true grow pad st1 (.createBlock t)).1
  have o2 : Owned st2 := step_preserves_owned grow hg pad st1 o1 _
  obtain ⟨b2, hb2, hr2⟩ := step_createBlock_spec grow pad (st := st1) f1.1
  have bf2 : st2.builders[n]? = some (b1, s.len) ∧ read st2.heap b1 = read st1.heap b1 :=
    builders_frame grow hg pad st1 o1 _ n (b1, s.len) hb1n (fun _ he => by cases he)
  have hb2n : st2.builders[n + 1]? = some (b2, s.len) := by
    show (step true grow pad st1 (.createBlock t)).1.builders[n + 1]? = _
    rw [hb2, List.getElem?_append_right (Nat.le_of_eq hl1), hl1]
    simp
  -- `addSymbol n x`
  let st3 := (step true grow pad st2 (.addSymbol n x)).1
  have o3 : Owned st3 := step_preserves_owned grow hg pad st2 o2 _
  obtain ⟨b1', h3⟩ := step_addSymbol_spec grow hg pad o2 bf2.1 x
  have bf3 : st3.builders[n + 1]? = some (b2, s.len) ∧ read st3.heap b2 = read st2.heap b2 :=
    builders_frame grow hg pad st2 o2 _ (n + 1) (b2, s.len) hb2n
      (fun _ he => by injection he with h1 _; omega)
  -- `addSymbol (n + 1) y`
  obtain ⟨b2', h4⟩ := step_addSymbol_spec grow hg pad o3 bf3.1 y
  have bf4 := builders_frame grow hg pad st3 o3 (.addSymbol (n + 1) y) n (b1', s.len) h3.1
    (fun _ he => by injection he with h1 _; omega)
  refine ⟨⟨(b1', s.len), bf4.1, ?_⟩, ⟨(b2', s.len), h4.1, ?_⟩⟩
  · exact bf4.2.trans (h3.2.trans (by rw [bf2.2, hr1]))
  · exact h4.2.trans (by rw [bf3.2, hr2, f1.2])

/-- D4, pinned: with the header copy and spare capacity the second sibling's symbol
overwrites the first's. A table of 3 symbols in an array of capacity 4; two builders;
"foo" then "bar": the first builder now reads "bar". -/
def d4State : State String :=
  { heap := [["a", "b", "c", "_"]], tokens := [{ arr := 0, len := 3 }], builders := [] }
def d4Ops : List (Op String) := [.createBlock 0, .createBlock 0, .addSymbol 0 "foo", .addSymbol 1 "bar"]

theorem header_clone_breaks_siblings :
    let st' := run false (fun n => 2 * n + 1) "_" d4State d4Ops
    (st'.builders[0]?.map fun b => read st'.heap b.1) = some ["a", "b", "c", "bar"] := by
  rfl

/-- …whereas the repaired clone keeps them apart on the same history. -/
theorem deep_clone_keeps_siblings :
    let st' := run true (fun n => 2 * n + 1) "_" d4State d4Ops
    (st'.builders[0]?.map fun b => read st'.heap b.1) = some ["a", "b", "c", "foo"] ∧
    (st'.builders[1]?.map fun b => read st'.heap b.1) = some ["a", "b", "c", "bar"] := by
  exact ⟨rfl, rfl⟩

/-- Non-vacuity: the D4 start state satisfies the ownership invariant. -/
theorem d4State_owned : Owned d4State := by
  simp [Owned, d4State, cap]

end Biscuit.C08
