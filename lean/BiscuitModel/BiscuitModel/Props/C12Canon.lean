/-
Props/C12Canon — the canonical representative of a written set.

Go's `Set.Equal` ignores element order; the engine model compares values structurally, so the
construction step `canon` (drop repeats, then insertion sort by the injective key `atomKey`)
must send every writing of the same set to the same list: `canon_eq_of_same_members`. With
it, structural equality of canonical representatives is exactly `Set.Equal`
(`canon_eq_iff_setEqual`, `canon_eq_iff_setEqual_canon`).
-/
import BiscuitModel.Proofs.Construct

namespace Biscuit.C12Canon
open Biscuit Biscuit.Construct Biscuit.C12Sets

/-! ### 1–3: `canon l` is a duplicate-free rearrangement of `dedup l` -/

theorem canon_perm (l : List Atom) : (canon l).Perm (dedup l) := sortAtoms_perm _

theorem canon_length (l : List Atom) : (canon l).length = (dedup l).length := (canon_perm l).length_eq

theorem mem_canon (l : List Atom) (a : Atom) : a ∈ canon l ↔ a ∈ l :=
  (canon_perm l).mem_iff.trans (mem_dedup l a)

theorem canon_nodup (l : List Atom) : (canon l).Nodup := (canon_perm l).nodup_iff.2 (dedup_nodup l)

theorem canon_sorted (l : List Atom) : (canon l).Pairwise (fun a b => atomLe a b = true) :=
  sortAtoms_sorted _

/-! ### 4: the key is injective -/

theorem atomKey_injective : ∀ a b : Atom, atomKey a = atomKey b → a = b :=
  Biscuit.Construct.atomKey_injective

/-- In particular far outside the `int64` range. -/
example : atomKey (.int (-(2 ^ 64))) ≠ atomKey (.int (-(2 ^ 64) - 1)) := by decide

/-! ### 5: `keyLe` is a total order (and so is `atomLe`) -/

theorem keyLe_refl (a : List Nat) : keyLe a a = true := Biscuit.Construct.keyLe_refl a

theorem keyLe_total (a b : List Nat) : keyLe a b = true ∨ keyLe b a = true :=
  Biscuit.Construct.keyLe_total a b

theorem keyLe_trans {a b c : List Nat} (h1 : keyLe a b = true) (h2 : keyLe b c = true) :
    keyLe a c = true := Biscuit.Construct.keyLe_trans h1 h2

theorem keyLe_antisymm {a b : List Nat} (h1 : keyLe a b = true) (h2 : keyLe b a = true) : a = b :=
  Biscuit.Construct.keyLe_antisymm h1 h2

theorem atomLe_antisymm {a b : Atom} (h1 : atomLe a b = true) (h2 : atomLe b a = true) : a = b :=
  Biscuit.Construct.atomLe_antisymm h1 h2

/-! ### 6: main theorem -/

/-- **Main theorem.** Two writings of the same set — any order, any repeats — have the same
canonical representative. -/
theorem canon_eq_of_same_members (l l' : List Atom) (h : ∀ a, a ∈ l ↔ a ∈ l') :
    canon l = canon l' := by
  have hp : (canon l).Perm (canon l') :=
    (List.perm_ext_iff_of_nodup (canon_nodup l) (canon_nodup l')).2
      (fun a => by rw [mem_canon, mem_canon]; exact h a)
  exact sorted_ext (canon_sorted l) (canon_sorted l') hp

/-- Converse: equal representatives mean the same members. -/
theorem same_members_of_canon_eq (l l' : List Atom) (h : canon l = canon l') :
    ∀ a, a ∈ l ↔ a ∈ l' := fun a => by
  rw [← mem_canon l, ← mem_canon l', h]

theorem canon_eq_iff_same_members (l l' : List Atom) :
    canon l = canon l' ↔ ∀ a, a ∈ l ↔ a ∈ l' :=
  ⟨same_members_of_canon_eq l l', canon_eq_of_same_members l l'⟩

/-! ### 7: tie to Go's `Set.Equal` -/

theorem canon_eq_iff_setEqual (l l' : List Atom) :
    canon l = canon l' ↔ setEqual (dedup l) (dedup l') = true := by
  rw [canon_eq_iff_same_members, setEqual_iff _ _ (dedup_nodup l) (dedup_nodup l')]
  simp only [mem_dedup]

/-- Structural equality of canonical representatives is `Set.Equal` on them. -/
theorem canon_eq_iff_setEqual_canon (l l' : List Atom) :
    canon l = canon l' ↔ setEqual (canon l) (canon l') = true := by
  rw [canon_eq_iff_same_members, setEqual_iff _ _ (canon_nodup l) (canon_nodup l')]
  simp only [mem_canon]

/-! ### 8: idempotence -/

theorem canon_of_sorted_nodup (l : List Atom) (hn : l.Nodup)
    (hs : l.Pairwise (fun a b => atomLe a b = true)) : canon l = l := by
  show sortAtoms (dedup l) = l
  rw [dedup_of_nodup _ hn]
  exact sortAtoms_of_sorted _ hs

theorem canon_idem (l : List Atom) : canon (canon l) = canon l :=
  canon_of_sorted_nodup _ (canon_nodup l) (canon_sorted l)

/-! ### 9: non-vacuity -/

example : canon [.int 2, .int 1, .int 2] = canon [.int 1, .int 2, .int 1, .int 1] := by decide
example : canon [.int 2, .int 1, .int 2] = [.int 1, .int 2] := by decide
/-- Negatives come first, by magnitude: the order is a key order, not the numeric one. -/
example : canon [.int 3, .int (-1), .int 0, .int (-5)] = [.int (-1), .int (-5), .int 0, .int 3] := by
  decide
/-- Beyond `int64` the two orders of writing still agree. -/
example : canon [.int (-(2 ^ 64)), .int (-(2 ^ 64) - 1)] = canon [.int (-(2 ^ 64) - 1), .int (-(2 ^ 64))] := by
  decide
example : canon [.str [98], .str [97, 98], .str [98], .str [97]] =
    canon [.str [97], .str [98], .str [97, 98]] := by decide
example : canon [.bytes [1, 2], .bytes [0], .bytes [1, 2]] = canon [.bytes [0], .bytes [1, 2], .bytes [0]] := by
  decide
example : canon [.bool true, .date 5, .str [1], .int 7, .bytes [1]] =
    canon [.bytes [1], .int 7, .str [1], .date 5, .bool true, .int 7] := by decide
example : canon [.int 1] ≠ canon [.int 2] := by decide
example : canon [.int 1] ≠ canon [.int (-1)] := by decide
example : canon [.str [97]] ≠ canon [.bytes [97]] := by decide
/-- The main theorem applied, not just evaluated. -/
example (x y : Atom) : canon [x, y, x] = canon [y, x, y, y] :=
  canon_eq_of_same_members _ _ (fun a => by
    simp only [List.mem_cons, List.not_mem_nil, or_false]
    constructor
    · rintro (h | h | h) <;> simp [h]
    · rintro (h | h | h | h) <;> simp [h])

end Biscuit.C12Canon
