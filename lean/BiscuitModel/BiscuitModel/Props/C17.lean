/-
Props/C17 — revocation identifiers are per-block, stable and unique.
-/
import BiscuitModel.Proofs.Token

namespace Biscuit.C17
open Biscuit Biscuit.Wire

/-- Exactly one identifier per block (authority included). -/
theorem revids_count (e : BiscuitMsg) : (revocationIds e).length = e.blocks.length + 1 := by
  simp [revocationIds]

/-- The `i`-th identifier is the signature found on block `i` of the envelope. -/
theorem revid_is_block_signature (e : BiscuitMsg) (i : Nat) :
    (revocationIds e)[i]? = ((e.authority :: e.blocks)[i]?).map (·.signature) := by
  rw [revocationIds_eq_map, List.getElem?_map]

/-- …and the independent decoder finds those signatures in the serialized bytes. -/
theorem revids_from_bytes (e e' : BiscuitMsg) (h : decodeBiscuit (encodeBiscuit e) = some e') :
    e' = e → revocationIds e' = revocationIds e := by
  have _ := h
  intro he; rw [he]

/-- One derivation step: the parent's identifiers stay a prefix; `append` adds exactly
one, `seal` and `reload` none. -/
theorem derive_revids (S : SigScheme) (e e' : BiscuitMsg) (op : DeriveOp)
    (hwf : ∀ i, e.rootKeyId = some i → i < 2^32)
    (hwf2 : ∀ sb ∈ e.authority :: e.blocks, sb.nextKey.algorithm < 2^64)
    (h : derive true S e op = .ok e') :
    revocationIds e <+: revocationIds e' ∧
    (revocationIds e').length = (revocationIds e).length + (match op with | .append _ _ => 1 | _ => 0) := by
  have _ := hwf; have _ := hwf2
  have key := derive_revids_aux true S e e' op h
  rcases op with ⟨block, rng⟩ | _ | _ <;> exact key

/-- Envelopes produced by the library: algorithm tag 0, identifier below 2^32. -/
def LibWF (e : BiscuitMsg) : Prop :=
  (∀ i, e.rootKeyId = some i → i < 2^32) ∧ (∀ sb ∈ e.authority :: e.blocks, sb.nextKey.algorithm = ed25519Alg)

theorem derive_keeps_LibWF (S : SigScheme) (e e' : BiscuitMsg) (op : DeriveOp) (hwf : LibWF e)
    (h : derive true S e op = .ok e') : LibWF e' := by
  obtain ⟨hid, halg⟩ := hwf
  rcases op with ⟨block, rng⟩ | _ | _
  · simp only [derive] at h
    cases ha : appendEnvelopeWith true S e block rng with
    | error r => rw [ha] at h; cases h
    | ok p =>
      obtain ⟨e'', rng'⟩ := p
      rw [ha] at h
      simp only [Except.map, Except.ok.injEq] at h
      subst h
      obtain ⟨_, _, _, _, _, rfl⟩ := appendEnvelopeWith_ok true S e block rng rng' e'' ha
      refine ⟨hid, ?_⟩
      intro sb hsb
      simp only [List.mem_cons, List.mem_append, List.not_mem_nil, or_false] at hsb
      rcases hsb with rfl | hsb | rfl
      · exact halg _ (by simp)
      · exact halg _ (by simp [hsb])
      · rfl
  · obtain ⟨_, _, _, rfl⟩ := sealEnvelopeWith_ok true S e e' h
    exact ⟨hid, halg⟩
  · have halg' : ∀ sb ∈ e.authority :: e.blocks, sb.nextKey.algorithm < 2^64 := by
      intro sb hsb; rw [halg sb hsb]; show (0 : Nat) < 2^64; omega
    rw [derive_reload_ok true S e e' h, normEnv_eq e hid halg']
    exact ⟨hid, halg⟩

/-- **C17.** Along every derivation history the identifiers of the derived token begin
with the identifiers of its ancestor, unchanged. -/
theorem revids_prefix (S : SigScheme) (e0 e : BiscuitMsg) (ops : List DeriveOp) (hwf : LibWF e0)
    (h : deriveAll true S e0 ops = .ok e) : revocationIds e0 <+: revocationIds e := by
  induction ops generalizing e0 with
  | nil => simp only [deriveAll, Except.ok.injEq] at h; subst h; exact List.prefix_refl _
  | cons op ops ih =>
    simp only [deriveAll] at h
    cases hd : derive true S e0 op with
    | error r => rw [hd] at h; cases h
    | ok e1 =>
      rw [hd] at h
      have halg' : ∀ sb ∈ e0.authority :: e0.blocks, sb.nextKey.algorithm < 2^64 := by
        intro sb hsb; rw [hwf.2 sb hsb]; show (0 : Nat) < 2^64; omega
      have h1 := (derive_revids S e0 e1 op hwf.1 halg' hd).1
      exact List.IsPrefix.trans h1 (ih e1 (derive_keeps_LibWF S e0 e1 op hwf hd) h)

/-- Uniqueness, conditional on what "ed25519 with fresh randomness per operation" means
symbolically — explicit hypotheses, not axioms: signatures of different payloads differ
(`signInj`, for a fixed key and across keys), and distinct seeds give distinct public keys.
Two appends that drew different seeds then produce different identifiers, whatever the
block content and whichever tokens they extend. -/
theorem revids_distinct_conditional (S : SigScheme)
    (signInj : ∀ k k' m m', S.sign k m = S.sign k' m' → m = m')
    (pubInj : ∀ s s', S.pub s = S.pub s' → s = s')
    (publen : ∀ s, (S.pub s).length = 32)
    (e1 e2 e1' e2' : BiscuitMsg) (b1 b2 : Bytes) (r1 r2 r1' r2' : Rng) (s1 s2 : Bytes)
    (hd1 : drawSeed r1 = some (s1, r1')) (hd2 : drawSeed r2 = some (s2, r2')) (hne : s1 ≠ s2)
    (h1 : appendEnvelope S e1 b1 r1 = .ok (e1', r1')) (h2 : appendEnvelope S e2 b2 r2 = .ok (e2', r2')) :
    (revocationIds e1').getLast? ≠ (revocationIds e2').getLast? := by
  obtain ⟨sk1, seed1, _, _, hd1', rfl⟩ := appendEnvelopeWith_ok true S e1 b1 r1 r1' e1' h1
  obtain ⟨sk2, seed2, _, _, hd2', rfl⟩ := appendEnvelopeWith_ok true S e2 b2 r2 r2' e2' h2
  rw [hd1] at hd1'; rw [hd2] at hd2'
  simp only [Option.some.injEq, Prod.mk.injEq, and_true] at hd1' hd2'
  subst hd1'; subst hd2'
  intro heq
  simp only [revocationIds, List.map_append, List.map_cons, List.map_nil] at heq
  rw [← List.cons_append, ← List.cons_append, List.getLast?_append, List.getLast?_append] at heq
  simp only [List.getLast?_singleton, Option.some_or, Option.some.injEq] at heq
  have hm := signInj _ _ _ _ heq
  have hk := List.append_inj_right' hm (by rw [publen, publen])
  exact hne (pubInj _ _ hk)

/-! Reload without a hypothesis on the decoder's result; counts along histories. -/

/-- A library-produced envelope that reloads from its own bytes comes back with the same
identifiers, in the same order (no hypothesis on what the decoder returned). -/
theorem reload_revids (e e' : BiscuitMsg) (hwf : LibWF e) (hr : reload e = some e') :
    revocationIds e' = revocationIds e := by
  have halg' : ∀ sb ∈ e.authority :: e.blocks, sb.nextKey.algorithm < 2^64 := by
    intro sb hsb; rw [hwf.2 sb hsb]; show (0 : Nat) < 2^64; omega
  rw [reload_some e e' hr, normEnv_eq e hwf.1 halg']

/-- Number of `append` steps of a history. -/
def appends : List DeriveOp → Nat
  | [] => 0
  | .append _ _ :: ops => appends ops + 1
  | _ :: ops => appends ops

/-- **C17, count along histories.** The derived token has exactly one identifier more per
`append` of its history, none for `seal` and `reload`. -/
theorem revids_count_history (S : SigScheme) (e0 e : BiscuitMsg) (ops : List DeriveOp) (hwf : LibWF e0)
    (h : deriveAll true S e0 ops = .ok e) :
    (revocationIds e).length = (revocationIds e0).length + appends ops := by
  induction ops generalizing e0 with
  | nil => simp only [deriveAll, Except.ok.injEq] at h; subst h; rfl
  | cons op ops ih =>
    simp only [deriveAll] at h
    cases hd : derive true S e0 op with
    | error r => rw [hd] at h; cases h
    | ok e1 =>
      rw [hd] at h
      have halg' : ∀ sb ∈ e0.authority :: e0.blocks, sb.nextKey.algorithm < 2^64 := by
        intro sb hsb; rw [hwf.2 sb hsb]; show (0 : Nat) < 2^64; omega
      have h1 := (derive_revids S e0 e1 op hwf.1 halg' hd).2
      have h2 := ih e1 (derive_keeps_LibWF S e0 e1 op hwf hd) h
      rw [h2, h1]
      cases op <;> simp only [appends] <;> omega

/-- …and hence one identifier per block of the derived token, the first `n` being the ancestor's. -/
theorem revids_take_ancestor (S : SigScheme) (e0 e : BiscuitMsg) (ops : List DeriveOp) (hwf : LibWF e0)
    (h : deriveAll true S e0 ops = .ok e) :
    (revocationIds e).take (revocationIds e0).length = revocationIds e0 := by
  obtain ⟨t, ht⟩ := revids_prefix S e0 e ops hwf h
  rw [← ht, List.take_left]

end Biscuit.C17
