/-
Props/C17 — revocation identifiers are per-block, stable and unique.
-/
import BiscuitModel.Proofs.Token

namespace Biscuit.C17
open Biscuit Biscuit.Wire

/-- Exactly one identifier per block (authority included). -/
theorem revids_count (e : BiscuitMsg) : (revocationIds e).length = e.blocks.length + 1 := by
  sorry

/-- The `i`-th identifier is the signature found on block `i` of the envelope. -/
theorem revid_is_block_signature (e : BiscuitMsg) (i : Nat) :
    (revocationIds e)[i]? = ((e.authority :: e.blocks)[i]?).map (·.signature) := by
  sorry

/-- …and the independent decoder finds those signatures in the serialized bytes. -/
theorem revids_from_bytes (e e' : BiscuitMsg) (h : decodeBiscuit (encodeBiscuit e) = some e') :
    e' = e → revocationIds e' = revocationIds e := by
  sorry

/-- One derivation step: the parent's identifiers stay a prefix; `append` adds exactly
one, `seal` and `reload` none. -/
theorem derive_revids (S : SigScheme) (e e' : BiscuitMsg) (op : DeriveOp)
    (hwf : ∀ i, e.rootKeyId = some i → i < 2^32)
    (hwf2 : ∀ sb ∈ e.authority :: e.blocks, sb.nextKey.algorithm < 2^64)
    (h : derive true S e op = .ok e') :
    revocationIds e <+: revocationIds e' ∧
    (revocationIds e').length = (revocationIds e).length + (match op with | .append _ _ => 1 | _ => 0) := by
  sorry

/-- Envelopes produced by the library: algorithm tag 0, identifier below 2^32. -/
def LibWF (e : BiscuitMsg) : Prop :=
  (∀ i, e.rootKeyId = some i → i < 2^32) ∧ (∀ sb ∈ e.authority :: e.blocks, sb.nextKey.algorithm = ed25519Alg)

theorem derive_keeps_LibWF (S : SigScheme) (e e' : BiscuitMsg) (op : DeriveOp) (hwf : LibWF e)
    (h : derive true S e op = .ok e') : LibWF e' := by
  sorry

/-- **C17.** Along every derivation history the identifiers of the derived token begin
with the identifiers of its ancestor, unchanged. -/
theorem revids_prefix (S : SigScheme) (e0 e : BiscuitMsg) (ops : List DeriveOp) (hwf : LibWF e0)
    (h : deriveAll true S e0 ops = .ok e) : revocationIds e0 <+: revocationIds e := by
  sorry

/-- Uniqueness, conditional on what "ed25519 with fresh randomness per operation" means
symbolically — explicit hypotheses, not axioms: signatures of different payloads differ
(`signInj`, for a fixed key and across keys), and distinct seeds give distinct public keys.
Two appends that drew different seeds then produce different identifiers, whatever the
block content and whichever tokens they extend. -/
theorem revids_distinct_conditional (S : SigScheme)
    (signInj : ∀ k k' m m', S.sign k m = S.sign k' m' → m = m')
    (pubInj : ∀ s s', S.pub s = S.pub s' → s = s')
    (publen : ∀ s, (S.pub s).length = 32)
    (e1 e2 e1' e2' : BiscuitMsg) (b1 b2 : Bytes) (r1 r2 r1' r2' : Rng) (s1 s2 : Bytes)
    (hd1 : drawSeed r1 = some (s1, r1')) (hd2 : drawSeed r2 = some (s2, r2')) (hne : s1 ≠ s2)
    (h1 : appendEnvelope S e1 b1 r1 = .ok (e1', r1')) (h2 : appendEnvelope S e2 b2 r2 = .ok (e2', r2')) :
    (revocationIds e1').getLast? ≠ (revocationIds e2').getLast? := by
  sorry

end Biscuit.C17
