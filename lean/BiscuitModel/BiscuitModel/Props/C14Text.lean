/-
Props/C14Text — the round trip of C14 at CHARACTER level, for whole statements and
statement lists: `C14Lexer.lex_spell` (characters ↔ tokens) composed with
`C14Items.parseItems_render` (tokens ↔ statements).

For every list of statements that is well formed as a tree (`C14Items.ItemWF`: precedence
and associativity shape, non-empty bodies, flat non-empty sets) and whose names and literals
are lexically well formed (`itemLexOK`, below), writing it out as TEXT — the tokens of
`Render.renderItems`, each followed by one space (`Grammar.spell`) — and running the model's
text entry points `parseBlockText` / `parseAuthorizerText` / `parseSingleText` (lexer, then
parser with the model's own fuel) returns exactly the statements.  Any length, any nesting.

`itemLexOK` is Bool-valued and EXACT: `itemLexOK it = true` holds if and only if every token
of `renderItem it` is `C14Lexer.TokWF` (`itemLexOK_iff`), and `TokWF` itself is exact
(`C14Lexer.tokWF_exact`).  What it says, construct by construct:

* `{param}`, `$var`: the name is a non-empty string of name characters `[a-zA-Z0-9_:]`;
* integers: a non-empty string of digits (the same for the digits of a signed literal
  `-5`; its sign is the Operator token `-`, always well formed); strings: no `"`; dates: the Date rule of the lexer
  accepts exactly the whole text; bytes: an even number of hex digits; booleans: nothing;
* sets: every element, as an atom (a set inside a set renders to NO token, so there is
  nothing to check; such a term is not `ItemWF` anyway);
* infix operators: NOTHING.  Every operator token of `Printer.binTok` is well formed
  (`TextRoundtrip.binTok_tokWF`: `< <= > >= == + - *` are Operator tokens, `/` is the
  punctuation token, `&&` `||` have their own rules); an operator without a token renders
  to no token at all (`opTokOK_true`; such a tree is not `C14.WF`: its level is 8);
* methods: the operator must be one of the six method operators
  (`methodTok_tokWF`: `tokWF (methodTok op) = isMethodOp op`).  `contains` and `matches` are
  Function tokens, `starts_with`, `ends_with`, `intersection`, `union` identifiers that no
  earlier lexer rule claims.  For every OTHER operator `Printer.methodTok` gives the
  placeholder identifier `?`, which is never lexed as an identifier (`?` is punctuation):
  `method_placeholder_not_lexable`.  These trees are excluded here (and by `C14.WF`);
* predicate names: `C14Lexer.identOK` — `[a-z][a-zA-Z0-9_:]*`, not `check`/`allow`/`deny`,
  no Function or Bool literal followed by a word boundary at the start, no `hex:` prefix.
  This is the condition that `C14Items` left to the character level;
* the punctuation, `<-`, `or`, `;`, the keywords: always well formed.

Neither hypothesis can be dropped: see "What is excluded" at the end.
-/
import BiscuitModel.Proofs.TextRoundtrip
import BiscuitModel.Props.C14Items

namespace Biscuit.C14Text
open Biscuit Biscuit.Grammar Biscuit.Printer Biscuit.Render Biscuit.C14 Biscuit.C14Lexer
open Biscuit.TextRoundtrip

/-! ## Lexical well-formedness of the syntax tree -/

/-- An atom (what may stand inside a set): its one token is `TokWF` (a signed integer literal
has two, the Operator token `-` and the digits; the same digit condition as for `.int`).  A set
in this position renders to no token. -/
def atomLexOK : PTerm → Bool
  | .param n => nameOK n.toList                     -- `{` [a-zA-Z0-9_:]+ `}`
  | .var n => nameOK n.toList                       -- `$` [a-zA-Z0-9_:]+
  | .int ds => !ds.isEmpty && ds.all isDigit        -- [0-9]+
  | .negInt ds => !ds.isEmpty && ds.all isDigit     -- `-` [0-9]+ (the token `-` is always well formed)
  | .str s => s.all (· != '"')                      -- no quote inside
  | .date s => lexDate s == some (s, [])            -- the Date rule accepts `s` completely
  | .bytes ds => ds.all isHexDigit && ds.length % 2 == 0
  | .bool _ => true
  | .set _ => true                                  -- no token (not `TermWF` either)

/-- A term: an atom, or a set of atoms. -/
def termLexOK : PTerm → Bool
  | .set elts => elts.all atomLexOK
  | t => atomLexOK t

/-- The token of an infix operator, if it has one, is `TokWF`.  Always true: `opTokOK_true`. -/
def opTokOK (op : BinOp) : Bool :=
  match binTok op with
  | some t => tokWF t
  | none => true

def exprLexOK : PExpr → Bool
  | .term t => termLexOK t
  | .paren e => exprLexOK e
  | .neg e => exprLexOK e
  | .bin op l r => exprLexOK l && opTokOK op && exprLexOK r
  | .method op recv arg => exprLexOK recv && tokWF (methodTok op) && exprLexOK arg
  | .length recv => exprLexOK recv

def predLexOK (p : PPred) : Bool := identOK p.name.toList && p.terms.all termLexOK

def elemLexOK : PElem → Bool
  | .pred p => predLexOK p
  | .expr e => exprLexOK e

def bodyLexOK (es : List PElem) : Bool := es.all elemLexOK

def ruleLexOK (r : PRule) : Bool := predLexOK r.head && bodyLexOK r.body

def queriesLexOK (qs : List (List PElem)) : Bool := qs.all bodyLexOK

def itemLexOK : PItem → Bool
  | .fact p => predLexOK p
  | .rule r => ruleLexOK r
  | .check c => queriesLexOK c.queries
  | .policy p => queriesLexOK p.queries

/-! ## Operators -/

/-- Every infix operator token is well formed: `exprLexOK` asks nothing of `bin` nodes. -/
theorem opTokOK_true (op : BinOp) : opTokOK op = true := by
  cases op <;> decide

/-- The method token is well formed exactly for the six method operators. -/
theorem methodTok_tokWF (op : BinOp) : tokWF (methodTok op) = isMethodOp op := by
  cases op <;> decide

/-- **The placeholder of `methodTok` cannot be written as text.**  For an operator that is
not a method, `renderToks (.method op …)` contains the identifier token `?`; no text lexes to
it.  Concretely `$x . ? ( $y )` reads back with the PUNCTUATION token `?`, and the parser
rejects it. -/
theorem method_placeholder_not_lexable :
    (∀ op, isMethodOp op = false → ¬ TokWF (methodTok op)) ∧
    renderToks (.method .add (.term (.var "x")) (.term (.var "y"))) =
      [.var "x", .dot, .ident "?", .punct '(', .var "y", .punct ')'] ∧
    lex (spell (renderToks (.method .add (.term (.var "x")) (.term (.var "y"))))) =
      some [.var "x", .dot, .punct '?', .punct '(', .var "y", .punct ')'] ∧
    parseSingleText (spell (renderItem (.check ⟨[[.expr (.method .add (.term (.var "x")) (.term (.var "y")))]]⟩))) =
      none := by
  refine ⟨fun op h hw => ?_, by decide +kernel, by decide +kernel, by decide +kernel⟩
  unfold TokWF at hw
  rw [methodTok_tokWF, h] at hw
  cases hw

/-! ## `*LexOK` says exactly that every rendered token is `TokWF` -/

theorem atomLexOK_iff (t : PTerm) : atomLexOK t = true ↔ ∀ tok ∈ atomToks t, TokWF tok := by
  cases t <;> simp [atomLexOK, atomToks, TokWF, tokWF, opLits]

theorem termLexOK_iff (t : PTerm) : termLexOK t = true ↔ ∀ tok ∈ renderTermToks t, TokWF tok := by
  cases t with
  | set elts =>
    rw [renderTermToks_set]
    simp only [termLexOK, List.all_eq_true, List.mem_append, List.mem_singleton]
    constructor
    · intro h tok htok
      rcases htok with (rfl | htok) | rfl
      · exact tokWF_lbracket
      · refine (forall_joinToks tokWF_comma _).2 ?_ tok htok
        intro x hx
        obtain ⟨a, ha, rfl⟩ := List.mem_map.1 hx
        exact (atomLexOK_iff a).1 (h a ha)
      · exact tokWF_rbracket
    · intro h a ha
      refine (atomLexOK_iff a).2 ?_
      exact (forall_joinToks tokWF_comma _).1 (fun tok htok => h tok (Or.inl (Or.inr htok)))
        (atomToks a) (List.mem_map.2 ⟨a, ha, rfl⟩)
  | param n => exact atomLexOK_iff (.param n)
  | var n => exact atomLexOK_iff (.var n)
  | int ds => exact atomLexOK_iff (.int ds)
  | negInt ds => exact atomLexOK_iff (.negInt ds)
  | str s => exact atomLexOK_iff (.str s)
  | date s => exact atomLexOK_iff (.date s)
  | bytes ds => exact atomLexOK_iff (.bytes ds)
  | bool b => exact atomLexOK_iff (.bool b)

theorem exprLexOK_iff (e : PExpr) : exprLexOK e = true ↔ ∀ tok ∈ renderToks e, TokWF tok := by
  induction e with
  | term t => exact termLexOK_iff t
  | paren e ih =>
    simp only [exprLexOK, renderToks, List.mem_append, List.mem_singleton, ih]
    constructor
    · intro h tok htok
      rcases htok with (rfl | htok) | rfl
      · exact tokWF_lparen
      · exact h tok htok
      · exact tokWF_rparen
    · exact fun h tok htok => h tok (Or.inl (Or.inr htok))
  | neg e ih =>
    simp only [exprLexOK, renderToks, List.mem_cons, ih]
    constructor
    · intro h tok htok
      rcases htok with rfl | htok
      · exact tokWF_bang
      · exact h tok htok
    · exact fun h tok htok => h tok (Or.inr htok)
  | bin op l r ihl ihr =>
    simp only [exprLexOK, opTokOK_true, Bool.and_true, Bool.and_eq_true, renderToks, List.mem_append,
      ihl, ihr]
    constructor
    · intro h tok htok
      rcases htok with (htok | htok) | htok
      · exact h.1 tok htok
      · cases hb : binTok op with
        | none => rw [hb] at htok; cases htok
        | some t =>
          rw [hb] at htok
          rw [List.mem_singleton.1 htok]
          exact binTok_tokWF op t hb
      · exact h.2 tok htok
    · exact fun h => ⟨fun tok htok => h tok (Or.inl (Or.inl htok)), fun tok htok => h tok (Or.inr htok)⟩
  | method op recv arg ihr iha =>
    simp only [exprLexOK, Bool.and_eq_true, renderToks, List.mem_append, List.mem_cons,
      List.not_mem_nil, or_false, ihr, iha]
    constructor
    · intro h tok htok
      rcases htok with (((htok | rfl | rfl | rfl) | htok) | rfl)
      · exact h.1.1 tok htok
      · exact tokWF_dot
      · exact h.1.2
      · exact tokWF_lparen
      · exact h.2 tok htok
      · exact tokWF_rparen
    · intro h
      exact ⟨⟨fun tok htok => h tok (Or.inl (Or.inl (Or.inl htok))),
        h _ (Or.inl (Or.inl (Or.inr (Or.inr (Or.inl rfl)))))⟩,
        fun tok htok => h tok (Or.inl (Or.inr htok))⟩
  | length recv ih =>
    simp only [exprLexOK, renderToks, List.mem_append, List.mem_cons, List.not_mem_nil, or_false, ih]
    constructor
    · intro h tok htok
      rcases htok with htok | rfl | rfl | rfl | rfl
      · exact h tok htok
      · exact tokWF_dot
      · exact tokWF_length
      · exact tokWF_lparen
      · exact tokWF_rparen
    · exact fun h tok htok => h tok (Or.inl htok)

theorem predLexOK_iff (p : PPred) : predLexOK p = true ↔ ∀ tok ∈ renderPred p, TokWF tok := by
  have hterms : (∀ tok ∈ renderTerms p.terms, TokWF tok) ↔ ∀ t ∈ p.terms, termLexOK t = true := by
    unfold renderTerms
    rw [forall_joinWith _ tokWF_comma]
    constructor
    · exact fun h t ht => (termLexOK_iff t).2 (h _ (List.mem_map.2 ⟨t, ht, rfl⟩))
    · intro h x hx
      obtain ⟨t, ht, rfl⟩ := List.mem_map.1 hx
      exact (termLexOK_iff t).1 (h t ht)
  simp only [predLexOK, Bool.and_eq_true, List.all_eq_true, renderPred, List.mem_cons, List.mem_append,
    List.not_mem_nil, or_false, ← hterms]
  constructor
  · intro h tok htok
    rcases htok with rfl | rfl | htok | rfl
    · exact h.1
    · exact tokWF_lparen
    · exact h.2 tok htok
    · exact tokWF_rparen
  · exact fun h => ⟨h _ (Or.inl rfl), fun tok htok => h tok (Or.inr (Or.inr (Or.inl htok)))⟩

theorem elemLexOK_iff (e : PElem) : elemLexOK e = true ↔ ∀ tok ∈ renderElem e, TokWF tok := by
  cases e with
  | pred p => exact predLexOK_iff p
  | expr e => exact exprLexOK_iff e

theorem bodyLexOK_iff (es : List PElem) : bodyLexOK es = true ↔ ∀ tok ∈ renderBody es, TokWF tok := by
  unfold renderBody bodyLexOK
  rw [forall_joinWith _ tokWF_comma, List.all_eq_true]
  constructor
  · intro h x hx
    obtain ⟨e, he, rfl⟩ := List.mem_map.1 hx
    exact (elemLexOK_iff e).1 (h e he)
  · exact fun h e he => (elemLexOK_iff e).2 (h _ (List.mem_map.2 ⟨e, he, rfl⟩))

theorem queriesLexOK_iff (qs : List (List PElem)) :
    queriesLexOK qs = true ↔ ∀ tok ∈ renderQueries qs, TokWF tok := by
  unfold renderQueries queriesLexOK
  rw [forall_joinWith _ tokWF_or, List.all_eq_true]
  constructor
  · intro h x hx
    obtain ⟨q, hq, rfl⟩ := List.mem_map.1 hx
    exact (bodyLexOK_iff q).1 (h q hq)
  · exact fun h q hq => (bodyLexOK_iff q).2 (h _ (List.mem_map.2 ⟨q, hq, rfl⟩))

/-- **`itemLexOK` is exact**: it holds if and only if every token of the rendering of the
statement is a well-formed token of the lexer round trip. -/
theorem itemLexOK_iff (it : PItem) : itemLexOK it = true ↔ ∀ tok ∈ renderItem it, TokWF tok := by
  cases it with
  | fact p => exact predLexOK_iff p
  | rule r =>
    simp only [itemLexOK, ruleLexOK, Bool.and_eq_true, renderItem, renderRule, List.mem_append,
      List.mem_cons, predLexOK_iff, bodyLexOK_iff]
    constructor
    · intro h tok htok
      rcases htok with htok | rfl | htok
      · exact h.1 tok htok
      · exact tokWF_arrow
      · exact h.2 tok htok
    · exact fun h => ⟨fun tok htok => h tok (Or.inl htok), fun tok htok => h tok (Or.inr (Or.inr htok))⟩
  | check c =>
    simp only [itemLexOK, renderItem, renderCheck, List.mem_cons, queriesLexOK_iff]
    constructor
    · intro h tok htok
      rcases htok with rfl | htok
      · exact tokWF_check
      · exact h tok htok
    · exact fun h tok htok => h tok (Or.inr htok)
  | policy p =>
    simp only [itemLexOK, renderItem, renderPolicy, List.mem_cons, queriesLexOK_iff]
    constructor
    · intro h tok htok
      rcases htok with rfl | htok
      · exact tokWF_policy p.allow
      · exact h tok htok
    · exact fun h tok htok => h tok (Or.inr htok)

/-- The same for statement lists (`;` after every statement). -/
theorem itemsLexOK_iff (its : List PItem) :
    (∀ it ∈ its, itemLexOK it = true) ↔ ∀ tok ∈ renderItems its, TokWF tok := by
  rw [forall_renderItems tokWF_semicolon]
  exact ⟨fun h it hit => (itemLexOK_iff it).1 (h it hit), fun h it hit => (itemLexOK_iff it).2 (h it hit)⟩

/-- Every token of a lexically well-formed statement is a well-formed token. -/
theorem renderItem_tokWF (it : PItem) (h : itemLexOK it = true) : ∀ t ∈ renderItem it, TokWF t :=
  (itemLexOK_iff it).1 h

/-- Every token of a list of lexically well-formed statements is a well-formed token. -/
theorem renderItems_tokWF (its : List PItem) (h : ∀ it ∈ its, itemLexOK it = true) :
    ∀ t ∈ renderItems its, TokWF t :=
  (itemsLexOK_iff its).1 h

/-! ## The lexer reads the text of a statement list back as its tokens -/

theorem lex_renderItems (its : List PItem) (h : ∀ it ∈ its, itemLexOK it = true) :
    lex (spell (renderItems its)) = some (renderItems its) :=
  lex_spell _ (renderItems_tokWF its h)

theorem lex_renderItem (it : PItem) (h : itemLexOK it = true) :
    lex (spell (renderItem it)) = some (renderItem it) :=
  lex_spell _ (renderItem_tokWF it h)

/-! ## Main theorems: characters → statements -/

/-- **C14, character level, block text.**  A list of well-formed statements without policies,
written out as text, is read back by `parseBlockText` (lexer, then parser with the model's
own fuel) as exactly the statements. -/
theorem parseBlockText_roundtrip (its : List PItem) (hwf : ∀ it ∈ its, C14Items.ItemWF it)
    (hlex : ∀ it ∈ its, itemLexOK it = true) (hnp : ∀ it ∈ its, isPolicy it = false) :
    parseBlockText (spell (renderItems its)) = some its := by
  rw [parseBlockText_spell _ (renderItems_tokWF its hlex)]
  exact C14Items.parseItems_render its hwf false (fun it hit => Or.inl (hnp it hit))

/-- **C14, character level, authorizer text**: facts, rules, checks and policies. -/
theorem parseAuthorizerText_roundtrip (its : List PItem) (hwf : ∀ it ∈ its, C14Items.ItemWF it)
    (hlex : ∀ it ∈ its, itemLexOK it = true) :
    parseAuthorizerText (spell (renderItems its)) = some its := by
  rw [parseAuthorizerText_spell _ (renderItems_tokWF its hlex)]
  exact C14Items.parseItems_render_authorizer its hwf

/-- **C14, character level, one statement** (`FromStringFact/Rule/Check/Policy`): no `;`. -/
theorem parseSingleText_roundtrip (it : PItem) (hwf : C14Items.ItemWF it) (hlex : itemLexOK it = true) :
    parseSingleText (spell (renderItem it)) = some it := by
  rw [parseSingleText_spell _ (renderItem_tokWF it hlex), C14Items.parseSingle_render it hwf]

/-- Block text with a policy in it is an error (the statements before the policy well
formed, those after it only lexically). -/
theorem parseBlockText_policy_rejected (pre : List PItem) (p : PPolicy) (post : List PItem)
    (hwf : ∀ it ∈ pre, C14Items.ItemWF it) (hnp : ∀ it ∈ pre, isPolicy it = false)
    (hlex : ∀ it ∈ pre ++ .policy p :: post, itemLexOK it = true) :
    parseBlockText (spell (renderItems (pre ++ .policy p :: post))) = none := by
  rw [parseBlockText_spell _ (renderItems_tokWF _ hlex)]
  exact C14Items.parseItems_policy_rejected pre p post hwf hnp

/-- The single-statement entry point does not take the terminator: the text of a one-element
LIST (`… ; `) is rejected by `parseSingleText`. -/
theorem parseSingleText_terminator_rejected (it : PItem) (hwf : C14Items.ItemWF it)
    (hlex : itemLexOK it = true) :
    parseSingleText (spell (renderItems [it])) = none := by
  have hl : ∀ i ∈ [it], itemLexOK i = true := by simpa using hlex
  rw [parseSingleText_spell _ (renderItems_tokWF [it] hl)]
  have hp := C14Items.parseItem_render it hwf true (Or.inr rfl) (.punct ';' :: [])
    (C14Items.itemStops_semicolon []) (fuelFor (renderItems [it]))
    (by simp only [fuelFor, renderItems, List.length_append, List.length_cons]; omega)
  have he : renderItems [it] = renderItem it ++ [.punct ';'] := rfl
  rw [he] at hp ⊢
  rw [hp]

/-! ## Non-vacuity -/

open C14Items in
example : itemLexOK exRule = true := by decide
open C14Items in
example : itemLexOK exCheck = true := by decide
open C14Items in
example : itemLexOK exPolicy = true := by decide
open C14Items in
example : itemLexOK exDeny = true := by decide
open C14Items in
example : itemLexOK exFact = true := by decide
open C14Items in
example : itemLexOK exNullary = true := by decide

theorem exBlock_lexOK : ∀ it ∈ C14Items.exBlock, itemLexOK it = true := by decide
theorem exAuthorizer_lexOK : ∀ it ∈ C14Items.exAuthorizer, itemLexOK it = true := by decide

/-- The text of the example block. -/
theorem exBlock_spelling :
    String.ofList (spell (renderItems C14Items.exBlock)) =
      "roles ( \"alice\" , [ \"admin\" , \"dev\" ] , hex:00ff , 2020-01-01T00:00:00Z , [ 7 ] ) ; now ( ) ; right ( $u , \"read\" ) <- user ( $u ) , owner ( $u , $f ) , $f . starts_with ( \"/a/\" ) || $u == \"admin\" ; check if resource ( $r ) , operation ( \"read\" ) or admin ( true ) , ! $x . contains ( [ 1 , 2 ] ) ; " := by
  decide +kernel

/-- **A concrete block, from its characters, through the theorem**: two facts, a rule with
a method call and `||`, a check with two alternative queries, `!`, a set. -/
theorem exBlock_text :
    parseBlockText "roles ( \"alice\" , [ \"admin\" , \"dev\" ] , hex:00ff , 2020-01-01T00:00:00Z , [ 7 ] ) ; now ( ) ; right ( $u , \"read\" ) <- user ( $u ) , owner ( $u , $f ) , $f . starts_with ( \"/a/\" ) || $u == \"admin\" ; check if resource ( $r ) , operation ( \"read\" ) or admin ( true ) , ! $x . contains ( [ 1 , 2 ] ) ; ".toList =
      some C14Items.exBlock := by
  have h := parseBlockText_roundtrip C14Items.exBlock (by decide) exBlock_lexOK (by decide)
  rw [← exBlock_spelling, String.toList_ofList]
  exact h

/-- The statements, spelled out (what `some exBlock` is). -/
example : C14Items.exBlock =
    [.fact ⟨"roles", [.str "alice".toList, .set [.str "admin".toList, .str "dev".toList],
        .bytes "00ff".toList, .date "2020-01-01T00:00:00Z".toList, .set [.int "7".toList]]⟩,
     .fact ⟨"now", []⟩,
     .rule ⟨⟨"right", [.var "u", .str "read".toList]⟩,
       [.pred ⟨"user", [.var "u"]⟩, .pred ⟨"owner", [.var "u", .var "f"]⟩,
        .expr (.bin .or (.method .pfx (.term (.var "f")) (.term (.str "/a/".toList)))
          (.bin .eq (.term (.var "u")) (.term (.str "admin".toList))))]⟩,
     .check ⟨[[.pred ⟨"resource", [.var "r"]⟩, .pred ⟨"operation", [.str "read".toList]⟩],
       [.pred ⟨"admin", [.bool true]⟩,
        .expr (.neg (.method .contains (.term (.var "x")) (.term (.set [.int "1".toList, .int "2".toList]))))]]⟩] :=
  rfl

/-- The authorizer text (with `allow if` / `deny if`, a parameter, `.length()`, arithmetic
and parentheses), through the theorem. -/
theorem exAuthorizer_text :
    parseAuthorizerText "roles ( \"alice\" , [ \"admin\" , \"dev\" ] , hex:00ff , 2020-01-01T00:00:00Z , [ 7 ] ) ; now ( ) ; right ( $u , \"read\" ) <- user ( $u ) , owner ( $u , $f ) , $f . starts_with ( \"/a/\" ) || $u == \"admin\" ; check if resource ( $r ) , operation ( \"read\" ) or admin ( true ) , ! $x . contains ( [ 1 , 2 ] ) ; allow if user ( $u ) , $u == {name} or true ; deny if $t . length ( ) + 1 <= 2 * ( $n - 3 ) ; ".toList =
      some C14Items.exAuthorizer := by
  have h := parseAuthorizerText_roundtrip C14Items.exAuthorizer (by decide) exAuthorizer_lexOK
  have e : String.ofList (spell (renderItems C14Items.exAuthorizer)) = "roles ( \"alice\" , [ \"admin\" , \"dev\" ] , hex:00ff , 2020-01-01T00:00:00Z , [ 7 ] ) ; now ( ) ; right ( $u , \"read\" ) <- user ( $u ) , owner ( $u , $f ) , $f . starts_with ( \"/a/\" ) || $u == \"admin\" ; check if resource ( $r ) , operation ( \"read\" ) or admin ( true ) , ! $x . contains ( [ 1 , 2 ] ) ; allow if user ( $u ) , $u == {name} or true ; deny if $t . length ( ) + 1 <= 2 * ( $n - 3 ) ; " := by
    decide +kernel
  rw [← e, String.toList_ofList]
  exact h

/-- The same text is not a block: it has policies. -/
example : parseBlockText (spell (renderItems C14Items.exAuthorizer)) = none :=
  parseBlockText_policy_rejected C14Items.exBlock _ [C14Items.exDeny] (by decide) (by decide) exAuthorizer_lexOK

/-- One statement, without `;`, through the theorem. -/
theorem exDeny_text :
    parseSingleText "deny if $t . length ( ) + 1 <= 2 * ( $n - 3 ) ".toList = some C14Items.exDeny := by
  have h := parseSingleText_roundtrip C14Items.exDeny (by decide) (by decide)
  have e : String.ofList (spell (renderItem C14Items.exDeny)) = "deny if $t . length ( ) + 1 <= 2 * ( $n - 3 ) " := by
    decide +kernel
  rw [← e, String.toList_ofList]
  exact h

/-- Evaluation agrees with the theorems (by computation in the kernel, independently of them;
the statements are compared through their rendering: syntax trees have no decidable equality). -/
example : (parseBlockText (spell (renderItems C14Items.exBlock))).map renderItems =
    some (renderItems C14Items.exBlock) := by decide +kernel
example : (parseSingleText (spell (renderItem C14Items.exDeny))).map renderItem =
    some (renderItem C14Items.exDeny) := by decide +kernel

/-! ## What is excluded, and why

`itemLexOK` cannot be dropped (each statement below is `ItemWF`): the text is rejected, or —
worse — accepted as a DIFFERENT statement. -/

/-- A predicate named like a Function literal: the lexer gives `.func "length"`. -/
example : C14Items.ItemWF (.fact ⟨"length", []⟩) ∧ itemLexOK (.fact ⟨"length", []⟩) = false ∧
    parseSingleText (spell (renderItem (.fact ⟨"length", []⟩))) = none := by
  refine ⟨by decide, by decide, by decide +kernel⟩

/-- …like a Bool literal, or starting with an upper-case letter. -/
example : parseSingleText (spell (renderItem (.fact ⟨"true", []⟩))) = none := by decide +kernel
example : parseSingleText (spell (renderItem (.fact ⟨"Abc", []⟩))) = none := by decide +kernel


/-- In the OTHER direction `itemLexOK` is sufficient, not necessary, in one place: `identOK`
excludes the names `check`, `allow`, `deny` because as free-standing tokens they may be
followed by `if…` (`C14Lexer`: `check if` is one Keyword token).  A predicate name is always
followed by `(`, so these three names do read back; the theorems do not cover them. -/
example : predLexOK ⟨"check", []⟩ = false ∧
    parseSingleText (spell (renderItem (.fact ⟨"check", [.var "x"]⟩))) = some (.fact ⟨"check", [.var "x"]⟩) := by
  refine ⟨by decide, by rfl⟩

/-- An "integer" that is spelled like a date comes back as a date. -/
example : C14Items.ItemWF (.fact ⟨"a", [.int "2020-01-01T00:00:00Z".toList]⟩) ∧
    parseSingleText (spell (renderItem (.fact ⟨"a", [.int "2020-01-01T00:00:00Z".toList]⟩))) =
      some (.fact ⟨"a", [.date "2020-01-01T00:00:00Z".toList]⟩) := by
  refine ⟨by decide, by rfl⟩

/-- A string with a quote inside ends early; one string can come back as two. -/
example : parseSingleText (spell (renderItem (.fact ⟨"a", [.str ['"']]⟩))) = none := by decide +kernel
example : parseSingleText (spell (renderItem (.fact ⟨"a", [.str "x\" , \"y".toList]⟩))) =
    some (.fact ⟨"a", [.str ['x'], .str ['y']]⟩) := by rfl

/-- A variable name with other characters: two different trees, the same text. -/
example : parseSingleText (spell (renderItem (.fact ⟨"a", [.var "x , $y"]⟩))) =
    some (.fact ⟨"a", [.var "x", .var "y"]⟩) := by rfl

/-- An odd number of hex digits: the last digit is read as an integer, the parser stops. -/
example : parseSingleText (spell (renderItem (.fact ⟨"a", [.bytes "abc".toList]⟩))) = none := by decide +kernel

/-- `ItemWF` cannot be dropped either (the statement is `itemLexOK`): without parentheses the
tree `(1 + 2) * 3` is written `1 + 2 * 3` and comes back as `1 + (2 * 3)`. -/
example :
    itemLexOK (.check ⟨[[.expr (.bin .mul (.bin .add (.term (.int ['1'])) (.term (.int ['2']))) (.term (.int ['3'])))]]⟩) = true ∧
    parseSingleText (spell (renderItem
      (.check ⟨[[.expr (.bin .mul (.bin .add (.term (.int ['1'])) (.term (.int ['2']))) (.term (.int ['3'])))]]⟩))) =
      some (.check ⟨[[.expr (.bin .add (.term (.int ['1'])) (.bin .mul (.term (.int ['2'])) (.term (.int ['3']))))]]⟩) := by
  refine ⟨by decide, by rfl⟩

/-- Not everything is lexically well formed, constructor by constructor. -/
example : termLexOK (.param "") = false := by decide
example : termLexOK (.var "a-b") = false := by decide
example : termLexOK (.int []) = false := by decide
example : termLexOK (.int "-1".toList) = false := by decide
example : termLexOK (.str "a\"b".toList) = false := by decide
example : termLexOK (.date "2020-01-01".toList) = false := by decide
example : termLexOK (.date "2020-01-01T00:00:00+02".toList) = false := by decide
example : termLexOK (.bytes "0".toList) = false := by decide
example : termLexOK (.bytes "0g".toList) = false := by decide
example : termLexOK (.set [.int ['1'], .var ""]) = false := by decide
example : exprLexOK (.method .add (.term (.var "x")) (.term (.var "y"))) = false := by decide
example : predLexOK ⟨"hex:ab", []⟩ = false := by decide
example : predLexOK ⟨"", []⟩ = false := by decide

/-- …and much is: every method and every infix operator, dates with fraction and zone, empty
byte strings, names with `:`, predicate names that merely START like a literal. -/
example : ∀ op ∈ [BinOp.contains, .pfx, .sfx, .regex, .intersection, .union],
    exprLexOK (.method op (.term (.var "x")) (.term (.var "y"))) = true := by decide
example : ∀ op : BinOp, exprLexOK (.bin op (.term (.var "x")) (.term (.var "y"))) = true := by
  intro op; cases op <;> decide
example : termLexOK (.date "2020-01-01T00:00:00.125+02:00".toList) = true := by decide
example : termLexOK (.bytes []) = true := by decide
example : predLexOK ⟨"lengthy", [.var "a:b", .param "p_1", .set [.str "x y".toList, .bool false]]⟩ = true := by decide
example : predLexOK ⟨"or", []⟩ = true := by decide
example : predLexOK ⟨"check_if", []⟩ = true := by decide

end Biscuit.C14Text
