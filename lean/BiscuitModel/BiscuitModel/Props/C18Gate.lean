/-
Props/C18Gate — the declared-symbols gate of `LoadPolicies` (D26, fix 9b20311).

A serialized authorizer ("snapshot", `SerializePolicies` / `LoadPolicies`, authorizer.go)
carries its own symbol table and facts, rules, checks and policies written with symbol
INDEXES. Before 9b20311 `LoadPolicies` accepted a snapshot whose content points outside
every table (D26): such an index prints as "<invalid symbol N>" and would take the meaning
of whatever string lands at that index later. Since the fix `loadPoliciesV2` builds the
table it is going to use — `baseSymbols.Clone()`, which for an authorizer is the default
table only, `Extend`ed by the snapshot's table —, puts the snapshot's facts, rules, checks
and policy queries into a scratch `Block` and hands it to `checkDeclaredSymbols`
(builder.go), the very function `Unmarshal`, `New` and `Append` apply to token blocks
(Props/C02Gate, Props/C02Wire). Nothing of the authorizer is changed before the answer.

Model: `snapshotDeclared` (Proofs/SnapshotGate) is that check, written with the gate
predicates of Model/Unmarshal (`predDeclared`, `ruleDeclared`, `extendTable`);
`snapshotDeclared_as_block` says it IS `blockDeclared` of the scratch block.
`resolveSnapshot` (Model/Symbols) is the model's independent reading of the format.

What is proved:

* `resolveSnapshot_some_declared`: whatever the model's reading accepts passes the gate —
  the gate refuses nothing that has a meaning.
* `resolveSnapshot_iff`: the reading accepts EXACTLY the snapshots that pass the gate and
  have the right shape (`snapshotShapeOK`: version 3, a saved table without default
  symbols and repeats, no variable inside a set, ground facts, known operator codes and
  policy kinds — none of these looks at an index). So inside the shape the gate is not only
  necessary but sufficient: the decision of `checkDeclaredSymbols` is the decision of the
  specification.
* `built_snapshot_declared`: the gate never refuses what `SerializePolicies` writes, for
  all contents (`buildSnapshotMsg`).
* the D26 witnesses, refused by both; an honest snapshot, accepted by both.

About the table. `resolveSnapshot` reads indexes through `m.symbols` as saved, the gate
through `extendTable [] m.symbols` as `Extend` rebuilds it. They differ exactly when the
saved table holds a default symbol or a string twice (`Extend` skips those, and every later
entry moves down). `resolveSnapshot` refuses such tables outright (`freshSymbols`), so the
model does not say what such a snapshot means; `shifted_table_*` below show the two
readings of the same index and that the gate follows the table the code will really use.
-/
import BiscuitModel.Proofs.SnapshotGate
import BiscuitModel.Props.C18

namespace Biscuit.C18Gate
open Biscuit Biscuit.Wire

/-! ## 1. The gate is `checkDeclaredSymbols` on the scratch block -/

/-- The scratch `Block` of `loadPoliciesV2`: the snapshot's facts and rules, its checks,
and one more check per policy holding the policy's queries. (Symbols, context and version
of the scratch block are not looked at by `checkDeclaredSymbols`.) -/
def scratchBlock (m : PoliciesMsg) : BlockMsg :=
  { symbols := [], context := none, version := none, facts := m.facts, rules := m.rules,
    checks := m.checks ++ m.policies.map fun p => { queries := p.queries } }

/-- `snapshotDeclared` is the block gate of Model/Unmarshal (`blockDeclared`, the model of
`checkDeclaredSymbols`) applied to the scratch block over the default table extended by the
snapshot's table — literally what the repaired code computes. -/
theorem snapshotDeclared_as_block (m : PoliciesMsg) :
    snapshotDeclared m = blockDeclared (extendTable [] m.symbols) (scratchBlock m) := by
  simp only [snapshotDeclared, snapshotTable, blockDeclared, scratchBlock, List.all_append, List.all_map,
    Bool.and_assoc]
  rfl

/-- Unfolded: every fact, every rule, every check query and every policy query. -/
theorem snapshotDeclared_iff (m : PoliciesMsg) :
    snapshotDeclared m = true ↔
      (∀ f ∈ m.facts, predDeclared (extendTable [] m.symbols) f = true) ∧
      (∀ r ∈ m.rules, ruleDeclared (extendTable [] m.symbols) r = true) ∧
      (∀ c ∈ m.checks, ∀ q ∈ c.queries, ruleDeclared (extendTable [] m.symbols) q = true) ∧
      (∀ p ∈ m.policies, ∀ q ∈ p.queries, ruleDeclared (extendTable [] m.symbols) q = true) := by
  simp only [snapshotDeclared, snapshotTable, Bool.and_eq_true, List.all_eq_true, and_assoc]

/-! ## 2. What the reading accepts passes the gate -/

/-- **The gate refuses nothing that has a meaning.** If the model's reading of the format
gives content for a snapshot, `checkDeclaredSymbols` does not fire on it: `LoadPolicies`
since 9b20311 still loads every well-formed snapshot. No side condition: the reading
accepts only tables that `Extend` adopts unchanged, so both sides speak of the same table. -/
theorem resolveSnapshot_some_declared (m : PoliciesMsg) (snap : Snapshot)
    (h : resolveSnapshot m = some snap) : snapshotDeclared m = true := by
  have hs := resolveSnapshot_isSome m
  rw [h, Option.isSome_some] at hs
  exact (Bool.and_eq_true_iff.mp hs.symm).2

/-- Contrapositive: what the gate refuses has no reading. An index that no table declares
(D26) is an error of the format, not a string. -/
theorem undeclared_has_no_reading (m : PoliciesMsg) (h : snapshotDeclared m = false) :
    resolveSnapshot m = none := by
  cases hr : resolveSnapshot m with
  | none => rfl
  | some snap => rw [resolveSnapshot_some_declared m snap hr] at h; cases h

/-- The reading also implies the shape conditions. -/
theorem resolveSnapshot_some_shape (m : PoliciesMsg) (snap : Snapshot)
    (h : resolveSnapshot m = some snap) : snapshotShapeOK m = true := by
  have hs := resolveSnapshot_isSome m
  rw [h, Option.isSome_some] at hs
  exact (Bool.and_eq_true_iff.mp hs.symm).1

/-- What the reading accepts is read through the table the code builds: there `Extend`
adopts the saved table as it is. -/
theorem resolveSnapshot_some_table (m : PoliciesMsg) (snap : Snapshot)
    (h : resolveSnapshot m = some snap) : extendTable [] m.symbols = m.symbols := by
  have hs := resolveSnapshot_some_shape m snap h
  simp only [snapshotShapeOK, Bool.and_eq_true] at hs
  exact snapshotTable_of_fresh m hs.1.1.1.1.2

/-! ## 3. The converse: inside the shape, the gate decides -/

/-- **The reading accepts exactly: right shape and inside the gate.** `snapshotShapeOK`
collects the conditions that do not depend on any index: version 3 (`LoadPolicies`'
version switch), a saved table that `Extend` adopts unchanged (the model's domain), sets
without variables (converters_v2.go), ground facts, operator codes and policy kinds of the
published enums. Given those, a snapshot has a reading if and only if
`checkDeclaredSymbols` lets it through. -/
theorem resolveSnapshot_iff (m : PoliciesMsg) :
    resolveSnapshot m ≠ none ↔ snapshotShapeOK m = true ∧ snapshotDeclared m = true := by
  rw [← Bool.and_eq_true_iff, ← resolveSnapshot_isSome, Option.isSome_iff_ne_none]

/-- The converse direction on its own: shape and gate give content. -/
theorem declared_shape_resolves (m : PoliciesMsg) (hs : snapshotShapeOK m = true)
    (hd : snapshotDeclared m = true) : ∃ snap, resolveSnapshot m = some snap := by
  have h := (resolveSnapshot_iff m).mpr ⟨hs, hd⟩
  cases hr : resolveSnapshot m with
  | none => exact absurd hr h
  | some snap => exact ⟨snap, rfl⟩

/-- Inside the shape a refusal of the reading is a refusal of the gate: the only way a
well-shaped snapshot fails to have a meaning is an undeclared index. -/
theorem shape_refused_iff_undeclared (m : PoliciesMsg) (hs : snapshotShapeOK m = true) :
    resolveSnapshot m = none ↔ snapshotDeclared m = false := by
  constructor
  · intro h
    cases hd : snapshotDeclared m with
    | false => rfl
    | true => exact absurd h ((resolveSnapshot_iff m).mpr ⟨hs, hd⟩)
  · exact undeclared_has_no_reading m

/-! ## 4. The gate never refuses what `SerializePolicies` writes -/

/-- **For all contents**: facts, rules, checks and policies interned through one table as
`SerializePolicies` does, written with the whole table and version 3, pass
`checkDeclaredSymbols` when `LoadPolicies` reads them back. (`snapshot_build_then_resolve`
of Props/C18 says the reading gives back the content; this says the gate is silent.) -/
theorem built_snapshot_declared (snap : Snapshot) : snapshotDeclared (buildSnapshotMsg snap) = true :=
  resolveSnapshot_some_declared _ snap (C18.snapshot_build_then_resolve snap)

/-- … and have the right shape; in particular the table `SerializePolicies` writes holds no
default symbol and no string twice, so `Extend` rebuilds exactly the writer's table. -/
theorem built_snapshot_shape (snap : Snapshot) : snapshotShapeOK (buildSnapshotMsg snap) = true :=
  resolveSnapshot_some_shape _ snap (C18.snapshot_build_then_resolve snap)

theorem built_snapshot_table (snap : Snapshot) :
    extendTable [] (buildSnapshotMsg snap).symbols = (buildSnapshotMsg snap).symbols :=
  resolveSnapshot_some_table _ snap (C18.snapshot_build_then_resolve snap)

/-! ## 5. Witnesses -/

def emptyMsg : PoliciesMsg :=
  { symbols := [], version := some 3, facts := [], rules := [], checks := [], policies := [] }

def qOf (body : List IPred) : IRule := { head := { name := 27, terms := [] }, body := body, exprs := [] }

/-- D26, first witness: version 3, no symbols, one fact whose predicate NAME is index 1024,
the first index of a table that is empty. -/
def d26Name : PoliciesMsg := { emptyMsg with facts := [{ name := 1024, terms := [] }] }

/-- D26, second witness: a string term far outside, 2^63 + 5 (the field is a uint64). -/
def d26Far : PoliciesMsg :=
  { emptyMsg with facts := [{ name := 0, terms := [.atom (.string (2^63 + 5))] }] }

/-- D26, third witness: the first index after a one-entry table. -/
def d26Next : PoliciesMsg :=
  { emptyMsg with symbols := [strBytes "alice"], facts := [{ name := 1025, terms := [.atom (.string 1024)] }] }

/-- An index between the default table (28 entries) and 1024. -/
def d26Gap : PoliciesMsg := { emptyMsg with facts := [{ name := 28, terms := [] }] }

/-- The other places an index can sit: a variable number of a rule, an element of a set,
an operand of an expression, a check query, a policy query. -/
def d26Var : PoliciesMsg :=
  { emptyMsg with rules := [{ head := { name := 4, terms := [.atom (.variable 1024)] },
                              body := [{ name := 10, terms := [.atom (.variable 1024)] }], exprs := [] }] }
def d26Set : PoliciesMsg :=
  { emptyMsg with symbols := [strBytes "alice"],
                  facts := [{ name := 10, terms := [.set [.string 1024, .string 1025]] }] }
def d26Expr : PoliciesMsg :=
  { emptyMsg with
    checks := [{ queries := [{ head := { name := 27, terms := [] },
                               body := [{ name := 10, terms := [.atom (.integer 1)] }],
                               exprs := [[.value (.atom (.string 1024)), .unary 2]] }] }] }
def d26Check : PoliciesMsg :=
  { emptyMsg with checks := [{ queries := [qOf [{ name := 1024, terms := [] }]] }] }
def d26Policy : PoliciesMsg :=
  { emptyMsg with policies := [{ kind := 0, queries := [qOf [{ name := 10, terms := [.atom (.string 1024)] }]] }] }

/-- **D26**: each of these is refused by the gate — `LoadPolicies` now answers
`ErrUndeclaredSymbol` — and has no reading. -/
theorem d26_gate_refuses :
    snapshotDeclared d26Name = false ∧ snapshotDeclared d26Far = false ∧
    snapshotDeclared d26Next = false ∧ snapshotDeclared d26Gap = false ∧
    snapshotDeclared d26Var = false ∧ snapshotDeclared d26Set = false ∧
    snapshotDeclared d26Expr = false ∧ snapshotDeclared d26Check = false ∧
    snapshotDeclared d26Policy = false := by decide +kernel

theorem d26_no_reading :
    resolveSnapshot d26Name = none ∧ resolveSnapshot d26Far = none ∧
    resolveSnapshot d26Next = none ∧ resolveSnapshot d26Gap = none ∧
    resolveSnapshot d26Var = none ∧ resolveSnapshot d26Set = none ∧
    resolveSnapshot d26Expr = none ∧ resolveSnapshot d26Check = none ∧
    resolveSnapshot d26Policy = none := by decide +kernel

/-- The witnesses have the right shape: the undeclared index is their only fault. -/
theorem d26_shape_ok :
    snapshotShapeOK d26Name = true ∧ snapshotShapeOK d26Far = true ∧
    snapshotShapeOK d26Next = true ∧ snapshotShapeOK d26Gap = true ∧
    snapshotShapeOK d26Var = true ∧ snapshotShapeOK d26Set = true ∧
    snapshotShapeOK d26Expr = true ∧ snapshotShapeOK d26Check = true ∧
    snapshotShapeOK d26Policy = true := by decide +kernel

/-- Declaring the string repairs the third witness: same content, a two-entry table. -/
theorem d26Next_repaired :
    snapshotDeclared { d26Next with symbols := [strBytes "alice", strBytes "knows"] } = true ∧
    resolveSnapshot { d26Next with symbols := [strBytes "alice", strBytes "knows"] } =
      some { facts := [{ name := strBytes "knows", args := [.atom (.str (strBytes "alice"))] }],
             rules := [], checks := [], policies := [] } := by decide +kernel

/-! An honest snapshot: a fact with a fresh string, a rule with a variable, a set and an
expression, a check, an allow and a deny policy. -/

def sAlice : Bytes := strBytes "alice"
def vU : Bytes := strBytes "u"

/-- `user("alice")` -/
def fUser : DFact := { name := strBytes "user", args := [.atom (.str sAlice)] }

/-- `right($u, "read") <- user($u), !!["alice", "bob"].contains($u)` (operands in the
code's postfix order). -/
def rRight : DRule :=
  { head := { name := strBytes "right", terms := [.var vU, .const (.atom (.str (strBytes "read")))] },
    body := [{ name := strBytes "user", terms := [.var vU] }],
    exprs := [[.value (.var vU), .value (.const (.set [.str sAlice, .str (strBytes "bob")])),
               .binary .contains, .unary .negate, .unary .negate]] }

/-- `right("alice", "read")` as a query. -/
def qRight : DRule :=
  { head := { name := strBytes "query", terms := [] },
    body := [{ name := strBytes "right",
               terms := [.const (.atom (.str sAlice)), .const (.atom (.str (strBytes "read")))] }],
    exprs := [] }

/-- `user($u)` as a query. -/
def qAny : DRule :=
  { head := { name := strBytes "query", terms := [] },
    body := [{ name := strBytes "user", terms := [.var vU] }], exprs := [] }

def snapH : Snapshot :=
  { facts := [fUser], rules := [rRight], checks := [{ queries := [qRight] }],
    policies := [{ kind := .allow, queries := [qRight] }, { kind := .deny, queries := [qAny] }] }

def iqRight : IRule :=
  qOf [{ name := 4, terms := [.atom (.string 1024), .atom (.string 0)] }]

/-- The message on the wire: table `["alice", "u", "bob"]`; `user` = 10, `right` = 4,
`read` = 0, `query` = 27 are default symbols. -/
def msgH : PoliciesMsg :=
  { symbols := [sAlice, vU, strBytes "bob"],
    version := some 3,
    facts := [{ name := 10, terms := [.atom (.string 1024)] }],
    rules := [{ head := { name := 4, terms := [.atom (.variable 1025), .atom (.string 0)] },
                body := [{ name := 10, terms := [.atom (.variable 1025)] }],
                exprs := [[.value (.atom (.variable 1025)), .value (.set [.string 1024, .string 1026]),
                           .binary 5, .unary 0, .unary 0]] }],
    checks := [{ queries := [iqRight] }],
    policies := [{ kind := 0, queries := [iqRight] },
                 { kind := 1, queries := [qOf [{ name := 10, terms := [.atom (.variable 1025)] }]] }] }

/-- It is what `SerializePolicies` writes for that content … -/
theorem honest_is_built : buildSnapshotMsg snapH = msgH := by decide +kernel

/-- … the gate lets it through, it has the right shape, and it reads back as the content. -/
theorem honest_accepted :
    snapshotDeclared msgH = true ∧ snapshotShapeOK msgH = true ∧ resolveSnapshot msgH = some snapH := by
  decide +kernel

/-- The gate is sharp on it: with the last table entry removed ("bob", used once inside a
set of an expression) the same content is refused by both. -/
theorem honest_minus_one_symbol :
    snapshotDeclared { msgH with symbols := [sAlice, vU] } = false ∧
    resolveSnapshot { msgH with symbols := [sAlice, vU] } = none := by decide +kernel

/-! The two tables. A saved table with a default symbol ("read") in front: the saved list
has "x" at 1025, the table `Extend` builds has it at 1024 and nothing at 1025. -/

def shiftedTable : List Bytes := [strBytes "read", strBytes "x"]

theorem shifted_table_differs :
    extendTable [] shiftedTable = [strBytes "x"] ∧
    symStr shiftedTable 1025 = some (strBytes "x") ∧
    symStr (extendTable [] shiftedTable) 1025 = none ∧
    symStr (extendTable [] shiftedTable) 1024 = some (strBytes "x") := by decide +kernel

/-- Content written against the saved list (name 1025): the gate, which follows the table
the authorizer will really hold, refuses it; the model's reading refuses the table. -/
theorem shifted_table_refused :
    snapshotDeclared { emptyMsg with symbols := shiftedTable, facts := [{ name := 1025, terms := [] }] } = false ∧
    resolveSnapshot { emptyMsg with symbols := shiftedTable, facts := [{ name := 1025, terms := [] }] } = none := by
  decide +kernel

/-- Content written against the table `Extend` builds (name 1024): the gate lets it
through — the code loads it —, while the model gives no reading because it refuses the
table as such (`snapshotShapeOK` fails on `freshSymbols`, not on an index). This is the one
place where the gate accepts and `resolveSnapshot` does not: outside the model's domain,
and the reason `resolveSnapshot_iff` carries `snapshotShapeOK`. The same for a repeat. -/
theorem shifted_table_outside_model :
    snapshotDeclared { emptyMsg with symbols := shiftedTable, facts := [{ name := 1024, terms := [] }] } = true ∧
    snapshotShapeOK { emptyMsg with symbols := shiftedTable, facts := [{ name := 1024, terms := [] }] } = false ∧
    resolveSnapshot { emptyMsg with symbols := shiftedTable, facts := [{ name := 1024, terms := [] }] } = none ∧
    extendTable [] [strBytes "x", strBytes "x", strBytes "y"] = [strBytes "x", strBytes "y"] ∧
    freshSymbols [] [strBytes "x", strBytes "x", strBytes "y"] = false := by decide +kernel

/-- The shape conditions are independent of the gate: declared everywhere, yet no reading —
an unknown policy kind, an unknown operator code, a variable in a fact, a variable inside a
set, another version. -/
theorem shape_faults_pass_gate :
    (snapshotDeclared { msgH with policies := [{ kind := 2, queries := [iqRight] }] } = true ∧
     resolveSnapshot { msgH with policies := [{ kind := 2, queries := [iqRight] }] } = none) ∧
    (snapshotDeclared { msgH with checks := [{ queries := [{ iqRight with exprs := [[.binary 17]] }] }] } = true ∧
     resolveSnapshot { msgH with checks := [{ queries := [{ iqRight with exprs := [[.binary 17]] }] }] } = none) ∧
    (snapshotDeclared { msgH with facts := [{ name := 10, terms := [.atom (.variable 1025)] }] } = true ∧
     resolveSnapshot { msgH with facts := [{ name := 10, terms := [.atom (.variable 1025)] }] } = none) ∧
    (snapshotDeclared { msgH with facts := [{ name := 10, terms := [.set [.variable 1025]] }] } = true ∧
     resolveSnapshot { msgH with facts := [{ name := 10, terms := [.set [.variable 1025]] }] } = none) ∧
    (snapshotDeclared { msgH with version := some 4 } = true ∧
     resolveSnapshot { msgH with version := some 4 } = none) := by decide +kernel

end Biscuit.C18Gate

#print axioms Biscuit.C18Gate.snapshotDeclared_as_block
#print axioms Biscuit.C18Gate.snapshotDeclared_iff
#print axioms Biscuit.C18Gate.resolveSnapshot_some_declared
#print axioms Biscuit.C18Gate.undeclared_has_no_reading
#print axioms Biscuit.C18Gate.resolveSnapshot_some_shape
#print axioms Biscuit.C18Gate.resolveSnapshot_some_table
#print axioms Biscuit.C18Gate.resolveSnapshot_iff
#print axioms Biscuit.C18Gate.declared_shape_resolves
#print axioms Biscuit.C18Gate.shape_refused_iff_undeclared
#print axioms Biscuit.C18Gate.built_snapshot_declared
#print axioms Biscuit.C18Gate.built_snapshot_shape
#print axioms Biscuit.C18Gate.built_snapshot_table
#print axioms Biscuit.C18Gate.d26_gate_refuses
#print axioms Biscuit.C18Gate.d26_no_reading
#print axioms Biscuit.C18Gate.d26_shape_ok
#print axioms Biscuit.C18Gate.d26Next_repaired
#print axioms Biscuit.C18Gate.honest_is_built
#print axioms Biscuit.C18Gate.honest_accepted
#print axioms Biscuit.C18Gate.honest_minus_one_symbol
#print axioms Biscuit.C18Gate.shifted_table_differs
#print axioms Biscuit.C18Gate.shifted_table_refused
#print axioms Biscuit.C18Gate.shifted_table_outside_model
#print axioms Biscuit.C18Gate.shape_faults_pass_gate
#print axioms Biscuit.resolveSnapshot_isSome
#print axioms Biscuit.extendTable_of_fresh
