/-
Props/C14Items — the round trip of C14 lifted from expressions to whole STATEMENTS
(facts, rules, checks, policies) and statement lists, token level.

`Model/Render.renderItem(s)` is the reference rendering of a statement (list); the theorems
say that `Model/Grammar.parseItem(s)` reads it back, for every well-formed statement, with
the model's own fuel (`fuelFor`), and that the block grammar (`allowPolicy = false`) has no
policies.

What "well formed" has to say, and what it does NOT have to say (each proved below):

* predicate names: NOTHING. `parsePred` takes the string of any `.ident` token, also `or`
  (`pred_named_or`); which strings the LEXER turns into `.ident` is a character-level
  question, outside this file (as in C14).
* expression elements: `C14.WF` and NOTHING ELSE. `parseElem` reads "identifier `(`" as a
  predicate, but no rendered expression starts with an identifier
  (`expr_never_starts_like_pred`, for ALL trees, well formed or not).
* bodies and query lists: NON-EMPTY. An empty rule body and a check without a query are
  rejected (`empty_body_rejected`, `empty_check_rejected`).
* what follows a statement: `ItemStops` (decidable, uniform) or, per statement kind and
  only about the one token the parser looks at, `Grammar.itemFollow`.
* `;` TERMINATES every statement of a list, also the last (`missing_terminator_rejected`).
-/
import BiscuitModel.Proofs.GrammarItems
import BiscuitModel.Props.C14

namespace Biscuit.C14Items
open Biscuit Biscuit.Grammar Biscuit.Printer Biscuit.Render Biscuit.C14

/-! ## Well-formedness -/

/-- `parsePred` requires nothing of the name (any `.ident` token); every argument is a
well-formed term (a non-empty, non-nested set, or an atom). -/
def PredWF (p : PPred) : Prop := ∀ t ∈ p.terms, TermWF t

/-- No side condition on expression elements: see `expr_never_starts_like_pred`. -/
def ElemWF : PElem → Prop
  | .pred p => PredWF p
  | .expr e => WF e

/-- A rule body / one query: at least one element (`empty_body_rejected`). -/
def BodyWF (body : List PElem) : Prop := body ≠ [] ∧ ∀ e ∈ body, ElemWF e

def RuleWF (r : PRule) : Prop := PredWF r.head ∧ BodyWF r.body

/-- At least one query, every query a well-formed (non-empty) body. -/
def QueriesWF (qs : List (List PElem)) : Prop := qs ≠ [] ∧ ∀ q ∈ qs, BodyWF q

def CheckWF (c : PCheck) : Prop := QueriesWF c.queries

def PolicyWF (p : PPolicy) : Prop := QueriesWF p.queries

def ItemWF : PItem → Prop
  | .fact p => PredWF p
  | .rule r => RuleWF r
  | .check c => CheckWF c
  | .policy p => PolicyWF p

/-! ### All of them are decidable -/

instance decAtomTermWF : (t : PTerm) → Decidable (AtomTermWF t)
  | .set _ => inferInstanceAs (Decidable False)
  | .param _ | .var _ | .int _ | .negInt _ | .str _ | .date _ | .bytes _ | .bool _ =>
    inferInstanceAs (Decidable True)

instance decTermWF : (t : PTerm) → Decidable (TermWF t)
  | .set elts => inferInstanceAs (Decidable (elts ≠ [] ∧ ∀ t ∈ elts, AtomTermWF t))
  | .param _ | .var _ | .int _ | .negInt _ | .str _ | .date _ | .bytes _ | .bool _ =>
    inferInstanceAs (Decidable True)

instance decWF : (e : PExpr) → Decidable (WF e)
  | .term t => inferInstanceAs (Decidable (TermWF t))
  | .paren e => decWF e
  | .neg e => have := decWF e; inferInstanceAs (Decidable (WF e ∧ level e ≥ 6))
  | .bin op l r =>
    have := decWF l; have := decWF r
    inferInstanceAs (Decidable (WF l ∧ WF r ∧ level (.bin op l r) ≤ 4 ∧
      (if level (.bin op l r) = 2 then level l ≥ 3 ∧ level r ≥ 3
       else level l ≥ level (.bin op l r) ∧ level r > level (.bin op l r))))
  | .method op recv arg =>
    have := decWF recv; have := decWF arg
    inferInstanceAs (Decidable (isMethodOp op = true ∧ WF recv ∧ WF arg ∧ level recv ≥ 6))
  | .length recv => have := decWF recv; inferInstanceAs (Decidable (WF recv ∧ level recv ≥ 6))

instance decPredWF (p : PPred) : Decidable (PredWF p) :=
  inferInstanceAs (Decidable (∀ t ∈ p.terms, TermWF t))

instance decElemWF : (e : PElem) → Decidable (ElemWF e)
  | .pred p => decPredWF p
  | .expr e => decWF e

instance decBodyWF (body : List PElem) : Decidable (BodyWF body) :=
  inferInstanceAs (Decidable (body ≠ [] ∧ ∀ e ∈ body, ElemWF e))

instance decRuleWF (r : PRule) : Decidable (RuleWF r) :=
  inferInstanceAs (Decidable (PredWF r.head ∧ BodyWF r.body))

instance decQueriesWF (qs : List (List PElem)) : Decidable (QueriesWF qs) :=
  inferInstanceAs (Decidable (qs ≠ [] ∧ ∀ q ∈ qs, BodyWF q))

instance decItemWF : (it : PItem) → Decidable (ItemWF it)
  | .fact p => decPredWF p
  | .rule r => decRuleWF r
  | .check c => decQueriesWF c.queries
  | .policy p => decQueriesWF p.queries

/-! ### The follow condition -/

/-- A token after which no statement continues: not `,`, not `or`, not `<-`, and nothing
that continues an expression (`||`, `&&`, `.`, a comparison, `+ - * /`). -/
def stopTok (t : Tok) : Bool :=
  t != .punct ',' && t != .ident "or" && t != .arrow && t != .orOp && t != .andOp && t != .dot &&
  (cmpOfTok t).isNone && (addOfTok t).isNone && (mulOfTok t).isNone

/-- What may follow a statement, uniformly for all statements: the end of the input or a
stop token — in particular `;` (`itemStops_semicolon`). The exact condition, per statement
kind, is `Grammar.itemFollow` (`parseItem_render_exact`). -/
def ItemStops : List Tok → Prop
  | [] => True
  | t :: _ => stopTok t = true

instance : (rest : List Tok) → Decidable (ItemStops rest)
  | [] => inferInstanceAs (Decidable True)
  | t :: _ => inferInstanceAs (Decidable (stopTok t = true))

theorem itemStops_nil : ItemStops [] := trivial
theorem itemStops_semicolon (r : List Tok) : ItemStops (.punct ';' :: r) :=
  (by decide : stopTok (.punct ';') = true)

/-- `parseElem` takes the predicate branch exactly on "identifier `(`". -/
def startsLikePred : List Tok → Bool := Grammar.startsLikePred

/-! ## From the property-side predicates to the proof-side copies -/

theorem atomOK_of_WF {t : PTerm} (h : AtomTermWF t) : AtomOK t := by
  cases t <;> first | trivial | exact absurd h id

theorem termOK_of_WF {t : PTerm} (h : TermWF t) : TermOK t := by
  cases t with
  | set elts => exact ⟨h.1, fun t ht => atomOK_of_WF (h.2 t ht)⟩
  | _ => trivial

theorem wfx_of_WF : ∀ e : PExpr, WF e → WFx e := by
  intro e
  induction e with
  | term t => exact termOK_of_WF
  | paren e ih => exact ih
  | neg e ih => exact fun h => ⟨ih h.1, h.2⟩
  | bin op l r ihl ihr => exact fun h => ⟨ihl h.1, ihr h.2.1, h.2.2.1, h.2.2.2⟩
  | method op recv arg ihr iha => exact fun h => ⟨h.1, ihr h.2.1, iha h.2.2.1, h.2.2.2⟩
  | length recv ih => exact fun h => ⟨ih h.1, h.2⟩

theorem predOK_of_WF {p : PPred} (h : PredWF p) : PredOK p := fun t ht => termOK_of_WF (h t ht)

theorem elemOK_of_WF {e : PElem} (h : ElemWF e) : ElemOK e := by
  cases e with
  | pred p => exact predOK_of_WF h
  | expr e => exact wfx_of_WF e h

theorem bodyOK_of_WF {b : List PElem} (h : BodyWF b) : BodyOK b :=
  ⟨h.1, fun e he => elemOK_of_WF (h.2 e he)⟩

theorem queriesOK_of_WF {qs : List (List PElem)} (h : QueriesWF qs) : QueriesOK qs :=
  ⟨h.1, fun q hq => bodyOK_of_WF (h.2 q hq)⟩

theorem itemOK_of_WF {it : PItem} (h : ItemWF it) : ItemOK it := by
  cases it with
  | fact p => exact predOK_of_WF h
  | rule r => exact ⟨predOK_of_WF h.1, bodyOK_of_WF h.2⟩
  | check c => exact queriesOK_of_WF h
  | policy p => exact queriesOK_of_WF h

theorem follow0_of_stops {rest : List Tok} (h : ItemStops rest) : Follow 0 rest := by
  cases rest with
  | nil => exact Follow_nil 0
  | cons t r =>
    have h' : stopTok t = true := h
    simp only [stopTok, Bool.and_eq_true, bne_iff_ne, ne_eq, Option.isNone_iff_eq_none] at h'
    obtain ⟨⟨⟨⟨⟨⟨⟨⟨_, _⟩, _⟩, h4⟩, h5⟩, h6⟩, h7⟩, h8⟩, h9⟩ := h'
    refine ⟨fun _ r' hx => ?_, fun _ r' hx => ?_, fun _ t' r' hx => ?_, fun _ t' r' hx => ?_,
      fun _ t' r' hx => ?_, fun _ r' hx => ?_⟩
    · cases hx; exact h4 rfl
    · cases hx; exact h5 rfl
    · cases hx; exact h7
    · cases hx; exact h8
    · cases hx; exact h9
    · cases hx; exact h6 rfl

theorem commaStop_of_stops {rest : List Tok} (h : ItemStops rest) : commaStop rest := by
  intro r hx; subst hx; exact absurd (show stopTok (.punct ',') = true from h) (by decide)

theorem orIdentStop_of_stops {rest : List Tok} (h : ItemStops rest) : orIdentStop rest := by
  intro r hx; subst hx; exact absurd (show stopTok (.ident "or") = true from h) (by decide)

theorem arrowStop_of_stops {rest : List Tok} (h : ItemStops rest) : arrowStop rest := by
  intro r hx; subst hx; exact absurd (show stopTok .arrow = true from h) (by decide)

theorem bodyFollow_of_stops {rest : List Tok} (h : ItemStops rest) (b : List PElem) :
    bodyFollow b rest := fun _ _ => elemFollow_of_Follow (follow0_of_stops h)

/-- The uniform condition implies the exact one of every statement. -/
theorem itemFollow_of_stops {rest : List Tok} (h : ItemStops rest) (it : PItem) :
    itemFollow it rest := by
  cases it with
  | fact p => exact arrowStop_of_stops h
  | rule r => exact ⟨commaStop_of_stops h, bodyFollow_of_stops h _⟩
  | check c => exact ⟨commaStop_of_stops h, orIdentStop_of_stops h, fun q _ => bodyFollow_of_stops h q⟩
  | policy p => exact ⟨commaStop_of_stops h, orIdentStop_of_stops h, fun q _ => bodyFollow_of_stops h q⟩

/-! ## The round trip, layer by layer -/

/-- **Predicates.** `name(t₁, …, tₙ)` and the zero-argument form `name()` are read back,
whatever follows; fuel: the number of tokens of the predicate. -/
theorem parsePred_render (p : PPred) (h : PredWF p) (rest : List Tok) (fuel : Nat)
    (hf : fuel ≥ (renderPred p).length) :
    parsePred fuel (renderPred p ++ rest) = some (p, rest) :=
  Grammar.parsePred_render p (predOK_of_WF h) rest fuel hf

/-- **Predicate or expression?** `parseElem` decides on the first two tokens. A rendered
predicate always takes the predicate branch, a rendered expression never does — for EVERY
tree, no well-formedness needed: an expression starts with a literal, `$var`, `{param}`,
`[`, `(` or `!`. So `ElemWF` needs no side condition. -/
theorem expr_never_starts_like_pred (e : PExpr) (rest : List Tok) :
    startsLikePred (renderToks e ++ rest) = false ∧
    ∀ p : PPred, startsLikePred (renderPred p ++ rest) = true :=
  ⟨startsLikePred_renderToks e rest, fun p => startsLikePred_renderPred p rest⟩

/-- **One body element.** After an expression nothing may follow that continues it
(`Follow 0`); after a predicate anything may follow. -/
theorem parseElem_render (e : PElem) (h : ElemWF e) (rest : List Tok) (hr : elemFollow e rest)
    (fuel : Nat) (hf : fuel ≥ 16 * (renderElem e).length + 15) :
    parseElem fuel (renderElem e ++ rest) = some (e, rest) :=
  Grammar.parseElem_render e (elemOK_of_WF h) rest hr fuel hf

/-- **Bodies**: elements separated by `,`. The rest must not start with `,` and must not
continue the last element. -/
theorem parseElems_render (body : List PElem) (h : BodyWF body) (rest : List Tok)
    (hc : commaStop rest) (hr : bodyFollow body rest) (fuel : Nat)
    (hf : fuel ≥ 16 * (renderBody body).length + 16) :
    parseElems fuel (renderBody body ++ rest) = some (body, rest) :=
  Grammar.parseElems_render body (bodyOK_of_WF h) rest hc hr fuel hf

/-- **Alternative queries**: bodies separated by `or`. The rest must not start with `,` or
`or` and must not continue the last element of the last query. -/
theorem parseQueries_render (qs : List (List PElem)) (h : QueriesWF qs) (rest : List Tok)
    (hc : commaStop rest) (ho : orIdentStop rest) (hr : queriesFollow qs rest) (fuel : Nat)
    (hf : fuel ≥ 16 * (renderQueries qs).length + 17) :
    parseQueries fuel (renderQueries qs ++ rest) = some (qs, rest) :=
  Grammar.parseQueries_render qs (queriesOK_of_WF h) rest hc ho hr fuel hf

/-- The same with the uniform follow condition. -/
theorem parseQueries_render_stops (qs : List (List PElem)) (h : QueriesWF qs) (rest : List Tok)
    (hr : ItemStops rest) (fuel : Nat) (hf : fuel ≥ 16 * (renderQueries qs).length + 17) :
    parseQueries fuel (renderQueries qs ++ rest) = some (qs, rest) :=
  parseQueries_render qs h rest (commaStop_of_stops hr) (orIdentStop_of_stops hr)
    (fun q _ => bodyFollow_of_stops hr q) fuel hf

/-! ## Statements -/

/-- **One statement, follow condition per statement kind** (`Grammar.itemFollow`: after a fact no `<-`;
after a rule no `,` and no continuation of its last element; after a check or a policy, in
addition, no `or`). -/
theorem parseItem_render_exact (it : PItem) (h : ItemWF it) (allowPolicy : Bool)
    (hp : isPolicy it = false ∨ allowPolicy = true) (rest : List Tok) (hr : itemFollow it rest)
    (fuel : Nat) (hf : fuel ≥ 16 * (renderItem it).length + 16) :
    parseItem fuel allowPolicy (renderItem it ++ rest) = some (it, rest) :=
  Grammar.parseItem_render it (itemOK_of_WF h) allowPolicy hp rest hr fuel hf

/-- **C14 (statements), token level.** Every well-formed fact, rule, check and — where
policies are allowed — policy, rendered by `renderItem`, is read back as itself, and the
parser stops exactly at its end, provided the input ends there or goes on with a stop token
(`;` in particular). -/
theorem parseItem_render (it : PItem) (h : ItemWF it) (allowPolicy : Bool)
    (hp : isPolicy it = false ∨ allowPolicy = true) (rest : List Tok) (hr : ItemStops rest)
    (fuel : Nat) (hf : fuel ≥ 16 * (renderItem it).length + 16) :
    parseItem fuel allowPolicy (renderItem it ++ rest) = some (it, rest) :=
  parseItem_render_exact it h allowPolicy hp rest (itemFollow_of_stops hr it) fuel hf

/-- The single-statement entry points (`FromStringFact/Rule/Check/Policy`, token level:
what `parseSingleText` does after the lexer): the model's own fuel suffices. -/
theorem parseSingle_render (it : PItem) (h : ItemWF it) :
    parseItem (fuelFor (renderItem it)) true (renderItem it) = some (it, []) := by
  have := parseItem_render it h true (Or.inr rfl) [] itemStops_nil (fuelFor (renderItem it))
    (by simp only [fuelFor]; omega)
  simpa using this

/-- **The block grammar has no policies**: with `allowPolicy = false` an `allow if` /
`deny if` statement is an error, whatever its queries are, whatever follows, for every fuel. -/
theorem policy_rejected (p : PPolicy) (rest : List Tok) (fuel : Nat) :
    parseItem fuel false (renderItem (.policy p) ++ rest) = none :=
  parseItem_policy_rejected p rest fuel

/-! ## Statement lists -/

/-- Statement lists with any sufficient fuel (the induction behind `parseItems_render`). -/
theorem parseItems_render_fuel (its : List PItem) (h : ∀ it ∈ its, ItemWF it) (allowPolicy : Bool)
    (hp : ∀ it ∈ its, isPolicy it = false ∨ allowPolicy = true) (fuel : Nat)
    (hf : fuel ≥ 16 * (renderItems its).length + 16) :
    parseItems fuel allowPolicy (renderItems its) = some its :=
  Grammar.parseItems_render its (fun it hit => itemOK_of_WF (h it hit)) allowPolicy hp fuel hf

/-- **C14 (statement lists), token level, with the model's own fuel.** A list of
well-formed statements, each followed by `;`, is read back as itself by `parseItems` with
`fuelFor` of the token list — the fuel `parseBlockText` / `parseAuthorizerText` use: the
fuel of the model never runs out on a well-formed text. Policies only where allowed. -/
theorem parseItems_render (its : List PItem) (h : ∀ it ∈ its, ItemWF it) (allowPolicy : Bool)
    (hp : ∀ it ∈ its, isPolicy it = false ∨ allowPolicy = true) :
    parseItems (fuelFor (renderItems its)) allowPolicy (renderItems its) = some its :=
  parseItems_render_fuel its h allowPolicy hp _ (by simp only [fuelFor]; omega)

/-- Authorizer text: everything is allowed. -/
theorem parseItems_render_authorizer (its : List PItem) (h : ∀ it ∈ its, ItemWF it) :
    parseItems (fuelFor (renderItems its)) true (renderItems its) = some its :=
  parseItems_render its h true (fun _ _ => Or.inr rfl)

/-- Block text: one policy anywhere makes the whole block an error (the statements before
it are well formed, those after it arbitrary). -/
theorem parseItems_policy_rejected (pre : List PItem) (p : PPolicy) (post : List PItem)
    (h : ∀ it ∈ pre, ItemWF it) (hp : ∀ it ∈ pre, isPolicy it = false) :
    parseItems (fuelFor (renderItems (pre ++ .policy p :: post))) false
      (renderItems (pre ++ .policy p :: post)) = none := by
  refine Grammar.parseItems_policy_rejected pre p post (fun it hit => itemOK_of_WF (h it hit)) hp _ ?_
  have hl : (renderItems pre).length ≤ (renderItems (pre ++ .policy p :: post)).length := by
    clear h hp
    induction pre with
    | nil => simp [renderItems]
    | cons it its ih => simp only [renderItems, List.cons_append, List.length_append, List.length_cons]; omega
  simp only [fuelFor]; omega

/-! ## What is excluded, and why -/

/-- **An empty rule body is not accepted** (`head <- ;`), with any fuel that lets the head
be read at all. -/
theorem empty_body_rejected (hd : PPred) (h : PredWF hd) (pol : Bool) (r : List Tok) (fuel : Nat)
    (hf : fuel ≥ (renderPred hd).length) :
    parseItem fuel pol (renderItem (.rule ⟨hd, []⟩) ++ .punct ';' :: r) = none := by
  have hpp := Grammar.parsePred_render hd (predOK_of_WF h) (.arrow :: .punct ';' :: r) fuel hf
  have hsplit : renderItem (.rule ⟨hd, []⟩) ++ .punct ';' :: r =
      .ident hd.name :: (.punct '(' :: (renderTerms hd.terms ++ [.punct ')'] ++
        (.arrow :: .punct ';' :: r))) := by
    simp [renderItem, renderRule, renderPred, renderBody, joinWith]
  have hsplit' : renderPred hd ++ (.arrow :: .punct ';' :: r) =
      .ident hd.name :: (.punct '(' :: (renderTerms hd.terms ++ [.punct ')'] ++
        (.arrow :: .punct ';' :: r))) := by
    simp [renderPred]
  rw [hsplit'] at hpp
  rw [hsplit, parseItem_pred_start, hpp]
  simp only [parseElems_semicolon, Option.map]

/-- **A check without a query is not accepted** (`check if ;` — which is also the rendering
of a check whose only query is empty), for every fuel. -/
theorem empty_check_rejected (pol : Bool) (r : List Tok) (fuel : Nat) :
    parseItem fuel pol (renderItem (.check ⟨[]⟩) ++ .punct ';' :: r) = none ∧
    renderItem (.check ⟨[[]]⟩) = renderItem (.check ⟨[]⟩) := by
  refine ⟨?_, rfl⟩
  show parseItem fuel pol (.keyword "check if" :: .punct ';' :: r) = none
  rw [parseItem.eq_1]
  cases fuel with
  | zero => rfl
  | succ g => rw [parseQueries.eq_2, parseElems_semicolon]; rfl

/-- **`;` is a terminator, not a separator**: a statement list whose last statement lacks
its `;` is an error. -/
theorem missing_terminator_rejected (it : PItem) (h : ItemWF it) (allowPolicy : Bool)
    (hp : isPolicy it = false ∨ allowPolicy = true) (fuel : Nat)
    (hf : fuel ≥ 16 * (renderItem it).length + 17) :
    parseItems fuel allowPolicy (renderItem it) = none := by
  obtain ⟨g, rfl⟩ : ∃ g, fuel = g + 1 := ⟨fuel - 1, by omega⟩
  have hpi := parseItem_render it h allowPolicy hp [] itemStops_nil g (by omega)
  rw [List.append_nil] at hpi
  rw [parseItems.eq_3, hpi]
  intro hx
  cases it <;> simp [renderItem, renderPred, renderRule, renderCheck, renderPolicy] at hx

/-- The follow condition is needed: a fact followed by `<-` is the beginning of a rule. -/
example : parseItem 100 false (renderItem (.fact ⟨"a", []⟩) ++ [.arrow, .ident "b", .punct '(', .punct ')']) =
    some (.rule ⟨⟨"a", []⟩, [.pred ⟨"b", []⟩]⟩, []) := by rfl

/-- …and a check followed by `||` goes on. -/
example : parseItem 100 false (renderItem (.check ⟨[[.expr (.term (.var "x"))]]⟩) ++ [.orOp, .var "y"]) =
    some (.check ⟨[[.expr (.bin .or (.term (.var "x")) (.term (.var "y")))]]⟩, []) := by rfl

/-- The name of a predicate is free at token level: even `or` — the separator of queries —
is a predicate name where a predicate can start. -/
theorem pred_named_or :
    ItemWF (.check ⟨[[.pred ⟨"or", []⟩], [.pred ⟨"or", [.int ['1']]⟩]]⟩) ∧
    renderItems [.check ⟨[[.pred ⟨"or", []⟩], [.pred ⟨"or", [.int ['1']]⟩]]⟩] =
      [.keyword "check if", .ident "or", .punct '(', .punct ')', .ident "or",
       .ident "or", .punct '(', .int ['1'], .punct ')', .punct ';'] := by
  constructor
  · decide
  · decide +kernel

/-! ## Non-vacuity -/

/-- `right($u, "read") <- user($u), owner($u, $f), $f.starts_with("/a/") || $u == "admin"` -/
def exRule : PItem := .rule
  { head := ⟨"right", [.var "u", .str ['r', 'e', 'a', 'd']]⟩
    body := [
      .pred ⟨"user", [.var "u"]⟩,
      .pred ⟨"owner", [.var "u", .var "f"]⟩,
      .expr (.bin .or
        (.method .pfx (.term (.var "f")) (.term (.str ['/', 'a', '/'])))
        (.bin .eq (.term (.var "u")) (.term (.str ['a', 'd', 'm', 'i', 'n']))))] }

/-- `check if resource($r), operation("read") or admin(true), !$x.contains([1, 2])` -/
def exCheck : PItem := .check
  { queries := [
      [.pred ⟨"resource", [.var "r"]⟩, .pred ⟨"operation", [.str ['r', 'e', 'a', 'd']]⟩],
      [.pred ⟨"admin", [.bool true]⟩,
       .expr (.neg (.method .contains (.term (.var "x")) (.term (.set [.int ['1'], .int ['2']]))))]] }

/-- `allow if user($u), $u == {name} or true` -/
def exPolicy : PItem := .policy
  { allow := true
    queries := [
      [.pred ⟨"user", [.var "u"]⟩, .expr (.bin .eq (.term (.var "u")) (.term (.param "name")))],
      [.expr (.term (.bool true))]] }

/-- `deny if $t.length() + 1 <= 2 * ($n - 3)` -/
def exDeny : PItem := .policy
  { allow := false
    queries := [[.expr (.bin .le
      (.bin .add (.length (.term (.var "t"))) (.term (.int ['1'])))
      (.bin .mul (.term (.int ['2'])) (.paren (.bin .sub (.term (.var "n")) (.term (.int ['3']))))))]] }

/-- `roles("alice", ["admin", "dev"], hex:00ff, 2020-01-01T00:00:00Z, [7])` and `now()` -/
def exFact : PItem := .fact ⟨"roles",
  [.str ['a', 'l', 'i', 'c', 'e'],
   .set [.str ['a', 'd', 'm', 'i', 'n'], .str ['d', 'e', 'v']],
   .bytes ['0', '0', 'f', 'f'],
   .date "2020-01-01T00:00:00Z".toList,
   .set [.int ['7']]]⟩

def exNullary : PItem := .fact ⟨"now", []⟩

example : ItemWF exRule := by decide
example : ItemWF exCheck := by decide
example : ItemWF exPolicy := by decide
example : ItemWF exDeny := by decide
example : ItemWF exFact := by decide
example : ItemWF exNullary := by decide

/-- Not everything is well formed: an empty set, a nested set, an empty body, `a < b < c`. -/
example : ¬ ItemWF (.fact ⟨"a", [.set []]⟩) := by decide
example : ¬ ItemWF (.fact ⟨"a", [.set [.set [.int ['1']]]]⟩) := by decide
example : ¬ ItemWF (.rule ⟨⟨"a", []⟩, []⟩) := by decide
example : ¬ ItemWF (.check ⟨[]⟩) := by decide
example : ¬ ItemWF (.check ⟨[[.expr (.bin .lt (.bin .lt (.term (.var "a")) (.term (.var "b"))) (.term (.var "c")))]]⟩) := by
  decide

/-- The rule, as tokens. -/
theorem exRule_tokens : renderItems [exRule] =
    [.ident "right", .punct '(', .var "u", .punct ',', .str ['r', 'e', 'a', 'd'], .punct ')', .arrow,
     .ident "user", .punct '(', .var "u", .punct ')', .punct ',',
     .ident "owner", .punct '(', .var "u", .punct ',', .var "f", .punct ')', .punct ',',
     .var "f", .dot, .ident "starts_with", .punct '(', .str ['/', 'a', '/'], .punct ')', .orOp,
     .var "u", .op "==", .str ['a', 'd', 'm', 'i', 'n'], .punct ';'] := by
  decide +kernel

/-- …which is what the lexer makes of the text. -/
theorem exRule_lexes :
    lex "right($u, \"read\") <- user($u), owner($u, $f), $f.starts_with(\"/a/\") || $u == \"admin\";".toList =
      some (renderItems [exRule]) := by
  decide +kernel

/-- Evaluation agrees with the theorems (each by computation, independently of them). -/
example : parseItems (fuelFor (renderItems [exRule])) false (renderItems [exRule]) = some [exRule] := by rfl
example : parseItems (fuelFor (renderItems [exCheck])) false (renderItems [exCheck]) = some [exCheck] := by rfl
example : parseItems (fuelFor (renderItems [exPolicy])) true (renderItems [exPolicy]) = some [exPolicy] := by rfl
example : parseItems (fuelFor (renderItems [exFact])) false (renderItems [exFact]) = some [exFact] := by rfl

def exBlock : List PItem := [exFact, exNullary, exRule, exCheck]
def exAuthorizer : List PItem := [exFact, exNullary, exRule, exCheck, exPolicy, exDeny]

example : parseItems (fuelFor (renderItems exBlock)) false (renderItems exBlock) = some exBlock := by rfl
example : parseItems (fuelFor (renderItems exAuthorizer)) true (renderItems exAuthorizer) = some exAuthorizer := by
  rfl
example : parseItems (fuelFor (renderItems exAuthorizer)) false (renderItems exAuthorizer) = none := by rfl

/-- The same through the theorems. -/
example : parseItems (fuelFor (renderItems exAuthorizer)) true (renderItems exAuthorizer) = some exAuthorizer :=
  parseItems_render_authorizer exAuthorizer (by decide)

example : parseItems (fuelFor (renderItems exAuthorizer)) false (renderItems exAuthorizer) = none :=
  parseItems_policy_rejected exBlock _ [exDeny] (by decide) (by decide)

/-- From characters: the text of the rule is a block of one rule. -/
theorem exRule_text :
    parseBlockText "right($u, \"read\") <- user($u), owner($u, $f), $f.starts_with(\"/a/\") || $u == \"admin\";".toList =
      some [exRule] := by
  unfold parseBlockText
  rw [exRule_lexes]
  exact parseItems_render [exRule] (by decide) false (by decide)

end Biscuit.C14Items
