/-
Props/C12Sets — sets hold each element once (finding D19).

At the engine level a set is a raw list (datalog.Set is a slice). `Set.Equal` — and with it
fact de-duplication — ignores repeated elements, while `length` and `intersection` count
them: on raw lists two facts that are "equal" can give different answers, so the outcome
depends on which of them was supplied first (`raw_sets_disagree`). The token layer now adds
an element to a set only when absent (Model/Construct.dedup); on such sets equality is
extensional and every operator respects it, so equal sets are interchangeable.
-/
import BiscuitModel.Model.Construct

namespace Biscuit.C12Sets
open Biscuit Biscuit.Construct

theorem dedup_nodup (l : List Atom) : (dedup l).Nodup := by
  induction l with
  | nil => exact List.nodup_nil
  | cons x xs ih =>
    simp only [dedup, List.nodup_cons]
    refine ⟨?_, ih.filter _⟩
    simp [List.mem_filter]

theorem mem_dedup (l : List Atom) (a : Atom) : a ∈ dedup l ↔ a ∈ l := by
  induction l with
  | nil => simp [dedup]
  | cons x xs ih =>
    simp only [dedup, List.mem_cons, List.mem_filter, ih]
    by_cases h : a = x <;> simp [h]

/-- A set written without repeats is kept exactly as written. -/
theorem dedup_of_nodup (l : List Atom) (h : l.Nodup) : dedup l = l := by
  induction l with
  | nil => rfl
  | cons x xs ih =>
    rw [List.nodup_cons] at h
    simp only [dedup, ih h.2]
    congr 1
    apply List.filter_eq_self.mpr
    intro a ha
    simp
    intro e; subst e; exact h.1 ha

theorem dedup_idem (l : List Atom) : dedup (dedup l) = dedup l := dedup_of_nodup _ (dedup_nodup l)

/-- On duplicate-free sets `Set.Equal` is extensional equality. -/
theorem setEqual_iff (s c : List Atom) (hs : s.Nodup) (hc : c.Nodup) :
    setEqual s c = true ↔ ∀ a, a ∈ s ↔ a ∈ c := by
  simp only [setEqual, Bool.and_eq_true, beq_iff_eq, List.all_eq_true, List.contains_iff_mem]
  constructor
  · rintro ⟨⟨_, h1⟩, h2⟩ a
    exact ⟨h1 a, h2 a⟩
  · intro h
    have hp : s.Perm c := (List.perm_ext_iff_of_nodup hs hc).mpr h
    exact ⟨⟨hp.length_eq, fun a ha => (h a).mp ha⟩, fun a ha => (h a).mpr ha⟩

/-- Equal duplicate-free sets have the same length … -/
theorem length_congr (s c : List Atom) (hs : s.Nodup) (hc : c.Nodup) (h : setEqual s c = true) :
    s.length = c.length :=
  ((List.perm_ext_iff_of_nodup hs hc).mpr ((setEqual_iff s c hs hc).mp h)).length_eq

/-- … equal intersections with any set (as sets, and in length) … -/
theorem intersect_congr (s c t : List Atom) (hs : s.Nodup) (hc : c.Nodup) (h : setEqual s c = true) :
    setEqual (setIntersect s t) (setIntersect c t) = true ∧
    (setIntersect s t).length = (setIntersect c t).length := by
  have hm := (setEqual_iff s c hs hc).mp h
  have h1 : (setIntersect s t).Nodup := hs.filter _
  have h2 : (setIntersect c t).Nodup := hc.filter _
  have hmem : ∀ a, a ∈ setIntersect s t ↔ a ∈ setIntersect c t := by
    intro a
    simp only [setIntersect, List.mem_filter, hm a]
  exact ⟨(setEqual_iff _ _ h1 h2).mpr hmem, ((List.perm_ext_iff_of_nodup h1 h2).mpr hmem).length_eq⟩

/-- … the same members and inclusions. -/
theorem contains_congr (s c : List Atom) (hs : s.Nodup) (hc : c.Nodup) (h : setEqual s c = true)
    (sub : List Atom) : setIncludes s sub = setIncludes c sub := by
  have hm := (setEqual_iff s c hs hc).mp h
  have key : ∀ x, s.contains x = c.contains x := by
    intro x
    rw [Bool.eq_iff_iff, List.contains_iff_mem, List.contains_iff_mem]
    exact hm x
  simp only [setIncludes, key]

/-- Intersection and union of duplicate-free sets are duplicate-free: the invariant is kept
by the operators, so it holds for every value an evaluation can produce. -/
theorem intersect_nodup (s t : List Atom) (hs : s.Nodup) : (setIntersect s t).Nodup := hs.filter _

theorem union_nodup (s t : List Atom) (hs : s.Nodup) (ht : t.Nodup) : (setUnion s t).Nodup := by
  simp only [setUnion]
  refine List.nodup_append.mpr ⟨hs, ht.filter _, ?_⟩
  intro a ha b hb
  simp only [List.mem_filter] at hb
  intro e; subst e
  simp at hb
  exact hb.2 ha

/-- **D19, engine level, raw lists.** `[1,1,2]` and `[1,2,2]` are `Equal` (so one of the two
facts carrying them is dropped as a duplicate), yet their intersections with `[1]` have
different lengths: which fact survives — the first supplied — decides a check on that length. -/
theorem raw_sets_disagree :
    setEqual [.int 1, .int 1, .int 2] [.int 1, .int 2, .int 2] = true ∧
    (setIntersect [.int 1, .int 1, .int 2] [.int 1]).length ≠
    (setIntersect [.int 1, .int 2, .int 2] [.int 1]).length := by decide

/-- After construction-time normalisation the two written sets are the same set and agree. -/
example : setEqual (dedup [.int 1, .int 1, .int 2]) (dedup [.int 1, .int 2, .int 2]) = true ∧
    (setIntersect (dedup [.int 1, .int 1, .int 2]) [.int 1]).length =
    (setIntersect (dedup [.int 1, .int 2, .int 2]) [.int 1]).length := by decide

end Biscuit.C12Sets
