/-
Props/C18 — an authorizer snapshot restores an equivalent authorizer.

Two levels. String level (`Model/Authorizer.save` / `load`): the restored authorizer is
*equal* to the original, hence gives the same outcome and query results for every token.
Wire level (`Model/Symbols.buildSnapshotMsg` / `resolveSnapshot`, `Model/Wire`): what is
written re-reads as the same content through the symbol re-indexing.
-/
import BiscuitModel.Proofs.Wire
import BiscuitModel.Proofs.Authorizer

namespace Biscuit.C18
open Biscuit Biscuit.Wire

/-- Content operations only (what an "unevaluated authorizer" has seen). -/
def isAdd : AuthOp → Bool
  | .addFact _ | .addRule _ | .addCheck _ | .addPolicy _ => true
  | _ => false

/-- State of a fresh authorizer after a history of content additions. -/
def afterAdds (lim : Limits) (ops : List AuthOp) : AuthState :=
  ops.foldl (fun s op => match op with
    | .addFact f => addFact s f
    | .addRule r => addRule s r
    | .addCheck c => addCheck s c
    | .addPolicy p => addPolicy s p
    | _ => s) (AuthState.fresh lim)

/-- An unevaluated authorizer can always be saved. -/
theorem save_unevaluated (lim : Limits) (ops : List AuthOp) : ∃ snap, save (afterAdds lim ops) = some snap := by
  have hinv : SnapInv lim (afterAdds lim ops) := snap_inv_foldl lim ops _ (snap_inv_fresh lim)
  exact ⟨_, snap_save_of_inv lim _ hinv⟩

/-- **C18.** Loading the snapshot into a fresh authorizer yields *the same authorizer
state* — for any content (all term types, any symbols, several checks, ordered policies
of both kinds) … -/
theorem snapshot_restores (lim : Limits) (ops : List AuthOp) (snap : Snapshot)
    (h : save (afterAdds lim ops) = some snap) :
    load (AuthState.fresh lim) snap = afterAdds lim ops := by
  have hinv : SnapInv lim (afterAdds lim ops) := snap_inv_foldl lim ops _ (snap_inv_fresh lim)
  rw [snap_save_of_inv lim _ hinv] at h
  cases h
  exact snap_load_of_inv lim _ hinv

/-- … hence the same authorization outcome and the same query results, for every token
and every continuation of operations. -/
theorem snapshot_equiv (cfg : EvalCfg) (lim : Limits) (ops : List AuthOp) (snap : Snapshot)
    (h : save (afterAdds lim ops) = some snap) (toks : List Token) (j : Nat) (k : List AuthOp) :
    runSeq cfg false toks { tok := j, auth := load (AuthState.fresh lim) snap } k =
    runSeq cfg false toks { tok := j, auth := afterAdds lim ops } k := by
  rw [snapshot_restores lim ops snap h]

/-- The order of policies is preserved by save/load. -/
theorem snapshot_keeps_policy_order (lim : Limits) (ops : List AuthOp) (snap : Snapshot)
    (h : save (afterAdds lim ops) = some snap) : snap.policies = (afterAdds lim ops).policies := by
  have hinv : SnapInv lim (afterAdds lim ops) := snap_inv_foldl lim ops _ (snap_inv_fresh lim)
  rw [snap_save_of_inv lim _ hinv] at h
  cases h
  rfl

/-- Saving is refused once the authorizer has been evaluated. -/
theorem save_refused_when_dirty (s : AuthState) (h : s.dirty = true) : save s = none := by
  exact snap_save_dirty s h

/-- Every `Authorize` counts as an evaluation — also one that stopped at a limit, on an
expression error or on an invalid rule (the world holds the token's facts by then). -/
theorem authorize_sets_dirty (cfg : EvalCfg) (tok : Token) (s : AuthState) :
    (authorize cfg tok s).1.dirty = true := by
  exact snap_authorize_dirty cfg tok s

theorem query_sets_dirty (cfg : EvalCfg) (s : AuthState) (q : DRule) :
    (query cfg s q).1.dirty = true := by
  exact snap_query_dirty cfg s q

/-- Hence: after `Authorize` or `Query`, with any outcome, saving is refused. -/
theorem save_refused_after_authorize (cfg : EvalCfg) (tok : Token) (s : AuthState) :
    save (authorize cfg tok s).1 = none :=
  save_refused_when_dirty _ (authorize_sets_dirty cfg tok s)

theorem save_refused_after_query (cfg : EvalCfg) (s : AuthState) (q : DRule) :
    save (query cfg s q).1 = none :=
  save_refused_when_dirty _ (query_sets_dirty cfg s q)

/-! ### Wire level -/

/-- Symbol re-indexing: the snapshot message, resolved through its own table as
`LoadPolicies` does on a fresh authorizer, gives back facts, rules, checks and policies. -/
theorem snapshot_build_then_resolve (snap : Snapshot) :
    resolveSnapshot (buildSnapshotMsg snap) = some snap := by
  exact sym_snapshot_build_then_resolve snap

def PolicyWF (p : IPolicy) : Prop := p.kind < 2^31 ∧ p.queries.length < 2^20 ∧ ∀ q ∈ p.queries, RuleWF q

def PoliciesWF (m : PoliciesMsg) : Prop :=
  m.symbols.length < 2^20 ∧ (∀ s ∈ m.symbols, s.length < 2^32) ∧ (∀ v, m.version = some v → v < 2^32) ∧
  m.facts.length < 2^20 ∧ (∀ f ∈ m.facts, PredWF f) ∧
  m.rules.length < 2^20 ∧ (∀ r ∈ m.rules, RuleWF r) ∧
  m.checks.length < 2^20 ∧ (∀ c ∈ m.checks, CheckWF c) ∧
  m.policies.length < 2^20 ∧ (∀ p ∈ m.policies, PolicyWF p) ∧
  (encodePolicies m).length < 2^64

/-- Round trip of the snapshot bytes through the published schema. -/
theorem policies_roundtrip (m : PoliciesMsg) (h : PoliciesWF m) : decodePolicies (encodePolicies m) = some m := by
  obtain ⟨_, _, hver, _, hfacts, _, hrules, _, hchecks, _, hpol, hl⟩ := h
  exact wire_decodePolicies_enc m hver hfacts hrules hchecks
    (fun p hp => ⟨(hpol p hp).1, (hpol p hp).2.2⟩) hl

/-- Loading is total: any byte string decodes to a message or is rejected (`Option`),
and resolution of any message is an `Option` as well — there is no third outcome. The
version gate is decision logic stated outright. -/
theorem load_rejects_other_versions (m : PoliciesMsg) (h : m.version ≠ some 3) : resolveSnapshot m = none := by
  exact sym_load_rejects_other_versions m h

/-! Non-vacuity: a snapshot with two fresh symbols shared between a fact and a policy. -/
def fUser : DFact := { name := strBytes "user", args := [.atom (.str (strBytes "alice"))] }
def qUser : DRule := { head := { name := strBytes "query", terms := [] },
                       body := [{ name := strBytes "user", terms := [.const (.atom (.str (strBytes "alice")))] }], exprs := [] }
def snap0 : Snapshot := { facts := [fUser], rules := [], checks := [{ queries := [qUser] }], policies := [{ kind := .deny, queries := [qUser] }, { kind := .allow, queries := [qUser] }] }

example : resolveSnapshot (buildSnapshotMsg snap0) = some snap0 := by decide +kernel
example : (buildSnapshotMsg snap0).symbols = [strBytes "alice"] := by decide +kernel
example : decodePolicies (encodePolicies (buildSnapshotMsg snap0)) = some (buildSnapshotMsg snap0) := by decide +kernel

end Biscuit.C18
