/-
Props/C03Heap — `World.Clone` copies the FactSet slice HEADER (datalog.go:451-459). For the
access pattern of `Authorize` (authorizer.go:210-259) this is observationally a value
copy: each block's world is read right after its own appends, the authority-level world
is not appended to while block worlds are being built, and appends never touch cells
below the source's length.
-/
import BiscuitModel.Proofs.Heap

namespace Biscuit.C03Heap
open Biscuit.Heap

variable {α : Type}

def appendAll (grow : Nat → Nat) (pad : α) (h : Heap α) (s : Slice) : List α → Heap α × Slice
  | [] => (h, s)
  | x :: xs => let r := append grow pad h s x; appendAll grow pad r.1 r.2.1 xs

/-- The block loop at heap level: header-copy clone of the base, append the block's facts,
read. Returns what each block's evaluation sees. -/
def blockLoopHeader (grow : Nat → Nat) (pad : α) : Heap α → Slice → List (List α) → List (List α)
  | _, _, [] => []
  | h, base, fs :: rest =>
    let c := cloneHeader h base
    let r := appendAll grow pad c.1 c.2 fs
    read r.1 r.2 :: blockLoopHeader grow pad r.1 base rest

/-- **C03, header copy refines value copy.** Every block sees exactly the authority-level
facts followed by its own — for any number of blocks, any capacities, any growth policy. -/
theorem clone_header_copy_refines_value_copy (grow : Nat → Nat) (hg : ∀ n, grow n > n) (pad : α)
    (h : Heap α) (base : Slice) (hb : base.arr < h.length) (hl : base.len ≤ cap h base)
    (blocks : List (List α)) :
    blockLoopHeader grow pad h base blocks = blocks.map fun fs => read h base ++ fs := by
  have hG : ∀ (fs : List α) (h : Heap α) (s : Slice),
      appendAll grow pad h s fs = appendAllG grow pad h s fs := by
    intro fs
    induction fs with
    | nil => intro h s; rfl
    | cons x xs ih => intro h s; exact ih _ _
  induction blocks generalizing h with
  | nil => rfl
  | cons fs rest ih =>
    have sp := appendAllG_spec grow hg pad (h := h) (s := base) ⟨hb, hl⟩ fs
    simp only [blockLoopHeader, cloneHeader, List.map_cons]
    rw [hG, sp.read_self,
      ih _ (Nat.lt_of_lt_of_le hb sp.len_le) (by rw [sp.cap_eq base hb]; exact hl),
      sp.frame base hb (Or.inr (Nat.le_refl _))]

/-- The authority-level world itself reads the same after the loop (later `Query` calls). -/
theorem base_unchanged_by_block (grow : Nat → Nat) (hg : ∀ n, grow n > n) (pad : α)
    (h : Heap α) (base : Slice) (hb : base.arr < h.length) (hl : base.len ≤ cap h base) (fs : List α) :
    read (appendAll grow pad h base fs).1 base = read h base := by
  have hG : ∀ (fs : List α) (h : Heap α) (s : Slice),
      appendAll grow pad h s fs = appendAllG grow pad h s fs := by
    intro fs
    induction fs with
    | nil => intro h s; rfl
    | cons x xs ih => intro h s; exact ih _ _
  rw [hG]
  exact (appendAllG_spec grow hg pad (h := h) (s := base) ⟨hb, hl⟩ fs).frame base hb
    (Or.inr (Nat.le_refl _))

end Biscuit.C03Heap
