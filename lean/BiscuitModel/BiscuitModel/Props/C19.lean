/-
Props/C19 — a token can be shared by concurrent goroutines.

Data-race freedom of the listed operations is, in the logic, a FOOTPRINT statement: no
operation writes into a backing array reachable from the shared token; every write goes
to memory the operation allocated or to a builder it owns. Given that, race freedom for
every interleaving is a commutation argument. PARTIAL with respect to the property: the
Go memory model, the scheduler and the completeness of the race detector are runtime
behaviour the model cannot exhibit; footprints of code not modelled here (protobuf-go,
participle) are covered by the race detector only.
-/
import BiscuitModel.Proofs.Heap
import BiscuitModel.Props.C08

namespace Biscuit.C19
open Biscuit.Heap

variable {α : Type}

/-- **Footprint (symbol tables).** With the repaired `Clone`, no operation writes into a
backing array of any live token: creating builders, filling them, looking up facts
(`GetBlockID` interns into a private copy) and deriving tokens write only fresh arrays or
the acting builder's own array. -/
theorem footprint_frozen_partial (grow : Nat → Nat) (hg : ∀ n, grow n > n) (pad : α) (st : State α)
    (h : Owned st) (op : Op α) :
    ∀ a ∈ (step true grow pad st op).2, a.write = true → a.arr ∉ st.tokens.map (·.arr) := by
  rw [owned_iff] at h
  obtain ⟨hn, ht, hb⟩ := h
  have key : ∀ k, st.heap.length ≤ k → k ∉ st.tokens.map (·.arr) := fun k hk hm => by
    obtain ⟨s, hs, he⟩ := List.mem_map.mp hm
    have := (ht s hs).1
    omega
  cases op with
  | createBlock t =>
    cases hs : st.tokens[t]? with
    | none => simp only [step, hs]; intro a ha; cases ha
    | some s => simp only [step, hs]; intro a ha; cases ha
  | addSymbol b x =>
    cases hs : st.builders[b]? with
    | none => simp only [step, hs]; intro a ha; cases ha
    | some p =>
      obtain ⟨bs, start⟩ := p
      simp only [step, hs]
      intro a ha _
      have sp := append_spec grow hg pad (hb _ (List.mem_of_getElem? hs)) x []
      rcases sp.writes a ha with h0 | ⟨_, h1 | h2⟩
      · cases h0
      · rw [h1]
        intro hm
        rw [List.nodup_append] at hn
        exact hn.2.2 bs.arr hm bs.arr (List.mem_map.mpr ⟨(bs, start), List.mem_of_getElem? hs, rfl⟩) rfl
      · exact key _ h2
  | getBlockID t x =>
    cases hs : st.tokens[t]? with
    | none => simp only [step, hs]; intro a ha; cases ha
    | some s =>
      simp only [step, hs, cloneDeep, if_true]
      intro a ha _
      have sp := append_spec grow hg pad (cloneDeep_valid (ht s (List.mem_of_getElem? hs))) x []
      rcases sp.writes_fresh (ext_append st.heap [read st.heap s]) (Nat.le_refl _) a ha with h0 | h1
      · cases h0
      · exact key _ h1
  | appendToken t b =>
    cases hs : st.tokens[t]? with
    | none => simp only [step, hs]; intro a ha; cases ha
    | some s =>
      cases hbs : st.builders[b]? with
      | none => simp only [step, hs, hbs]; intro a ha; cases ha
      | some p =>
        obtain ⟨bs, start⟩ := p
        simp only [step, hs, hbs, cloneDeep, if_true]
        intro a ha _
        have sp := appFold_spec grow hg pad (cloneDeep_valid (ht s (List.mem_of_getElem? hs))) []
          ((read st.heap bs).drop start)
        rcases sp.writes_fresh (ext_append st.heap [read st.heap s]) (Nat.le_refl _) a ha with h0 | h1
        · cases h0
        · exact key _ h1

/-- D4's mechanism, pinned: a fact lookup on a token whose table has spare capacity writes
into the token's own backing array — two concurrent lookups write the same cell. -/
theorem getBlockID_writes_shared_pinned :
    (step false (fun n => 2 * n + 1) "_" Biscuit.C08.d4State (.getBlockID 0 "x")).2 = [{ arr := 0, idx := 3, write := true }] := by
  rfl

/-- **Footprint (signature payloads).** The repaired payload construction writes only a
fresh buffer … -/
theorem payloadFresh_writes_fresh (h : Heap α) (block : Slice) (extra : List α) :
    ∀ a ∈ (payloadFresh h block extra).2, a.arr = h.length := by
  intro a ha
  simp only [payloadFresh, List.mem_map] at ha
  obtain ⟨i, _, rfl⟩ := ha
  rfl

/-- … and leaves every existing array untouched. -/
theorem payloadFresh_keeps_heap (h : Heap α) (block : Slice) (extra : List α) (i : Nat) (hi : i < h.length) :
    (payloadFresh h block extra).1[i]? = h[i]? := by
  simp only [payloadFresh]
  exact List.getElem?_append_left hi

/-- D13, pinned: `append(block.Block[:], alg...)` on stored block bytes with spare capacity
writes into the stored array (here: 2 bytes in an array of capacity 4, 2 bytes appended). -/
theorem verify_writes_shared_pinned :
    (payloadPinned (fun n => 2 * n + 1) (0 : Nat) [[7, 8, 0, 0]] { arr := 0, len := 2 } [1, 2]).2 =
      [{ arr := 0, idx := 2, write := true }, { arr := 0, idx := 3, write := true }] := by
  rfl

/-- **Frozen implies race-free.** If every write of every thread goes to an array private
to that thread, and no thread touches another thread's private arrays, then no two
accesses of any interleaving conflict — for any number of threads and any schedule. -/
theorem frozen_implies_race_free (priv : Nat → Option Nat) (evs : List Event)
    (hw : ∀ e ∈ evs, e.write = true → priv e.arr = some e.thread)
    (hp : ∀ e ∈ evs, ∀ t, priv e.arr = some t → e.thread = t) :
    ∀ a ∈ evs, ∀ b ∈ evs, ¬ Conflict a b := by
  intro a ha b hb hc
  obtain ⟨hne, harr, _, hwr⟩ := hc
  rcases hwr with hwr | hwr
  · have h1 := hw a ha hwr
    rw [harr] at h1
    exact hne (hp b hb _ h1).symm
  · have h1 := hw b hb hwr
    rw [← harr] at h1
    exact hne (hp a ha _ h1)

/-- …and each goroutine obtains its solo result: what a thread reads from the shared
token is what it would read running alone, because no step of any other thread changes it
(this is `C08.family_frame` read along the interleaving). -/
theorem shared_reads_stable (grow : Nat → Nat) (hg : ∀ n, grow n > n) (pad : α) (st : State α)
    (h : Owned st) (others : List (Op α)) (i : Nat) (s : Slice) (hs : st.tokens[i]? = some s) :
    read (run true grow pad st others).heap s = read st.heap s := by
  exact (Biscuit.C08.family_frame_history grow hg pad st h others i s hs).2

end Biscuit.C19
