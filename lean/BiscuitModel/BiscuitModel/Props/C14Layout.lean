/-
Props/C14Layout — character-level round trip of the lexer over ARBITRARY layouts.

`Props/C14Lexer.lex_spell` covers the layout "every token followed by one space".  Here a layout
is a list of gaps (blank strings: spaces, tabs, newlines, CRs), gap `i` after token `i`, and a gap
may be EMPTY wherever `needSep t next = false` (`Model/Layout`): texts as the library's printer
writes them are covered,

    right("file1", "read") <- user($u), $u.starts_with("a") || 1 + 2 == 3;

* `lexOne_spell_ok`: `lexOne (spellTok t ++ rest) = some (some t, rest)` whenever `okAfter t rest`.
* `lex_spellWith` (`lex_spellWith_lead` with leading blanks): **main theorem**.
* `lex_spell_corollary`: the one-space layout is an instance.
* `needSep` is exact on every pair class except two conservative ones (see the examples at the
  end): a 4-digit integer in front of `-` (the one-character lookahead cannot see that the Date
  rule will fail later), and a date in front of `:` (the characters `T`, `:` are listed in
  `dateCont` to keep the locality lemma simple; no well-formed token starts with `T`).
-/
import BiscuitModel.Props.C14Lexer
import BiscuitModel.Proofs.LexerLayout

namespace Biscuit.C14Layout
open Biscuit Biscuit.Grammar Biscuit.C14Lexer

/-! ## One token in front of an arbitrary remaining input -/

theorem okAfter_nil (t : Tok) : okAfter t [] = true := by
  cases t <;> rfl

theorem okAfter_stop (t : Tok) (p : Char → Bool) (hp : ∀ c, canFollow t c = !p c)
    (ht : ∀ ds, t ≠ .hex ds) {rest : List Char} (h : okAfter t rest = true) : stopAt p rest = true := by
  cases rest with
  | nil => rfl
  | cons x r =>
    rw [stopAt, ← hp]
    cases t with
    | hex ds => exact absurd rfl (ht ds)
    | _ => simpa [okAfter] using h

theorem okAfter_hex (ds rest : List Char) : okAfter (.hex ds) rest = hexStop rest := by
  match rest with
  | [] => rfl
  | [_] => rfl
  | _ :: _ :: _ => rfl

theorem okAfter_int {ds rest : List Char} (h : okAfter (.int ds) rest = true) :
    stopAt isDigit rest = true ∧ (ds.length ≠ 4 ∨ stopAt (· == '-') rest = true) := by
  cases rest with
  | nil => exact ⟨rfl, Or.inr rfl⟩
  | cons x r =>
    simp only [okAfter, canFollow, Bool.and_eq_true, Bool.not_eq_true', Bool.and_eq_false_iff,
      beq_eq_false_iff_ne, ne_eq] at h
    refine ⟨by simpa [stopAt] using h.1, ?_⟩
    rcases h.2 with h2 | h2
    · exact Or.inr (by simpa [stopAt] using h2)
    · exact Or.inl h2

/-- **One token**: the spelling of a well-formed token, followed by any input that `okAfter`
admits, is read back as that token, and the input is left untouched. -/
theorem lexOne_spell_ok (t : Tok) (h : TokWF t) (rest : List Char) (hr : okAfter t rest = true) :
    lexOne (spellTok t ++ rest) = some (some t, rest) := by
  unfold TokWF at h
  cases t with
  | keyword k => exact lexOne_keyword_ok k (by simpa [tokWF] using h) rest
  | func f =>
    exact lexOne_func_ok f (by simpa [tokWF] using h) rest
      (okAfter_stop _ _ (fun _ => rfl) (fun _ => Tok.noConfusion) hr)
  | hex ds =>
    simp only [tokWF, Bool.and_eq_true, beq_iff_eq] at h
    rw [okAfter_hex] at hr
    exact lexOne_hex_ok ds h.1 h.2 rest hr
  | dot => exact lexOne_dot_ok rest
  | arrow => exact lexOne_arrow_ok rest
  | orOp => exact lexOne_orOp_ok rest
  | andOp => exact lexOne_andOp_ok rest
  | op s => exact lexOne_op_ok s (by simpa [tokWF] using h) rest hr
  | comment => simp [tokWF] at h
  | str s =>
    have := lexOne_str_ok s (by simpa [tokWF] using h) rest
    simpa [spellTok] using this
  | var n =>
    simp only [tokWF, nameOK, Bool.and_eq_true, Bool.not_eq_true', List.isEmpty_eq_false_iff] at h
    have := lexOne_var_ok n.toList h.1 h.2 rest
      (okAfter_stop _ _ (fun _ => rfl) (fun _ => Tok.noConfusion) hr)
    rwa [String.ofList_toList] at this
  | param n =>
    simp only [tokWF, nameOK, Bool.and_eq_true, Bool.not_eq_true', List.isEmpty_eq_false_iff] at h
    have := lexOne_param_ok n.toList h.1 h.2 rest
    rw [String.ofList_toList] at this
    simpa [spellTok] using this
  | date s =>
    exact lexOne_date_ok s (by simpa [tokWF] using h) rest
      (okAfter_stop _ _ (fun _ => rfl) (fun _ => Tok.noConfusion) hr)
  | int ds =>
    simp only [tokWF, Bool.and_eq_true, Bool.not_eq_true', List.isEmpty_eq_false_iff] at h
    obtain ⟨h1, h2⟩ := okAfter_int hr
    exact lexOne_int_ok ds h.1 h.2 rest h1 h2
  | bool b =>
    have hw : stopAt isWordChar rest = true :=
      okAfter_stop _ _ (fun _ => rfl) (fun _ => Tok.noConfusion) hr
    cases b
    · exact lexOne_false_ok rest hw
    · exact lexOne_true_ok rest hw
  | ident s =>
    simp only [tokWF] at h
    have hs' : stopAt isNameChar rest = true :=
      okAfter_stop _ _ (fun _ => rfl) (fun _ => Tok.noConfusion) hr
    cases hs : s.toList with
    | nil => rw [hs] at h; simp [identOK] at h
    | cons c r =>
      rw [hs] at h
      simp only [identOK, Bool.and_eq_true, Bool.not_eq_true', Option.isNone_iff_eq_none,
        List.contains_eq_mem, decide_eq_false_iff_not] at h
      obtain ⟨⟨⟨⟨⟨h1, h2⟩, h3⟩, h4⟩, h5⟩, h6⟩ := h
      have := lexOne_ident_ok c r h1 h2 h3 h4 h5 h6 rest hs'
      rw [← hs, String.ofList_toList] at this
      exact this
  | punct c => exact lexOne_punct_ok c (by simpa [tokWF] using h) rest hr

/-- The spelling of a well-formed token is not empty and does not start with a blank. -/
theorem spellTok_head (t : Tok) (h : TokWF t) :
    ∃ c cs, spellTok t = c :: cs ∧ isBlank c = false := by
  have hl := lexOne_spell_ok t h [] (okAfter_nil t)
  rw [List.append_nil] at hl
  cases hs : spellTok t with
  | nil =>
    rw [hs, show lexOne [] = none from by decide] at hl
    cases hl
  | cons c cs =>
    refine ⟨c, cs, rfl, ?_⟩
    cases hb : isBlank c with
    | false => rfl
    | true => rw [hs, lexOne_blank c hb] at hl; simp at hl

/-! ## What `needSep` and blanks guarantee -/

/-- A blank may follow every token (but a comment would swallow it). -/
theorem okAfter_blank (t : Tok) (ht : t ≠ .comment) (c : Char) (rest : List Char)
    (hc : isBlank c = true) : okAfter t (c :: rest) = true := by
  have F : isWordChar c = false ∧ isNameChar c = false ∧ isDigit c = false ∧ isHexDigit c = false ∧
      dateCont c = false ∧ c ≠ '-' ∧ c ≠ '=' ∧ c ≠ '&' ∧ c ≠ '|' ∧ c ≠ '/' := by
    rcases isBlank_cases hc with rfl | rfl | rfl | rfl <;> decide
  obtain ⟨f1, f2, f3, f4, f5, f6, f7, f8, f9, f10⟩ := F
  cases t with
  | comment => exact absurd rfl ht
  | hex ds => cases rest <;> simp [okAfter, f4]
  | op s =>
    simp only [okAfter, canFollow, opFollow]
    split
    · simp [f6, f7]
    · split <;> simp [f7]
  | punct p =>
    simp only [okAfter, canFollow, punctFollow]
    split
    · simp [f2]
    · split
      · rename_i hp
        simp only [Bool.or_eq_true, beq_iff_eq] at hp
        rcases hp with ((rfl | rfl) | rfl) | rfl <;> simp [f7, f8, f9, f10]
      · rfl
  | int ds => simp [okAfter, canFollow, f3, f6]
  | _ => simp [okAfter, canFollow, f1, f2, f5]

theorem okAfter_of_needSep (t next : Tok) (h : needSep t next = false) (more : List Char) :
    okAfter t (spellTok next ++ more) = true := by
  unfold needSep at h
  cases hs : spellTok next with
  | nil => rw [hs] at h; cases t <;> simp at h
  | cons c cs =>
    rw [hs] at h
    cases t with
    | hex ds =>
      cases cs with
      | nil =>
        simp only [Bool.eq_false_iff] at h
        cases more <;> simp [okAfter, h]
      | cons d cs => simp only [List.cons_append, okAfter, h, Bool.not_false]
    | _ => simpa [okAfter] using h

/-! ## Token lists -/

theorem spellWith_nil (gaps : List (List Char)) : spellWith gaps [] = [] := by
  cases gaps <;> rfl

theorem spellWith_cons (gaps : List (List Char)) (t : Tok) (ts : List Tok) :
    spellWith gaps (t :: ts) = spellTok t ++ (gaps.headD [] ++ spellWith gaps.tail ts) := by
  cases gaps <;> simp [spellWith]

theorem layoutOK_cons {gaps : List (List Char)} {t : Tok} {ts : List Tok}
    (h : layoutOK gaps (t :: ts) = true) :
    (gaps.headD []).all isBlank = true ∧ layoutOK gaps.tail ts = true ∧
      ∀ t' ts', ts = t' :: ts' → gaps.headD [] ≠ [] ∨ needSep t t' = false := by
  cases gaps with
  | nil =>
    cases ts with
    | nil => exact ⟨rfl, rfl, fun _ _ e => by cases e⟩
    | cons t' ts' =>
      simp only [layoutOK, Bool.and_eq_true, Bool.not_eq_true'] at h
      exact ⟨rfl, h.2, fun _ _ e => by cases e; exact Or.inr h.1⟩
  | cons g gs =>
    cases ts with
    | nil =>
      simp only [layoutOK] at h
      exact ⟨h, by cases gs <;> rfl, fun _ _ e => by cases e⟩
    | cons t' ts' =>
      simp only [layoutOK, Bool.and_eq_true, Bool.or_eq_true, Bool.not_eq_true',
        List.isEmpty_eq_false_iff] at h
      exact ⟨h.1.1, h.2, fun _ _ e => by cases e; exact h.1.2⟩

/-- The spelling of a well-formed list does not start with a blank. -/
theorem stopAt_spellWith (gaps : List (List Char)) (ts : List Tok) (h : ∀ t ∈ ts, TokWF t) :
    stopAt isBlank (spellWith gaps ts) = true := by
  cases ts with
  | nil => rw [spellWith_nil]; rfl
  | cons t ts =>
    obtain ⟨c, cs, hs, hc⟩ := spellTok_head t (h t (List.mem_cons_self ..))
    simp [spellWith_cons, hs, stopAt, hc]

theorem Lexes_spellWith (ts : List Tok) : ∀ (gaps : List (List Char)), (∀ t ∈ ts, TokWF t) →
    LayoutOK gaps ts → Lexes (spellWith gaps ts) ts := by
  induction ts with
  | nil => intro gaps _ _; rw [spellWith_nil]; exact Lexes.nil
  | cons t ts ih =>
    intro gaps hwf hl
    have ht := hwf t (List.mem_cons_self ..)
    have hts : ∀ t' ∈ ts, TokWF t' := fun t' h' => hwf t' (List.mem_cons_of_mem _ h')
    obtain ⟨hg, hl', hsep⟩ := layoutOK_cons hl
    have hne : t ≠ .comment := by rintro rfl; exact absurd ht (by decide)
    rw [spellWith_cons]
    -- the remaining input is admissible after `t`
    have hok : okAfter t (gaps.headD [] ++ spellWith gaps.tail ts) = true := by
      cases hgap : gaps.headD [] with
      | cons c g =>
        rw [hgap] at hg
        simp only [List.all_cons, Bool.and_eq_true] at hg
        exact okAfter_blank t hne c _ hg.1
      | nil =>
        rw [List.nil_append]
        cases ts with
        | nil => rw [spellWith_nil]; exact okAfter_nil t
        | cons t' ts' =>
          rcases hsep t' ts' rfl with h | h
          · exact absurd hgap h
          · rw [spellWith_cons]; exact okAfter_of_needSep t t' h _
    have h1 := lexOne_spell_ok t ht _ hok
    obtain ⟨c, cs, hs, _⟩ := spellTok_head t ht
    refine Lexes.tok h1 (by simp [hs]; omega) ?_
    exact Lexes_blank_prefix _ ts (stopAt_spellWith _ ts hts) (ih gaps.tail hts hl') _ _
      (Nat.le_refl _) hg

/-- **Round trip over layouts**, with leading blanks: lexing well-formed tokens, spelled with any
admissible layout, gives the tokens back. -/
theorem lex_spellWith_lead (lead : List Char) (ts : List Tok) (gaps : List (List Char))
    (hlead : lead.all isBlank = true) (hwf : ∀ t ∈ ts, TokWF t) (hl : LayoutOK gaps ts) :
    lex (lead ++ spellWith gaps ts) = some ts :=
  lex_of_Lexes (Lexes_blank_prefix _ ts (stopAt_spellWith gaps ts hwf) (Lexes_spellWith ts gaps hwf hl)
    _ _ (Nat.le_refl _) hlead)

/-- **Round trip over layouts** (main theorem). -/
theorem lex_spellWith (ts : List Tok) (gaps : List (List Char)) (hwf : ∀ t ∈ ts, TokWF t)
    (hl : LayoutOK gaps ts) : lex (spellWith gaps ts) = some ts :=
  lex_spellWith_lead [] ts gaps rfl hwf hl

/-! ## The one-space layout is an instance -/

theorem spell_eq_spellWith (ts : List Tok) :
    spell ts = spellWith (List.replicate ts.length [' ']) ts := by
  induction ts with
  | nil => rfl
  | cons t ts ih => simp [spell, spellWith, List.replicate_succ, ih]

theorem layoutOK_spaces (ts : List Tok) : LayoutOK (List.replicate ts.length [' ']) ts := by
  unfold LayoutOK
  induction ts with
  | nil => rfl
  | cons t ts ih =>
    cases ts with
    | nil => rfl
    | cons t' ts' =>
      simp only [List.length_cons, List.replicate_succ] at ih ⊢
      simp only [layoutOK, ih, Bool.and_true]
      rfl

theorem lex_spell_corollary (ts : List Tok) (h : ∀ t ∈ ts, TokWF t) : lex (spell ts) = some ts := by
  rw [spell_eq_spellWith]
  exact lex_spellWith ts _ h (layoutOK_spaces ts)

/-! ## The text entry points of the parser -/

theorem parseBlockText_spellWith (lead : List Char) (ts : List Tok) (gaps : List (List Char))
    (hlead : lead.all isBlank = true) (hwf : ∀ t ∈ ts, TokWF t) (hl : LayoutOK gaps ts) :
    parseBlockText (lead ++ spellWith gaps ts) = parseItems (fuelFor ts) false ts := by
  simp [parseBlockText, lex_spellWith_lead lead ts gaps hlead hwf hl]

theorem parseAuthorizerText_spellWith (lead : List Char) (ts : List Tok) (gaps : List (List Char))
    (hlead : lead.all isBlank = true) (hwf : ∀ t ∈ ts, TokWF t) (hl : LayoutOK gaps ts) :
    parseAuthorizerText (lead ++ spellWith gaps ts) = parseItems (fuelFor ts) true ts := by
  simp [parseAuthorizerText, lex_spellWith_lead lead ts gaps hlead hwf hl]

/-- Convenience form for concrete texts: exhibit the layout. -/
theorem lex_of_layout (s lead : List Char) (gaps : List (List Char)) (ts : List Tok)
    (hs : s = lead ++ spellWith gaps ts) (hlead : lead.all isBlank = true)
    (hwf : ∀ t ∈ ts, TokWF t) (hl : LayoutOK gaps ts) : lex s = some ts :=
  hs ▸ lex_spellWith_lead lead ts gaps hlead hwf hl

/-! ## `needSep`: general facts -/

/-- After a token that tolerates every character (Keyword, Dot, Arrow, `||`, `&&`, String,
Parameter, most operators and punctuation) no separator is ever needed. -/
theorem needSep_free (t next : Tok) (hfree : ∀ c, canFollow t c = true) (hhex : ∀ ds, t ≠ .hex ds)
    (hn : spellTok next ≠ []) : needSep t next = false := by
  unfold needSep
  cases hs : spellTok next with
  | nil => exact absurd hs hn
  | cons c cs =>
    cases t with
    | hex ds => exact absurd rfl (hhex ds)
    | _ => simp [hfree]

/-- The spelling of a well-formed token is not empty. -/
theorem spellTok_ne_nil (t : Tok) (h : TokWF t) : spellTok t ≠ [] := by
  obtain ⟨c, cs, hs, _⟩ := spellTok_head t h
  rw [hs]; exact List.cons_ne_nil _ _

/-- `(`, `[`, `,` (and `)`, `]`, `;`, `!`, …) in front of ANY well-formed token. -/
theorem needSep_open (p : Char) (hp : p ∈ "[!@%^#()_}:;',?".toList) (next : Tok) (h : TokWF next) :
    needSep (.punct p) next = false := by
  refine needSep_free _ _ (fun c => ?_) (fun _ => Tok.noConfusion) (spellTok_ne_nil next h)
  have : ∀ p ∈ "[!@%^#()_}:;',?".toList, (p == '$' || p == '{') = false ∧
      (p == '&' || p == '|' || p == '=' || p == '/') = false := by decide
  simp [canFollow, punctFollow, this p hp]

/-- `.` in front of any well-formed token (`$u.starts_with`, `$u.length`). -/
theorem needSep_dot (next : Tok) (h : TokWF next) : needSep .dot next = false :=
  needSep_free _ _ (fun _ => rfl) (fun _ => Tok.noConfusion) (spellTok_ne_nil next h)

/-- A string in front of any well-formed token. -/
theorem needSep_str (s : List Char) (next : Tok) (h : TokWF next) : needSep (.str s) next = false :=
  needSep_free _ _ (fun _ => rfl) (fun _ => Tok.noConfusion) (spellTok_ne_nil next h)

/-- `,` `)` `]` `;` `(` `.` directly after a name-like or literal token, whatever its payload. -/
theorem needSep_closing (c : Char) (hc : c ∈ [',', ')', ']', ';', '(', '.']) :
    (∀ s, needSep (.ident s) (.punct c) = false) ∧ (∀ s, needSep (.var s) (.punct c) = false) ∧
    (∀ s, needSep (.func s) (.punct c) = false) ∧ (∀ b, needSep (.bool b) (.punct c) = false) ∧
    (∀ ds, needSep (.int ds) (.punct c) = false) ∧ (∀ ds, needSep (.hex ds) (.punct c) = false) ∧
    (∀ s, needSep (.str s) (.punct c) = false) ∧ (∀ s, needSep (.param s) (.punct c) = false) ∧
    (∀ p ∈ [')', ']'], needSep (.punct p) (.punct c) = false) := by
  have F : ∀ c ∈ [',', ')', ']', ';', '(', '.'], isNameChar c = false ∧ isWordChar c = false ∧
      isDigit c = false ∧ isHexDigit c = false ∧ (c == '-') = false := by decide
  obtain ⟨f1, f2, f3, f4, f5⟩ := F c hc
  clear F
  refine ⟨?_, ?_, ?_, ?_, ?_, ?_, ?_, ?_, ?_⟩
  case refine_9 =>
    intro p hp
    simp only [List.mem_cons, List.not_mem_nil, or_false] at hp
    rcases hp with rfl | rfl <;> simp [needSep, spellTok, canFollow, punctFollow]
  all_goals (intros; simp_all [needSep, spellTok, canFollow])

/-- The same for dates (`.` and `(` excluded: a fraction may follow a date). -/
theorem needSep_date_closing (c : Char) (hc : c ∈ [',', ')', ']', ';']) (s : List Char) :
    needSep (.date s) (.punct c) = false := by
  have F : ∀ c ∈ [',', ')', ']', ';'], dateCont c = false := by decide
  simp [needSep, spellTok, canFollow, F c hc]

/-- `.` after a variable, a string, a parameter, `)` (what follows the dot: `needSep_dot`). -/
theorem needSep_before_dot :
    (∀ n, needSep (.var n) .dot = false) ∧ (∀ s, needSep (.str s) .dot = false) ∧
    (∀ n, needSep (.param n) .dot = false) ∧ needSep (.punct ')') .dot = false := by
  refine ⟨?_, ?_, ?_, ?_⟩ <;> intros <;> simp [needSep, spellTok, canFollow, punctFollow] <;> decide

/-- The operator `-` in front of any well-formed token: no rule extends a `-` (there is no
`--`, `-=`, `->` token), so the sign of an integer literal may touch its digits (`-5`) and two
minus signs may touch each other (`1--5`). -/
theorem needSep_minus (next : Tok) (h : TokWF next) : needSep (.op "-") next = false :=
  needSep_free _ _ (fun _ => by simp [canFollow, opFollow]) (fun _ => Tok.noConfusion)
    (spellTok_ne_nil next h)

/-- The sign and the digits of a signed integer literal. -/
theorem needSep_minus_int (ds : List Char) (h : TokWF (.int ds)) : needSep (.op "-") (.int ds) = false :=
  needSep_minus _ h

/-! ## `needSep = false`: the junctions of the printed style, read back via `lex_spellWith` -/

example : lex "right(".toList = some [.ident "right", .punct '('] :=
  lex_of_layout _ [] [] _ (by decide) rfl (by decide) (by decide)
example : lex "\"a\",$x)2]true;hex:0a,2020-01-01T00:00:00Z){p};".toList =
    some [.str ['a'], .punct ',', .var "x", .punct ')', .int ['2'], .punct ']', .bool true, .punct ';',
      .hex ['0', 'a'], .punct ',', .date "2020-01-01T00:00:00Z".toList, .punct ')', .param "p", .punct ';'] :=
  lex_of_layout _ [] [] _ (by decide) rfl (by decide) (by decide)
example : lex "(\"a\",[1,$x,true,f(hex:,{p}".toList =
    some [.punct '(', .str ['a'], .punct ',', .punct '[', .int ['1'], .punct ',', .var "x", .punct ',',
      .bool true, .punct ',', .ident "f", .punct '(', .hex [], .punct ',', .param "p"] :=
  lex_of_layout _ [] [] _ (by decide) rfl (by decide) (by decide)
example : lex "$u.length()".toList = some [.var "u", .dot, .func "length", .punct '(', .punct ')'] :=
  lex_of_layout _ [] [] _ (by decide) rfl (by decide) (by decide)
example : lex "\"a\".contains(\"b\").starts_with(x)".toList =
    some [.str ['a'], .dot, .func "contains", .punct '(', .str ['b'], .punct ')', .dot,
      .ident "starts_with", .punct '(', .ident "x", .punct ')'] :=
  lex_of_layout _ [] [] _ (by decide) rfl (by decide) (by decide)
example : lex "!$x&&!(".toList = some [.punct '!', .var "x", .andOp, .punct '!', .punct '('] :=
  lex_of_layout _ [] [] _ (by decide) rfl (by decide) (by decide)
/-- Less obvious junctions that are harmless: no boundary after a keyword; an integer stops at a
letter; `-` is always an operator; `:` is no word character; `<` in front of anything but `-` `=`. -/
example : lex "check ifx(1a-2<3)<length:true".toList =
    some [.keyword "check if", .ident "x", .punct '(', .int ['1'], .ident "a", .op "-", .int ['2'],
      .op "<", .int ['3'], .punct ')', .op "<", .func "length", .punct ':', .bool true] :=
  lex_of_layout _ [] [] _ (by decide) rfl (by decide) (by decide)
/-- Signed integer literals: the sign is the Operator token `-`; `-5` (what the library prints)
and `- 5` are the same two tokens; a binary minus in front of a signed literal, with blanks
(`1 - -5`, the printed style) and without (`1--5`: `--` is two `-` tokens, there is no `--`
operator); after `(`, `[`, `,`, `!` and an operator no blank is needed. -/
example : lex "-5".toList = some [.op "-", .int ['5']] :=
  lex_of_layout _ [] [] _ (by decide) rfl (by decide) (by decide)
example : lex "- 5".toList = some [.op "-", .int ['5']] :=
  lex_of_layout _ [] [[' ']] _ (by decide) rfl (by decide) (by decide)
example : lex "1 - -5".toList = some [.int ['1'], .op "-", .op "-", .int ['5']] :=
  lex_of_layout _ [] [[' '], [' '], []] _ (by decide) rfl (by decide) (by decide)
example : lex "1--5".toList = some [.int ['1'], .op "-", .op "-", .int ['5']] :=
  lex_of_layout _ [] [] _ (by decide) rfl (by decide) (by decide)
example : lex "f(-1,[-2,-3],!-4*-5)".toList =
    some [.ident "f", .punct '(', .op "-", .int ['1'], .punct ',', .punct '[', .op "-", .int ['2'],
      .punct ',', .op "-", .int ['3'], .punct ']', .punct ',', .punct '!', .op "-", .int ['4'],
      .op "*", .op "-", .int ['5'], .punct ')'] :=
  lex_of_layout _ [] [] _ (by decide) rfl (by decide) (by decide)
/-- …but `<` directly in front of the sign is the arrow `<-` (`needSep (.op "<") (.op "-") = true`):
the printed style writes `$x < -5`. -/
example : needSep (.op "<") (.op "-") = true ∧
    lex "$x<-5".toList = some [.var "x", .arrow, .int ['5']] ∧
    lex "$x < -5".toList = some [.var "x", .op "<", .op "-", .int ['5']] := by decide +kernel
/-- Gaps may be any mixture of blanks, also in front of the first and after the last token. -/
example : lex " \n\tallow if \t\r\n true;\n".toList = some [.keyword "allow if", .bool true, .punct ';'] :=
  lex_of_layout _ " \n\t".toList [" \t\r\n ".toList, [], ['\n']] _ (by decide) (by decide) (by decide)
    (by decide)

/-- **The printed style** (`parser`'s `String()` methods): the layout is given explicitly. -/
example :
    lex "right(\"file1\", \"read\") <- user($u), $u.starts_with(\"a\") || 1 + 2 == 3;".toList =
    some [.ident "right", .punct '(', .str "file1".toList, .punct ',', .str "read".toList, .punct ')',
      .arrow, .ident "user", .punct '(', .var "u", .punct ')', .punct ',',
      .var "u", .dot, .ident "starts_with", .punct '(', .str ['a'], .punct ')',
      .orOp, .int ['1'], .op "+", .int ['2'], .op "==", .int ['3'], .punct ';'] :=
  lex_of_layout _ []
    [[], [], [], [' '], [], [' '],
     [' '], [], [], [], [], [' '],
     [], [], [], [], [], [' '],
     [' '], [' '], [' '], [' '], [' '], [], []] _
    (by decide +kernel) rfl (by decide +kernel) (by decide +kernel)

/-! ## `needSep = true`: what the lexer does with the juxtaposition

For every class of pairs with `needSep = true`, a pair (or, where the damage needs a third token, a
list whose OTHER junctions are all admissible) whose juxtaposition is read differently. -/

/-- Function / Bool need a word boundary. -/
example : needSep (.func "length") (.ident "y") = true ∧ lex "lengthy".toList = some [.ident "lengthy"] := by decide
example : needSep (.func "length") (.int ['1']) = true ∧ lex "length1".toList = some [.ident "length1"] := by decide
example : needSep (.bool true) (.ident "x") = true ∧ lex "truex".toList = some [.ident "truex"] := by decide
example : needSep (.bool false) (.int ['0']) = true ∧ lex "false0".toList = some [.ident "false0"] := by decide
/-- Names run on through letters, digits, `_`, `:`. -/
example : needSep (.ident "a") (.ident "b") = true ∧ lex "ab".toList = some [.ident "ab"] := by decide
example : needSep (.ident "a") (.int ['1']) = true ∧ lex "a1".toList = some [.ident "a1"] := by decide
example : needSep (.ident "a") (.punct ':') = true ∧ lex "a:".toList = some [.ident "a:"] := by decide
example : needSep (.ident "a") (.bool true) = true ∧ lex "atrue".toList = some [.ident "atrue"] := by decide
example : needSep (.ident "le") (.ident "ngth") = true ∧ lex "length".toList = some [.func "length"] := by decide
example : needSep (.var "u") (.ident "x") = true ∧ lex "$ux".toList = some [.var "ux"] := by decide
example : needSep (.var "u") (.punct '_') = true ∧ lex "$u_".toList = some [.var "u_"] := by decide
/-- Integers run on through digits. -/
example : needSep (.int ['1']) (.int ['2']) = true ∧ lex "12".toList = some [.int ['1', '2']] := by decide
example : needSep (.int ['2', '0', '2', '0']) (.date "2020-01-01T00:00:00".toList) = true ∧
    lex "20202020-01-01T00:00:00".toList = none := by decide
/-- Hex literals run on through PAIRS of hex digits; a single hex digit is dangerous because of what
may follow it (`1` then `a` is an admissible junction). -/
example : needSep (.hex ['a', 'b']) (.int ['1', '2']) = true ∧ lex "hex:ab12".toList = some [.hex "ab12".toList] := by decide
example : needSep (.hex []) (.ident "cafe") = true ∧ lex "hex:cafe".toList = some [.hex "cafe".toList] := by decide
example : needSep (.hex []) (.ident "ax") = false ∧ lex "hex:ax".toList = some [.hex [], .ident "ax"] := by decide
example : needSep (.hex ['a', 'b']) (.int ['1']) = true ∧ needSep (.int ['1']) (.ident "a") = false ∧
    lex "hex:ab1a".toList = some [.hex "ab1a".toList] := by decide
/-- Operators and punctuation that combine. -/
example : needSep (.op "<") (.op "-") = true ∧ lex "<-".toList = some [.arrow] := by decide
example : needSep (.op "<") (.punct '=') = true ∧ lex "<=".toList = some [.op "<="] := by decide
example : needSep (.op "<") (.op "==") = true ∧ lex "<==".toList = some [.op "<=", .punct '='] := by decide
example : needSep (.op ">") (.punct '=') = true ∧ lex ">=".toList = some [.op ">="] := by decide
example : needSep (.punct '=') (.punct '=') = true ∧ lex "==".toList = some [.op "=="] := by decide
example : needSep (.punct '|') (.punct '|') = true ∧ lex "||".toList = some [.orOp] := by decide
example : needSep (.punct '|') (.orOp) = true ∧ lex "|||".toList = some [.orOp, .punct '|'] := by decide
example : needSep (.punct '&') (.punct '&') = true ∧ lex "&&".toList = some [.andOp] := by decide
example : needSep (.punct '/') (.punct '/') = true ∧ lex "//".toList = some [.comment] := by decide
example : needSep (.punct '$') (.ident "x") = true ∧ lex "$x".toList = some [.var "x"] := by decide
example : needSep (.punct '$') (.int ['1']) = true ∧ lex "$1".toList = some [.var "1"] := by decide
/-- `{` in front of a name: dangerous because of a `}` that may follow the name. -/
example : needSep (.punct '{') (.ident "x") = true ∧ needSep (.ident "x") (.punct '}') = false ∧
    lex "{x}".toList = some [.param "x"] := by decide
/-- Dates: a fraction grows by digits; a date without zone takes a fraction (`.` then digits, both
junctions admissible on their own) or a zone. -/
example : needSep (.date "2020-01-01T00:00:00.5".toList) (.int ['5']) = true ∧
    lex "2020-01-01T00:00:00.55".toList = some [.date "2020-01-01T00:00:00.55".toList] := by decide
example : needSep (.date "2020-01-01T00:00:00".toList) .dot = true ∧ needSep .dot (.int ['5']) = false ∧
    lex "2020-01-01T00:00:00.5".toList = some [.date "2020-01-01T00:00:00.5".toList] := by decide
example : needSep (.date "2020-01-01T00:00:00".toList) (.op "+") = true ∧ needSep (.op "+") (.int ['0', '2']) = false ∧
    needSep (.int ['0', '2']) (.punct ':') = false ∧ needSep (.punct ':') (.int ['0', '0']) = false ∧
    lex "2020-01-01T00:00:00+02:00".toList = some [.date "2020-01-01T00:00:00+02:00".toList] := by decide
/-- A comment swallows everything up to the end of the line (and is not well-formed anyway). -/
example : needSep .comment (.ident "x") = true ∧ lex "//x".toList = some [.comment] := by decide
/-- A token with an empty spelling is not well-formed. -/
example : needSep .dot (.int []) = true ∧ ¬ TokWF (.int []) := by decide

/-! Conservative classes (`needSep = true` although no admissible continuation is read
differently): the criterion looks at one character (two for Hex) of the next token only.
* a 4-digit integer in front of `-`: the Date rule needs `dddd-dd-ddT…`, and no well-formed token
  starts with `T`, but that is five tokens away;
* a date in front of `:`; a date WITH a zone in front of anything; a date without fraction in
  front of a digit: `dateCont` does not look at the shape of the date. -/
example : needSep (.int "2020".toList) (.op "-") = true ∧
    lex "2020-1".toList = some [.int "2020".toList, .op "-", .int ['1']] := by decide
example : needSep (.int "202".toList) (.op "-") = false := by decide
example : needSep (.date "2020-01-01T00:00:00".toList) (.punct ':') = true ∧
    lex "2020-01-01T00:00:00:".toList = some [.date "2020-01-01T00:00:00".toList, .punct ':'] := by decide
example : needSep (.date "2020-01-01T00:00:00Z".toList) (.int ['1']) = true ∧
    lex "2020-01-01T00:00:00Z1".toList = some [.date "2020-01-01T00:00:00Z".toList, .int ['1']] := by decide
example : needSep (.date "2020-01-01T00:00:00".toList) (.int ['1']) = true ∧
    lex "2020-01-01T00:00:001".toList = some [.date "2020-01-01T00:00:00".toList, .int ['1']] := by decide

end Biscuit.C14Layout
