/-
Props/C06 — expressions are total, typed and arithmetically exact.

Statements about `Model/Expr` (`eval`, `evalBinary`, `evalUnary`) and the set
operations of `Model/Value`. `cfg.div = .exact` / `cfg.sets = .loops` is the
repaired code; `.pinned` / `.pinnedMaps` is the behaviour of the pinned tree,
kept so that the witnesses D1, D2, D3 stay machine-checked.
-/
import BiscuitModel.Proofs.Expr

namespace Biscuit.C06
open Biscuit

/-! ## 1. Totality and absence of panics -/

/-- Evaluation never panics (repaired set operations), for every operator
sequence — well-formed or not — every binding, every regex oracle and either
division mode. (`eval` is a total Lean function, so "returns a value or an
error" is its type.) -/
theorem eval_no_panic (cfg : EvalCfg) (hs : cfg.sets = .loops) (σ : Bindings Val) (e : Expr) :
    (eval cfg σ e).isPanic = false := by
  exact eval_no_panic' cfg hs σ e

/-- D2, pinned: equality of two sets of byte arrays panics. -/
theorem pinned_set_equal_panics :
    eval { rx := fun _ _ => none, sets := .pinnedMaps } []
      [.value (.const (.set [.bytes [1]])), .value (.const (.set [.bytes [1]])), .binary .eq]
      = .panic .unhashableSetKey := by
  decide

/-! ## 2. Arithmetic is exact or an error; never wrapped -/

/-- The mathematical result of an arithmetic operator (`/` truncates toward zero, as Go). -/
def exact : BinOp → Int → Int → Int
  | .add, a, b => a + b
  | .sub, a, b => a - b
  | .mul, a, b => a * b
  | .div, a, b => Int.tdiv a b
  | _, _, _ => 0

def isArith (op : BinOp) : Bool := op = .add || op = .sub || op = .mul || op = .div

theorem arith_exact (cfg : EvalCfg) (hd : cfg.div = .exact) (op : BinOp) (hop : isArith op = true)
    (a b : Int) :
    evalBinary cfg op (.atom (.int a)) (.atom (.int b)) =
      if op = .div ∧ b = 0 then .err .divzero
      else if inI64 (exact op a b) then .ok (.atom (.int (exact op a b)))
      else .err .overflow := by
  cases op <;> simp [isArith] at hop <;>
    simp [evalBinary, exact, checkedInt_eq, hd]
  all_goals rfl

/-- "A wrapped value is never produced": whatever an arithmetic operator returns
as a value is the mathematical result and fits in 64 bits. -/
theorem arith_never_wraps (cfg : EvalCfg) (hd : cfg.div = .exact) (op : BinOp)
    (hop : isArith op = true) (a b : Int) (v : Val)
    (h : evalBinary cfg op (.atom (.int a)) (.atom (.int b)) = .ok v) :
    v = .atom (.int (exact op a b)) ∧ inI64 (exact op a b) = true := by
  rw [arith_exact cfg hd op hop a b] at h
  split at h
  · cases h
  · split at h
    · rename_i hin
      cases h
      exact ⟨rfl, hin⟩
    · cases h

/-- Go's machine division is the mathematical truncated division exactly under
the guard that the repair adds. -/
theorem goDiv_exact (a b : BitVec 64) (hb : b ≠ 0#64)
    (h : ¬ (a = BitVec.intMin 64 ∧ b = -1#64)) :
    (a.sdiv b).toInt = Int.tdiv a.toInt b.toInt := by
  have _ := hb
  apply BitVec.toInt_sdiv_of_ne_or_ne
  by_cases ha : a = BitVec.intMin 64
  · right; intro hb'; exact h ⟨ha, hb'⟩
  · left; exact ha

/-- …and without the guard it wraps: `MinInt64 / -1 = MinInt64`. -/
theorem goDiv_wraps : ((BitVec.intMin 64).sdiv (-1#64)).toInt = i64Min := by
  decide

/-- The pinned model's `wrapI64 (tdiv a b)` is Go's `int64 /` on in-range operands. -/
theorem pinned_div_is_machine_div (a b : Int) (ha : inI64 a = true) (hb : inI64 b = true)
    (hb0 : b ≠ 0) :
    wrapI64 (Int.tdiv a b) = ((BitVec.ofInt 64 a).sdiv (BitVec.ofInt 64 b)).toInt := by
  exact wrap_tdiv_eq_sdiv a b ha hb hb0

/-- D1, pinned: the wrapped quotient is returned as a value. -/
theorem pinned_div_wraps (rx : Regex) :
    evalBinary { rx := rx, div := .pinned } .div (.atom (.int i64Min)) (.atom (.int (-1)))
      = .ok (.atom (.int i64Min)) := by
  simp only [evalBinary]
  decide

/-- …whereas the repaired machine reports it. -/
theorem exact_div_overflow (rx : Regex) :
    evalBinary { rx := rx, div := .exact } .div (.atom (.int i64Min)) (.atom (.int (-1)))
      = .err .overflow := by
  simp only [evalBinary]
  decide

/-! ## 3. Typing table -/

/-- Accepted operand types per binary operator, written from the property text
(and proved equal to the table regenerated from the Go code in `Props/Tables`). -/
def accepts : BinOp → VType → VType → Bool
  | .lt, l, r | .le, l, r | .gt, l, r | .ge, l, r =>
      (l == .integer && r == .integer) || (l == .date && r == .date)
  | .eq, l, r => l == r
  | .contains, .string, r => r == .string
  | .contains, .set, _ => true
  | .contains, _, _ => false
  | .intersection, l, r | .union, l, r => l == .set && r == .set
  | .pfx, l, r | .sfx, l, r | .regex, l, r => l == .string && r == .string
  | .add, l, r => (l == .string && r == .string) || (l == .integer && r == .integer)
  | .sub, l, r | .mul, l, r | .div, l, r => l == .integer && r == .integer
  | .and, l, r | .or, l, r => l == .bool && r == .bool

def acceptsUnary : UnOp → VType → Bool
  | .negate, t => t == .bool
  | .parens, _ => true
  | .length, t => t == .string || t == .bytes || t == .set

/-- A binary operator reports a type error exactly on operand types outside its table. -/
theorem typing_table (cfg : EvalCfg) (hs : cfg.sets = .loops) (op : BinOp) (l r : Val) :
    evalBinary cfg op l r = .err .type ↔ accepts op l.type r.type = false := by
  cases op <;> cases l <;> cases r <;> (try (rename_i a b; cases a <;> (try cases b))) <;>
    simp [evalBinary, evalCompare, evalEqual, accepts, Val.type, Atom.type, boolV,
      checkedInt_ne_type, pinnedSetGuard, hs]
  · split <;> simp
  · split
    · simp
    · split <;> simp [checkedInt_ne_type]

theorem typing_table_unary (op : UnOp) (v : Val) :
    evalUnary op v = .err .type ↔ acceptsUnary op v.type = false := by
  cases op <;> cases v <;> (try (rename_i a; cases a)) <;>
    simp [evalUnary, acceptsUnary, Val.type, Atom.type]

/-- Well-typed unary operators always produce a value. -/
theorem unary_total (op : UnOp) (v : Val) (h : acceptsUnary op v.type = true) :
    ∃ w, evalUnary op v = .ok w := by
  cases op <;> cases v <;> (try (rename_i a; cases a)) <;>
    simp [evalUnary, acceptsUnary, Val.type, Atom.type] at h ⊢

/-! ## 4. Stack discipline -/

/-- Stack depth after running `ops` from depth `d`, `none` when the machine would
underflow or exceed `maxStackSize`. -/
def depthAfter : List Op → Nat → Option Nat
  | [], d => some d
  | .value _ :: ops, d => if d ≥ maxStackSize then none else depthAfter ops (d + 1)
  | .unary _ :: ops, d => if d = 0 then none else depthAfter ops d
  | .binary _ :: ops, d => if d < 2 then none else depthAfter ops (d - 1)

/-- A value is produced only by a sequence that is well-formed postfix of depth ≤ 1000
leaving exactly one operand. -/
theorem ok_implies_wellformed (cfg : EvalCfg) (σ : Bindings Val) (e : Expr) (v : Val)
    (h : eval cfg σ e = .ok v) : depthAfter e 0 = some 1 := by
  have hD : ∀ ops d, depthAfter ops d = depthAfter' ops d := by
    intro ops
    induction ops with
    | nil => intro d; rfl
    | cons op ops ih =>
      intro d
      cases op <;> simp [depthAfter, depthAfter', ih]
  rw [hD]
  exact eval_ok_depth cfg σ e v h

/-- Malformed sequences (underflow, leftover operands, depth > 1000) are errors. -/
theorem malformed_is_error (cfg : EvalCfg) (hs : cfg.sets = .loops) (σ : Bindings Val) (e : Expr)
    (h : depthAfter e 0 ≠ some 1) : ∃ c, eval cfg σ e = .err c := by
  cases hr : eval cfg σ e with
  | ok v => exact absurd (ok_implies_wellformed cfg σ e v hr) h
  | err c => exact ⟨c, rfl⟩
  | panic s =>
    have := eval_no_panic cfg hs σ e
    rw [hr] at this
    cases this

/-- An unbound variable is an error. -/
theorem unbound_variable_is_error (cfg : EvalCfg) (σ : Bindings Val) (n : Bytes)
    (h : σ.lookup n = none) (pre post : List Op) (st : List Val)
    (hpre : runOps cfg σ pre [] = .ok st) :
    eval cfg σ (pre ++ .value (.var n) :: post) = .err .unknownVar := by
  unfold eval
  rw [runOps_append, hpre]
  show ((stepOp cfg σ st (.value (.var n))).bind (runOps cfg σ post)).bind _ = _
  rw [stepOp_unbound cfg σ n h st]
  rfl

/-! ## 5. Set operations compute the mathematical operations on duplicate-free lists -/

theorem setUnion_spec (s t : List Atom) (x : Atom) : x ∈ setUnion s t ↔ x ∈ s ∨ x ∈ t := by
  simp only [setUnion, List.mem_append, List.mem_filter, Bool.not_eq_true', List.contains_eq_mem,
    decide_eq_false_iff_not]
  by_cases hx : x ∈ s <;> simp [hx]

theorem setUnion_nodup (s t : List Atom) (hs : s.Nodup) (ht : t.Nodup) : (setUnion s t).Nodup := by
  unfold setUnion
  rw [List.nodup_append]
  refine ⟨hs, ht.sublist List.filter_sublist, ?_⟩
  intro a ha b hb hab
  subst hab
  simp [List.mem_filter] at hb
  exact hb.2 ha

theorem setIntersect_spec (s t : List Atom) (x : Atom) : x ∈ setIntersect s t ↔ x ∈ s ∧ x ∈ t := by
  simp [setIntersect, List.mem_filter]

theorem setIntersect_nodup (s t : List Atom) (hs : s.Nodup) : (setIntersect s t).Nodup := by
  exact hs.sublist List.filter_sublist

theorem setIncludes_spec (s sub : List Atom) : setIncludes s sub = true ↔ ∀ x ∈ sub, x ∈ s := by
  simp [setIncludes]

/-- On duplicate-free lists `Set.Equal` is extensional set equality. -/
theorem setEqual_spec (s t : List Atom) (hs : s.Nodup) (ht : t.Nodup) :
    setEqual s t = true ↔ ∀ x, x ∈ s ↔ x ∈ t := by
  rw [setEqual_iff]
  constructor
  · rintro ⟨_, h1, h2⟩ x
    exact ⟨h1 x, h2 x⟩
  · intro h
    refine ⟨?_, fun x => (h x).1, fun x => (h x).2⟩
    exact Nat.le_antisymm (length_le_of_nodup_subset hs fun x => (h x).1)
      (length_le_of_nodup_subset ht fun x => (h x).2)

/-- The repaired `Set.Equal` is symmetric on all lists. -/
theorem setEqual_symm (s t : List Atom) : setEqual s t = setEqual t s := by
  simp only [setEqual]
  rw [Bool.and_assoc, Bool.and_assoc, Bool.and_comm (s.all _), show (s.length == t.length) = (t.length == s.length) from Bool.beq_comm]

/-- The pinned algorithm (one-directional containment) coincides with the repaired
one on duplicate-free, bytes-free lists… -/
theorem setEqualPinned_eq_on_nodup (s t : List Atom) (hs : s.Nodup) (ht : t.Nodup)
    (hbs : ∀ x ∈ s, x.type ≠ .bytes) (hbt : ∀ x ∈ t, x.type ≠ .bytes) :
    setEqualPinned s t = .ok (setEqual s t) := by
  have _ := ht
  have hnt : (t.any fun x => x.type == .bytes) = false := by
    simpa using hbt
  have hns : (s.any fun x => x.type == .bytes) = false := by
    simpa using hbs
  unfold setEqualPinned
  by_cases hl : s.length = t.length
  · have hne : (s.length != t.length) = false := by simp [hl]
    simp only [hne, hnt, hns, Bool.false_eq_true, if_false]
    congr 1
    cases hall : s.all (fun x => t.contains x) with
    | false =>
      symm
      simp only [setEqual, hall, Bool.and_false, Bool.false_and]
    | true =>
      symm
      rw [setEqual_iff]
      have h1 : ∀ x ∈ s, x ∈ t := by simpa using hall
      exact ⟨hl, h1, subset_of_nodup_of_length_le hs h1 (by omega)⟩
  · have hne : (s.length != t.length) = true := by simp [hl]
    have : setEqual s t = false := by simp [setEqual, hl]
    simp [hne, this]

/-- …and not otherwise (D3): with a repeated element it is asymmetric. -/
theorem setEqualPinned_asymmetric :
    setEqualPinned [.int 1, .int 1] [.int 1, .int 2] = .ok true ∧
    setEqualPinned [.int 1, .int 2] [.int 1, .int 1] = .ok false := by
  decide

/-! ## 6. String operations are the byte-string operations -/

theorem bytesContains_spec (a b : Bytes) : bytesContains a b = true ↔ ∃ p q, a = p ++ b ++ q := by
  exact bytesContains_iff a b

theorem prefix_spec (cfg : EvalCfg) (a b : Bytes) :
    ∃ r, evalBinary cfg .pfx (.atom (.str a)) (.atom (.str b)) = .ok (.atom (.bool r)) ∧
      (r = true ↔ ∃ q, a = b ++ q) := by
  refine ⟨b.isPrefixOf a, rfl, ?_⟩
  rw [List.isPrefixOf_iff_prefix]
  constructor
  · rintro ⟨q, hq⟩; exact ⟨q, hq.symm⟩
  · rintro ⟨q, hq⟩; exact ⟨q, hq.symm⟩

theorem suffix_spec (cfg : EvalCfg) (a b : Bytes) :
    ∃ r, evalBinary cfg .sfx (.atom (.str a)) (.atom (.str b)) = .ok (.atom (.bool r)) ∧
      (r = true ↔ ∃ p, a = p ++ b) := by
  refine ⟨b.isSuffixOf a, rfl, ?_⟩
  rw [List.isSuffixOf_iff_suffix]
  constructor
  · rintro ⟨q, hq⟩; exact ⟨q, hq.symm⟩
  · rintro ⟨q, hq⟩; exact ⟨q, hq.symm⟩

theorem concat_spec (cfg : EvalCfg) (a b : Bytes) :
    evalBinary cfg .add (.atom (.str a)) (.atom (.str b)) = .ok (.atom (.str (a ++ b))) := by
  rfl

/-- `length` of a string is its length in bytes ("é" has length 2). -/
theorem length_bytes : evalUnary .length (.atom (.str [0xc3, 0xa9])) = .ok (.atom (.int 2)) := by
  rfl

/-! ## 7. Booleans are strict; comparisons are the orders on ℤ and ℕ -/

theorem and_spec (cfg : EvalCfg) (a b : Bool) :
    evalBinary cfg .and (.atom (.bool a)) (.atom (.bool b)) = .ok (.atom (.bool (a && b))) := by
  rfl

theorem or_spec (cfg : EvalCfg) (a b : Bool) :
    evalBinary cfg .or (.atom (.bool a)) (.atom (.bool b)) = .ok (.atom (.bool (a || b))) := by
  rfl

/-- Strictness: an ill-typed right operand of `||` is an error even when the left is `true`. -/
theorem or_strict (cfg : EvalCfg) (i : Int) :
    evalBinary cfg .or (.atom (.bool true)) (.atom (.int i)) = .err .type := by
  rfl

theorem lt_int_spec (cfg : EvalCfg) (a b : Int) :
    evalBinary cfg .lt (.atom (.int a)) (.atom (.int b)) = .ok (.atom (.bool (decide (a < b)))) := by
  rfl

theorem le_date_spec (cfg : EvalCfg) (a b : Nat) :
    evalBinary cfg .le (.atom (.date a)) (.atom (.date b)) = .ok (.atom (.bool (decide (a ≤ b)))) := by
  rfl

/-! ## 8. Non-vacuity: a concrete well-formed expression with every shape of step -/

/-- `!( (1 + 2) * 3 <= 9 ) || "ab".starts_with("a")` in postfix evaluates to `true`. -/
example :
    eval { rx := fun _ _ => none } []
      [ .value (.const (.atom (.int 1))), .value (.const (.atom (.int 2))), .binary .add, .unary .parens,
        .value (.const (.atom (.int 3))), .binary .mul, .value (.const (.atom (.int 9))), .binary .le,
        .unary .parens, .unary .negate,
        .value (.const (.atom (.str [97, 98]))), .value (.const (.atom (.str [97]))), .binary .pfx,
        .binary .or ]
      = .ok (.atom (.bool true)) := by
  decide

end Biscuit.C06
