/-
Props/C14Neg — signed integer literals ("integer is any base-10 int64", parser/GRAMMAR.md).

The production of integer literals is `| @("-"? Int)` (parser/grammar.go, tied by
`Tables.integer_production_signed`): the Operator token `-` directly followed by an Int token
— the lexer elides blanks, so `- 5` is the same two tokens as `-5` — is ONE literal wherever a
TERM is expected.  In the model this is `PTerm.negInt digits`, read by `parseAtomTerm`, rendered
as `[.op "-", .int digits]`, denoted as `-(natOfDigits digits)` if that fits in int64.

* `parse_negInt`, `parse_negInt_render`, `parse_negInt_in_set`: the parser, for ALL digit strings.
* `denote_negInt_range`, `denote_int_range`, `denote_integer_int64`: the conversion; the range is
  exactly `-2^63 ≤ v < 2^63`, `-0` is `0`, leading zeros are dropped.
* `minus_after_operand` / `minus_before_literal` (all atoms) and `minus_after_operand_is_binary`
  (the measured texts): the sign is only taken where a term starts; after a complete operand a
  `-` is the binary operator.  `--`, `-$x`, `-"a"` are errors.
* `lex_sign_gap`: any blank gap (also none) between the sign and the digits.
* `negInt_text_roundtrip`, `negInt_block_roundtrip`: the general character-level theorems of
  `C14Text` / `C14Layout` instantiated with signed literals (non-vacuity of the extension).
-/
import BiscuitModel.Props.C14Text
import BiscuitModel.Props.C14Layout

namespace Biscuit.C14Neg
open Biscuit Biscuit.Grammar Biscuit.Printer Biscuit.Render Biscuit.C14 Biscuit.C14Lexer
open Biscuit.C14Layout Biscuit.C14Text

/-! ## Parser -/

/-- **The sign and the digits are one term**, whatever the digits, the fuel and what follows. -/
theorem parse_negInt (fuel : Nat) (ds : List Char) (rest : List Tok) :
    parseTerm fuel (.op "-" :: .int ds :: rest) = some (.negInt ds, rest) := rfl

theorem parseAtomTerm_negInt (ds : List Char) (rest : List Tok) :
    parseAtomTerm (.op "-" :: .int ds :: rest) = some (.negInt ds, rest) := rfl

/-- The reference rendering of a signed literal is what the parser reads. -/
theorem parse_negInt_render (fuel : Nat) (ds : List Char) (rest : List Tok) :
    renderTermToks (.negInt ds) = [.op "-", .int ds] ∧
    parseTerm fuel (renderTermToks (.negInt ds) ++ rest) = some (.negInt ds, rest) := ⟨rfl, rfl⟩

/-- A set element may start with the sign: `[-1, 2]`. -/
theorem parse_negInt_in_set (a b : List Char) (rest : List Tok) :
    parseTerm 2 (.punct '[' :: .op "-" :: .int a :: .punct ',' :: .int b :: .punct ']' :: rest) =
      some (.set [.negInt a, .int b], rest) := rfl

/-- Nothing else may follow the sign where a term is expected: not a second sign, a variable, a
string, a parameter, a date, a boolean, bytes, a set, or the end of the input. -/
theorem sign_needs_digits (fuel : Nat) (t : Tok) (rest : List Tok) (h : ∀ ds, t ≠ .int ds) :
    parseTerm fuel (.op "-" :: t :: rest) = none ∧ parseTerm fuel [.op "-"] = none := by
  refine ⟨?_, rfl⟩
  cases t <;> first | rfl | exact absurd rfl (h _)

/-- As an expression the signed literal is an atom (level 7): `parseOr` reads it and stops. -/
theorem parseOr_negInt (ds : List Char) (rest : List Tok) (hr : Stops rest) (fuel : Nat) (hf : fuel ≥ 32) :
    parseOr fuel (.op "-" :: .int ds :: rest) = some (.term (.negInt ds), rest) :=
  parse_render_partial_size (.term (.negInt ds)) trivial rest hr fuel (by simp only [esize]; omega)

/-! ## The sign is only taken where a term starts -/

/-- After a complete operand `-` is the binary operator: `a -5` subtracts `5`… -/
theorem minus_after_operand (a : PTerm) (ha : AtomTermWF a) (ds : List Char) :
    parseOr 100 (atomTok a ++ [.op "-", .int ds]) =
      some (.bin .sub (.term a) (.term (.int ds)), []) := by
  have hw : WF (.bin .sub (.term a) (.term (.int ds))) :=
    ⟨termOK_of_atomOK ha, trivial, by simp [level], by simp [level]⟩
  have := parse_render_partial_size _ hw [] trivial 100 (by
    have := esize_term_atom (t := a) ha
    simp only [esize, *]; omega)
  simpa [renderToks, binTok, atomTok, renderTermToks] using this

/-- …and `a - -5` (also written `a--5`: `--` is two `-` tokens) subtracts the literal `-5`. -/
theorem minus_before_literal (a : PTerm) (ha : AtomTermWF a) (ds : List Char) :
    parseOr 100 (atomTok a ++ [.op "-", .op "-", .int ds]) =
      some (.bin .sub (.term a) (.term (.negInt ds)), []) := by
  have hw : WF (.bin .sub (.term a) (.term (.negInt ds))) :=
    ⟨termOK_of_atomOK ha, trivial, by simp [level], by simp [level]⟩
  have := parse_render_partial_size _ hw [] trivial 100 (by
    have := esize_term_atom (t := a) ha
    simp only [esize, *]; omega)
  simpa [renderToks, binTok, atomTok, renderTermToks] using this

/-- After any other infix operator the right operand may carry a sign: `a * -5`, `a < -5`, … -/
theorem sign_after_operator (a : PTerm) (ha : AtomTermWF a) (ds : List Char) :
    parseOr 100 (atomTok a ++ [.op "*", .op "-", .int ds]) =
      some (.bin .mul (.term a) (.term (.negInt ds)), []) ∧
    parseOr 100 (atomTok a ++ [.op ">", .op "-", .int ds]) =
      some (.bin .gt (.term a) (.term (.negInt ds)), []) := by
  have ta : TermWF a := termOK_of_atomOK ha
  have hs := esize_term_atom (t := a) ha
  constructor
  · have hw : WF (.bin .mul (.term a) (.term (.negInt ds))) := ⟨ta, trivial, by simp [level], by simp [level]⟩
    have := parse_render_partial_size _ hw [] trivial 100 (by simp only [esize, hs]; omega)
    simpa [renderToks, binTok, atomTok, renderTermToks] using this
  · have hw : WF (.bin .gt (.term a) (.term (.negInt ds))) := ⟨ta, trivial, by simp [level], by simp [level]⟩
    have := parse_render_partial_size _ hw [] trivial 100 (by simp only [esize, hs]; omega)
    simpa [renderToks, binTok, atomTok, renderTermToks] using this

/-! ## Conversion: base 10, int64 -/

/-- **The range of a signed literal**: `-(digits)` if the digits are at most `2^63`. -/
theorem denote_negInt_range (ps : Params) (ds : List Char) (v : Int) :
    denoteAtomTerm ps (.negInt ds) = some (.const (.atom (.int v))) ↔
      v = -(natOfDigits ds : Int) ∧ natOfDigits ds ≤ 2 ^ 63 := by
  simp only [denoteAtomTerm]
  by_cases h : natOfDigits ds ≤ 2 ^ 63
  · simp only [h, if_true, and_true, Option.some.injEq, Term.const.injEq, Val.atom.injEq, Atom.int.injEq]
    exact eq_comm
  · simp [h]

/-- The unsigned literal, for comparison: the digits below `2^63`. -/
theorem denote_int_range (ps : Params) (ds : List Char) (v : Int) :
    denoteAtomTerm ps (.int ds) = some (.const (.atom (.int v))) ↔
      v = (natOfDigits ds : Int) ∧ natOfDigits ds < 2 ^ 63 := by
  simp only [denoteAtomTerm]
  by_cases h : natOfDigits ds < 2 ^ 63
  · simp only [h, if_true, and_true, Option.some.injEq, Term.const.injEq, Val.atom.injEq, Atom.int.injEq]
    exact eq_comm
  · simp [h]

/-- A signed literal denotes an integer or nothing (never another kind of term). -/
theorem denote_negInt_cases (ps : Params) (ds : List Char) :
    denoteAtomTerm ps (.negInt ds) = none ∨
      ∃ v : Int, denoteAtomTerm ps (.negInt ds) = some (.const (.atom (.int v))) := by
  simp only [denoteAtomTerm]
  by_cases h : natOfDigits ds ≤ 2 ^ 63
  · exact Or.inr ⟨-(natOfDigits ds : Int), by simp [h]⟩
  · exact Or.inl (by simp [h])

/-- **Every integer literal that converts is an int64**, signed or not. -/
theorem denote_integer_int64 (ps : Params) (ds : List Char) (v : Int) :
    (denoteAtomTerm ps (.negInt ds) = some (.const (.atom (.int v))) ∨
     denoteAtomTerm ps (.int ds) = some (.const (.atom (.int v)))) → -(2 ^ 63) ≤ v ∧ v < 2 ^ 63 := by
  rintro (h | h)
  · obtain ⟨rfl, hle⟩ := (denote_negInt_range ps ds v).1 h
    omega
  · obtain ⟨rfl, hlt⟩ := (denote_int_range ps ds v).1 h
    omega

/-- In a term position (not only inside a set) the conversion is the same. -/
theorem denoteTerm_negInt (ps : Params) (ds : List Char) :
    denoteTerm ps (.negInt ds) = denoteAtomTerm ps (.negInt ds) := rfl

/-- The boundary, on digits: `-9223372036854775808` is accepted, `-9223372036854775809` and
`9223372036854775808` are refused; `-0` is `0`; leading zeros are dropped (base 10, not octal). -/
theorem int64_boundary :
    denoteAtomTerm [] (.negInt "9223372036854775808".toList) = some (.const (.atom (.int (-9223372036854775808)))) ∧
    denoteAtomTerm [] (.negInt "9223372036854775809".toList) = none ∧
    denoteAtomTerm [] (.int "9223372036854775808".toList) = none ∧
    denoteAtomTerm [] (.int "9223372036854775807".toList) = some (.const (.atom (.int 9223372036854775807))) ∧
    denoteAtomTerm [] (.negInt ['0']) = some (.const (.atom (.int 0))) ∧
    denoteAtomTerm [] (.negInt "010".toList) = some (.const (.atom (.int (-10)))) := by decide +kernel

/-! ## From the characters: the measured behaviour of the repaired parser -/

/-- What a block text denotes. -/
def content (s : String) : Option ParsedContent := (parseBlockText s.toList).bind (denoteItems [])

/-- The operator sequences of the checks of a block text (`ToExpr`: postfix). -/
def exprsOf (s : String) : Option (List Expr) :=
  (content s).map fun c => c.checks.flatMap fun ck => ck.queries.flatMap (·.exprs)

/-- The facts of a block text. -/
def factsOf (s : String) : Option (List (Pred Val)) := (content s).map (·.facts)

def iv (i : Int) : Op := .value (.const (.atom (.int i)))
def f1 (t : Term Val) : Pred Val := { name := strBytes "f", terms := [t] }
def ti (i : Int) : Term Val := .const (.atom (.int i))

/-- Facts: `f(-1)`, a blank after the sign, `-0`, leading zeros, the int64 boundary, a set. -/
theorem negInt_facts :
    factsOf "f(-1);" = some [f1 (ti (-1))] ∧
    factsOf "f(- 5);" = some [f1 (ti (-5))] ∧
    factsOf "f(-0);" = some [f1 (ti 0)] ∧
    factsOf "f(-010);" = some [f1 (ti (-10))] ∧
    factsOf "f(-9223372036854775808);" = some [f1 (ti (-9223372036854775808))] ∧
    factsOf "f([-1, 2]);" = some [f1 (.const (.set [.int (-1), .int 2]))] := by decide +kernel

/-- Leading zeros are dropped: `f(-010)` denotes `-10`. -/
theorem leading_zeros_negInt : factsOf "f(-010);" = some [f1 (ti (-10))] := by decide +kernel

/-- Out of range: the text PARSES (the grammar puts no bound on the digits), the conversion refuses. -/
theorem out_of_range_refused :
    (parseBlockText "f(-9223372036854775809);".toList).isSome = true ∧
    content "f(-9223372036854775809);" = none ∧
    (parseBlockText "f(9223372036854775808);".toList).isSome = true ∧
    content "f(9223372036854775808);" = none := by decide +kernel

/-- Two signs, a signed variable, a signed string: no term. -/
theorem sign_rejections :
    parseBlockText "f(--1);".toList = none ∧
    parseBlockText "f(-$x);".toList = none ∧
    parseBlockText "f(-\"a\");".toList = none ∧
    parseBlockText "f(-);".toList = none ∧
    parseBlockText "f(-[1]);".toList = none := by decide +kernel

/-- **After a complete operand `-` is the binary operator; where a term starts it is the sign.**
The postfix operator sequences of the repaired parser, text by text. -/
theorem minus_after_operand_is_binary :
    exprsOf "check if $x > -5;" = some [[.value (.var (strBytes "x")), iv (-5), .binary .gt]] ∧
    exprsOf "check if $x -5 > 0;" =
      some [[.value (.var (strBytes "x")), iv 5, .binary .sub, iv 0, .binary .gt]] ∧
    exprsOf "check if 1 - -5 == 6;" = some [[iv 1, iv (-5), .binary .sub, iv 6, .binary .eq]] ∧
    exprsOf "check if 1--5 == 6;" = some [[iv 1, iv (-5), .binary .sub, iv 6, .binary .eq]] ∧
    exprsOf "check if -5 - 3 == -8;" = some [[iv (-5), iv 3, .binary .sub, iv (-8), .binary .eq]] ∧
    exprsOf "check if 2 * -3 == -6;" = some [[iv 2, iv (-3), .binary .mul, iv (-6), .binary .eq]] ∧
    exprsOf "check if !-5 == 1;" = some [[iv (-5), .unary .negate, iv 1, .binary .eq]] ∧
    exprsOf "check if (-5).length() == 1;" =
      some [[iv (-5), .unary .parens, .unary .length, iv 1, .binary .eq]] ∧
    exprsOf "check if -5.length()==1;" = some [[iv (-5), .unary .length, iv 1, .binary .eq]] ∧
    parseBlockText "f(--1);".toList = none ∧
    parseBlockText "f(-$x);".toList = none := by decide +kernel

/-- The same distinction on tokens: `$x -5` and `$x - 5` are the same three tokens; `1--5` and
`1 - -5` the same four. -/
theorem minus_tokens :
    lex "$x -5".toList = some [.var "x", .op "-", .int ['5']] ∧
    lex "$x - 5".toList = some [.var "x", .op "-", .int ['5']] ∧
    lex "1--5".toList = some [.int ['1'], .op "-", .op "-", .int ['5']] ∧
    lex "1 - -5".toList = some [.int ['1'], .op "-", .op "-", .int ['5']] ∧
    lex "-5".toList = some [.op "-", .int ['5']] ∧
    lex "- 5".toList = some [.op "-", .int ['5']] := by decide +kernel

/-! ## Layout: the gap between the sign and the digits is free -/

/-- **Any blank gap — also none — between the sign and the digits** gives the same two tokens. -/
theorem lex_sign_gap (ds : List Char) (hd : TokWF (.int ds)) (g : List Char) (hg : g.all isBlank = true) :
    lex ('-' :: (g ++ ds)) = some [.op "-", .int ds] := by
  refine lex_of_layout _ [] [g] [.op "-", .int ds] (by simp [spellWith, spellTok]) rfl ?_ ?_
  · intro t ht
    simp only [List.mem_cons, List.not_mem_nil, or_false] at ht
    rcases ht with rfl | rfl
    · decide
    · exact hd
  · show layoutOK [g] [.op "-", .int ds] = true
    simp only [layoutOK, hg, needSep_minus_int ds hd, Bool.not_false, Bool.or_true, Bool.and_self]

/-- `lexically well formed` asks of a signed literal what it asks of an unsigned one. -/
theorem atomLexOK_negInt (ds : List Char) : atomLexOK (.negInt ds) = atomLexOK (.int ds) := rfl

example : termLexOK (.negInt ['1']) = true := by decide
example : termLexOK (.negInt []) = false := by decide
example : termLexOK (.negInt "-1".toList) = false := by decide
example : termLexOK (.set [.negInt ['1'], .int ['2']]) = true := by decide

/-! ## The general character-level theorems cover signed literals -/

/-- A rule and a check with signed literals in every position (argument, set element, operand of
a comparison, of `-`, of `*`, of `!`, parenthesised receiver). -/
def negItems : List PItem :=
  [ .fact ⟨"f", [.negInt ['1'], .set [.negInt ['1'], .int ['2']]]⟩,
    .rule ⟨⟨"g", [.var "x"]⟩, [.pred ⟨"f", [.var "x", .negInt ['7']]⟩,
      .expr (.bin .gt (.term (.var "x")) (.term (.negInt ['5'])))]⟩,
    .check ⟨[[.expr (.bin .eq (.bin .sub (.term (.int ['1'])) (.term (.negInt ['5']))) (.term (.int ['6']))),
      .expr (.bin .eq (.bin .mul (.term (.int ['2'])) (.term (.negInt ['3']))) (.term (.negInt ['6']))),
      .expr (.bin .eq (.neg (.term (.negInt ['5']))) (.term (.int ['1']))),
      .expr (.bin .eq (.length (.paren (.term (.negInt ['5'])))) (.term (.int ['1'])))]]⟩ ]

theorem negItems_wf : ∀ it ∈ negItems, C14Items.ItemWF it := by decide
theorem negItems_lexOK : ∀ it ∈ negItems, itemLexOK it = true := by decide

/-- Through `C14Text.parseBlockText_roundtrip` (every token followed by one space: `- 1`). -/
theorem negInt_block_roundtrip : parseBlockText (spell (renderItems negItems)) = some negItems :=
  parseBlockText_roundtrip negItems negItems_wf negItems_lexOK (by decide)

theorem negItems_spelling : String.ofList (spell (renderItems negItems)) =
    "f ( - 1 , [ - 1 , 2 ] ) ; g ( $x ) <- f ( $x , - 7 ) , $x > - 5 ; " ++
    "check if 1 - - 5 == 6 , 2 * - 3 == - 6 , ! - 5 == 1 , ( - 5 ) . length ( ) == 1 ; " := by
  decide +kernel

/-- The printed style (`f(-1, [-1, 2]);`, no blank after a sign, one around a binary minus) is an
admissible layout of the same tokens (`C14Layout.lex_of_layout`), hence parses to the same items. -/
theorem negInt_text_roundtrip :
    lex ("f(-1, [-1, 2]);\ng($x) <- f($x, -7), $x > -5;\n" ++
      "check if 1 - -5 == 6, 2 * -3 == -6, !-5 == 1, (-5).length() == 1;").toList =
      some (renderItems negItems) ∧
    (parseBlockText ("f(-1, [-1, 2]);\ng($x) <- f($x, -7), $x > -5;\n" ++
      "check if 1 - -5 == 6, 2 * -3 == -6, !-5 == 1, (-5).length() == 1;").toList).map renderItems =
      some (renderItems negItems) := by
  decide +kernel

end Biscuit.C14Neg

/-! ## Axioms -/
#print axioms Biscuit.C14Neg.parse_negInt
#print axioms Biscuit.C14Neg.parseAtomTerm_negInt
#print axioms Biscuit.C14Neg.parse_negInt_render
#print axioms Biscuit.C14Neg.parse_negInt_in_set
#print axioms Biscuit.C14Neg.sign_needs_digits
#print axioms Biscuit.C14Neg.parseOr_negInt
#print axioms Biscuit.C14Neg.minus_after_operand
#print axioms Biscuit.C14Neg.minus_before_literal
#print axioms Biscuit.C14Neg.sign_after_operator
#print axioms Biscuit.C14Neg.denote_negInt_range
#print axioms Biscuit.C14Neg.denote_int_range
#print axioms Biscuit.C14Neg.denote_negInt_cases
#print axioms Biscuit.C14Neg.denote_integer_int64
#print axioms Biscuit.C14Neg.int64_boundary
#print axioms Biscuit.C14Neg.negInt_facts
#print axioms Biscuit.C14Neg.leading_zeros_negInt
#print axioms Biscuit.C14Neg.out_of_range_refused
#print axioms Biscuit.C14Neg.sign_rejections
#print axioms Biscuit.C14Neg.minus_after_operand_is_binary
#print axioms Biscuit.C14Neg.minus_tokens
#print axioms Biscuit.C14Neg.lex_sign_gap
#print axioms Biscuit.C14Neg.negInt_block_roundtrip
#print axioms Biscuit.C14Neg.negItems_spelling
#print axioms Biscuit.C14Neg.negInt_text_roundtrip
