/-
Props/C08Builder — a built token does not change when its builder is used again (D20).
-/
import BiscuitModel.Model.BuilderAlias

namespace Biscuit.C08Builder
open Biscuit.BuilderAlias

variable {α : Type} [DecidableEq α]

theorem addFact_length (st : Store α) (b : Builder) (x : α) : (addFact st b x).length = st.length := by
  unfold addFact
  split
  · rfl
  · simp

/-- Adding to the builder touches the builder's cell only. -/
theorem addFact_other_cell (st : Store α) (b : Builder) (x : α) (i : Nat) (h : i ≠ b.facts) :
    cell (addFact st b x) i = cell st i := by
  unfold addFact
  split
  · rfl
  · simp only [cell, List.getD_eq_getElem?_getD]
    rw [List.getElem?_set_ne (Ne.symm h)]

/-- **Repaired `Build`: frame.** Whatever is added to the builder after `Build`, in any
number of steps, the token reads what it read when it was built. -/
theorem buildCopy_frame (st : Store α) (b : Builder) (hv : Valid st b) (xs : List α) :
    view (xs.foldl (fun s x => addFact s b x) (buildCopy st b).1) (buildCopy st b).2 =
    cell st b.facts := by
  have key : ∀ (xs : List α) (s : Store α), s.length = st.length + 1 → cell s st.length = cell st b.facts →
      cell (xs.foldl (fun s x => addFact s b x) s) st.length = cell st b.facts := by
    intro xs
    induction xs with
    | nil => intro s _ h; exact h
    | cons x xs ih =>
      intro s hl h
      apply ih
      · rw [addFact_length]; exact hl
      · rw [addFact_other_cell s b x st.length (by unfold Valid at hv; omega)]; exact h
  apply key
  · simp [buildCopy]
  · simp [buildCopy, cell]

/-- A second `Build` on the same builder carries everything put into the builder so far,
and the first token still reads what it read. -/
theorem buildCopy_twice (st : Store α) (b : Builder) (hv : Valid st b) (xs : List α) :
    let s1 := (buildCopy st b).1
    let t1 := (buildCopy st b).2
    let s2 := xs.foldl (fun s x => addFact s b x) s1
    let r := buildCopy s2 b
    view r.1 r.2 = cell s2 b.facts ∧ view r.1 t1 = cell st b.facts := by
  intro s1 t1 s2 r
  have hlen : s2.length = st.length + 1 := by
    have : ∀ (xs : List α) (s : Store α), (xs.foldl (fun s x => addFact s b x) s).length = s.length := by
      intro xs
      induction xs with
      | nil => intro s; rfl
      | cons x xs ih => intro s; simp only [List.foldl_cons]; rw [ih, addFact_length]
    rw [show s2 = xs.foldl (fun s x => addFact s b x) s1 from rfl, this]
    simp [s1, buildCopy]
  constructor
  · simp [r, buildCopy, view, cell]
  · have h1 := buildCopy_frame st b hv xs
    simp only [view] at h1
    show cell (s2 ++ [cell s2 b.facts]) t1.facts = cell st b.facts
    have ht : t1.facts = st.length := rfl
    rw [ht]
    have : cell (s2 ++ [cell s2 b.facts]) st.length = cell s2 st.length := by
      simp only [cell, List.getD_eq_getElem?_getD]
      rw [List.getElem?_append_left (by omega)]
    rw [this]
    exact h1

/-- **Pinned `Build`: the token changes.** One `AddAuthorityFact` after `Build` and the token
that was already built has a new fact. -/
theorem buildShared_changes :
    let st : Store Nat := [[1]]
    let b : Builder := { facts := 0 }
    let r := buildShared st b
    view r.1 r.2 = [1] ∧ view (addFact r.1 b 2) r.2 = [1, 2] := by
  decide

/-- Same scenario with the repaired `Build`. -/
example :
    let st : Store Nat := [[1]]
    let b : Builder := { facts := 0 }
    let r := buildCopy st b
    view r.1 r.2 = [1] ∧ view (addFact r.1 b 2) r.2 = [1] := by
  decide

end Biscuit.C08Builder
