/-
Props/C16 — the root key identifier travels with the token and selects exactly one key.
-/
import BiscuitModel.Proofs.Token

namespace Biscuit.C16
open Biscuit Biscuit.Wire

/-- One derivation step keeps the identifier (attenuation, sealing, reload). -/
theorem derive_keeps_rootKeyId (S : SigScheme) (e e' : BiscuitMsg) (op : DeriveOp)
    (hid : ∀ i, e.rootKeyId = some i → i < 2^32)
    (h : derive true S e op = .ok e') : e'.rootKeyId = e.rootKeyId := by
  sorry

/-- **C16, first sentence.** For every creation identifier (absent, 0, 2^32-1, any) and
every derivation history, the derived token reports the identifier given at creation. -/
theorem rootKeyId_invariant (S : SigScheme) (e0 e : BiscuitMsg) (ops : List DeriveOp)
    (hid : ∀ i, e0.rootKeyId = some i → i < 2^32)
    (h : deriveAll true S e0 ops = .ok e) : e.rootKeyId = e0.rootKeyId := by
  sorry

theorem build_reports_id (S : SigScheme) (rootSeed : Bytes) (id : Option Nat) (block : Bytes) (rng rng' : Rng)
    (e : BiscuitMsg) (h : buildEnvelope S rootSeed id block rng = .ok (e, rng')) : e.rootKeyId = id := by
  sorry

/-- D12, pinned: `Append` and `Seal` rebuilt the envelope without the identifier. -/
theorem pinned_append_drops_id (S : SigScheme) (e e' : BiscuitMsg) (block : Bytes) (rng rng' : Rng)
    (h : appendEnvelopeWith false S e block rng = .ok (e', rng')) : e'.rootKeyId = none := by
  sorry

theorem pinned_seal_drops_id (S : SigScheme) (e e' : BiscuitMsg)
    (h : sealEnvelopeWith false S e = .ok e') : e'.rootKeyId = none := by
  sorry

/-! Key lookup: decision logic stated outright. -/

/-- No identifier: the default key, or "no public key available". -/
theorem selectKey_none (keys : List (Nat × Bytes)) (d : Option Bytes) :
    selectKey none keys d =
      match d with
      | some k => if k.isEmpty then .error .noKey else .ok k
      | none => .error .noKey := by
  sorry

/-- With identifier `i`: exactly the first key registered under `i`; never the default,
never a key registered under another identifier. -/
theorem selectKey_some_ok (i : Nat) (keys : List (Nat × Bytes)) (d : Option Bytes) (k : Bytes)
    (h : selectKey (some i) keys d = .ok k) : (i, k) ∈ keys ∧ k ≠ [] := by
  sorry

theorem selectKey_some_absent (i : Nat) (keys : List (Nat × Bytes)) (d : Option Bytes)
    (h : ∀ kv ∈ keys, kv.1 ≠ i) : selectKey (some i) keys d = .error .noKey := by
  sorry

/-- The lookup result never depends on the default key when the token carries an identifier. -/
theorem selectKey_ignores_default (i : Nat) (keys : List (Nat × Bytes)) (d d' : Option Bytes) :
    selectKey (some i) keys d = selectKey (some i) keys d' := by
  sorry

/-- The chain is verified under exactly the selected key, and a missing key surfaces as
`noKey` before any signature is looked at. -/
theorem acceptWithKeys_uses_selected (S : SigScheme) (keys : List (Nat × Bytes)) (d : Option Bytes)
    (e : BiscuitMsg) (hs : sizeGates e = .ok ()) :
    acceptWithKeys S keys d e =
      match selectKey e.rootKeyId keys d with
      | .error r => .error r
      | .ok k => verifyChain S k e := by
  sorry

/-! Non-vacuity: a map with two ids and a default. -/
def kA : Bytes := List.replicate 32 1
def kB : Bytes := List.replicate 32 2
def kD : Bytes := List.replicate 32 3
example : selectKey (some 7) [(1, kA), (7, kB)] (some kD) = .ok kB := by rfl
example : selectKey (some 9) [(1, kA), (7, kB)] (some kD) = .error .noKey := by rfl
example : selectKey none [(1, kA), (7, kB)] (some kD) = .ok kD := by rfl

end Biscuit.C16
