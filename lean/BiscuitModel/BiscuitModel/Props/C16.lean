/-
Props/C16 — the root key identifier travels with the token and selects exactly one key.
-/
import BiscuitModel.Proofs.Token

namespace Biscuit.C16
open Biscuit Biscuit.Wire

/-- One derivation step keeps the identifier (attenuation, sealing, reload). -/
theorem derive_keeps_rootKeyId (S : SigScheme) (e e' : BiscuitMsg) (op : DeriveOp)
    (hid : ∀ i, e.rootKeyId = some i → i < 2^32)
    (h : derive true S e op = .ok e') : e'.rootKeyId = e.rootKeyId := by
  rcases op with ⟨block, rng⟩ | _ | _
  · simp only [derive] at h
    cases ha : appendEnvelopeWith true S e block rng with
    | error r => rw [ha] at h; cases h
    | ok p =>
      obtain ⟨e'', rng'⟩ := p
      rw [ha] at h
      simp only [Except.map, Except.ok.injEq] at h
      subst h
      obtain ⟨_, _, _, _, _, rfl⟩ := appendEnvelopeWith_ok true S e block rng rng' e'' ha
      rfl
  · obtain ⟨_, _, _, rfl⟩ := sealEnvelopeWith_ok true S e e' h
    rfl
  · rw [derive_reload_ok true S e e' h]
    exact normEnv_rootKeyId e hid

/-- **C16, first sentence.** For every creation identifier (absent, 0, 2^32-1, any) and
every derivation history, the derived token reports the identifier given at creation. -/
theorem rootKeyId_invariant (S : SigScheme) (e0 e : BiscuitMsg) (ops : List DeriveOp)
    (hid : ∀ i, e0.rootKeyId = some i → i < 2^32)
    (h : deriveAll true S e0 ops = .ok e) : e.rootKeyId = e0.rootKeyId := by
  induction ops generalizing e0 with
  | nil => simp only [deriveAll, Except.ok.injEq] at h; subst h; rfl
  | cons op ops ih =>
    simp only [deriveAll] at h
    cases hd : derive true S e0 op with
    | error r => rw [hd] at h; cases h
    | ok e1 =>
      rw [hd] at h
      have h1 := derive_keeps_rootKeyId S e0 e1 op hid hd
      rw [← h1]
      exact ih e1 (by rw [h1]; exact hid) h

theorem build_reports_id (S : SigScheme) (rootSeed : Bytes) (id : Option Nat) (block : Bytes) (rng rng' : Rng)
    (e : BiscuitMsg) (h : buildEnvelope S rootSeed id block rng = .ok (e, rng')) : e.rootKeyId = id := by
  obtain ⟨_, _, rfl⟩ := buildEnvelope_ok S rootSeed id block rng rng' e h
  rfl

/-- D12, pinned: `Append` and `Seal` rebuilt the envelope without the identifier. -/
theorem pinned_append_drops_id (S : SigScheme) (e e' : BiscuitMsg) (block : Bytes) (rng rng' : Rng)
    (h : appendEnvelopeWith false S e block rng = .ok (e', rng')) : e'.rootKeyId = none := by
  obtain ⟨_, _, _, _, _, rfl⟩ := appendEnvelopeWith_ok false S e block rng rng' e' h
  rfl

theorem pinned_seal_drops_id (S : SigScheme) (e e' : BiscuitMsg)
    (h : sealEnvelopeWith false S e = .ok e') : e'.rootKeyId = none := by
  obtain ⟨_, _, _, rfl⟩ := sealEnvelopeWith_ok false S e e' h
  rfl

/-! Key lookup: decision logic stated outright. -/

/-- No identifier: the default key, or "no public key available". -/
theorem selectKey_none (keys : List (Nat × Bytes)) (d : Option Bytes) :
    selectKey none keys d =
      match d with
      | some k => if k.isEmpty then .error .noKey else .ok k
      | none => .error .noKey := by
  rfl

/-- With identifier `i`: exactly the first key registered under `i`; never the default,
never a key registered under another identifier. -/
theorem selectKey_some_ok (i : Nat) (keys : List (Nat × Bytes)) (d : Option Bytes) (k : Bytes)
    (h : selectKey (some i) keys d = .ok k) : (i, k) ∈ keys ∧ k ≠ [] := by
  unfold selectKey at h
  simp only at h
  cases hf : keys.find? (fun kv => kv.1 == i) with
  | none => rw [hf] at h; cases h
  | some kv =>
    rw [hf] at h
    simp only at h
    by_cases he : kv.2.isEmpty = true
    · rw [if_pos he] at h; cases h
    · rw [if_neg he] at h
      simp only [Except.ok.injEq] at h
      have hmem := List.mem_of_find?_eq_some hf
      have hp := List.find?_some hf
      simp only [beq_iff_eq] at hp
      obtain ⟨a, b⟩ := kv
      simp only at hp h he
      subst hp; subst h
      refine ⟨hmem, ?_⟩
      intro hnil; rw [hnil] at he; exact he rfl

theorem selectKey_some_absent (i : Nat) (keys : List (Nat × Bytes)) (d : Option Bytes)
    (h : ∀ kv ∈ keys, kv.1 ≠ i) : selectKey (some i) keys d = .error .noKey := by
  unfold selectKey
  simp only
  have : keys.find? (fun kv => kv.1 == i) = none := by
    rw [List.find?_eq_none]
    intro kv hkv
    simpa using h kv hkv
  rw [this]

/-- The lookup result never depends on the default key when the token carries an identifier. -/
theorem selectKey_ignores_default (i : Nat) (keys : List (Nat × Bytes)) (d d' : Option Bytes) :
    selectKey (some i) keys d = selectKey (some i) keys d' := by
  rfl

/-- The chain is verified under exactly the selected key, and a missing key surfaces as
`noKey` before any signature is looked at. -/
theorem acceptWithKeys_uses_selected (S : SigScheme) (keys : List (Nat × Bytes)) (d : Option Bytes)
    (e : BiscuitMsg) (hs : sizeGates e = .ok ()) :
    acceptWithKeys S keys d e =
      match selectKey e.rootKeyId keys d with
      | .error r => .error r
      | .ok k => verifyChain S k e := by
  unfold acceptWithKeys
  rw [hs]
  cases selectKey e.rootKeyId keys d <;> rfl

/-! Non-vacuity: a map with two ids and a default. -/
def kA : Bytes := List.replicate 32 1
def kB : Bytes := List.replicate 32 2
def kD : Bytes := List.replicate 32 3
example : selectKey (some 7) [(1, kA), (7, kB)] (some kD) = .ok kB := by rfl
example : selectKey (some 9) [(1, kA), (7, kB)] (some kD) = .error .noKey := by rfl
example : selectKey none [(1, kA), (7, kB)] (some kD) = .ok kD := by rfl

/-! Lookup is a function of the token's own identifier and the entries registered under it;
the composition with derivation histories. -/

/-- Entries registered under other identifiers have no influence on the lookup at all. -/
theorem selectKey_only_own_entries (i : Nat) (keys : List (Nat × Bytes)) (d : Option Bytes) :
    selectKey (some i) keys d = selectKey (some i) (keys.filter (fun kv => kv.1 == i)) d := by
  unfold selectKey
  have : (keys.filter (fun kv => kv.1 == i)).find? (fun kv => kv.1 == i) = keys.find? (fun kv => kv.1 == i) := by
    rw [List.find?_filter]; congr 1; funext a; cases (a.1 == i) <;> simp
  simp only [this]

private theorem unique_of_nodup (i : Nat) (k : Bytes) :
    ∀ (keys : List (Nat × Bytes)), (keys.map Prod.fst).Nodup → (i, k) ∈ keys →
      keys.find? (fun kv => kv.1 == i) = some (i, k)
  | [], _, hm => by cases hm
  | (a, b) :: rest, hn, hm => by
    simp only [List.map_cons, List.nodup_cons] at hn
    by_cases ha : a = i
    · subst ha
      rcases List.mem_cons.1 hm with heq | hin
      · cases heq; simp
      · exact absurd (List.mem_map.2 ⟨(a, k), hin, rfl⟩) hn.1
    · rcases List.mem_cons.1 hm with heq | hin
      · cases heq; exact absurd rfl ha
      · rw [List.find?_cons_of_neg (by simpa using ha)]
        exact unique_of_nodup i k rest hn.2 hin

/-- Converse of `selectKey_some_ok` for a key *map* (one entry per identifier, as Go's
`map[uint32]ed25519.PublicKey`): the non-empty key registered under the token's identifier is the
one selected, whatever else the map and the default contain. -/
theorem selectKey_registered (i : Nat) (keys : List (Nat × Bytes)) (d : Option Bytes) (k : Bytes)
    (hmap : (keys.map Prod.fst).Nodup) (hreg : (i, k) ∈ keys) (hk : k ≠ []) :
    selectKey (some i) keys d = .ok k := by
  unfold selectKey
  simp only [unique_of_nodup i k keys hmap hreg]
  have : k.isEmpty = false := by cases k <;> simp_all
  simp [this]

/-- After any derivation history the lookup selects the key it selects for the token as created. -/
theorem derived_selects_creation_key (S : SigScheme) (e0 e : BiscuitMsg) (ops : List DeriveOp)
    (hid : ∀ i, e0.rootKeyId = some i → i < 2^32)
    (h : deriveAll true S e0 ops = .ok e) (keys : List (Nat × Bytes)) (d : Option Bytes) :
    selectKey e.rootKeyId keys d = selectKey e0.rootKeyId keys d := by
  rw [rootKeyId_invariant S e0 e ops hid h]

/-- … and the derived token's chain is verified under exactly that key. -/
theorem derived_accept_under_creation_key (S : SigScheme) (e0 e : BiscuitMsg) (ops : List DeriveOp)
    (hid : ∀ i, e0.rootKeyId = some i → i < 2^32)
    (h : deriveAll true S e0 ops = .ok e) (keys : List (Nat × Bytes)) (d : Option Bytes)
    (hs : sizeGates e = .ok ()) :
    acceptWithKeys S keys d e =
      match selectKey e0.rootKeyId keys d with
      | .error r => .error r
      | .ok k => verifyChain S k e := by
  rw [acceptWithKeys_uses_selected S keys d e hs, derived_selects_creation_key S e0 e ops hid h]

example : selectKey (some 7) [(1, kA), (7, kB), (9, kD)] (some kD) = selectKey (some 7) [(7, kB)] none := by rfl

end Biscuit.C16
