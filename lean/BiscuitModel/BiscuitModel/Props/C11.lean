/-
Props/C11 — evaluation is bounded; no silent truncation; limits honoured.

Clauses (a) limit errors, (b) never success without a fixpoint, (c) options reach
every run, stated on `Model/Datalog.run` and `Model/Authorizer`. Clause (d) (no
goroutine blocked forever) is the protocol model of `Model/Chan`, in Props/C11d.
The wall-clock limit is outside this model.
-/
import BiscuitModel.Proofs.Authorizer

namespace Biscuit.C11
open Biscuit

variable {V E : Type} [DecidableEq V]

/-- `maxIterations = 0` is reported, not success. -/
theorem run_zero_iterations (ev : Bindings V → E → Outcome Bool) (mf : Nat) (P : List (Rule V E))
    (F : List (Fact V)) : run ev mf P 0 F = (F, some .limitIter) := by
  rfl

/-- (b) A successful run reached its fixpoint: one more round derives nothing new. -/
theorem ok_is_fixpoint (ev : Bindings V → E → Outcome Bool) (mf mi : Nat) (P : List (Rule V E))
    (F W : List (Fact V)) (h : run ev mf P mi F = (W, none)) :
    ∃ new, stepAll ev W P [] = (new, none) ∧ ∀ f ∈ new, f ∈ W := by
  exact run_fixpoint ev mf P mi F W h

/-- (a) Success stays strictly below the fact limit (the code reports the limit as soon as
the count *reaches* `maxFacts`; the model follows the code). -/
theorem ok_below_fact_limit (ev : Bindings V → E → Outcome Bool) (mf mi : Nat) (P : List (Rule V E))
    (F W : List (Fact V)) (h : run ev mf P mi F = (W, none)) : W.length < mf := by
  exact run_ok_lt ev mf P mi F W h

/-- (a) The fact-limit error is raised only when the limit was really reached. -/
theorem fact_limit_sound (ev : Bindings V → E → Outcome Bool) (mf mi : Nat) (P : List (Rule V E))
    (F W : List (Fact V)) (h : run ev mf P mi F = (W, some .limitFacts)) : W.length ≥ mf := by
  exact run_limitFacts_ge ev mf P mi F W h

/-- The world only grows during a run, whatever the outcome. -/
theorem run_monotone (ev : Bindings V → E → Outcome Bool) (mf mi : Nat) (P : List (Rule V E))
    (F W : List (Fact V)) (e : Option RunErr) (h : run ev mf P mi F = (W, e)) : ∀ f ∈ F, f ∈ W := by
  exact run_subset ev mf P mi F W e h

/-- One round of a run that does not stop: the fact count strictly grows, so a run of
`mi` rounds that ends with the iteration limit has derived at least `mi` new facts. -/
theorem iter_limit_means_growth (ev : Bindings V → E → Outcome Bool) (mf mi : Nat) (P : List (Rule V E))
    (F W : List (Fact V)) (h : run ev mf P mi F = (W, some .limitIter)) : W.length ≥ F.length + mi := by
  exact run_limitIter_growth ev mf P mi F W h

/-- (a)+(b) for authorization: `Authorize` succeeds only if every run it performed —
the authority-level run and one per later block — completed without any error, in
particular without hitting a limit. -/
theorem authorize_ok_runs_completed (cfg : EvalCfg) (tok : Token) (s : AuthState)
    (h : (authorize cfg tok s).2 = .ok) :
    (∃ w ap, authorityPhase cfg tok.authority s = (w, .ok ap) ∧
      ∀ b ∈ tok.blocks,
        (runWorld cfg s.limits { facts := insertAll w.facts b.facts, rules := b.rules }).2 = none) := by
  cases hap : authorityPhase cfg tok.authority s with
  | mk w r =>
    cases r with
    | error e =>
      rw [authorize, authorizeWith_snd_err cfg false tok s w e hap] at h
      cases h
    | ok ap =>
      rw [authorize, authorizeWith_snd_ok cfg false tok s w ap hap] at h
      obtain ⟨hb, _⟩ := finish_eq_ok _ _ h
      exact ⟨w, ap, rfl, blockPhase_ok_runs cfg s.limits w.facts tok.blocks 1 ap.failed [] hb⟩

/-- A limit (or any other run error) in the authority-level run is the verdict. -/
theorem authorize_fails_on_authority_limit (cfg : EvalCfg) (tok : Token) (s : AuthState)
    (w : World) (e : RunErr) (h : authorityPhase cfg tok.authority s = (w, .error e)) :
    (authorize cfg tok s).2 = .runError e := by
  exact authorizeWith_snd_err cfg false tok s w e h

/-- (c) The limits given at construction are the limits of every later state, whatever
the history (adds, authorize, query, reset, save/load)… -/
theorem limits_preserved (cfg : EvalCfg) (pinned : Bool) (toks : List Token) (st : SeqState) (op : AuthOp) :
    (stepOpSeq cfg pinned toks st op).1.auth.limits = st.auth.limits := by
  exact stepOpSeq_limits cfg pinned toks st op

/-- …and a fresh authorizer carries exactly the supplied limits. -/
theorem fresh_limits (lim : Limits) : (AuthState.fresh lim).limits = lim := by
  rfl

/-- …and they are what `Query` runs under. -/
theorem query_uses_limits (cfg : EvalCfg) (s : AuthState) (q : DRule) (e : RunErr)
    (h : (runWorld cfg s.limits s.world).2 = some e) : (query cfg s q).2 = .error e := by
  unfold query
  split
  · next w e' heq =>
    rw [heq] at h
    simp only [Option.some.injEq] at h
    subst h; rfl
  · next w heq =>
    rw [heq] at h
    cases h

/-! Non-vacuity: a diverging program (successor through `+`) hits each limit. -/

def cfg0 : EvalCfg := { rx := fun _ _ => none }
def n0 : DFact := { name := [110], args := [.atom (.int 0)] }
/-- n($y) <- n($x), m($x, $y)  with m a finite successor table would terminate; here the
rule body is n($x) and the head is a constant-free copy, which loops only through facts.
We use a 3-step chain to exercise the limits exactly. -/
def succF (a b : Int) : DFact := { name := [109], args := [.atom (.int a), .atom (.int b)] }
def stepR : DRule := { head := { name := [110], terms := [.var [121]] },
                       body := [{ name := [110], terms := [.var [120]] }, { name := [109], terms := [.var [120], .var [121]] }],
                       exprs := [] }
def chain : List DFact := [n0, succF 0 1, succF 1 2, succF 2 3]

example : (run (evalBool cfg0) 1000 [stepR] 100 chain).2 = none := by decide
example : (run (evalBool cfg0) 1000 [stepR] 3 chain).2 = some .limitIter := by decide
example : (run (evalBool cfg0) 1000 [stepR] 4 chain).2 = none := by decide
example : (run (evalBool cfg0) 7 [stepR] 100 chain).2 = some .limitFacts := by decide
example : (run (evalBool cfg0) 8 [stepR] 100 chain).2 = none := by decide

end Biscuit.C11
