/-
Props/C11d — clause (d) of C11: after an evaluation returns, no goroutine it started stays
blocked forever. Stated on the protocol model `Model/Chan`. PARTIAL with respect to the
property: the Go scheduler, timers and goroutine lifetime are runtime behaviour this
model cannot exhibit; the tie to the code is the goroutine profile taken by the harness
after every case.
-/
import BiscuitModel.Proofs.Chan

namespace Biscuit.C11d
open Biscuit.Chan

/-- **APPLY, repaired.** From every initial configuration — any number of combinations,
the consumer returning early at any point or not at all — every execution that can no
longer move has both goroutines terminated. -/
theorem apply_no_strand_partial (items : Nat) (early : Option Nat) (c : ApplyCfg)
    (hr : ApplyReach true (applyInit items early) c) (ht : applyTerminal true c) : applyAllDone c := by
  refine applyInv_terminal (applyInv_reach ?_ hr) ht
  intro h
  simp [applyInit] at h

/-- Progress measure: executions are finite (no livelock either). -/
def applyMeasure (c : ApplyCfg) : Nat :=
  (match c.prod with | .sending n => 2 * n + 2 | .finished => 0) +
  (match c.cons with | .taking (some k) => 2 * k + 2 | .taking none => 1 | .returned => 0)

theorem apply_steps_decrease (repaired : Bool) (c c' : ApplyCfg) (h : c' ∈ applyStep repaired c) :
    applyMeasure c' < applyMeasure c := by
  obtain ⟨p, k, s⟩ := c
  revert c'
  rcases p with (_ | n) | _ <;> rcases k with (_ | _ | k) | _ <;> cases s <;>
    simp [applyStep, applyMeasure] <;> omega

/-- **APPLY, pinned (D8).** Two combinations and a consumer that returns after the first
(an invalid rule with two matches): the producer stays blocked on its second send. -/
theorem apply_strands_pinned :
    ∃ c, ApplyReach false (applyInit 2 (some 1)) c ∧ applyTerminal false c ∧ c.prod = .sending 1 := by
  refine ⟨{ prod := .sending 1, cons := .returned, stopClosed := false }, ?_, rfl, rfl⟩
  refine .step (c := { prod := .sending 1, cons := .taking (some 0), stopClosed := false }) ?_ (by decide)
  exact .step .refl (by decide)

/-- The pinned protocol is fine exactly when the consumer never returns early — which is
why the 306 tests never saw it. -/
theorem apply_pinned_ok_without_early_exit (items : Nat) (c : ApplyCfg)
    (hr : ApplyReach false (applyInit items none) c) (ht : applyTerminal false c) : applyAllDone c := by
  exact applyInvNone_terminal (applyInvNone_reach (Or.inl rfl) hr) ht

/-- **RUN, repaired.** Whatever the moment the timeout fires, every execution that can no
longer move has the evaluation goroutine exited and the caller returned. -/
theorem run_no_strand_partial (c : RunCfg) (hr : RunReach true c) (ht : runTerminal true c) :
    c.worker = .exited ∧ c.caller = .returned := by
  -- terminality alone forces both; reachability is not needed in the repaired protocol
  have _ := hr
  exact run_terminal_done ht

/-- **RUN, pinned (D8).** The timeout wins the race: the evaluation goroutine blocks forever
on its unbuffered `done <-`. -/
theorem run_strands_pinned :
    ∃ c, RunReach false c ∧ runTerminal false c ∧ c.worker = .delivering ∧ c.caller = .returned := by
  refine ⟨{ worker := .delivering, caller := .returned, timedOut := true, buffered := false },
    ?_, rfl, rfl, rfl⟩
  refine .step (c := { worker := .delivering, caller := .waiting, timedOut := true, buffered := false }) ?_ (by decide)
  refine .step (c := { worker := .computing, caller := .waiting, timedOut := true, buffered := false }) ?_ (by decide)
  exact .step .init (by decide)

def runMeasure (c : RunCfg) : Nat :=
  (match c.worker with | .computing => 4 | .delivering => 2 | .exited => 0) +
  (match c.caller with | .waiting => 3 | .returned => 0) +
  (if c.timedOut then 0 else 1) + (if c.buffered then 1 else 0)

theorem run_steps_decrease (repaired : Bool) (c c' : RunCfg) (h : c' ∈ runStep repaired c) :
    runMeasure c' < runMeasure c := by
  obtain ⟨w, k, t, b⟩ := c
  revert c'
  cases repaired <;> cases w <;> cases k <;> cases t <;> cases b <;>
    simp [runStep, runMeasure]

/-! Non-vacuity: the repaired APPLY protocol on the D8 shape reaches a state with everything done. -/
example : ApplyReach true (applyInit 2 (some 1)) { prod := .finished, cons := .returned, stopClosed := true } := by
  refine .step (c := { prod := .sending 1, cons := .returned, stopClosed := true }) ?_ (by decide)
  refine .step (c := { prod := .sending 1, cons := .taking (some 0), stopClosed := false }) ?_ (by decide)
  exact .step .refl (by decide)

end Biscuit.C11d
