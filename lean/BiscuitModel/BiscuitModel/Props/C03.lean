/-
Props/C03 — block scoping: a later block's facts and rules reach only its own checks.

Value level: worlds are values. (That the code's header-copy `World.Clone` is
observationally a value copy for the access pattern of `Authorize` is the heap
statement `clone_header_copy_refines_value_copy` in Props/C08Heap.)
-/
import BiscuitModel.Proofs.Authorizer

namespace Biscuit.C03
open Biscuit

/-- The authorizer state left by `Authorize` — hence every later `Query` — does not
depend on the later blocks at all: not on their facts, rules, checks, number or order. -/
theorem state_indep_of_blocks (cfg : EvalCfg) (A : Block) (bs bs' : List Block) (s : AuthState) :
    (authorize cfg ⟨A, bs⟩ s).1 = (authorize cfg ⟨A, bs'⟩ s).1 := by
  simp only [authorize, authorizeWith_fst_false]

/-- Queries issued after `Authorize` see the authority-level world only. -/
theorem query_indep_of_blocks (cfg : EvalCfg) (A : Block) (bs bs' : List Block) (s : AuthState)
    (q : DRule) :
    query cfg (authorize cfg ⟨A, bs⟩ s).1 q = query cfg (authorize cfg ⟨A, bs'⟩ s).1 q := by
  rw [state_indep_of_blocks cfg A bs bs' s]

/-- The result of one block (run error, or its failed checks) is a function of the
authority-level facts and of that block alone. -/
def blockResults (cfg : EvalCfg) (lim : Limits) (base : List DFact) : List Block → Nat → List (Except RunErr (List CheckId))
  | [], _ => []
  | b :: bs, idx => evalBlock cfg lim base b idx :: blockResults cfg lim base bs (idx + 1)

/-- Assembling the verdict from the authority phase and the per-block results:
first run error in block order, else all failures in order, else the policy. -/
def assemble (ap : AuthorityPhase) : List (Except RunErr (List CheckId)) → List CheckId → Verdict
  | [], acc => if !acc.isEmpty then .checksFailed acc else policyVerdict ap.policy
  | .error e :: _, _ => .runError e
  | .ok failed :: rest, acc => assemble ap rest (acc ++ failed)

/-- **Decomposition.** The verdict is assembled from (i) the authority phase, which
does not mention the later blocks, and (ii) one independent result per block. -/
theorem verdict_decomposition (cfg : EvalCfg) (tok : Token) (s : AuthState) (w : World)
    (ap : AuthorityPhase) (h : authorityPhase cfg tok.authority s = (w, .ok ap)) :
    (authorize cfg tok s).2 =
      assemble ap (blockResults cfg s.limits w.facts tok.blocks 1) ap.failed := by
  have key : ∀ (bs : List Block) (idx : Nat) (acc : List CheckId),
      finish ap.policy (blockPhase cfg s.limits w.facts bs idx acc) =
        assemble ap (blockResults cfg s.limits w.facts bs idx) acc := by
    intro bs
    induction bs with
    | nil => intro idx acc; rfl
    | cons b bs ih =>
      intro idx acc
      simp only [blockPhase, blockResults]
      cases evalBlock cfg s.limits w.facts b idx with
      | error e => rfl
      | ok failed => exact ih (idx + 1) (acc ++ failed)
  rw [authorize, authorizeWith_snd_ok cfg false tok s w ap h]
  exact key _ _ _

/-- **C03.** Replacing the facts and rules of the block at position `pre.length`
(keeping its checks) leaves the result of every other block unchanged … -/
theorem other_blocks_unaffected (cfg : EvalCfg) (lim : Limits) (base : List DFact)
    (pre post : List Block) (b b' : Block) (start : Nat) (j : Nat) (hj : j ≠ pre.length) :
    (blockResults cfg lim base (pre ++ b :: post) start)[j]? =
    (blockResults cfg lim base (pre ++ b' :: post) start)[j]? := by
  induction pre generalizing start j with
  | nil =>
    cases j with
    | zero => exact absurd rfl hj
    | succ j => simp only [List.nil_append, blockResults, List.getElem?_cons_succ]
  | cons p pre ih =>
    cases j with
    | zero => simp only [List.cons_append, blockResults, List.getElem?_cons_zero]
    | succ j =>
      simp only [List.cons_append, blockResults, List.getElem?_cons_succ]
      exact ih (start + 1) j (fun hj' => hj (by simp only [List.length_cons, hj']))

/-- … and, when neither variant hits a run error, the failed checks that do not belong
to that block are the same, as is the policy outcome when nothing fails. -/
theorem failed_ids_other_blocks (cfg : EvalCfg) (A : Block) (pre post : List Block) (b b' : Block)
    (s : AuthState) (ids ids' : List CheckId)
    (h : (authorize cfg ⟨A, pre ++ b :: post⟩ s).2 = .checksFailed ids)
    (h' : (authorize cfg ⟨A, pre ++ b' :: post⟩ s).2 = .checksFailed ids') :
    ids.filter (fun i => match i with | .block k _ => k ≠ pre.length + 1 | _ => true) =
    ids'.filter (fun i => match i with | .block k _ => k ≠ pre.length + 1 | _ => true) := by
  cases hap : authorityPhase cfg A s with
  | mk w r =>
    cases r with
    | error e =>
      rw [authorize, authorizeWith_snd_err cfg false ⟨A, pre ++ b :: post⟩ s w e hap] at h
      cases h
    | ok ap =>
      rw [authorize, authorizeWith_snd_ok cfg false ⟨A, pre ++ b :: post⟩ s w ap hap] at h
      rw [authorize, authorizeWith_snd_ok cfg false ⟨A, pre ++ b' :: post⟩ s w ap hap] at h'
      obtain ⟨a, fb, t, h1, h2, h3, rfl⟩ := blockPhase_mid cfg _ _ _ _ _ _ _ _ (finish_eq_checksFailed _ _ _ h)
      obtain ⟨a', fb', t', h1', h2', h3', rfl⟩ := blockPhase_mid cfg _ _ _ _ _ _ _ _ (finish_eq_checksFailed _ _ _ h')
      rw [h1] at h1'
      rw [h3] at h3'
      cases h1'
      cases h3'
      have hnil : ∀ (l : List CheckId), (∀ x ∈ l, ∃ c, x = CheckId.block (1 + pre.length) c) →
          l.filter (fun i => match i with | .block k _ => k ≠ pre.length + 1 | _ => true) = [] := by
        intro l hl
        rw [List.filter_eq_nil_iff]
        intro x hx
        obtain ⟨c, rfl⟩ := hl x hx
        simp only [ne_eq, decide_not, Bool.not_eq_eq_eq_not, Bool.not_true, decide_eq_false_iff_not, Decidable.not_not]
        omega
      simp only [List.filter_append, hnil fb (evalBlock_ok_forall cfg _ _ _ _ _ h2),
        hnil fb' (evalBlock_ok_forall cfg _ _ _ _ _ h2')]

/-- Renumber the checks of blocks after position `k` down by one (the block at `k` removed). -/
def dropBlockId (k : Nat) : CheckId → CheckId
  | .block b c => if b > k then .block (b - 1) c else .block b c
  | i => i

def dropBlockVerdict (k : Nat) : Verdict → Verdict
  | .checksFailed ids => .checksFailed (ids.map (dropBlockId k))
  | v => v

/-- A block without checks whose own evaluation completes is inert: removing it gives
the same verdict (failed-check ids of later blocks renumbered). This is the
observation the property anchors: outcome compared between `T` and `T` plus
check-free blocks. -/
theorem checkfree_block_is_inert (cfg : EvalCfg) (A : Block) (pre post : List Block) (b : Block)
    (s : AuthState) (hb : b.checks = []) (w : World) (ap : AuthorityPhase)
    (hap : authorityPhase cfg A s = (w, .ok ap))
    (hok : ∃ l, evalBlock cfg s.limits w.facts b (pre.length + 1) = .ok l) :
    dropBlockVerdict (pre.length + 1) (authorize cfg ⟨A, pre ++ b :: post⟩ s).2 =
      (authorize cfg ⟨A, pre ++ post⟩ s).2 := by
  have hf0 : ∀ c, dropBlockId (pre.length + 1) (.block 0 c) = .block 0 c := by
    intro c; simp [dropBlockId]
  have hfA : ∀ c, dropBlockId (pre.length + 1) (.authorizer c) = .authorizer c := fun _ => rfl
  rw [authorize, authorizeWith_snd_ok cfg false ⟨A, pre ++ b :: post⟩ s w ap hap]
  rw [authorize, authorizeWith_snd_ok cfg false ⟨A, pre ++ post⟩ s w ap hap]
  simp only
  rw [blockPhase_append, blockPhase_append]
  cases hpre : blockPhase cfg s.limits w.facts pre 1 ap.failed with
  | error e => rfl
  | ok a =>
    simp only [blockPhase]
    obtain ⟨l, hl⟩ := hok
    have hidx : 1 + pre.length = pre.length + 1 := by omega
    rw [hidx, hl]
    have hlnil := evalBlock_nochecks cfg _ _ _ _ hb l hl
    subst hlnil
    simp only [List.append_nil]
    have ha : a.map (dropBlockId (pre.length + 1)) = a := by
      refine blockPhase_map_id cfg _ _ _ pre 1 ap.failed a hpre ?_
        (authorityPhase_failed_map cfg A s w ap hap _ hfA hf0)
      intro j c h1 h2
      simp only [dropBlockId]
      rw [if_neg (by omega)]
    have hshift := blockPhase_shift cfg s.limits w.facts (dropBlockId (pre.length + 1)) post
      (pre.length + 1) a (by
        intro j c hj
        simp only [dropBlockId]
        rw [if_pos (by omega)]
        rfl)
    rw [ha] at hshift
    rw [← hshift]
    cases blockPhase cfg s.limits w.facts post (pre.length + 1 + 1) a with
    | error e => rfl
    | ok out =>
      simp only [Except.map, finish]
      cases out with
      | nil =>
        simp only [List.map_nil, List.isEmpty_nil, Bool.not_true, Bool.false_eq_true, if_false]
        cases ap.policy with
        | none => rfl
        | some k => cases k <;> rfl
      | cons x xs => rfl

/-- **Second sentence.** Every authority-level fact (authority block and authorizer
facts and what their rules derive) is visible in every block's world. -/
theorem authority_visible_everywhere (cfg : EvalCfg) (lim : Limits) (base : List DFact) (b : Block)
    (w : World) (h : runWorld cfg lim { facts := insertAll base b.facts, rules := b.rules } = (w, none)) :
    ∀ f ∈ base, f ∈ w.facts := by
  intro f hf
  simp only [runWorld, Prod.mk.injEq] at h
  obtain ⟨hw, he⟩ := h
  rw [← hw]
  cases hr : run (evalBool cfg) lim.maxFacts b.rules lim.maxIter (insertAll base b.facts) with
  | mk W e =>
    exact run_subset (evalBool cfg) lim.maxFacts b.rules lim.maxIter _ W e hr
      f ((mem_insertAll _ _ _).2 (Or.inl hf))

/-! Non-vacuity: block 1 derives exactly the fact the policy asks for, and the policy
still does not match; block 2's check does not see block 1's fact. -/

def cfg0 : EvalCfg := { rx := fun _ _ => none }
def fAdmin : DFact := { name := [97], args := [] }                                  -- a()
def qAdmin : DRule := { head := { name := [113], terms := [] }, body := [{ name := [97], terms := [] }], exprs := [] }
def tokP : Token :=
  { authority := { facts := [], rules := [], checks := [] },
    blocks := [ { facts := [fAdmin], rules := [], checks := [{ queries := [qAdmin] }] },
                { facts := [], rules := [], checks := [{ queries := [qAdmin] }] } ] }
def authP : AuthState :=
  addPolicy (AuthState.fresh { maxFacts := 1000, maxIter := 100 }) { kind := .allow, queries := [qAdmin] }

example : (authorize cfg0 tokP authP).2 = .checksFailed [.block 2 0] := by decide
example : (authorize cfg0 { tokP with blocks := tokP.blocks.take 1 } authP).2 = .noMatch := by decide

end Biscuit.C03
