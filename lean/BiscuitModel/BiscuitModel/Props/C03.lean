/-
Props/C03 — block scoping: a later block's facts and rules reach only its own checks.

Value level: worlds are values. (That the code's header-copy `World.Clone` is
observationally a value copy for the access pattern of `Authorize` is the heap
statement `clone_header_copy_refines_value_copy` in Props/C08Heap.)
-/
import BiscuitModel.Proofs.Authorizer

namespace Biscuit.C03
open Biscuit

/-- The authorizer state left by `Authorize` — hence every later `Query` — does not
depend on the later blocks at all: not on their facts, rules, checks, number or order. -/
theorem state_indep_of_blocks (cfg : EvalCfg) (A : Block) (bs bs' : List Block) (s : AuthState) :
    (authorize cfg ⟨A, bs⟩ s).1 = (authorize cfg ⟨A, bs'⟩ s).1 := by
  sorry

/-- Queries issued after `Authorize` see the authority-level world only. -/
theorem query_indep_of_blocks (cfg : EvalCfg) (A : Block) (bs bs' : List Block) (s : AuthState)
    (q : DRule) :
    query cfg (authorize cfg ⟨A, bs⟩ s).1 q = query cfg (authorize cfg ⟨A, bs'⟩ s).1 q := by
  sorry

/-- The result of one block (run error, or its failed checks) is a function of the
authority-level facts and of that block alone. -/
def blockResults (cfg : EvalCfg) (lim : Limits) (base : List DFact) : List Block → Nat → List (Except RunErr (List CheckId))
  | [], _ => []
  | b :: bs, idx => evalBlock cfg lim base b idx :: blockResults cfg lim base bs (idx + 1)

/-- Assembling the verdict from the authority phase and the per-block results:
first run error in block order, else all failures in order, else the policy. -/
def assemble (ap : AuthorityPhase) : List (Except RunErr (List CheckId)) → List CheckId → Verdict
  | [], acc => if !acc.isEmpty then .checksFailed acc else policyVerdict ap.policy
  | .error e :: _, _ => .runError e
  | .ok failed :: rest, acc => assemble ap rest (acc ++ failed)

/-- **Decomposition.** The verdict is assembled from (i) the authority phase, which
does not mention the later blocks, and (ii) one independent result per block. -/
theorem verdict_decomposition (cfg : EvalCfg) (tok : Token) (s : AuthState) (w : World)
    (ap : AuthorityPhase) (h : authorityPhase cfg tok.authority s = (w, .ok ap)) :
    (authorize cfg tok s).2 =
      assemble ap (blockResults cfg s.limits w.facts tok.blocks 1) ap.failed := by
  sorry

/-- **C03.** Replacing the facts and rules of the block at position `pre.length`
(keeping its checks) leaves the result of every other block unchanged … -/
theorem other_blocks_unaffected (cfg : EvalCfg) (lim : Limits) (base : List DFact)
    (pre post : List Block) (b b' : Block) (start : Nat) (j : Nat) (hj : j ≠ pre.length) :
    (blockResults cfg lim base (pre ++ b :: post) start)[j]? =
    (blockResults cfg lim base (pre ++ b' :: post) start)[j]? := by
  sorry

/-- … and, when neither variant hits a run error, the failed checks that do not belong
to that block are the same, as is the policy outcome when nothing fails. -/
theorem failed_ids_other_blocks (cfg : EvalCfg) (A : Block) (pre post : List Block) (b b' : Block)
    (s : AuthState) (ids ids' : List CheckId)
    (h : (authorize cfg ⟨A, pre ++ b :: post⟩ s).2 = .checksFailed ids)
    (h' : (authorize cfg ⟨A, pre ++ b' :: post⟩ s).2 = .checksFailed ids') :
    ids.filter (fun i => match i with | .block k _ => k ≠ pre.length + 1 | _ => true) =
    ids'.filter (fun i => match i with | .block k _ => k ≠ pre.length + 1 | _ => true) := by
  sorry

/-- Renumber the checks of blocks after position `k` down by one (the block at `k` removed). -/
def dropBlockId (k : Nat) : CheckId → CheckId
  | .block b c => if b > k then .block (b - 1) c else .block b c
  | i => i

def dropBlockVerdict (k : Nat) : Verdict → Verdict
  | .checksFailed ids => .checksFailed (ids.map (dropBlockId k))
  | v => v

/-- A block without checks whose own evaluation completes is inert: removing it gives
the same verdict (failed-check ids of later blocks renumbered). This is the
observation the property anchors: outcome compared between `T` and `T` plus
check-free blocks. -/
theorem checkfree_block_is_inert (cfg : EvalCfg) (A : Block) (pre post : List Block) (b : Block)
    (s : AuthState) (hb : b.checks = []) (w : World) (ap : AuthorityPhase)
    (hap : authorityPhase cfg A s = (w, .ok ap))
    (hok : ∃ l, evalBlock cfg s.limits w.facts b (pre.length + 1) = .ok l) :
    dropBlockVerdict (pre.length + 1) (authorize cfg ⟨A, pre ++ b :: post⟩ s).2 =
      (authorize cfg ⟨A, pre ++ post⟩ s).2 := by
  sorry

/-- **Second sentence.** Every authority-level fact (authority block and authorizer
facts and what their rules derive) is visible in every block's world. -/
theorem authority_visible_everywhere (cfg : EvalCfg) (lim : Limits) (base : List DFact) (b : Block)
    (w : World) (h : runWorld cfg lim { facts := insertAll base b.facts, rules := b.rules } = (w, none)) :
    ∀ f ∈ base, f ∈ w.facts := by
  sorry

/-! Non-vacuity: block 1 derives exactly the fact the policy asks for, and the policy
still does not match; block 2's check does not see block 1's fact. -/

def cfg0 : EvalCfg := { rx := fun _ _ => none }
def fAdmin : DFact := { name := [97], args := [] }                                  -- a()
def qAdmin : DRule := { head := { name := [113], terms := [] }, body := [{ name := [97], terms := [] }], exprs := [] }
def tokP : Token :=
  { authority := { facts := [], rules := [], checks := [] },
    blocks := [ { facts := [fAdmin], rules := [], checks := [{ queries := [qAdmin] }] },
                { facts := [], rules := [], checks := [{ queries := [qAdmin] }] } ] }
def authP : AuthState :=
  addPolicy (AuthState.fresh { maxFacts := 1000, maxIter := 100 }) { kind := .allow, queries := [qAdmin] }

example : (authorize cfg0 tokP authP).2 = .checksFailed [.block 2 0] := by decide
example : (authorize cfg0 { tokP with blocks := tokP.blocks.take 1 } authP).2 = .noMatch := by decide

end Biscuit.C03
