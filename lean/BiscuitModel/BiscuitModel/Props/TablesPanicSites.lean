/-
Props/TablesPanicSites — C10's site inventory: the constructs of the decode / verify /
evaluate path that can panic on untrusted input (explicit panic calls, single-value type
assertions, dereferences of optional protobuf fields `*x.Field`, interface-keyed maps,
key functions with length preconditions), per function, regenerated from the source by
go/ast on every run. Each listed site is covered by a guard in the model (Props/C10) and
by the adversarial stream of the crash harness; a NEW site in the source breaks this tie,
so "these are all the places" is re-checked against the code rather than asserted once.
-/
import BiscuitModel.Generated.Tables

namespace Biscuit.Tables

/- Reviewed after fixes 17e37bc / fa8fe31 (Build copies, checkDeclaredSymbols): the new entries are
`*b.facts` in builderOptions.Build (the field is set by NewBuilder and never nil) and `*block.facts`
in checkDeclaredSymbols (guarded by a nil test).
Reviewed after fixes 9b20311 / 4a66546 (LoadPolicies: declared-symbols rule, translation into the
authorizer's table): loadPoliciesV2 goes from 1 to 4 dereferences of a field — besides `*pbPolicy.Kind`
(mandatory field, refused by proto.Unmarshal when absent) three times `*content.facts`, a field of the
scratch block that the function itself sets to a non-nil fact set two lines above. -/

def knownPanicSites : List (String × Nat) := [("authorizer.go:NewVerifier:deref-field", 1), ("authorizer.go:authorizer.Authorize:deref-field", 2), ("authorizer.go:authorizer.SerializePolicies:deref-field", 5), ("authorizer.go:authorizer.loadPoliciesV2:deref-field", 4), ("biscuit.go:Biscuit.Append:deref-field", 2), ("biscuit.go:Biscuit.Append:key-precondition", 2), ("biscuit.go:Biscuit.GetBlockID:deref-field", 2), ("biscuit.go:Biscuit.Seal:deref-field", 3), ("biscuit.go:Biscuit.Seal:key-precondition", 1), ("biscuit.go:Biscuit.String:deref-field", 1), ("biscuit.go:Biscuit.authorizerFor:deref-field", 3), ("biscuit.go:Biscuit.authorizerFor:key-precondition", 4), ("biscuit.go:Biscuit.authorizerFor:unchecked-assertion", 1), ("biscuit.go:Biscuit.generateWorld:deref-field", 2), ("biscuit.go:newBiscuit:key-precondition", 1), ("builder.go:blockBuilder.Build:deref-field", 2), ("builder.go:builderOptions.Build:deref-field", 2), ("builder.go:checkDeclaredSymbols:deref-field", 1), ("converters.go:tokenBlockToProtoBlock:deref-field", 4), ("converters_v2.go:protoExprBinaryToTokenExprBinary:deref-field", 1), ("converters_v2.go:protoExprUnaryToTokenExprUnary:deref-field", 1), ("converters_v2.go:protoExpressionToTokenExpressionV2:deref-field", 3), ("converters_v2.go:protoIDToTokenIDV2:deref-field", 7), ("converters_v2.go:protoPredicateToTokenPredicateV2:deref-field", 1), ("converters_v2.go:tokenCheckToProtoCheckV2:deref-field", 1), ("converters_v2.go:tokenExpressionToProtoExpressionV2:deref-field", 1), ("converters_v2.go:tokenExpressionToProtoExpressionV2:unchecked-assertion", 3), ("converters_v2.go:tokenIDToProtoIDV2:deref-field", 2), ("converters_v2.go:tokenIDToProtoIDV2:unchecked-assertion", 7), ("converters_v2.go:tokenPredicateToProtoPredicateV2:deref-field", 1), ("converters_v2.go:tokenRuleToProtoRuleV2:deref-field", 2), ("datalog/datalog.go:World.Clone:deref-field", 1), ("datalog/datalog.go:World.Query:deref-field", 1), ("datalog/datalog.go:World.Run:deref-field", 2), ("datalog/expressions.go:Expression.Evaluate:unchecked-assertion", 5), ("datalog/expressions.go:Expression.Print:unchecked-assertion", 5), ("datalog/expressions.go:GreaterOrEqual.Eval:unchecked-assertion", 4), ("datalog/expressions.go:GreaterThan.Eval:unchecked-assertion", 4), ("datalog/expressions.go:Length.Eval:unchecked-assertion", 3), ("datalog/expressions.go:LessOrEqual.Eval:unchecked-assertion", 4), ("datalog/expressions.go:LessThan.Eval:unchecked-assertion", 4), ("datalog/expressions.go:Negate.Eval:unchecked-assertion", 1), ("datalog/symbol.go:SymbolDebugger.World:deref-field", 2), ("datalog/symbol.go:SymbolTable.Index:panic-call", 1), ("datalog/symbol.go:SymbolTable.SplitOff:panic-call", 1), ("types.go:BinaryOp.convert:panic-call", 1), ("types.go:Block.Code:deref-field", 2), ("types.go:Block.String:deref-field", 1), ("types.go:UnaryOp.convert:panic-call", 1), ("types.go:fromDatalogExpression:unchecked-assertion", 3), ("types.go:fromDatalogID:unchecked-assertion", 7)]

theorem panicSites_tied : Generated.panicSites = knownPanicSites := by decide +kernel

end Biscuit.Tables
