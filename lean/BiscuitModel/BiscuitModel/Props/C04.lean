/-
Props/C04 — the authorization verdict follows the specified decision procedure.

The specification (Spec/Decision) is declarative: scopes are closures defined by
derivability; a check holds when one of its queries is satisfiable in its scope; the
verdict is decided by the checks and by the first policy that holds. The theorems
relate `Model/Authorizer.authorize` — which follows the Go code's evaluation order —
to that specification, inside the specified fragment (`WithinFragment`).
-/
import BiscuitModel.Proofs.Decision

namespace Biscuit.C04
open Biscuit

/-- All checks hold: the authorizer's and the authority block's in the authority scope,
each later block's in that block's scope. -/
def AllChecksHold (cfg : EvalCfg) (tok : Token) (s : AuthState) : Prop :=
  (∀ c ∈ s.checks, CheckHolds cfg (authorityScope cfg tok.authority s) c) ∧
  (∀ c ∈ tok.authority.checks, CheckHolds cfg (authorityScope cfg tok.authority s) c) ∧
  (∀ b ∈ tok.blocks, ∀ c ∈ b.checks, CheckHolds cfg (blockScope cfg tok.authority s b) c)

/-- **C04, success.** Authorization succeeds exactly when every check holds in its
scope and the first policy that holds in the authority scope is an allow policy. -/
theorem authorize_ok_iff (cfg : EvalCfg) (tok : Token) (s : AuthState)
    (hf : WithinFragment cfg tok s) :
    (authorize cfg tok s).2 = .ok ↔
      AllChecksHold cfg tok s ∧
      FirstPolicyIs cfg (authorityScope cfg tok.authority s) s.policies .allow := by
  obtain ⟨w, ids, hscope, hqp, hv, hmem⟩ := authorize_frag cfg tok s hf
  have hnil : ids = [] ↔ AllChecksHold cfg tok s :=
    (eq_nil_iff_no_failing hmem).trans (no_failing_iff cfg tok s)
  rw [hv, ← hnil, ← firstPolicy_some_iff cfg w.facts _ hscope .allow s.policies hqp,
    ← policyVerdict_ok_iff]
  cases ids with
  | nil => simp
  | cons a as => simp

/-- **Policy denial**: all checks hold and the first policy that holds is a deny policy. -/
theorem authorize_denied_iff (cfg : EvalCfg) (tok : Token) (s : AuthState)
    (hf : WithinFragment cfg tok s) :
    (authorize cfg tok s).2 = .denied ↔
      AllChecksHold cfg tok s ∧
      FirstPolicyIs cfg (authorityScope cfg tok.authority s) s.policies .deny := by
  obtain ⟨w, ids, hscope, hqp, hv, hmem⟩ := authorize_frag cfg tok s hf
  have hnil : ids = [] ↔ AllChecksHold cfg tok s :=
    (eq_nil_iff_no_failing hmem).trans (no_failing_iff cfg tok s)
  rw [hv, ← hnil, ← firstPolicy_some_iff cfg w.facts _ hscope .deny s.policies hqp,
    ← policyVerdict_denied_iff]
  cases ids with
  | nil => simp
  | cons a as => simp

/-- **No matching policy**: all checks hold and no policy holds. -/
theorem authorize_nomatch_iff (cfg : EvalCfg) (tok : Token) (s : AuthState)
    (hf : WithinFragment cfg tok s) :
    (authorize cfg tok s).2 = .noMatch ↔
      AllChecksHold cfg tok s ∧
      ∀ p ∈ s.policies, ¬ PolicyHolds cfg (authorityScope cfg tok.authority s) p := by
  obtain ⟨w, ids, hscope, hqp, hv, hmem⟩ := authorize_frag cfg tok s hf
  have hnil : ids = [] ↔ AllChecksHold cfg tok s :=
    (eq_nil_iff_no_failing hmem).trans (no_failing_iff cfg tok s)
  rw [hv, ← hnil, ← firstPolicy_none_iff cfg w.facts _ hscope s.policies hqp,
    ← policyVerdict_noMatch_iff]
  cases ids with
  | nil => simp
  | cons a as => simp

/-- **Check failure takes precedence**: a verification failure is reported exactly when
some check does not hold — whatever the policies say. -/
theorem authorize_checksFailed_iff (cfg : EvalCfg) (tok : Token) (s : AuthState)
    (hf : WithinFragment cfg tok s) :
    (∃ ids, (authorize cfg tok s).2 = .checksFailed ids) ↔ ¬ AllChecksHold cfg tok s := by
  obtain ⟨w, ids, hscope, hqp, hv, hmem⟩ := authorize_frag cfg tok s hf
  have hnil : ids = [] ↔ AllChecksHold cfg tok s :=
    (eq_nil_iff_no_failing hmem).trans (no_failing_iff cfg tok s)
  rw [hv, ← hnil]
  cases ids with
  | nil =>
    simp only [List.isEmpty_nil, if_true, not_true, iff_false]
    rintro ⟨ids', h⟩
    exact policyVerdict_ne_checksFailed _ _ h
  | cons a as =>
    simp only [List.isEmpty_cons, Bool.false_eq_true, if_false]
    exact ⟨fun _ => by simp, fun _ => ⟨_, rfl⟩⟩

/-- The reported identifiers are exactly the failing checks: authorizer check `i` is
reported iff it does not hold in the authority scope, and likewise for block checks. -/
theorem failed_ids_exact (cfg : EvalCfg) (tok : Token) (s : AuthState)
    (hf : WithinFragment cfg tok s) (ids : List CheckId)
    (h : (authorize cfg tok s).2 = .checksFailed ids) :
    (∀ i, CheckId.authorizer i ∈ ids ↔
        ∃ c, s.checks[i]? = some c ∧ ¬ CheckHolds cfg (authorityScope cfg tok.authority s) c) ∧
    (∀ i, CheckId.block 0 i ∈ ids ↔
        ∃ c, tok.authority.checks[i]? = some c ∧ ¬ CheckHolds cfg (authorityScope cfg tok.authority s) c) ∧
    (∀ k i, CheckId.block (k + 1) i ∈ ids ↔
        ∃ b c, tok.blocks[k]? = some b ∧ b.checks[i]? = some c ∧
          ¬ CheckHolds cfg (blockScope cfg tok.authority s b) c) := by
  obtain ⟨w, ids', hscope, hqp, hv, hmem⟩ := authorize_frag cfg tok s hf
  rw [hv] at h
  have hids : ids = ids' := by
    cases ids' with
    | nil =>
      simp only [List.isEmpty_nil, if_true] at h
      exact absurd h (policyVerdict_ne_checksFailed _ _)
    | cons a as =>
      simp only [List.isEmpty_cons, Bool.false_eq_true, if_false, Verdict.checksFailed.injEq] at h
      exact h.symm
  subst hids
  refine ⟨fun i => ?_, fun i => ?_, fun k i => ?_⟩
  · rw [hmem]
    constructor
    · rintro (⟨j, c, hj, hid, hn⟩ | ⟨j, c, hj, hid, hn⟩ | ⟨k, b, j, c, hk, hj, hid, hn⟩)
      · cases hid; exact ⟨c, hj, hn⟩
      · cases hid
      · cases hid
    · rintro ⟨c, hj, hn⟩
      exact Or.inl ⟨i, c, hj, rfl, hn⟩
  · rw [hmem]
    constructor
    · rintro (⟨j, c, hj, hid, hn⟩ | ⟨j, c, hj, hid, hn⟩ | ⟨k, b, j, c, hk, hj, hid, hn⟩)
      · cases hid
      · cases hid; exact ⟨c, hj, hn⟩
      · cases hid
    · rintro ⟨c, hj, hn⟩
      exact Or.inr (Or.inl ⟨i, c, hj, rfl, hn⟩)
  · rw [hmem]
    constructor
    · rintro (⟨j, c, hj, hid, hn⟩ | ⟨j, c, hj, hid, hn⟩ | ⟨k', b, j, c, hk, hj, hid, hn⟩)
      · cases hid
      · cases hid
      · cases hid; exact ⟨b, c, hk, hj, hn⟩
    · rintro ⟨b, c, hk, hj, hn⟩
      exact Or.inr (Or.inr ⟨k, b, i, c, hk, hj, rfl, hn⟩)

/-- In the fragment the verdict is never a run error. -/
theorem fragment_no_run_error (cfg : EvalCfg) (tok : Token) (s : AuthState)
    (hf : WithinFragment cfg tok s) (e : RunErr) : (authorize cfg tok s).2 ≠ .runError e := by
  obtain ⟨w, ids, hscope, hqp, hv, hmem⟩ := authorize_frag cfg tok s hf
  rw [hv]
  cases ids with
  | nil => simpa using policyVerdict_ne_runError _ e
  | cons a as => simp

/-! Non-vacuity: one instance per verdict, including a failed check *with* a matching
allow policy (precedence). All are inside the fragment (no run or query error occurs). -/

def cfg0 : EvalCfg := { rx := fun _ _ => none }
def lim0 : Limits := { maxFacts := 1000, maxIter := 100 }
def fA : DFact := { name := [97], args := [.atom (.int 1)] }                         -- a(1)
def qA : DRule := { head := { name := [113], terms := [] }, body := [{ name := [97], terms := [.var [120]] }], exprs := [] }
def qB : DRule := { head := { name := [113], terms := [] }, body := [{ name := [98], terms := [] }], exprs := [] }
def tokA : Token := { authority := { facts := [fA], rules := [], checks := [{ queries := [qB, qA] }] }, blocks := [] }
def tokFail : Token := { authority := { facts := [fA], rules := [], checks := [{ queries := [qB] }] }, blocks := [] }
def withPolicies (ps : List Policy) : AuthState := ps.foldl addPolicy (AuthState.fresh lim0)

example : (authorize cfg0 tokA (withPolicies [⟨.deny, [qB]⟩, ⟨.allow, [qA]⟩, ⟨.deny, [qA]⟩])).2 = .ok := by decide
example : (authorize cfg0 tokA (withPolicies [⟨.deny, [qA]⟩, ⟨.allow, [qA]⟩])).2 = .denied := by decide
example : (authorize cfg0 tokA (withPolicies [⟨.allow, [qB]⟩])).2 = .noMatch := by decide
example : (authorize cfg0 tokFail (withPolicies [⟨.allow, [qA]⟩])).2 = .checksFailed [.block 0 0] := by decide

end Biscuit.C04
