/-
Props/C15Text — C15 at CHARACTER level: the text the library prints for a fact, a rule, a
check parses back to the same statement.

`Props/C15` relates the TOKEN-producing stack printer `Printer.printToks` to the reference
rendering.  Here the CHARACTER-level printer `Printer.print*` — the one compared with the Go
library's `Code()` output on every run — is taken through the model's text entry point
`Grammar.parseSingleText` (lexer, then parser with the model's own fuel) and the denotation
`Grammar.denoteItems`:

    content ──print*──▶ characters ──lex──▶ tokens ──parseItem──▶ syntax tree ──denote──▶ content

1. `printPred_layout`, `printExpr_layout`, `printRule_layout`, `printCheck_layout`: the printed
   text is the reference rendering of the QUOTED statement (`Model/Quote`), spelled with blank
   gaps accepted by `Layout.LayoutOK`, no gap after the last token.
2. `lex_printPred`, `lex_printExpr`, `lex_printRule`, `lex_printCheck` (via `C14Layout.lex_of_layout`).
3. `parse_printFact`, `parse_printRule`, `parse_printCheck`, `parse_printExpr` (via
   `C14Items.parseSingle_render`, `C14.parse_render_partial`).
4. `print_parse_denote_fact / _rule / _check`: the printed text denotes the statement, every
   set with its elements in printed order (`Quote.norm*`); `…_sorted`: the statement itself when
   its sets are already in that order.

The syntax-tree side is general (`parse_layItem`): the printed STYLE (`PrintText.lay*`) of
every statement that is `C14Items.ItemWF`, `C14Text.itemLexOK` and `PrintText.itemDotOK` —
parameters and policies included — parses back to itself; `print* = lay* ∘ quote*` holds
unconditionally (`printPred_eq_lay`, …).

## The printable domain (`PrintText.printable*`, decidable, content level)

* integers: `-2^63 ≤ i < 2^63` (int64).  A negative integer prints as `-5`, no blank, which the
  lexer reads as the operator `-` and the integer `5`; where a term starts the parser takes the
  two tokens as ONE signed literal (`PTerm.negInt`, `neg_int_roundtrips`; after a complete
  operand a `-` is the binary operator, and `1 - -5` prints and reads back as such:
  `neg_int_in_expr_roundtrips`); from `2^63` on and below `-2^63` the text parses but the
  conversion rejects it (`big_int_fails`).
* strings: valid UTF-8 (`utf8OK`: the printer decodes with `String.fromUTF8!`, which gives the
  empty text otherwise: `invalid_utf8_fails`) without `"` (printed without escaping:
  `quote_in_string_fails`).  Every `strBytes s` is valid (`utf8OK_strBytes`).
* dates: before 10000-01-01T00:00:00Z (`maxDate`); from there on the year has five digits and
  the Date rule of the lexer does not match (`late_date_fails`).  For ALL earlier instants the
  round trip is proved (`PrintDates.printDate_roundtrip`), not sampled.
* bytes, booleans: everything.
* sets: non-empty (`[]` is not a term of the grammar: `empty_set_fails`), elements printable.
  The text lists the elements in printed order, so what comes back is `Quote.sortA` of the
  list (`unsorted_set_reordered`).
* variables: valid UTF-8 and `[a-zA-Z0-9_:]+` (`bad_variable_fails`).
* predicate names: valid UTF-8 and `C14Lexer.identOK`: `[a-z][a-zA-Z0-9_:]*`, no Function /
  Bool literal at the start, no `hex:` prefix (`bad_name_fails`), and not `check` / `allow` /
  `deny` — the last three are the conservative class inherited from `C14Lexer.TokWF` (followed
  by `(` they do read back: `name_check_conservative`).
* expressions: the operand terms printable, the operator sequence a valid postfix sequence
  (otherwise the printer writes `<invalid expression>`: `invalid_expr_fails`), the rebuilt tree
  `C14.WF` — the printer adds no parentheses, so a sequence that needs them prints a text that
  parses to a different tree (`precedence_fails`) — and `exprDotOK`: no DATE literal as receiver
  of `.method(…)` / `.length()`.  The last one is conservative, inherited from `Layout.needSep`
  (`date_receiver_conservative`: the text does read back; such an expression is a type error
  at evaluation anyway).
* rules: a non-empty body; checks: at least one query, every query non-empty
  (`empty_body_fails`, `empty_check_fails`).

Not covered: `Printer.printBlockCode` (the `Block { … }` wrapper is not Datalog text),
policies at content level (the printer has no policy printer; `parse_layItem` covers their
printed style), the library's `#index` print of strings inside sets (the model prints them
quoted; out of the domain of the correspondence check, see `Props/C15`).
-/
import BiscuitModel.Proofs.PrintText

namespace Biscuit.C15Text
open Biscuit Biscuit.Grammar Biscuit.Printer Biscuit.Render Biscuit.Quote Biscuit.C14Lexer
open Biscuit.C14Text Biscuit.PrintText

/-! ## The printable domain -/

def PrintableAtom (a : Atom) : Prop := printableAtom a = true
def PrintableTerm (t : Term Val) : Prop := printableTerm t = true
def PrintablePred (p : Pred Val) : Prop := printablePred p = true
def PrintableExpr (e : Expr) : Prop := printableExpr e = true
def PrintableRule (r : DRule) : Prop := printableRule r = true
def PrintableCheck (c : Check) : Prop := printableCheck c = true

instance (a : Atom) : Decidable (PrintableAtom a) := inferInstanceAs (Decidable (_ = true))
instance (t : Term Val) : Decidable (PrintableTerm t) := inferInstanceAs (Decidable (_ = true))
instance (p : Pred Val) : Decidable (PrintablePred p) := inferInstanceAs (Decidable (_ = true))
instance (e : Expr) : Decidable (PrintableExpr e) := inferInstanceAs (Decidable (_ = true))
instance (r : DRule) : Decidable (PrintableRule r) := inferInstanceAs (Decidable (_ = true))
instance (c : Check) : Decidable (PrintableCheck c) := inferInstanceAs (Decidable (_ = true))

/-- What the domain says, literal by literal. -/
theorem printableAtom_iff (a : Atom) : PrintableAtom a ↔
    match a with
    | .int i => -(2 ^ 63) ≤ i ∧ i < 2 ^ 63
    | .str s => utf8OK s = true ∧ ∀ c ∈ charsOfBytes s, c ≠ '"'
    | .date d => d < 253402300800
    | .bytes _ => True
    | .bool _ => True := by
  cases a with
  | date d => exact decide_eq_true_iff
  | _ => simp [PrintableAtom, printableAtom]

theorem printableTerm_iff (t : Term Val) : PrintableTerm t ↔
    match t with
    | .var n => utf8OK n = true ∧ nameOK (charsOfBytes n) = true
    | .const (.atom a) => PrintableAtom a
    | .const (.set l) => l ≠ [] ∧ ∀ a ∈ l, PrintableAtom a := by
  match t with
  | .var n => simp [PrintableTerm, printableTerm]
  | .const (.atom a) => simp [PrintableTerm, printableTerm, PrintableAtom]
  | .const (.set l) => simp [PrintableTerm, printableTerm, PrintableAtom]

theorem printablePred_iff (p : Pred Val) : PrintablePred p ↔
    utf8OK p.name = true ∧ identOK (charsOfBytes p.name) = true ∧ ∀ t ∈ p.terms, PrintableTerm t := by
  simp [PrintablePred, printablePred, PrintableTerm, and_assoc]

theorem printableExpr_iff (e : Expr) : PrintableExpr e ↔
    (∀ t, Op.value t ∈ e → PrintableTerm t) ∧
      ∃ tree, quoteExpr e = some tree ∧ C14.WF tree ∧ exprDotOK tree = true := by
  simp only [PrintableExpr, printableExpr, Bool.and_eq_true, List.all_eq_true, PrintableTerm]
  constructor
  · rintro ⟨hv, hm⟩
    refine ⟨fun t ht => hv _ ht, ?_⟩
    cases hq : quoteExpr e with
    | none => rw [hq] at hm; cases hm
    | some t =>
      rw [hq] at hm
      simp only [Bool.and_eq_true, decide_eq_true_eq] at hm
      exact ⟨t, rfl, hm⟩
  · rintro ⟨hv, t, hq, hw, hd⟩
    refine ⟨fun o ho => ?_, by simp [hq, hw, hd]⟩
    cases o with
    | value t => exact hv t ho
    | unary _ => rfl
    | binary _ => rfl

theorem printableRule_iff (r : DRule) : PrintableRule r ↔
    PrintablePred r.head ∧ (∀ p ∈ r.body, PrintablePred p) ∧ (∀ e ∈ r.exprs, PrintableExpr e) ∧
      (r.body ≠ [] ∨ r.exprs ≠ []) := by
  simp only [PrintableRule, printableRule, printableBody, Bool.and_eq_true, List.all_eq_true,
    Bool.not_eq_true', Bool.and_eq_false_iff, List.isEmpty_eq_false_iff, PrintablePred, PrintableExpr,
    and_assoc]

theorem printableCheck_iff (c : Check) : PrintableCheck c ↔
    c.queries ≠ [] ∧ ∀ q ∈ c.queries, (∀ p ∈ q.body, PrintablePred p) ∧ (∀ e ∈ q.exprs, PrintableExpr e) ∧
      (q.body ≠ [] ∨ q.exprs ≠ []) := by
  simp only [PrintableCheck, printableCheck, printableBody, Bool.and_eq_true, List.all_eq_true,
    Bool.not_eq_true', Bool.and_eq_false_iff, List.isEmpty_eq_false_iff, PrintablePred, PrintableExpr,
    and_assoc]

/-- Every byte string that comes from a `String` is valid UTF-8, and decodes to its characters. -/
theorem utf8OK_strBytes (s : String) : utf8OK (strBytes s) = true ∧ charsOfBytes (strBytes s) = s.toList :=
  ⟨PrintText.utf8OK_strBytes s, charsOfBytes_strBytes s⟩

/-! ## 0. The printer writes the printed style of the quoted tree (no hypothesis) -/

theorem printTerm_eq_lay (t : Term Val) : printTerm t = layTerm (quoteTerm t) := printTerm_eq t

theorem printPred_eq_lay (p : Pred Val) : printPred p = layPred (quotePred p) := printPred_eq p

/-- The string stack machine and the tree stack machine run in lock step: `<invalid expression>`
exactly when no tree is rebuilt. -/
theorem printExpr_eq_lay (e : Expr) :
    printExpr e = match quoteExpr e with
      | some t => layExpr t
      | none => "<invalid expression>".toList := by
  cases h : quoteExpr e with
  | some t => exact printExpr_eq e t h
  | none => exact printExpr_invalid e h

theorem printRule_eq_lay (r : DRule) (pr : PRule) (h : quoteRule r = some pr) : printRule r = layRule pr :=
  printRule_eq r pr h

theorem printCheck_eq_lay (c : Check) (pc : PCheck) (h : quoteCheck c = some pc) :
    printCheck c = layCheck pc := printCheck_eq c pc h

/-! ## The syntax-tree side: the printed style of ANY well-formed statement reads back -/

/-- `cs` spells the tokens `ts` with gaps accepted by `Layout.LayoutOK`, none after the last token. -/
def IsLayoutOf (cs : List Char) (ts : List Tok) : Prop :=
  ∃ gaps : List (List Char), gaps.length + 1 = ts.length ∧ cs = spellWith gaps ts ∧ LayoutOK gaps ts

theorem layItem_layout (it : PItem) (hw : C14Items.ItemWF it) (hl : itemLexOK it = true)
    (hd : itemDotOK it = true) : IsLayoutOf (layItem it) (renderItem it) :=
  (seg_layItem it hw hl hd).layout

theorem lex_layItem (it : PItem) (hw : C14Items.ItemWF it) (hl : itemLexOK it = true)
    (hd : itemDotOK it = true) : lex (layItem it) = some (renderItem it) :=
  (seg_layItem it hw hl hd).lex

/-- **The printed style parses back**, for facts, rules, checks and policies, with parameters,
any nesting and length. -/
theorem parse_layItem (it : PItem) (hw : C14Items.ItemWF it) (hl : itemLexOK it = true)
    (hd : itemDotOK it = true) : parseSingleText (layItem it) = some it :=
  parseSingleText_of_seg it hw (seg_layItem it hw hl hd)

/-! ## 1. The printer writes a layout of the rendered tokens -/

theorem printPred_layout (p : Pred Val) (h : PrintablePred p) :
    IsLayoutOf (printPred p) (renderPred (quotePred p)) := by
  obtain ⟨hw, hl, hd⟩ := quoteFact_ok p h
  rw [printPred_eq]
  exact (seg_layItem (quoteFact p) hw hl hd).layout

theorem printExpr_layout (e : Expr) (h : PrintableExpr e) :
    ∃ t, quoteExpr e = some t ∧ IsLayoutOf (printExpr e) (renderToks t) := by
  obtain ⟨t, hq, hw, hl, hd⟩ := printableExpr_spec e h
  refine ⟨t, hq, ?_⟩
  rw [printExpr_eq e t hq]
  exact (seg_layExpr t hw hl hd).1.layout

theorem printRule_layout (r : DRule) (h : PrintableRule r) :
    ∃ pr, quoteRule r = some pr ∧ IsLayoutOf (printRule r) (renderRule pr) := by
  obtain ⟨pr, hq, hw, hl, hd⟩ := quoteRule_ok r h
  refine ⟨pr, hq, ?_⟩
  rw [printRule_eq r pr hq]
  exact (seg_layItem (.rule pr) hw hl hd).layout

theorem printCheck_layout (c : Check) (h : PrintableCheck c) :
    ∃ pc, quoteCheck c = some pc ∧ IsLayoutOf (printCheck c) (renderCheck pc) := by
  obtain ⟨pc, hq, hw, hl, hd⟩ := quoteCheck_ok c h
  refine ⟨pc, hq, ?_⟩
  rw [printCheck_eq c pc hq]
  exact (seg_layItem (.check pc) hw hl hd).layout

/-! ## 2. Lexing the printed text -/

theorem lex_printPred (p : Pred Val) (h : PrintablePred p) :
    lex (printPred p) = some (renderPred (quotePred p)) := by
  obtain ⟨hw, hl, hd⟩ := quoteFact_ok p h
  rw [printPred_eq]
  exact (seg_layItem (quoteFact p) hw hl hd).lex

theorem lex_printExpr (e : Expr) (h : PrintableExpr e) :
    ∃ t, quoteExpr e = some t ∧ lex (printExpr e) = some (renderToks t) := by
  obtain ⟨t, hq, hw, hl, hd⟩ := printableExpr_spec e h
  refine ⟨t, hq, ?_⟩
  rw [printExpr_eq e t hq]
  exact (seg_layExpr t hw hl hd).1.lex

theorem lex_printRule (r : DRule) (h : PrintableRule r) :
    ∃ pr, quoteRule r = some pr ∧ lex (printRule r) = some (renderRule pr) := by
  obtain ⟨pr, hq, hw, hl, hd⟩ := quoteRule_ok r h
  refine ⟨pr, hq, ?_⟩
  rw [printRule_eq r pr hq]
  exact (seg_layItem (.rule pr) hw hl hd).lex

theorem lex_printCheck (c : Check) (h : PrintableCheck c) :
    ∃ pc, quoteCheck c = some pc ∧ lex (printCheck c) = some (renderCheck pc) := by
  obtain ⟨pc, hq, hw, hl, hd⟩ := quoteCheck_ok c h
  refine ⟨pc, hq, ?_⟩
  rw [printCheck_eq c pc hq]
  exact (seg_layItem (.check pc) hw hl hd).lex

/-! ## 3. Parsing the printed text -/

/-- **Facts** (`FromStringFact` on the printed text). -/
theorem parse_printFact (p : Pred Val) (h : PrintablePred p) :
    parseSingleText (printPred p) = some (.fact (quotePred p)) := by
  obtain ⟨hw, hl, hd⟩ := quoteFact_ok p h
  rw [printPred_eq]
  exact parse_layItem (quoteFact p) hw hl hd

/-- **Rules**. -/
theorem parse_printRule (r : DRule) (h : PrintableRule r) :
    ∃ pr, quoteRule r = some pr ∧ parseSingleText (printRule r) = some (.rule pr) := by
  obtain ⟨pr, hq, hw, hl, hd⟩ := quoteRule_ok r h
  refine ⟨pr, hq, ?_⟩
  rw [printRule_eq r pr hq]
  exact parse_layItem (.rule pr) hw hl hd

/-- **Checks**. -/
theorem parse_printCheck (c : Check) (h : PrintableCheck c) :
    ∃ pc, quoteCheck c = some pc ∧ parseSingleText (printCheck c) = some (.check pc) := by
  obtain ⟨pc, hq, hw, hl, hd⟩ := quoteCheck_ok c h
  refine ⟨pc, hq, ?_⟩
  rw [printCheck_eq c pc hq]
  exact parse_layItem (.check pc) hw hl hd

/-- **Expressions** (no text entry point of their own: lexer, then `parseOr` with the model's
fuel): the printed expression parses back to the tree rebuilt from the operator sequence, and
the parser consumes the whole text. -/
theorem parse_printExpr (e : Expr) (h : PrintableExpr e) :
    ∃ t, quoteExpr e = some t ∧
      (lex (printExpr e)).bind (fun toks => parseOr (fuelFor toks) toks) = some (t, []) := by
  obtain ⟨t, hq, hw, hl, hd⟩ := printableExpr_spec e h
  refine ⟨t, hq, ?_⟩
  rw [printExpr_eq e t hq, (seg_layExpr t hw hl hd).1.lex, Option.bind_some]
  have := C14.parse_render_partial t hw [] trivial (fuelFor (renderToks t)) (by simp only [fuelFor]; omega)
  simpa using this

/-! ## 4. Denotation closes the loop -/

/-- What one statement denotes. -/
def denoteItem (it : PItem) : Option ParsedContent := denoteItems [] [it]

theorem denote_quoteTerm (t : Term Val) (h : PrintableTerm t) : denoteTerm [] (quoteTerm t) = some (normTerm t) :=
  denoteTerm_quote t h

theorem denote_quotePred (p : Pred Val) (h : PrintablePred p) :
    denotePred [] (quotePred p) = some (normPred p) := denotePred_quote p h

/-- The tree rebuilt from an operator sequence emits that sequence (`toPostfix ∘ quoteExpr`),
and denotes it. -/
theorem denote_quoteExpr (e : Expr) (h : PrintableExpr e) :
    ∃ t, quoteExpr e = some t ∧ toPostfix t = e.map quoteOp ∧ denoteExpr [] t = some (normExpr e) := by
  obtain ⟨t, hq, _⟩ := printableExpr_spec e h
  have hv : e.all printableOp = true := by
    have h' : printableExpr e = true := h
    simp only [printableExpr, Bool.and_eq_true] at h'
    exact h'.1
  exact ⟨t, hq, toPostfix_quoteExpr e t hq, denoteExpr_quote e t hq hv⟩

/-- **C15, character level, facts**: printed text ↦ the same fact (sets in printed order). -/
theorem print_parse_denote_fact (p : Pred Val) (h : PrintablePred p) :
    (parseSingleText (printPred p)).bind denoteItem =
      some { facts := [normPred p], rules := [], checks := [], policies := [] } := by
  rw [parse_printFact p h, Option.bind_some]
  exact denoteItems_fact p h

/-- **C15, character level, rules**. -/
theorem print_parse_denote_rule (r : DRule) (h : PrintableRule r) :
    (parseSingleText (printRule r)).bind denoteItem =
      some { facts := [], rules := [normRule r], checks := [], policies := [] } := by
  obtain ⟨pr, hq, hp⟩ := parse_printRule r h
  rw [hp, Option.bind_some]
  exact denoteItems_rule r pr hq h

/-- **C15, character level, checks** (the head of a query is not printed; the parser gives every
query the fixed head `query()`). -/
theorem print_parse_denote_check (c : Check) (h : PrintableCheck c) :
    (parseSingleText (printCheck c)).bind denoteItem =
      some { facts := [], rules := [], checks := [normCheck c], policies := [] } := by
  obtain ⟨pc, hq, hp⟩ := parse_printCheck c h
  rw [hp, Option.bind_some]
  exact denoteItems_check c pc hq h

/-- Sets already in printed order: exactly the same fact. -/
theorem print_parse_denote_fact_sorted (p : Pred Val) (h : PrintablePred p) (hs : normPred p = p) :
    (parseSingleText (printPred p)).bind denoteItem =
      some { facts := [p], rules := [], checks := [], policies := [] } := by
  rw [print_parse_denote_fact p h, hs]

theorem print_parse_denote_rule_sorted (r : DRule) (h : PrintableRule r) (hs : normRule r = r) :
    (parseSingleText (printRule r)).bind denoteItem =
      some { facts := [], rules := [r], checks := [], policies := [] } := by
  rw [print_parse_denote_rule r h, hs]

theorem print_parse_denote_check_sorted (c : Check) (h : PrintableCheck c) (hs : normCheck c = c) :
    (parseSingleText (printCheck c)).bind denoteItem =
      some { facts := [], rules := [], checks := [c], policies := [] } := by
  rw [print_parse_denote_check c h, hs]

/-- `norm*` only reorders sets: a term without a set is untouched, and the reordered set has
the same elements. -/
theorem normTerm_of_not_set (t : Term Val) (h : ∀ l, t ≠ .const (.set l)) : normTerm t = t := by
  match t with
  | .var n => rfl
  | .const (.atom a) => rfl
  | .const (.set l) => exact absurd rfl (h l)

theorem mem_sortA (x : Atom) (l : List Atom) : x ∈ sortA l ↔ x ∈ l := PrintText.mem_sortA x l

/-! ## 5. Non-vacuity: concrete content through the theorems -/

def sB (s : String) : Bytes := strBytes s
def tVar (s : String) : Term Val := .var (sB s)
def tStr (s : String) : Term Val := .const (.atom (.str (sB s)))
def tInt (i : Int) : Term Val := .const (.atom (.int i))

/-- A fact with a string, an integer, a date, bytes, a boolean and a set. -/
def exFact : Pred Val :=
  { name := sB "roles"
    terms := [tStr "alice", tInt 42, .const (.atom (.date 1577836800)), .const (.atom (.bytes [0x00, 0xff])),
      .const (.atom (.bool true)), .const (.set [.int 1, .int 2])] }

/-- A rule with two body predicates and the expression `$x.starts_with("a") || 1 + 2 == 3`. -/
def exRule : DRule :=
  { head := { name := sB "right", terms := [tVar "x", tStr "read"] }
    body := [{ name := sB "user", terms := [tVar "x"] }, { name := sB "owner", terms := [tVar "x", tStr "file1"] }]
    exprs := [[.value (tVar "x"), .value (tStr "a"), .binary .pfx, .value (tInt 1), .value (tInt 2), .binary .add,
      .value (tInt 3), .binary .eq, .binary .or]] }

/-- A check with two alternative queries. -/
def exCheck : Check :=
  { queries := [
      { head := queryHead, body := [{ name := sB "resource", terms := [tVar "r"] },
          { name := sB "operation", terms := [tStr "read"] }], exprs := [] },
      { head := queryHead, body := [{ name := sB "admin", terms := [.const (.atom (.bool true))] }],
        exprs := [[.value (tVar "x"), .value (.const (.set [.int 1, .int 2])), .binary .contains, .unary .negate]] }] }

theorem exFact_printable : PrintablePred exFact := by decide +kernel
theorem exRule_printable : PrintableRule exRule := by decide +kernel
theorem exCheck_printable : PrintableCheck exCheck := by decide +kernel

/-- The printed texts. -/
theorem exFact_text : String.ofList (printPred exFact) =
    "roles(\"alice\", 42, 2020-01-01T00:00:00Z, hex:00ff, true, [1, 2])" := by decide +kernel
theorem exRule_text : String.ofList (printRule exRule) =
    "right($x, \"read\") <- user($x), owner($x, \"file1\"), $x.starts_with(\"a\") || 1 + 2 == 3" := by
  decide +kernel
theorem exCheck_text : String.ofList (printCheck exCheck) =
    "check if resource($r), operation(\"read\") or admin(true), !$x.contains([1, 2])" := by decide +kernel

/-- The quoted rule: the tree `(… .starts_with(…)) || ((1 + 2) == 3)` rebuilt from the postfix sequence. -/
theorem exRule_quote : (quoteRule exRule).map renderRule = some
    [.ident "right", .punct '(', .var "x", .punct ',', .str "read".toList, .punct ')', .arrow,
     .ident "user", .punct '(', .var "x", .punct ')', .punct ',',
     .ident "owner", .punct '(', .var "x", .punct ',', .str "file1".toList, .punct ')', .punct ',',
     .var "x", .dot, .ident "starts_with", .punct '(', .str ['a'], .punct ')', .orOp,
     .int ['1'], .op "+", .int ['2'], .op "==", .int ['3']] := by decide +kernel

/-- **From the characters, through the theorems**: lexer, parser, denotation. -/
theorem exFact_roundtrip :
    (parseSingleText "roles(\"alice\", 42, 2020-01-01T00:00:00Z, hex:00ff, true, [1, 2])".toList).bind denoteItem =
      some { facts := [exFact], rules := [], checks := [], policies := [] } := by
  rw [← exFact_text, String.toList_ofList]
  exact print_parse_denote_fact_sorted exFact exFact_printable (by decide +kernel)

theorem exRule_roundtrip :
    (parseSingleText
      "right($x, \"read\") <- user($x), owner($x, \"file1\"), $x.starts_with(\"a\") || 1 + 2 == 3".toList).bind
        denoteItem =
      some { facts := [], rules := [exRule], checks := [], policies := [] } := by
  rw [← exRule_text, String.toList_ofList]
  exact print_parse_denote_rule_sorted exRule exRule_printable (by decide +kernel)

theorem exCheck_roundtrip :
    (parseSingleText
      "check if resource($r), operation(\"read\") or admin(true), !$x.contains([1, 2])".toList).bind denoteItem =
      some { facts := [], rules := [], checks := [exCheck], policies := [] } := by
  rw [← exCheck_text, String.toList_ofList]
  exact print_parse_denote_check_sorted exCheck exCheck_printable (by decide +kernel)

/-- The lexer on the printed rule, through `lex_printRule`. -/
example : ∃ pr, quoteRule exRule = some pr ∧ lex (printRule exRule) = some (renderRule pr) :=
  lex_printRule exRule exRule_printable

/-- Evaluation agrees with the theorems (by computation in the kernel, independently of them). -/
example : (parseSingleText (printPred exFact)).bind denoteItem =
    some { facts := [exFact], rules := [], checks := [], policies := [] } := by decide +kernel
example : (parseSingleText (printRule exRule)).bind denoteItem =
    some { facts := [], rules := [exRule], checks := [], policies := [] } := by decide +kernel
example : (parseSingleText (printCheck exCheck)).bind denoteItem =
    some { facts := [], rules := [], checks := [exCheck], policies := [] } := by decide +kernel

/-! ## 6. What is excluded, and why

Every restriction of the printable domain, with content outside it whose printed text is
rejected or — worse — read back as something else. -/

def f1 (t : Term Val) : Pred Val := { name := sB "f", terms := [t] }

/-- What the printed text of a fact denotes. -/
def factsOnly (fs : List (Pred Val)) : ParsedContent := { facts := fs, rules := [], checks := [], policies := [] }
def checksOnly (cs : List Check) : ParsedContent := { facts := [], rules := [], checks := cs, policies := [] }

/-- What the printed text of a fact denotes. -/
def reread (p : Pred Val) : Option ParsedContent := (parseSingleText (printPred p)).bind denoteItem

/-- Negative integers are INSIDE the domain: `f(-5)` is lexed as `f ( - 5 )`, the sign and the
digits are one literal, and the fact comes back — down to `-2^63`, also inside a set (where the
printed order is the order of the texts: `-1` before `-2` before `3`). -/
theorem neg_int_roundtrips :
    PrintablePred (f1 (tInt (-5))) ∧ String.ofList (printPred (f1 (tInt (-5)))) = "f(-5)" ∧
    lex (printPred (f1 (tInt (-5)))) = some [.ident "f", .punct '(', .op "-", .int ['5'], .punct ')'] ∧
    (parseSingleText (printPred (f1 (tInt (-5))))).map renderItem =
      some [.ident "f", .punct '(', .op "-", .int ['5'], .punct ')'] ∧
    reread (f1 (tInt (-5))) = some (factsOnly [f1 (tInt (-5))]) ∧
    PrintablePred (f1 (tInt (-(2 ^ 63)))) ∧
    String.ofList (printPred (f1 (tInt (-(2 ^ 63))))) = "f(-9223372036854775808)" ∧
    reread (f1 (tInt (-(2 ^ 63)))) = some (factsOnly [f1 (tInt (-(2 ^ 63)))]) ∧
    String.ofList (printPred (f1 (.const (.set [.int 3, .int (-2), .int (-1)])))) = "f([-1, -2, 3])" ∧
    reread (f1 (.const (.set [.int 3, .int (-2), .int (-1)]))) =
      some (factsOnly [f1 (.const (.set [.int (-1), .int (-2), .int 3]))]) := by decide +kernel

/-- The same through the general theorem. -/
theorem neg_int_roundtrip :
    (parseSingleText "f(-5)".toList).bind denoteItem = some (factsOnly [f1 (tInt (-5))]) := by
  have ht : String.ofList (printPred (f1 (tInt (-5)))) = "f(-5)" := by decide +kernel
  rw [← ht, String.toList_ofList]
  exact print_parse_denote_fact_sorted (f1 (tInt (-5))) (by decide +kernel) (by decide +kernel)

/-- Integers from `2^63` on and below `-2^63`: the text parses, the conversion rejects the literal. -/
theorem big_int_fails :
    ¬ PrintablePred (f1 (tInt (2 ^ 63))) ∧ (parseSingleText (printPred (f1 (tInt (2 ^ 63))))).isSome = true ∧
    reread (f1 (tInt (2 ^ 63))) = none ∧
    PrintablePred (f1 (tInt (2 ^ 63 - 1))) ∧
    ¬ PrintablePred (f1 (tInt (-(2 ^ 63) - 1))) ∧
    (parseSingleText (printPred (f1 (tInt (-(2 ^ 63) - 1))))).isSome = true ∧
    reread (f1 (tInt (-(2 ^ 63) - 1))) = none := by decide +kernel

/-- A `"` inside a string ends the literal early (the printer does not escape). -/
theorem quote_in_string_fails :
    ¬ PrintablePred (f1 (tStr "a\"b")) ∧ String.ofList (printPred (f1 (tStr "a\"b"))) = "f(\"a\"b\")" ∧
    reread (f1 (tStr "a\"b")) = none ∧
    reread (f1 (tStr "a\", \"b")) = some (factsOnly [{ name := sB "f", terms := [tStr "a", tStr "b"] }]) := by decide +kernel

/-- Bytes that are not UTF-8 print as the empty text (`String.fromUTF8!`) and come back as the
empty string. -/
theorem invalid_utf8_fails :
    ¬ PrintablePred (f1 (.const (.atom (.str [0xff])))) ∧
    String.ofList (printPred (f1 (.const (.atom (.str [0xff]))))) = "f(\"\")" ∧
    reread (f1 (.const (.atom (.str [0xff])))) = some (factsOnly [f1 (.const (.atom (.str [])))]) := by decide +kernel

/-- Dates from the year 10000 on: five digits, no Date token. -/
theorem late_date_fails :
    ¬ PrintablePred (f1 (.const (.atom (.date 253402300800)))) ∧
    String.ofList (printPred (f1 (.const (.atom (.date 253402300800))))) = "f(10000-01-01T00:00:00Z)" ∧
    reread (f1 (.const (.atom (.date 253402300800)))) = none ∧
    PrintablePred (f1 (.const (.atom (.date 253402300799)))) ∧
    String.ofList (printPred (f1 (.const (.atom (.date 253402300799))))) = "f(9999-12-31T23:59:59Z)" := by
  decide +kernel

/-- The empty set is not a term of the grammar. -/
theorem empty_set_fails :
    ¬ PrintablePred (f1 (.const (.set []))) ∧ String.ofList (printPred (f1 (.const (.set [])))) = "f([])" ∧
    reread (f1 (.const (.set []))) = none := by decide +kernel

/-- A set whose list is not in printed order comes back in printed order: the same set, another
list.  (Printable; this is why the general theorems speak of `norm*`.) -/
theorem unsorted_set_reordered :
    PrintablePred (f1 (.const (.set [.int 2, .int 10, .int 1]))) ∧
    String.ofList (printPred (f1 (.const (.set [.int 2, .int 10, .int 1])))) = "f([1, 10, 2])" ∧
    reread (f1 (.const (.set [.int 2, .int 10, .int 1]))) =
      some (factsOnly [f1 (.const (.set [.int 1, .int 10, .int 2]))]) := by
  decide +kernel

/-- Variable names: other characters end the name early; an empty name is no variable. -/
theorem bad_variable_fails :
    ¬ PrintablePred (f1 (tVar "a-b")) ∧ reread (f1 (tVar "a-b")) = none ∧
    ¬ PrintablePred (f1 (tVar "")) ∧ reread (f1 (tVar "")) = none ∧
    reread (f1 (tVar "a, $b")) = some (factsOnly [{ name := sB "f", terms := [tVar "a", tVar "b"] }]) := by
  decide +kernel

/-- Predicate names: upper case first, a Bool / Function literal, a `hex:` prefix, the empty name. -/
theorem bad_name_fails :
    (∀ n ∈ ["Abc", "true", "length", "hex:ab", "", "a b"],
      ¬ PrintablePred { name := sB n, terms := [tInt 1] } ∧
      reread { name := sB n, terms := [tInt 1] } = none) := by decide +kernel

/-- CONSERVATIVE (inherited from `C14Lexer.identOK`): the names `check`, `allow`, `deny` are outside
the domain although, followed by `(`, they read back. -/
theorem name_check_conservative :
    ¬ PrintablePred { name := sB "check", terms := [tInt 1] } ∧
    reread { name := sB "check", terms := [tInt 1] } =
      some (factsOnly [{ name := sB "check", terms := [tInt 1] }]) := by
  decide +kernel

def chk (e : Expr) : Check := { queries := [{ head := queryHead, body := [], exprs := [e] }] }

def rereadCheck (c : Check) : Option ParsedContent := (parseSingleText (printCheck c)).bind denoteItem

/-- An operator sequence that is no postfix expression prints as `<invalid expression>`. -/
theorem invalid_expr_fails :
    ¬ PrintableExpr [.binary .add] ∧ quoteExpr [.binary .add] = none ∧
    String.ofList (printCheck (chk [.binary .add])) = "check if <invalid expression>" ∧
    rereadCheck (chk [.binary .add]) = none := by decide +kernel

/-- The printer adds no parentheses: `1 2 + 3 *` prints as `1 + 2 * 3`, which is `1 2 3 * +`. -/
theorem precedence_fails :
    ¬ PrintableExpr [.value (tInt 1), .value (tInt 2), .binary .add, .value (tInt 3), .binary .mul] ∧
    String.ofList (printExpr [.value (tInt 1), .value (tInt 2), .binary .add, .value (tInt 3), .binary .mul]) =
      "1 + 2 * 3" ∧
    rereadCheck (chk [.value (tInt 1), .value (tInt 2), .binary .add, .value (tInt 3), .binary .mul]) =
      some (checksOnly [chk [.value (tInt 1), .value (tInt 2), .value (tInt 3), .binary .mul, .binary .add]]) ∧
    PrintableExpr [.value (tInt 1), .value (tInt 2), .binary .add, .unary .parens, .value (tInt 3), .binary .mul] ∧
    String.ofList (printExpr
      [.value (tInt 1), .value (tInt 2), .binary .add, .unary .parens, .value (tInt 3), .binary .mul]) =
      "(1 + 2) * 3" := by decide +kernel

/-- Negative literals inside expressions: the printer writes a binary minus with blanks and the
sign without (`1 - -5 == 6`, `$x > -5`, `!-5`, `(-5).length()`); the texts read back to the same
operator sequences. -/
theorem neg_int_in_expr_roundtrips :
    PrintableExpr [.value (tInt 1), .value (tInt (-5)), .binary .sub, .value (tInt 6), .binary .eq] ∧
    String.ofList (printExpr [.value (tInt 1), .value (tInt (-5)), .binary .sub, .value (tInt 6), .binary .eq]) =
      "1 - -5 == 6" ∧
    rereadCheck (chk [.value (tInt 1), .value (tInt (-5)), .binary .sub, .value (tInt 6), .binary .eq]) =
      some (checksOnly [chk [.value (tInt 1), .value (tInt (-5)), .binary .sub, .value (tInt 6), .binary .eq]]) ∧
    PrintableExpr [.value (tVar "x"), .value (tInt (-5)), .binary .gt] ∧
    String.ofList (printExpr [.value (tVar "x"), .value (tInt (-5)), .binary .gt]) = "$x > -5" ∧
    rereadCheck (chk [.value (tVar "x"), .value (tInt (-5)), .binary .gt]) =
      some (checksOnly [chk [.value (tVar "x"), .value (tInt (-5)), .binary .gt]]) ∧
    PrintableExpr [.value (tInt (-5)), .unary .negate] ∧
    String.ofList (printExpr [.value (tInt (-5)), .unary .negate]) = "!-5" ∧
    PrintableExpr [.value (tInt (-5)), .unary .parens, .unary .length] ∧
    String.ofList (printExpr [.value (tInt (-5)), .unary .parens, .unary .length]) = "(-5).length()" ∧
    rereadCheck (chk [.value (tInt (-5)), .unary .parens, .unary .length]) =
      some (checksOnly [chk [.value (tInt (-5)), .unary .parens, .unary .length]]) := by decide +kernel

/-- CONSERVATIVE (inherited from `Layout.needSep`, which lists `.` among the characters that could
continue a date): a date literal as receiver is outside the domain although the text reads back
(printed dates end in `Z`).  Every other kind of receiver is inside. -/
theorem date_receiver_conservative :
    ¬ PrintableExpr [.value (.const (.atom (.date 0))), .unary .length] ∧
    rereadCheck (chk [.value (.const (.atom (.date 0))), .unary .length]) =
      some (checksOnly [chk [.value (.const (.atom (.date 0))), .unary .length]]) ∧
    (∀ t ∈ [tVar "x", tStr "a", tInt 7, .const (.atom (.bytes [1])), .const (.atom (.bool true)),
        .const (.set [.int 1])], PrintableExpr [.value t, .unary .length]) ∧
    PrintableExpr [.value (.const (.atom (.date 0))), .unary .parens, .unary .length] := by decide +kernel

/-- A rule without body, a check without query, a query without element. -/
theorem empty_body_fails :
    ¬ PrintableRule { head := f1 (tInt 1), body := [], exprs := [] } ∧
    String.ofList (printRule { head := f1 (tInt 1), body := [], exprs := [] }) = "f(1) <- " ∧
    parseSingleText (printRule { head := f1 (tInt 1), body := [], exprs := [] }) = none := by decide +kernel

theorem empty_check_fails :
    ¬ PrintableCheck { queries := [] } ∧ parseSingleText (printCheck { queries := [] }) = none ∧
    ¬ PrintableCheck { queries := [{ head := queryHead, body := [], exprs := [] }] } ∧
    parseSingleText (printCheck { queries := [{ head := queryHead, body := [], exprs := [] }] }) = none := by
  decide +kernel

/-- The head of a query is not printed: a check whose query has another head comes back with
`query()` (printable; `normCheck` says so). -/
theorem query_head_not_printed :
    PrintableCheck { queries := [{ head := f1 (tInt 1), body := [f1 (tInt 2)], exprs := [] }] } ∧
    rereadCheck { queries := [{ head := f1 (tInt 1), body := [f1 (tInt 2)], exprs := [] }] } =
      some (checksOnly [{ queries := [{ head := queryHead, body := [f1 (tInt 2)], exprs := [] }] }]) := by
  decide +kernel

end Biscuit.C15Text
