/-
Props/C12Rename — C12, the "renaming variables consistently" clause.

A renaming `ρ : Bytes → Bytes` of variable names that is injective on the variables
of a rule (`ruleVars`: head ∪ body ∪ expressions) does not change anything the
engine computes from that rule: `Rule.Apply` returns the same facts in the same
order and the same error (unknown variable in an expression, head variable not
bound, evaluation error, panic). Consequently `World.Run`, `Authorize` and `Query`
are unchanged — as exact equalities, with no fragment hypothesis. The renaming may
be different for every rule; within one rule injectivity is necessary (merging two
variables changes the verdict, `merge_changes_verdict`).

Facts are ground by type, so renaming does not touch them.
-/
import BiscuitModel.Proofs.Rename

namespace Biscuit.C12Rename
open Biscuit Biscuit.Rename

/-! ### 1. Engine level: one rule -/

/-- **C12 (renaming), one rule.** Exact equality of the produced fact list and of the
error component, for every fact set and accumulator. -/
theorem applyRule_rename (cfg : EvalCfg) (ρ : Bytes → Bytes) (r : DRule)
    (hinj : ∀ a ∈ ruleVars r, ∀ b ∈ ruleVars r, ρ a = ρ b → a = b)
    (facts acc : List DFact) :
    applyRule (evalBool cfg) (renameRule ρ r) facts acc = applyRule (evalBool cfg) r facts acc :=
  Rename.applyRule_rename cfg ρ r hinj facts acc

/-- The combinations themselves: the renamed body enumerates the renamed bindings,
same order, same multiplicity. -/
theorem solve_rename (ρ : Bytes → Bytes) (r : DRule)
    (hinj : ∀ a ∈ ruleVars r, ∀ b ∈ ruleVars r, ρ a = ρ b → a = b) (facts : List DFact) :
    solve facts (renameRule ρ r).body [] = (solve facts r.body []).map (renameBindings ρ) :=
  Rename.solve_rename (S := ruleVars r) hinj facts r.body [] domIn_nil (body_sub_ruleVars r)

/-- `World.QueryRule` on a renamed query returns the same facts. -/
theorem queryRule_rename (cfg : EvalCfg) (ρ : Bytes → Bytes) (q : DRule)
    (hinj : ∀ a ∈ ruleVars q, ∀ b ∈ ruleVars q, ρ a = ρ b → a = b) (facts : List DFact) :
    queryRule (evalBool cfg) (renameRule ρ q) facts = queryRule (evalBool cfg) q facts := by
  unfold queryRule
  rw [applyRule_rename cfg ρ q hinj facts []]

/-! ### 2. Engine level: a run -/

/-- **C12 (renaming), `World.Run`, one renaming per rule.** -/
theorem run_renameEach (cfg : EvalCfg) (mf mi : Nat) (rules : List DRule) (facts : List DFact)
    (ρs : DRule → Bytes → Bytes)
    (hinj : ∀ r ∈ rules, ∀ a ∈ ruleVars r, ∀ b ∈ ruleVars r, ρs r a = ρs r b → a = b) :
    run (evalBool cfg) mf (rules.map fun r => renameRule (ρs r) r) mi facts
      = run (evalBool cfg) mf rules mi facts :=
  run_map (evalBool cfg) (fun r => renameRule (ρs r) r) mf rules
    (fun r hr fs acc => Rename.applyRule_rename cfg (ρs r) r (hinj r hr) fs acc) mi facts

/-- **C12 (renaming), `World.Run`, one global renaming** injective on each rule's own
variables (it may identify variables of different rules). -/
theorem run_rename (cfg : EvalCfg) (mf mi : Nat) (rules : List DRule) (facts : List DFact)
    (ρ : Bytes → Bytes)
    (hinj : ∀ r ∈ rules, ∀ a ∈ ruleVars r, ∀ b ∈ ruleVars r, ρ a = ρ b → a = b) :
    run (evalBool cfg) mf (rules.map (renameRule ρ)) mi facts
      = run (evalBool cfg) mf rules mi facts :=
  run_renameEach cfg mf mi rules facts (fun _ => ρ) hinj

/-! ### 3. Authorizer level -/

/-- One renaming per rule, applied to every rule and query of a token / authorizer. -/
def renameEach (ρs : DRule → Bytes → Bytes) (r : DRule) : DRule := renameRule (ρs r) r

/-- **C12 (renaming), `Authorize`, one renaming per rule**: same verdict (including
the identifiers of failed checks and the run error, if any), and the resulting
authorizer is the renamed original result. Holds for both reset modes. -/
theorem authorizeWith_renameEach (cfg : EvalCfg) (pinnedReset : Bool) (tok : Token) (s : AuthState)
    (ρs : DRule → Bytes → Bytes)
    (hinj : ∀ r ∈ tok.allRules ++ s.allRules, InjOn (ρs r) (ruleVars r)) :
    authorizeWith cfg pinnedReset (tok.mapRules (renameEach ρs)) (s.mapRules (renameEach ρs))
      = ((authorizeWith cfg pinnedReset tok s).1.mapRules (renameEach ρs),
         (authorizeWith cfg pinnedReset tok s).2) :=
  authorizeWith_map cfg (renameEach ρs) pinnedReset tok s
    (fun r hr fs acc => Rename.applyRule_rename cfg (ρs r) r (hinj r hr) fs acc)

/-- **C12 (renaming), `Authorize`.** Full strength: verdict and resulting state. -/
theorem authorize_rename (cfg : EvalCfg) (ρ : Bytes → Bytes) (tok : Token) (s : AuthState)
    (hinj : InjOnAll ρ tok s) :
    authorize cfg (renameToken ρ tok) (renameAuth ρ s)
      = (renameAuth ρ (authorize cfg tok s).1, (authorize cfg tok s).2) :=
  authorizeWith_map cfg (renameRule ρ) false tok s
    (fun r hr fs acc => Rename.applyRule_rename cfg ρ r (hinj r hr) fs acc)

/-- The same for the pinned tree's `Authorize` (defect D9 reset). -/
theorem authorizeWith_rename (cfg : EvalCfg) (pinnedReset : Bool) (ρ : Bytes → Bytes)
    (tok : Token) (s : AuthState) (hinj : InjOnAll ρ tok s) :
    authorizeWith cfg pinnedReset (renameToken ρ tok) (renameAuth ρ s)
      = (renameAuth ρ (authorizeWith cfg pinnedReset tok s).1, (authorizeWith cfg pinnedReset tok s).2) :=
  authorizeWith_map cfg (renameRule ρ) pinnedReset tok s
    (fun r hr fs acc => Rename.applyRule_rename cfg ρ r (hinj r hr) fs acc)

/-- Same verdict. -/
theorem authorize_rename_verdict (cfg : EvalCfg) (ρ : Bytes → Bytes) (tok : Token) (s : AuthState)
    (hinj : InjOnAll ρ tok s) :
    (authorize cfg (renameToken ρ tok) (renameAuth ρ s)).2 = (authorize cfg tok s).2 := by
  rw [authorize_rename cfg ρ tok s hinj]

/-- Same derived facts, in the same order. -/
theorem authorize_rename_facts (cfg : EvalCfg) (ρ : Bytes → Bytes) (tok : Token) (s : AuthState)
    (hinj : InjOnAll ρ tok s) :
    (authorize cfg (renameToken ρ tok) (renameAuth ρ s)).1.world.facts
      = (authorize cfg tok s).1.world.facts := by
  rw [authorize_rename cfg ρ tok s hinj]
  rfl

/-- **C12 (renaming), `Query`.** Querying a renamed rule on the renamed authorizer
returns the same facts (or the same run error) and leaves the renamed state. The
renaming of the query may differ from the renaming of the authorizer's rules. -/
theorem query_renameEach (cfg : EvalCfg) (ρs : DRule → Bytes → Bytes) (s : AuthState) (q : DRule)
    (hs : ∀ r ∈ s.world.rules, InjOn (ρs r) (ruleVars r)) (hq : InjOn (ρs q) (ruleVars q)) :
    query cfg (s.mapRules (renameEach ρs)) (renameEach ρs q)
      = ((query cfg s q).1.mapRules (renameEach ρs), (query cfg s q).2) :=
  query_map cfg (renameEach ρs) s q
    (fun r hr fs acc => Rename.applyRule_rename cfg (ρs r) r (hs r hr) fs acc)
    (fun fs acc => Rename.applyRule_rename cfg (ρs q) q hq fs acc)

theorem query_rename (cfg : EvalCfg) (ρ : Bytes → Bytes) (s : AuthState) (q : DRule)
    (hs : ∀ r ∈ s.world.rules, InjOn ρ (ruleVars r)) (hq : InjOn ρ (ruleVars q)) :
    query cfg (renameAuth ρ s) (renameRule ρ q)
      = (renameAuth ρ (query cfg s q).1, (query cfg s q).2) :=
  query_map cfg (renameRule ρ) s q
    (fun r hr fs acc => Rename.applyRule_rename cfg ρ r (hs r hr) fs acc)
    (fun fs acc => Rename.applyRule_rename cfg ρ q hq fs acc)

theorem query_rename_result (cfg : EvalCfg) (ρ : Bytes → Bytes) (s : AuthState) (q : DRule)
    (hs : ∀ r ∈ s.world.rules, InjOn ρ (ruleVars r)) (hq : InjOn ρ (ruleVars q)) :
    (query cfg (renameAuth ρ s) (renameRule ρ q)).2 = (query cfg s q).2 := by
  rw [query_rename cfg ρ s q hs hq]

/-! ### 4. Non-vacuity, and necessity of injectivity -/

def cfg0 : EvalCfg := { rx := fun _ _ => none }
def lim0 : Limits := { maxFacts := 1000, maxIter := 100 }

def x : Bytes := [120]
def y : Bytes := [121]
def z : Bytes := [122]

/-- Swap `$x` and `$y`, leave every other name alone. -/
def swapXY (n : Bytes) : Bytes := if n = x then y else if n = y then x else n

/-- Merge every variable into `$x`. -/
def mergeAll (_ : Bytes) : Bytes := x

def e (a b : Int) : DFact := { name := [101], args := [.atom (.int a), .atom (.int b)] }

/-- `p($y, $x) <- e($x, $y), $x < $y`. -/
def rLess : DRule :=
  { head := { name := [112], terms := [.var y, .var x] }
    body := [{ name := [101], terms := [.var x, .var y] }]
    exprs := [[.value (.var x), .value (.var y), .binary .lt]] }

/-- `q() <- p(2, 1)`. -/
def qP21 : DRule :=
  { head := { name := [113], terms := [] }
    body := [{ name := [112], terms := [.const (.atom (.int 2)), .const (.atom (.int 1))] }]
    exprs := [] }

/-- `q($x) <- p($x, $z), e($z, $y)`, a three-variable policy query. -/
def qJoin : DRule :=
  { head := { name := [113], terms := [.var x] }
    body := [{ name := [112], terms := [.var x, .var z] }, { name := [101], terms := [.var z, .var y] }]
    exprs := [] }

def tokR : Token :=
  { authority := { facts := [e 1 2, e 3 3], rules := [rLess], checks := [{ queries := [qP21] }] }
    blocks := [{ facts := [e 5 4], rules := [rLess], checks := [{ queries := [qJoin] }] }] }

def authR : AuthState := addPolicy (AuthState.fresh lim0) { kind := .allow, queries := [qJoin] }

/-- The swap is not the identity on the program … -/
example : renameToken swapXY tokR ≠ tokR := by decide
example : renameRule swapXY rLess =
    { head := { name := [112], terms := [.var x, .var y] }
      body := [{ name := [101], terms := [.var y, .var x] }]
      exprs := [[.value (.var y), .value (.var x), .binary .lt]] } := by decide
/-- … the hypothesis of `authorize_rename` holds … -/
example : InjOnAll swapXY tokR authR := by decide
/-- … and both presentations are accepted, with the same final state up to renaming. -/
example : (authorize cfg0 tokR authR).2 = .ok := by decide
example : (authorize cfg0 (renameToken swapXY tokR) (renameAuth swapXY authR)).2 = .ok := by decide
example : authorize cfg0 (renameToken swapXY tokR) (renameAuth swapXY authR)
    = (renameAuth swapXY (authorize cfg0 tokR authR).1, .ok) := by decide
/-- The rule does derive something (the run is not trivially empty). -/
example : (applyRule (evalBool cfg0) rLess [e 1 2, e 3 3] []) =
    ([{ name := [112], args := [.atom (.int 2), .atom (.int 1)] }], none) := by decide

/-- **Injectivity is necessary (engine).** Merging `$x` and `$y` turns
`p($y,$x) <- e($x,$y), $x < $y` into `p($x,$x) <- e($x,$x), $x < $x`. -/
theorem merge_changes_applyRule :
    ∃ (cfg : EvalCfg) (ρ : Bytes → Bytes) (r : DRule) (facts : List DFact),
      applyRule (evalBool cfg) (renameRule ρ r) facts [] ≠ applyRule (evalBool cfg) r facts [] :=
  ⟨cfg0, mergeAll, rLess, [e 1 2, e 3 3], by decide⟩

/-- **Injectivity is necessary (authorizer).** A non-injective renaming can turn an
accepted token into a rejected one. -/
theorem merge_changes_verdict :
    ∃ (cfg : EvalCfg) (ρ : Bytes → Bytes) (tok : Token) (s : AuthState),
      (authorize cfg tok s).2 = .ok ∧
      (authorize cfg (renameToken ρ tok) (renameAuth ρ s)).2 ≠ (authorize cfg tok s).2 :=
  ⟨cfg0, mergeAll, tokR, authR, by decide, by decide⟩

/-- The merged program fails the authority check `q() <- p(2,1)` and the block check. -/
example : (authorize cfg0 (renameToken mergeAll tokR) (renameAuth mergeAll authR)).2
    = .checksFailed [.block 0 0, .block 1 0] := by decide

/-- Merging can also *create* an error: with `$y` unbound in the body, the original
rule reports an unknown variable, while the merged rule evaluates. So even the error
component is sensitive to non-injective renamings. -/
example :
    let r : DRule := { head := { name := [112], terms := [.var x] }
                       body := [{ name := [101], terms := [.var x, .var z] }]
                       exprs := [[.value (.var x), .value (.var y), .binary .le]] }
    (applyRule (evalBool cfg0) r [e 1 2] []).2 = some (.expr .unknownVar) ∧
    (applyRule (evalBool cfg0) (renameRule (fun n => if n = y then x else n) r) [e 1 2] []).2 = none := by
  decide

end Biscuit.C12Rename
