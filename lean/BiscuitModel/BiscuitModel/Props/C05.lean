/-
Props/C05 — Datalog evaluation computes exactly the least fixpoint.

Only property theorems and non-vacuity examples live here; helper lemmas are in
`Proofs/Datalog`. Statements are about `Model/Datalog`, generic in the value
type and in the expression evaluator.
-/
import BiscuitModel.Proofs.Datalog

namespace Biscuit.C05
open Biscuit

variable {V E : Type} [DecidableEq V]

/-- **QueryRule is exact** (second sentence of C05). If applying a rule to a fact
list completes without error, the produced facts are exactly the head instances
of the substitutions that (i) send every body predicate to a listed fact,
consistently, (ii) bind nothing but body variables, (iii) make every expression
true. Covers arity 0, constants, repeated variables, self-joins, empty bodies
and empty fact lists: no hypothesis on the rule. -/
theorem applyRule_exact (ev : Bindings V → E → Outcome Bool) (hev : EvRespects ev)
    (r : Rule V E) (S acc out : List (Fact V))
    (h : applyRule ev r S acc = (out, none)) (f : Fact V) :
    f ∈ out ↔ f ∈ acc ∨ ∃ σ, Sat ev r S σ ∧ instPred r.head σ = some f :=
  applyRule_spec ev hev r S acc out h f

/-- `World.QueryRule` returns exactly the satisfying head instances. -/
theorem queryRule_exact (ev : Bindings V → E → Outcome Bool) (hev : EvRespects ev)
    (r : Rule V E) (S : List (Fact V))
    (h : (applyRule ev r S []).2 = none) (f : Fact V) :
    f ∈ queryRule ev r S ↔ ∃ σ, Sat ev r S σ ∧ instPred r.head σ = some f := by
  have h' : applyRule ev r S [] = (queryRule ev r S, none) := by
    unfold queryRule; rw [← h]
  have := applyRule_spec ev hev r S [] _ h' f
  simpa using this

/-- **Soundness**: a run that completes without error contains only derivable facts. -/
theorem run_ok_sound (ev : Bindings V → E → Outcome Bool) (hev : EvRespects ev)
    (maxFacts maxIter : Nat) (P : List (Rule V E)) (F W : List (Fact V))
    (h : run ev maxFacts P maxIter F = (W, none)) :
    ∀ f ∈ W, Derivable ev P F f :=
  run_sound ev hev maxFacts P maxIter F W h

/-- **Completeness**: a run that completes without error contains every derivable fact. -/
theorem run_ok_complete (ev : Bindings V → E → Outcome Bool) (hev : EvRespects ev)
    (maxFacts maxIter : Nat) (P : List (Rule V E)) (F W : List (Fact V))
    (h : run ev maxFacts P maxIter F = (W, none)) :
    ∀ f, Derivable ev P F f → f ∈ W :=
  run_complete ev hev maxFacts P maxIter F W h

/-- **C05, first sentence**: the result of an error-free run is, as a set, exactly
the least model, for every program — recursion and mutual recursion included —
and the fact list stays duplicate-free. The only hypothesis is that `run`
returned without error, the property's own "to completion without error". -/
theorem run_ok_closure (ev : Bindings V → E → Outcome Bool) (hev : EvRespects ev)
    (maxFacts maxIter : Nat) (P : List (Rule V E)) (F W : List (Fact V))
    (hF : F.Nodup)
    (h : run ev maxFacts P maxIter F = (W, none)) :
    (∀ f, f ∈ W ↔ Derivable ev P F f) ∧ W.Nodup :=
  ⟨fun f => ⟨run_sound ev hev maxFacts P maxIter F W h f,
             run_complete ev hev maxFacts P maxIter F W h f⟩,
   run_nodup ev maxFacts P maxIter F W hF h⟩

/-- `Derivable` really is the *least* model: any set that contains the initial
facts and is closed under the rules contains every derivable fact. -/
theorem derivable_is_least (ev : Bindings V → E → Outcome Bool)
    (P : List (Rule V E)) (F : List (Fact V)) (M : Fact V → Prop)
    (hbase : ∀ f ∈ F, M f)
    (hclosed : ∀ r ∈ P, ∀ σ f,
      (∀ p ∈ r.body, ∃ g, instPred p σ = some g ∧ M g) →
      (∀ n v, σ.lookup n = some v → n ∈ bodyVars r.body) →
      checkExprs ev σ r.exprs = .ok true →
      instPred r.head σ = some f → M f) :
    ∀ f, Derivable ev P F f → M f :=
  derivable_least ev P F M hbase hclosed

/-- A successful run is a fixpoint: one more round adds nothing (consumed by C11). -/
theorem run_ok_is_fixpoint (ev : Bindings V → E → Outcome Bool)
    (maxFacts maxIter : Nat) (P : List (Rule V E)) (F W : List (Fact V))
    (h : run ev maxFacts P maxIter F = (W, none)) :
    ∃ new, stepAll ev W P [] = (new, none) ∧ ∀ f ∈ new, f ∈ W :=
  run_fixpoint ev maxFacts P maxIter F W h

/-- The concrete expression evaluator used by the engine respects lookup-equivalence. -/
theorem evalExpr_respects (cfg : EvalCfg) : EvRespects (evalBool cfg) :=
  evalBool_respects cfg

end Biscuit.C05
