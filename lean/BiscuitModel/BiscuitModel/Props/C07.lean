/-
Props/C07 — wire fidelity: bytes carry exactly the caller's Datalog and round-trip intact.

`Model/Wire` is an independent encoder/decoder written from pb/biscuit.proto;
`Model/Symbols` interns content as the builders do and resolves it by the published
symbol rules (default table below 1024, per-block tables of new symbols only, each block
resolvable from its own and earlier tables).
-/
import BiscuitModel.Proofs.Wire

namespace Biscuit.C07
open Biscuit Biscuit.Wire

/-! ## 1. Generic layer -/

theorem varint_roundtrip (n : Nat) (h : n < 2^64) (rest : Bytes) :
    decodeVarint (encodeVarint n ++ rest) = some (n, rest) := by
  exact wire_decodeVarint_encode n h rest

theorem fields_roundtrip (fs : List Field) (h : ∀ f ∈ fs, FieldWF f) :
    decodeFields (encodeFields fs) = some fs := by
  exact wire_decodeFields_encode fs h

/-! ## 2. Block messages -/

theorem term_roundtrip (t : ITerm) (h : TermWF t) (hl : (encodeFields (encTerm t)).length < 2^64) :
    decTerm (encodeFields (encTerm t)) = some t := by
  exact wire_decTerm_enc t h hl

theorem pred_roundtrip (p : IPred) (h : PredWF p) (hl : (encodeFields (encPred p)).length < 2^64) :
    decPred (encodeFields (encPred p)) = some p := by
  exact wire_decPred_enc p h hl

theorem rule_roundtrip (r : IRule) (h : RuleWF r) (hl : (encodeFields (encRule r)).length < 2^64) :
    decRule (encodeFields (encRule r)) = some r := by
  exact wire_decRule_enc r h hl

/-- **Round trip of block content** through the published schema. -/
theorem block_roundtrip (b : BlockMsg) (h : BlockWF b) : decodeBlock (encodeBlock b) = some b := by
  exact wire_decodeBlock_enc b h

/-! ## 3. Operator codes: mutually inverse with the published enum numbering -/

theorem unary_code_roundtrip (u : UnOp) : unaryOfCode (unaryCode u) = some u := by
  exact sym_unary_code_roundtrip u

theorem binary_code_roundtrip (b : BinOp) : binaryOfCode (binaryCode b) = some b := by
  exact sym_binary_code_roundtrip b

theorem unary_code_unique (k : Nat) (u : UnOp) (h : unaryOfCode k = some u) : unaryCode u = k := by
  exact sym_unary_code_unique k u h

theorem binary_code_unique (k : Nat) (b : BinOp) (h : binaryOfCode k = some b) : binaryCode b = k := by
  exact sym_binary_code_unique k b h

/-! ## 4. Symbols: what the builders intern is what the published rules resolve -/

theorem symInsert_resolves (t : SymTable) (s : Bytes) (h : TableOK t) :
    symStr (symInsert t s).1 (symInsert t s).2 = some s ∧ TableOK (symInsert t s).1 := by
  exact sym_symInsert_resolves t s h

/-- Extending a table never re-binds an index that resolved before: a later block (or the
authorizer) cannot change the meaning of an earlier block's symbols. -/
theorem symInsert_prefix_stable (t : SymTable) (s : Bytes) (i : Nat) (x : Bytes)
    (h : symStr t i = some x) : symStr (symInsert t s).1 i = some x := by
  exact sym_symInsert_prefix_stable t s i x h

theorem append_prefix_stable (t ext : SymTable) (i : Nat) (x : Bytes) (h : symStr t i = some x) :
    symStr (t ++ ext) i = some x := by
  exact sym_append_prefix_stable t ext i x h

/-- One block: the symbols it declares are exactly the new ones, and resolving the built
message with the table extended by them returns the caller's content, version 3. -/
theorem buildBlock_resolves (t : SymTable) (ht : TableOK t) (c : BlockContent) :
    let r := buildBlockMsg t c
    r.1 = t ++ r.2.symbols ∧ TableOK r.1 ∧ freshSymbols t r.2.symbols = true ∧
    r.2.version = some 3 ∧ resolveBlock r.1 r.2 = some c := by
  exact sym_buildBlock_resolves t ht c

/-- **C07, first sentence.** For every content expressible through the builders — every
term type, sets, nested expressions, default and fresh symbols, symbols shared across
blocks — decoding block for block by the published symbol rules yields the facts, rules,
checks, expressions and context the caller supplied. -/
theorem build_then_resolve (cs : List BlockContent) :
    resolveBlocks [] (buildBlockMsgs [] cs) = some cs := by
  exact sym_build_then_resolve cs [] sym_tableOK_nil

/-- The same for a caller-supplied base table (`WithSymbols` at build time, the same table in
`Unmarshaler.Symbols` at load time): any duplicate-free table without default symbols. -/
theorem build_then_resolve_from (base : SymTable) (hb : TableOK base) (cs : List BlockContent) :
    resolveBlocks base (buildBlockMsgs base cs) = some cs := by
  exact sym_build_then_resolve cs base hb

/-! ## 5. Version gate -/

theorem version_gate (v : Option Nat) : versionOk v = true ↔ v = some 3 := by
  exact sym_version_gate v

/-! Non-vacuity: a three-block token sharing symbols across blocks. -/

def sA : Bytes := strBytes "alice"
def fOwner : DFact := { name := strBytes "owner", args := [.atom (.str sA), .atom (.str (strBytes "file1"))] }
def rRead : DRule := { head := { name := strBytes "right", terms := [.var (strBytes "f"), .const (.atom (.str (strBytes "read")))] },
                       body := [{ name := strBytes "owner", terms := [.const (.atom (.str sA)), .var (strBytes "f")] }],
                       exprs := [[.value (.var (strBytes "f")), .value (.const (.atom (.str (strBytes "file")))), .binary .pfx]] }
def cs3 : List BlockContent :=
  [ { block := { facts := [fOwner], rules := [rRead], checks := [] }, context := [] },
    { block := { facts := [], rules := [], checks := [{ queries := [rRead] }] }, context := strBytes "ctx" },
    { block := { facts := [{ name := strBytes "time", args := [.atom (.date 5), .set [.int 1, .int 2]] }], rules := [], checks := [] }, context := [] } ]

example : resolveBlocks [] (buildBlockMsgs [] cs3) = some cs3 := by decide +kernel
example : ((buildBlockMsgs [] cs3).map (·.symbols)) = [[sA, strBytes "file1", strBytes "f", strBytes "file"], [], []] := by decide +kernel
example : (buildBlockMsgs [] cs3).mapM (fun m => decodeBlock (encodeBlock m)) = some (buildBlockMsgs [] cs3) := by decide +kernel

end Biscuit.C07
