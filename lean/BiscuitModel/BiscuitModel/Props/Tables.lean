/-
Props/Tables — ties between the model and tables REGENERATED from the library's current
working tree by `harness extract` (Generated/Tables.lean, rewritten on every check run).

Every theorem is a closed finite statement, so `decide` over the whole table is the proof.
A change of the source that alters a table breaks an obligation here at `lake build`.
The right-hand sides are the model's own definitions (Model/Symbols, Model/Expr, Props/C06)
or, for the published protobuf schema and the printed operator spellings, literal tables
written from pb/biscuit.proto's published form and parser/GRAMMAR.md.
-/
import BiscuitModel.Generated.Tables
import BiscuitModel.Props.C06
import BiscuitModel.Model.Symbols

namespace Biscuit.Tables
open Biscuit

/-! ### Symbols (C02, C07, C18) -/

theorem defaultSymbols_tied : Generated.defaultSymbols = defaultSymbolNames := by decide +kernel
theorem offset_tied : Generated.offset = symOffset := by decide
theorem defaultSymbols_intern_to_their_index : Generated.defaultSymbolInsertIndexes = List.range 28 := by decide
theorem fresh_symbols_are_consecutive : Generated.secondFreshIndex = symOffset + 1 := by decide

/-! ### Operator codes on the wire (C07), both directions -/

def allBinOps : List BinOp :=
  [.lt, .le, .gt, .ge, .eq, .contains, .pfx, .sfx, .regex, .add, .sub, .mul, .div, .and, .or, .intersection, .union]
def allUnOps : List UnOp := [.negate, .parens, .length]

def binName : BinOp → String
  | .lt => "lt" | .le => "le" | .gt => "gt" | .ge => "ge" | .eq => "eq" | .contains => "contains"
  | .pfx => "prefix" | .sfx => "suffix" | .regex => "regex" | .add => "add" | .sub => "sub"
  | .mul => "mul" | .div => "div" | .and => "and" | .or => "or" | .intersection => "intersection"
  | .union => "union"
def unName : UnOp → String
  | .negate => "neg" | .parens => "par" | .length => "len"

/-- What the library writes for each operator is the published enum value. -/
theorem binaryWire_tied : Generated.binaryWire = allBinOps.map (fun b => (binName b, binaryCode b)) := by decide +kernel
theorem unaryWire_tied : Generated.unaryWire = allUnOps.map (fun u => (unName u, unaryCode u)) := by decide +kernel

/-- What the library reads for each raw enum value 0..20 is the published operator, and
values outside the enum are rejected. -/
theorem binaryFromWire_tied :
    Generated.binaryFromWire = (List.range 21).map (fun k => (k, match binaryOfCode k with | some b => binName b | none => "reject")) := by
  decide +kernel
theorem unaryFromWire_tied :
    Generated.unaryFromWire = (List.range 6).map (fun k => (k, match unaryOfCode k with | some u => unName u | none => "reject")) := by
  decide +kernel

/-! ### Printed operator spellings (C15): the documented surface syntax -/

def documentedBinary : List (String × String) := [("lt", "L < R"), ("le", "L <= R"), ("gt", "L > R"), ("ge", "L >= R"), ("eq", "L == R"), ("contains", "L.contains(R)"), ("prefix", "L.starts_with(R)"), ("suffix", "L.ends_with(R)"), ("regex", "L.matches(R)"), ("add", "L + R"), ("sub", "L - R"), ("mul", "L * R"), ("div", "L / R"), ("and", "L && R"), ("or", "L || R"), ("intersection", "L.intersection(R)"), ("union", "L.union(R)")]
def documentedUnary : List (String × String) := [("neg", "!V"), ("par", "(V)"), ("len", "V.length()")]

theorem printedBinary_tied : Generated.printedBinary = documentedBinary := by decide +kernel
theorem printedUnary_tied : Generated.printedUnary = documentedUnary := by decide +kernel

/-! ### Operator typing (C06): the running library accepts exactly the model's table -/

def typeOfName : String → VType
  | "integer" => .integer | "string" => .string | "date" => .date | "bytes" => .bytes | "bool" => .bool | _ => .set
def typeNames : List String := ["integer", "string", "date", "bytes", "bool", "set"]

theorem acceptedBinary_tied :
    Generated.acceptedBinary =
      allBinOps.flatMap (fun b => typeNames.flatMap (fun l => typeNames.map (fun r =>
        (binName b, l, r, C06.accepts b (typeOfName l) (typeOfName r))))) := by
  decide +kernel

theorem acceptedUnary_tied :
    Generated.acceptedUnary =
      allUnOps.flatMap (fun u => typeNames.map (fun t => (unName u, t, C06.acceptsUnary u (typeOfName t)))) := by
  decide +kernel

/-! ### Bounds (C06, C11) -/

theorem maxStackSize_tied : Generated.maxStackSize = maxStackSize := by decide
theorem schemaVersions_tied : Generated.minSchemaVersion = minSchemaVersion ∧ Generated.maxSchemaVersion = maxSchemaVersion := by decide
theorem defaultLimits_tied : Generated.defaultMaxFacts = 1000 ∧ Generated.defaultMaxIterations = 100 := by decide

/-! ### The published protobuf schema (C07, C10, C18): message, field, number, label, type -/

def publishedFields : List (String × String × Nat × String × String) := [("AuthorizerPolicies", "checks", 5, "repeated", "CheckV2"), ("AuthorizerPolicies", "facts", 3, "repeated", "FactV2"), ("AuthorizerPolicies", "policies", 6, "repeated", "Policy"), ("AuthorizerPolicies", "rules", 4, "repeated", "RuleV2"), ("AuthorizerPolicies", "symbols", 1, "repeated", "string"), ("AuthorizerPolicies", "version", 2, "optional", "uint32"), ("Biscuit", "authority", 2, "required", "SignedBlock"), ("Biscuit", "blocks", 3, "repeated", "SignedBlock"), ("Biscuit", "proof", 4, "required", "Proof"), ("Biscuit", "rootKeyId", 1, "optional", "uint32"), ("Block", "checks_v2", 6, "repeated", "CheckV2"), ("Block", "context", 2, "optional", "string"), ("Block", "facts_v2", 4, "repeated", "FactV2"), ("Block", "rules_v2", 5, "repeated", "RuleV2"), ("Block", "symbols", 1, "repeated", "string"), ("Block", "version", 3, "optional", "uint32"), ("CheckV2", "queries", 1, "repeated", "RuleV2"), ("ExpressionV2", "ops", 1, "repeated", "Op"), ("FactV2", "predicate", 1, "required", "PredicateV2"), ("Op", "Binary", 3, "oneof", "OpBinary"), ("Op", "unary", 2, "oneof", "OpUnary"), ("Op", "value", 1, "oneof", "TermV2"), ("OpBinary", "kind", 1, "required", "Kind"), ("OpUnary", "kind", 1, "required", "Kind"), ("Policy", "kind", 2, "required", "Kind"), ("Policy", "queries", 1, "repeated", "RuleV2"), ("PredicateV2", "name", 1, "required", "uint64"), ("PredicateV2", "terms", 2, "repeated", "TermV2"), ("Proof", "finalSignature", 2, "oneof", "bytes"), ("Proof", "nextSecret", 1, "oneof", "bytes"), ("PublicKey", "algorithm", 1, "required", "Algorithm"), ("PublicKey", "key", 2, "required", "bytes"), ("RuleV2", "body", 2, "repeated", "PredicateV2"), ("RuleV2", "expressions", 3, "repeated", "ExpressionV2"), ("RuleV2", "head", 1, "required", "PredicateV2"), ("SignedBlock", "block", 1, "required", "bytes"), ("SignedBlock", "nextKey", 2, "required", "PublicKey"), ("SignedBlock", "signature", 3, "required", "bytes"), ("TermSet", "set", 1, "repeated", "TermV2"), ("TermV2", "bool", 6, "oneof", "bool"), ("TermV2", "bytes", 5, "oneof", "bytes"), ("TermV2", "date", 4, "oneof", "uint64"), ("TermV2", "integer", 2, "oneof", "int64"), ("TermV2", "set", 7, "oneof", "TermSet"), ("TermV2", "string", 3, "oneof", "uint64"), ("TermV2", "variable", 1, "oneof", "uint32")]
def publishedEnums : List (String × String × Nat) := [("OpBinary.Kind", "Add", 9), ("OpBinary.Kind", "And", 13), ("OpBinary.Kind", "Contains", 5), ("OpBinary.Kind", "Div", 12), ("OpBinary.Kind", "Equal", 4), ("OpBinary.Kind", "GreaterOrEqual", 3), ("OpBinary.Kind", "GreaterThan", 1), ("OpBinary.Kind", "Intersection", 15), ("OpBinary.Kind", "LessOrEqual", 2), ("OpBinary.Kind", "LessThan", 0), ("OpBinary.Kind", "Mul", 11), ("OpBinary.Kind", "Or", 14), ("OpBinary.Kind", "Prefix", 6), ("OpBinary.Kind", "Regex", 8), ("OpBinary.Kind", "Sub", 10), ("OpBinary.Kind", "Suffix", 7), ("OpBinary.Kind", "Union", 16), ("OpUnary.Kind", "Length", 2), ("OpUnary.Kind", "Negate", 0), ("OpUnary.Kind", "Parens", 1), ("Policy.Kind", "Allow", 0), ("Policy.Kind", "Deny", 1), ("PublicKey.Algorithm", "Ed25519", 0)]

theorem protoFields_tied : Generated.protoFields = publishedFields := by decide +kernel
theorem protoEnums_tied : Generated.protoEnums = publishedEnums := by decide +kernel

end Biscuit.Tables
