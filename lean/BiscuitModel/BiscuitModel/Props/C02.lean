/-
Props/C02 — attenuation can only restrict.

`authorize cfg tok s`: `tok` is any token (any authority content, any number of
earlier blocks), `s` any authorizer state (any facts, rules, checks, ordered
policies, limits, evaluated before or not), `B` any block — facts mimicking
authority facts, rules re-deriving rights, erroring expressions, anything.
-/
import BiscuitModel.Proofs.Authorizer

namespace Biscuit.C02
open Biscuit

/-- **C02.** If the attenuated token is accepted, so is its parent. -/
theorem attenuation_monotone (cfg : EvalCfg) (tok : Token) (B : Block) (s : AuthState) :
    (authorize cfg (tok.append B) s).2 = .ok → (authorize cfg tok s).2 = .ok := by
  exact authorize_suffix_ok cfg tok.authority tok.blocks [B] s

/-- The same for any number of appended blocks. -/
theorem attenuation_monotone_suffix (cfg : EvalCfg) (tok : Token) (Bs : List Block) (s : AuthState) :
    (authorize cfg { tok with blocks := tok.blocks ++ Bs } s).2 = .ok →
    (authorize cfg tok s).2 = .ok := by
  exact authorize_suffix_ok cfg tok.authority tok.blocks Bs s

/-- Contrapositive, as the property words it: no appended block turns a refusal
of the parent into an acceptance. -/
theorem refusal_is_stable (cfg : EvalCfg) (tok : Token) (B : Block) (s : AuthState)
    (h : (authorize cfg tok s).2 ≠ .ok) : (authorize cfg (tok.append B) s).2 ≠ .ok := by
  exact fun h' => h (attenuation_monotone cfg tok B s h')

/-- Everything computed before the block loop (authority-level world, failed
authorizer and authority checks, policy result) is a function of the authority
block and the authorizer only. -/
theorem authorityPhase_indep_blocks (cfg : EvalCfg) (A : Block) (bs bs' : List Block) (s : AuthState) :
    authorityPhase cfg (Token.mk A bs).authority s = authorityPhase cfg (Token.mk A bs').authority s := by
  rfl

/-- Failures of the parent are still failures of the attenuated token, in the same order. -/
theorem failed_checks_prefix (cfg : EvalCfg) (tok : Token) (B : Block) (s : AuthState)
    (ids ids' : List CheckId)
    (h : (authorize cfg tok s).2 = .checksFailed ids)
    (h' : (authorize cfg (tok.append B) s).2 = .checksFailed ids') : ids <+: ids' := by
  cases hap : authorityPhase cfg tok.authority s with
  | mk w r =>
    have hap' : authorityPhase cfg (tok.append B).authority s = (w, r) := hap
    cases r with
    | error e =>
      rw [authorize, authorizeWith_snd_err cfg false _ s w e hap] at h
      cases h
    | ok ap =>
      rw [authorize, authorizeWith_snd_ok cfg false _ s w ap hap] at h
      rw [authorize, authorizeWith_snd_ok cfg false _ s w ap hap'] at h'
      have hb := finish_eq_checksFailed _ _ _ h
      have hb' := finish_eq_checksFailed _ _ _ h'
      simp only [Token.append] at hb'
      rw [blockPhase_append, hb] at hb'
      exact blockPhase_prefix cfg _ _ _ _ _ _ hb'

/-- A run-limit or evaluation error of the parent is the verdict of the attenuated token too. -/
theorem run_error_is_stable (cfg : EvalCfg) (tok : Token) (B : Block) (s : AuthState) (e : RunErr)
    (h : (authorize cfg tok s).2 = .runError e) : (authorize cfg (tok.append B) s).2 = .runError e := by
  cases hap : authorityPhase cfg tok.authority s with
  | mk w r =>
    have hap' : authorityPhase cfg (tok.append B).authority s = (w, r) := hap
    cases r with
    | error e' =>
      rw [authorize, authorizeWith_snd_err cfg false _ s w e' hap] at h
      rw [authorize, authorizeWith_snd_err cfg false _ s w e' hap']
      exact h
    | ok ap =>
      rw [authorize, authorizeWith_snd_ok cfg false _ s w ap hap] at h
      rw [authorize, authorizeWith_snd_ok cfg false _ s w ap hap']
      have hb := finish_eq_runError _ _ _ h
      simp only [Token.append]
      rw [blockPhase_append, hb]
      rfl

/-! Non-vacuity: a token whose attenuated form is accepted (so the hypothesis of
`attenuation_monotone` is satisfiable), and one where the block makes it fail. -/

def cfg0 : EvalCfg := { rx := fun _ _ => none }
def fRead : DFact := { name := [114], args := [.atom (.str [97])] }          -- r("a")
def qRead : DRule := { head := { name := [113], terms := [] },
                       body := [{ name := [114], terms := [.var [120]] }], exprs := [] }  -- q() <- r($x)
def qNever : DRule := { head := { name := [113], terms := [] },
                        body := [{ name := [122], terms := [] }], exprs := [] }           -- q() <- z()
def tok0 : Token := { authority := { facts := [fRead], rules := [], checks := [] }, blocks := [] }
def blkOk : Block := { facts := [], rules := [], checks := [{ queries := [qRead] }] }
def blkBad : Block := { facts := [], rules := [], checks := [{ queries := [qNever] }] }
def auth0 : AuthState :=
  addPolicy (AuthState.fresh { maxFacts := 1000, maxIter := 100 }) { kind := .allow, queries := [qRead] }

example : (authorize cfg0 (tok0.append blkOk) auth0).2 = .ok := by decide
example : (authorize cfg0 (tok0.append blkBad) auth0).2 = .checksFailed [.block 1 0] := by decide
example : (authorize cfg0 tok0 auth0).2 = .ok := by decide

end Biscuit.C02
