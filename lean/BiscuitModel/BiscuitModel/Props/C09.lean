/-
Props/C09 — sealing freezes a token without changing what it authorizes.

Envelope level (`Model/Token`): `sealEnvelope` replaces only the proof. Authorization
reads the blocks, never the proof, so "same authorization outcome" is equality of the
signed blocks (and of what `Unmarshal` parses from them).
-/
import BiscuitModel.Proofs.Token
import BiscuitModel.Model.Unmarshal

namespace Biscuit.C09
open Biscuit Biscuit.Wire

/-- Sealing changes nothing but the proof: same root key id, same signed blocks. -/
theorem seal_keeps_blocks (S : SigScheme) (e e' : BiscuitMsg) (h : sealEnvelope S e = .ok e') :
    e'.rootKeyId = e.rootKeyId ∧ e'.authority = e.authority ∧ e'.blocks = e.blocks := by
  obtain ⟨sk, _, _, rfl⟩ := sealEnvelopeWith_ok true S e e' h
  exact ⟨rfl, rfl, rfl⟩

/-- What the authorizer evaluates — the parsed blocks — is the same for the sealed token:
any function of the signed blocks (in particular `Unmarshal`'s block parse and hence every
`Authorize` outcome for every authorizer) agrees. -/
theorem seal_same_content (S : SigScheme) (e e' : BiscuitMsg) (h : sealEnvelope S e = .ok e') :
    parseAll (e'.authority :: e'.blocks) = parseAll (e.authority :: e.blocks) := by
  obtain ⟨_, h2, h3⟩ := seal_keeps_blocks S e e' h
  rw [h2, h3]

/-- Same revocation identifiers. -/
theorem seal_revocation_same (S : SigScheme) (e e' : BiscuitMsg) (h : sealEnvelope S e = .ok e') :
    revocationIds e' = revocationIds e := by
  obtain ⟨_, h2, h3⟩ := seal_keeps_blocks S e e' h
  simp only [revocationIds, h2, h3]

structure SchemeCorrect (S : SigScheme) : Prop where
  verifies : ∀ sk m, S.verify (S.pub sk) m (S.sign sk m) = true
  pubLen : ∀ sk, (S.pub sk).length = 32

/-- A token that verifies still verifies, under the same root key, once sealed. -/
theorem seal_verifies (S : SigScheme) (hS : SchemeCorrect S) (root : Bytes) (e e' : BiscuitMsg)
    (hv : verifyChain S root e = .ok ()) (h : sealEnvelope S e = .ok e') :
    verifyChain S root e' = .ok () := by
  rw [verifyChain_ok_iff] at hv ⊢
  exact seal_chainGood S hS.verifies true root e e' hv h

/-- A sealed token can be neither extended nor sealed again: both fail with an error. -/
theorem append_sealed_fails (S : SigScheme) (e : BiscuitMsg) (sig : Bytes) (hp : e.proof = .finalSignature sig)
    (block : Bytes) (rng : Rng) : appendEnvelope S e block rng = .error .sealed := by
  simp [appendEnvelope, appendEnvelopeWith, hp]

theorem seal_sealed_fails (S : SigScheme) (e : BiscuitMsg) (sig : Bytes) (hp : e.proof = .finalSignature sig) :
    sealEnvelope S e = .error .sealed := by
  simp [sealEnvelope, sealEnvelopeWith, hp]

/-- The result of sealing is sealed (so the two refusals above apply to it). -/
theorem seal_result_is_sealed (S : SigScheme) (e e' : BiscuitMsg) (h : sealEnvelope S e = .ok e') :
    ∃ sig, e'.proof = .finalSignature sig := by
  obtain ⟨sk, _, _, rfl⟩ := sealEnvelopeWith_ok true S e e' h
  exact ⟨_, rfl⟩

/-- A sealed token whose seal signature, last block or last announced key is altered is
rejected — unless the holder of the last announced secret signed the altered payload
(`Issued`); stated under the explicit unforgeability hypothesis. -/
theorem sealed_tamper_rejected (S : SigScheme) (Issued : Bytes → Bytes → Bytes → Prop)
    (hU : ∀ pk m s, S.verify pk m s = true → Issued pk m s)
    (root : Bytes) (e : BiscuitMsg) (sig : Bytes) (hp : e.proof = .finalSignature sig)
    (hnot : ¬ Issued (lastBlock e).nextKey.key (sealPayload (lastBlock e)) sig) :
    ∃ r, verifyChain S root e = .error r := by
  rcases verifyChain_ok_or_error S root e with h | h
  · rw [verifyChain_ok_iff] at h
    have := h.2
    unfold ProofGood at this
    rw [hp] at this
    exact absurd (hU _ _ _ this) hnot
  · exact h

/-- Well-formed envelopes survive `Serialize` / `Unmarshal` unchanged, so all of the above
still holds after persistence. -/
def EnvWF (e : BiscuitMsg) : Prop :=
  (∀ i, e.rootKeyId = some i → i < 2^32) ∧
  (∀ sb ∈ e.authority :: e.blocks, sb.nextKey.algorithm < 2^64)

/-- Without a bound on byte-string lengths the round trip is false: `EnvWF` bounds no
length, and the decoder (like protobuf) reads varints of at most ten bytes, i.e. lengths
below 2^70. An authority block of 2^70 zero bytes satisfies `EnvWF` but does not reload
(found while proving; the first formulation of this theorem omitted the length condition). -/
theorem reload_identity_counterexample : EnvWF hugeEnvelope ∧ reload hugeEnvelope = none := by
  refine ⟨⟨fun i hi => ?_, fun sb hsb => ?_⟩, hugeEnvelope_not_reloadable⟩
  · have hi' : (none : Option Nat) = some i := hi
    cases hi'
  · have : sb = hugeEnvelope.authority := List.mem_singleton.mp hsb
    subst this
    show (0 : Nat) < 2 ^ 64
    omega

/-- Well-formed envelopes whose serialization is shorter than 2^64 bytes (every real one)
survive `Serialize` / `Unmarshal` unchanged, so all of the above still holds after
persistence. (`_partial`: the side condition on the length is necessary, see the
counterexample above.) -/
theorem reload_identity_partial (e : BiscuitMsg) (h : EnvWF e) (hlen : (encodeBiscuit e).length < 2^64) :
    reload e = some e :=
  decodeBiscuit_encode_of_length e h.1 h.2 hlen

/-- Without any length condition: a reload that succeeds returns the envelope unchanged. -/
theorem reload_identity_of_some (e e' : BiscuitMsg) (h : EnvWF e) (hr : reload e = some e') : e' = e := by
  rw [reload_some e e' hr, normEnv_eq e h.1 h.2]

end Biscuit.C09
