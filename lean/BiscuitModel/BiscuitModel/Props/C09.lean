/-
Props/C09 — sealing freezes a token without changing what it authorizes.

Envelope level (`Model/Token`): `sealEnvelope` replaces only the proof. Authorization
reads the blocks, never the proof, so "same authorization outcome" is equality of the
signed blocks (and of what `Unmarshal` parses from them).
-/
import BiscuitModel.Proofs.Token
import BiscuitModel.Model.Unmarshal

namespace Biscuit.C09
open Biscuit Biscuit.Wire

/-- Sealing changes nothing but the proof: same root key id, same signed blocks. -/
theorem seal_keeps_blocks (S : SigScheme) (e e' : BiscuitMsg) (h : sealEnvelope S e = .ok e') :
    e'.rootKeyId = e.rootKeyId ∧ e'.authority = e.authority ∧ e'.blocks = e.blocks := by
  sorry

/-- What the authorizer evaluates — the parsed blocks — is the same for the sealed token:
any function of the signed blocks (in particular `Unmarshal`'s block parse and hence every
`Authorize` outcome for every authorizer) agrees. -/
theorem seal_same_content (S : SigScheme) (e e' : BiscuitMsg) (h : sealEnvelope S e = .ok e') :
    parseAll (e'.authority :: e'.blocks) = parseAll (e.authority :: e.blocks) := by
  sorry

/-- Same revocation identifiers. -/
theorem seal_revocation_same (S : SigScheme) (e e' : BiscuitMsg) (h : sealEnvelope S e = .ok e') :
    revocationIds e' = revocationIds e := by
  sorry

structure SchemeCorrect (S : SigScheme) : Prop where
  verifies : ∀ sk m, S.verify (S.pub sk) m (S.sign sk m) = true
  pubLen : ∀ sk, (S.pub sk).length = 32

/-- A token that verifies still verifies, under the same root key, once sealed. -/
theorem seal_verifies (S : SigScheme) (hS : SchemeCorrect S) (root : Bytes) (e e' : BiscuitMsg)
    (hv : verifyChain S root e = .ok ()) (h : sealEnvelope S e = .ok e') :
    verifyChain S root e' = .ok () := by
  sorry

/-- A sealed token can be neither extended nor sealed again: both fail with an error. -/
theorem append_sealed_fails (S : SigScheme) (e : BiscuitMsg) (sig : Bytes) (hp : e.proof = .finalSignature sig)
    (block : Bytes) (rng : Rng) : appendEnvelope S e block rng = .error .sealed := by
  sorry

theorem seal_sealed_fails (S : SigScheme) (e : BiscuitMsg) (sig : Bytes) (hp : e.proof = .finalSignature sig) :
    sealEnvelope S e = .error .sealed := by
  sorry

/-- The result of sealing is sealed (so the two refusals above apply to it). -/
theorem seal_result_is_sealed (S : SigScheme) (e e' : BiscuitMsg) (h : sealEnvelope S e = .ok e') :
    ∃ sig, e'.proof = .finalSignature sig := by
  sorry

/-- A sealed token whose seal signature, last block or last announced key is altered is
rejected — unless the holder of the last announced secret signed the altered payload
(`Issued`); stated under the explicit unforgeability hypothesis. -/
theorem sealed_tamper_rejected (S : SigScheme) (Issued : Bytes → Bytes → Bytes → Prop)
    (hU : ∀ pk m s, S.verify pk m s = true → Issued pk m s)
    (root : Bytes) (e : BiscuitMsg) (sig : Bytes) (hp : e.proof = .finalSignature sig)
    (hnot : ¬ Issued (lastBlock e).nextKey.key (sealPayload (lastBlock e)) sig) :
    ∃ r, verifyChain S root e = .error r := by
  sorry

/-- Well-formed envelopes survive `Serialize` / `Unmarshal` unchanged, so all of the above
still holds after persistence. -/
def EnvWF (e : BiscuitMsg) : Prop :=
  (∀ i, e.rootKeyId = some i → i < 2^32) ∧
  (∀ sb ∈ e.authority :: e.blocks, sb.nextKey.algorithm < 2^64)

theorem reload_identity (e : BiscuitMsg) (h : EnvWF e) : reload e = some e := by
  sorry

end Biscuit.C09
