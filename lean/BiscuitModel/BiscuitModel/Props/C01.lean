/-
Props/C01 — only an unbroken root-signed signature chain verifies.

`verifyChain` follows `authorizerFor` (biscuit.go:332-413) link by link. The theorems
quantify over every signature scheme `S`; unforgeability enters only as an explicit
hypothesis (`Unforgeable`), never as an axiom.
-/
import BiscuitModel.Proofs.Token

namespace Biscuit.C01
open Biscuit Biscuit.Wire

/-- Every link is signed by the key announced by its predecessor (the first by `k`). -/
def LinksOK (S : SigScheme) : Bytes → List SignedBlockMsg → Prop
  | _, [] => True
  | k, sb :: rest =>
    sb.nextKey.algorithm = ed25519Alg ∧ S.verify k (blockPayload sb) sb.signature = true ∧
    sb.nextKey.key.length = 32 ∧ LinksOK S sb.nextKey.key rest

/-- The key announced by the last block. -/
def lastAnnounced (e : BiscuitMsg) : Bytes := (lastBlock e).nextKey.key

/-- The closing proof matches the last announced key. -/
def ProofOK (S : SigScheme) (e : BiscuitMsg) : Prop :=
  match e.proof with
  | .nextSecret sk => sk.length = 32 ∧ S.pub sk = lastAnnounced e
  | .finalSignature sig => S.verify (lastAnnounced e) (sealPayload (lastBlock e)) sig = true
  | .empty => False

/-- The declarative statement of the property's first sentence. -/
def ChainOK (S : SigScheme) (root : Bytes) (e : BiscuitMsg) : Prop :=
  LinksOK S root (e.authority :: e.blocks) ∧ ProofOK S e

theorem LinksOK_iff (S : SigScheme) (k : Bytes) (l : List SignedBlockMsg) :
    LinksOK S k l ↔ LinksGood S k l := by
  induction l generalizing k with
  | nil => simp [LinksOK, LinksGood]
  | cons sb rest ih => simp only [LinksOK, LinksGood, ih]

theorem ProofOK_iff (S : SigScheme) (e : BiscuitMsg) :
    ProofOK S e ↔ ProofGood S (lastBlock e).nextKey.key e := by
  unfold ProofOK ProofGood lastAnnounced
  cases e.proof <;> simp

theorem ChainOK_iff (S : SigScheme) (root : Bytes) (e : BiscuitMsg) :
    ChainOK S root e ↔ ChainGood S root e := by
  unfold ChainOK ChainGood
  rw [LinksOK_iff, ProofOK_iff]

/-- **C01, first sentence.** For every scheme, root key and envelope — any number of
blocks — the chain walk accepts iff the chain is unbroken and the proof matches. -/
theorem verifyChain_iff (S : SigScheme) (root : Bytes) (e : BiscuitMsg) :
    verifyChain S root e = .ok () ↔ ChainOK S root e := by
  rw [verifyChain_ok_iff, ChainOK_iff]

/-- With the decode-time size gates: acceptance of a decoded envelope. -/
theorem accept_iff (S : SigScheme) (root : Bytes) (e : BiscuitMsg) :
    accept S root e = .ok () ↔
      (∀ sb ∈ e.authority :: e.blocks, sb.nextKey.key.length = 32 ∧ sb.signature.length = 64) ∧
      root ≠ [] ∧ ChainOK S root e := by
  unfold accept
  rw [← verifyChain_iff, ← sizeGates_ok_iff]
  cases hs : sizeGates e with
  | error r => simp [bind, Except.bind]
  | ok u =>
    cases root with
    | nil => simp [bind, Except.bind]
    | cons b bs => simp [bind, Except.bind]

/-- The signed byte string determines every field it is meant to bind: two signed
blocks with 32-byte keys and the same payload have the same block bytes, algorithm and
announced key. (A field left out of the payload would falsify this.) -/
theorem payload_injective (a b : SignedBlockMsg)
    (ha : a.nextKey.key.length = 32) (hb : b.nextKey.key.length = 32)
    (hA : a.nextKey.algorithm < 2^32) (hB : b.nextKey.algorithm < 2^32)
    (h : blockPayload a = blockPayload b) :
    a.block = b.block ∧ a.nextKey.algorithm = b.nextKey.algorithm ∧ a.nextKey.key = b.nextKey.key := by
  exact blockPayload_inj a b (by rw [ha, hb]) hA hB h

/-- The seal payload additionally binds the last signature. -/
theorem sealPayload_injective (a b : SignedBlockMsg)
    (ha : a.nextKey.key.length = 32) (hb : b.nextKey.key.length = 32)
    (hA : a.nextKey.algorithm < 2^32) (hB : b.nextKey.algorithm < 2^32)
    (hsa : a.signature.length = 64) (hsb : b.signature.length = 64)
    (h : sealPayload a = sealPayload b) :
    a.block = b.block ∧ a.nextKey.algorithm = b.nextKey.algorithm ∧ a.nextKey.key = b.nextKey.key ∧
    a.signature = b.signature := by
  exact sealPayload_inj a b (by rw [ha, hb]) hA hB (by rw [hsa, hsb]) h

/-- Idealised unforgeability: every verifying triple was produced by the holder of the
secret key (`Issued pk m s`). A *hypothesis* of the theorems below. -/
def Unforgeable (S : SigScheme) (Issued : Bytes → Bytes → Bytes → Prop) : Prop :=
  ∀ pk m s, S.verify pk m s = true → Issued pk m s

/-- Each link of an accepted chain, with the key it must verify under. -/
def linkKeys (root : Bytes) (sbs : List SignedBlockMsg) : List (Bytes × SignedBlockMsg) :=
  (root :: sbs.map (·.nextKey.key)).zip sbs

/-- **Forgery resistance.** If the chain walk accepts, then every block — in its
position — was signed by the holder of the key announced by its predecessor (the root
key for the authority block), and the proof was produced by the holder of the last
announced secret. -/
theorem accepted_is_issued (S : SigScheme) (Issued : Bytes → Bytes → Bytes → Prop)
    (hU : Unforgeable S Issued) (root : Bytes) (e : BiscuitMsg)
    (h : verifyChain S root e = .ok ()) :
    (∀ ks ∈ linkKeys root (e.authority :: e.blocks), Issued ks.1 (blockPayload ks.2) ks.2.signature) ∧
    (match e.proof with
     | .nextSecret sk => S.pub sk = lastAnnounced e
     | .finalSignature sig => Issued (lastAnnounced e) (sealPayload (lastBlock e)) sig
     | .empty => False) := by
  rw [verifyChain_ok_iff] at h
  obtain ⟨hl, hp⟩ := h
  refine ⟨fun ks hks => hU _ _ _ (LinksGood_zip S root _ hl ks hks), ?_⟩
  unfold ProofGood at hp
  unfold lastAnnounced
  cases hpr : e.proof with
  | nextSecret sk => rw [hpr] at hp; exact hp.2
  | finalSignature sig => rw [hpr] at hp; exact hU _ _ _ hp
  | empty => rw [hpr] at hp; exact hp

/-- Contrapositive, one corollary for every manipulation of the quantifier: an envelope
containing a link that the holder of the corresponding key never signed — a changed
block byte, announced key or signature; a block moved to another position, inserted,
or taken from another token — is rejected. -/
theorem unissued_link_rejected (S : SigScheme) (Issued : Bytes → Bytes → Bytes → Prop)
    (hU : Unforgeable S Issued) (root : Bytes) (e : BiscuitMsg)
    (ks : Bytes × SignedBlockMsg) (hks : ks ∈ linkKeys root (e.authority :: e.blocks))
    (hnot : ¬ Issued ks.1 (blockPayload ks.2) ks.2.signature) :
    ∃ r, verifyChain S root e = .error r := by
  rcases verifyChain_ok_or_error S root e with h | h
  · exact absurd ((accepted_is_issued S Issued hU root e h).1 ks hks) hnot
  · exact h

/-- A replaced proof is rejected unless its maker holds the last announced secret. -/
theorem foreign_proof_rejected (S : SigScheme) (Issued : Bytes → Bytes → Bytes → Prop)
    (hU : Unforgeable S Issued) (root : Bytes) (e : BiscuitMsg) (sig : Bytes)
    (hp : e.proof = .finalSignature sig)
    (hnot : ¬ Issued (lastAnnounced e) (sealPayload (lastBlock e)) sig) :
    ∃ r, verifyChain S root e = .error r := by
  rcases verifyChain_ok_or_error S root e with h | h
  · have := (accepted_is_issued S Issued hU root e h).2
    rw [hp] at this
    exact absurd this hnot
  · exact h

theorem wrong_secret_rejected (S : SigScheme) (root : Bytes) (e : BiscuitMsg) (sk : Bytes)
    (hp : e.proof = .nextSecret sk) (hne : S.pub sk ≠ lastAnnounced e) :
    ∃ r, verifyChain S root e = .error r := by
  rcases verifyChain_ok_or_error S root e with h | h
  · rw [verifyChain_ok_iff] at h
    have := h.2
    unfold ProofGood at this
    rw [hp] at this
    exact absurd this.2 hne
  · exact h

/-- Correctness of a scheme: signatures made with a seed verify under its public key,
and public keys have 32 bytes. (ed25519 satisfies this; it is what the third sentence needs.) -/
structure SchemeCorrect (S : SigScheme) : Prop where
  verifies : ∀ sk m, S.verify (S.pub sk) m (S.sign sk m) = true
  pubLen : ∀ sk, (S.pub sk).length = 32

/-- Invariant of library-built tokens: the chain verifies and the proof matches. -/
def GoodEnvelope (S : SigScheme) (root : Bytes) (e : BiscuitMsg) : Prop := verifyChain S root e = .ok ()

/-- **C01, third sentence.** Every token produced by building, then any sequence of
attenuations and sealing (each with any block bytes and any random source that
delivers), is accepted under the matching root key. -/
theorem built_tokens_verify (S : SigScheme) (hS : SchemeCorrect S) (rootSeed : Bytes)
    (id : Option Nat) (block : Bytes) (rng : Rng) (e0 : BiscuitMsg) (rng' : Rng)
    (hb : buildEnvelope S rootSeed id block rng = .ok (e0, rng'))
    (ops : List DeriveOp) (hops : ∀ op ∈ ops, op ≠ .reload) (e : BiscuitMsg)
    (hd : deriveAll true S e0 ops = .ok e) :
    verifyChain S (S.pub rootSeed) e = .ok () := by
  rw [verifyChain_ok_iff]
  exact deriveAll_chainGood S hS.verifies hS.pubLen true _ e0 e ops hops
    (build_chainGood S hS.verifies hS.pubLen rootSeed id block rng rng' e0 hb) hd

/-! Non-vacuity: a toy scheme (signature = key ‖ message) under which a concrete
two-block envelope satisfies `ChainOK`, and `Unforgeable` holds for the obvious `Issued`. -/

def pad32 (b : Bytes) : Bytes := (b ++ List.replicate 32 0).take 32
def toy : SigScheme :=
  { pub := fun sk => pad32 sk, sign := fun sk m => pad32 sk ++ m, verify := fun pk m s => s == pk ++ m }

theorem toy_correct : SchemeCorrect toy := by
  constructor
  · intro sk m; simp [toy]
  · intro sk; simp [toy, pad32]

def rootSeed0 : Bytes := List.replicate 32 1
def seedA : Bytes := List.replicate 32 2
def seedB : Bytes := List.replicate 32 3

/-- build ; append ; seal with the toy scheme. -/
def sample : Except Reject BiscuitMsg := do
  let (e0, _) ← buildEnvelope toy rootSeed0 (some 7) [10, 11] [.chunk seedA]
  deriveAll true toy e0 [.append [12] [.chunk (seedB.take 10), .chunk (seedB.drop 10)], .seal]

/-- The hypotheses of `verifyChain_iff` / `built_tokens_verify` are satisfiable: a concrete
three-step history yields an envelope that the chain walk accepts, and a one-byte change
to its second block is rejected. -/
theorem sample_accepted :
    ∃ e, sample = .ok e ∧ e.blocks.length = 1 ∧ verifyChain toy (toy.pub rootSeed0) e = .ok () := by
  exact ⟨_, rfl, rfl, rfl⟩

theorem sample_tampered_rejected :
    ∃ e sb, sample = .ok e ∧ e.blocks = [sb] ∧
      verifyChain toy (toy.pub rootSeed0) { e with blocks := [{ sb with block := [13] }] } = .error .signature := by
  exact ⟨_, _, rfl, rfl, rfl⟩

end Biscuit.C01
