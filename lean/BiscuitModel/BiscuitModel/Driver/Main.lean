/-
Driver/Main — line-protocol driver of the executable model.

Input  (stdin):  VERB <case-id> <s-expression>
Output (stdout): <case-id> <canonical result>
-/
import BiscuitModel.Driver.Verbs

open Biscuit Biscuit.Driver

/-- `--need`: echo every line, adding the oracle queries the model will ask. -/
partial def needLoop (h : IO.FS.Stream) (out : IO.FS.Stream) : IO Unit := do
  let line ← h.getLine
  if line.isEmpty then return ()
  let line : String := String.ofList ((line.toList.reverse.dropWhile (fun c => c == '\n' || c == '\r')).reverse)
  if line.isEmpty then needLoop h out else
  match line.splitOn " " with
  | verb :: _id :: rest =>
    let body := " ".intercalate rest
    match (Sexp.parse body).bind (needOf verb) with
    | some q =>
      -- insert the queries as a last field of the (case …) list
      let trimmed := (body.toList.reverse.dropWhile (· == ' ')).reverse
      let inner := String.ofList (trimmed.take (trimmed.length - 1))
      out.putStrLn (verb ++ " " ++ _id ++ " " ++ inner ++ " " ++ q ++ ")")
    | none => out.putStrLn line
    needLoop h out
  | _ =>
    out.putStrLn line
    needLoop h out

partial def loop (h : IO.FS.Stream) (out : IO.FS.Stream) : IO Unit := do
  let line ← h.getLine
  if line.isEmpty then return ()
  let line : String := String.ofList ((line.toList.reverse.dropWhile (fun c => c == '\n' || c == '\r')).reverse)
  if line.isEmpty then loop h out else
  match line.splitOn " " with
  | verb :: id :: rest =>
    let body := " ".intercalate rest
    let res := match Sexp.parse body with
      | none => "bad-sexp"
      | some sx => runVerb verb sx
    out.putStrLn (id ++ " " ++ res)
    loop h out
  | _ =>
    out.putStrLn "? bad-line"
    loop h out

def main (args : List String) : IO Unit := do
  let stdin ← IO.getStdin
  let stdout ← IO.getStdout
  if args.contains "--need" then needLoop stdin stdout else loop stdin stdout
  stdout.flush
