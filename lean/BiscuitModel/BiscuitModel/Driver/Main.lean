/-
Driver/Main — line-protocol driver of the executable model.

Input  (stdin):  VERB <case-id> <s-expression>
Output (stdout): <case-id> <canonical result>
-/
import BiscuitModel.Driver.Verbs

open Biscuit Biscuit.Driver

partial def loop (h : IO.FS.Stream) (out : IO.FS.Stream) : IO Unit := do
  let line ← h.getLine
  if line.isEmpty then return ()
  let line : String := String.ofList ((line.toList.reverse.dropWhile (fun c => c == '\n' || c == '\r')).reverse)
  if line.isEmpty then loop h out else
  match line.splitOn " " with
  | verb :: id :: rest =>
    let body := " ".intercalate rest
    let res := match Sexp.parse body with
      | none => "bad-sexp"
      | some sx => runVerb verb sx
    out.putStrLn (id ++ " " ++ res)
    loop h out
  | _ =>
    out.putStrLn "? bad-line"
    loop h out

def main : IO Unit := do
  let stdin ← IO.getStdin
  let stdout ← IO.getStdout
  loop stdin stdout
  stdout.flush
