/-
Driver/Codec — wire between s-expressions and model values; canonical output.

Term syntax     (v xNAME) (i N) (s xHEX) (d N) (b xHEX) (o 0|1) (set atom…)
Predicate       (p xNAME term…)
Op              term | (u neg|par|len) | (bin lt|le|gt|ge|eq|contains|prefix|suffix|regex|add|sub|mul|div|and|or|intersection|union)
Expression      (e op…)
Rule            (r pred (pred…) (expr…))
-/
import BiscuitModel.Model.Authorizer
import BiscuitModel.Model.Unmarshal
import BiscuitModel.Model.Grammar
import BiscuitModel.Model.Printer
import BiscuitModel.Driver.Sexp

namespace Biscuit.Driver
open Biscuit

def hexVal (c : Char) : Option Nat :=
  if '0' ≤ c && c ≤ '9' then some (c.toNat - '0'.toNat)
  else if 'a' ≤ c && c ≤ 'f' then some (c.toNat - 'a'.toNat + 10)
  else if 'A' ≤ c && c ≤ 'F' then some (c.toNat - 'A'.toNat + 10)
  else none

def decodeHexChars : List Char → Option Bytes
  | [] => some []
  | a :: b :: rest => do
    let x ← hexVal a
    let y ← hexVal b
    let tl ← decodeHexChars rest
    pure (UInt8.ofNat (x * 16 + y) :: tl)
  | _ => none

/-- "xHEX" → bytes. -/
def decodeHex (s : String) : Option Bytes :=
  match s.toList with
  | 'x' :: rest => decodeHexChars rest
  | _ => none

def hexDigit (n : Nat) : Char :=
  if n < 10 then Char.ofNat ('0'.toNat + n) else Char.ofNat ('a'.toNat + n - 10)

def encodeHex (b : Bytes) : String :=
  "x" ++ String.ofList (b.flatMap fun x => [hexDigit (x.toNat / 16), hexDigit (x.toNat % 16)])

def decAtom : Sexp → Option Atom
  | .list [.atom "i", .atom n] => (n.toInt?).map Atom.int
  | .list [.atom "s", .atom h] => (decodeHex h).map Atom.str
  | .list [.atom "d", .atom n] => (n.toNat?).map Atom.date
  | .list [.atom "b", .atom h] => (decodeHex h).map Atom.bytes
  | .list [.atom "o", .atom "1"] => some (.bool true)
  | .list [.atom "o", .atom "0"] => some (.bool false)
  | _ => none

def encAtom : Atom → String
  | .int i => s!"(i {i})"
  | .str s => s!"(s {encodeHex s})"
  | .date d => s!"(d {d})"
  | .bytes b => s!"(b {encodeHex b})"
  | .bool true => "(o 1)"
  | .bool false => "(o 0)"

/-- Insertion sort on strings (small lists). -/
def insertSorted (x : String) : List String → List String
  | [] => [x]
  | y :: ys => if x < y then x :: y :: ys else if x == y then y :: ys else y :: insertSorted x ys

def sortDedup (l : List String) : List String := l.foldl (fun acc x => insertSorted x acc) []

def encVal : Val → String
  | .atom a => encAtom a
  | .set l => "(set" ++ String.join ((sortDedup (l.map encAtom)).map (" " ++ ·)) ++ ")"

def decVal : Sexp → Option Val
  | .list (.atom "set" :: elts) => (elts.mapM decAtom).map Val.set
  | s => (decAtom s).map Val.atom

def decTerm : Sexp → Option (Term Val)
  | .list [.atom "v", .atom h] => (decodeHex h).map Term.var
  | s => (decVal s).map Term.const

def decPred : Sexp → Option (Pred Val)
  | .list (.atom "p" :: .atom h :: ts) => do
    let n ← decodeHex h
    let terms ← ts.mapM decTerm
    pure { name := n, terms := terms }
  | _ => none

def decFact : Sexp → Option (Fact Val)
  | .list (.atom "f" :: .atom h :: ts) => do
    let n ← decodeHex h
    let args ← ts.mapM decVal
    pure { name := n, args := args }
  | _ => none

def encFact (f : Fact Val) : String :=
  "(f " ++ encodeHex f.name ++ String.join (f.args.map (" " ++ encVal ·)) ++ ")"

def decUn : String → Option UnOp
  | "neg" => some .negate | "par" => some .parens | "len" => some .length | _ => none

def decBin : String → Option BinOp
  | "lt" => some .lt | "le" => some .le | "gt" => some .gt | "ge" => some .ge | "eq" => some .eq
  | "contains" => some .contains | "prefix" => some .pfx | "suffix" => some .sfx | "regex" => some .regex
  | "add" => some .add | "sub" => some .sub | "mul" => some .mul | "div" => some .div
  | "and" => some .and | "or" => some .or | "intersection" => some .intersection | "union" => some .union
  | _ => none

def decOp : Sexp → Option Op
  | .list [.atom "u", .atom k] => (decUn k).map Op.unary
  | .list [.atom "bin", .atom k] => (decBin k).map Op.binary
  | s => (decTerm s).map Op.value

def decExpr : Sexp → Option Expr
  | .list (.atom "e" :: ops) => ops.mapM decOp
  | _ => none

def decRule : Sexp → Option (Rule Val Expr)
  | .list [.atom "r", h, .list body, .list exprs] => do
    let head ← decPred h
    let b ← body.mapM decPred
    let es ← exprs.mapM decExpr
    pure { head := head, body := b, exprs := es }
  | _ => none

/-- Regex oracle table: ((xTEXT xPAT 0|1|e) …). -/
def decRx : Sexp → Option (List (Bytes × Bytes × Option Bool))
  | .list entries => entries.mapM fun
    | .list [.atom t, .atom p, .atom r] => do
      let t ← decodeHex t
      let p ← decodeHex p
      let r ← match r with
        | "1" => some (some true) | "0" => some (some false) | "e" => some none | _ => none
      pure (t, p, r)
    | _ => none
  | _ => none

def rxOf (tbl : List (Bytes × Bytes × Option Bool)) : Regex := fun t p =>
  match tbl.find? (fun e => e.1 == t && e.2.1 == p) with
  | some e => some e.2.2
  | none => none

def encErr : ErrClass → String
  | .overflow => "err overflow"
  | .divzero => "err divzero"
  | .oracleMiss => "oracle-miss"
  | _ => "err"

def encSite : PanicSite → String
  | .unhashableSetKey => "unhashable"
  | .symbolIndexNegative => "symbol-index"
  | .badSeedLength => "bad-seed"
  | .nilKeySeed => "nil-key"
  | .nilTerm => "nil-term"
  | .indexOutOfRange => "index"
  | .nilDeref => "nil-deref"
  | .other => "other"

def encOutcomeVal : Outcome Val → String
  | .ok v => "ok " ++ encVal v
  | .err e => encErr e
  | .panic s => "panic " ++ encSite s

def encRunErr : Option RunErr → String
  | none => "ok"
  | some (.expr .oracleMiss) => "oracle-miss"
  | some (.expr _) => "expr-error"
  | some (.panic s) => "panic " ++ encSite s
  | some .invalidRule => "invalid-rule"
  | some .limitFacts => "limit-facts"
  | some .limitIter => "limit-iter"

def encFacts (l : List (Fact Val)) : String :=
  "(" ++ " ".intercalate (sortDedup (l.map encFact)) ++ ")"

def fieldOf (name : String) : List Sexp → Option (List Sexp)
  | [] => none
  | .list (.atom n :: rest) :: more => if n == name then some rest else fieldOf name more
  | _ :: more => fieldOf name more

def decCheck : Sexp → Option Check
  | .list (.atom "check" :: qs) => (qs.mapM decRule).map fun q => { queries := q }
  | _ => none

def decPolicy : Sexp → Option Policy
  | .list (.atom "allow" :: qs) => (qs.mapM decRule).map fun q => { kind := .allow, queries := q }
  | .list (.atom "deny" :: qs) => (qs.mapM decRule).map fun q => { kind := .deny, queries := q }
  | _ => none

def decBlock : Sexp → Option Block
  | .list (.atom "block" :: fields) => do
    let fs ← (← fieldOf "facts" fields).mapM decFact
    let rs ← (← fieldOf "rules" fields).mapM decRule
    let cs ← (← fieldOf "checks" fields).mapM decCheck
    pure { facts := insertAll [] fs, rules := rs, checks := cs }
  | _ => none

def decToken : Sexp → Option Token
  | .list (.atom "token" :: a :: bs) => do
    let auth ← decBlock a
    let blocks ← bs.mapM decBlock
    pure { authority := auth, blocks := blocks }
  | _ => none

/-- Content operations inside `(load op…)`: what a scratch authorizer is filled with before
its `SerializePolicies` output is loaded. -/
def decContentOp : Sexp → Option (AuthState → AuthState)
  | .list [.atom "addfact", f] => (decFact f).map fun f s => addFact s f
  | .list [.atom "addrule", r] => (decRule r).map fun r s => addRule s r
  | .list [.atom "addcheck", c] => (decCheck c).map fun c s => addCheck s c
  | .list [.atom "addpolicy", p] => (decPolicy p).map fun p s => addPolicy s p
  | _ => none

def decAuthOp : Sexp → Option AuthOp
  | .list (.atom "load" :: ops) => do
    let fs ← ops.mapM decContentOp
    let s := fs.foldl (fun s f => f s) (AuthState.fresh { maxFacts := 1000, maxIter := 100 })
    (save s).map AuthOp.loadSnap
  | .list [.atom "addfact", f] => (decFact f).map AuthOp.addFact
  | .list [.atom "addrule", r] => (decRule r).map AuthOp.addRule
  | .list [.atom "addcheck", c] => (decCheck c).map AuthOp.addCheck
  | .list [.atom "addpolicy", p] => (decPolicy p).map AuthOp.addPolicy
  | .list [.atom "authorize"] => some .authorize
  | .list [.atom "query", r] => (decRule r).map AuthOp.query
  | .list [.atom "reset"] => some .reset
  | .list [.atom "saveload", .atom j] => (j.toNat?).map AuthOp.saveLoad
  | _ => none

def encCheckId : CheckId → String
  | .authorizer i => s!"a{i}"
  | .block b i => s!"b{b}.{i}"

def encVerdict : Verdict → String
  | .ok => "ok"
  | .denied => "denied"
  | .noMatch => "nomatch"
  | .checksFailed ids => "checks[" ++ ",".intercalate (ids.map encCheckId) ++ "]"
  | .runError e => encRunErr (some e)

def encAuthOut : AuthOut → Option String
  | .none => none
  | .verdict v => some (encVerdict v)
  | .facts fs => some ("facts:" ++ encFacts fs)
  | .queryErr e => some ("qerr:" ++ encRunErr (some e))
  | .saved true => some "saved"
  | .saved false => some "refused"

/-! ### printing content in the input syntax (lists in their given order) -/

/-- `canon = true`: sets printed sorted and without repeats (a set is a value up to order and
multiplicity: what is compared is the set); `false`: in the given order. -/
def encValW (canon : Bool) : Val → String
  | .atom a => encAtom a
  | .set l => if canon then encVal (.set l) else "(set" ++ String.join (l.map fun a => " " ++ encAtom a) ++ ")"

def encTermW (c : Bool) : Term Val → String
  | .var n => "(v " ++ encodeHex n ++ ")"
  | .const v => encValW c v

def encPredW (c : Bool) (p : Pred Val) : String :=
  "(p " ++ encodeHex p.name ++ String.join (p.terms.map fun t => " " ++ encTermW c t) ++ ")"

def encFactW (c : Bool) (f : Fact Val) : String :=
  "(f " ++ encodeHex f.name ++ String.join (f.args.map fun t => " " ++ encValW c t) ++ ")"

def encUn : UnOp → String
  | .negate => "neg" | .parens => "par" | .length => "len"

def encBin : BinOp → String
  | .lt => "lt" | .le => "le" | .gt => "gt" | .ge => "ge" | .eq => "eq" | .contains => "contains"
  | .pfx => "prefix" | .sfx => "suffix" | .regex => "regex" | .add => "add" | .sub => "sub"
  | .mul => "mul" | .div => "div" | .and => "and" | .or => "or" | .intersection => "intersection"
  | .union => "union"

def encOpW (c : Bool) : Op → String
  | .value t => encTermW c t
  | .unary u => "(u " ++ encUn u ++ ")"
  | .binary b => "(bin " ++ encBin b ++ ")"

def encExprW (c : Bool) (e : Expr) : String := "(e" ++ String.join (e.map fun o => " " ++ encOpW c o) ++ ")"

def spaced (l : List String) : String := " ".intercalate l

def encRuleW (c : Bool) (r : DRule) : String :=
  "(r " ++ encPredW c r.head ++ " (" ++ spaced (r.body.map (encPredW c)) ++ ") (" ++ spaced (r.exprs.map (encExprW c)) ++ "))"

def tagged (tag : String) (items : List String) : String :=
  if items.isEmpty then "(" ++ tag ++ ")" else "(" ++ tag ++ " " ++ spaced items ++ ")"

def encCheckW (c : Bool) (ck : Check) : String := tagged "check" (ck.queries.map (encRuleW c))

def encBlockW (c : Bool) (b : Block) : String :=
  "(block " ++ tagged "facts" (b.facts.map (encFactW c)) ++ " " ++ tagged "rules" (b.rules.map (encRuleW c)) ++ " " ++
    tagged "checks" (b.checks.map (encCheckW c)) ++ ")"

def encValRaw := encValW false
def encTermSx := encTermW false
def encPredSx := encPredW false
def encFactRaw := encFactW false
def encOpSx := encOpW false
def encExprSx := encExprW false
def encRuleSx := encRuleW false
def encCheckSx := encCheckW false
def encBlockSx := encBlockW false

/-- Which gate rejects first on ill-formed bytes depends on protobuf-go's parsing details;
the protocol compares accept / reject / reject nokey. -/
def encReject : Reject → String
  | .noKey => "reject nokey"
  | _ => "reject"

end Biscuit.Driver
