/-
Driver/Sexp — s-expression reader/writer for the line protocol.
Atoms are runs of characters other than whitespace and parentheses.
-/
namespace Biscuit.Driver

inductive Sexp
  | atom (s : String)
  | list (l : List Sexp)
  deriving Inhabited, Repr

namespace Sexp

partial def toStr : Sexp → String
  | atom s => s
  | list l => "(" ++ " ".intercalate (l.map toStr) ++ ")"

/-- Tokenise: "(" ")" and atoms. -/
def tokens (s : String) : List String := Id.run do
  let mut out : Array String := #[]
  let mut cur : String := ""
  for c in s.toList do
    if c == '(' || c == ')' then
      if cur != "" then out := out.push cur; cur := ""
      out := out.push (String.singleton c)
    else if c == ' ' || c == '\t' || c == '\n' || c == '\r' then
      if cur != "" then out := out.push cur; cur := ""
    else
      cur := cur.push c
  if cur != "" then out := out.push cur
  return out.toList

/-- Parse one s-expression from a token list; returns the rest. -/
partial def parseToks : List String → Option (Sexp × List String)
  | [] => none
  | "(" :: rest =>
    let rec go (acc : Array Sexp) (ts : List String) : Option (Sexp × List String) :=
      match ts with
      | [] => none
      | ")" :: r => some (list acc.toList, r)
      | _ => match parseToks ts with
        | none => none
        | some (e, r) => go (acc.push e) r
    go #[] rest
  | ")" :: _ => none
  | a :: rest => some (atom a, rest)

def parse (s : String) : Option Sexp :=
  match parseToks (tokens s) with
  | some (e, []) => some e
  | _ => none

end Sexp

end Biscuit.Driver
