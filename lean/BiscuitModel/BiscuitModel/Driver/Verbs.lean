/-
Driver/Verbs — one protocol verb per model entry point.
-/
import BiscuitModel.Driver.Codec

namespace Biscuit.Driver
open Biscuit

def field (name : String) : List Sexp → Option (List Sexp)
  | [] => none
  | .list (.atom n :: rest) :: more => if n == name then some rest else field name more
  | _ :: more => field name more

def cfgOf (fields : List Sexp) : EvalCfg :=
  let tbl := match field "rx" fields with
    | some entries => (decRx (.list entries)).getD []
    | none => []
  { rx := rxOf tbl }

/-- EXPR: (case (binds (xNAME val)…) (ops op…) (rx …)) -/
def verbExpr (fields : List Sexp) : String :=
  let r : Option String := do
    let bs ← field "binds" fields
    let binds ← bs.mapM fun
      | .list [.atom n, v] => do
        let n ← decodeHex n
        let v ← decVal v
        pure (n, v)
      | _ => none
    let ops ← field "ops" fields
    let e ← ops.mapM decOp
    pure (encOutcomeVal (eval (cfgOf fields) binds e))
  r.getD "bad-case"

def dedupFacts (l : List (Fact Val)) : List (Fact Val) := insertAll [] l

/-- RUN: (case (facts f…) (rules r…) (limits maxFacts maxIter) (rx …)) -/
def verbRun (fields : List Sexp) : String :=
  let r : Option String := do
    let fs ← (← field "facts" fields).mapM decFact
    let rs ← (← field "rules" fields).mapM decRule
    let (mf, mi) ← match ← field "limits" fields with
      | [.atom a, .atom b] => do pure (← a.toNat?, ← b.toNat?)
      | _ => none
    let cfg := cfgOf fields
    let (w, e) := run (evalBool cfg) mf rs mi (dedupFacts fs)
    pure (encRunErr e ++ " " ++ encFacts w)
  r.getD "bad-case"

/-- QUERY: (case (facts f…) (rule r) (rx …)) -/
def verbQuery (fields : List Sexp) : String :=
  let r : Option String := do
    let fs ← (← field "facts" fields).mapM decFact
    let rule ← match ← field "rule" fields with
      | [r] => decRule r
      | _ => none
    let cfg := cfgOf fields
    let (out, e) := applyRule (evalBool cfg) rule (dedupFacts fs) []
    pure (encRunErr e ++ " " ++ encFacts out)
  r.getD "bad-case"

/-- AUTHSEQ: (case (limits mf mi) (tokens token…) (ops op…) (rx …)) -/
def verbAuthSeq (fields : List Sexp) : String :=
  let r : Option String := do
    let (mf, mi) ← match ← field "limits" fields with
      | [.atom a, .atom b] => do pure (← a.toNat?, ← b.toNat?)
      | _ => none
    let toks ← (← field "tokens" fields).mapM decToken
    let ops ← (← field "ops" fields).mapM decAuthOp
    let cfg := cfgOf fields
    let st : SeqState := { tok := 0, auth := AuthState.fresh { maxFacts := mf, maxIter := mi } }
    let outs := runSeq cfg false toks st ops
    pure (" ".intercalate (outs.filterMap encAuthOut))
  r.getD "bad-case"

def runVerb (verb : String) (sx : Sexp) : String :=
  match sx with
  | .list (.atom "case" :: fields) =>
    match verb with
    | "EXPR" => verbExpr fields
    | "RUN" => verbRun fields
    | "QUERY" => verbQuery fields
    | "AUTHSEQ" => verbAuthSeq fields
    | _ => "bad-verb"
  | _ => "bad-case"

end Biscuit.Driver
