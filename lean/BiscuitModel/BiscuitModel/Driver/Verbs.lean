/-
Driver/Verbs — one protocol verb per model entry point.
-/
import BiscuitModel.Driver.Codec
import BiscuitModel.Model.Odometer
import BiscuitModel.Model.Construct

namespace Biscuit.Driver
open Biscuit

def field (name : String) : List Sexp → Option (List Sexp)
  | [] => none
  | .list (.atom n :: rest) :: more => if n == name then some rest else field name more
  | _ :: more => field name more

def cfgOf (fields : List Sexp) : EvalCfg :=
  let tbl := match field "rx" fields with
    | some entries => (decRx (.list entries)).getD []
    | none => []
  { rx := rxOf tbl }

/-- EXPR: (case (binds (xNAME val)…) (ops op…) (rx …)) -/
def verbExpr (fields : List Sexp) : String :=
  let r : Option String := do
    let bs ← field "binds" fields
    let binds ← bs.mapM fun
      | .list [.atom n, v] => do
        let n ← decodeHex n
        let v ← decVal v
        pure (n, v)
      | _ => none
    let ops ← field "ops" fields
    let e ← ops.mapM decOp
    pure (encOutcomeVal (eval (cfgOf fields) binds e))
  r.getD "bad-case"

def dedupFacts (l : List (Fact Val)) : List (Fact Val) := insertAll [] l

/-- RUN: (case (facts f…) (rules r…) (limits maxFacts maxIter) (rx …)) -/
def verbRun (fields : List Sexp) : String :=
  let r : Option String := do
    let fs ← (← field "facts" fields).mapM decFact
    let rs ← (← field "rules" fields).mapM decRule
    let (mf, mi) ← match ← field "limits" fields with
      | [.atom a, .atom b] => do pure (← a.toNat?, ← b.toNat?)
      | _ => none
    let cfg := cfgOf fields
    let (w, e) := run (evalBool cfg) mf rs mi (dedupFacts fs)
    pure (encRunErr e ++ " " ++ encFacts w)
  r.getD "bad-case"

/-- QUERY: (case (facts f…) (rule r) (rx …)) -/
def verbQuery (fields : List Sexp) : String :=
  let r : Option String := do
    let fs ← (← field "facts" fields).mapM decFact
    let rule ← match ← field "rule" fields with
      | [r] => decRule r
      | _ => none
    let cfg := cfgOf fields
    let (out, e) := applyRule (evalBool cfg) rule (dedupFacts fs) []
    pure (encRunErr e ++ " " ++ encFacts out)
  r.getD "bad-case"

/-- AUTHSEQ: (case (limits mf mi) (tokens token…) (ops op…) (rx …)) -/
def verbAuthSeq (fields : List Sexp) : String :=
  let r : Option String := do
    let (mf, mi) ← match ← field "limits" fields with
      | [.atom a, .atom b] => do pure (← a.toNat?, ← b.toNat?)
      | _ => none
    -- biscuit-level content goes through the token layer's construction step (sets hold
    -- each element once) before it reaches the engine
    let toks := (← (← field "tokens" fields).mapM decToken).map Construct.normToken
    -- `(savekeep)` = SerializePolicies with the result discarded: no effect on the authorizer
    let opsSx := (← field "ops" fields).filter fun s => match s with
      | .list [.atom "savekeep"] => false
      | _ => true
    let ops := (← opsSx.mapM decAuthOp).map Construct.normAuthOp
    let cfg := cfgOf fields
    let st : SeqState := { tok := 0, auth := AuthState.fresh { maxFacts := mf, maxIter := mi } }
    let outs := runSeq cfg false toks st ops
    pure (" ".intercalate (outs.filterMap encAuthOut))
  r.getD "bad-case"

def bytesField (name : String) (fields : List Sexp) : Option Bytes :=
  match field name fields with
  | some [.atom h] => decodeHex h
  | _ => none

/-- WIRE: (case (bytes xHEX)) — decode with the independent decoder, resolve symbols,
re-encode the blocks from the decoded content and the envelope from its fields. -/
def verbWire (fields : List Sexp) : String :=
  match bytesField "bytes" fields with
  | none => "bad-case"
  | some bs =>
    -- `(base xHEX…)`: the table the caller supplied with WithSymbols / Unmarshaler.Symbols
    let base : SymTable := match field "base" fields with
      | some l => l.filterMap fun x => match x with | .atom h => decodeHex h | _ => none
      | none => []
    match unmarshalFrom base bs with
    | .error r => encReject r
    | .ok p =>
      match resolveBlocks base p.blocks with
      | none => "reject"   -- a block not resolvable from its own and earlier tables is not a token
      | some contents =>
        let e := p.envelope
        let rk := match e.rootKeyId with | some n => toString n | none => "none"
        let pr := match e.proof with | .nextSecret _ => "secret" | .finalSignature _ => "final" | .empty => "none"
        let revs := ",".intercalate ((revocationIds e).map encodeHex)
        let blocks := spaced (contents.map fun c =>
          "(" ++ encBlockW true c.block ++ " (context " ++ encodeHex c.context ++ "))")
        let reBlocks := (buildBlockMsgs base contents).map Wire.encodeBlock
        -- symbol indexes depend on the order of the builder calls; only when the caller
        -- added facts, then rules, then checks can the block bytes be reproduced
        let reenc := if (field "interleaved" fields).isSome then "n/a"
          else if reBlocks == (e.authority :: e.blocks).map (·.block) then "same" else "differ"
        let envre := if Wire.encodeBiscuit e == bs then "same" else "differ"
        s!"ok rootkeyid={rk} proof={pr} revids={revs} blocks={blocks} reenc={reenc} envreenc={envre}"

/-- Oracle queries the chain walk needs for envelope `e` under root key `root`. -/
def chainQueries (root : Bytes) (e : Wire.BiscuitMsg) : List String :=
  let sbs := e.authority :: e.blocks
  let keys := root :: sbs.map (·.nextKey.key)
  let links := (sbs.zip keys).map fun (sb, k) =>
    "(verify " ++ encodeHex k ++ " " ++ encodeHex (blockPayload sb) ++ " " ++ encodeHex sb.signature ++ ")"
  let lastKey := (sbs.getLast?.map (·.nextKey.key)).getD root
  let proof := match e.proof with
    | .nextSecret sk => if sk.length = 32 then ["(pub " ++ encodeHex sk ++ ")"] else []
    | .finalSignature sig =>
      ["(verify " ++ encodeHex lastKey ++ " " ++ encodeHex (sealPayload (lastBlock e)) ++ " " ++ encodeHex sig ++ ")"]
    | .empty => []
  links ++ proof

structure OracleTbl where
  verifies : List (Bytes × Bytes × Bytes × Bool)
  pubs : List (Bytes × Bytes)

def decOracle (fields : List Sexp) : OracleTbl :=
  match field "oracle" fields with
  | none => { verifies := [], pubs := [] }
  | some entries =>
    entries.foldl (fun t e =>
      match e with
      | .list [.atom "verify", .atom k, .atom m, .atom s, .atom r] =>
        match decodeHex k, decodeHex m, decodeHex s with
        | some k, some m, some s => { t with verifies := (k, m, s, r == "1") :: t.verifies }
        | _, _, _ => t
      | .list [.atom "pub", .atom sk, .atom pk] =>
        match decodeHex sk, decodeHex pk with
        | some sk, some pk => { t with pubs := (sk, pk) :: t.pubs }
        | _, _ => t
      | _ => t) { verifies := [], pubs := [] }

def schemeOf (t : OracleTbl) : SigScheme :=
  { pub := fun sk => match t.pubs.find? (fun e => e.1 == sk) with | some e => e.2 | none => []
    sign := fun _ _ => []
    verify := fun k m s => match t.verifies.find? (fun e => e.1 == k && e.2.1 == m && e.2.2.1 == s) with
      | some e => e.2.2.2 | none => false }

def decKeys (fields : List Sexp) : List (Nat × Bytes) :=
  match field "keys" fields with
  | none => []
  | some entries => entries.filterMap fun
    | .list [.atom i, .atom k] => do pure (← i.toNat?, ← decodeHex k)
    | _ => none

/-- Root key the model verifies under: explicit root, or selection by identifier. -/
def chainRoot (fields : List Sexp) (e : Wire.BiscuitMsg) : Except Reject Bytes :=
  match bytesField "root" fields with
  | some r => if r.isEmpty then .error .noKey else .ok r
  | none =>
    let dflt := match field "default" fields with
      | some [.atom h] => decodeHex h
      | _ => none
    selectKey e.rootKeyId (decKeys fields) dflt

/-- CHAIN: (case (bytes xHEX) (root xKEY | keys … default …) (oracle …)) -/
def verbChain (fields : List Sexp) : String :=
  match bytesField "bytes" fields with
  | none => "bad-case"
  | some bs =>
    match unmarshal bs with
    | .error r => encReject r
    | .ok p =>
      match chainRoot fields p.envelope with
      | .error r => encReject r
      | .ok root =>
        match verifyChain (schemeOf (decOracle fields)) root p.envelope with
        | .error r => encReject r
        | .ok () =>
          let rk := match p.envelope.rootKeyId with | some n => toString n | none => "none"
          "accept rootkeyid=" ++ rk ++ " revids=" ++ ",".intercalate ((revocationIds p.envelope).map encodeHex)

def decScript (items : List Sexp) : Option Rng :=
  items.mapM fun
    | .list [.atom "chunk", .atom h] => (decodeHex h).map ReadStep.chunk
    | .list [.atom "chunkerr", .atom h] => (decodeHex h).map ReadStep.chunkErr
    | .list [.atom "fail"] => some ReadStep.fail
    | _ => none

/-- RNG: (case (script step…)) — what drawing a 32-byte seed from the scripted source yields. -/
def verbRng (fields : List Sexp) : String :=
  match (field "script" fields).bind decScript with
  | none => "bad-case"
  | some rng =>
    match drawSeed rng with
    | none => "error"
    | some (seed, _) => "ok seed=" ++ encodeHex seed

/-- SNAP: (case (bytes xHEX)) — decode an authorizer snapshot with the independent decoder,
resolve it as `LoadPolicies` does on a fresh authorizer, re-encode from the content. -/
def verbSnap (fields : List Sexp) : String :=
  match bytesField "bytes" fields with
  | none => "bad-case"
  | some bs =>
    match Wire.decodePolicies bs with
    | none => "reject"
    | some m =>
      match resolveSnapshot m with
      | none => if (field "verdictonly" fields).isSome then "reject" else "unresolvable"
      | some snap =>
        if (field "verdictonly" fields).isSome then "ok" else
        let re := if Wire.encodePolicies (buildSnapshotMsg snap) == bs then "same" else "differ"
        let pol := snap.policies.map fun p =>
          tagged (match p.kind with | .allow => "allow" | .deny => "deny") (p.queries.map (encRuleW true))
        "ok " ++ tagged "facts" (snap.facts.map (encFactW true)) ++ " " ++ tagged "rules" (snap.rules.map (encRuleW true)) ++ " " ++
          tagged "checks" (snap.checks.map (encCheckW true)) ++ " " ++ tagged "policies" pol ++ " reenc=" ++ re

/-- DECODE: (case (bytes xHEX) …) — does `Unmarshal` accept the bytes? -/
def verbDecode (fields : List Sexp) : String :=
  match bytesField "bytes" fields with
  | none => "bad-case"
  | some bs => match unmarshal bs with
    | .ok _ => "ok"
    | .error _ => "reject"

def decParams (fields : List Sexp) : Grammar.Params :=
  match field "params" fields with
  | none => []
  | some entries => entries.filterMap fun
    | .list [.atom n, t] => do
      let nb ← decodeHex n
      let tm ← decTerm t
      pure (String.ofList (nb.map fun b => Char.ofNat b.toNat), tm)
    | _ => none

def encPolicySx (p : Policy) : String :=
  tagged (match p.kind with | .allow => "allow" | .deny => "deny") (p.queries.map encRuleSx)

def encParsed (c : Grammar.ParsedContent) : String :=
  "ok " ++ tagged "facts" (c.facts.map encPredSx) ++ " " ++ tagged "rules" (c.rules.map encRuleSx) ++ " " ++
    tagged "checks" (c.checks.map encCheckSx) ++ " " ++ tagged "policies" (c.policies.map encPolicySx)

def utf8Chars (b : Bytes) : List Char := (String.fromUTF8! (ByteArray.mk b.toArray)).toList

/-- PARSE: (case (kind block|authorizer|single) (text xHEX) (params (xNAME term)…)) -/
def verbParse (fields : List Sexp) : String :=
  match bytesField "text" fields, field "kind" fields with
  | some tb, some [.atom kind] =>
    let cs := utf8Chars tb
    let ps := decParams fields
    let items := match kind with
      | "block" => Grammar.parseBlockText cs
      | "authorizer" => Grammar.parseAuthorizerText cs
      | _ => (Grammar.parseSingleText cs).map fun it => [it]
    match items.bind (Grammar.denoteItems ps) with
    | some c => encParsed c
    | none => "error"
  | _, _ => "bad-case"

/-- PRINT: (case (block …)) — the text `Biscuit.Code()` shows for this block. -/
def verbPrint (fields : List Sexp) : String :=
  match fields.findSome? (fun f => decBlock f) with
  | none => "bad-case"
  | some b =>
    let b := Construct.normBlock b
    let facts : List (Pred Val) := b.facts.map fun f => { name := f.name, terms := f.args.map Term.const }
    let txt := Printer.printBlockCode facts b.rules b.checks
    "text " ++ encodeHex (String.ofList txt).toUTF8.toList

/-- First pass: which external answers does the case need? -/
def needOf (verb : String) (sx : Sexp) : Option String :=
  match verb, sx with
  | "CHAIN", .list (.atom "case" :: fields) =>
    match bytesField "bytes" fields with
    | none => none
    | some bs =>
      match unmarshal bs with
      | .error _ => none
      | .ok p =>
        match chainRoot fields p.envelope with
        | .error _ => none
        | .ok root => some ("(oracle-queries " ++ spaced (chainQueries root p.envelope) ++ ")")
  | _, _ => none

/-- ODO: (case (np N) (nf M) (table b…)) — the literal odometer of `combine`, row-major
table `m i j = table[i*nf + j]`; prints the emitted index tuples in order. -/
def verbOdo (fields : List Sexp) : String :=
  let r : Option String := do
    let np ← match ← field "np" fields with | [.atom a] => a.toNat? | _ => none
    let nf ← match ← field "nf" fields with | [.atom a] => a.toNat? | _ => none
    let tbl := ((← field "table" fields).map fun x => match x with | .atom "1" => true | _ => false).toArray
    if tbl.size ≠ np * nf then none
    let m : Nat → Nat → Bool := fun i j => i < np && j < nf && tbl.getD (i * nf + j) false
    let out := Odometer.combos m np nf
    pure (" ".intercalate ("ok" :: out.map fun t => "(" ++ " ".intercalate (t.map toString) ++ ")"))
  r.getD "bad-case"

/-- The table argument `(name xHEX…)` of a case. -/
def tableField (name : String) (fields : List Sexp) : SymTable :=
  match field name fields with
  | some l => l.filterMap fun x => match x with | .atom h => decodeHex h | _ => none
  | none => []

def gateVerdict (tbl : SymTable) (m : Wire.BlockMsg) : String :=
  match gateAnswer tbl m with
  | .ok => "ok" | .overlap => "overlap" | .undeclared => "undeclared"

/-- GATE: (case (buildbase x…) (newbase x…) (auth (block …)) [(buildbase2 x…) (later (block …))])
— a block built by a block builder over `buildbase` is handed to `New` over `newbase`; when
that succeeds, a second block built over `buildbase2` is appended. Prints both answers and,
for an accepted block, its serialized content. -/
def verbGate (fields : List Sexp) : String :=
  let r : Option String := do
    let a ← match ← field "auth" fields with | [b] => decBlock b | _ => none
    let bb := tableField "buildbase" fields
    let nb := tableField "newbase" fields
    let m := (buildBlockMsg bb { block := a, context := [] }).2
    let v := gateVerdict nb m
    if v != "ok" then return s!"new={v}"
    let out := s!"new=ok block={encodeHex (Wire.encodeBlock m)}"
    match field "later" fields with
    | some [b2] =>
      let l ← decBlock b2
      let bb2 := tableField "buildbase2" fields
      let m2 := (buildBlockMsg bb2 { block := l, context := [] }).2
      let v2 := gateVerdict (extendTable nb m.symbols) m2
      if v2 != "ok" then return s!"{out} append={v2}"
      pure s!"{out} append=ok block2={encodeHex (Wire.encodeBlock m2)}"
    | _ => pure out
  r.getD "bad-case"

def runVerb (verb : String) (sx : Sexp) : String :=
  match sx with
  | .list (.atom "case" :: fields) =>
    match verb with
    | "EXPR" => verbExpr fields
    | "RUN" => verbRun fields
    | "QUERY" => verbQuery fields
    | "AUTHSEQ" => verbAuthSeq fields
    | "WIRE" => verbWire fields
    | "CHAIN" => verbChain fields
    | "RNG" => verbRng fields
    | "DECODE" => verbDecode fields
    | "PARSE" => verbParse fields
    | "PRINT" => verbPrint fields
    | "SNAP" => verbSnap fields
    | "ODO" => verbOdo fields
    | "GATE" => verbGate fields
    | _ => "bad-verb"
  | _ => "bad-case"

end Biscuit.Driver
