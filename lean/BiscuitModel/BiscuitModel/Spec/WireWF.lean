/-
Spec/WireWF — well-formedness side conditions of the wire round-trip theorems (C07, C18):
values fit their wire types and sizes stay far below the format's limits (2^20 items per
list, 2^32 bytes per string) — true of any message that fits in memory; stated so that
every length prefix is below 2^64.
-/
import BiscuitModel.Model.Symbols

namespace Biscuit
open Wire

/-- A field list whose numbers, varint values and byte-string lengths fit the format. -/
def FieldWF (f : Field) : Prop :=
  0 < f.num ∧ f.num < 2^29 ∧
  match f.val with
  | .varint n => n < 2^64
  | .bytes b => b.length < 2^64

def AtomWF : IAtom → Prop
  | .variable n => n < 2^32
  | .integer i => -(2^63 : Int) ≤ i ∧ i < 2^63
  | .string n => n < 2^64
  | .date n => n < 2^64
  | .bytes b => b.length < 2^32
  | .bool _ => True

def TermWF : ITerm → Prop
  | .atom a => AtomWF a
  | .set l => l ≠ [] ∧ l.length < 2^20 ∧ (∀ a ∈ l, AtomWF a) ∧
      (match l with
       | [] => True
       | a :: rest => (match a with | .variable _ => False | _ => True) ∧ rest.all (sameKind a) = true)

def PredWF (p : IPred) : Prop := p.name < 2^64 ∧ p.terms.length < 2^20 ∧ ∀ t ∈ p.terms, TermWF t

def OpWF : IOp → Prop
  | .value t => TermWF t
  | .unary k => k < 2^31
  | .binary k => k < 2^31

def RuleWF (r : IRule) : Prop :=
  PredWF r.head ∧ r.body.length < 2^20 ∧ (∀ p ∈ r.body, PredWF p) ∧ r.exprs.length < 2^20 ∧
  ∀ e ∈ r.exprs, e.length < 2^20 ∧ ∀ o ∈ e, OpWF o

def CheckWF (c : ICheck) : Prop := c.queries.length < 2^20 ∧ ∀ q ∈ c.queries, RuleWF q

/-- Sizes stay far below the format's limits (2^20 items, 2^32 bytes per string) — true of
any message that fits in memory; stated so that every length prefix is below 2^64. -/
def BlockWF (b : BlockMsg) : Prop :=
  b.symbols.length < 2^20 ∧ (∀ s ∈ b.symbols, s.length < 2^32) ∧
  (∀ c, b.context = some c → c.length < 2^32) ∧ (∀ v, b.version = some v → v < 2^32) ∧
  b.facts.length < 2^20 ∧ (∀ f ∈ b.facts, PredWF f) ∧
  b.rules.length < 2^20 ∧ (∀ r ∈ b.rules, RuleWF r) ∧
  b.checks.length < 2^20 ∧ (∀ c ∈ b.checks, CheckWF c) ∧
  (encodeBlock b).length < 2^64

/-- A per-token table as the library maintains it: no default symbol, no duplicate. -/
def TableOK (t : SymTable) : Prop := t.Nodup ∧ ∀ s ∈ t, s ∉ defaultSymbols


end Biscuit
