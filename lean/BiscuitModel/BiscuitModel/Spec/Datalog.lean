/-
Spec/Datalog — the declarative reading of "least model" and "satisfying
substitution" that C04, C05 and C12 are stated against.
-/
import BiscuitModel.Model.Datalog

namespace Biscuit

variable {V E : Type} [DecidableEq V]

/-- Instance of a predicate under a substitution; `none` if a variable is unbound. -/
abbrev instPred (p : Pred V) (σ : Bindings V) : Option (Fact V) := substHead p σ

def termVars : List (Term V) → List Bytes
  | [] => []
  | .var n :: ts => n :: termVars ts
  | .const _ :: ts => termVars ts

/-- Variables occurring in a rule body. -/
def bodyVars (body : List (Pred V)) : List Bytes :=
  body.flatMap fun p => termVars p.terms

/-- The evaluator sees a substitution only through `lookup`. -/
def EvRespects (ev : Bindings V → E → Outcome Bool) : Prop :=
  ∀ σ τ : Bindings V, (∀ n, σ.lookup n = τ.lookup n) → ∀ e, ev σ e = ev τ e

/-- `σ` satisfies rule `r` over the fact list `S`: every body predicate is sent to
a listed fact, nothing but body variables is bound, every expression is true. -/
structure Sat (ev : Bindings V → E → Outcome Bool) (r : Rule V E) (S : List (Fact V))
    (σ : Bindings V) : Prop where
  body : ∀ p ∈ r.body, ∃ g, instPred p σ = some g ∧ g ∈ S
  dom : ∀ n v, σ.lookup n = some v → n ∈ bodyVars r.body
  exprs : checkExprs ev σ r.exprs = .ok true

/-- Facts derivable from `F` by finitely many applications of rules of `P`. -/
inductive Derivable (ev : Bindings V → E → Outcome Bool) (P : List (Rule V E))
    (F : List (Fact V)) : Fact V → Prop
  | base {f : Fact V} : f ∈ F → Derivable ev P F f
  | rule {r : Rule V E} {σ : Bindings V} {f : Fact V} :
      r ∈ P →
      (∀ p ∈ r.body, (instPred p σ).isSome) →
      (∀ p ∈ r.body, ∀ g, instPred p σ = some g → Derivable ev P F g) →
      (∀ n v, σ.lookup n = some v → n ∈ bodyVars r.body) →
      checkExprs ev σ r.exprs = .ok true →
      instPred r.head σ = some f →
      Derivable ev P F f

end Biscuit
