/-
Spec/Decision — the declarative decision procedure C04 is stated against.

Scopes are *sets* of facts (predicates on `DFact`), defined by derivability, with
no reference to evaluation order, fact lists, iteration or interning.
-/
import BiscuitModel.Spec.Datalog
import BiscuitModel.Model.Authorizer

namespace Biscuit

/-- Facts derivable from a base *set* `B` by finitely many applications of rules of `P`. -/
inductive DerivableP (cfg : EvalCfg) (P : List DRule) (B : DFact → Prop) : DFact → Prop
  | base {f : DFact} : B f → DerivableP cfg P B f
  | rule {r : DRule} {σ : Bindings Val} {f : DFact} :
      r ∈ P →
      (∀ p ∈ r.body, (instPred p σ).isSome) →
      (∀ p ∈ r.body, ∀ g, instPred p σ = some g → DerivableP cfg P B g) →
      (∀ n v, σ.lookup n = some v → n ∈ bodyVars r.body) →
      checkExprs (evalBool cfg) σ r.exprs = .ok true →
      instPred r.head σ = some f →
      DerivableP cfg P B f

/-- A query is satisfied in scope `M`: some substitution sends every body predicate
into `M`, binds only body variables, makes every expression true, and instantiates the head. -/
def QHolds (cfg : EvalCfg) (M : DFact → Prop) (q : DRule) : Prop :=
  ∃ σ f, (∀ p ∈ q.body, ∃ g, instPred p σ = some g ∧ M g) ∧
    (∀ n v, σ.lookup n = some v → n ∈ bodyVars q.body) ∧
    checkExprs (evalBool cfg) σ q.exprs = .ok true ∧
    instPred q.head σ = some f

/-- A check (or a policy) holds when at least one of its queries does. -/
def CheckHolds (cfg : EvalCfg) (M : DFact → Prop) (c : Check) : Prop := ∃ q ∈ c.queries, QHolds cfg M q
def PolicyHolds (cfg : EvalCfg) (M : DFact → Prop) (p : Policy) : Prop := ∃ q ∈ p.queries, QHolds cfg M q

/-- Authority scope: closure of the authorizer's and the authority block's facts under
the authorizer's and the authority block's rules. -/
def authorityScope (cfg : EvalCfg) (A : Block) (s : AuthState) : DFact → Prop :=
  DerivableP cfg (s.world.rules ++ A.rules) (fun f => f ∈ s.world.facts ∨ f ∈ A.facts)

/-- Scope of a later block: the authority scope plus the block's own facts, closed
under the block's own rules only. -/
def blockScope (cfg : EvalCfg) (A : Block) (s : AuthState) (b : Block) : DFact → Prop :=
  DerivableP cfg b.rules (fun f => authorityScope cfg A s f ∨ f ∈ b.facts)

/-- The first policy, in insertion order, that holds in `M` has kind `k`. -/
def FirstPolicyIs (cfg : EvalCfg) (M : DFact → Prop) (ps : List Policy) (k : PolicyKind) : Prop :=
  ∃ pre p post, ps = pre ++ p :: post ∧ p.kind = k ∧ PolicyHolds cfg M p ∧ ∀ p' ∈ pre, ¬ PolicyHolds cfg M p'

/-- The specified fragment ("error-free"): every evaluation the authorizer performs
completes — the authority-level run, each block's run, and the application of every
check and policy query — so no limit is hit, no expression errs and no head variable
is left unbound. -/
structure WithinFragment (cfg : EvalCfg) (tok : Token) (s : AuthState) : Prop where
  authorityRun : ∃ w, runWorld cfg s.limits
      { facts := insertAll s.world.facts tok.authority.facts, rules := s.world.rules ++ tok.authority.rules } = (w, none)
  authorityQueries : ∀ w, runWorld cfg s.limits
      { facts := insertAll s.world.facts tok.authority.facts, rules := s.world.rules ++ tok.authority.rules } = (w, none) →
      (∀ c ∈ s.checks ++ tok.authority.checks, ∀ q ∈ c.queries, (applyRule (evalBool cfg) q w.facts []).2 = none) ∧
      (∀ p ∈ s.policies, ∀ q ∈ p.queries, (applyRule (evalBool cfg) q w.facts []).2 = none)
  blockRuns : ∀ w, runWorld cfg s.limits
      { facts := insertAll s.world.facts tok.authority.facts, rules := s.world.rules ++ tok.authority.rules } = (w, none) →
      ∀ b ∈ tok.blocks, ∃ wb, runWorld cfg s.limits { facts := insertAll w.facts b.facts, rules := b.rules } = (wb, none) ∧
        ∀ c ∈ b.checks, ∀ q ∈ c.queries, (applyRule (evalBool cfg) q wb.facts []).2 = none

end Biscuit
