/-
Model/Token — the signed envelope (biscuit.go, builder.go, options.go).

The signature scheme is a *parameter* (`SigScheme`): the theorems quantify over it
and state what they need of it as hypotheses; the correspondence check answers its
functions with the standard library's ed25519, never through biscuit-go.

The envelope is `Wire.BiscuitMsg` (decoded protobuf). Block contents are opaque
byte strings here (`Model/Symbols` and `Model/Wire` give them meaning).
-/
import BiscuitModel.Model.Wire

namespace Biscuit
open Wire

structure SigScheme where
  /-- public key of the key pair derived from a 32-byte seed (`NewKeyFromSeed(seed).Public()`) -/
  pub : Bytes → Bytes
  /-- signature of a message under the key pair derived from a seed -/
  sign : Bytes → Bytes → Bytes
  /-- `ed25519.Verify(publicKey, message, signature)` -/
  verify : Bytes → Bytes → Bytes → Bool

/-- Little-endian 32-bit encoding (`binary.LittleEndian.PutUint32`). -/
def le32 (n : Nat) : Bytes :=
  [UInt8.ofNat (n % 256), UInt8.ofNat (n / 256 % 256), UInt8.ofNat (n / 65536 % 256), UInt8.ofNat (n / 16777216 % 256)]

/-- What a block signature covers: block bytes ‖ algorithm (u32 LE) ‖ next public key
(biscuit.go:97-103, 192-198, 340-344, 359-363). -/
def blockPayload (sb : SignedBlockMsg) : Bytes :=
  sb.block ++ le32 sb.nextKey.algorithm ++ sb.nextKey.key

/-- What the seal signature covers: the last block's payload ‖ its signature (biscuit.go:266-272, 398-402). -/
def sealPayload (sb : SignedBlockMsg) : Bytes := blockPayload sb ++ sb.signature

inductive Reject
  | format            -- does not decode / required field missing / version gate
  | keySize           -- ErrInvalidKeySize
  | signatureSize     -- ErrInvalidSignatureSize
  | algorithm         -- UnsupportedAlgorithm
  | signature         -- ErrInvalidSignature (a block link)
  | proof             -- invalid last signature / secret does not match / no proof
  | noKey             -- ErrNoPublicKeyAvailable
  | sealed            -- append / seal on a sealed token
  | entropy           -- random source failed
  deriving DecidableEq, Repr

def ed25519Alg : Nat := 0

/-- Decode-time gates of `Unmarshal` (builder.go:163-190): 32-byte announced keys, 64-byte signatures. -/
def sizeGate (sb : SignedBlockMsg) : Except Reject Unit :=
  if sb.nextKey.key.length ≠ 32 then .error .keySize
  else if sb.signature.length ≠ 64 then .error .signatureSize
  else .ok ()

def sizeGates (e : BiscuitMsg) : Except Reject Unit := do
  sizeGate e.authority
  e.blocks.forM sizeGate

/-- One link: algorithm gate, signature under the current key, then the announced key
becomes current (length gate 32) (biscuit.go:335-373). -/
def verifyLink (S : SigScheme) (current : Bytes) (sb : SignedBlockMsg) : Except Reject Bytes :=
  if sb.nextKey.algorithm ≠ ed25519Alg then .error .algorithm
  else if !S.verify current (blockPayload sb) sb.signature then .error .signature
  else if sb.nextKey.key.length ≠ 32 then .error .keySize
  else .ok sb.nextKey.key

def verifyLinks (S : SigScheme) : Bytes → List SignedBlockMsg → Except Reject Bytes
  | current, [] => .ok current
  | current, sb :: rest =>
    match verifyLink S current sb with
    | .error e => .error e
    | .ok next => verifyLinks S next rest

def lastBlock (e : BiscuitMsg) : SignedBlockMsg := e.blocks.getLast?.getD e.authority

/-- The closing proof (biscuit.go:375-410). The pinned code handed a next secret of any
length to `NewKeyFromSeed`, which panics unless it has 32 bytes (D6); the repaired code
rejects it with the key-size error, as modelled here. -/
def verifyProof (S : SigScheme) (current : Bytes) (e : BiscuitMsg) : Except Reject Unit :=
  match e.proof with
  | .nextSecret sk =>
    if sk.length ≠ 32 then .error .keySize
    else if S.pub sk = current then .ok () else .error .proof
  | .finalSignature sig =>
    if S.verify current (sealPayload (lastBlock e)) sig then .ok () else .error .proof
  | .empty => .error .proof

/-- `authorizerFor`'s chain walk: authority under the root key, each block under the key
announced by its predecessor, then the proof. -/
def verifyChain (S : SigScheme) (root : Bytes) (e : BiscuitMsg) : Except Reject Unit :=
  match verifyLinks S root (e.authority :: e.blocks) with
  | .error r => .error r
  | .ok current => verifyProof S current e

/-- `AuthorizerFor` key selection by identifier (biscuit.go:305-330, 419-431). -/
def selectKey (id : Option Nat) (keys : List (Nat × Bytes)) (dflt : Option Bytes) : Except Reject Bytes :=
  match id with
  | none =>
    match dflt with
    | some k => if k.isEmpty then .error .noKey else .ok k
    | none => .error .noKey
  | some i =>
    match keys.find? (fun kv => kv.1 == i) with
    | some kv => if kv.2.isEmpty then .error .noKey else .ok kv.2
    | none => .error .noKey

/-- `Unmarshal` + `AuthorizerFor(WithRootPublicKeys(keys, dflt))` on an envelope. -/
def acceptWithKeys (S : SigScheme) (keys : List (Nat × Bytes)) (dflt : Option Bytes) (e : BiscuitMsg) : Except Reject Unit := do
  sizeGates e
  let k ← selectKey e.rootKeyId keys dflt
  verifyChain S k e

/-- `Unmarshal` + `AuthorizerFor(WithSingularRootPublicKey(root))`. -/
def accept (S : SigScheme) (root : Bytes) (e : BiscuitMsg) : Except Reject Unit := do
  sizeGates e
  if root.isEmpty then .error .noKey
  verifyChain S root e

/-! ### Random source with explicit short reads (C20) -/

/-- What successive `Read` calls deliver: a chunk of bytes, possibly together with an
error; or an error alone. -/
inductive ReadStep
  | chunk (b : Bytes)
  | chunkErr (b : Bytes)       -- bytes delivered together with an error
  | fail
  deriving DecidableEq, Repr

abbrev Rng := List ReadStep

/-- `io.ReadFull(rng, buf[:n])`: keeps reading until `n` bytes are there; fails if the
source errs or runs dry first. Returns the bytes and the rest of the script. A chunk
longer than needed is consumed only as far as needed (the reader is asked for exactly
the missing bytes). -/
def readFull : Nat → Rng → Bytes → Option (Bytes × Rng)
  | 0, rng, acc => some (acc, rng)
  | _ + 1, [], _ => none
  | _ + 1, .fail :: _, _ => none
  | need + 1, .chunk b :: rest, acc =>
    if b.length ≥ need + 1 then some (acc ++ b.take (need + 1), .chunk (b.drop (need + 1)) :: rest)
    else readFull (need + 1 - b.length) rest (acc ++ b)
  | need + 1, .chunkErr b :: rest, acc =>
    if b.length ≥ need + 1 then some (acc ++ b.take (need + 1), .fail :: rest)
    else none

/-- Draw a 32-byte seed (`ed25519.GenerateKey(rng)` reads exactly 32 bytes with `io.ReadFull`). -/
def drawSeed (rng : Rng) : Option (Bytes × Rng) := readFull 32 rng []

/-! ### Building, attenuating, sealing -/

/-- `newBiscuit` (biscuit.go:69-131): sign `block ‖ alg ‖ nextPub` with the root secret,
publish the next secret as proof. `rootSeed` stands for the root private key. -/
def buildEnvelope (S : SigScheme) (rootSeed : Bytes) (rootKeyId : Option Nat) (block : Bytes) (rng : Rng) :
    Except Reject (BiscuitMsg × Rng) :=
  match drawSeed rng with
  | none => .error .entropy
  | some (seed, rng') =>
    let nk : PublicKeyMsg := { algorithm := ed25519Alg, key := S.pub seed }
    let sb : SignedBlockMsg := { block := block, nextKey := nk, signature := [] }
    let sb := { sb with signature := S.sign rootSeed (blockPayload sb) }
    .ok ({ rootKeyId := rootKeyId, authority := sb, blocks := [], proof := .nextSecret seed }, rng')

/-- `Append` (biscuit.go:146-230). `keepRootKeyId = false` is the pinned code, which
rebuilt the envelope without `RootKeyId` (D12). -/
def appendEnvelopeWith (keepRootKeyId : Bool) (S : SigScheme) (e : BiscuitMsg) (block : Bytes) (rng : Rng) :
    Except Reject (BiscuitMsg × Rng) :=
  match e.proof with
  | .nextSecret sk =>
    if sk.length ≠ 32 then .error .keySize
    else match drawSeed rng with
      | none => .error .entropy
      | some (seed, rng') =>
        let nk : PublicKeyMsg := { algorithm := ed25519Alg, key := S.pub seed }
        let sb : SignedBlockMsg := { block := block, nextKey := nk, signature := [] }
        let sb := { sb with signature := S.sign sk (blockPayload sb) }
        .ok ({ rootKeyId := if keepRootKeyId then e.rootKeyId else none, authority := e.authority,
               blocks := e.blocks ++ [sb], proof := .nextSecret seed }, rng')
  | _ => .error .sealed

def appendEnvelope := appendEnvelopeWith true

/-- `Seal` (biscuit.go:233-295): sign the last block's payload ‖ signature with the next
secret; the proof becomes that final signature. Draws no randomness. -/
def sealEnvelopeWith (keepRootKeyId : Bool) (S : SigScheme) (e : BiscuitMsg) : Except Reject BiscuitMsg :=
  match e.proof with
  | .nextSecret sk =>
    if sk.length ≠ 32 then .error .keySize
    else .ok { rootKeyId := if keepRootKeyId then e.rootKeyId else none, authority := e.authority,
               blocks := e.blocks, proof := .finalSignature (S.sign sk (sealPayload (lastBlock e))) }
  | _ => .error .sealed

def sealEnvelope := sealEnvelopeWith true

/-- `RevocationIds` (biscuit.go:599-606). -/
def revocationIds (e : BiscuitMsg) : List Bytes := e.authority.signature :: e.blocks.map (·.signature)

/-- `Serialize` then `Unmarshal`, at envelope level (C07's round trip makes this the identity). -/
def reload (e : BiscuitMsg) : Option BiscuitMsg := decodeBiscuit (encodeBiscuit e)

/-- Derivation steps of a token family member. -/
inductive DeriveOp
  | append (block : Bytes) (seedScript : Rng)
  | seal
  | reload
  deriving DecidableEq, Repr

def derive (keep : Bool) (S : SigScheme) (e : BiscuitMsg) : DeriveOp → Except Reject BiscuitMsg
  | .append block rng => (appendEnvelopeWith keep S e block rng).map (·.1)
  | .seal => sealEnvelopeWith keep S e
  | .reload => match reload e with
    | some e' => .ok e'
    | none => .error .format

/-- Apply a history of derivations, stopping at the first refusal. -/
def deriveAll (keep : Bool) (S : SigScheme) : BiscuitMsg → List DeriveOp → Except Reject BiscuitMsg
  | e, [] => .ok e
  | e, op :: ops =>
    match derive keep S e op with
    | .error r => .error r
    | .ok e' => deriveAll keep S e' ops

end Biscuit
