/-
Model/Layout — layouts of a token list: which separators may be omitted.

`Model/Spell.spell` puts ONE space after every token.  The library's printer writes tighter
texts (`right("file1", "read") <- user($u), $u.starts_with("a") || 1 + 2 == 3;`): no blank
between a name and `(`, none before `,` `)` `.`, one around operators.  This file says which
junctions tolerate an omitted separator.

* `canFollow t c`: the character `c` may come IMMEDIATELY after the spelling of `t`: the rule
  that reads `t` stops in front of `c`, and no earlier rule matches the spelling of `t`
  extended by `c…` (the lexer takes the FIRST matching rule at each position).
* `okAfter t rest`: the same for a whole remaining input (`[]` is always fine); the Hex rule
  `([0-9a-fA-F]{2})*` looks at two characters.
* `needSep t next`: `false` = the spelling of `next` may follow the spelling of `t` directly.
* `spellWith gaps ts`: token `i` followed by gap `i` (missing gaps are empty).
* `layoutOK gaps ts`: all used gaps are blank, and the gap between two adjacent tokens is
  non-empty unless `needSep` says it can be omitted.  The gap after the last token is free.
-/
import BiscuitModel.Model.Spell

namespace Biscuit.Grammar

/-- The characters elided by the lexer (Whitespace and EOL rules). -/
def isBlank (c : Char) : Bool := c == ' ' || c == '\t' || c == '\n' || c == '\r'

/-- Characters with which the Date rule could go on after a complete date (fraction, zone), or
that it looks for as a delimiter.  (`T` and `:` are only listed to keep the criterion local.) -/
def dateCont (c : Char) : Bool :=
  isDigit c || c == '-' || c == 'T' || c == ':' || c == '.' || c == 'Z' || c == '+'

/-- `c` directly after the punctuation `p`. -/
def punctFollow (p c : Char) : Bool :=
  if p == '$' || p == '{' then !isNameChar c        -- `$x` is a variable, `{x}` a parameter
  else if p == '&' || p == '|' || p == '=' || p == '/' then c != p   -- `&&` `||` `==` `//`
  else true

/-- `c` directly after the operator `s`. -/
def opFollow (s : String) (c : Char) : Bool :=
  if s == "<" then c != '-' && c != '='             -- `<-` is Arrow, `<=` an operator
  else if s == ">" then c != '='                    -- `>=`
  else true

/-- The character `c` may come immediately after the spelling of `t`. -/
def canFollow : Tok → Char → Bool
  | .keyword _, _ => true             -- literal, no boundary check
  | .func _, c => !isWordChar c       -- `\b`
  | .hex _, c => !isHexDigit c        -- a pair of hex digits continues the literal; see `needSep`
  | .dot, _ => true
  | .arrow, _ => true
  | .orOp, _ => true
  | .andOp, _ => true
  | .op s, c => opFollow s c
  | .comment, _ => false              -- swallows the rest of the line
  | .str _, _ => true                 -- self-delimiting
  | .var _, c => !isNameChar c
  | .param _, _ => true               -- self-delimiting
  | .date _, c => !dateCont c
  | .int ds, c => !isDigit c && !(c == '-' && ds.length == 4)   -- `dddd-` may start a date
  | .bool _, c => !isWordChar c       -- `\b`
  | .ident _, c => !isNameChar c
  | .punct p, c => punctFollow p c

/-- The remaining input `rest` may come immediately after the spelling of `t`. -/
def okAfter (t : Tok) (rest : List Char) : Bool :=
  match t, rest with
  | _, [] => true
  | .hex _, [_] => true
  | .hex _, a :: b :: _ => !(isHexDigit a && isHexDigit b)
  | t, c :: _ => canFollow t c

/-- `false`: the spelling of `next` may follow the spelling of `t` without a separator. -/
def needSep (t next : Tok) : Bool :=
  match t, spellTok next with
  | _, [] => true
  | .hex _, [a] => isHexDigit a       -- the character after `next` could complete the pair
  | .hex _, a :: b :: _ => isHexDigit a && isHexDigit b
  | t, c :: _ => !canFollow t c

/-- Token `i` followed by gap `i`; missing gaps are empty, surplus gaps are ignored. -/
def spellWith : List (List Char) → List Tok → List Char
  | _, [] => []
  | [], t :: ts => spellTok t ++ spellWith [] ts
  | g :: gs, t :: ts => spellTok t ++ (g ++ spellWith gs ts)

/-- Every used gap is blank; between two tokens the gap is non-empty or not needed. -/
def layoutOK : List (List Char) → List Tok → Bool
  | _, [] => true
  | [], [_] => true
  | g :: _, [_] => g.all isBlank
  | [], t :: t' :: ts => !needSep t t' && layoutOK [] (t' :: ts)
  | g :: gs, t :: t' :: ts => g.all isBlank && (!g.isEmpty || !needSep t t') && layoutOK gs (t' :: ts)

def LayoutOK (gaps : List (List Char)) (ts : List Tok) : Prop := layoutOK gaps ts = true

instance (gaps : List (List Char)) (ts : List Tok) : Decidable (LayoutOK gaps ts) :=
  inferInstanceAs (Decidable (layoutOK gaps ts = true))

end Biscuit.Grammar
