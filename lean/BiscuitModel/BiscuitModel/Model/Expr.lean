/-
Model/Expr — the postfix expression machine (datalog/expressions.go).

`eval` follows `Expression.Evaluate` (expressions.go:22-85) op by op; the
operator functions follow each `Eval` method (337-793). The regular-expression
engine is a parameter (`Regex`), answered by an oracle in the correspondence
check and universally quantified in the theorems.
-/
import BiscuitModel.Model.Value

namespace Biscuit

inductive UnOp
  | negate | parens | length
  deriving DecidableEq, Repr

inductive BinOp
  | lt | le | gt | ge | eq | contains | pfx | sfx | regex
  | add | sub | mul | div | and | or | intersection | union
  deriving DecidableEq, Repr

inductive Op
  | value (t : Term Val)
  | unary (u : UnOp)
  | binary (b : BinOp)
  deriving DecidableEq, Repr

abbrev Expr := List Op

/-- `maxStackSize` (expressions.go:13). Tied to the source by `Generated.maxStackSize`. -/
def maxStackSize : Nat := 1000

/-- External regular-expression engine: `none` = the model was not told;
`some none` = pattern does not compile; `some (some b)` = match result. -/
abbrev Regex := Bytes → Bytes → Option (Option Bool)

/-- Which division the machine performs. `exact`: the repaired code (overflow
reported). `pinned`: Go's `int64 /` with only the zero test (D1). -/
inductive DivMode | exact | pinned
  deriving DecidableEq, Repr

/-- Which `Set.Equal`/`Intersect`/`Union` the machine performs. -/
inductive SetMode | loops | pinnedMaps
  deriving DecidableEq, Repr

structure EvalCfg where
  rx : Regex
  div : DivMode := .exact
  sets : SetMode := .loops

/-- Wrap an `Int` into the signed 64-bit range (what Go's `int64` arithmetic does). -/
def wrapI64 (x : Int) : Int := (BitVec.ofInt 64 x).toInt

def checkedInt (x : Int) : Outcome Val :=
  if inI64 x then .ok (.atom (.int x)) else .err .overflow

def evalUnary : UnOp → Val → Outcome Val
  | .negate, .atom (.bool b) => .ok (.atom (.bool (!b)))
  | .negate, _ => .err .type
  | .parens, v => .ok v
  | .length, .atom (.str s) => .ok (.atom (.int (s.length : Nat)))
  | .length, .atom (.bytes b) => .ok (.atom (.int (b.length : Nat)))
  | .length, .set l => .ok (.atom (.int (l.length : Nat)))
  | .length, _ => .err .type

def boolV (b : Bool) : Outcome Val := .ok (.atom (.bool b))

/-- Sets hash their elements in the pinned code: a `Bytes` element panics. -/
def pinnedSetGuard (cfg : EvalCfg) (s t : List Atom) (k : Outcome Val) : Outcome Val :=
  match cfg.sets with
  | .loops => k
  | .pinnedMaps =>
    if s.any (fun x => x.type == .bytes) || t.any (fun x => x.type == .bytes)
    then .panic .unhashableSetKey else k

def evalEqual (cfg : EvalCfg) : Val → Val → Outcome Val
  | .atom a, .atom b => if a.type == b.type then boolV (a == b) else .err .type
  | .set s, .set t =>
    match cfg.sets with
    | .loops => boolV (setEqual s t)
    | .pinnedMaps => (setEqualPinned s t).bind boolV
  | _, _ => .err .type

def evalCompare (cmpI : Int → Int → Bool) (cmpN : Nat → Nat → Bool) : Val → Val → Outcome Val
  | .atom (.int a), .atom (.int b) => boolV (cmpI a b)
  | .atom (.date a), .atom (.date b) => boolV (cmpN a b)
  | _, _ => .err .type

def evalBinary (cfg : EvalCfg) : BinOp → Val → Val → Outcome Val
  | .lt, l, r => evalCompare (· < ·) (· < ·) l r
  | .le, l, r => evalCompare (· ≤ ·) (· ≤ ·) l r
  | .gt, l, r => evalCompare (· > ·) (· > ·) l r
  | .ge, l, r => evalCompare (· ≥ ·) (· ≥ ·) l r
  | .eq, l, r => evalEqual cfg l r
  | .contains, .atom (.str a), .atom (.str b) => boolV (bytesContains a b)
  | .contains, .atom (.str _), _ => .err .type
  | .contains, .set s, .set t => boolV (setIncludes s t)
  | .contains, .set s, .atom a => boolV (s.contains a)
  | .contains, _, _ => .err .type
  | .intersection, .set s, .set t => pinnedSetGuard cfg s t (.ok (.set (setIntersect s t)))
  | .intersection, _, _ => .err .type
  | .union, .set s, .set t => pinnedSetGuard cfg s t (.ok (.set (setUnion s t)))
  | .union, _, _ => .err .type
  | .pfx, .atom (.str a), .atom (.str b) => boolV (b.isPrefixOf a)
  | .pfx, _, _ => .err .type
  | .sfx, .atom (.str a), .atom (.str b) => boolV (b.isSuffixOf a)
  | .sfx, _, _ => .err .type
  | .regex, .atom (.str a), .atom (.str b) =>
    match cfg.rx a b with
    | none => .err .oracleMiss
    | some none => .err .regex
    | some (some m) => boolV m
  | .regex, _, _ => .err .type
  | .add, .atom (.str a), .atom (.str b) => .ok (.atom (.str (a ++ b)))
  | .add, .atom (.str _), _ => .err .type
  | .add, .atom (.int a), .atom (.int b) => checkedInt (a + b)
  | .add, _, _ => .err .type
  | .sub, .atom (.int a), .atom (.int b) => checkedInt (a - b)
  | .sub, _, _ => .err .type
  | .mul, .atom (.int a), .atom (.int b) => checkedInt (a * b)
  | .mul, _, _ => .err .type
  | .div, .atom (.int a), .atom (.int b) =>
    if b = 0 then .err .divzero
    else match cfg.div with
      | .exact => checkedInt (Int.tdiv a b)
      | .pinned => .ok (.atom (.int (wrapI64 (Int.tdiv a b))))
  | .div, _, _ => .err .type
  | .and, .atom (.bool a), .atom (.bool b) => boolV (a && b)
  | .and, _, _ => .err .type
  | .or, .atom (.bool a), .atom (.bool b) => boolV (a || b)
  | .or, _, _ => .err .type

/-- Variable bindings: association list, first binding wins. -/
abbrev Bindings (V : Type) := List (Bytes × V)

def Bindings.lookup {V : Type} (σ : Bindings V) (n : Bytes) : Option V :=
  match σ with
  | [] => none
  | (k, v) :: rest => if k = n then some v else Bindings.lookup rest n

def push (st : List Val) (v : Val) : Outcome (List Val) :=
  if st.length ≥ maxStackSize then .err .stack else .ok (v :: st)

/-- One step of the machine on stack `st` (top of stack first). -/
def stepOp (cfg : EvalCfg) (σ : Bindings Val) (st : List Val) : Op → Outcome (List Val)
  | .value (.const v) => push st v
  | .value (.var n) =>
    match σ.lookup n with
    | none => .err .unknownVar
    | some v => push st v
  | .unary u =>
    match st with
    | [] => .err .stack
    | v :: rest => (evalUnary u v).bind (push rest)
  | .binary b =>
    match st with
    | r :: l :: rest => (evalBinary cfg b l r).bind (push rest)
    | _ => .err .stack

def runOps (cfg : EvalCfg) (σ : Bindings Val) : List Op → List Val → Outcome (List Val)
  | [], st => .ok st
  | op :: ops, st => (stepOp cfg σ st op).bind (runOps cfg σ ops)

/-- `Expression.Evaluate`. -/
def eval (cfg : EvalCfg) (σ : Bindings Val) (e : Expr) : Outcome Val :=
  (runOps cfg σ e []).bind fun st =>
    match st with
    | [v] => .ok v
    | _ => .err .stack

/-- What `combine` asks of an expression: does it evaluate to the boolean `true`
(datalog.go:566-583: `!res.Equal(Bool(true))` rejects the combination). -/
def evalBool (cfg : EvalCfg) (σ : Bindings Val) (e : Expr) : Outcome Bool :=
  (eval cfg σ e).bind fun v => .ok (decide (v = .atom (.bool true)))

end Biscuit
