/-
Model/Chan — the goroutine protocols of `World.Run`, `Rule.Apply` and `combine`
(datalog/datalog.go:202-239, 360-409, 489-614) as small transition systems.

Two protocols, each in its pinned and its repaired form:

* APPLY: the `combine` producer sends its combinations over an unbuffered channel to the
  consumer loop of `Rule.Apply`, which may return early (expression error item,
  `InvalidRuleError` at the first valid combination). Repaired: `Apply` closes a `stop`
  channel on every return path and the producer selects on it.
* RUN: the evaluation goroutine delivers its result on `done` while the caller selects on
  `done` and the timeout. Repaired: `done` has a buffer of one.

Nondeterminism (scheduling, the moment the timeout fires) is the branching of `step`.
Unbounded counters (number of combinations) make this an invariant proof, not an enumeration.
-/
namespace Biscuit.Chan

/-! ## APPLY -/

inductive Producer
  | sending (remaining : Nat)     -- has `remaining` items to send; blocks on the next send when > 0
  | finished                      -- closed the channel and returned
  deriving DecidableEq, Repr

inductive Consumer
  | taking (more : Option Nat)    -- `some k`: returns early after k more items; `none`: ranges until close
  | returned
  deriving DecidableEq, Repr

structure ApplyCfg where
  prod : Producer
  cons : Consumer
  stopClosed : Bool
  deriving DecidableEq, Repr

/-- Successor configurations. `repaired = false` is the pinned protocol (no stop channel). -/
def applyStep (repaired : Bool) (c : ApplyCfg) : List ApplyCfg :=
  -- rendezvous: producer sends, consumer receives
  (match c.prod, c.cons with
   | .sending (n + 1), .taking none => [{ c with prod := .sending n }]
   | .sending (n + 1), .taking (some (k + 1)) => [{ c with prod := .sending n, cons := .taking (some k) }]
   | _, _ => []) ++
  -- producer has nothing left: closes the channel
  (match c.prod with
   | .sending 0 => [{ c with prod := .finished }]
   | _ => []) ++
  -- consumer sees the closed channel (range ends)
  (match c.prod, c.cons with
   | .finished, .taking _ => [{ c with cons := .returned }]
   | _, _ => []) ++
  -- consumer returns early (its deferred close(stop) runs in the repaired protocol)
  (match c.cons with
   | .taking (some 0) => [{ c with cons := .returned, stopClosed := repaired }]
   | _ => []) ++
  -- producer blocked on a send observes the closed stop channel
  (match c.prod with
   | .sending (_ + 1) => if c.stopClosed then [{ c with prod := .finished }] else []
   | _ => [])

def applyInit (items : Nat) (early : Option Nat) : ApplyCfg :=
  { prod := .sending items, cons := .taking early, stopClosed := false }

inductive ApplyReach (repaired : Bool) (c0 : ApplyCfg) : ApplyCfg → Prop
  | refl : ApplyReach repaired c0 c0
  | step {c c'} : ApplyReach repaired c0 c → c' ∈ applyStep repaired c → ApplyReach repaired c0 c'

def applyTerminal (repaired : Bool) (c : ApplyCfg) : Prop := applyStep repaired c = []

/-- Every library goroutine of the protocol has terminated. -/
def applyAllDone (c : ApplyCfg) : Prop := c.prod = .finished ∧ c.cons = .returned

/-! ## RUN -/

inductive Worker
  | computing
  | delivering          -- at `done <- result`
  | exited
  deriving DecidableEq, Repr

inductive Caller
  | waiting             -- in `select { case <-ctx.Done(): … case err := <-done: … }`
  | returned
  deriving DecidableEq, Repr

structure RunCfg where
  worker : Worker
  caller : Caller
  timedOut : Bool
  buffered : Bool        -- a result sits in the buffer of `done`
  deriving DecidableEq, Repr

/-- `repaired = true`: `done` has capacity 1. -/
def runStep (repaired : Bool) (c : RunCfg) : List RunCfg :=
  -- the timeout fires while the caller waits
  (if c.caller = .waiting && !c.timedOut then [{ c with timedOut := true }] else []) ++
  -- the caller takes the timeout branch
  (if c.caller = .waiting && c.timedOut then [{ c with caller := .returned }] else []) ++
  -- the worker finishes computing (or notices the cancelled context and leaves)
  (match c.worker with
   | .computing => [{ c with worker := .delivering }] ++ (if c.timedOut then [{ c with worker := .exited }] else [])
   | _ => []) ++
  -- delivery
  (match c.worker with
   | .delivering =>
     if repaired then [{ c with worker := .exited, buffered := true }]
     else if c.caller = .waiting then [{ c with worker := .exited, caller := .returned }] else []
   | _ => []) ++
  -- the caller takes a buffered result
  (if c.caller = .waiting && c.buffered then [{ c with caller := .returned, buffered := false }] else [])

def runInit : RunCfg := { worker := .computing, caller := .waiting, timedOut := false, buffered := false }

inductive RunReach (repaired : Bool) : RunCfg → Prop
  | init : RunReach repaired runInit
  | step {c c'} : RunReach repaired c → c' ∈ runStep repaired c → RunReach repaired c'

def runTerminal (repaired : Bool) (c : RunCfg) : Prop := runStep repaired c = []

end Biscuit.Chan
