/-
Model/Quote — from CONTENT (`Atom`, `Term Val`, `Pred Val`, `Expr`, `DRule`, `Check`) back to
the abstract syntax of the Datalog text (`PTerm`, `PPred`, `PExpr`, `PRule`, `PCheck`): the
syntax tree whose reference rendering (`Model/Render`) is, token for token, what the
character-level printer `Printer.print*` writes (`Proofs/PrintText`, `Props/C15Text`).

* literals are quoted through the printer's own digit / date / hex writers: the quoted
  integer literal of `5` is the digit string `printInt 5`, of `-5` the signed literal
  `.negInt` with the digits of `5` (the printer writes `-5`, no blank), of a date its
  RFC 3339 text, …;
* names (predicates, variables) and strings are decoded with `charsOfBytes`, as the printer does;
* a set is quoted element by element, the elements SORTED BY THEIR PRINTED FORM (`sortA`), which
  is what the printer does (`Printer.sortC` on the printed elements);
* an expression (postfix operator sequence) is rebuilt into a tree with a stack
  (`quoteOps`): a value pushes a leaf, `Negate` / `Parens` / `Length` wrap the top of the stack
  into `.neg` / `.paren` / `.length`, a binary operator pops two trees and builds an infix node
  `.bin` when the printer writes it infix (`Printer.binSymbol`) and a method node `.method`
  otherwise.  `none` exactly when `Printer.printOps` gives up (stack underflow, leftovers);
* a rule body / a query lists the predicates first, then the expressions (the printer's order).

Core Lean only.
-/
import BiscuitModel.Model.Printer

namespace Biscuit.Quote
open Biscuit Biscuit.Grammar Biscuit.Printer

/-- A name (predicate, variable) as the printer decodes it. -/
def quoteName (n : Bytes) : String := String.ofList (charsOfBytes n)

/-- A literal. -/
def quoteAtom : Atom → PTerm
  | .int i => if i < 0 then .negInt (natDigits i.natAbs) else .int (printInt i)
  | .str s => .str (charsOfBytes s)
  | .date d => .date (printDate d)
  | .bytes b => .bytes (printHex b)
  | .bool b => .bool b

/-- Insertion by printed form: the order `Printer.insertSortedC` uses on the printed elements. -/
def insertSortedA (x : Atom) : List Atom → List Atom
  | [] => [x]
  | y :: ys =>
    if String.ofList (printAtom x) ≤ String.ofList (printAtom y) then x :: y :: ys
    else y :: insertSortedA x ys

/-- The elements of a set in the order in which the printer writes them. -/
def sortA (l : List Atom) : List Atom := l.foldl (fun acc x => insertSortedA x acc) []

def quoteTerm : Term Val → PTerm
  | .var n => .var (quoteName n)
  | .const (.atom a) => quoteAtom a
  | .const (.set l) => .set ((sortA l).map quoteAtom)

def quotePred (p : Pred Val) : PPred := { name := quoteName p.name, terms := p.terms.map quoteTerm }

def quoteUnary (u : UnOp) (e : PExpr) : PExpr :=
  match u with
  | .negate => .neg e
  | .parens => .paren e
  | .length => .length e

/-- Infix node for the operators the printer writes infix, method node for the others. -/
def quoteBinary (b : BinOp) (l r : PExpr) : PExpr :=
  match binSymbol b with
  | some _ => .bin b l r
  | none => .method b l r

/-- The tree stack machine, run in lock step with `Printer.printOps`. -/
def quoteOps : List Op → List PExpr → Option PExpr
  | [], [e] => some e
  | [], _ => none
  | .value t :: ops, st => quoteOps ops (.term (quoteTerm t) :: st)
  | .unary u :: ops, e :: st => quoteOps ops (quoteUnary u e :: st)
  | .unary _ :: _, [] => none
  | .binary b :: ops, r :: l :: st => quoteOps ops (quoteBinary b l r :: st)
  | .binary _ :: _, _ => none

/-- The tree of a postfix operator sequence; `none` = `<invalid expression>`. -/
def quoteExpr (e : Expr) : Option PExpr := quoteOps e []

/-- Predicates first, then expressions; `none` if an expression is invalid. -/
def quoteBody (body : List (Pred Val)) (exprs : List Expr) : Option (List PElem) :=
  (exprs.mapM quoteExpr).map fun es => body.map (fun p => PElem.pred (quotePred p)) ++ es.map PElem.expr

def quoteRule (r : DRule) : Option PRule :=
  (quoteBody r.body r.exprs).map fun b => { head := quotePred r.head, body := b }

/-- A query is printed without its head. -/
def quoteQuery (q : DRule) : Option (List PElem) := quoteBody q.body q.exprs

def quoteCheck (c : Check) : Option PCheck :=
  (c.queries.mapM quoteQuery).map fun qs => { queries := qs }

def quoteFact (p : Pred Val) : PItem := .fact (quotePred p)

def quoteRuleItem (r : DRule) : Option PItem := (quoteRule r).map PItem.rule

def quoteCheckItem (c : Check) : Option PItem := (quoteCheck c).map PItem.check

/-! ## What the text denotes: content up to the order of set elements

Reading the printed text back gives every set with its elements in PRINTED order: the text
does not remember the order of the list that represents the set. -/

def normTerm : Term Val → Term Val
  | .const (.set l) => .const (.set (sortA l))
  | t => t

def normPred (p : Pred Val) : Pred Val := { p with terms := p.terms.map normTerm }

def normOp : Op → Op
  | .value t => .value (normTerm t)
  | o => o

def normExpr (e : Expr) : Expr := e.map normOp

def normRule (r : DRule) : DRule :=
  { head := normPred r.head, body := r.body.map normPred, exprs := r.exprs.map normExpr }

/-- A query as the parser denotes it: the head is the fixed `query()`. -/
def normQuery (q : DRule) : DRule :=
  { head := queryHead, body := q.body.map normPred, exprs := q.exprs.map normExpr }

def normCheck (c : Check) : Check := { queries := c.queries.map normQuery }

end Biscuit.Quote
