/-
Model/Value — ground values of the Datalog engine (datalog/datalog.go:14-140).

String-level: a `datalog.String` index is modelled by the byte string it
resolves to (interning is `Model/Symbols`' concern). Sets are flat lists of
atoms, exactly what the wire format and the parser can produce
(converters_v2.go:96-190 reject nested sets and variables in sets).
-/
import BiscuitModel.Model.Basic

namespace Biscuit

/-- Non-set ground value. `date` is a `uint64` in Go. -/
inductive Atom
  | int (i : Int)
  | str (s : Bytes)
  | date (d : Nat)
  | bytes (b : Bytes)
  | bool (b : Bool)
  deriving DecidableEq, Repr

/-- Ground value: an atom or a set of atoms (list representation, as in Go). -/
inductive Val
  | atom (a : Atom)
  | set (l : List Atom)
  deriving DecidableEq, Repr

/-- Go's `TermType` of a ground value (datalog.go:16-24). -/
inductive VType
  | integer | string | date | bytes | bool | set
  deriving DecidableEq, Repr

def Atom.type : Atom → VType
  | .int _ => .integer
  | .str _ => .string
  | .date _ => .date
  | .bytes _ => .bytes
  | .bool _ => .bool

def Val.type : Val → VType
  | .atom a => a.type
  | .set _ => .set

/-- Term of a predicate: a variable (by name) or a constant. Generic in the value
type so that the engine theorems hold for any value domain with decidable
equality. -/
inductive Term (V : Type)
  | var (n : Bytes)
  | const (v : V)
  deriving DecidableEq, Repr

/-! ### Set operations, as the Go code computes them on lists -/

/-- `Set.Equal` (datalog.go:32-52, after the repair of D2/D3): equal lengths and
containment in both directions, by element-wise `Equal`. -/
def setEqual (s c : List Atom) : Bool :=
  s.length == c.length && s.all (fun x => c.contains x) && c.all (fun x => s.contains x)

/-- `Set.Equal` as pinned: equal lengths + containment of `s` in `c` through a
`map[Term]`; a `Bytes` key panics (D2), repeated elements make it asymmetric (D3). -/
def setEqualPinned (s c : List Atom) : Outcome Bool :=
  if s.length != c.length then .ok false
  else if c.any (fun x => x.type == .bytes) then .panic .unhashableSetKey
  else if s.any (fun x => x.type == .bytes) then .panic .unhashableSetKey
  else .ok (s.all (fun x => c.contains x))

/-- `Set.Intersect`: elements of `s` that are in `t`, in `s`'s order. -/
def setIntersect (s t : List Atom) : List Atom := s.filter (fun x => t.contains x)

/-- `Set.Union`: `s` followed by the elements of `t` not in `s`. -/
def setUnion (s t : List Atom) : List Atom := s ++ t.filter (fun x => !s.contains x)

/-- Set inclusion used by `contains(Set, Set)` (expressions.go:473-487). -/
def setIncludes (s sub : List Atom) : Bool := sub.all (fun x => s.contains x)

/-! ### Byte-string operations (Go `strings.*` on the resolved symbols) -/

def bytesContains : Bytes → Bytes → Bool
  | [], sub => sub.isEmpty
  | (x :: xs), sub => sub.isPrefixOf (x :: xs) || bytesContains xs sub

end Biscuit
