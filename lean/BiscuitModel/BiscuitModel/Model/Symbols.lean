/-
Model/Symbols — interning between string-level content and index-level wire content
(datalog/symbol.go, types.go convert / fromDatalog*, builder.go).

`symInsert`, `symStr` follow `SymbolTable.Insert` / `Str`; `intern*` follow the
`convert` methods in the order the Go code interns (terms before the predicate
name; body, then expressions, then head); `resolve*` is the *independent decoder*
of C07: it reads an index through the published default table (below 1024) or
through the symbols declared so far (from 1024), and fails on anything else.
-/
import BiscuitModel.Model.Wire
import BiscuitModel.Model.Authorizer

namespace Biscuit
open Wire

def strBytes (s : String) : Bytes := s.toUTF8.toList

/-- The published default symbol table (biscuit specification; datalog/symbol.go:9-38).
Tied to the code by `Generated.defaultSymbols`. -/
def defaultSymbolNames : List String :=
  ["read", "write", "resource", "operation", "right", "time", "role", "owner", "tenant",
   "namespace", "user", "team", "service", "admin", "email", "group", "member", "ip_address",
   "client", "client_ip", "domain", "path", "version", "cluster", "node", "hostname", "nonce", "query"]

def defaultSymbols : List Bytes := defaultSymbolNames.map strBytes

/-- Indexes of per-token symbols start here. -/
def symOffset : Nat := 1024

abbrev SymTable := List Bytes

/-- `SymbolTable.Str` within its defined domain; `none` = "<invalid symbol>". -/
def symStr (t : SymTable) (i : Nat) : Option Bytes :=
  if i < symOffset then defaultSymbols[i]? else t[i - symOffset]?

/-- `SymbolTable.Sym`: index of a string, if interned. -/
def symIndex (t : SymTable) (s : Bytes) : Option Nat :=
  match defaultSymbols.idxOf? s with
  | some i => some i
  | none => (t.idxOf? s).map (· + symOffset)

/-- `SymbolTable.Insert` (symbol.go:44-59). -/
def symInsert (t : SymTable) (s : Bytes) : SymTable × Nat :=
  match symIndex t s with
  | some i => (t, i)
  | none => (t ++ [s], symOffset + t.length)

/-! ### Operator codes: the published enum numbering of pb/biscuit.proto -/

def unaryCode : UnOp → Nat
  | .negate => 0 | .parens => 1 | .length => 2

def unaryOfCode : Nat → Option UnOp
  | 0 => some .negate | 1 => some .parens | 2 => some .length | _ => none

def binaryCode : BinOp → Nat
  | .lt => 0 | .gt => 1 | .le => 2 | .ge => 3 | .eq => 4 | .contains => 5 | .pfx => 6 | .sfx => 7
  | .regex => 8 | .add => 9 | .sub => 10 | .mul => 11 | .div => 12 | .and => 13 | .or => 14
  | .intersection => 15 | .union => 16

def binaryOfCode : Nat → Option BinOp
  | 0 => some .lt | 1 => some .gt | 2 => some .le | 3 => some .ge | 4 => some .eq | 5 => some .contains
  | 6 => some .pfx | 7 => some .sfx | 8 => some .regex | 9 => some .add | 10 => some .sub
  | 11 => some .mul | 12 => some .div | 13 => some .and | 14 => some .or | 15 => some .intersection
  | 16 => some .union | _ => none

/-! ### Interning (string level → index level), in the code's order -/

def internAtom (t : SymTable) : Atom → SymTable × IAtom
  | .int i => (t, .integer i)
  | .str s => let r := symInsert t s; (r.1, .string r.2)
  | .date d => (t, .date d)
  | .bytes b => (t, .bytes b)
  | .bool b => (t, .bool b)

def internAtoms (t : SymTable) : List Atom → SymTable × List IAtom
  | [] => (t, [])
  | a :: as =>
    let r := internAtom t a
    let rs := internAtoms r.1 as
    (rs.1, r.2 :: rs.2)

def internTerm (t : SymTable) : Term Val → SymTable × ITerm
  | .var n => let r := symInsert t n; (r.1, .atom (.variable r.2))
  | .const (.atom a) => let r := internAtom t a; (r.1, .atom r.2)
  | .const (.set l) => let r := internAtoms t l; (r.1, .set r.2)

def internTerms (t : SymTable) : List (Term Val) → SymTable × List ITerm
  | [] => (t, [])
  | x :: xs =>
    let r := internTerm t x
    let rs := internTerms r.1 xs
    (rs.1, r.2 :: rs.2)

/-- `Predicate.convert` (types.go:486-496): terms first, then the name. -/
def internPred (t : SymTable) (p : Pred Val) : SymTable × IPred :=
  let r := internTerms t p.terms
  let n := symInsert r.1 p.name
  (n.1, { name := n.2, terms := r.2 })

def internFact (t : SymTable) (f : Fact Val) : SymTable × IPred :=
  internPred t { name := f.name, terms := f.args.map Term.const }

def internPreds (t : SymTable) : List (Pred Val) → SymTable × List IPred
  | [] => (t, [])
  | p :: ps =>
    let r := internPred t p
    let rs := internPreds r.1 ps
    (rs.1, r.2 :: rs.2)

def internOp (t : SymTable) : Op → SymTable × IOp
  | .value x => let r := internTerm t x; (r.1, .value r.2)
  | .unary u => (t, .unary (unaryCode u))
  | .binary b => (t, .binary (binaryCode b))

def internExpr (t : SymTable) : List Op → SymTable × List IOp
  | [] => (t, [])
  | o :: os =>
    let r := internOp t o
    let rs := internExpr r.1 os
    (rs.1, r.2 :: rs.2)

def internExprs (t : SymTable) : List Expr → SymTable × List (List IOp)
  | [] => (t, [])
  | e :: es =>
    let r := internExpr t e
    let rs := internExprs r.1 es
    (rs.1, r.2 :: rs.2)

/-- `Rule.convert` (types.go:181-197): body, then expressions, then head. -/
def internRule (t : SymTable) (r : DRule) : SymTable × IRule :=
  let b := internPreds t r.body
  let e := internExprs b.1 r.exprs
  let h := internPred e.1 r.head
  (h.1, { head := h.2, body := b.2, exprs := e.2 })

def internRules (t : SymTable) : List DRule → SymTable × List IRule
  | [] => (t, [])
  | r :: rs =>
    let x := internRule t r
    let xs := internRules x.1 rs
    (xs.1, x.2 :: xs.2)

def internCheck (t : SymTable) (c : Check) : SymTable × ICheck :=
  let r := internRules t c.queries
  (r.1, { queries := r.2 })

def internChecks (t : SymTable) : List Check → SymTable × List ICheck
  | [] => (t, [])
  | c :: cs =>
    let x := internCheck t c
    let xs := internChecks x.1 cs
    (xs.1, x.2 :: xs.2)

def internFacts (t : SymTable) : List DFact → SymTable × List IPred
  | [] => (t, [])
  | f :: fs =>
    let x := internFact t f
    let xs := internFacts x.1 fs
    (xs.1, x.2 :: xs.2)

/-- A block as the caller supplies it to a builder: content plus context. -/
structure BlockContent where
  block : Block
  context : Bytes
  deriving DecidableEq, Repr

/-- What a (block) builder produces from a starting table: facts, then rules, then
checks are interned in that order; the block declares exactly the symbols that were
new (`SplitOff`), with version 3 (builder.go:121-141, 290-310). -/
def buildBlockMsg (start : SymTable) (c : BlockContent) : SymTable × BlockMsg :=
  let f := internFacts start c.block.facts
  let r := internRules f.1 c.block.rules
  let k := internChecks r.1 c.block.checks
  (k.1, { symbols := k.1.drop start.length, context := some c.context, version := some 3,
          facts := f.2, rules := r.2, checks := k.2 })

/-- All blocks of a token, the cumulative table threaded through. -/
def buildBlockMsgs (start : SymTable) : List BlockContent → List BlockMsg
  | [] => []
  | c :: cs => let r := buildBlockMsg start c; r.2 :: buildBlockMsgs r.1 cs

/-! ### Resolution (index level → string level): the independent decoder -/

def resolveAtom (t : SymTable) : IAtom → Option Atom
  | .variable _ => none
  | .integer i => some (.int i)
  | .string n => (symStr t n).map Atom.str
  | .date d => some (.date d)
  | .bytes b => some (.bytes b)
  | .bool b => some (.bool b)

def resolveTerm (t : SymTable) : ITerm → Option (Term Val)
  | .atom (.variable n) => (symStr t n).map Term.var
  | .atom a => (resolveAtom t a).map fun x => Term.const (.atom x)
  | .set l => (l.mapM (resolveAtom t)).map fun xs => Term.const (.set xs)

def resolvePred (t : SymTable) (p : IPred) : Option (Pred Val) := do
  let name ← symStr t p.name
  let terms ← p.terms.mapM (resolveTerm t)
  pure { name := name, terms := terms }

def termGround : Term Val → Option Val
  | .const v => some v
  | .var _ => none

def resolveFact (t : SymTable) (p : IPred) : Option DFact := do
  let q ← resolvePred t p
  let args ← q.terms.mapM termGround
  pure { name := q.name, args := args }

def resolveOp (t : SymTable) : IOp → Option Op
  | .value x => (resolveTerm t x).map Op.value
  | .unary k => (unaryOfCode k).map Op.unary
  | .binary k => (binaryOfCode k).map Op.binary

def resolveRule (t : SymTable) (r : IRule) : Option DRule := do
  let head ← resolvePred t r.head
  let body ← r.body.mapM (resolvePred t)
  let exprs ← r.exprs.mapM fun e => e.mapM (resolveOp t)
  pure { head := head, body := body, exprs := exprs }

def resolveCheck (t : SymTable) (c : ICheck) : Option Check := do
  let qs ← c.queries.mapM (resolveRule t)
  pure { queries := qs }

/-- Schema versions this decoder accepts (types.go:13-14; tied by `Generated`). -/
def minSchemaVersion : Nat := 3
def maxSchemaVersion : Nat := 3

/-- `protoBlockToTokenBlock`'s version gate (converters.go:64-77): an absent version reads as 0. -/
def versionOk (v : Option Nat) : Bool :=
  let n := v.getD 0
  decide (minSchemaVersion ≤ n) && decide (n ≤ maxSchemaVersion)

def resolveBlock (t : SymTable) (m : BlockMsg) : Option BlockContent := do
  if !versionOk m.version then none
  let facts ← m.facts.mapM (resolveFact t)
  let rules ← m.rules.mapM (resolveRule t)
  let checks ← m.checks.mapM (resolveCheck t)
  pure { block := { facts := facts, rules := rules, checks := checks }, context := m.context.getD [] }

/-- A block may declare only symbols that are neither default symbols nor declared by
an earlier block, and none twice. -/
def freshSymbols (t : SymTable) (new : List Bytes) : Bool :=
  new.all (fun s => !defaultSymbols.contains s && !t.contains s) && decide new.Nodup

/-- Decode all blocks in order: each block is resolved with the symbols declared by
itself and by earlier blocks only. -/
def resolveBlocks (t : SymTable) : List BlockMsg → Option (List BlockContent)
  | [] => some []
  | m :: ms =>
    if freshSymbols t m.symbols then
      match resolveBlock (t ++ m.symbols) m with
      | none => none
      | some c => (resolveBlocks (t ++ m.symbols) ms).map (c :: ·)
    else none

/-! ### Authorizer snapshots (`SerializePolicies` / `LoadPolicies`, authorizer.go:324-470) -/

def policyKindCode : PolicyKind → Nat
  | .allow => 0 | .deny => 1

def policyKindOfCode : Nat → Option PolicyKind
  | 0 => some .allow | 1 => some .deny | _ => none

def internPolicy (t : SymTable) (p : Policy) : SymTable × IPolicy :=
  let r := internRules t p.queries
  (r.1, { kind := policyKindCode p.kind, queries := r.2 })

def internPolicies (t : SymTable) : List Policy → SymTable × List IPolicy
  | [] => (t, [])
  | p :: ps =>
    let x := internPolicy t p
    let xs := internPolicies x.1 ps
    (xs.1, x.2 :: xs.2)

/-- What `SerializePolicies` writes for an authorizer whose facts, then rules were added
to a fresh authorizer: world facts and rules at index level, checks and policies interned
through the same table, the whole table, version 3. -/
def buildSnapshotMsg (snap : Snapshot) : PoliciesMsg :=
  let f := internFacts [] snap.facts
  let r := internRules f.1 snap.rules
  let c := internChecks r.1 snap.checks
  let p := internPolicies c.1 snap.policies
  { symbols := p.1, version := some 3, facts := f.2, rules := r.2, checks := c.2, policies := p.2 }

def resolvePolicy (t : SymTable) (p : IPolicy) : Option Policy := do
  let k ← policyKindOfCode p.kind
  let qs ← p.queries.mapM (resolveRule t)
  pure { kind := k, queries := qs }

/-- What `LoadPolicies` reads into a fresh authorizer (its base table is empty, so the
saved table is adopted as is; a saved table with a default symbol or a duplicate would be
re-indexed by `Extend`, so it is rejected here). -/
def resolveSnapshot (m : PoliciesMsg) : Option Snapshot := do
  if m.version ≠ some 3 then none
  if !freshSymbols [] m.symbols then none
  let facts ← m.facts.mapM (resolveFact m.symbols)
  let rules ← m.rules.mapM (resolveRule m.symbols)
  let checks ← m.checks.mapM (resolveCheck m.symbols)
  let policies ← m.policies.mapM (resolvePolicy m.symbols)
  pure { facts := facts, rules := rules, checks := checks, policies := policies }

end Biscuit
