/-
Model/BuilderAlias — what a token shares with the builder that built it (finding D20).

`builderOptions.facts` is a POINTER to a fact set (`*datalog.FactSet`); the pinned `Build`
stored that same pointer in the token's authority block, the repaired `Build` stores a
pointer to a copy. Reference cells are modelled explicitly: a store is a list of cells, a
builder and a token each hold the index of the cell their facts live in.
-/
namespace Biscuit.BuilderAlias

variable {α : Type}

abbrev Store (α : Type) := List (List α)

structure Builder where
  facts : Nat          -- the cell `b.facts` points to
  deriving DecidableEq, Repr

structure Tok where
  facts : Nat          -- the cell the authority block's `facts` points to
  deriving DecidableEq, Repr

def cell (st : Store α) (i : Nat) : List α := st.getD i []

/-- `AddAuthorityFact`: insert into the set the builder points to (duplicates refused). -/
def addFact [DecidableEq α] (st : Store α) (b : Builder) (x : α) : Store α :=
  if x ∈ cell st b.facts then st else st.set b.facts (cell st b.facts ++ [x])

/-- Pinned `Build`: the token's block points at the builder's own set. -/
def buildShared (st : Store α) (b : Builder) : Store α × Tok := (st, { facts := b.facts })

/-- Repaired `Build`: the token's block points at a fresh cell holding a copy. -/
def buildCopy (st : Store α) (b : Builder) : Store α × Tok :=
  (st ++ [cell st b.facts], { facts := st.length })

/-- What a reader of the token sees. -/
def view (st : Store α) (t : Tok) : List α := cell st t.facts

/-- The builder's cell exists. -/
def Valid (st : Store α) (b : Builder) : Prop := b.facts < st.length

end Biscuit.BuilderAlias
