/-
Model/OdometerTie — the two concrete ingredients that surround the abstract odometer of
`Model/Odometer` inside `combine` (datalog/datalog.go:489-633):

* `goMatch`  — `Predicate.Match` (datalog.go:158-174), the test the odometer performs on
  `(*facts)[indexes[current]]` against `predicates[current]`;
* `unifyAll` — the "extract and check variables" step (datalog.go:537-560) executed each time
  the odometer stops: for each predicate in order, for each variable position, insert the
  fact's value, rejecting on an inconsistent binding;
* `table`    — the match table the odometer sees for a given fact list and rule body.
-/
import BiscuitModel.Model.Datalog

namespace Biscuit.Odometer
open Biscuit

variable {V : Type} [DecidableEq V]

/-- One position of `Predicate.Match`: a variable is a wildcard, a constant must be equal.
(Facts are ground, so only the predicate side can hold a variable.) -/
def termMatch : Term V → V → Bool
  | .const c, v => c = v
  | .var _, _ => true

/-- `Predicate.Match` (datalog.go:158-174): same name, same arity, constants equal; variables
are wildcards. -/
def goMatch (p : Pred V) (f : Fact V) : Bool :=
  p.name = f.name && p.terms.length = f.args.length &&
    (p.terms.zip f.args).all (fun tv => termMatch tv.1 tv.2)

/-- The extraction step after the odometer stops: bind variables predicate by predicate,
position by position; reject on an inconsistent binding. -/
def unifyAll : List (Pred V) → List (Fact V) → Bindings V → Option (Bindings V)
  | [], [], σ => some σ
  | p :: ps, f :: fs, σ =>
    match unifyPred p f σ with
    | some σ' => unifyAll ps fs σ'
    | none => none
  | _, _, _ => none

/-- The match table seen by the odometer: `table facts preds i j` iff fact `j` matches body
predicate `i`. -/
def table (facts : List (Fact V)) (preds : List (Pred V)) : Nat → Nat → Bool :=
  fun i j =>
    match preds[i]?, facts[j]? with
    | some p, some f => goMatch p f
    | _, _ => false

end Biscuit.Odometer
