/-
Model/Printer — what the library prints for a block inside a token
(types.go:29-87 `Block.Code`, datalog/symbol.go:169-236 `SymbolDebugger`,
datalog/expressions.go:87-149, 178-191, 267-308 `Expression.Print`).

Two printers:
* `print*` (characters): the text of `Biscuit.Code()` for a block, symbols resolved;
  compared with the library's output by the PRINT verb.
* `printToks` (tokens): the same string-stack machine producing lexer tokens instead of
  characters — the level at which `print ∘ parse` theorems are stated (C15).
-/
import BiscuitModel.Model.Grammar

namespace Biscuit.Printer
open Biscuit Biscuit.Grammar

def charsOfBytes (b : Bytes) : List Char := (String.fromUTF8! (ByteArray.mk b.toArray)).toList

def natDigits (n : Nat) : List Char := (toString n).toList

def pad2 (n : Nat) : List Char := if n < 10 then '0' :: natDigits n else natDigits n
def pad4 (n : Nat) : List Char :=
  if n < 10 then '0' :: '0' :: '0' :: natDigits n
  else if n < 100 then '0' :: '0' :: natDigits n
  else if n < 1000 then '0' :: natDigits n
  else natDigits n

/-- Civil date of a day count since 1970-01-01 (Hinnant's `civil_from_days`), for days ≥ 0. -/
def civilFromDays (z : Nat) : Nat × Nat × Nat :=
  let z := z + 719468
  let era := z / 146097
  let doe := z - era * 146097
  let yoe := (doe - doe / 1460 + doe / 36524 - doe / 146096) / 365
  let y := yoe + era * 400
  let doy := doe - (365 * yoe + yoe / 4 - yoe / 100)
  let mp := (5 * doy + 2) / 153
  let d := doy - (153 * mp + 2) / 5 + 1
  let m := if mp < 10 then mp + 3 else mp - 9
  (if m ≤ 2 then y + 1 else y, m, d)

/-- `time.Unix(d, 0).UTC().Format(time.RFC3339)` for dates from 1970 on. -/
def printDate (secs : Nat) : List Char :=
  let days := secs / 86400
  let rem := secs % 86400
  let (y, m, d) := civilFromDays days
  pad4 y ++ ['-'] ++ pad2 m ++ ['-'] ++ pad2 d ++ ['T'] ++ pad2 (rem / 3600) ++ [':'] ++ pad2 (rem % 3600 / 60) ++ [':'] ++ pad2 (rem % 60) ++ ['Z']

def hexChar (n : Nat) : Char := if n < 10 then Char.ofNat ('0'.toNat + n) else Char.ofNat ('a'.toNat + n - 10)

def printHex (b : Bytes) : List Char := b.flatMap fun x => [hexChar (x.toNat / 16), hexChar (x.toNat % 16)]

def printInt (i : Int) : List Char := (toString i).toList

/-- A term as `SymbolDebugger.Predicate` / `Expression.Print` print it. Strings are quoted
without escaping. Sets print their elements sorted by their printed form; a string inside
a set would print as its symbol index (`#1024`), which is outside the printable domain. -/
def printAtom : Atom → List Char
  | .int i => printInt i
  | .str s => ['"'] ++ charsOfBytes s ++ ['"']
  | .date d => printDate d
  | .bytes b => "hex:".toList ++ printHex b
  | .bool true => "true".toList
  | .bool false => "false".toList

def insertSortedC (x : List Char) : List (List Char) → List (List Char)
  | [] => [x]
  | y :: ys => if String.ofList x ≤ String.ofList y then x :: y :: ys else y :: insertSortedC x ys

def sortC (l : List (List Char)) : List (List Char) := l.foldl (fun acc x => insertSortedC x acc) []

def joinC (sep : List Char) : List (List Char) → List Char
  | [] => []
  | [x] => x
  | x :: xs => x ++ sep ++ joinC sep xs

def printTerm : Term Val → List Char
  | .var n => '$' :: charsOfBytes n
  | .const (.atom a) => printAtom a
  | .const (.set l) => ['['] ++ joinC ", ".toList (sortC (l.map printAtom)) ++ [']']

def printPred (p : Pred Val) : List Char :=
  charsOfBytes p.name ++ ['('] ++ joinC ", ".toList (p.terms.map printTerm) ++ [')']

def printUnary (u : UnOp) (v : List Char) : List Char :=
  match u with
  | .negate => '!' :: v
  | .parens => ['('] ++ v ++ [')']
  | .length => v ++ ".length()".toList

def binSymbol : BinOp → Option (List Char)
  | .lt => some "<".toList | .le => some "<=".toList | .gt => some ">".toList | .ge => some ">=".toList
  | .eq => some "==".toList | .add => some "+".toList | .sub => some "-".toList | .mul => some "*".toList
  | .div => some "/".toList | .and => some "&&".toList | .or => some "||".toList
  | _ => none

def methodName : BinOp → List Char
  | .contains => "contains".toList | .pfx => "starts_with".toList | .sfx => "ends_with".toList
  | .regex => "matches".toList | .intersection => "intersection".toList | .union => "union".toList
  | _ => []

def printBinary (b : BinOp) (l r : List Char) : List Char :=
  match binSymbol b with
  | some s => l ++ [' '] ++ s ++ [' '] ++ r
  | none => l ++ ['.'] ++ methodName b ++ ['('] ++ r ++ [')']

/-- `Expression.Print`: the string stack machine; `none` = "<invalid expression …>". -/
def printOps : List Op → List (List Char) → Option (List Char)
  | [], [v] => some v
  | [], _ => none
  | .value t :: ops, st => printOps ops (printTerm t :: st)
  | .unary u :: ops, v :: st => printOps ops (printUnary u v :: st)
  | .unary _ :: _, [] => none
  | .binary b :: ops, r :: l :: st => printOps ops (printBinary b l r :: st)
  | .binary _ :: _, _ => none

def printExpr (e : Expr) : List Char := (printOps e []).getD "<invalid expression>".toList

/-- `preds, exprs` with the separator rule of symbol.go:181-184. -/
def printBody (body : List (Pred Val)) (exprs : List Expr) : List Char :=
  let ps := joinC ", ".toList (body.map printPred)
  let es := joinC ", ".toList (exprs.map printExpr)
  ps ++ (if !body.isEmpty && !exprs.isEmpty then ", ".toList else []) ++ es

def printRule (r : DRule) : List Char := printPred r.head ++ " <- ".toList ++ printBody r.body r.exprs

def printCheck (c : Check) : List Char :=
  "check if ".toList ++ joinC " or ".toList (c.queries.map fun q => printBody q.body q.exprs)

/-- `Block.Code` (types.go:29-54). -/
def printBlockCode (facts : List (Pred Val)) (rules : List DRule) (checks : List Check) : List Char :=
  "Block {\n\t\t".toList ++ joinC ";\n".toList (facts.map printPred) ++ "\n\t\t".toList ++
  joinC ";\n".toList (rules.map printRule) ++ "\n\t\t".toList ++
  joinC ";\n".toList (checks.map printCheck) ++ "\n\t}".toList

/-! ## Token level -/

def renderTermToks : PTerm → List Tok
  | .param n => [.param n]
  | .var n => [.var n]
  | .int ds => [.int ds]
  | .negInt ds => [.op "-", .int ds]
  | .str s => [.str s]
  | .date s => [.date s]
  | .bytes ds => [.hex ds]
  | .bool b => [.bool b]
  | .set elts => [.punct '['] ++ joinToks (elts.map fun t => match t with
      | .param n => [Tok.param n] | .var n => [.var n] | .int ds => [.int ds]
      | .negInt ds => [.op "-", .int ds] | .str s => [.str s]
      | .date s => [.date s] | .bytes ds => [.hex ds] | .bool b => [.bool b] | .set _ => []) ++ [.punct ']']
where
  joinToks : List (List Tok) → List Tok
    | [] => []
    | [x] => x
    | x :: xs => x ++ [.punct ','] ++ joinToks xs

def binTok : BinOp → Option Tok
  | .lt => some (.op "<") | .le => some (.op "<=") | .gt => some (.op ">") | .ge => some (.op ">=")
  | .eq => some (.op "==") | .add => some (.op "+") | .sub => some (.op "-") | .mul => some (.op "*")
  | .div => some (.punct '/') | .and => some .andOp | .or => some .orOp
  | _ => none

def methodTok : BinOp → Tok
  | .contains => .func "contains" | .pfx => .ident "starts_with" | .sfx => .ident "ends_with"
  | .regex => .func "matches" | .intersection => .ident "intersection" | .union => .ident "union"
  | _ => .ident "?"

/-- Minimal rendering of an expression tree: parentheses only where the tree has explicit
`paren` nodes. -/
def renderToks : PExpr → List Tok
  | .term t => renderTermToks t
  | .paren e => [.punct '('] ++ renderToks e ++ [.punct ')']
  | .neg e => .punct '!' :: renderToks e
  | .bin op l r => renderToks l ++ (match binTok op with | some t => [t] | none => []) ++ renderToks r
  | .method op recv arg => renderToks recv ++ [.dot, methodTok op, .punct '('] ++ renderToks arg ++ [.punct ')']
  | .length recv => renderToks recv ++ [.dot, .func "length", .punct '(', .punct ')']

def printUnaryToks (u : UnOp) (v : List Tok) : List Tok :=
  match u with
  | .negate => .punct '!' :: v
  | .parens => [.punct '('] ++ v ++ [.punct ')']
  | .length => v ++ [.dot, .func "length", .punct '(', .punct ')']

def printBinaryToks (b : BinOp) (l r : List Tok) : List Tok :=
  match binTok b with
  | some t => l ++ [t] ++ r
  | none => l ++ [.dot, methodTok b, .punct '('] ++ r ++ [.punct ')']

/-- The string-stack machine of `Expression.Print`, on tokens. -/
def printToks : List POp → List (List Tok) → Option (List Tok)
  | [], [v] => some v
  | [], _ => none
  | .value t :: ops, st => printToks ops (renderTermToks t :: st)
  | .unary u :: ops, v :: st => printToks ops (printUnaryToks u v :: st)
  | .unary _ :: _, [] => none
  | .binary b :: ops, r :: l :: st => printToks ops (printBinaryToks b l r :: st)
  | .binary _ :: _, _ => none

end Biscuit.Printer
