/-
Model/Construct — what the token layer does to caller-supplied content before it reaches
the engine: `biscuit.Set.convert` (types.go) and the wire decoder (converters_v2.go, set case)
add an element to a set only when it is absent, so engine-level sets hold each element once
(first occurrence kept, order otherwise as written).

The engine-level operators (Model/Value: setEqual, setIntersect, setUnion, length) are
defined on raw lists, exactly as datalog.Set is a raw slice; the normalisation below is
applied by the driver to every biscuit-level case (AUTHSEQ), never to engine-level cases
(EXPR, RUN, QUERY), mirroring where the library applies it.
-/
import BiscuitModel.Model.Authorizer

namespace Biscuit.Construct
open Biscuit

/-- `appendSetElement` folded over the written elements. -/
def dedup : List Atom → List Atom
  | [] => []
  | x :: xs => x :: (dedup xs).filter (· != x)

/-! A set is a value up to the order of its elements: `Set.Equal` (used by unification and
by fact de-duplication) and every set operator are insensitive to it. The engine model
compares values structurally, so the construction step also picks the canonical
representative — elements sorted by an injective key. That the library's behaviour does not
depend on the written order is what the correspondence checks (generators emit sets in
arbitrary order). -/

def atomKey : Atom → List Nat
  | .int i => [0, if i < 0 then 0 else 1, i.natAbs]   -- injective; the order need not be numeric
  | .str s => 1 :: s.map (·.toNat)
  | .date d => [2, d]
  | .bytes b => 3 :: b.map (·.toNat)
  | .bool b => [4, if b then 1 else 0]

/-- Lexicographic `≤` on keys. -/
def keyLe : List Nat → List Nat → Bool
  | [], _ => true
  | _ :: _, [] => false
  | x :: xs, y :: ys => x < y || (x == y && keyLe xs ys)

def atomLe (a b : Atom) : Bool := keyLe (atomKey a) (atomKey b)

def insertSorted (a : Atom) : List Atom → List Atom
  | [] => [a]
  | b :: bs => if atomLe a b then a :: b :: bs else b :: insertSorted a bs

def sortAtoms : List Atom → List Atom
  | [] => []
  | a :: as => insertSorted a (sortAtoms as)

/-- Canonical representative of the set written as `l`. -/
def canon (l : List Atom) : List Atom := sortAtoms (dedup l)

def normVal : Val → Val
  | .set l => .set (canon l)
  | v => v

def normTerm : Term Val → Term Val
  | .const v => .const (normVal v)
  | t => t

def normPred (p : Pred Val) : Pred Val := { p with terms := p.terms.map normTerm }

def normFact (f : DFact) : DFact := { f with args := f.args.map normVal }

def normOp : Op → Op
  | .value t => .value (normTerm t)
  | o => o

def normRule (r : DRule) : DRule :=
  { head := normPred r.head, body := r.body.map normPred, exprs := r.exprs.map (·.map normOp) }

def normCheck (c : Check) : Check := { queries := c.queries.map normRule }
def normPolicy (p : Policy) : Policy := { p with queries := p.queries.map normRule }

def normBlock (b : Block) : Block :=
  { facts := insertAll [] (b.facts.map normFact), rules := b.rules.map normRule, checks := b.checks.map normCheck }

def normToken (t : Token) : Token :=
  { authority := normBlock t.authority, blocks := t.blocks.map normBlock }

def normSnapshot (s : Snapshot) : Snapshot :=
  { facts := insertAll [] (s.facts.map normFact), rules := s.rules.map normRule,
    checks := s.checks.map normCheck, policies := s.policies.map normPolicy }

def normAuthOp : AuthOp → AuthOp
  | .addFact f => .addFact (normFact f)
  | .addRule r => .addRule (normRule r)
  | .addCheck c => .addCheck (normCheck c)
  | .addPolicy p => .addPolicy (normPolicy p)
  | .query q => .query (normRule q)
  | .loadSnap s => .loadSnap (normSnapshot s)
  | op => op

end Biscuit.Construct
