/-
Model/Pipeline — the whole untrusted-input path of C10 as one total function:
bytes → `Unmarshal` → chain walk → symbol resolution → `Authorize`, with every place
where the Go code can panic on this path represented as an explicit `Outcome.panic`:

* `SymbolTable.Str` / `Var` on an index from the token (datalog/symbol.go:91-117):
  `pinnedStr = true` is the pinned code, where `int(sym)` of an index ≥ 2^63 is negative
  and indexes the default table out of range (D5);
* `ed25519.NewKeyFromSeed` on the next secret (biscuit.go:375-386): `pinnedSeed = true` is
  the pinned code, which did not check the length (D6);
* the set operations of the expression machine (`EvalCfg.sets`, D2) — inside `eval`;
* operator messages without kind are rejected by `Model/Unmarshal` (repaired converters).

Out-of-range symbol indexes are not an error in the Go code: they print and resolve as
"<invalid symbol N>". `resolve*L` follows that, so that evaluation of EVERY decodable token
is modelled, not only of well-formed ones. (Facts containing variables — reachable only
from crafted bytes — are evaluated by the Go engine with the variable as a wildcard; here
the variable is resolved like a string constant of its name. This affects which facts
match, not whether anything panics.)
-/
import BiscuitModel.Model.Unmarshal

namespace Biscuit
open Wire

def invalidSymbol (i : Nat) : Bytes := strBytes ("<invalid symbol " ++ toString i ++ ">")

/-- `SymbolTable.Str` on any 64-bit index. -/
def symStrGo (pinnedStr : Bool) (t : SymTable) (i : Nat) : Outcome Bytes :=
  if pinnedStr && decide (i ≥ 2^63) then .panic .symbolIndexNegative
  else .ok ((symStr t i).getD (invalidSymbol i))

def resolveAtomL (p : Bool) (t : SymTable) : IAtom → Outcome Atom
  | .variable n => (symStrGo p t n).bind fun s => .ok (.str s)
  | .integer i => .ok (.int i)
  | .string n => (symStrGo p t n).bind fun s => .ok (.str s)
  | .date d => .ok (.date d)
  | .bytes b => .ok (.bytes b)
  | .bool b => .ok (.bool b)

def mapMOutcome {α β : Type} (f : α → Outcome β) : List α → Outcome (List β)
  | [] => .ok []
  | x :: xs => (f x).bind fun y => (mapMOutcome f xs).bind fun ys => .ok (y :: ys)

def resolveTermL (p : Bool) (t : SymTable) : ITerm → Outcome (Term Val)
  | .atom (.variable n) => (symStrGo p t n).bind fun s => .ok (.var s)
  | .atom a => (resolveAtomL p t a).bind fun x => .ok (.const (.atom x))
  | .set l => (mapMOutcome (resolveAtomL p t) l).bind fun xs => .ok (.const (.set xs))

def resolvePredL (p : Bool) (t : SymTable) (q : IPred) : Outcome (Pred Val) :=
  (symStrGo p t q.name).bind fun name =>
  (mapMOutcome (resolveTermL p t) q.terms).bind fun terms => .ok { name := name, terms := terms }

/-- Facts: a variable term is kept as a constant carrying its name (see the header). -/
def groundTerm : Term Val → Val
  | .const v => v
  | .var n => .atom (.str n)

def resolveFactL (p : Bool) (t : SymTable) (q : IPred) : Outcome DFact :=
  (resolvePredL p t q).bind fun r => .ok { name := r.name, args := r.terms.map groundTerm }

def resolveOpL (p : Bool) (t : SymTable) : IOp → Outcome Op
  | .value x => (resolveTermL p t x).bind fun y => .ok (.value y)
  | .unary k => .ok (.unary ((unaryOfCode k).getD .parens))
  | .binary k => .ok (.binary ((binaryOfCode k).getD .eq))

def resolveRuleL (p : Bool) (t : SymTable) (r : IRule) : Outcome DRule :=
  (resolvePredL p t r.head).bind fun head =>
  (mapMOutcome (resolvePredL p t) r.body).bind fun body =>
  (mapMOutcome (fun e => mapMOutcome (resolveOpL p t) e) r.exprs).bind fun exprs =>
  .ok { head := head, body := body, exprs := exprs }

def resolveCheckL (p : Bool) (t : SymTable) (c : ICheck) : Outcome Check :=
  (mapMOutcome (resolveRuleL p t) c.queries).bind fun qs => .ok { queries := qs }

def resolveBlockL (p : Bool) (t : SymTable) (m : BlockMsg) : Outcome Block :=
  (mapMOutcome (resolveFactL p t) m.facts).bind fun facts =>
  (mapMOutcome (resolveRuleL p t) m.rules).bind fun rules =>
  (mapMOutcome (resolveCheckL p t) m.checks).bind fun checks =>
  .ok { facts := insertAll [] facts, rules := rules, checks := checks }

/-- The token's cumulative table (builder.go:151-210), then every block resolved through it. -/
def resolveTokenL (p : Bool) (msgs : List BlockMsg) : Outcome (List Block) :=
  let table := msgs.foldl (fun acc m => extendTable acc m.symbols) []
  mapMOutcome (resolveBlockL p table) msgs

/-- The closing proof with the seed-length panic of the pinned code made explicit. -/
def verifyProofGo (pinnedSeed : Bool) (S : SigScheme) (current : Bytes) (e : BiscuitMsg) : Outcome (Except Reject Unit) :=
  match e.proof with
  | .nextSecret sk =>
    if sk.length ≠ 32 then (if pinnedSeed then .panic .badSeedLength else .ok (.error .keySize))
    else .ok (if S.pub sk = current then .ok () else .error .proof)
  | _ => .ok (verifyProof S current e)

inductive Final
  | rejected (r : Reject)
  | verdict (v : Verdict)
  deriving DecidableEq, Repr

/-- Decode, verify, resolve, authorize. -/
def pipeline (pinnedStr pinnedSeed : Bool) (S : SigScheme) (cfg : EvalCfg) (root : Bytes) (bs : Bytes)
    (s : AuthState) : Outcome Final :=
  match unmarshal bs with
  | .error r => .ok (.rejected r)
  | .ok p =>
    if root.isEmpty then .ok (.rejected .noKey) else
    match verifyLinks S root (p.envelope.authority :: p.envelope.blocks) with
    | .error r => .ok (.rejected r)
    | .ok current =>
      (verifyProofGo pinnedSeed S current p.envelope).bind fun pr =>
      match pr with
      | .error r => .ok (.rejected r)
      | .ok () =>
        (resolveTokenL pinnedStr p.blocks).bind fun blocks =>
        match blocks with
        | [] => .ok (.rejected .format)
        | a :: rest =>
          match (authorize cfg { authority := a, blocks := rest } s).2 with
          | .runError (.panic site) => .panic site
          | v => .ok (.verdict v)

/-- Printing a token (`String`, `Code`): every symbol of every block goes through `Str`. -/
def printOutcome (pinnedStr : Bool) (bs : Bytes) : Outcome Unit :=
  match unmarshal bs with
  | .error _ => .ok ()
  | .ok p => (resolveTokenL pinnedStr p.blocks).bind fun _ => .ok ()

end Biscuit
