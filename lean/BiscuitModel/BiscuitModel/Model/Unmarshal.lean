/-
Model/Unmarshal — `biscuit.Unmarshal` on bytes (builder.go:151-210, converters.go:57-120,
converters_v2.go), in the code's order: envelope, then per signed block the size gates,
the block message, the version gate and the term/operator conversions; and the whole
decode → verify pipeline `acceptBytes`.
-/
import BiscuitModel.Model.Token
import BiscuitModel.Model.Symbols

namespace Biscuit
open Wire

def opKindsValid (e : List IOp) : Bool :=
  e.all fun o => match o with
    | .value _ => true
    | .unary k => (unaryOfCode k).isSome
    | .binary k => (binaryOfCode k).isSome

def ruleKindsValid (r : IRule) : Bool := r.exprs.all opKindsValid

/-- Unknown operator kinds never survive decoding (closed proto2 enums leave the required
field unset; the converters reject unknown kinds). -/
def blockKindsValid (m : BlockMsg) : Bool :=
  m.rules.all ruleKindsValid && m.checks.all (fun c => c.queries.all ruleKindsValid)

/-- Decode one block message and apply the version gate. -/
def parseBlock (bs : Bytes) : Except Reject BlockMsg :=
  match decodeBlock bs with
  | none => .error .format
  | some m => if versionOk m.version && blockKindsValid m then .ok m else .error .format

def parseSigned (sb : SignedBlockMsg) : Except Reject BlockMsg := do
  sizeGate sb
  parseBlock sb.block

def parseAll : List SignedBlockMsg → Except Reject (List BlockMsg)
  | [] => .ok []
  | sb :: rest =>
    match parseSigned sb with
    | .error e => .error e
    | .ok m => match parseAll rest with
      | .error e => .error e
      | .ok ms => .ok (m :: ms)

/-! ### Declared symbols (builder.go `checkDeclaredSymbols`)

Every string index and every variable number of a block must be declared by the time the block is read: by the
default table, by an earlier block, or by the block itself. `Extend` skips strings that
are already known, exactly as `SymbolTable.Insert` does. -/

def extendTable (t : SymTable) (new : List Bytes) : SymTable :=
  new.foldl (fun t s => (symInsert t s).1) t

def symDeclared (t : SymTable) (i : Nat) : Bool := (symStr t i).isSome

def atomDeclared (t : SymTable) : IAtom → Bool
  | .string i => symDeclared t i
  | .variable i => symDeclared t i   -- variable names live in the same table
  | _ => true

def termDeclared (t : SymTable) : ITerm → Bool
  | .atom a => atomDeclared t a
  | .set l => l.all (atomDeclared t)

def predDeclared (t : SymTable) (p : IPred) : Bool :=
  symDeclared t p.name && p.terms.all (termDeclared t)

def ruleDeclared (t : SymTable) (r : IRule) : Bool :=
  predDeclared t r.head && r.body.all (predDeclared t) &&
  r.exprs.all fun e => e.all fun o => match o with | .value v => termDeclared t v | _ => true

def blockDeclared (t : SymTable) (m : BlockMsg) : Bool :=
  m.facts.all (predDeclared t) && m.rules.all (ruleDeclared t) &&
  m.checks.all fun c => c.queries.all (ruleDeclared t)

/-- All blocks in order, the table growing as `Unmarshal` extends it. -/
def blocksDeclared (t : SymTable) : List BlockMsg → Bool
  | [] => true
  | m :: ms => let t' := extendTable t m.symbols; blockDeclared t' m && blocksDeclared t' ms

/-- What `New` (over table `tbl`) and `Append` (to a token whose table is `tbl`) answer for a
block (biscuit.go `newBiscuit`, `Append`): `IsDisjoint` first — the block may not declare a
string the table already holds —, then the declared-symbols rule over the extended table. -/
inductive GateAnswer where
  | ok | overlap | undeclared
  deriving DecidableEq, Repr

def gateAnswer (tbl : SymTable) (m : BlockMsg) : GateAnswer :=
  if m.symbols.any (fun s => tbl.contains s) then .overlap
  else if blocksDeclared tbl [m] then .ok else .undeclared

structure Parsed where
  envelope : BiscuitMsg
  blocks : List BlockMsg       -- authority first
  deriving Repr

/-- `Unmarshal`. (An algorithm tag other than Ed25519 = 0 is not looked at here: the
chain walk rejects it, `verifyLink`.) -/
def unmarshalFrom (base : SymTable) (bs : Bytes) : Except Reject Parsed :=
  match decodeBiscuit bs with
  | none => .error .format
  | some e =>
    match parseAll (e.authority :: e.blocks) with
    | .error r => .error r
    | .ok ms => if blocksDeclared base ms then .ok { envelope := e, blocks := ms } else .error .format

/-- The package-level `Unmarshal`: no caller-supplied base table (`Unmarshaler.Symbols`). -/
def unmarshal (bs : Bytes) : Except Reject Parsed := unmarshalFrom [] bs

/-- `Unmarshal` then `AuthorizerFor` under one root key. -/
def acceptBytes (S : SigScheme) (root : Bytes) (bs : Bytes) : Except Reject Parsed :=
  match unmarshal bs with
  | .error r => .error r
  | .ok p =>
    if root.isEmpty then .error .noKey
    else match verifyChain S root p.envelope with
      | .error r => .error r
      | .ok () => .ok p

/-- `Unmarshal` then `AuthorizerFor(WithRootPublicKeys(keys, dflt))`. -/
def acceptBytesWithKeys (S : SigScheme) (keys : List (Nat × Bytes)) (dflt : Option Bytes) (bs : Bytes) :
    Except Reject Parsed :=
  match unmarshal bs with
  | .error r => .error r
  | .ok p =>
    match selectKey p.envelope.rootKeyId keys dflt with
    | .error r => .error r
    | .ok k => match verifyChain S k p.envelope with
      | .error r => .error r
      | .ok () => .ok p

end Biscuit
