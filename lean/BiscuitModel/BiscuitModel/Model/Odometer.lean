/-
Model/Odometer — the join enumerator of `combine` (datalog/datalog.go:489-633) transcribed
literally: one fact index per body predicate, `current` = the predicate being looked at,
`advanceIndexes` with carry (616-633), the inner "look for the next matching set of facts"
loop (516-535) and the outer loop that emits at the "extract and check variables" point and
then advances (537-612).

Abstracted: `m i j` says whether fact `j` matches body predicate `i` in the sense of
`Predicate.Match` (name, arity, constants; variables are wildcards). What the machine
emits is the sequence of index tuples at which it reaches the extraction point.
-/
namespace Biscuit.Odometer

structure St where
  current : Nat
  indexes : List Nat
  deriving DecidableEq, Repr

/-- `advanceIndexes(&current, &indexes, facts)`: `none` = returned false (no more combinations).
The Go loop variable `i` always equals `*current`, so one recursion on `current`. -/
def advance (nfacts : Nat) : Nat → List Nat → Option St
  | cur, idx =>
    if idx.getD cur 0 < nfacts - 1 then some { current := cur, indexes := idx.set cur (idx.getD cur 0 + 1) }
    else match cur with
      | 0 => none
      | c + 1 => advance nfacts c (idx.set (c + 1) 0)

/-- The inner loop: move forward while the facts at the current indexes match, advancing on a
mismatch; stops at the last predicate with a full match (`some st`) or when the indexes are
exhausted (`none`). -/
def seek (m : Nat → Nat → Bool) (npreds nfacts : Nat) : Nat → St → Option St
  | 0, _ => none
  | fuel + 1, st =>
    if m st.current (st.indexes.getD st.current 0) then
      if st.current = npreds - 1 then some st
      else seek m npreds nfacts fuel { st with current := st.current + 1 }
    else match advance nfacts st.current st.indexes with
      | none => none
      | some st' => seek m npreds nfacts fuel st'

/-- The outer loop for a non-empty body over a non-empty fact list: seek, emit, advance. -/
def emitAll (m : Nat → Nat → Bool) (npreds nfacts : Nat) : Nat → St → List (List Nat)
  | 0, _ => []
  | fuel + 1, st =>
    match seek m npreds nfacts (fuel + 1) st with
    | none => []
    | some st' =>
      st'.indexes :: (match advance nfacts st'.current st'.indexes with
        | none => []
        | some st'' => emitAll m npreds nfacts fuel st'')

/-- Enough fuel for every run: each step of `seek` either moves `current` forward (at most
`npreds` times between advances) or advances the odometer (at most `nfacts ^ npreds` times). -/
def fuelFor (npreds nfacts : Nat) : Nat := (npreds + 1) * (nfacts + 1) ^ npreds + npreds + 1

/-- `combine`'s enumeration: nothing for a non-empty body over no facts; exactly one (empty)
combination for an empty body; otherwise the odometer from all-zero indexes. -/
def combos (m : Nat → Nat → Bool) (npreds nfacts : Nat) : List (List Nat) :=
  if npreds = 0 then [[]]
  else if nfacts = 0 then []
  else emitAll m npreds nfacts (fuelFor npreds nfacts) { current := 0, indexes := List.replicate npreds 0 }

/-- The specification: all index tuples, in lexicographic order, whose facts match
position-wise. -/
def tuples (m : Nat → Nat → Bool) (nfacts : Nat) : Nat → Nat → List (List Nat)
  | 0, _ => [[]]
  | k + 1, pos =>
    (List.range nfacts).flatMap fun j =>
      if m pos j then (tuples m nfacts k (pos + 1)).map (j :: ·) else []

def spec (m : Nat → Nat → Bool) (npreds nfacts : Nat) : List (List Nat) := tuples m nfacts npreds 0

end Biscuit.Odometer
