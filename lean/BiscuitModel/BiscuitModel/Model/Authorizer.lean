/-
Model/Authorizer — the authorizer state machine (authorizer.go), string level.

`authorize` follows `(*authorizer).Authorize` (authorizer.go:114-278) in the
code's own order: load authority facts and rules, run, evaluate the authorizer's
checks, the authority checks and the policies on the authority-level world,
then for each later block evaluate that block's checks in a copy of the
authority-level facts (without the authority-level rules) extended with the block's
facts and rules; the authorizer's own world keeps its rules (finding D28); collect
all check failures; a failure wins over the policy result.

Interning is invisible at this level: a `datalog.String` is the byte string it
resolves to (`Model/Symbols` carries the interning lemmas).

`pinnedReset := true` reproduces the pinned tree's overwrite of `baseWorld`
after a successful evaluation (authorizer.go:270-271, defect D9); the repaired
code is `pinnedReset := false`.
-/
import BiscuitModel.Model.Datalog

namespace Biscuit

abbrev DRule := Rule Val Expr
abbrev DFact := Fact Val

structure Check where
  queries : List DRule
  deriving DecidableEq, Repr

inductive PolicyKind | allow | deny
  deriving DecidableEq, Repr

structure Policy where
  kind : PolicyKind
  queries : List DRule
  deriving DecidableEq, Repr

structure Block where
  facts : List DFact
  rules : List DRule
  checks : List Check
  deriving DecidableEq, Repr

structure Token where
  authority : Block
  blocks : List Block
  deriving DecidableEq, Repr

/-- Attenuation: `Biscuit.Append`. -/
def Token.append (t : Token) (b : Block) : Token := { t with blocks := t.blocks ++ [b] }

structure Limits where
  maxFacts : Nat
  maxIter : Nat
  deriving DecidableEq, Repr

structure World where
  facts : List DFact
  rules : List DRule
  deriving DecidableEq, Repr

def World.empty : World := { facts := [], rules := [] }

/-- Identifier of a check: the authorizer's own `i`-th check, or check `i` of block
`b` (`b = 0` is the authority block), as in the error text of `Authorize`. -/
inductive CheckId
  | authorizer (i : Nat)
  | block (b i : Nat)
  deriving DecidableEq, Repr

inductive Verdict
  | ok
  | denied                       -- ErrPolicyDenied
  | noMatch                      -- ErrNoMatchingPolicy
  | checksFailed (ids : List CheckId)
  | runError (e : RunErr)
  deriving DecidableEq, Repr

structure AuthState where
  world : World
  baseWorld : World
  checks : List Check
  policies : List Policy
  dirty : Bool
  limits : Limits
  deriving DecidableEq, Repr

/-- `NewVerifier` + options (authorizer.go:59-77): empty world carrying the limits. -/
def AuthState.fresh (lim : Limits) : AuthState :=
  { world := .empty, baseWorld := .empty, checks := [], policies := [], dirty := false, limits := lim }

section
variable (cfg : EvalCfg)

def runWorld (lim : Limits) (w : World) : World × Option RunErr :=
  let r := run (evalBool cfg) lim.maxFacts w.rules lim.maxIter w.facts
  ({ w with facts := r.1 }, r.2)

/-- A query is satisfied when `QueryRule` returns at least one fact (authorizer.go:147-150). -/
def queryHolds (facts : List DFact) (q : DRule) : Bool :=
  !(queryRule (evalBool cfg) q facts).isEmpty

/-- A check is a disjunction of queries. -/
def checkHolds (facts : List DFact) (c : Check) : Bool :=
  c.queries.any (queryHolds cfg facts)

/-- Failed checks of a list, in order, tagged by position. -/
def failedFrom (facts : List DFact) (mk : Nat → CheckId) : List Check → Nat → List CheckId
  | [], _ => []
  | c :: cs, i =>
    if checkHolds cfg facts c then failedFrom facts mk cs (i + 1)
    else mk i :: failedFrom facts mk cs (i + 1)

def failedChecks (facts : List DFact) (mk : Nat → CheckId) (cs : List Check) : List CheckId :=
  failedFrom cfg facts mk cs 0

/-- First policy, in insertion order, with a satisfied query (authorizer.go:184-204). -/
def firstPolicy (facts : List DFact) : List Policy → Option PolicyKind
  | [] => none
  | p :: ps => if p.queries.any (queryHolds cfg facts) then some p.kind else firstPolicy facts ps

/-- One later block: private copy of the authority-level facts, plus the block's
facts and rules, run, then only this block's checks (authorizer.go:210-259). -/
def evalBlock (lim : Limits) (base : List DFact) (b : Block) (idx : Nat) : Except RunErr (List CheckId) :=
  let w : World := { facts := insertAll base b.facts, rules := b.rules }
  match runWorld cfg lim w with
  | (_, some e) => .error e
  | (w', none) => .ok (failedChecks cfg w'.facts (CheckId.block idx) b.checks)

/-- The block loop: stops at the first run error, otherwise accumulates failures. -/
def blockPhase (lim : Limits) (base : List DFact) : List Block → Nat → List CheckId → Except RunErr (List CheckId)
  | [], _, acc => .ok acc
  | b :: bs, idx, acc =>
    match evalBlock cfg lim base b idx with
    | .error e => .error e
    | .ok failed => blockPhase lim base bs (idx + 1) (acc ++ failed)

/-- What the part of `Authorize` before the block loop computes; it does not mention
the later blocks. -/
structure AuthorityPhase where
  world : World                       -- the facts after the run (what every block world starts from)
  failed : List CheckId               -- authorizer checks then authority checks
  policy : Option PolicyKind
  deriving DecidableEq, Repr

def authorityPhase (authority : Block) (s : AuthState) : World × Except RunErr AuthorityPhase :=
  let w1 : World := { facts := insertAll s.world.facts authority.facts,
                      rules := s.world.rules ++ authority.rules }
  match runWorld cfg s.limits w1 with
  | (w2, some e) => (w2, .error e)
  | (w2, none) =>
    let failedA := failedChecks cfg w2.facts CheckId.authorizer s.checks
    let failed0 := failedChecks cfg w2.facts (CheckId.block 0) authority.checks
    let pol := firstPolicy cfg w2.facts s.policies
    -- the rules stay with the authorizer's world (authorizer.go: every block world is a clone
    -- whose rules are reset; finding D28): a later Authorize or Query applies them again
    (w2, .ok { world := { w2 with rules := [] }, failed := failedA ++ failed0, policy := pol })

def policyVerdict : Option PolicyKind → Verdict
  | some .allow => .ok
  | some .deny => .denied
  | none => .noMatch

/-- `Authorize`. `pinnedReset = true`: the pinned tree's overwrite of the base world. The
evaluated flag is set whatever the outcome (authorizer.go: `v.dirty = true` before the world
is touched; finding D25). -/
def authorizeWith (pinnedReset : Bool) (tok : Token) (s : AuthState) : AuthState × Verdict :=
  match authorityPhase cfg tok.authority s with
  | (w, .error e) => ({ s with world := w, dirty := true }, .runError e)
  | (w, .ok ap) =>
    let s' : AuthState := { s with world := w, dirty := true }
    match blockPhase cfg s.limits w.facts tok.blocks 1 ap.failed with
    | .error e => (s', .runError e)
    | .ok failed =>
      if !failed.isEmpty then (s', .checksFailed failed)
      else
        let s'' := if pinnedReset then { s' with baseWorld := w } else s'
        (s'', policyVerdict ap.policy)

def authorize (tok : Token) (s : AuthState) : AuthState × Verdict :=
  authorizeWith cfg false tok s

/-- `Query` (authorizer.go:280-299): run the authority-level world, then query it. -/
def query (s : AuthState) (q : DRule) : AuthState × Except RunErr (List DFact) :=
  match runWorld cfg s.limits s.world with
  | (w, some e) => ({ s with world := w, dirty := true }, .error e)
  | (w, none) => ({ s with world := w, dirty := true }, .ok (queryRule (evalBool cfg) q w.facts))

end

def addFact (s : AuthState) (f : DFact) : AuthState :=
  { s with world := { s.world with facts := insertFact s.world.facts f } }

def addRule (s : AuthState) (r : DRule) : AuthState :=
  { s with world := { s.world with rules := s.world.rules ++ [r] } }

def addCheck (s : AuthState) (c : Check) : AuthState := { s with checks := s.checks ++ [c] }

def addPolicy (s : AuthState) (p : Policy) : AuthState := { s with policies := s.policies ++ [p] }

/-- `Reset` (authorizer.go:316-322). -/
def reset (s : AuthState) : AuthState :=
  { s with world := s.baseWorld, checks := [], policies := [], dirty := false }

/-- Content of an authorizer snapshot (`SerializePolicies`, authorizer.go:403-470). -/
structure Snapshot where
  facts : List DFact
  rules : List DRule
  checks : List Check
  policies : List Policy
  deriving DecidableEq, Repr

/-- Saving is refused once the authorizer has been evaluated. -/
def save (s : AuthState) : Option Snapshot :=
  if s.dirty then none
  else some { facts := s.world.facts, rules := s.world.rules, checks := s.checks, policies := s.policies }

/-- `LoadPolicies` (authorizer.go `loadPoliciesV2`): facts, rules, checks and policies are
added to what the authorizer holds; loaded policies come after the ones given before
(finding D29: checks and policies given before a load used to be dropped). -/
def load (s : AuthState) (snap : Snapshot) : AuthState :=
  { s with world := { facts := insertAll s.world.facts snap.facts, rules := s.world.rules ++ snap.rules },
           checks := s.checks ++ snap.checks, policies := s.policies ++ snap.policies }

/-- Operations of an authorizer history (`AUTHSEQ` protocol verb). -/
inductive AuthOp
  | addFact (f : DFact)
  | addRule (r : DRule)
  | addCheck (c : Check)
  | addPolicy (p : Policy)
  | authorize
  | query (q : DRule)
  | reset
  | saveLoad (tok : Nat)      -- save, then load into a fresh authorizer for token `tok`
  | loadSnap (snap : Snapshot) -- `LoadPolicies` of a snapshot made elsewhere, on this authorizer
  deriving DecidableEq, Repr

inductive AuthOut
  | none
  | verdict (v : Verdict)
  | facts (fs : List DFact)
  | queryErr (e : RunErr)
  | saved (ok : Bool)
  deriving DecidableEq, Repr

/-- A history runs against a family of tokens; the authorizer is attached to one. -/
structure SeqState where
  tok : Nat
  auth : AuthState
  deriving DecidableEq, Repr

def tokenAt (toks : List Token) (i : Nat) : Token :=
  toks.getD i { authority := { facts := [], rules := [], checks := [] }, blocks := [] }

def stepOpSeq (cfg : EvalCfg) (pinnedReset : Bool) (toks : List Token) (st : SeqState) : AuthOp → SeqState × AuthOut
  | .addFact f => ({ st with auth := addFact st.auth f }, .none)
  | .addRule r => ({ st with auth := addRule st.auth r }, .none)
  | .addCheck c => ({ st with auth := addCheck st.auth c }, .none)
  | .addPolicy p => ({ st with auth := addPolicy st.auth p }, .none)
  | .authorize =>
    let r := authorizeWith cfg pinnedReset (tokenAt toks st.tok) st.auth
    ({ st with auth := r.1 }, .verdict r.2)
  | .query q =>
    match query cfg st.auth q with
    | (a, .ok fs) => ({ st with auth := a }, .facts fs)
    | (a, .error e) => ({ st with auth := a }, .queryErr e)
  | .reset => ({ st with auth := reset st.auth }, .none)
  | .saveLoad j =>
    match save st.auth with
    | none => (st, .saved false)
    | some snap => ({ tok := j, auth := load (AuthState.fresh st.auth.limits) snap }, .saved true)
  | .loadSnap snap => ({ st with auth := load st.auth snap }, .saved true)

def runSeq (cfg : EvalCfg) (pinnedReset : Bool) (toks : List Token) : SeqState → List AuthOp → List AuthOut
  | _, [] => []
  | st, op :: ops =>
    let r := stepOpSeq cfg pinnedReset toks st op
    r.2 :: runSeq cfg pinnedReset toks r.1 ops

end Biscuit
