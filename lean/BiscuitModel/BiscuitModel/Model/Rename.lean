/-
Model/Rename — consistent renaming of rule variables (property C12, "renaming
variables consistently").

A renaming is a map `ρ : Bytes → Bytes` on variable names (`Term.var` carries a
`Bytes`). It acts on terms, predicates, expressions (the `.value (.var n)` ops),
rules, checks, policies, blocks, tokens and authorizer states. Facts are ground
by type (`Fact.args : List V`), so they carry no variable and are left alone.

The structural maps are written once for an arbitrary rule transformer
`f : DRule → DRule` (`*.mapRules`); `rename* ρ` is the instance `f := renameRule ρ`.

Core Lean only.
-/
import BiscuitModel.Model.Authorizer

namespace Biscuit

/-! ### Renaming inside one rule -/

def renameTerm {V : Type} (ρ : Bytes → Bytes) : Term V → Term V
  | .var n => .var (ρ n)
  | .const v => .const v

def renamePred {V : Type} (ρ : Bytes → Bytes) (p : Pred V) : Pred V :=
  { name := p.name, terms := p.terms.map (renameTerm ρ) }

def renameOp (ρ : Bytes → Bytes) : Op → Op
  | .value t => .value (renameTerm ρ t)
  | .unary u => .unary u
  | .binary b => .binary b

def renameExpr (ρ : Bytes → Bytes) (e : Expr) : Expr := e.map (renameOp ρ)

def renameRule (ρ : Bytes → Bytes) (r : DRule) : DRule :=
  { head := renamePred ρ r.head
    body := r.body.map (renamePred ρ)
    exprs := r.exprs.map (renameExpr ρ) }

/-- Renaming of the keys of a binding environment. -/
def renameBindings {V : Type} (ρ : Bytes → Bytes) (σ : Bindings V) : Bindings V :=
  σ.map fun p => (ρ p.1, p.2)

/-! ### Variables of a rule -/

def termVar? {V : Type} : Term V → Option Bytes
  | .var n => some n
  | .const _ => none

def termsVars {V : Type} (ts : List (Term V)) : List Bytes := ts.filterMap termVar?

def predVars {V : Type} (p : Pred V) : List Bytes := termsVars p.terms

def opVar? : Op → Option Bytes
  | .value (.var n) => some n
  | _ => none

def exprVars (e : Expr) : List Bytes := e.filterMap opVar?

/-- Variables of a rule: head, then body, then expressions (with repetitions). -/
def ruleVars (r : DRule) : List Bytes :=
  predVars r.head ++ r.body.flatMap predVars ++ r.exprs.flatMap exprVars

/-- `ρ` is injective on the names listed in `l`. -/
abbrev InjOn (ρ : Bytes → Bytes) (l : List Bytes) : Prop :=
  ∀ a ∈ l, ∀ b ∈ l, ρ a = ρ b → a = b

/-! ### Structural maps over the rules of checks, policies, blocks, tokens, authorizers -/

def Check.mapRules (f : DRule → DRule) (c : Check) : Check :=
  { queries := c.queries.map f }

def Policy.mapRules (f : DRule → DRule) (p : Policy) : Policy :=
  { kind := p.kind, queries := p.queries.map f }

def Block.mapRules (f : DRule → DRule) (b : Block) : Block :=
  { facts := b.facts, rules := b.rules.map f, checks := b.checks.map (Check.mapRules f) }

def Token.mapRules (f : DRule → DRule) (t : Token) : Token :=
  { authority := t.authority.mapRules f, blocks := t.blocks.map (Block.mapRules f) }

def World.mapRules (f : DRule → DRule) (w : World) : World :=
  { facts := w.facts, rules := w.rules.map f }

def AuthState.mapRules (f : DRule → DRule) (s : AuthState) : AuthState :=
  { world := s.world.mapRules f
    baseWorld := s.baseWorld.mapRules f
    checks := s.checks.map (Check.mapRules f)
    policies := s.policies.map (Policy.mapRules f)
    dirty := s.dirty
    limits := s.limits }

def renameCheck (ρ : Bytes → Bytes) : Check → Check := Check.mapRules (renameRule ρ)
def renamePolicy (ρ : Bytes → Bytes) : Policy → Policy := Policy.mapRules (renameRule ρ)
def renameBlock (ρ : Bytes → Bytes) : Block → Block := Block.mapRules (renameRule ρ)
def renameToken (ρ : Bytes → Bytes) : Token → Token := Token.mapRules (renameRule ρ)
def renameWorld (ρ : Bytes → Bytes) : World → World := World.mapRules (renameRule ρ)
def renameAuth (ρ : Bytes → Bytes) : AuthState → AuthState := AuthState.mapRules (renameRule ρ)

/-! ### The rules and queries that an `Authorize` call evaluates -/

def Block.allRules (b : Block) : List DRule :=
  b.rules ++ b.checks.flatMap (·.queries)

def Token.allRules (t : Token) : List DRule :=
  t.authority.allRules ++ t.blocks.flatMap Block.allRules

/-- World rules, check queries, policy queries. (`baseWorld` is only stored, never
evaluated, by `Authorize` and `Query`.) -/
def AuthState.allRules (s : AuthState) : List DRule :=
  s.world.rules ++ s.checks.flatMap (·.queries) ++ s.policies.flatMap (·.queries)

/-- `ρ` is injective on the variables of each rule and query of `tok` and `s`
(rule by rule: two different rules may share or merge names freely). -/
abbrev InjOnAll (ρ : Bytes → Bytes) (tok : Token) (s : AuthState) : Prop :=
  ∀ r ∈ tok.allRules ++ s.allRules, InjOn ρ (ruleVars r)

end Biscuit
