/-
Model/Grammar — the Datalog text parser (parser/parser.go lexer rules, parser/grammar.go
struct-tag grammar, `ToExpr` / `ToBiscuit` conversions).

* `lex`: the ordered alternation of the 19 lexer rules (parser.go:16-36): at each position
  the FIRST rule that matches wins (participle's simple lexer), whitespace and EOL elided.
* `parse*`: a recursive-descent reading of the documented grammar (parser/GRAMMAR.md) with
  the precedence ladder of grammar.go:261-329: `||` < `&&` < comparisons (non-associative)
  < `+ -` < `* /` < prefix `!` < toPostfix `.method(args)` < atoms and parentheses.
  Fuel is bounded by the token count.
* `toPostfix`: emission order of `ToExpr` (grammar.go:331-474): operands left to right,
  operator after its operands, `Parens` after a parenthesised subtree.
* `denote*`: literal values, parameter substitution, `or` as alternative queries.

This is the DOCUMENTED grammar. Where the implementation is more lenient (arguments
without commas, `.length(x)`, comments) the model rejects; where it deviates from the
document (keyword-prefixed identifiers, backslashes in strings) the correspondence check
keeps those input classes in separate labelled streams.

Integer literals are "any base-10 int64" (GRAMMAR.md): an optional sign `-` — the Operator
token `-` followed by an Int token, blanks between them allowed — and digits, leading zeros
dropped.  `PTerm.negInt ds` is the signed literal; the sign is taken only where a TERM
starts (`parseAtomTerm`), so `$x -5 > 0` is a subtraction and `1 - -5`, `1--5` subtract `-5`.
-/
import BiscuitModel.Model.Symbols

namespace Biscuit.Grammar
open Biscuit

/-! ## Lexer -/

inductive Tok
  | keyword (k : String)      -- "check if" | "allow if" | "deny if"
  | func (s : String)         -- prefix | suffix | matches | length | contains
  | hex (digits : List Char)  -- after "hex:"
  | dot | arrow | orOp | andOp
  | op (s : String)           -- == >= <= > < + - *
  | comment
  | str (s : List Char)       -- between the quotes, raw
  | var (s : String)
  | param (s : String)
  | date (s : List Char)
  | int (s : List Char)
  | bool (b : Bool)
  | ident (s : String)
  | punct (c : Char)
  deriving DecidableEq, Repr

def isDigit (c : Char) : Bool := '0' ≤ c && c ≤ '9'
def isHexDigit (c : Char) : Bool := isDigit c || ('a' ≤ c && c ≤ 'f') || ('A' ≤ c && c ≤ 'F')
def isLower (c : Char) : Bool := 'a' ≤ c && c ≤ 'z'
def isNameChar (c : Char) : Bool :=
  isLower c || ('A' ≤ c && c ≤ 'Z') || isDigit c || c == '_' || c == ':'

/-- Strip a literal prefix. -/
def stripLit : List Char → List Char → Option (List Char)
  | [], cs => some cs
  | _ :: _, [] => none
  | l :: ls, c :: cs => if l == c then stripLit ls cs else none

/-- RE2 word character (`\b` is a boundary between a word and a non-word character). -/
def isWordChar (c : Char) : Bool := isLower c || ('A' ≤ c && c ≤ 'Z') || isDigit c || c == '_'

/-- The rest of the input does not continue a word (`\b` after a literal ending in a letter). -/
def atWordEnd : List Char → Bool
  | [] => true
  | c :: _ => !isWordChar c

def firstLit (lits : List String) (cs : List Char) : Option (String × List Char) :=
  match lits with
  | [] => none
  | l :: rest => match stripLit l.toList cs with
    | some r => some (l, r)
    | none => firstLit rest cs

/-- First literal that matches and is followed by a word boundary: `(a|b|c)\b`. -/
def firstWord (lits : List String) (cs : List Char) : Option (String × List Char) :=
  match lits with
  | [] => none
  | l :: rest => match stripLit l.toList cs with
    | some r => if atWordEnd r then some (l, r) else firstWord rest cs
    | none => firstWord rest cs

def spanWhile (p : Char → Bool) : List Char → List Char × List Char
  | [] => ([], [])
  | c :: cs => if p c then let r := spanWhile p cs; (c :: r.1, r.2) else ([], c :: cs)

/-- `([0-9a-fA-F]{2})*`, greedy. -/
def hexPairs : List Char → List Char × List Char
  | a :: b :: rest => if isHexDigit a && isHexDigit b then let r := hexPairs rest; (a :: b :: r.1, r.2) else ([], a :: b :: rest)
  | cs => ([], cs)

def takeDigits (n : Nat) (cs : List Char) : Option (List Char × List Char) :=
  let d := cs.take n
  if d.length = n && d.all isDigit then some (d, cs.drop n) else none

/-- `\d\d\d\d-\d\d-\d\dT\d\d:\d\d:\d\d(\.\d+)?(Z|([-+]\d\d:\d\d))?` -/
def lexDate (cs : List Char) : Option (List Char × List Char) := do
  let (y, r) ← takeDigits 4 cs
  let r ← stripLit ['-'] r
  let (mo, r) ← takeDigits 2 r
  let r ← stripLit ['-'] r
  let (d, r) ← takeDigits 2 r
  let r ← stripLit ['T'] r
  let (h, r) ← takeDigits 2 r
  let r ← stripLit [':'] r
  let (mi, r) ← takeDigits 2 r
  let r ← stripLit [':'] r
  let (s, r) ← takeDigits 2 r
  let base := y ++ ['-'] ++ mo ++ ['-'] ++ d ++ ['T'] ++ h ++ [':'] ++ mi ++ [':'] ++ s
  -- optional fraction
  let (frac, r) := match r with
    | '.' :: r' => let sp := spanWhile isDigit r'; if sp.1.isEmpty then ([], r) else ('.' :: sp.1, sp.2)
    | _ => ([], r)
  -- optional zone
  let (zone, r) := match r with
    | 'Z' :: r' => (['Z'], r')
    | sgn :: r' =>
      if sgn == '+' || sgn == '-' then
        match takeDigits 2 r' with
        | some (zh, r'') => match stripLit [':'] r'' with
          | some r3 => match takeDigits 2 r3 with
            | some (zm, r4) => (sgn :: zh ++ [':'] ++ zm, r4)
            | none => ([], r)
          | none => ([], r)
        | none => ([], r)
      else ([], r)
    | [] => ([], r)
  pure (base ++ frac ++ zone, r)

def punctChars : List Char := "-[!@%^&#$*()+_={}|:;\"'<,>.?/]".toList

/-- One token at the head of the input, by the ordered rules; `none` = no rule matches.
The result also says whether the token is elided (whitespace, EOL). -/
def lexOne (cs : List Char) : Option (Option Tok × List Char) :=
  match firstLit ["check if", "allow if", "deny if"] cs with
  | some (k, r) => some (some (.keyword k), r)
  | none =>
  match firstWord ["prefix", "suffix", "matches", "length", "contains"] cs with
  | some (f, r) => some (some (.func f), r)
  | none =>
  match stripLit "hex:".toList cs with
  | some r => let p := hexPairs r; some (some (.hex p.1), p.2)
  | none =>
  match cs with
  | [] => none
  | c :: rest =>
    if c == '.' then some (some .dot, rest) else
    match stripLit "<-".toList cs with
    | some r => some (some .arrow, r)
    | none =>
    match stripLit "||".toList cs with
    | some r => some (some .orOp, r)
    | none =>
    match stripLit "&&".toList cs with
    | some r => some (some .andOp, r)
    | none =>
    match firstLit ["==", ">=", "<=", ">", "<", "+", "-", "*"] cs with
    | some (o, r) => some (some (.op o), r)
    | none =>
    match stripLit "//".toList cs with
    | some r => some (some .comment, (spanWhile (· != '\n') r).2)
    | none =>
    if c == '"' then
      let sp := spanWhile (· != '"') rest
      match sp.2 with
      | '"' :: r => some (some (.str sp.1), r)
      | _ => -- unterminated: the String rule does not match; falls through to Punct
        some (some (.punct '"'), rest)
    else if c == '$' then
      let sp := spanWhile isNameChar rest
      if sp.1.isEmpty then some (some (.punct '$'), rest) else some (some (.var (String.ofList sp.1)), sp.2)
    else if c == '{' then
      let sp := spanWhile isNameChar rest
      match sp.1.isEmpty, sp.2 with
      | false, '}' :: r => some (some (.param (String.ofList sp.1)), r)
      | _, _ => some (some (.punct '{'), rest)
    else
    match lexDate cs with
    | some (d, r) => some (some (.date d), r)
    | none =>
    if isDigit c then
      let sp := spanWhile isDigit cs
      some (some (.int sp.1), sp.2)
    else
    match firstWord ["true", "false"] cs with
    | some (b, r) => some (some (.bool (b == "true")), r)
    | none =>
    if isLower c then
      let sp := spanWhile isNameChar rest
      some (some (.ident (String.ofList (c :: sp.1))), sp.2)
    else if c == ' ' || c == '\t' then some (none, (spanWhile (fun x => x == ' ' || x == '\t') cs).2)
    else if c == '\n' || c == '\r' then some (none, (spanWhile (fun x => x == '\n' || x == '\r') cs).2)
    else if punctChars.contains c then some (some (.punct c), rest)
    else none

/-- Tokenise; fuel = input length + 1 (every rule consumes at least one character). -/
def lexAux : Nat → List Char → Option (List Tok)
  | _, [] => some []
  | 0, _ :: _ => none
  | fuel + 1, cs =>
    match lexOne cs with
    | none => none
    | some (t, rest) =>
      if rest.length < cs.length then
        match lexAux fuel rest with
        | none => none
        | some ts => some (match t with | some t => t :: ts | none => ts)
      else none

def lex (s : List Char) : Option (List Tok) := lexAux (s.length + 1) s

/-! ## Abstract syntax of the documented grammar -/

inductive PTerm
  | param (n : String)
  | var (n : String)
  | int (digits : List Char)
  | negInt (digits : List Char)   -- `-` digits: the sign is part of the literal (grammar.go `@("-"? Int)`)
  | str (s : List Char)
  | date (s : List Char)
  | bytes (hexDigits : List Char)
  | bool (b : Bool)
  | set (elts : List PTerm)
  deriving Repr

inductive PExpr
  | term (t : PTerm)
  | paren (e : PExpr)
  | neg (e : PExpr)
  | bin (op : BinOp) (l r : PExpr)
  | method (op : BinOp) (recv arg : PExpr)
  | length (recv : PExpr)
  deriving Repr

structure PPred where
  name : String
  terms : List PTerm
  deriving Repr

inductive PElem
  | pred (p : PPred)
  | expr (e : PExpr)
  deriving Repr

structure PRule where
  head : PPred
  body : List PElem
  deriving Repr

structure PCheck where
  queries : List (List PElem)
  deriving Repr

structure PPolicy where
  allow : Bool
  queries : List (List PElem)
  deriving Repr

inductive PItem
  | fact (p : PPred)
  | rule (r : PRule)
  | check (c : PCheck)
  | policy (p : PPolicy)
  deriving Repr

/-! ## Parser (tokens → AST) -/

abbrev P (α : Type) := List Tok → Option (α × List Tok)

def expectPunct (c : Char) : P Unit
  | .punct d :: rest => if c == d then some ((), rest) else none
  | _ => none

/-- A term that is not a set.  An integer literal may carry a sign: the Operator token `-`
directly followed (blanks are elided by the lexer) by an Int token is ONE literal
(grammar.go: `Integer *int64 "| @(\"-\"? Int)"`).  The sign is only looked for here, where a
term starts; after a complete operand a `-` is the binary operator (`addLoop`). -/
def parseAtomTerm : P PTerm
  | .op "-" :: .int s :: r => some (.negInt s, r)
  | .param n :: r => some (.param n, r)
  | .var n :: r => some (.var n, r)
  | .hex d :: r => some (.bytes d, r)
  | .str s :: r => some (.str s, r)
  | .date s :: r => some (.date s, r)
  | .int s :: r => some (.int s, r)
  | .bool b :: r => some (.bool b, r)
  | _ => none

/-- `x ("," x)*` for non-set terms. -/
def parseAtomList : Nat → P (List PTerm)
  | 0, _ => none
  | fuel + 1, toks =>
    match parseAtomTerm toks with
    | none => none
    | some (t, .punct ',' :: rest) =>
      match parseAtomList fuel rest with
      | none => none
      | some (ts, rest') => some (t :: ts, rest')
    | some (t, rest) => some ([t], rest)

/-- Term: atom or `[` atoms `]` (sets are not nested). -/
def parseTerm (fuel : Nat) : P PTerm
  | .punct '[' :: rest =>
    match parseAtomList fuel rest with
    | some (ts, .punct ']' :: rest') => some (.set ts, rest')
    | _ => none
  | toks => parseAtomTerm toks

def parseTermList : Nat → P (List PTerm)
  | 0, _ => none
  | fuel + 1, toks =>
    match parseTerm fuel toks with
    | none => none
    | some (t, .punct ',' :: rest) =>
      match parseTermList fuel rest with
      | none => none
      | some (ts, rest') => some (t :: ts, rest')
    | some (t, rest) => some ([t], rest)

/-- `Name "(" (Term ("," Term)*)? ")"` -/
def parsePred (fuel : Nat) : P PPred
  | .ident n :: .punct '(' :: .punct ')' :: rest => some ({ name := n, terms := [] }, rest)
  | .ident n :: .punct '(' :: rest =>
    match parseTermList fuel rest with
    | some (ts, .punct ')' :: rest') => some ({ name := n, terms := ts }, rest')
    | _ => none
  | _ => none

def cmpOfTok : Tok → Option BinOp
  | .op "<=" => some .le | .op ">=" => some .ge | .op "<" => some .lt | .op ">" => some .gt
  | .op "==" => some .eq | _ => none

def addOfTok : Tok → Option BinOp
  | .op "+" => some .add | .op "-" => some .sub | _ => none

def mulOfTok : Tok → Option BinOp
  | .op "*" => some .mul | .punct '/' => some .div | _ => none

/-- Method names after a dot; `length` takes no argument. -/
def methodOfTok : Tok → Option (Option BinOp)
  | .func "matches" => some (some .regex)
  | .ident "starts_with" => some (some .pfx)
  | .ident "ends_with" => some (some .sfx)
  | .func "contains" => some (some .contains)
  | .ident "union" => some (some .union)
  | .ident "intersection" => some (some .intersection)
  | .func "length" => some none
  | _ => none

mutual
  /-- Level 0: `||`-chain. -/
  def parseOr : Nat → P PExpr
    | 0, _ => none
    | fuel + 1, toks =>
      match parseAnd fuel toks with
      | none => none
      | some (l, rest) => orLoop fuel l rest
  def orLoop : Nat → PExpr → P PExpr
    | 0, _, _ => none
    | fuel + 1, l, .orOp :: rest =>
      match parseAnd fuel rest with
      | none => none
      | some (r, rest') => orLoop fuel (.bin .or l r) rest'
    | _ + 1, l, toks => some (l, toks)
  /-- Level 1: `&&`-chain. -/
  def parseAnd : Nat → P PExpr
    | 0, _ => none
    | fuel + 1, toks =>
      match parseCmp fuel toks with
      | none => none
      | some (l, rest) => andLoop fuel l rest
  def andLoop : Nat → PExpr → P PExpr
    | 0, _, _ => none
    | fuel + 1, l, .andOp :: rest =>
      match parseCmp fuel rest with
      | none => none
      | some (r, rest') => andLoop fuel (.bin .and l r) rest'
    | _ + 1, l, toks => some (l, toks)
  /-- Level 2: at most one comparison (non-associative). -/
  def parseCmp : Nat → P PExpr
    | 0, _ => none
    | fuel + 1, toks =>
      match parseAdd fuel toks with
      | none => none
      | some (l, t :: rest) =>
        match cmpOfTok t with
        | some op =>
          match parseAdd fuel rest with
          | none => none
          | some (r, rest') => some (.bin op l r, rest')
        | none => some (l, t :: rest)
      | some (l, []) => some (l, [])
  /-- Level 3: `+ -` chain. -/
  def parseAdd : Nat → P PExpr
    | 0, _ => none
    | fuel + 1, toks =>
      match parseMul fuel toks with
      | none => none
      | some (l, rest) => addLoop fuel l rest
  def addLoop : Nat → PExpr → P PExpr
    | 0, _, _ => none
    | fuel + 1, l, t :: rest =>
      match addOfTok t with
      | some op =>
        match parseMul fuel rest with
        | none => none
        | some (r, rest') => addLoop fuel (.bin op l r) rest'
      | none => some (l, t :: rest)
    | _ + 1, l, [] => some (l, [])
  /-- Level 4: `* /` chain. -/
  def parseMul : Nat → P PExpr
    | 0, _ => none
    | fuel + 1, toks =>
      match parseNot fuel toks with
      | none => none
      | some (l, rest) => mulLoop fuel l rest
  def mulLoop : Nat → PExpr → P PExpr
    | 0, _, _ => none
    | fuel + 1, l, t :: rest =>
      match mulOfTok t with
      | some op =>
        match parseNot fuel rest with
        | none => none
        | some (r, rest') => mulLoop fuel (.bin op l r) rest'
      | none => some (l, t :: rest)
    | _ + 1, l, [] => some (l, [])
  /-- Level 5: optional prefix `!`. -/
  def parseNot : Nat → P PExpr
    | 0, _ => none
    | fuel + 1, .punct '!' :: rest =>
      match parsePostfix fuel rest with
      | none => none
      | some (e, rest') => some (.neg e, rest')
    | fuel + 1, toks => parsePostfix fuel toks
  /-- Level 6: atom followed by method calls. -/
  def parsePostfix : Nat → P PExpr
    | 0, _ => none
    | fuel + 1, toks =>
      match parseAtom fuel toks with
      | none => none
      | some (e, rest) => methodLoop fuel e rest
  def methodLoop : Nat → PExpr → P PExpr
    | 0, _, _ => none
    | fuel + 1, recv, .dot :: m :: .punct '(' :: rest =>
      match methodOfTok m with
      | some none =>
        match rest with
        | .punct ')' :: rest' => methodLoop fuel (.length recv) rest'
        | _ => none
      | some (some op) =>
        match parseOr fuel rest with
        | some (arg, .punct ')' :: rest') => methodLoop fuel (.method op recv arg) rest'
        | _ => none
      | none => none
    | _ + 1, recv, toks => some (recv, toks)
  /-- Level 7: term or parenthesised expression. -/
  def parseAtom : Nat → P PExpr
    | 0, _ => none
    | fuel + 1, .punct '(' :: rest =>
      match parseOr fuel rest with
      | some (e, .punct ')' :: rest') => some (.paren e, rest')
      | _ => none
    | fuel + 1, toks =>
      match parseTerm fuel toks with
      | some (t, rest) => some (.term t, rest)
      | none => none
end

/-- Rule-body element: a predicate (starts with an identifier followed by `(`) or an expression. -/
def parseElem (fuel : Nat) : P PElem
  | .ident n :: .punct '(' :: rest =>
    (parsePred fuel (.ident n :: .punct '(' :: rest)).map fun r => (.pred r.1, r.2)
  | toks => (parseOr fuel toks).map fun r => (.expr r.1, r.2)

def parseElems : Nat → P (List PElem)
  | 0, _ => none
  | fuel + 1, toks =>
    match parseElem fuel toks with
    | none => none
    | some (e, .punct ',' :: rest) =>
      match parseElems fuel rest with
      | none => none
      | some (es, rest') => some (e :: es, rest')
    | some (e, rest) => some ([e], rest)

/-- `body ("or" body)*` -/
def parseQueries : Nat → P (List (List PElem))
  | 0, _ => none
  | fuel + 1, toks =>
    match parseElems fuel toks with
    | none => none
    | some (q, .ident "or" :: rest) =>
      match parseQueries fuel rest with
      | none => none
      | some (qs, rest') => some (q :: qs, rest')
    | some (q, rest) => some ([q], rest)

/-- One block / authorizer element (without the terminating `;`). -/
def parseItem (fuel : Nat) (allowPolicy : Bool) : P PItem
  | .keyword "check if" :: rest => (parseQueries fuel rest).map fun r => (.check { queries := r.1 }, r.2)
  | .keyword "allow if" :: rest =>
    if allowPolicy then (parseQueries fuel rest).map fun r => (.policy { allow := true, queries := r.1 }, r.2) else none
  | .keyword "deny if" :: rest =>
    if allowPolicy then (parseQueries fuel rest).map fun r => (.policy { allow := false, queries := r.1 }, r.2) else none
  | toks =>
    match parsePred fuel toks with
    | none => none
    | some (h, .arrow :: rest) => (parseElems fuel rest).map fun r => (.rule { head := h, body := r.1 }, r.2)
    | some (h, rest) => some (.fact h, rest)

/-- `(item ";")*` up to the end of the input. -/
def parseItems : Nat → Bool → List Tok → Option (List PItem)
  | _, _, [] => some []
  | 0, _, _ :: _ => none
  | fuel + 1, pol, toks =>
    match parseItem fuel pol toks with
    | some (it, .punct ';' :: rest) => (parseItems fuel pol rest).map (it :: ·)
    | _ => none

def fuelFor (toks : List Tok) : Nat := 16 * toks.length + 16

def parseBlockText (s : List Char) : Option (List PItem) :=
  (lex s).bind fun toks => parseItems (fuelFor toks) false toks

def parseAuthorizerText (s : List Char) : Option (List PItem) :=
  (lex s).bind fun toks => parseItems (fuelFor toks) true toks

/-- A single element (`FromStringFact/Rule/Check/Policy`): no trailing `;`. -/
def parseSingleText (s : List Char) : Option PItem :=
  (lex s).bind fun toks =>
    match parseItem (fuelFor toks) true toks with
    | some (it, []) => some it
    | _ => none

/-! ## Postfix emission (`ToExpr`) -/

inductive POp
  | value (t : PTerm)
  | unary (u : UnOp)
  | binary (b : BinOp)
  deriving Repr

def toPostfix : PExpr → List POp
  | .term t => [.value t]
  | .paren e => toPostfix e ++ [.unary .parens]
  | .neg e => toPostfix e ++ [.unary .negate]
  | .bin op l r => toPostfix l ++ toPostfix r ++ [.binary op]
  | .method op recv arg => toPostfix recv ++ toPostfix arg ++ [.binary op]
  | .length recv => toPostfix recv ++ [.unary .length]

/-! ## Denotation (`ToBiscuit`): literal values, parameters -/

def digitVal (c : Char) : Nat := c.toNat - '0'.toNat

def natOfDigits (ds : List Char) : Nat := ds.foldl (fun acc c => acc * 10 + digitVal c) 0

def hexNibble (c : Char) : Nat :=
  if isDigit c then c.toNat - '0'.toNat
  else if 'a' ≤ c && c ≤ 'f' then c.toNat - 'a'.toNat + 10
  else c.toNat - 'A'.toNat + 10

def bytesOfHex : List Char → Bytes
  | a :: b :: rest => UInt8.ofNat (hexNibble a * 16 + hexNibble b) :: bytesOfHex rest
  | _ => []

/-- Days since 1970-01-01 of a proleptic Gregorian date (Hinnant's `days_from_civil`). -/
def daysFromCivil (y m d : Nat) : Int :=
  let y' : Int := if m ≤ 2 then (y : Int) - 1 else y
  let era : Int := (if y' ≥ 0 then y' else y' - 399) / 400
  let yoe : Int := y' - era * 400
  let mp : Int := ((m : Int) + 9) % 12
  let doy : Int := (153 * mp + 2) / 5 + (d : Int) - 1
  let doe : Int := yoe * 365 + yoe / 4 - yoe / 100 + doy
  era * 146097 + doe - 719468

def isLeap (y : Nat) : Bool := (y % 4 == 0 && y % 100 != 0) || y % 400 == 0

def daysInMonth (y m : Nat) : Nat :=
  match m with
  | 1 | 3 | 5 | 7 | 8 | 10 | 12 => 31
  | 4 | 6 | 9 | 11 => 30
  | 2 => if isLeap y then 29 else 28
  | _ => 0

/-- RFC 3339 date-time → seconds since the epoch (`time.Parse(time.RFC3339, …).Unix()`);
`none` for what `time.Parse` rejects (no zone, out-of-range fields). Fractions are dropped. -/
def unixOfDate (s : List Char) : Option Int :=
  let y := natOfDigits (s.take 4)
  let mo := natOfDigits ((s.drop 5).take 2)
  let d := natOfDigits ((s.drop 8).take 2)
  let h := natOfDigits ((s.drop 11).take 2)
  let mi := natOfDigits ((s.drop 14).take 2)
  let sec := natOfDigits ((s.drop 17).take 2)
  let rest := s.drop 19
  let rest := match rest with
    | '.' :: r => (spanWhile isDigit r).2
    | r => r
  let zone : Option Int := match rest with
    | ['Z'] => some 0
    | sgn :: a :: b :: ':' :: c :: e :: [] =>
      let zh := natOfDigits [a, b]
      let zm := natOfDigits [c, e]
      if zh > 23 || zm > 59 then none
      else if sgn == '+' then some ((zh * 3600 + zm * 60 : Nat) : Int)
      else if sgn == '-' then some (-((zh * 3600 + zm * 60 : Nat) : Int))
      else none
    | _ => none
  match zone with
  | none => none
  | some off =>
    if mo < 1 || mo > 12 || d < 1 || d > daysInMonth y mo || h > 23 || mi > 59 || sec > 59 then none
    else some (daysFromCivil y mo d * 86400 + ((h * 3600 + mi * 60 + sec : Nat) : Int) - off)

abbrev Params := List (String × Term Val)

/-- Non-set literal or parameter. Integers: base-10, must fit in int64
(`-2^63 ≤ v < 2^63`; `-0` is `0`). -/
def denoteAtomTerm (ps : Params) : PTerm → Option (Term Val)
  | .param n => (ps.find? (·.1 == n)).map (·.2)
  | .var n => some (.var (strBytes n))
  | .int ds => let n := natOfDigits ds; if n < 2^63 then some (.const (.atom (.int n))) else none
  | .negInt ds => let n := natOfDigits ds; if n ≤ 2^63 then some (.const (.atom (.int (-(n : Int))))) else none
  | .str s => some (.const (.atom (.str (strBytes (String.ofList s)))))
  | .date s => (unixOfDate s).map fun u => .const (.atom (.date (if u ≥ 0 then u.toNat else (u + 2^64).toNat)))
  | .bytes ds => if ds.length % 2 = 0 then some (.const (.atom (.bytes (bytesOfHex ds)))) else none
  | .bool b => some (.const (.atom (.bool b)))
  | .set _ => none

def atomOfTerm : Term Val → Option Atom
  | .const (.atom a) => some a
  | _ => none

def denoteTerm (ps : Params) : PTerm → Option (Term Val)
  | .set elts => do
    let ts ← elts.mapM (denoteAtomTerm ps)
    let atoms ← ts.mapM atomOfTerm       -- no variables (and no sets) inside a set
    pure (.const (.set atoms))
  | t => denoteAtomTerm ps t

def denotePred (ps : Params) (p : PPred) : Option (Pred Val) := do
  let ts ← p.terms.mapM (denoteTerm ps)
  pure { name := strBytes p.name, terms := ts }

def denoteOp (ps : Params) : POp → Option Op
  | .value t => (denoteTerm ps t).map Op.value
  | .unary u => some (.unary u)
  | .binary b => some (.binary b)

def denoteExpr (ps : Params) (e : PExpr) : Option Expr := (toPostfix e).mapM (denoteOp ps)

/-- A rule body: predicates in order, expressions in order. -/
def denoteBody (ps : Params) (elems : List PElem) : Option (List (Pred Val) × List Expr) := do
  let preds ← (elems.filterMap fun | .pred p => some p | _ => none).mapM (denotePred ps)
  let exprs ← (elems.filterMap fun | .expr e => some e | _ => none).mapM (denoteExpr ps)
  pure (preds, exprs)

def queryHead : Pred Val := { name := strBytes "query", terms := [] }

def denoteQuery (ps : Params) (elems : List PElem) : Option DRule := do
  let (b, e) ← denoteBody ps elems
  pure { head := queryHead, body := b, exprs := e }

structure ParsedContent where
  facts : List (Pred Val)
  rules : List DRule
  checks : List Check
  policies : List Policy
  deriving DecidableEq, Repr

def denoteItems (ps : Params) : List PItem → Option ParsedContent
  | [] => some { facts := [], rules := [], checks := [], policies := [] }
  | it :: rest => do
    let c ← denoteItems ps rest
    match it with
    | .fact p => do
      let f ← denotePred ps p
      pure { c with facts := f :: c.facts }
    | .rule r => do
      let h ← denotePred ps r.head
      let (b, e) ← denoteBody ps r.body
      pure { c with rules := { head := h, body := b, exprs := e } :: c.rules }
    | .check ck => do
      let qs ← ck.queries.mapM (denoteQuery ps)
      pure { c with checks := { queries := qs } :: c.checks }
    | .policy p => do
      let qs ← p.queries.mapM (denoteQuery ps)
      pure { c with policies := { kind := if p.allow then .allow else .deny, queries := qs } :: c.policies }

end Biscuit.Grammar
